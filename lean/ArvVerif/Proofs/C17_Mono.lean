/-
C17 — the walk only appends to the plan.
-/
import ArvVerif.Proofs.C17_Term
namespace ArvVerif.C17

/-- `a` is an earlier state of `b` -/
structure Plan.le (a b : Plan) : Prop where
  dirs : a.dirs <+: b.dirs
  files : a.files <+: b.files
  frags : a.frags <+: b.frags

theorem Plan.le_refl (a : Plan) : a.le a := ⟨List.prefix_refl _, List.prefix_refl _, List.prefix_refl _⟩

theorem Plan.le_trans {a b c : Plan} (h1 : a.le b) (h2 : b.le c) : a.le c :=
  ⟨h1.dirs.trans h2.dirs, h1.files.trans h2.files, h1.frags.trans h2.frags⟩

theorem Plan.le_addDir (a : Plan) (d : Path) : a.le (a.addDir d) := by
  unfold Plan.addDir; split
  · exact Plan.le_refl _
  · exact ⟨List.prefix_append _ _, List.prefix_refl _, List.prefix_refl _⟩

theorem Plan.le_addKeep (a : Plan) (d : Path) : a.le (a.addKeep d) := by
  unfold Plan.addKeep; split
  · exact Plan.le_refl _
  · exact ⟨List.prefix_refl _, List.prefix_append _ _, List.prefix_refl _⟩

theorem Plan.le_addFile (a : Plan) (d p : Path) : a.le (a.addFile d p) :=
  ⟨List.prefix_refl _, List.prefix_append _ _, List.prefix_refl _⟩

theorem Plan.le_addFrags (a : Plan) (fs : List Frag) : a.le (a.addFrags fs) :=
  ⟨List.prefix_refl _, List.prefix_refl _, List.prefix_append _ _⟩

theorem walk_mono (h : Host) (cfg : Cfg) :
    ∀ (fuel : Nat) (c : Call) (st st' : Plan), walk h cfg fuel c st = .ok st' → st.le st' := by
  intro fuel
  induction fuel with
  | zero => intro c st st' hw; rw [walk] at hw; cases hw
  | succ fuel ih =>
    intro c st st' hw
    cases c with
    | mount dest src n below =>
      rw [walk] at hw
      simp only at hw
      split at hw
      · cases hw; exact Plan.le_refl _
      · cases hsm : srcMount cfg src with
        | none => rw [hsm] at hw; cases hw
        | some b =>
          obtain ⟨root, m⟩ := b
          rw [hsm] at hw
          simp only at hw
          have hcont : ∀ s1 : Plan,
              (if below = true then walk h cfg fuel (.below dest src n cfg.mounts) s1 else .ok s1) = .ok st' →
              s1.le st' := by
            intro s1 hc
            split at hc
            · exact ih _ _ _ hc
            · cases hc; exact Plan.le_refl _
          split at hw
          · exact hcont _ hw
          · split at hw
            · split at hw
              · exact ih _ _ _ hw
              · cases hw
            · split at hw
              · cases hw
              · split at hw
                · cases hc : m.coll with
                  | none => rw [hc] at hw; cases hw
                  | some c =>
                    rw [hc] at hw
                    exact Plan.le_trans (Plan.le_addFrags _ _) (hcont _ hw)
                · cases hw
    | below dest src n ms =>
      cases ms with
      | nil => rw [walk] at hw; cases hw; exact Plan.le_refl _
      | cons e ms =>
        obtain ⟨mnt, m⟩ := e
        rw [walk] at hw
        split at hw
        · obtain ⟨a, ha, hr⟩ := bind_eq_ok _ _ _ hw
          exact Plan.le_trans (ih _ _ _ ha) (ih _ _ _ hr)
        · exact ih _ _ _ hw
    | host dest src n inc =>
      rw [walk] at hw
      obtain ⟨a, ha, hr⟩ := bind_eq_ok _ _ _ hw
      have h1 : st.le a := by
        split at ha
        · exact ih _ _ _ ha
        · cases ha; exact Plan.le_refl _
      refine Plan.le_trans h1 ?_
      split at hr
      · split at hr
        · cases hr
        · exact ih _ _ _ hr
      · split at hr
        · cases hr
          exact Plan.le_trans (Plan.le_addDir _ _) (Plan.le_addKeep _ _)
        · exact Plan.le_trans (Plan.le_addDir _ _) (ih _ _ _ hr)
      · cases hr; exact Plan.le_addFile _ _ _
      · cases hr
      · cases hr
    | children dest src n names =>
      cases names with
      | nil => rw [walk] at hw; cases hw; exact Plan.le_refl _
      | cons name names =>
        rw [walk] at hw
        split at hw
        · exact ih _ _ _ hw
        · split at hw
          · exact ih _ _ _ hw
          · obtain ⟨a, ha, hr⟩ := bind_eq_ok _ _ _ hw
            exact Plan.le_trans (ih _ _ _ ha) (ih _ _ _ hr)

end ArvVerif.C17
