import ArvVerif.Model.C12
namespace ArvVerif.C12
variable {α : Type}

theorem geW_trans (w : α → Nat) : ∀ a b c : α, geW w a b = true → geW w b c = true → geW w a c = true := by
  intro a b c; simp only [geW, decide_eq_true_eq]; omega

theorem geW_total (w : α → Nat) : ∀ a b : α, (geW w a b || geW w b a) = true := by
  intro a b; simp only [geW, Bool.or_eq_true, decide_eq_true_eq]; omega

theorem probeOrder_is (w : α → Nat) (svcs : List α) : IsProbeOrder w svcs (probeOrder w svcs) := by
  refine ⟨List.mergeSort_perm _ _, ?_⟩
  have := List.pairwise_mergeSort (geW_trans w) (geW_total w) svcs
  exact this.imp (by intro a b h; simpa [geW] using h)

/-- With pairwise distinct weights any two sorted permutations coincide. -/
theorem isProbeOrder_unique (w : α → Nat) (svcs o1 o2 : List α)
    (hinj : ∀ a ∈ svcs, ∀ b ∈ svcs, w a = w b → a = b)
    (h1 : IsProbeOrder w svcs o1) (h2 : IsProbeOrder w svcs o2) : o1 = o2 := by
  apply List.Perm.eq_of_pairwise (le := fun a b => w b ≤ w a) _ h1.sorted h2.sorted
    (h1.perm.trans h2.perm.symm)
  intro a b ha hb hab hba
  have ha' : a ∈ svcs := h1.perm.mem_iff.mp ha
  have hb' : b ∈ svcs := h2.perm.mem_iff.mp hb
  exact hinj a ha' b hb' (by omega)

theorem isProbeOrder_erase [DecidableEq α] (w : α → Nat) (svcs o : List α) (s : α)
    (h : IsProbeOrder w svcs o) : IsProbeOrder w (svcs.erase s) (o.erase s) :=
  ⟨h.perm.erase s, h.sorted.sublist List.erase_sublist⟩

theorem isProbeOrder_filter (w : α → Nat) (svcs o : List α) (p : α → Bool)
    (h : IsProbeOrder w svcs o) : IsProbeOrder w (svcs.filter p) (o.filter p) :=
  ⟨h.perm.filter p, h.sorted.sublist List.filter_sublist⟩

theorem mem_hintRoots (gw : List Char → Option (List Char)) (fs : List (List Char)) (r : List Char)
    (h : r ∈ hintRoots gw fs) :
    (∃ f ∈ fs, f.length = 7 ∧ f.take 2 = ['K', '@'] ∧ r = proxyURL (f.drop 2)) ∨
    (∃ f ∈ fs, f.length = 29 ∧ f.take 2 = ['K', '@'] ∧ gw (f.drop 2) = some r) := by
  induction fs with
  | nil => simp [hintRoots] at h
  | cons f rest ih =>
    unfold hintRoots at h
    have lift : (∃ f' ∈ rest, f'.length = 7 ∧ f'.take 2 = ['K', '@'] ∧ r = proxyURL (f'.drop 2)) ∨
        (∃ f' ∈ rest, f'.length = 29 ∧ f'.take 2 = ['K', '@'] ∧ gw (f'.drop 2) = some r) →
        (∃ f' ∈ f :: rest, f'.length = 7 ∧ f'.take 2 = ['K', '@'] ∧ r = proxyURL (f'.drop 2)) ∨
        (∃ f' ∈ f :: rest, f'.length = 29 ∧ f'.take 2 = ['K', '@'] ∧ gw (f'.drop 2) = some r) := by
      rintro (⟨f', hf', hh⟩ | ⟨f', hf', hh⟩)
      · exact Or.inl ⟨f', List.mem_cons_of_mem _ hf', hh⟩
      · exact Or.inr ⟨f', List.mem_cons_of_mem _ hf', hh⟩
    cases hc : classifyHint f with
    | proxy c =>
      rw [hc] at h
      simp only [List.mem_cons] at h
      rcases h with h | h
      · left
        refine ⟨f, List.mem_cons_self, ?_⟩
        unfold classifyHint at hc
        split at hc
        · cases hc
        · split at hc
          · rename_i h1 h2
            simp only [not_or, Decidable.not_not] at h1
            injection hc with hc; subst hc
            exact ⟨h2, h1.2, h⟩
          · split at hc <;> cases hc
      · exact lift (ih h)
    | gateway u =>
      rw [hc] at h
      cases hg : gw u with
      | none => simp only [hg] at h; exact lift (ih h)
      | some r' =>
        simp only [hg, List.mem_cons] at h
        rcases h with h | h
        · right
          refine ⟨f, List.mem_cons_self, ?_⟩
          unfold classifyHint at hc
          split at hc
          · cases hc
          · split at hc
            · cases hc
            · split at hc
              · rename_i h1 _ h3
                simp only [not_or, Decidable.not_not] at h1
                injection hc with hc; subst hc
                exact ⟨h3, h1.2, by rw [hg, h]⟩
              · cases hc
        · exact lift (ih h)
    | other => rw [hc] at h; exact lift (ih h)

theorem hintRoots_nil_of_unusable (gw : List Char → Option (List Char)) (fs : List (List Char))
    (h : ∀ f ∈ fs, classifyHint f = .other ∨ ∃ u, classifyHint f = .gateway u ∧ gw u = none) :
    hintRoots gw fs = [] := by
  induction fs with
  | nil => rfl
  | cons f rest ih =>
    have ih' := ih (fun f' hf' => h f' (List.mem_cons_of_mem _ hf'))
    unfold hintRoots
    rcases h f List.mem_cons_self with h1 | ⟨u, h1, h2⟩
    · rw [h1]; exact ih'
    · rw [h1]; simp only [h2]; exact ih'

end ArvVerif.C12
