/-
C08 helper lemmas, part 9: `commitBlock` / `flushFiles` (dirnode.flush) are invisible: every file
keeps its per-segment bytes and lengths, its size and its `repacked` counter, whatever groups of
refs are committed.
-/
import ArvVerif.Proofs.C08_Write5
namespace ArvVerif.C08

variable {max : Nat} {hash : Bytes → Loc} {st : Store}

/-- What must not change in a file: per-segment bytes and lengths, size, repacked. -/
def fileKey (st : Store) (fn : FileNode) : List Bytes × List Nat × Nat × Int :=
  (fn.segs.map (Seg.bytes st), fn.segs.map Seg.len, fn.size, fn.repacked)

def AllWF (max : Nat) (hash : Bytes → Loc) (st : Store) (fs : List FileNode) : Prop :=
  ∀ fn ∈ fs, ∀ s ∈ fn.segs, SegWF max hash st s

theorem set_eq_self {α : Type} {l : List α} {i : Nat} {a : α} (h : l[i]? = some a) : l.set i a = l := by
  induction l generalizing i with
  | nil => rfl
  | cons x rest ih =>
    cases i with
    | zero => simp at h; simp [h]
    | succ i => simp only [List.getElem?_cons_succ] at h; simp [ih h]

theorem fileKey_ext {st' : Store} {fn : FileNode} (he : StoreExt st st')
    (h : ∀ s ∈ fn.segs, SegWF max hash st s) : fileKey st' fn = fileKey st fn := by
  unfold fileKey
  congr 1
  apply List.map_congr_left
  intro s hs
  exact (h s hs).bytes_ext he

theorem abs_of_key {st st' : Store} {fn fn' : FileNode} (h : fileKey st' fn' = fileKey st fn) :
    abs st' fn' = abs st fn ∧ SameLens fn'.segs fn.segs ∧ fn'.size = fn.size ∧ fn'.repacked = fn.repacked := by
  unfold fileKey at h
  simp only [Prod.mk.injEq] at h
  obtain ⟨h1, h2, h3, h4⟩ := h
  refine ⟨?_, h2, h3, h4⟩
  unfold abs absSegs
  rw [List.flatMap_def, List.flatMap_def, h1]

theorem commitBlock_spec (hinj : Function.Injective hash) (hok : StoreOK hash st) (files : List FileNode)
    (hwf : AllWF max hash st files) (refs : List Ref) :
    StoreExt st (commitBlock hash st files refs).1 ∧ StoreOK hash (commitBlock hash st files refs).1 ∧
    AllWF max hash (commitBlock hash st files refs).1 (commitBlock hash st files refs).2 ∧
    (commitBlock hash st files refs).2.map (fileKey (commitBlock hash st files refs).1) = files.map (fileKey st) := by
  obtain ⟨block, hblock⟩ : ∃ b, b = refs.flatMap (fun r => (refBuf files r).getD []) := ⟨_, rfl⟩
  have hext : StoreExt st (st.put hash block) := Store.put_ext hinj hok block
  have hget : (st.put hash block) (hash block) = some block := Store.put_get hash st block
  -- the fold, generalised over the already processed prefix of refs
  have fold : ∀ (todo done : List Ref) (fs : List FileNode), refs = done ++ todo →
      AllWF max hash (st.put hash block) fs → fs.map (fileKey (st.put hash block)) = files.map (fileKey st) →
      AllWF max hash (st.put hash block)
        (todo.foldl (fun (acc : List FileNode × Nat) (r : Ref) =>
          match refBuf files r with
          | some buf => (setSeg acc.1 r (Seg.stored (hash block) block.length acc.2 buf.length), acc.2 + buf.length)
          | none => acc) (fs, (done.flatMap (fun r => (refBuf files r).getD [])).length)).1 ∧
      (todo.foldl (fun (acc : List FileNode × Nat) (r : Ref) =>
          match refBuf files r with
          | some buf => (setSeg acc.1 r (Seg.stored (hash block) block.length acc.2 buf.length), acc.2 + buf.length)
          | none => acc) (fs, (done.flatMap (fun r => (refBuf files r).getD [])).length)).1.map
        (fileKey (st.put hash block)) = files.map (fileKey st) := by
    intro todo
    induction todo with
    | nil => intro done fs _ h1 h2; exact ⟨h1, h2⟩
    | cons r todo ih =>
      intro done fs hrefs h1 h2
      simp only [List.foldl_cons]
      have hdone : refs = (done ++ [r]) ++ todo := by rw [hrefs]; simp
      cases hrb : refBuf files r with
      | none =>
        simp only []
        have := ih (done ++ [r]) fs hdone h1 h2
        simpa [List.flatMap_append, hrb] using this
      | some buf =>
        simp only []
        -- what the ref points at in the original files
        have horig : ∃ fn0 fl, files[r.1]? = some fn0 ∧ fn0.segs[r.2]? = some (Seg.mem buf fl) := by
          unfold refBuf segAt at hrb
          cases hf : files[r.1]? with
          | none => simp [hf] at hrb
          | some fn0 =>
            simp only [hf] at hrb
            cases hsg : fn0.segs[r.2]? with
            | none => simp [hsg] at hrb
            | some sg =>
              simp only [hsg] at hrb
              cases sg with
              | stored => simp at hrb
              | mem b fl => simp at hrb; subst hrb; exact ⟨fn0, fl, rfl, hsg⟩
        obtain ⟨fn0, fl, hf0, hs0⟩ := horig
        have hbufwf : SegWF max hash st (Seg.mem buf fl) :=
          hwf fn0 (List.mem_of_getElem? hf0) _ (List.mem_of_getElem? hs0)
        -- the block around this ref's buffer
        obtain ⟨boff, hboff⟩ : ∃ n, n = (done.flatMap (fun r => (refBuf files r).getD [])).length := ⟨_, rfl⟩
        have hblk : (block.drop boff).take buf.length = buf := by
          rw [hblock, hrefs, List.flatMap_append, List.flatMap_cons, hboff, List.drop_left' rfl, hrb]
          exact List.take_left' rfl
        have hroom : boff + buf.length ≤ block.length := by
          rw [hblock, hrefs]
          simp only [List.flatMap_append, List.flatMap_cons, List.length_append, hrb, Option.getD_some, ← hboff]
          omega
        have hnewwf : SegWF max hash (st.put hash block) (Seg.stored (hash block) block.length boff buf.length) :=
          ⟨hbufwf.1, hroom, block, hget, rfl⟩
        have hnewbytes : (Seg.stored (hash block) block.length boff buf.length).bytes (st.put hash block) = buf := by
          rw [Seg.bytes_stored hget]; exact hblk
        -- the current file at r.1
        have hlen : fs.length = files.length := by
          have := congrArg List.length h2; simpa using this
        have hcur : ∃ fn, fs[r.1]? = some fn ∧ fileKey (st.put hash block) fn = fileKey st fn0 := by
          have h3 : (fs.map (fileKey (st.put hash block)))[r.1]? = (files.map (fileKey st))[r.1]? := by rw [h2]
          simp only [List.getElem?_map, hf0, Option.map_some] at h3
          cases hfs : fs[r.1]? with
          | none => rw [hfs] at h3; cases h3
          | some fn => rw [hfs] at h3; simp only [Option.map_some, Option.some.injEq] at h3; exact ⟨fn, rfl, h3⟩
        obtain ⟨fn, hfn, hkey⟩ := hcur
        have hsetseg : setSeg fs r (Seg.stored (hash block) block.length boff buf.length) =
            fs.set r.1 { fn with segs := fn.segs.set r.2 (Seg.stored (hash block) block.length boff buf.length) } := by
          unfold setSeg; rw [hfn]
        -- the key of the modified file is unchanged
        have hkey' : fileKey (st.put hash block)
            { fn with segs := fn.segs.set r.2 (Seg.stored (hash block) block.length boff buf.length) } =
            fileKey (st.put hash block) fn := by
          unfold fileKey at hkey ⊢
          simp only [Prod.mk.injEq] at hkey
          obtain ⟨k1, k2, _, _⟩ := hkey
          simp only [List.map_set, hnewbytes, Seg.len_stored]
          have e1 : (fn.segs.map (Seg.bytes (st.put hash block)))[r.2]? = some buf := by
            rw [k1]; simp [hs0]
          have e2 : (fn.segs.map Seg.len)[r.2]? = some buf.length := by
            rw [k2]; simp [hs0]
          rw [set_eq_self e1, set_eq_self e2]
        have h1' : AllWF max hash (st.put hash block) (setSeg fs r (Seg.stored (hash block) block.length boff buf.length)) := by
          rw [hsetseg]
          intro x hx s hs
          rcases List.mem_or_eq_of_mem_set hx with h | h
          · exact h1 x h s hs
          · rw [h] at hs
            rcases List.mem_or_eq_of_mem_set hs with h' | h'
            · exact h1 fn (List.mem_of_getElem? hfn) s h'
            · rw [h']; exact hnewwf
        have h2' : (setSeg fs r (Seg.stored (hash block) block.length boff buf.length)).map (fileKey (st.put hash block))
            = files.map (fileKey st) := by
          rw [hsetseg, List.map_set, hkey', ← h2]
          exact set_eq_self (by simp [hfn])
        have := ih (done ++ [r]) _ hdone h1' h2'
        simpa [List.flatMap_append, hrb, ← hboff] using this
  have hwf' : AllWF max hash (st.put hash block) files := fun fn hfn s hs => (hwf fn hfn s hs).ext hext
  have hkey0 : files.map (fileKey (st.put hash block)) = files.map (fileKey st) := by
    apply List.map_congr_left
    intro fn hfn
    exact fileKey_ext hext (hwf fn hfn)
  have := fold refs [] files rfl hwf' hkey0
  simp only [List.flatMap_nil, List.length_nil] at this
  unfold commitBlock
  simp only [← hblock]
  exact ⟨hext, Store.put_ok hok block, this.1, this.2⟩

/-- `dirnode.flush` on the files of a directory: Keep only grows, and every file keeps its key. -/
theorem flushFiles_spec (hinj : Function.Injective hash) (hok : StoreOK hash st) (files : List FileNode)
    (hwf : AllWF max hash st files) (short : Bool) :
    StoreExt st (flushFiles hash max st files short).1 ∧ StoreOK hash (flushFiles hash max st files short).1 ∧
    AllWF max hash (flushFiles hash max st files short).1 (flushFiles hash max st files short).2 ∧
    (flushFiles hash max st files short).2.map (fileKey (flushFiles hash max st files short).1) = files.map (fileKey st) := by
  unfold flushFiles
  generalize flushGroups max short files = groups
  -- induction over the groups with the invariant relative to the ORIGINAL files/store
  have : ∀ (groups : List (List Ref)) (acc : Store × List FileNode),
      StoreExt st acc.1 → StoreOK hash acc.1 → AllWF max hash acc.1 acc.2 →
      acc.2.map (fileKey acc.1) = files.map (fileKey st) →
      StoreExt st (groups.foldl (fun (acc : Store × List FileNode) g => commitBlock hash acc.1 acc.2 g) acc).1 ∧
      StoreOK hash (groups.foldl (fun (acc : Store × List FileNode) g => commitBlock hash acc.1 acc.2 g) acc).1 ∧
      AllWF max hash (groups.foldl (fun (acc : Store × List FileNode) g => commitBlock hash acc.1 acc.2 g) acc).1
        (groups.foldl (fun (acc : Store × List FileNode) g => commitBlock hash acc.1 acc.2 g) acc).2 ∧
      (groups.foldl (fun (acc : Store × List FileNode) g => commitBlock hash acc.1 acc.2 g) acc).2.map
        (fileKey (groups.foldl (fun (acc : Store × List FileNode) g => commitBlock hash acc.1 acc.2 g) acc).1)
        = files.map (fileKey st) := by
    intro groups
    induction groups with
    | nil => intro acc h1 h2 h3 h4; exact ⟨h1, h2, h3, h4⟩
    | cons g rest ih =>
      intro acc h1 h2 h3 h4
      simp only [List.foldl_cons]
      obtain ⟨c1, c2, c3, c4⟩ := commitBlock_spec hinj h2 acc.2 h3 g
      exact ih _ (h1.trans c1) c2 c3 (by rw [c4, h4])
  exact this groups (st, files) (StoreExt.refl _) hok hwf rfl

end ArvVerif.C08
