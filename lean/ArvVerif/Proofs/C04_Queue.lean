/-
C04, trash list → work queue → trash worker (`Model/C04_Queue.lean`): every execution of the server with its
queue is a request history of the history layer; what the workers execute comes from the lists that were
submitted, and after a replacement only from the new list and the items already in a worker's hands.
-/
import ArvVerif.Model.C04_Queue
import ArvVerif.Proofs.C04_Hist
namespace ArvVerif.C04.Queue
open ArvVerif.C04

theorem srun_is_run (c : Cfg) : ∀ (es : List Ev) (s : St) (q : QSt),
    (srun c s q es).1 = (run c s (opsOf q es)).1 := by
  intro es
  induction es with
  | nil => intro s q; rfl
  | cons e es ih =>
    intro s q
    simp only [srun, sstep, opsOf]
    cases h : evOp q e with
    | none => simp only [ih]
    | some op => simp only [ih, run]

theorem run_fst_eq_runG (c : Cfg) : ∀ (ops : List Op) (s : St) (g : Ghost),
    (run c s ops).1 = (runG c s g ops).1 := by
  intro ops
  induction ops with
  | nil => intro s g; rfl
  | cons op ops ih => intro s g; simp only [run, runG]; exact ih _ _

theorem mem_eraseIdx {α : Type} {x : α} : ∀ {l : List α} {k : Nat}, x ∈ l.eraseIdx k → x ∈ l := by
  intro l k h
  exact List.mem_of_mem_eraseIdx h

/-- without a replacement, everything executed was already queued or in a worker's hands -/
theorem executed_sub (es : List Ev) : ∀ (q : QSt), noReplace es → ∀ x ∈ executed q es, x ∈ q.todo ++ q.busy := by
  induction es with
  | nil => intro q _ x hx; cases hx
  | cons e es ih =>
    intro q hn x hx
    cases e with
    | req op =>
      exact ih q hn x (by simpa [executed, qstep] using hx)
    | putTrash l => exact absurd hn (by simp [noReplace])
    | take =>
      have hn' : noReplace es := hn
      have hx' : x ∈ executed (qstep q .take) es := by simpa [executed] using hx
      have := ih _ hn' x hx'
      cases ht : q.todo with
      | nil => simpa [qstep, ht] using this
      | cons y r =>
        simp only [qstep, ht, List.mem_append, List.mem_cons, List.not_mem_nil, or_false] at this ⊢
        rcases this with h | h | h
        · exact Or.inl (Or.inr h)
        · exact Or.inr h
        · exact Or.inl (Or.inl h)
    | exec k =>
      have hn' : noReplace es := hn
      simp only [executed] at hx
      cases hb : q.busy[k]? with
      | none =>
        rw [hb] at hx
        have := ih _ hn' x hx
        simp only [qstep, List.mem_append] at this ⊢
        exact this.imp id mem_eraseIdx
      | some y =>
        rw [hb] at hx
        rcases List.mem_cons.mp hx with h | h
        · subst h
          exact List.mem_append.mpr (Or.inr (List.mem_of_getElem? hb))
        · have := ih _ hn' x h
          simp only [qstep, List.mem_append] at this ⊢
          exact this.imp id mem_eraseIdx

/-- the `.trashItem` ops of the history are exactly the executed items -/
theorem executed_ops (es : List Ev) : ∀ (q : QSt) (x : Item), x ∈ executed q es → x.op ∈ opsOf q es := by
  induction es with
  | nil => intro q x hx; cases hx
  | cons e es ih =>
    intro q x hx
    cases e with
    | req op =>
      have : x ∈ executed (qstep q (.req op)) es := by simpa [executed] using hx
      simpa [opsOf, evOp] using Or.inr (ih _ x this)
    | putTrash l =>
      have : x ∈ executed (qstep q (.putTrash l)) es := by simpa [executed] using hx
      simpa [opsOf, evOp] using ih _ x this
    | take =>
      have : x ∈ executed (qstep q .take) es := by simpa [executed] using hx
      simpa [opsOf, evOp] using ih _ x this
    | exec k =>
      simp only [executed] at hx
      cases hb : q.busy[k]? with
      | none =>
        rw [hb] at hx
        simpa [opsOf, evOp, hb] using ih _ x hx
      | some y =>
        rw [hb] at hx
        rcases List.mem_cons.mp hx with h | h
        · subst h; simp [opsOf, evOp, hb]
        · simpa [opsOf, evOp, hb] using Or.inr (ih _ x h)

end ArvVerif.C04.Queue
