/-
C07 helper lemmas, part 8: the executable HMAC-SHA1 always returns 20 bytes, whatever the key
and message — the length hypothesis `∀ k m, (mac k m).length = 20` of the parsing theorems holds
for the MAC the implementation uses. (Only the *shape* of `SHA1.sum` matters: the five state words
are serialised as 4 bytes each after the loops, whatever the loops computed.)
-/
import ArvVerif.Model.C07_Hmac
namespace ArvVerif.C07

theorem sha1_be32_length (x : UInt32) : (SHA1.be32 x).length = 4 := rfl

theorem sha1_sum_size (msg : ByteArray) : (SHA1.sum msg).size = 20 := by
  unfold SHA1.sum
  simp only [Id.run, bind, pure, ByteArray.size, List.size_toArray, List.length_append, sha1_be32_length]

theorem sha1_hmac_size (key msg : ByteArray) : (SHA1.hmac key msg).size = 20 := by
  unfold SHA1.hmac
  exact sha1_sum_size _

theorem hmacSha1_length (key msg : Str) : (hmacSha1 key msg).length = 20 := by
  unfold hmacSha1
  rw [Array.length_toList]
  exact sha1_hmac_size _ _

end ArvVerif.C07
