/-
C09 helper lemmas, part 17: `loadManifest` on a tree that already holds some extra directories
(those made by empty-directory markers) behaves as on the tree without them, as long as no file it
creates or uses has the path of one of those directories: same files, same segments, and the
directories differ exactly by the extra ones.
-/
import ArvVerif.Proofs.C09_Marker
namespace ArvVerif.C09

open ArvVerif.C10 (bSpace bNL bSlash bColon bDot splitOn joinWith FsTree FsLine walkParents createFileAndParents
  appendSegs fsToken fsTokens fsLine fsLines Created)

/-- `t2` is `t1` plus the directories `X` -/
def Sim (X : List (List Bytes)) (t1 t2 : FsTree) : Prop :=
  t2.files = t1.files ∧ ∀ d, d ∈ t2.dirs ↔ (d ∈ t1.dirs ∨ d ∈ X)

def keysOf (t : FsTree) : List (List Bytes) := t.files.map (·.1)

theorem walkParents_sim (X : List (List Bytes)) : ∀ (cs cur : List Bytes) (t1 t2 t1' : FsTree) (r : List Bytes),
    Sim X t1 t2 → walkParents cs cur t1 = some (r, t1') →
    ∃ t2', walkParents cs cur t2 = some (r, t2') ∧ Sim X t1' t2' ∧ t1'.files = t1.files
  | [], cur, t1, t2, t1', r, hs, h => by
    simp only [walkParents, Option.some.injEq, Prod.mk.injEq] at h
    obtain ⟨rfl, rfl⟩ := h
    exact ⟨t2, rfl, hs, rfl⟩
  | n :: rest, cur, t1, t2, t1', r, hs, h => by
    unfold walkParents at h ⊢
    by_cases h1 : n = [] ∨ n = [bDot]
    · rw [if_pos h1] at h ⊢
      exact walkParents_sim X rest cur t1 t2 t1' r hs h
    · rw [if_neg h1] at h ⊢
      by_cases h2 : n = [bDot, bDot]
      · rw [if_pos h2] at h ⊢
        by_cases h3 : cur = []
        · rw [if_pos h3] at h; cases h
        · rw [if_neg h3] at h ⊢
          exact walkParents_sim X rest cur.dropLast t1 t2 t1' r hs h
      · rw [if_neg h2] at h ⊢
        simp only [] at h ⊢
        have hanyeq : t2.files.any (·.1 = cur ++ [n]) = t1.files.any (·.1 = cur ++ [n]) := by rw [hs.1]
        rw [hanyeq]
        by_cases h3 : t1.files.any (·.1 = cur ++ [n]) = true
        · rw [if_pos h3] at h; cases h
        · rw [if_neg h3] at h ⊢
          by_cases hc1 : t1.dirs.contains (cur ++ [n]) = true
          · rw [if_pos hc1] at h
            have hc2 : t2.dirs.contains (cur ++ [n]) = true :=
              List.contains_iff_mem.mpr ((hs.2 _).mpr (Or.inl (List.contains_iff_mem.mp hc1)))
            rw [if_pos hc2]
            exact walkParents_sim X rest _ t1 t2 t1' r hs h
          · rw [if_neg hc1] at h
            have hnot1 : cur ++ [n] ∉ t1.dirs := fun hm => hc1 (List.contains_iff_mem.mpr hm)
            by_cases hc2 : t2.dirs.contains (cur ++ [n]) = true
            · rw [if_pos hc2]
              have hx : cur ++ [n] ∈ X := by
                rcases (hs.2 _).mp (List.contains_iff_mem.mp hc2) with h' | h'
                · exact absurd h' hnot1
                · exact h'
              have hs' : Sim X { t1 with dirs := t1.dirs ++ [cur ++ [n]] } t2 := by
                refine ⟨hs.1, fun d => ?_⟩
                rw [hs.2 d]
                simp only [List.mem_append, List.mem_singleton]
                constructor
                · rintro (h' | h')
                  · exact Or.inl (Or.inl h')
                  · exact Or.inr h'
                · rintro ((h' | h') | h')
                  · exact Or.inl h'
                  · exact Or.inr (by rw [h']; exact hx)
                  · exact Or.inr h'
              obtain ⟨t2', e1, e2, e3⟩ := walkParents_sim X rest _ _ t2 t1' r hs' h
              exact ⟨t2', e1, e2, e3⟩
            · rw [if_neg hc2]
              have hs' : Sim X { t1 with dirs := t1.dirs ++ [cur ++ [n]] } { t2 with dirs := t2.dirs ++ [cur ++ [n]] } := by
                refine ⟨hs.1, fun d => ?_⟩
                simp only [List.mem_append, List.mem_singleton]
                rw [hs.2 d]
                constructor
                · rintro ((h' | h') | h')
                  · exact Or.inl (Or.inl h')
                  · exact Or.inr h'
                  · exact Or.inl (Or.inr h')
                · rintro ((h' | h') | h')
                  · exact Or.inl (Or.inl h')
                  · exact Or.inr h'
                  · exact Or.inl (Or.inr h')
              obtain ⟨t2', e1, e2, e3⟩ := walkParents_sim X rest _ _ _ t1' r hs' h
              exact ⟨t2', e1, e2, e3⟩

theorem Sim.refl (t : FsTree) : Sim [] t t := ⟨rfl, fun d => by simp⟩

theorem walkParents_files {cs cur : List Bytes} {t t' : FsTree} {r : List Bytes} (h : walkParents cs cur t = some (r, t')) :
    t'.files = t.files := by
  obtain ⟨_, _, _, e⟩ := walkParents_sim [] cs cur t t t' r (Sim.refl t) h
  exact e

/-- the keys after `createFileAndParents`: none lost, the returned one present -/
theorem createFile_keys (path : Bytes) (t t' : FsTree) (res : Created) (h : createFileAndParents path t = (res, t')) :
    (∀ k ∈ keysOf t, k ∈ keysOf t') ∧ (∀ p, res = Created.file p → p ∈ keysOf t') := by
  unfold createFileAndParents at h
  simp only [] at h
  cases hw : walkParents (splitOn bSlash path).dropLast [] t with
  | none =>
    rw [hw] at h; simp only [Prod.mk.injEq] at h
    obtain ⟨rfl, rfl⟩ := h
    exact ⟨fun k hk => hk, fun p hp => by cases hp⟩
  | some rt =>
    obtain ⟨cur, ta⟩ := rt
    rw [hw] at h
    simp only [] at h
    have hfa := walkParents_files hw
    have hkeep : ∀ k ∈ keysOf t, k ∈ keysOf ta := fun k hk => by unfold keysOf at hk ⊢; rw [hfa]; exact hk
    split at h
    · simp only [Prod.mk.injEq] at h; obtain ⟨rfl, rfl⟩ := h
      exact ⟨hkeep, fun p hp => by cases hp⟩
    · split at h
      · simp only [Prod.mk.injEq] at h; obtain ⟨rfl, rfl⟩ := h
        exact ⟨hkeep, fun p hp => by cases hp⟩
      · split at h
        · simp only [Prod.mk.injEq] at h; obtain ⟨rfl, rfl⟩ := h
          exact ⟨hkeep, fun p hp => by cases hp⟩
        · split at h
          · next hany =>
            simp only [Prod.mk.injEq] at h; obtain ⟨rfl, rfl⟩ := h
            refine ⟨hkeep, fun p hp => ?_⟩
            cases hp
            obtain ⟨e, he, hek⟩ := List.any_eq_true.mp hany
            unfold keysOf
            exact List.mem_map.mpr ⟨e, he, by simpa using hek⟩
          · simp only [Prod.mk.injEq] at h; obtain ⟨rfl, rfl⟩ := h
            refine ⟨fun k hk => ?_, fun p hp => ?_⟩
            · have := hkeep k hk
              unfold keysOf at this ⊢
              simp only [List.map_append, List.mem_append]
              exact Or.inl this
            · cases hp
              unfold keysOf
              simp

/-- `createFileAndParents`, when it succeeds on `t1` with a file whose key is not an extra directory -/
theorem createFile_sim (X : List (List Bytes)) (path : Bytes) (t1 t2 t1' : FsTree) (res : Created)
    (hs : Sim X t1 t2) (h : createFileAndParents path t1 = (res, t1')) (hne : res ≠ Created.error)
    (hX : ∀ p, res = Created.file p → p ∉ X) :
    ∃ t2', createFileAndParents path t2 = (res, t2') ∧ Sim X t1' t2' := by
  unfold createFileAndParents at h ⊢
  simp only [] at h ⊢
  cases hw : walkParents (splitOn bSlash path).dropLast [] t1 with
  | none => rw [hw] at h; simp only [Prod.mk.injEq] at h; exact absurd h.1.symm hne
  | some rt =>
    obtain ⟨cur, ta⟩ := rt
    rw [hw] at h
    simp only [] at h
    obtain ⟨tb, hw2, hsab, _⟩ := walkParents_sim X _ _ t1 t2 ta cur hs hw
    rw [hw2]
    simp only []
    by_cases hb : (splitOn bSlash path).getLastD [] = [bDot]
    · rw [if_pos hb] at h ⊢
      simp only [Prod.mk.injEq] at h
      obtain ⟨rfl, rfl⟩ := h
      exact ⟨tb, rfl, hsab⟩
    · rw [if_neg hb] at h ⊢
      by_cases hb2 : (splitOn bSlash path).getLastD [] = [] ∨ (splitOn bSlash path).getLastD [] = [bDot, bDot]
      · rw [if_pos hb2] at h
        simp only [Prod.mk.injEq] at h
        exact absurd h.1.symm hne
      · rw [if_neg hb2] at h ⊢
        by_cases hd1 : ta.dirs.contains (cur ++ [(splitOn bSlash path).getLastD []]) = true
        · rw [if_pos hd1] at h
          simp only [Prod.mk.injEq] at h
          exact absurd h.1.symm hne
        · rw [if_neg hd1] at h
          rw [hsab.1]
          have hd2 : ∀ (hx : cur ++ [(splitOn bSlash path).getLastD []] ∉ X),
              ¬ tb.dirs.contains (cur ++ [(splitOn bSlash path).getLastD []]) = true := by
            intro hnx hc
            rcases (hsab.2 _).mp (List.contains_iff_mem.mp hc) with h' | h'
            · exact hd1 (List.contains_iff_mem.mpr h')
            · exact hnx h'
          by_cases hany : ta.files.any (·.1 = cur ++ [(splitOn bSlash path).getLastD []]) = true
          · rw [if_pos hany] at h
            simp only [Prod.mk.injEq] at h
            obtain ⟨rfl, rfl⟩ := h
            rw [if_neg (hd2 (hX _ rfl)), if_pos hany]
            exact ⟨tb, rfl, hsab⟩
          · rw [if_neg hany] at h
            simp only [Prod.mk.injEq] at h
            obtain ⟨rfl, rfl⟩ := h
            rw [if_neg (hd2 (hX _ rfl)), if_neg hany]
            exact ⟨_, rfl, ⟨by simp [hsab.1], hsab.2⟩⟩

theorem appendSegs_keys (t : FsTree) (p : List Bytes) (segs : List C10.Seg) : keysOf (appendSegs t p segs) = keysOf t := by
  unfold keysOf appendSegs
  simp only [List.map_map]
  apply List.map_congr_left
  intro e _
  simp only [Function.comp]
  split <;> rfl

theorem appendSegs_sim (X : List (List Bytes)) (t1 t2 : FsTree) (p : List Bytes) (segs : List C10.Seg) (hs : Sim X t1 t2) :
    Sim X (appendSegs t1 p segs) (appendSegs t2 p segs) := by
  refine ⟨?_, hs.2⟩
  unfold appendSegs
  simp only [hs.1]

/-- the part of a file token's processing that does not look at the tree: rewind test, range loop,
past-the-end test -/
def fileStep (st : FsLine) (offset length : Int) : Option (FsLine × List C10.Seg) :=
  let (idx0, pos0) := if st.pos > offset then ((0 : Nat), (0 : Int)) else (st.segIdx, st.pos)
  let ol := C10.addI64 offset length
  let (idx, pos, segs) := C10.fsLoop offset ol (st.segments.drop idx0) idx0 pos0 []
  if idx = st.segments.length ∧ pos < ol then none
  else some ({ st with segIdx := idx, pos := pos }, segs)

/-- one token -/
theorem fsToken_sim (X : List (List Bytes)) (tok : Bytes) (st st' : FsLine) (t1 t2 t1' : FsTree) (hs : Sim X t1 t2)
    (h : fsToken tok st t1 = some (st', t1')) (hX : ∀ k ∈ keysOf t1', k ∉ X) :
    ∃ t2', fsToken tok st t2 = some (st', t2') ∧ Sim X t1' t2' ∧ ∀ k ∈ keysOf t1, k ∈ keysOf t1' := by
  unfold fsToken at h ⊢
  by_cases hc : ¬ tok.contains bColon = true
  · rw [if_pos hc] at h ⊢
    split at h
    · cases h
    · next hany =>
      rw [if_neg hany]
      split at h
      · next l hl =>
        simp only [Option.some.injEq, Prod.mk.injEq] at h
        obtain ⟨rfl, rfl⟩ := h
        exact ⟨t2, by simp, hs, fun k hk => hk⟩
      · cases h
  · rw [if_neg hc] at h ⊢
    split at h
    · cases h
    · next hseg =>
      rw [if_neg hseg]
      split at h
      · next o l nm hsplit =>
        simp only [] at h ⊢
        cases ho : C10.parseIntBits 64 o with
        | none => rw [ho] at h; cases h
        | some offset =>
          cases hl : C10.parseIntBits 64 l with
          | none => rw [ho, hl] at h; cases h
          | some length =>
            rw [ho, hl] at h
            simp only [] at h ⊢
            split at h
            · cases h
            · next hrange =>
              rw [if_neg hrange]
              cases hcf : createFileAndParents (st.dirname ++ bSlash :: C10.fsUnescape nm) t1 with
              | mk res ta =>
                rw [hcf] at h
                obtain ⟨hk1, hk2⟩ := createFile_keys _ t1 ta res hcf
                cases res with
                | error => simp only [] at h; cases h
                | marker =>
                  simp only [] at h
                  split at h
                  · next hz =>
                    simp only [Option.some.injEq, Prod.mk.injEq] at h
                    obtain ⟨rfl, rfl⟩ := h
                    obtain ⟨tb, e1, e2⟩ := createFile_sim X _ t1 t2 ta Created.marker hs hcf (by simp) (by intro p hp; cases hp)
                    rw [e1]
                    simp only [hz, if_true]
                    exact ⟨tb, rfl, e2, hk1⟩
                  · cases h
                | file p =>
                  simp only [] at h
                  -- the tree-independent part
                  have key : ∀ (t' : FsTree),
                      (match (if st.pos > offset then ((0 : Nat), (0 : Int)) else (st.segIdx, st.pos)) with
                       | (idx0, pos0) =>
                         match C10.fsLoop offset (C10.addI64 offset length) (st.segments.drop idx0) idx0 pos0 [] with
                         | (idx, pos, segs) =>
                           if idx = st.segments.length ∧ pos < C10.addI64 offset length then none
                           else some (({ st with anyFile := true, segIdx := idx, pos := pos } : FsLine), appendSegs t' p segs)) =
                      (fileStep { st with anyFile := true } offset length).map (fun r => (r.1, appendSegs t' p r.2)) := by
                    intro t'
                    unfold fileStep
                    simp only []
                    split <;> (split <;> simp_all)
                  have k1 := key ta
                  simp only [] at k1
                  rw [k1] at h
                  cases hfs : fileStep { st with anyFile := true } offset length with
                  | none => rw [hfs] at h; cases h
                  | some r =>
                    rw [hfs] at h
                    simp only [Option.map_some, Option.some.injEq, Prod.mk.injEq] at h
                    obtain ⟨rfl, rfl⟩ := h
                    have hpx : p ∉ X := hX p (by rw [appendSegs_keys]; exact hk2 p rfl)
                    obtain ⟨tb, e1, e2⟩ := createFile_sim X _ t1 t2 ta (Created.file p) hs hcf (by simp)
                      (by intro q hq; cases hq; exact hpx)
                    rw [e1]
                    simp only []
                    have k2 := key tb
                    simp only [] at k2
                    rw [k2, hfs]
                    exact ⟨_, rfl, appendSegs_sim X _ _ _ _ e2, fun k hk => by rw [appendSegs_keys]; exact hk1 k hk⟩
      · cases h

theorem fsTokens_sim (X : List (List Bytes)) : ∀ (toks : List Bytes) (st st' : FsLine) (t1 t2 t1' : FsTree), Sim X t1 t2 →
    fsTokens toks st t1 = some (st', t1') → (∀ k ∈ keysOf t1', k ∉ X) →
    ∃ t2', fsTokens toks st t2 = some (st', t2') ∧ Sim X t1' t2' ∧ ∀ k ∈ keysOf t1, k ∈ keysOf t1'
  | [], st, st', t1, t2, t1', hs, h, _ => by
    simp only [fsTokens, Option.some.injEq, Prod.mk.injEq] at h
    obtain ⟨rfl, rfl⟩ := h
    exact ⟨t2, rfl, hs, fun k hk => hk⟩
  | tok :: rest, st, st', t1, t2, t1', hs, h, hX => by
    unfold fsTokens at h ⊢
    cases h1 : fsToken tok st t1 with
    | none => rw [h1] at h; cases h
    | some r =>
      obtain ⟨sta, ta⟩ := r
      rw [h1] at h
      simp only [] at h
      -- keys only grow, so the keys of the intermediate tree avoid X too
      have hmono : ∀ k ∈ keysOf ta, k ∈ keysOf t1' := by
        obtain ⟨_, _, _, e⟩ := fsTokens_sim [] rest sta st' ta ta t1' (Sim.refl ta) h (fun k _ hk => by cases hk)
        exact e
      obtain ⟨tb, e1, e2, e3⟩ := fsToken_sim X tok st sta t1 t2 ta hs h1 (fun k hk => hX k (hmono k hk))
      obtain ⟨t2', g1, g2, g3⟩ := fsTokens_sim X rest sta st' ta tb t1' e2 h hX
      rw [e1]
      exact ⟨t2', g1, g2, fun k hk => g3 k (e3 k hk)⟩

/-- **one line of the text** -/
theorem fsLine_sim (X : List (List Bytes)) (line : Bytes) (t1 t2 t1' : FsTree) (hs : Sim X t1 t2)
    (h : fsLine line t1 = some t1') (hX : ∀ k ∈ keysOf t1', k ∉ X) :
    ∃ t2', fsLine line t2 = some t2' ∧ Sim X t1' t2' ∧ ∀ k ∈ keysOf t1, k ∈ keysOf t1' := by
  unfold fsLine at h ⊢
  split at h
  · cases h
  · next nm toks hsplit =>
    cases h1 : fsTokens toks ⟨C10.fsUnescape nm, [], false, 0, 0⟩ t1 with
    | none => rw [h1] at h; cases h
    | some r =>
      obtain ⟨st', ta⟩ := r
      rw [h1] at h
      simp only [] at h
      split at h
      · cases h
      · next hcond =>
        simp only [Option.some.injEq] at h
        subst h
        obtain ⟨t2', e1, e2, e3⟩ := fsTokens_sim X toks _ st' t1 t2 ta hs h1 hX
        rw [e1]
        simp only []
        rw [if_neg hcond]
        exact ⟨t2', rfl, e2, e3⟩

end ArvVerif.C09
