/-
C11 proofs, part 1: the invariant framework for the putReplicas machine, the accounting invariant
(soundness of the result) and termination.
-/
import ArvVerif.Model.C11
namespace ArvVerif.C11

theorem mem_insertAsc (a x : Srv) (l : List Srv) : x ∈ insertAsc a l ↔ x = a ∨ x ∈ l := by
  induction l with
  | nil => simp [insertAsc]
  | cons b t ih =>
    unfold insertAsc
    split
    · simp
    · simp only [List.mem_cons, ih]
      constructor
      · rintro (h | h | h)
        · exact Or.inr (Or.inl h)
        · exact Or.inl h
        · exact Or.inr (Or.inr h)
      · rintro (h | h | h)
        · exact Or.inr (Or.inl h)
        · exact Or.inl h
        · exact Or.inr (Or.inr h)

theorem mem_sortAsc (x : Srv) (l : List Srv) : x ∈ sortAsc l ↔ x ∈ l := by
  induction l with
  | nil => simp [sortAsc]
  | cons a t ih => simp [sortAsc, mem_insertAsc, ih]

theorem choose_mem (l : List Srv) (p : Nat) (h : l ≠ []) : choose l p ∈ l := by
  unfold choose
  simp only
  have hne : sortAsc l ≠ [] := by
    intro he
    cases l with
    | nil => exact h rfl
    | cons a t =>
      have : a ∈ sortAsc (a :: t) := (mem_sortAsc a _).mpr List.mem_cons_self
      rw [he] at this; cases this
  have hlen : 0 < (sortAsc l).length := List.length_pos_iff.mpr hne
  rw [List.getD_eq_getElem?_getD, List.getElem?_eq_getElem (Nat.mod_lt _ hlen)]
  simp only [Option.getD_some]
  exact (mem_sortAsc _ _).mp (List.getElem_mem _)

/-! ### Field lemmas for `receive` -/

theorem retryable_200 : retryable 200 = false := by decide

section receiveFields
variable (c : Cfg) (s : St) (srv : Srv)

theorem receive_sv : (receive c s srv).sv = s.sv := by
  unfold receive; simp only []; split <;> split <;> rfl
theorem receive_next : (receive c s srv).next = s.next := by
  unfold receive; simp only []; split <;> split <;> rfl
theorem receive_round : (receive c s srv).round = s.round := by
  unfold receive; simp only []; split <;> split <;> rfl
theorem receive_rr : (receive c s srv).retriesRemaining = s.retriesRemaining := by
  unfold receive; simp only []; split <;> split <;> rfl
theorem receive_reqLog : (receive c s srv).reqLog = s.reqLog := by
  unfold receive; simp only []; split <;> split <;> rfl
theorem receive_active : (receive c s srv).active = s.active.erase srv := by
  unfold receive; simp only []; split <;> split <;> rfl
theorem receive_respLog : (receive c s srv).respLog = (srv, s.round) :: s.respLog := by
  unfold receive; simp only []; split <;> split <;> rfl
theorem receive_retrySv : (receive c s srv).retrySv =
    if retryable (c.script srv s.round).code then s.retrySv ++ [srv] else s.retrySv := by
  unfold receive; simp only []; split <;> split <;> rfl
theorem receive_okLog : (receive c s srv).okLog =
    if (c.script srv s.round).code = 200 then (srv, s.round) :: s.okLog else s.okLog := by
  unfold receive; simp only []; split <;> split <;> rfl
theorem receive_done : (receive c s srv).done =
    if (c.script srv s.round).code = 200 then s.done + (c.script srv s.round).rep else s.done := by
  unfold receive; simp only []; split <;> split <;> rfl
theorem receive_todo : (receive c s srv).todo =
    if (c.script srv s.round).code = 200 then s.todo - (c.script srv s.round).rep else s.todo := by
  unfold receive; simp only []; split <;> split <;> rfl
theorem receive_locator : (receive c s srv).locator =
    if (c.script srv s.round).code = 200 then (c.script srv s.round).body else s.locator := by
  unfold receive; simp only []; split <;> split <;> rfl

end receiveFields

/-! ### Generic preservation -/

/-- `P` is preserved by the three kinds of state change of the machine. The side conditions are
the facts that hold whenever the machine makes that change. -/
structure Preserved (c : Cfg) (P : St → Prop) : Prop where
  start : ∀ (s : St) (h : s.next < s.sv.length), P s → P (startOne s h)
  recv : ∀ (s : St) (srv : Srv), srv ∈ s.active → P s → P (receive c s srv)
  round : ∀ (s : St), s.active = [] → s.sv.length ≤ s.next → 0 < s.retriesRemaining → 0 < s.todo →
    P s → P (nextRound s)

theorem startUploads_preserved {c : Cfg} {P : St → Prop} (hP : Preserved c P) (fuel : Nat)
    (s s' : St) (h : P s) (hs : startUploads c fuel s = some s') : P s' := by
  induction fuel generalizing s with
  | zero => simp [startUploads] at hs; exact hs ▸ h
  | succ n ih =>
    unfold startUploads at hs
    split at hs
    · split at hs
      · rename_i hn
        exact ih _ (hP.start s hn h) hs
      · split at hs
        · cases hs
        · cases hs; exact h
    · cases hs; exact h

/-- fields that `startUploads` never changes -/
theorem startUploads_fields (c : Cfg) (fuel : Nat) (s s' : St)
    (hs : startUploads c fuel s = some s') :
    s'.done = s.done ∧ s'.todo = s.todo ∧ s'.okLog = s.okLog ∧ s'.locator = s.locator ∧
    s'.retriesRemaining = s.retriesRemaining ∧ s'.sv = s.sv ∧ s'.round = s.round ∧
    s'.respLog = s.respLog ∧ s'.retrySv = s.retrySv := by
  induction fuel generalizing s with
  | zero => simp [startUploads] at hs; subst hs; simp
  | succ n ih =>
    unfold startUploads at hs
    split at hs
    · split at hs
      · have := ih _ hs
        simpa [startOne] using this
      · split at hs
        · cases hs
        · cases hs; simp
    · cases hs; simp

/-- with something in flight the start loop never takes the error return -/
theorem startUploads_some_of_active (c : Cfg) (fuel : Nat) (s : St) (h : s.active ≠ []) :
    ∃ s', startUploads c fuel s = some s' := by
  induction fuel generalizing s with
  | zero => exact ⟨s, rfl⟩
  | succ n ih =>
    unfold startUploads
    split
    · split
      · rename_i hn
        exact ih _ (by simp [startOne])
      · split
        · rename_i hc; exact absurd hc.1 h
        · exact ⟨s, rfl⟩
    · exact ⟨s, rfl⟩

/-- the error return: nothing in flight, no retries left, every service of the round asked,
replicas still missing -/
theorem startUploads_none (c : Cfg) (fuel : Nat) (s : St) (hs : startUploads c fuel s = none) :
    s.active = [] ∧ s.retriesRemaining = 0 ∧ s.sv.length ≤ s.next ∧ 0 < s.todo := by
  cases fuel with
  | zero => simp [startUploads] at hs
  | succ n =>
    unfold startUploads at hs
    split at hs
    · rename_i hlt
      split at hs
      · rename_i hn
        obtain ⟨s', h'⟩ := startUploads_some_of_active c n (startOne s hn) (by simp [startOne])
        rw [h'] at hs; cases hs
      · rename_i hn
        split at hs
        · rename_i hc
          refine ⟨hc.1, hc.2, by omega, ?_⟩
          rw [hc.1] at hlt; simpa using hlt
        · cases hs
    · cases hs

/-- how the start loop stops when it had enough fuel: enough uploads in flight, or every service
of this round has been asked -/
theorem startUploads_stop (c : Cfg) (fuel : Nat) (s s' : St) (hf : s.sv.length < s.next + fuel)
    (hs : startUploads c fuel s = some s') :
    ¬ (((s'.active.length * c.rpt : Nat) : Int) < s'.todo) ∨
    s'.sv.length ≤ s'.next := by
  induction fuel generalizing s with
  | zero =>
    simp [startUploads] at hs; subst hs
    by_cases hlt : ((s.active.length * c.rpt : Nat) : Int) < s.todo
    · right; omega
    · left; exact hlt
  | succ n ih =>
    unfold startUploads at hs
    split at hs
    · split at hs
      · rename_i hn
        exact ih _ (by simp [startOne]; omega) hs
      · rename_i hn
        split at hs
        · cases hs
        · rename_i hc
          cases hs; right; omega
    · rename_i hge
      cases hs; left; exact hge

/-- Everything the machine returns satisfies `P` at the final state, if `P` is preserved. -/
theorem run_preserved {c : Cfg} {P : St → Prop} (hP : Preserved c P) (fuel : Nat) (s : St)
    (picks : List Nat) (r : Res) (sf : St) (h : P s) (hr : run c fuel s picks = some (r, sf)) :
    P sf := by
  induction fuel generalizing s picks with
  | zero => simp [run] at hr
  | succ n ih =>
    unfold run at hr
    split at hr
    · rename_i r' s' hst
      cases hr
      unfold step at hst
      split at hst
      · split at hst
        · cases hst; exact h
        · rename_i s1 hsu
          split at hst
          · cases hst
          · split at hst
            · cases hst; exact startUploads_preserved hP _ s _ h hsu
            · cases hst
      · cases hst; exact h
    · rename_i s' hst
      refine ih s' _ ?_ hr
      unfold step at hst
      split at hst
      · split at hst
        · cases hst
        · rename_i s1 hsu
          have h1 := startUploads_preserved hP _ s _ h hsu
          split at hst
          · rename_i hact
            cases hst
            refine hP.recv s1 _ ?_ h1
            exact choose_mem _ _ hact
          · split at hst <;> cases hst
      · cases hst
    · rename_i s' hst
      refine ih s' _ ?_ hr
      unfold step at hst
      split at hst
      · rename_i htodo
        split at hst
        · cases hst
        · rename_i s1 hsu
          have h1 := startUploads_preserved hP _ s _ h hsu
          have hf := startUploads_fields c _ s s1 hsu
          split at hst
          · cases hst
          · rename_i hact
            have hact' : s1.active = [] := by
              cases hl : s1.active with
              | nil => rfl
              | cons a t => simp [hl] at hact
            split at hst
            · cases hst
            · rename_i hrr
              cases hst
              have hstop := startUploads_stop c _ s s1 (by omega) hsu
              have htodo1 : 0 < s1.todo := by rw [hf.2.1]; exact htodo
              refine hP.round s1 hact' ?_ (by omega) htodo1 h1
              rcases hstop with hstop | hstop
              · exfalso; apply hstop; rw [hact']; simpa using htodo1
              · exact hstop
      · cases hst

/-! ### Accounting invariant -/

/-- sum of the replica counts of a list of (service, round) answers -/
def repSum (c : Cfg) (l : List (Srv × Nat)) : Int := (l.map (fun e => (c.script e.1 e.2).rep)).sum

/-- body of the newest answer of a log ("" for the empty log) -/
def lastBody (c : Cfg) : List (Srv × Nat) → List Nat
  | [] => []
  | e :: _ => (c.script e.1 e.2).body

def is200 (c : Cfg) (e : Srv × Nat) : Bool := (c.script e.1 e.2).code == 200

structure Inv (c : Cfg) (s : St) : Prop where
  bal : s.done + s.todo = c.want
  acct : s.done = repSum c s.okLog
  okf : s.okLog = s.respLog.filter (is200 c)
  loc : s.locator = lastBody c s.okLog
  nextLe : s.next ≤ s.sv.length

theorem inv_init (c : Cfg) (sv : List Srv) : Inv c (init c sv) :=
  ⟨by simp [init], by simp [init, repSum], by simp [init], by simp [init, lastBody], by simp [init]⟩

theorem inv_preserved (c : Cfg) : Preserved c (Inv c) where
  start := by
    intro s h hi
    exact ⟨hi.bal, hi.acct, hi.okf, hi.loc, by simp only [startOne]; omega⟩
  recv := by
    intro s srv _ hi
    refine ⟨?_, ?_, ?_, ?_, ?_⟩
    · rw [receive_done, receive_todo]; have := hi.bal; split <;> omega
    · rw [receive_done, receive_okLog]
      have := hi.acct
      split
      · simp only [repSum, List.map_cons, List.sum_cons] at this ⊢; omega
      · exact this
    · rw [receive_okLog, receive_respLog, List.filter_cons]
      by_cases h200 : (c.script srv s.round).code = 200
      · simp [is200, h200, hi.okf]
      · simp [is200, h200, hi.okf]
    · rw [receive_locator, receive_okLog]
      split
      · rfl
      · exact hi.loc
    · rw [receive_next, receive_sv]; exact hi.nextLe
  round := by
    intro s _ _ _ _ hi
    exact ⟨hi.bal, hi.acct, hi.okf, hi.loc, by simp [nextRound]⟩

/-! ### What holds at the return -/

/-- the state at a nil-error return -/
def OkAt (s : St) (loc : List Nat) (n : Int) : Prop :=
  loc = s.locator ∧ n = s.done ∧ s.todo ≤ 0

/-- the state at the InsufficientReplicasError return: replicas missing, nothing in flight, no
retries left, every service of the last round has been asked -/
def FailAt (s : St) (loc : List Nat) (n : Int) : Prop :=
  loc = s.locator ∧ n = s.done ∧ 0 < s.todo ∧ s.active = [] ∧ s.retriesRemaining = 0 ∧
  s.sv.length ≤ s.next

def ResAt (s : St) : Res → Prop
  | .ok loc n => OkAt s loc n
  | .insufficient loc n => FailAt s loc n

/-- on the last round the start loop cannot stop with nothing in flight and replicas missing -/
theorem startUploads_last_round (c : Cfg) (fuel : Nat) (s s' : St)
    (hf : s.sv.length < s.next + fuel) (hle : s.next ≤ s.sv.length)
    (hs : startUploads c fuel s = some s') (hr : s'.retriesRemaining = 0) (ha : s'.active = []) :
    s'.todo ≤ 0 := by
  induction fuel generalizing s with
  | zero => omega
  | succ n ih =>
    unfold startUploads at hs
    split at hs
    · rename_i hlt
      split at hs
      · rename_i hn
        exact ih _ (by simp only [startOne]; omega) (by simp only [startOne]; omega) hs
      · split at hs
        · cases hs
        · rename_i hcond
          cases hs
          exact absurd ⟨ha, hr⟩ hcond
    · rename_i hge
      cases hs
      simp only [ha, List.length_nil, Nat.zero_mul] at hge
      simpa using hge

theorem run_result_at (c : Cfg) (fuel : Nat) (s : St) (picks : List Nat) (r : Res) (sf : St)
    (h : Inv c s) (hr : run c fuel s picks = some (r, sf)) : ResAt sf r := by
  induction fuel generalizing s picks with
  | zero => simp [run] at hr
  | succ n ih =>
    unfold run at hr
    split at hr
    · rename_i r' s' hst
      cases hr
      unfold step at hst
      split at hst
      · rename_i htodo
        split at hst
        · rename_i hsu
          have := startUploads_none c _ s hsu
          cases hst
          exact ⟨rfl, rfl, this.2.2.2, this.1, this.2.1, this.2.2.1⟩
        · rename_i s1 hsu
          split at hst
          · cases hst
          · rename_i hact
            split at hst
            · rename_i hrr
              have hact' : s1.active = [] := by
                cases hl : s1.active with
                | nil => rfl
                | cons a t => simp [hl] at hact
              have := startUploads_last_round c _ s s1 (by omega) h.nextLe hsu hrr hact'
              cases hst
              exact ⟨rfl, rfl, this⟩
            · cases hst
      · rename_i htodo
        cases hst
        exact ⟨rfl, rfl, by omega⟩
    · rename_i s' hst
      refine ih s' _ ?_ hr
      unfold step at hst
      split at hst
      · split at hst
        · cases hst
        · rename_i s1 hsu
          have h1 := startUploads_preserved (inv_preserved c) _ s _ h hsu
          split at hst
          · rename_i hact
            cases hst
            exact (inv_preserved c).recv s1 _ (choose_mem _ _ hact) h1
          · split at hst <;> cases hst
      · cases hst
    · rename_i s' hst
      refine ih s' _ ?_ hr
      unfold step at hst
      split at hst
      · split at hst
        · cases hst
        · rename_i s1 hsu
          have h1 := startUploads_preserved (inv_preserved c) _ s _ h hsu
          split at hst
          · cases hst
          · split at hst
            · cases hst
            · cases hst
              exact ⟨h1.bal, h1.acct, h1.okf, h1.loc, by simp [nextRound]⟩
      · cases hst

/-! ### Counting invariant and termination -/

/-- `N` is the number of writable services (length of the initial probe order) -/
structure Bound (c : Cfg) (N : Nat) (s : St) : Prop where
  flight : s.retrySv.length + s.active.length ≤ s.next
  nextLe : s.next ≤ s.sv.length
  svLe : s.sv.length ≤ N
  rounds : s.round + s.retriesRemaining = c.retries
  resp : s.respLog.length + s.active.length ≤ s.round * N + s.next
  req : s.reqLog.length = s.respLog.length + s.active.length

theorem bound_init (c : Cfg) (sv : List Srv) : Bound c sv.length (init c sv) :=
  ⟨by simp [init], by simp [init], by simp [init], by simp [init], by simp [init], by simp [init]⟩

theorem length_erase_mem {l : List Srv} {a : Srv} (h : a ∈ l) :
    (l.erase a).length + 1 = l.length := by
  have := List.length_erase_of_mem h
  have : 0 < l.length := List.length_pos_of_mem h
  omega

theorem bound_preserved (c : Cfg) (N : Nat) : Preserved c (Bound c N) where
  start := by
    intro s h hb
    refine ⟨?_, ?_, hb.svLe, hb.rounds, ?_, ?_⟩
    · have := hb.flight; simp only [startOne, List.length_append, List.length_singleton]; omega
    · simp only [startOne]; omega
    · have := hb.resp; simp only [startOne, List.length_append, List.length_singleton]; omega
    · have := hb.req; simp only [startOne, List.length_append, List.length_cons, List.length_nil]; omega
  recv := by
    intro s srv hm hb
    have hl := length_erase_mem hm
    refine ⟨?_, ?_, ?_, ?_, ?_, ?_⟩
    · rw [receive_retrySv, receive_active, receive_next]
      have := hb.flight
      split
      · simp only [List.length_append, List.length_singleton]; omega
      · omega
    · rw [receive_next, receive_sv]; exact hb.nextLe
    · rw [receive_sv]; exact hb.svLe
    · rw [receive_round, receive_rr]; exact hb.rounds
    · rw [receive_respLog, receive_active, receive_round, receive_next]
      have := hb.resp; simp only [List.length_cons]; omega
    · rw [receive_reqLog, receive_respLog, receive_active]
      have := hb.req; simp only [List.length_cons]; omega
  round := by
    intro s hact hnext hrr _ hb
    refine ⟨by simp [nextRound, hact], by simp [nextRound], ?_, ?_, ?_, ?_⟩
    · have := hb.flight; have := hb.nextLe; have := hb.svLe
      simp only [nextRound]; omega
    · have := hb.rounds; simp only [nextRound]; omega
    · have h1 := hb.resp; have := hb.nextLe; have := hb.svLe
      simp only [nextRound, hact, List.length_nil, Nat.add_zero, Nat.succ_mul] at h1 ⊢
      omega
    · have := hb.req; simp only [nextRound]; exact this

/-- the variant: strictly decreases with every answer received and every change of round -/
def mu (N : Nat) (s : St) : Nat :=
  s.retriesRemaining * (N + 1) + (s.sv.length - s.next) + s.active.length

theorem startUploads_mu (c : Cfg) (fuel : Nat) (s s' : St) (hle : s.next ≤ s.sv.length)
    (hs : startUploads c fuel s = some s') :
    (s'.sv.length - s'.next) + s'.active.length = (s.sv.length - s.next) + s.active.length := by
  induction fuel generalizing s with
  | zero => simp [startUploads] at hs; subst hs; rfl
  | succ n ih =>
    unfold startUploads at hs
    split at hs
    · split at hs
      · rename_i hn
        have := ih _ (by simp only [startOne]; omega) hs
        simp only [startOne, List.length_append, List.length_singleton] at this
        omega
      · split at hs
        · cases hs
        · cases hs; rfl
    · cases hs; rfl

theorem run_terminates (c : Cfg) (N : Nat) (fuel : Nat) (s : St) (picks : List Nat)
    (hb : Bound c N s) (hmu : mu N s < fuel) : ∃ r, run c fuel s picks = some r := by
  induction fuel generalizing s picks with
  | zero => omega
  | succ n ih =>
    unfold run
    cases hst : step c s (picks.headD 0) with
    | ret r s' => exact ⟨_, rfl⟩
    | recv s' =>
      simp only
      unfold step at hst
      split at hst
      · split at hst
        · cases hst
        · rename_i s1 hsu
          have h1 := startUploads_preserved (bound_preserved c N) _ s _ hb hsu
          have hf := startUploads_fields c _ s s1 hsu
          have hm := startUploads_mu c _ s s1 hb.nextLe hsu
          split at hst
          · rename_i hact
            cases hst
            have hmem := choose_mem _ (picks.headD 0) hact
            refine ih _ _ ((bound_preserved c N).recv s1 _ hmem h1) ?_
            have hl := length_erase_mem hmem
            simp only [mu, receive_rr, receive_sv, receive_next, receive_active]
            simp only [mu] at hmu
            rw [hf.2.2.2.2.1, hf.2.2.2.2.2.1] at *
            omega
          · split at hst <;> cases hst
      · cases hst
    | round s' =>
      simp only
      unfold step at hst
      split at hst
      · rename_i htodo
        split at hst
        · cases hst
        · rename_i s1 hsu
          have h1 := startUploads_preserved (bound_preserved c N) _ s _ hb hsu
          have hf := startUploads_fields c _ s s1 hsu
          have hm := startUploads_mu c _ s s1 hb.nextLe hsu
          split at hst
          · cases hst
          · rename_i hact
            have hact' : s1.active = [] := by
              cases hl : s1.active with
              | nil => rfl
              | cons a t => simp [hl] at hact
            split at hst
            · cases hst
            · rename_i hrr
              cases hst
              have hstop := startUploads_stop c _ s s1 (by omega) hsu
              have htodo1 : 0 < s1.todo := by rw [hf.2.1]; exact htodo
              have hnext : s1.sv.length ≤ s1.next := by
                rcases hstop with hstop | hstop
                · exfalso; apply hstop; rw [hact']; simpa using htodo1
                · exact hstop
              refine ih _ _ ((bound_preserved c N).round s1 hact' hnext (by omega) htodo1 h1) ?_
              have hfl := h1.flight; have := h1.nextLe; have := h1.svLe
              simp only [mu, nextRound, Nat.sub_zero]
              simp only [mu] at hmu
              rw [hact'] at hm
              have hmul : s1.retriesRemaining * (N + 1) = (s1.retriesRemaining - 1) * (N + 1) + (N + 1) := by
                have : s1.retriesRemaining = (s1.retriesRemaining - 1) + 1 := by omega
                conv => lhs; rw [this, Nat.succ_mul]
              rw [← hf.2.2.2.2.1, ← hf.2.2.2.2.2.1] at hmu
              simp only [List.length_nil, Nat.add_zero] at hm
              omega
      · cases hst

theorem put_terminates (c : Cfg) (sv : List Srv) (picks : List Nat) :
    ∃ r, put c sv picks = some r := by
  unfold put
  refine run_terminates c sv.length _ _ _ (bound_init c sv) ?_
  simp only [mu, init, fuelFor, List.length_nil, Nat.sub_zero, Nat.add_zero, Nat.add_mul, Nat.one_mul]
  omega

end ArvVerif.C11
