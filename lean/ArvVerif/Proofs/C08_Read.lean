/-
C08 helper lemmas, part 2: `readAt` (filenode.Read) against `specRead`.
-/
import ArvVerif.Proofs.C08_Basic
namespace ArvVerif.C08

variable {max : Nat} {hash : Bytes → Loc} {st : Store}

theorem segs_split {segs : List Seg} {i : Nat} {s : Seg} (h : segs[i]? = some s) :
    segs = segs.take i ++ s :: segs.drop (i + 1) := by
  induction segs generalizing i with
  | nil => simp at h
  | cons x rest ih =>
    cases i with
    | zero => simp at h; simp [h]
    | succ i =>
      simp only [List.getElem?_cons_succ] at h
      simp only [List.take_succ_cons, List.drop_succ_cons, List.cons_append]
      rw [← ih h]

theorem mem_of_getElem? {segs : List Seg} {i : Nat} {s : Seg} (h : segs[i]? = some s) : s ∈ segs :=
  List.mem_of_getElem? h

/-- The content of a file around segment `i`. -/
theorem absSegs_split {segs : List Seg} {i : Nat} {s : Seg} (h : segs[i]? = some s) :
    absSegs st segs = absSegs st (segs.take i) ++ s.bytes st ++ absSegs st (segs.drop (i + 1)) := by
  conv => lhs; rw [segs_split h]
  simp

/-- `segment.ReadAt` from a well-formed segment: the bytes from `off`, at most `want` of them;
EOF exactly when the request reaches past the end of the segment. -/
theorem Seg.readAt_spec {s : Seg} (h : SegWF max hash st s) (want off : Nat) (ho : off ≤ s.len) :
    s.readAt st want off =
      (((s.bytes st).drop off).take want, if want > s.len - off then IOErr.eof else IOErr.ok) := by
  cases s with
  | mem buf fl =>
    have ho' : off ≤ buf.length := ho
    simp only [Seg.readAt, Seg.bytes_mem]
    rw [if_neg (by omega)]
    have hiff : ((List.drop off buf).take want).length < want ↔ want > (Seg.mem buf fl).len - off := by
      simp only [List.length_take, List.length_drop, Seg.len_mem]; omega
    simp only [hiff]
  | stored loc size boff l =>
    obtain ⟨_, hle, b, hb, hlen⟩ := h
    simp only [Seg.len_stored] at ho
    simp only [Seg.readAt, Seg.len_stored, hb, Seg.bytes_stored hb]
    rw [if_neg (by omega), if_neg (by omega)]
    congr 1
    rw [List.drop_take, List.drop_drop, List.take_take]
    rw [Nat.add_comm off boff]
    congr 1
    split <;> omega

theorem drop_take_mid (X S Y : Bytes) (o k : Nat) (hk : o + k ≤ S.length) :
    ((X ++ S ++ Y).drop (X.length + o)).take k = (S.drop o).take k := by
  rw [List.append_assoc, List.drop_append, List.drop_of_length_le (by omega)]
  simp only [List.nil_append, Nat.add_sub_cancel_left]
  rw [List.drop_append_of_le_length (by omega), List.take_append_of_le_length (by simp; omega)]

/-- What one `filenode.Read` call delivers. -/
structure ReadOK (st : Store) (fn : FileNode) (p : Ptr) (want : Nat) (r : ReadRes) : Prop where
  data_eq : r.data = specRead (abs st fn) p.off r.data.length
  len_le : r.data.length ≤ want
  off_eq : r.ptr.off = p.off + r.data.length
  ptr_ok : PtrOK fn r.ptr
  not_io : r.err ≠ IOErr.io
  eof_iff : r.err = IOErr.eof ↔
    (p.off ≥ fn.size ∨ (p.off + r.data.length = fn.size ∧ r.data.length < want))
  progress : r.err = IOErr.ok → 0 < want → 0 < r.data.length
  /-- exactly which prefix: up to the end of the segment that holds the offset -/
  exact : p.off < fn.size → ∃ i s o, fn.segs[i]? = some s ∧ o < s.len ∧
    sumLen (fn.segs.take i) + o = p.off ∧ r.data.length = min want (s.len - o)

theorem readAt_spec {fn : FileNode} {p : Ptr} (hwf : WF max hash st fn) (hp : PtrOK fn p) (want : Nat) :
    ∃ r, readAt st fn p want = some r ∧ ReadOK st fn p want r := by
  obtain ⟨q, hq, hoff, hrep, hcase⟩ := seek_spec hwf hp
  unfold readAt
  rw [hq]
  rcases hcase with ⟨hge, hidx, hso⟩ | ⟨hlt, s, hs, hso, hsum⟩
  · -- at or beyond EOF
    have hnone : fn.segs[q.segIdx]? = none := by rw [hidx]; simp
    simp only [hnone]
    rw [if_pos (by omega)]
    refine ⟨_, rfl, ?_⟩
    refine ⟨by simp [specRead], by simp, by simp [hoff], ?_, by simp, ?_, by simp, fun h => by omega⟩
    · exact ⟨by rw [hrep]; exact Int.le_refl _, fun _ => Or.inl (by rw [hoff]; exact hge)⟩
    · simp; exact Or.inl hge
  · have hswf := hwf.segs s (mem_of_getElem? hs)
    simp only [hs]
    rw [Seg.readAt_spec hswf want q.segOff (Nat.le_of_lt hso)]
    simp only []
    -- the data
    have hblen := hswf.bytes_length
    have htl : ∀ (l : Bytes) (n : Nat), l.take (l.take n).length = l.take n := by
      intro l n; simp [List.length_take, List.take_eq_take_iff]
    obtain ⟨d, hd⟩ : ∃ d, d = ((s.bytes st).drop q.segOff).take want := ⟨_, rfl⟩
    rw [← hd]
    have hdlen : d.length = min want (s.len - q.segOff) := by
      rw [hd]; simp only [List.length_take, List.length_drop, hblen]
    have hdata : d = specRead (abs st fn) p.off d.length := by
      have hX : (absSegs st (fn.segs.take q.segIdx)).length + q.segOff = p.off := by
        rw [absSegs_length (fun x hx => hwf.segs x (List.mem_of_mem_take hx))]; exact hsum
      unfold specRead abs
      rw [absSegs_split hs, ← hX, drop_take_mid _ _ _ _ _ (by rw [hblen, hdlen]; omega)]
      rw [hd]; exact (htl _ _).symm
    have hsz : sumLen (fn.segs.take (q.segIdx + 1)) ≤ fn.size := by
      rw [hwf.size_eq]; exact sumLen_take_le _ _
    have hsucc := sumLen_take_succ hs
    have hidxlt : q.segIdx < fn.segs.length := by
      apply Classical.byContradiction; intro hn
      rw [List.getElem?_eq_none (by omega)] at hs; cases hs
    have hlastcase : ¬ (q.segIdx + 1 < fn.segs.length) →
        sumLen (fn.segs.take q.segIdx) + s.len = fn.size := by
      intro hlast
      have : fn.segs.take (q.segIdx + 1) = fn.segs := List.take_of_length_le (by omega)
      rw [this, ← hwf.size_eq] at hsucc
      omega
    have hnextcase : q.segIdx + 1 < fn.segs.length →
        sumLen (fn.segs.take q.segIdx) + s.len < fn.size ∧
        ∃ s', fn.segs[q.segIdx + 1]? = some s' := by
      intro hlast
      have hnext : 0 < (fn.segs[q.segIdx + 1]).len := (hwf.segs _ (List.getElem_mem hlast)).len_pos
      have h2 := sumLen_take_succ (show fn.segs[q.segIdx + 1]? = some fn.segs[q.segIdx + 1] by simp [hlast])
      have h3 : sumLen (fn.segs.take (q.segIdx + 1 + 1)) ≤ fn.size := by
        rw [hwf.size_eq]; exact sumLen_take_le _ _
      exact ⟨by omega, fn.segs[q.segIdx + 1], by simp [hlast]⟩
    by_cases hd0 : d.length > 0
    · rw [if_pos hd0]
      by_cases hend : q.segOff + d.length = s.len
      · rw [if_pos hend]
        have hwant : want ≥ s.len - q.segOff := by rw [hdlen] at hend; omega
        refine ⟨_, rfl, ⟨?_, ?_, ?_, ?_, ?_, ?_, ?_, ?_⟩⟩ <;> dsimp only
        · exact hdata
        · rw [hdlen]; omega
        · omega
        · unfold PtrOK Located; dsimp only
          refine ⟨by rw [hrep]; exact Int.le_refl _, fun _ => ?_⟩
          by_cases hlast : q.segIdx + 1 < fn.segs.length
          · obtain ⟨_, s', hs'⟩ := hnextcase hlast
            exact Or.inr ⟨s', hs', Nat.zero_le _, by rw [hsucc]; omega⟩
          · have := hlastcase hlast
            exact Or.inl (by omega)
        · split <;> split <;> simp
        · by_cases hlast : q.segIdx + 1 < fn.segs.length
          · have := (hnextcase hlast).1
            constructor
            · intro h
              by_cases hw : want > s.len - q.segOff
              · rw [if_pos hw, if_pos ⟨hlast, rfl⟩] at h; cases h
              · rw [if_neg hw] at h; split at h <;> cases h
            · rintro (h | ⟨h, _⟩) <;> omega
          · have := hlastcase hlast
            have hnc : ¬ (q.segIdx + 1 < fn.segs.length ∧
                (if want > s.len - q.segOff then IOErr.eof else IOErr.ok) = IOErr.eof) := fun hc => hlast hc.1
            rw [if_neg hnc]
            constructor
            · intro h
              by_cases hw : want > s.len - q.segOff
              · exact Or.inr ⟨by omega, by omega⟩
              · rw [if_neg hw] at h; cases h
            · rintro (h | ⟨h1, h2⟩)
              · omega
              · rw [if_pos (by omega)]
        · intro _ _; exact hd0
        · exact fun _ => ⟨q.segIdx, s, q.segOff, hs, hso, hsum, hdlen⟩
      · rw [if_neg hend]
        have hwant : want < s.len - q.segOff := by rw [hdlen] at hend; omega
        have hdw : d.length = want := by rw [hdlen]; omega
        have hsz2 : sumLen (fn.segs.take q.segIdx) + s.len ≤ fn.size := by omega
        refine ⟨_, rfl, ⟨?_, ?_, ?_, ?_, ?_, ?_, ?_, ?_⟩⟩ <;> dsimp only
        · exact hdata
        · omega
        · omega
        · unfold PtrOK Located; dsimp only
          exact ⟨by rw [hrep]; exact Int.le_refl _, fun _ => Or.inr ⟨s, hs, by omega, by omega⟩⟩
        · split <;> simp
        · rw [if_neg (by omega)]
          constructor
          · intro h; cases h
          · rintro (h | ⟨h, h2⟩) <;> omega
        · intro _ _; exact hd0
        · exact fun _ => ⟨q.segIdx, s, q.segOff, hs, hso, hsum, hdlen⟩
    · rw [if_neg hd0]
      have hw0 : want = 0 := by rw [hdlen] at hd0; omega
      have hdl : d.length = 0 := by omega
      refine ⟨_, rfl, ⟨?_, ?_, ?_, ?_, ?_, ?_, ?_, ?_⟩⟩ <;> dsimp only
      · exact hdata
      · omega
      · omega
      · exact ⟨by rw [hrep]; exact Int.le_refl _, fun _ => Or.inr ⟨s, hs, Nat.le_of_lt hso, by rw [hoff]; exact hsum⟩⟩
      · split <;> simp
      · rw [if_neg (by omega)]
        constructor
        · intro h; cases h
        · rintro (h | ⟨h, h2⟩) <;> omega
      · intro _ h; omega
      · exact fun _ => ⟨q.segIdx, s, q.segOff, hs, hso, hsum, hdlen⟩

end ArvVerif.C08
