/-
C14 layer L2: every pool operation preserves `Pool.WF` (distinct worker ids = keys of the Go map
`wp.workers`), hence every reachable pool is well-formed.

The point: `put` replaces a worker by one stored under the same key, so the list of ids never
changes; only `updateWorker` adds an id, and only when `find` says it is not there; `sync` then
filters.
-/
import ArvVerif.Model.C14_PoolOps
import ArvVerif.Proofs.C14_L2
namespace ArvVerif.C14
namespace Pool

/-- the keys of `wp.workers` -/
def ids (p : Pool) : List Nat := p.workers.map (·.id)

theorem WF_iff_ids (p : Pool) : p.WF ↔ p.ids.Nodup := by
  unfold WF ids List.Nodup
  rw [List.pairwise_map]

theorem ids_put (p : Pool) (w : Worker) : (p.put w).ids = p.ids := by
  unfold put ids
  simp only [List.map_map]
  apply List.map_congr_left
  intro x _
  simp only [Function.comp]
  split
  · rename_i h; simp only [beq_iff_eq] at h; exact h.symm
  · rfl

theorem ids_markExited (p : Pool) (us : List Uuid) (now : Nat) : (p.markExited us now).ids = p.ids := rfl

theorem find_none_not_mem {p : Pool} {i : Nat} (h : p.find i = none) : i ∉ p.ids := by
  unfold find at h
  rw [List.find?_eq_none] at h
  intro hi
  unfold ids at hi
  obtain ⟨w, hw, he⟩ := List.mem_map.mp hi
  exact h w hw (by simp [he])

theorem ids_updateWorker (p : Pool) (l : Listed) (now : Nat) :
    (p.updateWorker l now).ids = p.ids ∨
    ((p.updateWorker l now).ids = p.ids ++ [l.id] ∧ l.id ∉ p.ids) := by
  unfold updateWorker
  cases h : p.find l.id with
  | some w => exact Or.inl (ids_put p _)
  | none =>
    refine Or.inr ⟨?_, find_none_not_mem h⟩
    simp [ids]

theorem WF_put {p : Pool} (h : p.WF) (w : Worker) : (p.put w).WF := by
  rw [WF_iff_ids] at *; rw [ids_put]; exact h

theorem WF_updateWorker {p : Pool} (h : p.WF) (l : Listed) (now : Nat) : (p.updateWorker l now).WF := by
  rw [WF_iff_ids] at *
  rcases ids_updateWorker p l now with e | ⟨e, hn⟩
  · rw [e]; exact h
  · rw [e]
    rw [List.nodup_append]
    refine ⟨h, by simp, ?_⟩
    intro a ha b hb
    simp only [List.mem_singleton] at hb
    subst hb
    intro e'; subst e'; exact hn ha

theorem WF_syncFold (listed : List Listed) (retry : Nat → Bool) (now : Nat) : ∀ (p : Pool), p.WF →
    (listed.foldl (fun p l =>
      let existed := (p.find l.id).isSome
      let p := p.updateWorker l now
      match p.find l.id with
      | some w => if existed && w.state == .shutdown && retry l.id then p.put (w.shutdown now) else p
      | none => p) p).WF := by
  induction listed with
  | nil => intro p h; exact h
  | cons l rest ih =>
    intro p h
    rw [List.foldl_cons]
    apply ih
    have h1 := WF_updateWorker h l now
    dsimp only
    split
    · split
      · exact WF_put h1 _
      · exact h1
    · exact h1

theorem WF_sync {p : Pool} (h : p.WF) (th : Nat) (listed : List Listed) (retry : Nat → Bool) (now : Nat) :
    (p.sync th listed retry now).WF := by
  unfold sync
  have := WF_syncFold listed retry now p h
  unfold WF at *
  exact List.Pairwise.filter _ this

theorem WF_apply {p : Pool} (h : p.WF) (op : PoolOp) : (p.apply op).WF := by
  cases op with
  | start it u wid =>
    show ((p.startContainer it u wid).getD p).WF
    unfold startContainer
    split
    · cases hf : p.find wid with
      | some w => exact WF_put h _
      | none => exact h
    · exact h
  | startDone wid u now =>
    show (p.startDone wid u now).WF
    unfold startDone
    split
    · exact WF_put h _
    · exact h
  | closeRunner wid u now =>
    show (p.closeRunner wid u now).WF
    unfold closeRunner
    split
    · dsimp only
      split
      · exact WF_put h _
      · exact WF_put h _
    · exact h
  | probeApply wid pr now =>
    show (p.probeApply wid pr now).WF
    unfold probeApply
    split
    · exact WF_put h _
    · exact h
  | shutdown wid now =>
    show (p.shutdownWorker wid now).WF
    unfold shutdownWorker
    split
    · exact WF_put h _
    · exact h
  | setIdle wid b t g now =>
    show (p.setIdleBehavior wid b t g now).WF
    unfold setIdleBehavior
    split
    · exact WF_put h _
    · exact h
  | forget u => exact h
  | sync th ls retry now => exact WF_sync h th ls retry now
  | listAndSync r retry th now =>
    show (p.getInstancesAndSync r retry th now).WF
    unfold getInstancesAndSync
    split
    · exact WF_sync h _ _ _ _
    · exact h

theorem WF_empty : empty.WF := List.Pairwise.nil

theorem WF_of_reachable {p : Pool} (h : p.Reachable) : p.WF := by
  induction h with
  | init => exact WF_empty
  | step op _ ih => exact WF_apply ih op

end Pool
end ArvVerif.C14
