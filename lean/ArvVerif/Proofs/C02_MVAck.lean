/-
C02 helper lemmas, part 9 (several volumes): which volumes get events at all, what an
acknowledgement implies for the acknowledging volume, `GetBlock` over the mounts, and the link to
the single-volume history model (`Reach`): every volume's state after any crash prefix of a
multi-volume PUT is a reachable state of that volume's own history.
-/
import ArvVerif.Proofs.C02_MV
import ArvVerif.Proofs.C02_Inv
namespace ArvVerif.C02

/-! ### events happen on writable volumes only -/

def TagsIn (ws : List Nat) (evs : List MEv) : Prop := ∀ e ∈ evs, e.1 ∈ ws

theorem tagsIn_nil (ws : List Nat) : TagsIn ws [] := by intro e he; cases he

theorem tagsIn_append {ws : List Nat} {a b : List MEv} (ha : TagsIn ws a) (hb : TagsIn ws b) : TagsIn ws (a ++ b) := by
  intro e he
  rcases List.mem_append.1 he with h | h
  · exact ha e h
  · exact hb e h

theorem tagsIn_tag {ws : List Nat} {i : Nat} (hi : i ∈ ws) (l : List Ev) : TagsIn ws (tagEvs i l) := by
  intro e he
  simp only [tagEvs, List.mem_map] at he
  obtain ⟨_, _, rfl⟩ := he
  exact hi

theorem tagsIn_mono {ws ws' : List Nat} {evs : List MEv} (h : TagsIn ws evs) (hs : ∀ i ∈ ws, i ∈ ws') : TagsIn ws' evs :=
  fun e he => hs _ (h e he)

theorem tagsIn_compareAndTouch (hash : Bytes → Name) (vs : Nat → FS) (p : MPutIn) (ws : List Nat) (pos : Nat) :
    TagsIn ws (compareAndTouchMV hash vs p ws pos).1 := by
  induction ws generalizing pos with
  | nil => exact tagsIn_nil _
  | cons i rest ih =>
    have hi : i ∈ i :: rest := List.mem_cons_self
    have hr := tagsIn_mono (ih (pos + 1)) (fun j hj => List.mem_cons_of_mem i hj)
    have hc := tagsIn_tag hi (compareEvs (vs i) p.h)
    have ht := tagsIn_tag hi (touchEvs (vs i) p.h p.now (p.touchFail i)).1
    simp only [compareAndTouchMV]
    split
    · exact hc
    · split
      · exact tagsIn_append hc hr
      · split
        · split
          · exact tagsIn_append hc ht
          · exact tagsIn_append (tagsIn_append hc ht) hr
        · split
          · exact hc
          · exact tagsIn_append hc hr

theorem tagsIn_putOn (c : MVCfg) {ws : List Nat} {i : Nat} (hi : i ∈ ws) (w : WBIn) : TagsIn ws (putOn c i w).1 := by
  unfold putOn
  split
  · exact tagsIn_nil _
  · exact tagsIn_tag hi _

theorem tagsIn_loopPuts (c : MVCfg) (p : MPutIn) (allFull : Bool) (ws : List Nat) (call : Nat) :
    TagsIn ws (loopPuts c p allFull ws call).1 := by
  induction ws generalizing allFull call with
  | nil => exact tagsIn_nil _
  | cons i rest ih =>
    have hi : i ∈ i :: rest := List.mem_cons_self
    have h1 := tagsIn_putOn c hi (p.loop i)
    have hr := tagsIn_mono (ih (allFull && c.full i) (call + 1)) (fun j hj => List.mem_cons_of_mem i hj)
    simp only [loopPuts]
    split
    · exact h1
    · split
      · exact h1
      · exact tagsIn_append h1 hr

theorem tagsIn_handlePutMV (hash : Bytes → Name) (c : MVCfg) (vs : Nat → FS) (p : MPutIn) :
    TagsIn c.writables (handlePutMV hash c vs p).1 := by
  unfold handlePutMV
  split
  · exact tagsIn_nil _
  · split
    · exact tagsIn_nil _
    · have hct := tagsIn_compareAndTouch hash vs p c.writables 0
      unfold putBlockMV
      simp only
      split
      · exact hct
      · exact hct
      · exact hct
      · split
        · exact hct
        · rename_i i0 hi0
          have h0 := tagsIn_putOn c (List.mem_of_getElem? hi0) p.first
          split
          · exact tagsIn_append hct h0
          · split
            · exact tagsIn_append hct h0
            · exact tagsIn_append (tagsIn_append hct h0) (tagsIn_loopPuts c p _ _ _)

theorem projEvs_of_not_tagged {ws : List Nat} {evs : List MEv} (h : TagsIn ws evs) {i : Nat} (hi : i ∉ ws) :
    projEvs i evs = [] := by
  simp only [projEvs, List.map_eq_nil_iff, List.filter_eq_nil_iff]
  intro e he
  have := h e he
  simp only [beq_iff_eq]
  intro heq
  exact hi (heq ▸ this)

theorem mem_writables {c : MVCfg} {i : Nat} (h : i ∈ c.writables) : i < c.n ∧ c.readOnly i = false := by
  simp only [MVCfg.writables, List.mem_filter, List.mem_range, Bool.not_eq_true'] at h
  exact h

/-! ### per-volume: only looking / timestamps on a full volume -/

def Keeping (evs : List Ev) : Prop := ∀ e ∈ evs, e.eff = .nop ∨ ∃ q t, e.eff = .chtimes q t

theorem keeping_nil : Keeping [] := by intro e he; cases he

theorem keeping_append {a b : List Ev} (ha : Keeping a) (hb : Keeping b) : Keeping (a ++ b) := by
  intro e he
  rcases List.mem_append.1 he with h | h
  · exact ha e h
  · exact hb e h

theorem keeping_proj_tag (i j : Nat) {l : List Ev} (hl : Keeping l) : Keeping (projEvs i (tagEvs j l)) := by
  rw [projEvs_tag]
  split
  · exact hl
  · exact keeping_nil

theorem keeping_compareAndTouch (hash : Bytes → Name) (vs : Nat → FS) (p : MPutIn) (ws : List Nat) (pos i : Nat) :
    Keeping (projEvs i (compareAndTouchMV hash vs p ws pos).1) := by
  induction ws generalizing pos with
  | nil => exact keeping_nil
  | cons j rest ih =>
    have hc : Keeping (projEvs i (tagEvs j (compareEvs (vs j) p.h))) := keeping_proj_tag i j (compare_keeping _ _)
    have ht : Keeping (projEvs i (tagEvs j (touchEvs (vs j) p.h p.now (p.touchFail j)).1)) :=
      keeping_proj_tag i j (touch_keeping _ _ _ _)
    simp only [compareAndTouchMV]
    split
    · exact hc
    · split
      · rw [projEvs_append]; exact keeping_append hc (ih _)
      · split
        · split
          · rw [projEvs_append]; exact keeping_append hc ht
          · rw [projEvs_append, projEvs_append]; exact keeping_append (keeping_append hc ht) (ih _)
        · split
          · exact hc
          · rw [projEvs_append]; exact keeping_append hc (ih _)

theorem keeping_putOn_full (c : MVCfg) (i j : Nat) (w : WBIn) (hf : c.full i = true) :
    Keeping (projEvs i (putOn c j w).1) := by
  unfold putOn
  split
  · exact keeping_nil
  · rename_i hj
    rw [projEvs_tag]
    split
    · rename_i hij
      subst hij
      exact absurd hf hj
    · exact keeping_nil

theorem keeping_loopPuts_full (c : MVCfg) (p : MPutIn) (allFull : Bool) (ws : List Nat) (call i : Nat)
    (hf : c.full i = true) : Keeping (projEvs i (loopPuts c p allFull ws call).1) := by
  induction ws generalizing allFull call with
  | nil => exact keeping_nil
  | cons j rest ih =>
    have h1 := keeping_putOn_full c i j (p.loop j) hf
    simp only [loopPuts]
    split
    · exact h1
    · split
      · exact h1
      · rw [projEvs_append]; exact keeping_append h1 (ih _ _)

theorem keeping_handlePutMV_full (hash : Bytes → Name) (c : MVCfg) (vs : Nat → FS) (p : MPutIn) (i : Nat)
    (hf : c.full i = true) : Keeping (projEvs i (handlePutMV hash c vs p).1) := by
  unfold handlePutMV
  split
  · exact keeping_nil
  · split
    · exact keeping_nil
    · have hct := keeping_compareAndTouch hash vs p c.writables 0 i
      unfold putBlockMV
      simp only
      split
      · exact hct
      · exact hct
      · exact hct
      · split
        · exact hct
        · rename_i i0 _
          have h0 := keeping_putOn_full c i i0 p.first hf
          split
          · rw [projEvs_append]; exact keeping_append hct h0
          · split
            · rw [projEvs_append]; exact keeping_append hct h0
            · rw [projEvs_append, projEvs_append]
              exact keeping_append (keeping_append hct h0) (keeping_loopPuts_full c p _ _ _ i hf)

/-! ### what an acknowledgement implies -/

/-- whatever volume `j` held before, after these events its block path holds the complete body -/
def AckAt (h : Name) (body : Bytes) (j : Nat) (evs : List MEv) : Prop :=
  ∀ fs : FS, (run fs (projEvs j evs)).data (blockPath h) = some body

theorem ackAt_append_right {h : Name} {body : Bytes} {j : Nat} (a : List MEv) {b : List MEv}
    (hb : AckAt h body j b) : AckAt h body j (a ++ b) := by
  intro fs
  rw [projEvs_append, run_append]
  exact hb _

theorem ackAt_putOn (c : MVCfg) (i : Nat) {h : Name} {body : Bytes} (w : WBIn) (hw : w.h = h)
    (hv : w.rend = .eof → w.chunks.flatten = body) (hok : (putOn c i w).2 = true) :
    AckAt h body i (putOn c i w).1 := by
  unfold putOn at hok ⊢
  split
  · rename_i hf; simp [hf] at hok
  · rename_i hf
    simp only [hf] at hok
    intro fs
    rw [projEvs_tag_self]
    obtain ⟨h1, _, h3⟩ := wb_success fs w (by simpa using hok)
    rw [← hw]
    simp [FS.data, h3, hv h1]

theorem ack_loopPuts (c : MVCfg) (p : MPutIn) (hp : p.valid) (allFull : Bool) (ws : List Nat) (call : Nat) :
    ((loopPuts c p allFull ws call).2.1 = .ok200 → ∃ j, (loopPuts c p allFull ws call).2.2 = some j) ∧
    ∀ j, (loopPuts c p allFull ws call).2.2 = some j →
      j ∈ ws ∧ (loopPuts c p allFull ws call).2.1 = .ok200 ∧ AckAt p.h p.body j (loopPuts c p allFull ws call).1 := by
  induction ws generalizing allFull call with
  | nil =>
    simp only [loopPuts]
    refine ⟨?_, ?_⟩
    · intro h; split at h <;> cases h
    · intro j h; cases h
  | cons i rest ih =>
    simp only [loopPuts]
    split
    · refine ⟨fun h => (by cases h), fun j h => (by cases h)⟩
    · split
      · rename_i hok
        refine ⟨fun _ => ⟨i, rfl⟩, ?_⟩
        intro j hj
        simp only [Option.some.injEq] at hj
        subst hj
        exact ⟨List.mem_cons_self, rfl, ackAt_putOn c i (p.loop i) (hp.2 i).1 (hp.2 i).2 hok⟩
      · obtain ⟨h1, h2⟩ := ih (allFull && c.full i) (call + 1)
        refine ⟨h1, ?_⟩
        intro j hj
        obtain ⟨hm, hr, ha⟩ := h2 j hj
        exact ⟨List.mem_cons_of_mem _ hm, hr, ackAt_append_right _ ha⟩

theorem touched_compareAndTouch (hash : Bytes → Name) (vs : Nat → FS) (p : MPutIn) (ws : List Nat) (pos j : Nat)
    (h : (compareAndTouchMV hash vs p ws pos).2 = .touched j) :
    j ∈ ws ∧ (vs j).data (blockPath p.h) = some p.body := by
  induction ws generalizing pos with
  | nil => simp [compareAndTouchMV] at h
  | cons i rest ih =>
    simp only [compareAndTouchMV] at h
    split at h
    · cases h
    · split at h
      · obtain ⟨h1, h2⟩ := ih _ h; exact ⟨List.mem_cons_of_mem _ h1, h2⟩
      · rename_i f hf
        split at h
        · rename_i hd
          split at h
          · simp only [CTRes.touched.injEq] at h
            subst h
            exact ⟨List.mem_cons_self, by simp [FS.data, hf, hd]⟩
          · obtain ⟨h1, h2⟩ := ih _ h; exact ⟨List.mem_cons_of_mem _ h1, h2⟩
        · split at h
          · cases h
          · obtain ⟨h1, h2⟩ := ih _ h; exact ⟨List.mem_cons_of_mem _ h1, h2⟩

/-- 200 ⇒ some writable volume acknowledged, and after all events that volume holds the body. -/
theorem ack_handlePutMV (hash : Bytes → Name) (c : MVCfg) (vs : Nat → FS) (p : MPutIn) (hp : p.valid) :
    ((handlePutMV hash c vs p).2.1 = .ok200 → ∃ j, (handlePutMV hash c vs p).2.2 = some j) ∧
    ∀ j, (handlePutMV hash c vs p).2.2 = some j →
      j ∈ c.writables ∧ (handlePutMV hash c vs p).2.1 = .ok200 ∧ hash p.body = p.h ∧
      (run (vs j) (projEvs j (handlePutMV hash c vs p).1)).data (blockPath p.h) = some p.body := by
  unfold handlePutMV
  split
  · exact ⟨fun h => (by cases h), fun j h => (by cases h)⟩
  · split
    · exact ⟨fun h => (by cases h), fun j h => (by cases h)⟩
    · rename_i hh
      have hh' : hash p.body = p.h := by simpa using hh
      unfold putBlockMV
      simp only
      split
      · rename_i i hct
        refine ⟨fun _ => ⟨i, rfl⟩, ?_⟩
        intro j hj
        simp only [Option.some.injEq] at hj
        subst hj
        obtain ⟨hm, hd⟩ := touched_compareAndTouch hash vs p _ _ _ hct
        refine ⟨hm, rfl, hh', ?_⟩
        rw [data_run_keeping _ _ (keeping_compareAndTouch hash vs p c.writables 0 i)]
        exact hd
      · exact ⟨fun h => (by cases h), fun j h => (by cases h)⟩
      · exact ⟨fun h => (by cases h), fun j h => (by cases h)⟩
      · split
        · exact ⟨fun h => (by cases h), fun j h => (by cases h)⟩
        · rename_i i0 hi0
          split
          · exact ⟨fun h => (by cases h), fun j h => (by cases h)⟩
          · split
            · rename_i hok
              refine ⟨fun _ => ⟨i0, rfl⟩, ?_⟩
              intro j hj
              simp only [Option.some.injEq] at hj
              subst hj
              exact ⟨List.mem_of_getElem? hi0, rfl, hh',
                ackAt_append_right _ (ackAt_putOn c i0 p.first hp.1.1 hp.1.2 hok) _⟩
            · obtain ⟨h1, h2⟩ := ack_loopPuts c p hp true c.writables 1
              refine ⟨h1, ?_⟩
              intro j hj
              obtain ⟨hm, hr, ha⟩ := h2 j hj
              exact ⟨hm, hr, hh', ackAt_append_right _ ha _⟩

/-! ### GetBlock over the mounts -/

theorem getBlock_ok_hash {hash : Bytes → Name} {fs : FS} {h : Name} {b : Bytes}
    (hb : getBlock hash fs h = .ok b) : hash b = h := by
  unfold getBlock at hb
  split at hb
  · cases hb
  · split at hb
    · rename_i hh
      simp only [GetRes.ok.injEq] at hb
      subst hb; exact hh
    · cases hb

theorem getBlock_of_data {hash : Bytes → Name} {fs : FS} {h : Name} {b : Bytes}
    (hd : fs.data (blockPath h) = some b) (hh : hash b = h) : getBlock hash fs h = .ok b := by
  unfold getBlock
  simp only [FS.data] at hd
  cases hg : fs.get (blockPath h) with
  | none => simp [hg] at hd
  | some f =>
    simp only [hg, Option.map_some, Option.some.injEq] at hd
    simp [hd, hh]

theorem getBlock_congr_data {hash : Bytes → Name} {fs fs' : FS} {h : Name}
    (hd : fs'.data (blockPath h) = fs.data (blockPath h)) : getBlock hash fs' h = getBlock hash fs h := by
  unfold getBlock
  simp only [FS.data] at hd
  cases hg : fs.get (blockPath h) <;> cases hg' : fs'.get (blockPath h) <;> simp [hg, hg'] at hd ⊢
  rw [hd]

theorem getBlockOver_ok (hash : Bytes → Name) (vs : Nat → FS) (h : Name) (l : List Nat) (acc : GetRes)
    (hex : ∃ j ∈ l, ∃ b, getBlock hash (vs j) h = .ok b) :
    ∃ b, getBlockOver hash vs h l acc = .ok b ∧ hash b = h := by
  induction l generalizing acc with
  | nil => obtain ⟨j, hj, _⟩ := hex; cases hj
  | cons i rest ih =>
    simp only [getBlockOver]
    cases hg : getBlock hash (vs i) h with
    | ok b => exact ⟨b, rfl, getBlock_ok_hash hg⟩
    | diskHashError =>
      obtain ⟨j, hj, b, hb⟩ := hex
      rcases List.mem_cons.1 hj with rfl | hj'
      · rw [hg] at hb; cases hb
      · exact ih _ ⟨j, hj', b, hb⟩
    | notFound =>
      obtain ⟨j, hj, b, hb⟩ := hex
      rcases List.mem_cons.1 hj with rfl | hj'
      · rw [hg] at hb; cases hb
      · exact ih _ ⟨j, hj', b, hb⟩

theorem getBlockOver_ok_inv (hash : Bytes → Name) (vs : Nat → FS) (h : Name) (l : List Nat) (acc : GetRes) (b : Bytes)
    (hacc : ∀ b', acc ≠ .ok b') (hg : getBlockOver hash vs h l acc = .ok b) :
    ∃ j ∈ l, getBlock hash (vs j) h = .ok b := by
  induction l generalizing acc with
  | nil => simp only [getBlockOver] at hg; exact absurd hg (hacc b)
  | cons i rest ih =>
    simp only [getBlockOver] at hg
    cases hgi : getBlock hash (vs i) h with
    | ok b' =>
      rw [hgi] at hg
      simp only [GetRes.ok.injEq] at hg
      subst hg
      exact ⟨i, List.mem_cons_self, hgi⟩
    | diskHashError =>
      rw [hgi] at hg
      obtain ⟨j, hj, hb⟩ := ih _ (fun _ h' => by cases h') hg
      exact ⟨j, List.mem_cons_of_mem _ hj, hb⟩
    | notFound =>
      rw [hgi] at hg
      obtain ⟨j, hj, hb⟩ := ih _ hacc hg
      exact ⟨j, List.mem_cons_of_mem _ hj, hb⟩

/-! ### link to the single-volume history model -/

section Reach
variable (hash : Bytes → Name)

theorem reach_trans {fs0 fs1 fs2 : FS} (h1 : Reach hash fs0 fs1) (h2 : Reach hash fs1 fs2) : Reach hash fs0 fs2 := by
  induction h2 with
  | init => exact h1
  | step op k _ hv ih => exact Reach.step op k ih hv

/-- from any state, every prefix of the list leads to a state the history model reaches -/
def ReachSafe (evs : List Ev) : Prop := ∀ (fs : FS) (k : Nat), Reach hash fs (run fs (evs.take k))

theorem reachSafe_nil : ReachSafe hash [] := by intro fs k; simpa using Reach.init

theorem reachSafe_append {a b : List Ev} (ha : ReachSafe hash a) (hb : ReachSafe hash b) : ReachSafe hash (a ++ b) := by
  intro fs k
  rw [List.take_append, run_append]
  exact reach_trans hash (ha fs k) (hb _ _)

/-- looking and timestamp changes are environment steps of the history model -/
theorem reachSafe_keeping {evs : List Ev} (hk : Keeping evs) : ReachSafe hash evs := by
  induction evs with
  | nil => exact reachSafe_nil hash
  | cons e es ih =>
    have h1 : ReachSafe hash [e] := by
      intro fs k
      have hv : (Op.env e.eff).valid hash := by
        rcases hk e List.mem_cons_self with h0 | ⟨q, t, h0⟩ <;> rw [h0] <;> exact trivial
      have := Reach.step (hash := hash) (fs0 := fs) (Op.env e.eff) k Reach.init hv
      cases k with
      | zero => simpa using Reach.init
      | succ k => simpa [Op.evs, run] using this
    exact reachSafe_append hash (a := [e]) h1 (ih (fun e' he' => hk e' (List.mem_cons_of_mem _ he')))

theorem reachSafe_wb (w : WBIn) (hb : isBlockName w.h = true) (hv : w.rend = .eof → hash w.chunks.flatten = w.h) :
    ReachSafe hash (writeBlockEvs w).1 := by
  intro fs k
  exact Reach.step (Op.writeBlock w) k Reach.init ⟨hb, hv⟩

def ReachSafeMV (evs : List MEv) : Prop := ∀ i, ReachSafe hash (projEvs i evs)

theorem reachSafeMV_nil : ReachSafeMV hash [] := fun _ => reachSafe_nil hash

theorem reachSafeMV_append {a b : List MEv} (ha : ReachSafeMV hash a) (hb : ReachSafeMV hash b) :
    ReachSafeMV hash (a ++ b) := by
  intro i; rw [projEvs_append]; exact reachSafe_append hash (ha i) (hb i)

theorem reachSafeMV_tag (j : Nat) {l : List Ev} (hl : ReachSafe hash l) : ReachSafeMV hash (tagEvs j l) := by
  intro i
  rw [projEvs_tag]
  split
  · exact hl
  · exact reachSafe_nil hash

theorem reachSafe_compareAndTouch (vs : Nat → FS) (p : MPutIn) (ws : List Nat) (pos : Nat) :
    ReachSafeMV hash (compareAndTouchMV hash vs p ws pos).1 :=
  fun i => reachSafe_keeping hash (keeping_compareAndTouch hash vs p ws pos i)

theorem reachSafe_putOn (c : MVCfg) (i : Nat) (w : WBIn) (hb : isBlockName w.h = true)
    (hv : w.rend = .eof → hash w.chunks.flatten = w.h) : ReachSafeMV hash (putOn c i w).1 := by
  unfold putOn
  split
  · exact reachSafeMV_nil hash
  · exact reachSafeMV_tag hash i (reachSafe_wb hash w hb hv)

theorem reachSafe_loopPuts (c : MVCfg) (p : MPutIn) (hp : p.valid) (hb : isBlockName p.h = true)
    (hh : hash p.body = p.h) (allFull : Bool) (ws : List Nat) (call : Nat) :
    ReachSafeMV hash (loopPuts c p allFull ws call).1 := by
  induction ws generalizing allFull call with
  | nil => exact reachSafeMV_nil hash
  | cons i rest ih =>
    have h1 := reachSafe_putOn hash c i (p.loop i) ((hp.2 i).1 ▸ hb)
      (fun he => by rw [(hp.2 i).2 he, (hp.2 i).1]; exact hh)
    simp only [loopPuts]
    split
    · exact h1
    · split
      · exact h1
      · exact reachSafeMV_append hash h1 (ih _ _)

theorem reachSafe_handlePutMV (c : MVCfg) (vs : Nat → FS) (p : MPutIn) (hp : p.valid) :
    ReachSafeMV hash (handlePutMV hash c vs p).1 := by
  unfold handlePutMV
  split
  · exact reachSafeMV_nil hash
  · rename_i hb
    have hb' : isBlockName p.h = true := by simpa using hb
    split
    · exact reachSafeMV_nil hash
    · rename_i hh
      have hh' : hash p.body = p.h := by simpa using hh
      have hct := reachSafe_compareAndTouch hash vs p c.writables 0
      unfold putBlockMV
      simp only
      split
      · exact hct
      · exact hct
      · exact hct
      · split
        · exact hct
        · rename_i i0 _
          have h0 := reachSafe_putOn hash c i0 p.first (hp.1.1 ▸ hb')
            (fun he => by rw [hp.1.2 he, hp.1.1]; exact hh')
          split
          · exact reachSafeMV_append hash hct h0
          · split
            · exact reachSafeMV_append hash hct h0
            · exact reachSafeMV_append hash (reachSafeMV_append hash hct h0)
                (reachSafe_loopPuts hash c p hp hb' hh' _ _ _)

end Reach

end ArvVerif.C02
