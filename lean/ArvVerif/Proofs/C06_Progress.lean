/-
C06(a) proofs: termination.  Once the table has stopped changing, every loop iteration strictly
decreases  μ = 3·(number of rows after the cursor in (modified_at, uuid) order) + rank(mode),
rank(first page, `>=`) = 2, rank(`=`) = 1, rank(`>`) = 0.  Hence the loop makes at most
K + 3·|db| + 3 page requests if the table is constant from request K on.
-/
import ArvVerif.Proofs.C06_Serve
namespace ArvVerif.C06

def aheadCount (db : List Coll) (last : Option Key) : Nat :=
  match last with
  | none => db.length
  | some k => (db.filter (fun c => decide (klt k c.key))).length

def rank : Filt → Nat
  | .all => 2
  | .ge _ _ => 2
  | .eq _ _ => 1
  | .gt _ => 0

def mu (db : List Coll) (s : St) : Nat := 3 * aheadCount db s.last + rank s.filt

theorem filter_length_lt {α} (p q : α → Bool) : ∀ (l : List α), (∀ x ∈ l, q x = true → p x = true) →
    (∃ a ∈ l, p a = true ∧ q a = false) → (l.filter q).length < (l.filter p).length := by
  intro l
  induction l with
  | nil => intro _ ⟨a, ha, _⟩; simp at ha
  | cons x t ih =>
    intro himp ⟨a, ha, hpa, hqa⟩
    have hle : (t.filter q).length ≤ (t.filter p).length := by
      clear ih ha
      induction t with
      | nil => simp
      | cons y t' ih' =>
        have hy := himp y (by simp)
        have ih'' := ih' (fun z hz => himp z (by
          rcases List.mem_cons.mp hz with rfl | hz'
          · simp
          · simp [hz']))
        simp only [List.filter_cons]
        cases hq : q y <;> cases hp : p y <;> simp [hq, hp] at hy ⊢ <;> omega
    rcases List.mem_cons.mp ha with rfl | hat
    · simp only [List.filter_cons, hpa, hqa, if_true, Bool.false_eq_true, if_false, List.length_cons]
      omega
    · have := ih (fun z hz => himp z (by simp [hz])) ⟨a, hat, hpa, hqa⟩
      have hx := himp x (by simp)
      simp only [List.filter_cons]
      cases hq : q x <;> cases hp : p x <;> simp [hq, hp] at hx ⊢ <;> omega

theorem aheadCount_le (db : List Coll) (last : Option Key) : aheadCount db last ≤ db.length := by
  unfold aheadCount
  split
  · exact Nat.le_refl _
  · exact List.length_filter_le _ _

theorem mu_le (db : List Coll) (s : St) : mu db s ≤ 3 * db.length + 2 := by
  unfold mu
  have := aheadCount_le db s.last
  have : rank s.filt ≤ 2 := by unfold rank; split <;> omega
  omega

/-- Moving the cursor forward to the key of a row strictly decreases the number of rows after it. -/
theorem aheadCount_lt {db : List Coll} {last : Option Key} {p : Coll} (hp : p ∈ db) (ha : ahead last p) :
    aheadCount db (some p.key) < aheadCount db last := by
  unfold aheadCount
  cases last with
  | none =>
    simp only
    have : (db.filter (fun c => decide (klt p.key c.key))).length < (db.filter (fun _ => true)).length := by
      apply filter_length_lt
      · intro _ _ _; rfl
      · exact ⟨p, hp, rfl, by simp [klt]⟩
    have h2 : (db.filter (fun _ => true)).length = db.length := by simp
    omega
  | some k =>
    simp only
    apply filter_length_lt
    · intro x _ hx
      simp only [decide_eq_true_eq] at hx ⊢
      exact klt_trans ha hx
    · exact ⟨p, hp, by simpa [ahead] using ha, by simp [klt]⟩

/-! ### Where the cursor is after a page -/

theorem processPage_last (l : List Coll) (hs : l.Pairwise (fun a b => klt a.key b.key)) : ∀ (s : St),
    (∀ p ∈ l, skip s.last p = false → ahead s.last p) →
    ((∀ p ∈ l, skip s.last p = true) ∧ (l.foldl processItem s).last = s.last) ∨
    (∃ p ∈ l, (l.foldl processItem s).last = some p.key ∧ ahead s.last p) := by
  induction l with
  | nil => intro s _; left; simp
  | cons h tl ih =>
    intro s H
    have hs' := List.pairwise_cons.mp hs
    simp only [List.foldl_cons]
    by_cases hsk : skip s.last h = true
    · have hpi : processItem s h = s := by unfold processItem; simp [hsk]
      rw [hpi]
      rcases ih hs'.2 s (fun p hp => H p (by simp [hp])) with ⟨h1, h2⟩ | ⟨p, hp, h1, h2⟩
      · left
        refine ⟨?_, h2⟩
        intro p hp
        rcases List.mem_cons.mp hp with rfl | hp'
        · exact hsk
        · exact h1 p hp'
      · right; exact ⟨p, by simp [hp], h1, h2⟩
    · have hskf : skip s.last h = false := by simpa using hsk
      have hah : ahead s.last h := H h (by simp) hskf
      have hlast : (processItem s h).last = some h.key := by unfold processItem; simp [hskf]
      right
      rcases ih hs'.2 (processItem s h) (by
          intro p hp _
          rw [hlast]
          exact hs'.1 p hp) with ⟨_, h2⟩ | ⟨p, hp, h1, h2⟩
      · exact ⟨h, by simp, by rw [h2, hlast], hah⟩
      · refine ⟨p, by simp [hp], h1, ?_⟩
        rw [hlast] at h2
        cases hl : s.last with
        | none => simp [ahead]
        | some k =>
          rw [hl] at hah
          simp only [ahead] at hah h2 ⊢
          exact klt_trans hah h2

/-- With the mode invariant, a returned row that is not skipped lies after the cursor. -/
theorem nonskipped_ahead {P db s} (h : Inv P db s) {p : Coll} (hok : s.filt.ok p)
    (hsk : skip s.last p = false) : ahead s.last p := by
  have hm := h.mode
  revert hm
  cases hf : s.filt with
  | all => simp only; intro hm; rw [hm.1]; simp [ahead]
  | ge t u =>
    simp only; intro hm
    rw [hf] at hok
    rw [hm.1] at hsk ⊢
    simp only [Filt.ok] at hok
    simp only [skip, decide_eq_false_iff_not] at hsk
    simp only [ahead, klt, Coll.key]
    omega
  | eq t u =>
    simp only; intro hm
    rw [hf] at hok
    rw [hm.1]
    simp only [Filt.ok] at hok
    simp only [ahead, klt, Coll.key]
    omega
  | gt t =>
    simp only; intro hm
    rw [hf] at hok
    obtain ⟨u, hu⟩ := hm.2.2.2
    rw [hu]
    simp only [Filt.ok] at hok
    simp only [ahead, klt, Coll.key]
    omega

/-- In `=` and `>` mode no returned row is skipped. -/
theorem never_skipped {P db s} (h : Inv P db s) {p : Coll} (hok : s.filt.ok p)
    (hmode : rank s.filt < 2) : skip s.last p = false := by
  have hm := h.mode
  revert hm
  cases hf : s.filt with
  | all => rw [hf] at hmode; simp [rank] at hmode
  | ge t u => rw [hf] at hmode; simp [rank] at hmode
  | eq t u =>
    simp only; intro hm
    rw [hf] at hok
    rw [hm.1]
    simp only [Filt.ok] at hok
    simp only [skip, decide_eq_false_iff_not]
    omega
  | gt t =>
    simp only; intro hm
    rw [hf] at hok
    obtain ⟨u, hu⟩ := hm.2.2.2
    rw [hu]
    simp only [Filt.ok] at hok
    simp only [skip, decide_eq_false_iff_not]
    omega

/-- One more loop iteration on an unchanged table strictly decreases `mu`. -/
theorem mu_decreases {P db s limit pg s' cbFail} (h : Inv P db s) (hp : PageOf db s.filt limit pg)
    (hn : next cbFail s pg = .cont s') : mu db s' < mu db s := by
  have hadv := next_cont hn
  obtain ⟨f1, _, _, _, _⟩ := fold_props pg hp.sorted s
  have hfilt : (processPage s pg).filt = s.filt := f1.1
  have hft : (processPage s pg).ftime = s.ftime := f1.2.1
  have hex : (processPage s pg).exact = s.exact := f1.2.2
  have hlast := processPage_last pg hp.sorted s
    (fun p hpp hsk => nonskipped_ahead h (hp.sub p hpp).2 hsk)
  -- the cursor either stayed (every row skipped) or advanced to a row of the table
  have hA : (processPage s pg).last = s.last ∨
      aheadCount db (processPage s pg).last < aheadCount db s.last := by
    rcases hlast with ⟨_, h2⟩ | ⟨p, hpp, h1, h2⟩
    · left; exact h2
    · right
      show aheadCount db (pg.foldl processItem s).last < _
      rw [h1]; exact aheadCount_lt (hp.sub p hpp).1 h2
  have hAle : aheadCount db (processPage s pg).last ≤ aheadCount db s.last := by
    rcases hA with h1 | h1
    · rw [h1]; exact Nat.le_refl _
    · omega
  -- in `=`/`>` mode a non-empty page advances the cursor
  have hadvances : rank s.filt < 2 → pg ≠ [] →
      aheadCount db (processPage s pg).last < aheadCount db s.last := by
    intro hr hne
    rcases hlast with ⟨h1, _⟩ | ⟨p, hpp, h1, h2⟩
    · cases pg with
      | nil => exact absurd rfl hne
      | cons a t =>
        have := h1 a (by simp)
        rw [never_skipped h (hp.sub a (by simp)).2 hr] at this
        cases this
    · show aheadCount db (pg.foldl processItem s).last < _
      rw [h1]; exact aheadCount_lt (hp.sub p hpp).1 h2
  have hm := h.mode
  unfold advance at hadv
  split at hadv
  · cases hadv
  · rename_i hnd
    split at hadv
    · cases hadv
    · rename_i lt lu hl
      split at hadv
      · cases hadv
      · rename_i hlt0
        split at hadv
        · -- switch to / stay in `=` mode
          rename_i hc
          cases hadv
          simp only [Bool.and_eq_true, Bool.not_eq_true', List.isEmpty_eq_false_iff,
            decide_eq_true_eq] at hc
          unfold mu
          simp only [rank]
          rcases hA with hsame | hlt
          · -- cursor unchanged: only possible in `>=` mode
            revert hm
            cases hf : s.filt with
            | all => simp only; intro hm; rw [hsame, hm.1] at hl; cases hl
            | ge t u => intro _; rw [hsame]; simp
            | eq t u =>
              intro _
              have := hadvances (by rw [hf]; simp [rank]) hc.1
              rw [hsame] at this; omega
            | gt t =>
              intro _
              have := hadvances (by rw [hf]; simp [rank]) hc.1
              rw [hsame] at this; omega
          · omega
        · rename_i hc
          split at hadv
          · -- leave `=` mode: `>`
            rename_i hex'
            cases hadv
            unfold mu
            simp only [rank]
            have hexs : s.exact = true := by rw [← hex]; exact hex'
            obtain ⟨t, u, hf, _, _⟩ := exact_iff_eq h hexs
            rw [hf]
            simp only
            omega
          · -- `>=` mode from the new cursor
            rename_i hex'
            cases hadv
            unfold mu
            simp only [rank]
            have hexf : (processPage s pg).exact = false := by simpa using hex'
            have hpgne : pg ≠ [] := by
              intro hnil
              apply hnd
              rw [hnil] at hexf ⊢
              simp [hexf]
            have hltne : lt ≠ (processPage s pg).ftime := by
              intro heq
              apply hc
              simp [hpgne, heq]
            rcases hA with hsame | hlt
            · exfalso
              revert hm
              cases hf : s.filt with
              | all => simp only; intro hm; rw [hsame, hm.1] at hl; cases hl
              | ge t u =>
                simp only; intro hm
                rw [hsame, hm.1] at hl
                simp only [Option.some.injEq, Prod.mk.injEq] at hl
                exact hltne (by rw [hft, hm.2.1, hl.1])
              | eq t u =>
                simp only; intro hm
                rw [hex, hm.2.2] at hexf; cases hexf
              | gt t =>
                simp only; intro hm
                obtain ⟨u, hu⟩ := hm.2.2.2
                rw [hsame, hu] at hl
                simp only [Option.some.injEq, Prod.mk.injEq] at hl
                exact hltne (by rw [hft, hm.1, hl.1])
            · have : rank s.filt ≤ 2 := by unfold rank; split <;> omega
              omega

/-! ### Termination of the loop -/

/-- Fuel needed from request `k` on, if the table is constant (= `db`) from request `K` on. -/
def fuelNeeded (K : Nat) (db : List Coll) (k : Nat) (s : St) : Nat :=
  if K ≤ k then mu db s else (K - k) + (3 * db.length + 3)

theorem finalCheck_out (env fail k s) : (finalCheck env fail k s).out ≠ .outOfFuel := by
  unfold finalCheck
  simp only
  split
  · simp
  · split <;> simp

theorem env_nil (db db' : List Coll) : Env [] db db' := ⟨by simp, by simp⟩

theorem pageLoop_terminates {limit : Nat} {env : Nat → List Coll} {fail : Nat → Bool}
    {cbFail : Option Nat} {db : List Coll} {K : Nat} (hl : 0 < limit)
    (hnd : ∀ k, ((env k).map Coll.uuid).Nodup) (hconst : ∀ j, K ≤ j → env j = db) :
    ∀ fuel k s, Inv [] (env k) s → fuelNeeded K db k s < fuel →
      (pageLoop limit env fail cbFail fuel k s).out ≠ .outOfFuel := by
  intro fuel
  induction fuel with
  | zero => intro k s _ h; omega
  | succ n ih =>
    intro k s hinv hfuel
    have hinv1 : Inv [] (env k) (pushLog s (.reqPage s.filt)) := inv_pushLog hinv _
    have hp : PageOf (env k) (pushLog s (.reqPage s.filt)).filt limit
        (serve (env k) (pushLog s (.reqPage s.filt)).filt limit) := serve_pageOf _ _ _ hl (hnd k)
    unfold pageLoop
    simp only
    split
    · simp
    · cases hnx : next cbFail (pushLog s (.reqPage s.filt)) (serve (env k) (pushLog s (.reqPage s.filt)).filt limit) with
      | done s' => simp only; exact finalCheck_out _ _ _ _
      | bug s' => simp
      | cbErr s' => simp
      | cont s' =>
        simp only
        apply ih (k + 1) s' (inv_env (step_cont hinv1 hp hnx) (env_nil _ _))
        unfold fuelNeeded at hfuel ⊢
        by_cases hK : K ≤ k
        · have hK1 : K ≤ k + 1 := by omega
          simp only [hK, hK1, if_true] at hfuel ⊢
          have hdb := hconst k hK
          rw [hdb] at hinv1 hp hnx
          have := mu_decreases hinv1 hp hnx
          have hmu : mu db (pushLog s (.reqPage s.filt)) = mu db s := rfl
          omega
        · by_cases hK1 : K ≤ k + 1
          · simp only [hK, hK1, if_true, if_false] at hfuel ⊢
            have := mu_le db s'
            omega
          · simp only [hK, hK1, if_false] at hfuel ⊢
            omega

/-- The whole scan terminates within `K + 3·|db| + 3` loop iterations if the table is constant
from request `K` on. -/
theorem scan_terminates {limit : Nat} {env : Nat → List Coll} {fail : Nat → Bool}
    {cbFail : Option Nat} {db : List Coll} {K fuel : Nat} (hl : 0 < limit)
    (hnd : ∀ k, ((env k).map Coll.uuid).Nodup) (hconst : ∀ j, K ≤ j → env j = db)
    (hfuel : K + fuelBound db ≤ fuel) :
    (scan limit env fail cbFail fuel).out ≠ .outOfFuel := by
  unfold scan
  simp only
  split
  · simp
  · apply pageLoop_terminates hl hnd hconst fuel 1 _ (inv_pushLog (inv_init [] _) _)
    unfold fuelNeeded fuelBound at *
    have := mu_le db (pushLog init .reqCount0)
    split <;> omega

end ArvVerif.C06
