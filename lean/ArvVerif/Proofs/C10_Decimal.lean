/-
C10 — decimal rendering (`%d`) and `strconv.ParseUint` are inverse, hence every file token
`normalizedText` writes is read back by `parseFileStreamSegment` as the same span and the same
(unescaped) file name.
-/
import ArvVerif.Proofs.C10_Extract
namespace ArvVerif.C10

theorem digitChar_val : ∀ d < 10, UInt8.ofNat (Nat.digitChar d).toNat = UInt8.ofNat (48 + d) := by decide

theorem natOfDigits_snoc (a : Bytes) (c : UInt8) : natOfDigits (a ++ [c]) = natOfDigits a * 10 + (c.toNat - 48) := by
  simp [natOfDigits, List.foldl_append]

/-- `natToDec n`: non-empty, all digits, and reads back as `n` -/
theorem natToDec_spec : ∀ n : Nat, natToDec n ≠ [] ∧ (natToDec n).all isDigit = true ∧ natOfDigits (natToDec n) = n := by
  intro n
  induction n using Nat.strongRecOn with
  | _ n ih =>
    by_cases hlt : n < 10
    · unfold natToDec
      rw [Nat.toDigits_of_lt_base hlt]
      simp only [List.map_cons, List.map_nil]
      rw [digitChar_val n hlt]
      have hb : (UInt8.ofNat (48 + n)).toNat = 48 + n := by
        simp; omega
      refine ⟨by simp, ?_, ?_⟩
      · simp only [List.all_cons, List.all_nil, Bool.and_true, isDigit, Bool.and_eq_true, decide_eq_true_eq]
        rw [UInt8.le_iff_toNat_le, UInt8.le_iff_toNat_le, hb]
        exact ⟨by simp, by simp; omega⟩
      · simp only [natOfDigits, List.foldl_cons, List.foldl_nil, hb]; omega
    · have hq : 0 < n / 10 := by omega
      have hr : n % 10 < 10 := Nat.mod_lt _ (by decide)
      have hn : 10 * (n / 10) + n % 10 = n := Nat.div_add_mod n 10
      obtain ⟨i1, i2, i3⟩ := ih (n / 10) (by omega)
      obtain ⟨j1, j2, j3⟩ := ih (n % 10) (by omega)
      have hsplit : natToDec n = natToDec (n / 10) ++ natToDec (n % 10) := by
        unfold natToDec
        rw [← List.map_append, Nat.toDigits_append_toDigits (by decide) hq hr, hn]
      have hlast : natToDec (n % 10) = [UInt8.ofNat (48 + n % 10)] := by
        unfold natToDec
        rw [Nat.toDigits_of_lt_base hr]
        simp only [List.map_cons, List.map_nil]
        rw [digitChar_val _ hr]
      have hb : (UInt8.ofNat (48 + n % 10)).toNat = 48 + n % 10 := by
        simp; omega
      refine ⟨by rw [hsplit]; simp [i1], by rw [hsplit, List.all_append, i2, j2]; rfl, ?_⟩
      rw [hsplit, hlast, natOfDigits_snoc, i3, hb]
      omega

/-- `strconv.ParseUint(fmt.Sprint(n), 10, 64) = n` -/
theorem parseUint64_natToDec (n : Nat) (h : n < two64) : parseUint64 (natToDec n) = some n := by
  obtain ⟨h1, h2, h3⟩ := natToDec_spec n
  have := parseUint64_digits (natToDec n) h1 h2 (by rw [h3]; exact h)
  rw [h3] at this; exact this

/-- **a rendered file token parses back**: `parseFileStreamSegment` reads the token
`fmt.Sprintf("%d:%d:%s", pos, len, EscapeName(name))` as exactly (pos, len, name) -/
theorem pkgFileTok_rendered (a l : Nat) (fn : Bytes) (ha : a < two64) (hl : l < two64) :
    pkgFileTok (fileTokText (a : Int) (l : Int) (pkgEscape fn)) = some ⟨a, l, fn⟩ := by
  obtain ⟨a1, a2, _⟩ := natToDec_spec a
  obtain ⟨l1, l2, _⟩ := natToDec_spec l
  unfold pkgFileTok fileTokText
  simp only [if_false, Int.toNat_natCast,
    show ¬ ((a : Int) < 0) from by omega, show ¬ ((l : Int) < 0) from by omega]
  rw [List.append_assoc, List.cons_append, splitN3_three bColon (natToDec a) (natToDec l) (pkgEscape fn)
    (not_mem_of_all a2 colon_not_digit) (not_mem_of_all l2 colon_not_digit)]
  simp only []
  rw [parseUint64_natToDec a ha, parseUint64_natToDec l hl]
  simp only []
  have hesc : pkgUnescape (pkgEscape fn) = fn :=
    goUnescape_escapeWith isDigit _ isOctDigit_isDigit (by decide) fn
  rw [hesc]

/-- every span token of a file (`normFileToks`) is read back as (span, file name) -/
theorem normFileToks_parse (tbl : List (Bytes × Nat)) (fn : Bytes) (segs : List Seg)
    (hb : ∀ p ∈ normSpansS tbl segs none, p.1 < two64 ∧ p.2 < two64) :
    (normFileToks tbl fn segs).map pkgFileTok =
      ((normSpansS tbl segs none).map fun p => some (⟨p.1, p.2, fn⟩ : FTok)) ++
        (if segs.isEmpty then [some ⟨0, 0, fn⟩] else []) := by
  unfold normFileToks
  rw [List.map_append, List.map_map]
  congr 1
  · apply List.map_congr_left
    intro p hp
    simp only [Function.comp, spanTok]
    exact pkgFileTok_rendered p.1 p.2 fn (hb p hp).1 (hb p hp).2
  · split
    · simp only [List.map_cons, List.map_nil]
      have := pkgFileTok_rendered 0 0 fn (by decide) (by decide)
      simpa using this
    · rfl

end ArvVerif.C10
