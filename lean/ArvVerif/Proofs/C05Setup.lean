/-
C05 helper lemmas, part 5: cleanupMounts and setupLookupTables.
-/
import ArvVerif.Model.C05
namespace ArvVerif.C05

@[simp] theorem fixRepl_id (m : RawMount) : (fixRepl m).id = m.id := by unfold fixRepl; split <;> rfl
@[simp] theorem fixRepl_dev (m : RawMount) : (fixRepl m).dev = m.dev := by unfold fixRepl; split <;> rfl
@[simp] theorem fixRepl_ro (m : RawMount) : (fixRepl m).ro = m.ro := by unfold fixRepl; split <;> rfl
@[simp] theorem fixRepl_classes (m : RawMount) : (fixRepl m).classes = m.classes := by unfold fixRepl; split <;> rfl

theorem fixRepl_repl_pos (m : RawMount) : 1 ≤ (fixRepl m).repl := by
  unfold fixRepl; split
  · exact Int.le_refl 1
  · omega

theorem fixRepl_repl_of_pos (m : RawMount) (h : 0 < m.repl) : (fixRepl m).repl = m.repl := by
  unfold fixRepl; split
  · omega
  · rfl

/-- the mount filter of cleanupMounts -/
def keepMount (svcs : List RawService) (m : RawMount) : Bool := !(m.ro && (rwDevs svcs).contains m.dev)

theorem mem_cleanup {svcs : List RawService} {s : RawService} (h : s ∈ cleanupMounts svcs) :
    ∃ s0 ∈ svcs, s.id = s0.id ∧ s.ro = s0.ro ∧ s.mounts = (s0.mounts.filter (keepMount svcs)).map fixRepl := by
  unfold cleanupMounts at h
  obtain ⟨s0, hs0, rfl⟩ := List.mem_map.1 h
  exact ⟨s0, hs0, rfl, rfl, rfl⟩

theorem mem_cleanup_mount {svcs : List RawService} {s : RawService} {m : RawMount}
    (h : s ∈ cleanupMounts svcs) (hm : m ∈ s.mounts) :
    ∃ s0 ∈ svcs, ∃ m0 ∈ s0.mounts, s.id = s0.id ∧ s.ro = s0.ro ∧ m = fixRepl m0 ∧ keepMount svcs m0 = true := by
  obtain ⟨s0, hs0, e1, e2, e3⟩ := mem_cleanup h
  rw [e3] at hm
  obtain ⟨m0, hm0, rfl⟩ := List.mem_map.1 hm
  have := List.mem_filter.1 hm0
  exact ⟨s0, hs0, m0, this.1, e1, e2, rfl, this.2⟩

theorem mem_rwDevs {svcs : List RawService} {s0 : RawService} {m0 : RawMount} (hs : s0 ∈ svcs) (hm : m0 ∈ s0.mounts)
    (hro : m0.ro = false) (hdev : m0.dev ≠ 0) : (rwDevs svcs).contains m0.dev = true := by
  rw [List.contains_iff_mem]
  unfold rwDevs
  refine List.mem_map.2 ⟨m0, List.mem_filter.2 ⟨?_, ?_⟩, rfl⟩
  · unfold allRawMounts; exact List.mem_flatMap.2 ⟨s0, hs, hm⟩
  · simp [hro, hdev]

/-- After cleanupMounts no read-only mount shares a non-blank device with a writable mount. -/
theorem cleanup_no_ro_duplicate (svcs : List RawService) :
    ∀ s ∈ cleanupMounts svcs, ∀ m ∈ s.mounts, m.ro = true → m.dev ≠ 0 →
      ∀ s' ∈ cleanupMounts svcs, ∀ m' ∈ s'.mounts, m'.dev = m.dev → m'.ro = true := by
  intro s hs m hm hro hdev s' hs' m' hm' hd
  obtain ⟨s0, _, m0, _, _, _, rfl, hk⟩ := mem_cleanup_mount hs hm
  obtain ⟨s0', hs0', m0', hm0', _, _, rfl, _⟩ := mem_cleanup_mount hs' hm'
  simp only [fixRepl_ro, fixRepl_dev] at hro hdev hd ⊢
  cases hro' : m0'.ro with
  | true => rfl
  | false =>
    have hc := mem_rwDevs hs0' hm0' hro' (by rw [hd]; exact hdev)
    unfold keepMount at hk
    rw [hro, ← hd, hc] at hk
    cases hk

/-- cleanupMounts drops nothing else: a mount that is writable, or whose device is not mounted
read-write anywhere, is kept (with replication forced to ≥ 1) -/
theorem cleanup_keeps (svcs : List RawService) (s0 : RawService) (hs0 : s0 ∈ svcs) (m0 : RawMount)
    (hm0 : m0 ∈ s0.mounts) (h : m0.ro = false ∨ (rwDevs svcs).contains m0.dev = false) :
    ∃ s ∈ cleanupMounts svcs, s.id = s0.id ∧ s.ro = s0.ro ∧ fixRepl m0 ∈ s.mounts := by
  refine ⟨_, List.mem_map.2 ⟨s0, hs0, rfl⟩, rfl, rfl, ?_⟩
  refine List.mem_map.2 ⟨m0, List.mem_filter.2 ⟨hm0, ?_⟩, rfl⟩
  rcases h with h | h <;> rw [h] <;> simp

theorem cleanup_repl_pos (svcs : List RawService) : ∀ s ∈ cleanupMounts svcs, ∀ m ∈ s.mounts, 1 ≤ m.repl := by
  intro s hs m hm
  obtain ⟨_, _, m0, _, _, _, rfl, _⟩ := mem_cleanup_mount hs hm
  exact fixRepl_repl_pos m0

/-! ### setupLookupTables -/

theorem mem_effMounts {dflt : Class} {svcs : List RawService} {m : Mount} :
    m ∈ effMounts dflt svcs ↔ ∃ s ∈ svcs, ∃ rm ∈ s.mounts, m = effMount dflt s rm := by
  unfold effMounts
  simp only [List.mem_flatMap, List.mem_map]
  constructor
  · rintro ⟨s, hs, rm, hrm, rfl⟩; exact ⟨s, hs, rm, hrm, rfl⟩
  · rintro ⟨s, hs, rm, hrm, rfl⟩; exact ⟨s, hs, rm, hrm, rfl⟩

theorem mem_insertSorted {α : Type} (le : α → α → Bool) (a x : α) (l : List α) :
    x ∈ insertSorted le a l ↔ x = a ∨ x ∈ l := by
  induction l with
  | nil => simp [insertSorted]
  | cons b l ih =>
    unfold insertSorted
    split
    · simp
    · simp only [List.mem_cons, ih]
      constructor
      · rintro (h | h | h)
        · exact Or.inr (Or.inl h)
        · exact Or.inl h
        · exact Or.inr (Or.inr h)
      · rintro (h | h | h)
        · exact Or.inr (Or.inl h)
        · exact Or.inl h
        · exact Or.inr (Or.inr h)

theorem mem_isort {α : Type} (le : α → α → Bool) (x : α) (l : List α) : x ∈ isort le l ↔ x ∈ l := by
  induction l with
  | nil => simp [isort]
  | cons a l ih => unfold isort; rw [mem_insertSorted, ih]; simp

theorem insertSorted_perm {α : Type} (le : α → α → Bool) (a : α) (l : List α) : (insertSorted le a l).Perm (a :: l) := by
  induction l with
  | nil => exact List.Perm.refl _
  | cons b l ih =>
    unfold insertSorted
    split
    · exact List.Perm.refl _
    · exact ((List.Perm.cons b ih).trans (List.Perm.swap a b l))

theorem isort_perm {α : Type} (le : α → α → Bool) (l : List α) : (isort le l).Perm l := by
  induction l with
  | nil => exact List.Perm.refl _
  | cons a l ih =>
    unfold isort
    exact (insertSorted_perm le a _).trans (List.Perm.cons a ih)

theorem insertSorted_sorted_nat (a : Nat) (l : List Nat) (h : l.Pairwise (· ≤ ·)) :
    (insertSorted (fun a b => decide (a ≤ b)) a l).Pairwise (· ≤ ·) := by
  induction l with
  | nil => simp [insertSorted]
  | cons b l ih =>
    have h' := List.pairwise_cons.1 h
    unfold insertSorted
    by_cases hab : a ≤ b
    · simp only [hab, decide_true, if_true]
      refine List.pairwise_cons.2 ⟨?_, h⟩
      intro x hx
      rcases List.mem_cons.1 hx with rfl | hx'
      · exact hab
      · exact Nat.le_trans hab (h'.1 x hx')
    · simp only [hab, decide_false, Bool.false_eq_true, if_false]
      refine List.pairwise_cons.2 ⟨?_, ih h'.2⟩
      intro x hx
      rcases (mem_insertSorted _ a x l).1 hx with rfl | hx'
      · omega
      · exact h'.1 x hx'

theorem isort_sorted_nat (l : List Nat) : (isort (fun a b => decide (a ≤ b)) l).Pairwise (· ≤ ·) := by
  induction l with
  | nil => simp [isort]
  | cons a l ih => unfold isort; exact insertSorted_sorted_nat a _ ih

theorem mem_dedupNat (x : Nat) (l : List Nat) : x ∈ dedupNat l ↔ x ∈ l := by
  induction l with
  | nil => simp [dedupNat]
  | cons a l ih =>
    unfold dedupNat
    split
    · rename_i hc
      rw [ih]
      constructor
      · exact fun h => List.mem_cons_of_mem _ h
      · intro h
        rcases List.mem_cons.1 h with rfl | h'
        · exact List.contains_iff_mem.1 hc
        · exact h'
    · simp [ih]

theorem dedupNat_nodup (l : List Nat) : (dedupNat l).Nodup := by
  induction l with
  | nil => simp [dedupNat]
  | cons a l ih =>
    unfold dedupNat
    split
    · exact ih
    · rename_i hc
      refine List.nodup_cons.2 ⟨?_, ih⟩
      rw [mem_dedupNat]
      intro h
      exact hc (List.contains_iff_mem.2 h)

/-- `bal.classes`: "default" and every class key some mount lists; sorted; no duplicates. -/
theorem classesOf_spec (dflt : Class) (svcs : List RawService) :
    (∀ c, c ∈ classesOf dflt svcs ↔ c = dflt ∨ ∃ m ∈ allRawMounts svcs, c ∈ m.classes) ∧
    (classesOf dflt svcs).Pairwise (· ≤ ·) ∧ (classesOf dflt svcs).Nodup := by
  refine ⟨?_, isort_sorted_nat _, ?_⟩
  · intro c
    unfold classesOf
    rw [mem_isort, mem_dedupNat]
    simp only [List.mem_cons, List.mem_flatMap]
  · unfold classesOf
    exact (isort_perm _ _).nodup_iff.2 (dedupNat_nodup _)

end ArvVerif.C05
