/-
C12: Go compares rendezvous weights as 32-character lowercase hex strings (`rs.weight[j] < rs.weight[i]`),
the model compares the numbers they denote. For digit strings of equal length the two orders coincide;
this file proves it for an arbitrary base, so the model's `Nat` weights are a faithful reading of the
string comparison in root_sorter.go.
-/
namespace ArvVerif.C12

/-- value of a big-endian digit list in base `b` -/
def digitsVal (b : Nat) : List Nat → Nat
  | [] => 0
  | d :: ds => d * b ^ ds.length + digitsVal b ds

/-- lexicographic "less than" on digit lists (what Go's string `<` does on equal-length strings) -/
def lexLt : List Nat → List Nat → Bool
  | [], [] => false
  | [], _ :: _ => true
  | _ :: _, [] => false
  | x :: xs, y :: ys => x < y || (x == y && lexLt xs ys)

theorem digitsVal_lt_pow (b : Nat) (ds : List Nat) (h : ∀ d ∈ ds, d < b) :
    digitsVal b ds < b ^ ds.length := by
  induction ds with
  | nil => simp [digitsVal]
  | cons d ds ih =>
    have hd : d < b := h d List.mem_cons_self
    have ih' := ih (fun x hx => h x (List.mem_cons_of_mem _ hx))
    simp only [digitsVal, List.length_cons]
    have h1 : d * b ^ ds.length + b ^ ds.length ≤ b * b ^ ds.length := by
      have : (d + 1) * b ^ ds.length ≤ b * b ^ ds.length := Nat.mul_le_mul_right _ hd
      simpa [Nat.add_mul] using this
    have h2 : b ^ (ds.length + 1) = b * b ^ ds.length := by
      rw [Nat.pow_succ, Nat.mul_comm]
    omega

/-- For equal-length digit lists with digits below the base, lexicographic order is numeric order. -/
theorem lexLt_iff_val_lt (b : Nat) (xs ys : List Nat) (hlen : xs.length = ys.length)
    (hx : ∀ d ∈ xs, d < b) (hy : ∀ d ∈ ys, d < b) :
    lexLt xs ys = true ↔ digitsVal b xs < digitsVal b ys := by
  induction xs generalizing ys with
  | nil =>
    cases ys with
    | nil => simp [lexLt, digitsVal]
    | cons y ys => simp at hlen
  | cons x xs ih =>
    cases ys with
    | nil => simp at hlen
    | cons y ys =>
      have hl : xs.length = ys.length := by simpa using hlen
      have hxs := digitsVal_lt_pow b xs (fun d hd => hx d (List.mem_cons_of_mem _ hd))
      have hys := digitsVal_lt_pow b ys (fun d hd => hy d (List.mem_cons_of_mem _ hd))
      have ih' := ih ys hl (fun d hd => hx d (List.mem_cons_of_mem _ hd))
        (fun d hd => hy d (List.mem_cons_of_mem _ hd))
      simp only [lexLt, digitsVal, Bool.or_eq_true, decide_eq_true_eq, Bool.and_eq_true, beq_iff_eq]
      rw [hl] at hxs ⊢
      generalize b ^ ys.length = B at hxs hys ⊢
      constructor
      · rintro (hlt | ⟨heq, hrest⟩)
        · have : (x + 1) * B ≤ y * B := Nat.mul_le_mul_right _ hlt
          have : x * B + B ≤ y * B := by simpa [Nat.add_mul] using this
          omega
        · subst heq
          have := ih'.mp hrest
          omega
      · intro hv
        rcases Nat.lt_trichotomy x y with hlt | heq | hgt
        · exact Or.inl hlt
        · subst heq
          right
          exact ⟨rfl, ih'.mpr (by omega)⟩
        · exfalso
          have : (y + 1) * B ≤ x * B := Nat.mul_le_mul_right _ hgt
          have : y * B + B ≤ x * B := by simpa [Nat.add_mul] using this
          omega

end ArvVerif.C12
