/-
C07 helper lemmas, part 5: single-character changes inside the signature hint.
-/
import ArvVerif.Proofs.C07_Verify
namespace ArvVerif.C07
variable (mac : Str → Str → List UInt8)

theorem not_size_not_hint_of_A (r : Str) :
    isSizeField ('A' :: r) = false ∧ isOtherHint ('A' :: r) = false := by
  have h1 : isDigit 'A' = false := by decide
  have h2 : isHintStart 'A' = false := by decide
  simp [isSizeField, isOtherHint, h1, h2]

theorem set_eq_take_cons_drop {α} (l : List α) (i : Nat) (c : α) (h : i < l.length) :
    l.set i c = l.take i ++ c :: l.drop (i + 1) := by
  induction l generalizing i with
  | nil => simp at h
  | cons a l ih =>
    cases i with
    | zero => simp
    | succ i => simp [ih i (by simpa using h)]

theorem all_set {p : Char → Bool} {l : Str} {i : Nat} {c : Char} (hl : l.all p = true)
    (hc : p c = true) : (l.set i c).all p = true := by
  rw [List.all_eq_true] at hl ⊢
  intro x hx
  rcases List.mem_or_eq_of_mem_set hx with hx | rfl
  · exact hl x hx
  · exact hc

theorem not_all_set {p : Char → Bool} {l : Str} {i : Nat} {c : Char} (hi : i < l.length)
    (hc : p c = false) : (l.set i c).all p = false := by
  cases h : (l.set i c).all p with
  | false => rfl
  | true =>
    rw [List.all_eq_true] at h
    have := h c (List.mem_set hi c)
    rw [hc] at this
    exact absurd this (by simp)

theorem set_ne_self {l : Str} {i : Nat} {c : Char} (hi : i < l.length) (hc : c ≠ l[i]) :
    l.set i c ≠ l := by
  intro e
  have : (l.set i c)[i]'(by simpa using hi) = c := by simp
  simp [e] at this
  exact hc this.symm

/-- The witnesses of a parse, as one hypothesis bundle. -/
structure Parts (hash sig e : Str) (size hs1 hs2 : List Str) : Prop where
  hl : hash.length = 32
  hx : hash.all isXDigit = true
  hsize : size = [] ∨ ∃ d, size = [d] ∧ isSizeField d = true
  hh1 : ∀ f ∈ hs1, isOtherHint f = true
  sl : sig.length = 40
  sx : sig.all isXDigit = true
  el : e.length = 8
  ex : e.all isXDigit = true
  hh2 : ∀ f ∈ hs2, isOtherHint f = true

/-- the locator assembled from its parts -/
def assemble (hash sig e : Str) (size hs1 hs2 : List Str) : Str :=
  hash ++ hints (size ++ hs1 ++ sigField sig e :: hs2)

theorem Parts.isSigned {hash sig e : Str} {size hs1 hs2 : List Str} (p : Parts hash sig e size hs1 hs2) :
    IsSignedLocator (assemble hash sig e size hs1 hs2) hash sig e :=
  ⟨size, hs1, hs2, rfl, p.hl, p.hx, p.hsize, p.hh1, p.sl, p.sx, p.el, p.ex, p.hh2⟩

theorem free_xdigits {s : Str} (h : s.all isXDigit = true) : Free '+' s :=
  free_of_all (fun _ => ne_plus_of_isXDigit) h

theorem all_take {p : Char → Bool} {l : Str} (n : Nat) (h : l.all p = true) : (l.take n).all p = true := by
  rw [List.all_eq_true] at h ⊢
  exact fun x hx => h x (List.mem_of_mem_take hx)

theorem all_drop {p : Char → Bool} {l : Str} (n : Nat) (h : l.all p = true) : (l.drop n).all p = true := by
  rw [List.all_eq_true] at h ⊢
  exact fun x hx => h x (List.mem_of_mem_drop hx)

/-- a `+` written into the signature hint at offset `k` of the field text `body` (after the `A`)
cuts the field in two; the first part is too short to be a signature field -/
theorem matchSigned_cut {hash sig e : Str} {size hs1 hs2 : List Str}
    (p : Parts hash sig e size hs1 hs2) (a b : Str) (ha : Free '+' a) (hb : Free '+' b)
    (hlen : a.length ≠ 49) :
    matchSigned (hash ++ hints (size ++ hs1 ++ ('A' :: a) :: b :: hs2)) = none := by
  have hf : Free '+' ('A' :: a) := by
    intro c hc
    rcases List.mem_cons.mp hc with rfl | hc
    · decide
    · exact ha c hc
  obtain ⟨n1, n2⟩ := not_size_not_hint_of_A a
  rw [matchSigned_at_field p.hl p.hx p.hsize p.hh1 hf n1 n2]
  · have : parseSigField ('A' :: a) = none := by simp [parseSigField, hlen]
    rw [this]
  · intro g hg
    rcases List.mem_cons.mp hg with rfl | hg
    · exact hb
    · exact free_of_isOtherHint (p.hh2 g hg)

/-- replacing the signature hint by another `+`-free field starting with `A` -/
theorem matchSigned_replaced {hash sig e : Str} {size hs1 hs2 : List Str}
    (p : Parts hash sig e size hs1 hs2) (r : Str) (hr : Free '+' r) :
    matchSigned (hash ++ hints (size ++ hs1 ++ ('A' :: r) :: hs2)) =
      match parseSigField ('A' :: r) with
      | none => none
      | some (sig', e') => some (hash, sig', e') := by
  have hf : Free '+' ('A' :: r) := by
    intro c hc
    rcases List.mem_cons.mp hc with rfl | hc
    · decide
    · exact hr c hc
  obtain ⟨n1, n2⟩ := not_size_not_hint_of_A r
  rw [matchSigned_at_field p.hl p.hx p.hsize p.hh1 hf n1 n2
    (fun g hg => free_of_isOtherHint (p.hh2 g hg))]
  have : hs2.all isOtherHint = true := List.all_eq_true.mpr p.hh2
  cases parseSigField ('A' :: r) with
  | none => rfl
  | some q => obtain ⟨x, y⟩ := q; simp [this]

theorem parseSigField_bad_sig {sig' e : Str} (hl : sig'.length = 40) (hx : sig'.all isXDigit = false) :
    parseSigField (sigField sig' e) = none := by
  have e1 : (sig' ++ '@' :: e).take 40 = sig' := List.take_left' hl
  simp [parseSigField, sigField, e1, hx]

theorem parseSigField_bad_exp {sig e' : Str} (hl : sig.length = 40) (hx : e'.all isXDigit = false) :
    parseSigField (sigField sig e') = none := by
  have e3 : (sig ++ '@' :: e').drop 41 = e' := by
    have : sig ++ '@' :: e' = (sig ++ ['@']) ++ e' := by simp
    rw [this]; exact List.drop_left' (by simp [hl])
  simp [parseSigField, sigField, e3, hx]

/-- One character of the signature replaced by a different character. -/
theorem verify_sig_char {hash sig e tok key : Str} {size hs1 hs2 : List Str} {ttlNs nowNs : Int}
    (p : Parts hash sig e size hs1 hs2)
    (hok : verifySignature mac (assemble hash sig e size hs1 hs2) tok ttlNs key nowNs = .ok)
    (i : Nat) (c : Char) (hi : i < 40) (hc : c ≠ sig[i]'(by rw [p.sl]; exact hi)) :
    verifySignature mac (assemble hash (sig.set i c) e size hs1 hs2) tok ttlNs key nowNs =
      if isXDigit c then .invalid else .missing := by
  have hil : i < sig.length := by rw [p.sl]; exact hi
  obtain ⟨t, _, ht, hv⟩ := verify_of_isSignedLocator mac p.isSigned tok ttlNs key nowNs
  rw [hok] at hv
  have hne : ¬ ((t : Int) * 1000000000 < nowNs) := by
    intro h; simp [verdictOf, h] at hv
  have hsig : sig = makePermSignature mac hash tok e (ttlHex ttlNs) key := by
    simp only [verdictOf, hne, if_false] at hv
    split at hv
    · simp at hv
    · rename_i h; simpa using h
  by_cases hplus : c = '+'
  · subst hplus
    have hx : isXDigit '+' = false := by decide
    simp only [hx, Bool.false_eq_true, if_false]
    apply verify_of_no_match
    have hstr : assemble hash (sig.set i '+') e size hs1 hs2 =
        hash ++ hints (size ++ hs1 ++ ('A' :: sig.take i) :: (sig.drop (i + 1) ++ '@' :: e) :: hs2) := by
      simp [assemble, sigField, set_eq_take_cons_drop sig i '+' hil, hints_append, List.append_assoc]
    rw [hstr]
    apply matchSigned_cut p _ _ (free_xdigits (all_take _ p.sx))
    · intro x hx
      rcases List.mem_append.mp hx with hx | hx
      · exact ne_plus_of_isXDigit (List.all_eq_true.mp (all_drop _ p.sx) x hx)
      · rcases List.mem_cons.mp hx with rfl | hx
        · decide
        · exact ne_plus_of_isXDigit (List.all_eq_true.mp p.ex x hx)
    · simp; omega
  · have hfree : Free '+' (sig.set i c ++ '@' :: e) := by
      intro x hx
      rcases List.mem_append.mp hx with hx | hx
      · rcases List.mem_or_eq_of_mem_set hx with hx | rfl
        · exact ne_plus_of_isXDigit (List.all_eq_true.mp p.sx x hx)
        · exact hplus
      · rcases List.mem_cons.mp hx with rfl | hx
        · decide
        · exact ne_plus_of_isXDigit (List.all_eq_true.mp p.ex x hx)
    have hm := matchSigned_replaced p (sig.set i c ++ '@' :: e) hfree
    have hsl : (sig.set i c).length = 40 := by simp [p.sl]
    cases hxc : isXDigit c with
    | false =>
      simp only [Bool.false_eq_true, if_false]
      apply verify_of_no_match
      have := parseSigField_bad_sig (e := e) hsl (not_all_set hil hxc)
      simp only [sigField] at this
      rw [this] at hm
      exact hm
    | true =>
      simp only [if_true]
      have := parseSigField_sigField hsl (all_set p.sx hxc) p.el p.ex
      simp only [sigField] at this
      rw [this] at hm
      obtain ⟨t', _, ht', hv'⟩ := verify_of_matchSigned mac hm tok ttlNs key nowNs
      have : t' = t := by rw [ht] at ht'; exact (Option.some.inj ht').symm
      subst this
      show verifySignature mac (hash ++ hints (size ++ hs1 ++ ('A' :: (sig.set i c ++ '@' :: e)) :: hs2))
        tok ttlNs key nowNs = .invalid
      rw [hv', verdictOf, if_neg hne, if_pos]
      rw [← hsig]
      exact set_ne_self hil hc

/-- One character of the expiry replaced by a different character. The new expiry changes the
MAC input; that the MAC of the new input differs from the old signature is the hypothesis `hmacne`
(no theorem can exclude MAC collisions). -/
theorem verify_exp_char {hash sig e tok key : Str} {size hs1 hs2 : List Str} {ttlNs nowNs : Int}
    (p : Parts hash sig e size hs1 hs2) (i : Nat) (c : Char) (hi : i < 8)
    (hmacne : makePermSignature mac hash tok (e.set i c) (ttlHex ttlNs) key ≠ sig) :
    verifySignature mac (assemble hash sig (e.set i c) size hs1 hs2) tok ttlNs key nowNs ≠ .ok := by
  have hil : i < e.length := by rw [p.el]; exact hi
  by_cases hplus : c = '+'
  · subst hplus
    have hstr : assemble hash sig (e.set i '+') size hs1 hs2 =
        hash ++ hints (size ++ hs1 ++ ('A' :: (sig ++ '@' :: e.take i)) :: (e.drop (i + 1)) :: hs2) := by
      simp [assemble, sigField, set_eq_take_cons_drop e i '+' hil, hints_append, List.append_assoc]
    rw [hstr, verify_of_no_match]
    · simp
    · apply matchSigned_cut p _ _ _ (free_xdigits (all_drop _ p.ex))
      · simp [p.sl]; omega
      · intro x hx
        rcases List.mem_append.mp hx with hx | hx
        · exact ne_plus_of_isXDigit (List.all_eq_true.mp p.sx x hx)
        · rcases List.mem_cons.mp hx with rfl | hx
          · decide
          · exact ne_plus_of_isXDigit (List.all_eq_true.mp (all_take _ p.ex) x hx)
  · have hfree : Free '+' (sig ++ '@' :: e.set i c) := by
      intro x hx
      rcases List.mem_append.mp hx with hx | hx
      · exact ne_plus_of_isXDigit (List.all_eq_true.mp p.sx x hx)
      · rcases List.mem_cons.mp hx with rfl | hx
        · decide
        · rcases List.mem_or_eq_of_mem_set hx with hx | rfl
          · exact ne_plus_of_isXDigit (List.all_eq_true.mp p.ex x hx)
          · exact hplus
    have hm := matchSigned_replaced p (sig ++ '@' :: e.set i c) hfree
    have hel : (e.set i c).length = 8 := by simp [p.el]
    cases hxc : isXDigit c with
    | false =>
      have := parseSigField_bad_exp (sig := sig) p.sl (not_all_set hil hxc)
      simp only [sigField] at this
      rw [this] at hm
      rw [show assemble hash sig (e.set i c) size hs1 hs2 =
        hash ++ hints (size ++ hs1 ++ ('A' :: (sig ++ '@' :: e.set i c)) :: hs2) from rfl,
        verify_of_no_match mac hm]
      simp
    | true =>
      have := parseSigField_sigField p.sl p.sx hel (all_set p.ex hxc)
      simp only [sigField] at this
      rw [this] at hm
      obtain ⟨t', _, _, hv'⟩ := verify_of_matchSigned mac hm tok ttlNs key nowNs
      rw [show assemble hash sig (e.set i c) size hs1 hs2 =
        hash ++ hints (size ++ hs1 ++ ('A' :: (sig ++ '@' :: e.set i c)) :: hs2) from rfl, hv']
      unfold verdictOf
      split
      · simp
      · rw [if_pos (Ne.symm hmacne)]; simp

end ArvVerif.C07
