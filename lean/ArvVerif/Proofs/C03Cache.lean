/-
C03: soundness of what the fetch goroutine stores (BlockCache.Get), and storedSegment / File.Read lemmas.
-/
import ArvVerif.Proofs.C03
namespace ArvVerif.C03

section
variable {D : Type} [DecidableEq D] (hash : Bytes → D)

/-- A datum is sound for a locator when it is the first `n` bytes of some content whose hash is
the locator's digest, with `n` the locator's size hint when it has one. -/
def SoundData (digest : List Char → D) (loc : List Char) (d : Bytes) : Prop :=
  ∃ content : Bytes, hash content = digest (loc.take 32) ∧
    ∃ n, n ≤ content.length ∧ d = content.take n ∧ ∀ h, hint64 loc = some h → n = h

theorem fetchBody_ok (check : D) (bufsize : Nat) (body : Body) (expect : Nat) (e : Entry)
    (h : fetchBody hash check bufsize body expect = e) (herr : e.err = none) :
    body.fin = .eof ∧ hash body.content = check ∧ e.data = body.content.take expect ∧
    expect ≤ body.content.length ∧ expect ≤ bufsize := by
  unfold fetchBody at h
  split at h
  · subst h; simp at herr
  · rename_i hb
    subst h
    simp only at herr
    have hok := readFullClose_ok hash check body expect (readFullClose hash check body expect).1
      (by rw [← herr])
    obtain ⟨h1, _, h3, h4, h5⟩ := hok
    refine ⟨h1, h3, ?_, h5, by omega⟩
    simp only
    rw [h4]
    have : (List.take expect body.content).length = expect := by simp; omega
    simp [this, zeros]

theorem endErr_ne_panic (check : D) (fin : Fin) (acc : Bytes) : endErr hash check fin acc ≠ .panic := by
  unfold endErr
  cases fin with
  | ueof => simp
  | eof => simp only; split <;> simp

/-- ReadFull + Close never report the `panic` class. -/
theorem readFullClose_ne_panic (check : D) (b : Body) (need : Nat) :
    (readFullClose hash check b need).2 ≠ some .panic := by
  unfold readFullClose
  have spec := readLoop_spec hash check b.fin b.together b.chunks need []
  generalize readLoop hash check b.fin b.together b.chunks need [] = r at spec
  obtain ⟨_, _, _, s4⟩ := spec
  simp only
  cases hf : fullErr r.1.length need r.2.1 with
  | some e =>
    simp only
    intro he
    simp only [Option.some.injEq] at he
    subst he
    unfold fullErr at hf
    split at hf
    · simp at hf
    · cases hr : r.2.1 with
      | none => rw [hr] at hf; simp at hf
      | some e0 =>
        have h0 := (s4 e0 hr).2.2
        rw [hr] at hf
        have hne : e0 ≠ .panic := by rw [h0]; exact endErr_ne_panic hash check _ _
        cases e0 <;> simp at hf hne
        · split at hf <;> simp at hf
  | none =>
    simp only
    unfold closeR
    cases b.fin with
    | ueof => simp
    | eof =>
      simp only
      split
      · simp
      · split <;> simp

theorem fetchBody_ne_panic (check : D) (bufsize : Nat) (body : Body) (expect : Nat) :
    (fetchBody hash check bufsize body expect).err ≠ some .panic := by
  unfold fetchBody
  split
  · simp
  · exact readFullClose_ne_panic hash check body expect

theorem getOrHead_err_ne_panic (loc : List Char) (tries : Nat) (order : List Nat) (g : G) (e : Err) (g' : G)
    (h : getOrHead loc tries order g = (.err e, g')) : e ≠ .panic := by
  unfold getOrHead at h
  split at h
  · simp at h
  · dsimp only at h
    split at h
    · simp at h
    · simp at h; rw [← h.1]; simp
    · simp only [Prod.mk.injEq, GetRes.err.injEq] at h
      rw [← h.1]
      split
      · simp
      · split <;> simp

/-- No locator, size hint, Content-Length, body or script makes the cache fetch end in `panic`. -/
theorem fetch_ne_panic (digest : List Char → D) (loc : List Char) (tries : Nat) (order : List Nat) (g : G) :
    (fetch hash digest loc tries order g).1.err ≠ some .panic := by
  unfold fetch
  split
  · simp
  · rename_i e g1 hg
    simp only
    intro he
    simp only [Option.some.injEq] at he
    exact getOrHead_err_ne_panic loc tries order g e g1 hg he
  · exact fetchBody_ne_panic hash _ _ _ _

theorem emptyLocator_length : emptyLocator.length = 34 := by decide

theorem take32_of_emptyPrefix (loc : List Char) (h : emptyLocator.isPrefixOf loc = true) :
    loc.take 32 = emptyLocator.take 32 := by
  rw [List.isPrefixOf_iff_prefix] at h
  obtain ⟨t, rfl⟩ := h
  rw [List.take_append_of_le_length]
  rw [emptyLocator_length]; omega

/-- What a fetch that ends without error has stored. -/
theorem fetch_ok (digest : List Char → D) (loc : List Char) (tries : Nat) (order : List Nat) (g : G)
    (e : Entry) (g' : G)
    (h : fetch hash digest loc tries order g = (e, g')) (herr : e.err = none) :
    (emptyLocator.isPrefixOf loc = true ∧ e.data = []) ∨
    (∃ body clen expect, Offered g.scripts (.ok clen body) ∧
        accept200 (hint64 loc) clen = some expect ∧ body.fin = .eof ∧
        hash body.content = digest (loc.take 32) ∧
        e.data = body.content.take expect ∧ expect ≤ body.content.length ∧ expect ≤ bufSize loc) := by
  unfold fetch at h
  split at h
  · rename_i g1 hg
    simp only [Prod.mk.injEq] at h
    left
    refine ⟨?_, by rw [← h.1]⟩
    unfold getOrHead at hg
    split at hg
    · assumption
    · dsimp only at hg
      split at hg <;> simp at hg
  · simp only [Prod.mk.injEq] at h
    rw [← h.1] at herr
    simp at herr
  · rename_i body expect g1 hg
    simp only [Prod.mk.injEq] at h
    right
    obtain ⟨clen, ho, ha⟩ := getOrHead_rdr loc tries order g body expect g1 hg
    obtain ⟨h1, h2, h3, h4, h5⟩ := fetchBody_ok hash _ _ body expect e h.1 herr
    exact ⟨body, clen, expect, ho, ha, h1, h2, h3, h4, h5⟩

theorem fetch_sound (digest : List Char → D)
    (loc : List Char) (tries : Nat) (order : List Nat) (g : G) (e : Entry) (g' : G)
    (h : fetch hash digest loc tries order g = (e, g')) (herr : e.err = none) :
    (emptyLocator.isPrefixOf loc = true ∧ e.data = []) ∨ SoundData hash digest loc e.data := by
  rcases fetch_ok hash digest loc tries order g e g' h herr with he | ⟨body, clen, expect, _, ha, _, hh, hd, hl, _⟩
  · left; exact he
  · right
    refine ⟨body.content, hh, expect, hl, hd, ?_⟩
    intro hn hhint
    rw [hhint] at ha
    exact (accept200_hint hn clen expect ha).1

/-- Under collision-freeness for the locator's digest and a size hint equal to the real size, a
fetch that ends without error has stored exactly the block. -/
theorem fetch_exact (digest : List Char → D) (hEmpty : hash [] = digest (emptyLocator.take 32))
    (loc : List Char) (b : Bytes)
    (hnc : ∀ x, hash x = digest (loc.take 32) → x = b) (hhint : hint64 loc = some b.length)
    (tries : Nat) (order : List Nat) (g : G) (e : Entry) (g' : G)
    (h : fetch hash digest loc tries order g = (e, g')) (herr : e.err = none) : e.data = b := by
  rcases fetch_sound hash digest loc tries order g e g' h herr with ⟨hp, hd⟩ | ⟨c, hc, n, _, hd, hn⟩
  · have : ([] : Bytes) = b := hnc [] (by rw [take32_of_emptyPrefix loc hp]; exact hEmpty)
    rw [hd, this]
  · have hcb := hnc c hc
    have := hn b.length hhint
    subst hcb
    rw [hd, this]; simp

end

/-! ## storedSegment.ReadAt, filenode.Read -/

/-- storedSegment.ReadAt either answers EOF by itself (offset beyond the segment) or makes exactly
one backend call, for a range inside the segment's part of the block. -/
theorem segReadAt_call (backend : Nat → Nat → Bytes × Option Err) (se : Seg) (plen off : Nat) :
    (se.length < off ∧ segReadAt backend se plen off = ([], some .eof)) ∨
    (off ≤ se.length ∧ ∃ l o, se.offset ≤ o ∧ o + l ≤ se.offset + se.length ∧
        o = se.offset + off ∧ l = min plen (se.length - off) ∧
        (segReadAt backend se plen off).1 = (backend l o).1 ∧
        ((backend l o).2 ≠ none → (segReadAt backend se plen off).2 = (backend l o).2) ∧
        ((backend l o).2 = none →
          (segReadAt backend se plen off).2 = if se.length - off < plen then some .eof else none)) := by
  unfold segReadAt
  by_cases h : se.length < off
  · left; simp [h]
  · right
    refine ⟨by omega, ?_⟩
    simp only [h, if_false]
    by_cases h2 : se.length - off < plen
    · simp only [h2, if_true]
      refine ⟨se.length - off, off + se.offset, by omega, by omega, by omega, by omega, rfl, ?_, ?_⟩
      · intro hne
        cases hb : (backend (se.length - off) (off + se.offset)).2 with
        | none => exact absurd hb hne
        | some e => rfl
      · intro hb; simp [hb]
    · simp only [h2, if_false]
      exact ⟨plen, off + se.offset, by omega, by omega, by omega, by omega, rfl, fun _ => rfl, fun hb => hb⟩

/-- On a verified block that covers the segment, storedSegment.ReadAt returns exactly the bytes
of the segment from `off`, at most `plen` of them, and EOF iff it was cut at the segment's end. -/
theorem segReadAt_verified (blk : Bytes) (se : Seg) (plen off : Nat)
    (hoff : off ≤ se.length) (hin : se.offset + se.length ≤ blk.length) :
    segReadAt (fun l o => readAtEntry { data := blk, err := none } o l) se plen off =
      ((((blk.drop se.offset).take se.length).drop off).take plen,
       if se.length - off < plen then some .eof else none) := by
  have hdata : ∀ l, l ≤ se.length - off →
      (readAtEntry { data := blk, err := none } (off + se.offset) l) =
        ((((blk.drop se.offset).take se.length).drop off).take l, none) := by
    intro l hl
    unfold readAtEntry
    have : ¬ blk.length < off + se.offset := by omega
    simp only [this, if_false, Prod.mk.injEq, and_true]
    rw [List.drop_take, List.drop_drop, List.take_take]
    congr 1
    · omega
    · congr 1; omega
  unfold segReadAt
  have h : ¬ se.length < off := by omega
  simp only [h, if_false]
  by_cases h2 : se.length - off < plen
  · simp only [h2, if_true]
    rw [hdata _ (Nat.le_refl _)]
    simp only [Prod.mk.injEq, and_true]
    have hl : (List.drop off (List.take se.length (List.drop se.offset blk))).length ≤ se.length - off := by
      simp; omega
    generalize List.drop off (List.take se.length (List.drop se.offset blk)) = X at hl ⊢
    rw [List.take_of_length_le hl, List.take_of_length_le (by omega)]
  · simp only [h2, if_false]
    exact hdata plen (by omega)

/-- A failing block read surfaces as a failing File.Read that delivers no bytes. -/
theorem fileRead_backend_error (segs : List Seg) (p : Ptr) (plen : Nat) (err : Err)
    (segRead : Seg → Nat → Nat → Bytes × Option Err)
    (hfail : ∀ s pl off, segRead s pl off = ([], some err))
    (d : Bytes) (e : Option Err) (p' : Ptr)
    (h : fileRead segRead segs p plen = some (d, e, p')) :
    d = [] ∧ e ≠ none := by
  unfold fileRead at h
  split at h
  · simp at h
  · rename_i p1 _
    split at h
    · simp at h
      obtain ⟨rfl, rfl, _⟩ := h
      exact ⟨rfl, by simp⟩
    · rename_i s _
      rw [hfail] at h
      simp at h
      obtain ⟨rfl, rfl, _⟩ := h
      exact ⟨rfl, by simp⟩

theorem segReadAt_backend_error (se : Seg) (plen off : Nat) (err : Err)
    (backend : Nat → Nat → Bytes × Option Err) (hfail : ∀ l o, backend l o = ([], some err)) :
    (segReadAt backend se plen off).1 = [] ∧ (segReadAt backend se plen off).2 ≠ none := by
  unfold segReadAt
  by_cases h : se.length < off
  · simp [h]
  · by_cases h2 : se.length - off < plen <;> simp [h, h2, hfail]

/-- The executable LRU sweep only deletes. -/
theorem sweep_sub (maxBlocks : Nat) (slots : List Slot) : ∀ s ∈ sweep maxBlocks slots, s ∈ slots := by
  intro s hs
  unfold sweep at hs
  dsimp only at hs
  repeat' (first | exact hs | exact (List.mem_filter.mp hs).1 | split at hs)

end ArvVerif.C03
