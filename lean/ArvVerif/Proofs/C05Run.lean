/-
C05 helper lemmas, part 9: the sweep around balanceBlock (Model/C05_Run.lean) — index timestamps,
what GetCurrentState delivers, desired replication as a maximum over the collections as fetched,
independent of the arrival order.
-/
import ArvVerif.Model.C05_Run
import ArvVerif.Proofs.C05BlockState
import ArvVerif.Proofs.C05Witness
namespace ArvVerif.C05

/-! ## index timestamps -/

theorem wrap64_id {v : Int} (h1 : -9223372036854775808 ≤ v) (h2 : v < 9223372036854775808) : wrap64 v = v := by
  unfold wrap64; omega

/-- a nanosecond timestamp (≥ 1e12, i.e. after 1970-01-01 00:16:40) is taken as it is -/
theorem normMtime_ns {v : Int} (h : 1000000000000 ≤ v) : normMtime v = v := by
  unfold normMtime secondsThreshold
  have : ¬ v < 1000000000000 := by omega
  simp [this]

/-- a timestamp in seconds (before the year 2262) is converted exactly -/
theorem normMtime_seconds {v : Int} (h0 : -9223372036 ≤ v) (h1 : v ≤ 9223372036) : normMtime v = v * 1000000000 := by
  unfold normMtime secondsThreshold nsPerSecond
  have : v < 1000000000000 := by omega
  simp only [this, if_true]
  apply wrap64_id <;> omega

/-! ## the replica a slot carries comes from `blk.Replicas` -/

theorem replicaOn_mem {reps : List Replica} {id : Nat} {t : Int} (h : replicaOn reps id = some t) :
    ∃ r ∈ reps, r.mnt = id ∧ r.mtime = t := by
  unfold replicaOn at h
  cases hf : reps.reverse.find? (fun r => r.mnt == id) with
  | none => rw [hf] at h; cases h
  | some r =>
    rw [hf] at h
    have hm := List.mem_of_find?_eq_some hf
    have hp := List.find?_some hf
    exact ⟨r, List.mem_reverse.1 hm, by simpa using hp, by simpa using h⟩

/-! ## what GetCurrentState delivers -/

theorem mem_delivered {idx : Nat → List IdxEntry} {rep : Nat → Nat} {mounts : List Mount} {b : Nat} {r : Replica} :
    r ∈ delivered idx rep mounts b ↔
      ∃ m ∈ mounts, ∃ e ∈ idx (rep m.id), e.blk = b ∧ r = ⟨m.id, m.srv, normMtime e.raw⟩ := by
  unfold delivered
  simp only [List.mem_flatMap, List.mem_filterMap]
  constructor
  · rintro ⟨m, hm, e, he, h⟩
    by_cases hb : e.blk = b
    · simp only [hb, if_true, Option.some.injEq] at h
      exact ⟨m, hm, e, he, hb, h.symm⟩
    · simp [hb] at h
  · rintro ⟨m, hm, e, he, hb, rfl⟩
    exact ⟨m, hm, e, he, by simp [hb]⟩

theorem repOf_collOps (sel : Bool) (defRepl : Nat) (colls : List Coll) (b : Nat) :
    (collOps sel defRepl colls b).filterMap BlockOp.repOf = [] := by
  unfold collOps
  induction colls with
  | nil => rfl
  | cons c cs ih =>
    simp only [List.flatMap_cons, List.filterMap_append, ih, List.append_nil]
    induction (c.blocks.filter (· == b)) with
    | nil => rfl
    | cons _ l _ => simp [collOp, BlockOp.repOf]

theorem rep_mem_blockOps {sel : Bool} {defRepl : Nat} {idx : Nat → List IdxEntry} {rep : Nat → Nat}
    {mounts : List Mount} {colls : List Coll} {b : Nat} {r : Replica}
    (h : BlockOp.rep r ∈ blockOps sel defRepl idx rep mounts colls b) : r ∈ delivered idx rep mounts b := by
  unfold blockOps at h
  rcases List.mem_append.1 h with h | h
  · obtain ⟨r', hr', e⟩ := List.mem_map.1 h
    cases e; exact hr'
  · unfold collOps at h
    simp only [List.mem_flatMap, List.mem_map] at h
    obtain ⟨c, _, _, _, e⟩ := h
    cases e

/-- every replica of a gathered block is backed by an index entry, whatever the arrival order -/
theorem gathered_replica_backed {dflt : Class} {sel : Bool} {defRepl : Nat} {idx : Nat → List IdxEntry}
    {rep : Nat → Nat} {mounts : List Mount} {colls : List Coll} {b : Nat} {ops : List BlockOp}
    (hperm : ops.Perm (blockOps sel defRepl idx rep mounts colls b)) {r : Replica}
    (hr : r ∈ (gather dflt ops).replicas) :
    ∃ m ∈ mounts, ∃ e ∈ idx (rep m.id), e.blk = b ∧ r = ⟨m.id, m.srv, normMtime e.raw⟩ := by
  have hrep : (gather dflt ops).replicas = ops.filterMap BlockOp.repOf := by
    have := foldl_applyOp_replicas dflt ops BlockSt.empty
    simpa [gather, BlockSt.empty] using this
  rw [hrep] at hr
  obtain ⟨op, hop, e⟩ := List.mem_filterMap.1 hr
  cases op with
  | coll _ _ _ => cases e
  | rep r' =>
    have : r' = r := by simpa [BlockOp.repOf] using e
    subst this
    exact mem_delivered.1 (rep_mem_blockOps (hperm.mem_iff.1 hop))

/-! ## desired replication: a maximum, independent of the arrival order -/

/-- the replication op `op` asks for in class `c` -/
def askOf (dflt : Class) (c : Class) : BlockOp → Nat
  | .rep _ => 0
  | .coll _ classes n => if c ∈ collClasses dflt classes then n else 0

theorem wantStepOf_eq (dflt c : Class) (acc : Nat) (op : BlockOp) :
    wantStepOf dflt c acc op = max acc (askOf dflt c op) := by
  cases op with
  | rep _ => simp [wantStepOf, askOf]
  | coll _ classes n =>
    unfold wantStepOf askOf
    by_cases h : c ∈ collClasses dflt classes <;> simp [h]

theorem foldl_want_ge (dflt c : Class) : ∀ (ops : List BlockOp) (acc : Nat),
    acc ≤ ops.foldl (wantStepOf dflt c) acc ∧
    (∀ op ∈ ops, askOf dflt c op ≤ ops.foldl (wantStepOf dflt c) acc) ∧
    (ops.foldl (wantStepOf dflt c) acc = acc ∨ ∃ op ∈ ops, ops.foldl (wantStepOf dflt c) acc = askOf dflt c op) := by
  intro ops
  induction ops with
  | nil => intro acc; simp
  | cons op ops ih =>
    intro acc
    simp only [List.foldl_cons]
    obtain ⟨h1, h2, h3⟩ := ih (wantStepOf dflt c acc op)
    have hstep := wantStepOf_eq dflt c acc op
    refine ⟨by omega, ?_, ?_⟩
    · intro op' hop'
      rcases List.mem_cons.1 hop' with rfl | hmem
      · omega
      · exact h2 op' hmem
    · rcases h3 with h3 | ⟨op', hop', h3⟩
      · by_cases hle : askOf dflt c op ≤ acc
        · left; rw [h3, hstep]; omega
        · right; exact ⟨op, List.mem_cons_self .., by rw [h3, hstep]; omega⟩
      · right; exact ⟨op', List.mem_cons_of_mem _ hop', h3⟩

/-- the desired replication of a gathered block for class `c` is the largest request among its ops -/
theorem desiredOf_gather_max (dflt c : Class) (ops : List BlockOp) :
    (∀ op ∈ ops, askOf dflt c op ≤ desiredOf (gather dflt ops) c) ∧
    (desiredOf (gather dflt ops) c = 0 ∨ ∃ op ∈ ops, desiredOf (gather dflt ops) c = askOf dflt c op) := by
  have h := foldl_applyOp_desired dflt c ops BlockSt.empty
  have h0 : desiredOf BlockSt.empty c = 0 := rfl
  rw [h0] at h
  unfold gather
  rw [h]
  obtain ⟨_, h2, h3⟩ := foldl_want_ge dflt c ops 0
  exact ⟨h2, h3⟩

theorem mem_collOps {sel : Bool} {defRepl : Nat} {colls : List Coll} {b : Nat} {op : BlockOp} :
    op ∈ collOps sel defRepl colls b ↔ ∃ coll ∈ colls, b ∈ coll.blocks ∧ op = collOp sel defRepl coll := by
  unfold collOps
  simp only [List.mem_flatMap, List.mem_map, List.mem_filter]
  constructor
  · rintro ⟨c, hc, x, ⟨hx, hxb⟩, rfl⟩
    have : x = b := by simpa using hxb
    subst this
    exact ⟨c, hc, hx, rfl⟩
  · rintro ⟨c, hc, hb, rfl⟩
    exact ⟨c, hc, b, ⟨hb, by simp⟩, rfl⟩

theorem askOf_collOp (dflt c : Class) (sel : Bool) (defRepl : Nat) (coll : Coll) :
    askOf dflt c (collOp sel defRepl coll) =
      if c ∈ collClasses dflt (fetchedClasses sel coll) then coll.repl.getD defRepl else 0 := rfl

theorem askOf_blockOps {dflt c : Class} {sel : Bool} {defRepl : Nat} {idx : Nat → List IdxEntry} {rep : Nat → Nat}
    {mounts : List Mount} {colls : List Coll} {b : Nat} {op : BlockOp}
    (h : op ∈ blockOps sel defRepl idx rep mounts colls b) :
    askOf dflt c op = 0 ∨ ∃ coll ∈ colls, b ∈ coll.blocks ∧ op = collOp sel defRepl coll := by
  unfold blockOps at h
  rcases List.mem_append.1 h with h | h
  · obtain ⟨r, _, rfl⟩ := List.mem_map.1 h
    left; rfl
  · right; exact mem_collOps.1 h

/-! F05b witness layout (corpus/C05): two `archive` (class 1) and two `default` (class 0) mounts on four
services, each with an old replica of block 0; one collection asks for replication 2 in `archive`. -/
def f05bSvcs : List RawService :=
  [⟨0, false, [⟨0, 0, false, 1, [1]⟩]⟩, ⟨1, false, [⟨1, 0, false, 1, [1]⟩]⟩,
   ⟨2, false, [⟨2, 0, false, 1, []⟩]⟩, ⟨3, false, [⟨3, 0, false, 1, []⟩]⟩]
def f05bOps : List BlockOp :=
  blockOps selClassesOld 2 (fun id => [⟨0, 1599999900000000000 - id * 1000000000⟩]) id
    (effMounts 0 (cleanupMounts f05bSvcs)) [⟨1, some 2, [1], [0]⟩] 0
def f05bEnv : Env := envOf (fun s => s) (fun a b => decide (a < b)) 1600000000000000000 (gather 0 f05bOps)
def f05bResult : Result := plan f05bEnv 0 (wSorter f05bEnv) f05bSvcs (gather 0 f05bOps).replicas

/-- the same sweep with the select list of the fixed code -/
def f05bOpsNow : List BlockOp :=
  blockOps selClassesNow 2 (fun id => [⟨0, 1599999900000000000 - id * 1000000000⟩]) id
    (effMounts 0 (cleanupMounts f05bSvcs)) [⟨1, some 2, [1], [0]⟩] 0
def f05bEnvNow : Env := envOf (fun s => s) (fun a b => decide (a < b)) 1600000000000000000 (gather 0 f05bOpsNow)
def f05bResultNow : Result := plan f05bEnvNow 0 (wSorter f05bEnvNow) f05bSvcs (gather 0 f05bOpsNow).replicas

end ArvVerif.C05
