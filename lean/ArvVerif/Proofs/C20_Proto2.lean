/-
C20 helper lemmas, part 6 (third extension pass): the global invariant of the goroutine / channel /
collector transition system, its preservation, progress and the termination measure.
-/
import ArvVerif.Proofs.C20_Proto
namespace ArvVerif.C20

/-- the fields of a goroutine that never change -/
def staticOf (g : GState) : ClusterId × List Uuid × ClusterId := (g.c, g.todo0, g.slot)

structure PInv (cfg : Cfg) (ropts : Opts) (st : List (ClusterId × List Uuid × ClusterId)) (s : PState) : Prop where
  static : s.gs.map staticOf = st
  loc : ∀ g ∈ s.gs, LInv cfg ropts s.vars g
  /-- nobody sees a cancellation before `cancel()` was called -/
  nocancel : s.cancelled = false → ∀ g ∈ s.gs, g.sawCancel = none
  first_iff : s.firstErr = none ↔ s.cancelled = false
  /-- the error kept by the collector was sent by a goroutine that failed by itself -/
  first_src : ∀ e, s.firstErr = some e → ∃ g ∈ s.gs, g.phase = .finished (.failed e) ∧ g.sawCancel = none
  chan_src : ∀ e, some e ∈ s.chan → ∃ g ∈ s.gs, g.phase = .finished (.failed e)
  /-- exactly one send per finished goroutine -/
  count : s.chan.length + s.received = (s.gs.filter GState.isFinished).length
  failed_seen : ∀ g ∈ s.gs, ∀ e, g.phase = .finished (.failed e) → s.firstErr ≠ none ∨ ∃ e', some e' ∈ s.chan

theorem slot_ne {pre post : List GState} {g x : GState}
    (hnd : ((pre ++ g :: post).map (·.slot)).Nodup) (hx : x ∈ pre ∨ x ∈ post) : x.slot ≠ g.slot := by
  rw [List.map_append, List.map_cons] at hnd
  have hp := (List.perm_middle (a := g.slot) (l₁ := pre.map (·.slot)) (l₂ := post.map (·.slot))).nodup_iff.mp hnd
  have hnot := (List.nodup_cons.mp hp).1
  intro heq
  apply hnot
  rw [← heq]
  rcases hx with hx | hx
  · exact List.mem_append_left _ (List.mem_map_of_mem hx)
  · exact List.mem_append_right _ (List.mem_map_of_mem hx)

theorem slots_of_static {st : List (ClusterId × List Uuid × ClusterId)} {gs : List GState}
    (h : gs.map staticOf = st) : gs.map (·.slot) = st.map (·.2.2) := by
  rw [← h, List.map_map]; rfl

theorem collect_gs (v : Sent) (s : PState) : (collect v s).gs = s.gs ∧ (collect v s).vars = s.vars ∧
    (collect v s).chan = s.chan ∧ (collect v s).received = s.received := by
  unfold collect
  cases v <;> cases s.firstErr <;> simp

theorem pstep_inv (cfg : Cfg) (ropts : Opts) (st : List (ClusterId × List Uuid × ClusterId))
    (hst : (st.map (·.2.2)).Nodup) (s t : PState) (h : PInv cfg ropts st s) (hs : PStep cfg ropts s t) :
    PInv cfg ropts st t := by
  cases hs with
  | gor pre post g g' vars' sent hgs hstep =>
    have hg : g ∈ s.gs := by rw [hgs]; simp
    obtain ⟨hc, ht0, hsl, hfin, hvars, hsn, hss, hsaw, _, hl'⟩ :=
      gstep_facts cfg ropts s.vars vars' s.cancelled g g' sent hstep (h.loc g hg)
    have hstat : staticOf g' = staticOf g := by simp [staticOf, hc, ht0, hsl]
    have hnd : ((pre ++ g :: post).map (·.slot)).Nodup := by
      rw [← hgs, slots_of_static h.static]; exact hst
    -- membership in the new list
    have hmem : ∀ x, x ∈ pre ++ g' :: post ↔ (x ∈ pre ∨ x ∈ post) ∨ x = g' := by
      intro x; simp only [List.mem_append, List.mem_cons]
      constructor
      · rintro (h1 | h1 | h1)
        · exact Or.inl (Or.inl h1)
        · exact Or.inr h1
        · exact Or.inl (Or.inr h1)
      · rintro ((h1 | h1) | h1)
        · exact Or.inl h1
        · exact Or.inr (Or.inr h1)
        · exact Or.inr (Or.inl h1)
    have hold : ∀ x, (x ∈ pre ∨ x ∈ post) → x ∈ s.gs := by
      intro x hx; rw [hgs]; simp only [List.mem_append, List.mem_cons]
      rcases hx with hx | hx
      · exact Or.inl hx
      · exact Or.inr (Or.inr hx)
    -- a finished goroutine of the old state is still there
    have hkeep : ∀ x ∈ s.gs, x.isFinished = true → x ∈ pre ++ g' :: post := by
      intro x hx hxf
      rw [hgs] at hx
      simp only [List.mem_append, List.mem_cons] at hx
      rcases hx with hx | hx | hx
      · exact (hmem x).mpr (Or.inl (Or.inl hx))
      · subst hx; rw [hfin] at hxf; cases hxf
      · exact (hmem x).mpr (Or.inl (Or.inr hx))
    have hfinP : ∀ (x : GState) (e : Nat), x.phase = GPhase.finished (.failed e) → x.isFinished = true := by
      intro x e hx; simp [GState.isFinished, hx]
    refine ⟨?_, ?_, ?_, h.first_iff, ?_, ?_, ?_, ?_⟩
    · rw [← h.static, hgs]; simp [List.map_append, hstat]
    · intro x hx
      rcases (hmem x).mp hx with hx | hx
      · have hxl := h.loc x (hold x hx)
        rcases hvars with hv | ⟨v, hv⟩
        · rw [hv]; exact hxl
        · rw [hv]; exact linv_setVar cfg ropts s.vars x g.slot v (slot_ne hnd hx) hxl
      · subst hx; exact hl'
    · intro hcn x hx
      rcases (hmem x).mp hx with hx | hx
      · exact h.nocancel hcn x (hold x hx)
      · subst hx
        rcases hsaw with hsaw | hsaw
        · rw [hsaw]; exact h.nocancel hcn g hg
        · rw [hcn] at hsaw; cases hsaw
    · intro e he
      obtain ⟨x, hx, hxp, hxs⟩ := h.first_src e he
      exact ⟨x, hkeep x hx (hfinP x e hxp), hxp, hxs⟩
    · intro e he
      simp only [List.mem_append] at he
      rcases he with he | he
      · obtain ⟨x, hx, hxp⟩ := h.chan_src e he
        exact ⟨x, hkeep x hx (hfinP x e hxp), hxp⟩
      · cases sent with
        | none => simp at he
        | some v =>
          simp only [Option.toList, List.mem_singleton] at he
          obtain ⟨st', hp', hv, hns⟩ := hss v rfl
          refine ⟨g', (hmem g').mpr (Or.inr rfl), ?_⟩
          rw [hp']
          cases st' with
          | done => rw [← he] at hv; simp [sentOf] at hv
          | failed e' => rw [← he] at hv; simp [sentOf] at hv; rw [hv]
          | starved => exact absurd rfl hns
    · have hcount := h.count
      rw [hgs] at hcount
      simp only [List.filter_append, List.filter_cons, hfin, List.length_append] at hcount ⊢
      cases sent with
      | none =>
        have := hsn rfl
        simp [this]
        simpa using hcount
      | some v =>
        obtain ⟨st', hp', _, _⟩ := hss v rfl
        have : g'.isFinished = true := by simp [GState.isFinished, hp']
        simp [this]
        simp at hcount
        omega
    · intro x hx e hxp
      rcases (hmem x).mp hx with hx' | hx'
      · rcases h.failed_seen x (hold x hx') e hxp with h1 | ⟨e', h1⟩
        · exact Or.inl h1
        · exact Or.inr ⟨e', by simp [h1]⟩
      · subst hx'
        cases sent with
        | none =>
          have := hsn rfl
          simp [GState.isFinished, hxp] at this
        | some v =>
          obtain ⟨st', hp', hv, _⟩ := hss v rfl
          rw [hxp] at hp'
          cases hp'
          exact Or.inr ⟨e, by simp [hv, sentOf]⟩
  | recv v rest hch hlt =>
    obtain ⟨cg, cv, cc, cr⟩ := collect_gs v s
    by_cases hfirst : ∃ e, v = some e ∧ s.firstErr = none
    · obtain ⟨e, hv, hf⟩ := hfirst
      have hcol : collect v s = { s with firstErr := some e, cancelled := true } := by
        unfold collect; rw [hv, hf]
      rw [hcol]
      have hcn : s.cancelled = false := h.first_iff.mp hf
      refine ⟨h.static, h.loc, ?_, ?_, ?_, ?_, ?_, ?_⟩
      · intro hc; cases hc
      · simp
      · intro e' he'
        simp only at he'
        cases he'
        obtain ⟨x, hx, hxp⟩ := h.chan_src e (by rw [hch, hv]; simp)
        exact ⟨x, hx, hxp, h.nocancel hcn x hx⟩
      · intro e' he'
        exact h.chan_src e' (by rw [hch]; exact List.mem_cons_of_mem _ he')
      · have := h.count; rw [hch] at this; simp at this ⊢; omega
      · intro x hx e' hxp; exact Or.inl (by simp)
    · have hcol : collect v s = s := by
        unfold collect
        cases hv : v with
        | none => rfl
        | some e =>
          cases hf : s.firstErr with
          | none => exact absurd ⟨e, hv, hf⟩ hfirst
          | some _ => rfl
      rw [hcol]
      refine ⟨h.static, h.loc, h.nocancel, h.first_iff, h.first_src, ?_, ?_, ?_⟩
      · intro e' he'
        exact h.chan_src e' (by rw [hch]; exact List.mem_cons_of_mem _ he')
      · have := h.count; rw [hch] at this; simp at this ⊢; omega
      · intro x hx e' hxp
        rcases h.failed_seen x hx e' hxp with h1 | ⟨e2, h1⟩
        · exact Or.inl h1
        · rw [hch] at h1
          simp only [List.mem_cons] at h1
          rcases h1 with h1 | h1
          · left
            intro hf
            exact hfirst ⟨e2, h1.symm, hf⟩
          · exact Or.inr ⟨e2, h1⟩

theorem psteps_inv (cfg : Cfg) (ropts : Opts) (st : List (ClusterId × List Uuid × ClusterId))
    (hst : (st.map (·.2.2)).Nodup) (s t : PState) (h : PInv cfg ropts st s) (hs : PSteps cfg ropts s t) :
    PInv cfg ropts st t := by
  induction hs with
  | refl => exact h
  | tail t u _ hstep ih => exact pstep_inv cfg ropts st hst t u ih hstep

theorem init_inv (cfg : Cfg) (ropts : Opts) (slotOf : ClusterId → ClusterId) (o : Opts)
    (gs : List (ClusterId × List Uuid)) :
    PInv cfg ropts (gs.map (fun g => (g.1, g.2, slotOf g.1))) (initP slotOf o gs) := by
  have hnf : (List.map (initG slotOf) gs).filter GState.isFinished = [] := by
    apply List.filter_eq_nil_iff.mpr
    intro x hx
    obtain ⟨g, _, rfl⟩ := List.mem_map.mp hx
    simp [initG, GState.isFinished]
  refine ⟨?_, ?_, ?_, ?_, ?_, ?_, ?_, ?_⟩
  · simp [initP, List.map_map, Function.comp_def, staticOf, initG]
  · intro x hx
    obtain ⟨g, _, rfl⟩ := List.mem_map.mp hx
    simp only [LInv, initG]
    refine ⟨trivial, rfl, fun _ => trivial, ?_⟩
    intro B hb cut _
    unfold full
    simp only [hb]
    simp [prependAcc]
  · intro _ x hx
    obtain ⟨g, _, rfl⟩ := List.mem_map.mp hx
    rfl
  · simp [initP]
  · intro e he; simp [initP] at he
  · intro e he; simp [initP] at he
  · simp only [initP, hnf]; rfl
  · intro x hx e hxp
    obtain ⟨g, _, rfl⟩ := List.mem_map.mp hx
    simp [initG] at hxp

/-! ### termination measure and progress -/

theorem sum_map_middle (pre post : List GState) (g g' : GState) (h : g'.measure < g.measure) :
    ((pre ++ g' :: post).map GState.measure).sum < ((pre ++ g :: post).map GState.measure).sum := by
  simp only [List.map_append, List.map_cons, List.sum_append, List.sum_cons]
  omega

theorem pstep_measure (cfg : Cfg) (ropts : Opts) (st : List (ClusterId × List Uuid × ClusterId))
    (s t : PState) (h : PInv cfg ropts st s) (hs : PStep cfg ropts s t) : t.measure < s.measure := by
  cases hs with
  | gor pre post g g' vars' sent hgs hstep =>
    have hg : g ∈ s.gs := by rw [hgs]; simp
    have hm := (gstep_facts cfg ropts s.vars vars' s.cancelled g g' sent hstep (h.loc g hg)).2.2.2.2.2.2.2.2.1
    have := sum_map_middle pre post g g' hm
    simp only [PState.measure, hgs, List.length_append, List.length_cons] at this ⊢
    omega
  | recv v rest hch hlt =>
    obtain ⟨cg, _, _, _⟩ := collect_gs v s
    simp only [PState.measure, cg]
    omega

theorem pstep_progress (cfg : Cfg) (ropts : Opts) (st : List (ClusterId × List Uuid × ClusterId))
    (s : PState) (h : PInv cfg ropts st s) (hnc : ¬ s.complete) : ∃ t, PStep cfg ropts s t := by
  by_cases hall : ∀ g ∈ s.gs, g.isFinished = true
  · -- everyone has sent: the collector can receive
    have hflt : s.gs.filter GState.isFinished = s.gs := List.filter_eq_self.mpr hall
    have hcount := h.count
    rw [hflt] at hcount
    have hrec : s.received ≠ s.gs.length := fun hr => hnc ⟨hall, hr⟩
    cases hch : s.chan with
    | nil => rw [hch] at hcount; simp at hcount; exact absurd hcount hrec
    | cons v rest => exact ⟨_, PStep.recv s v rest hch (by omega)⟩
  · have : ∃ g ∈ s.gs, g.isFinished = false := by
      apply Classical.byContradiction
      intro hcon
      apply hall
      intro g hg
      cases hf : g.isFinished with
      | true => rfl
      | false => exact absurd ⟨g, hg, hf⟩ hcon
    obtain ⟨g, hg, hf⟩ := this
    obtain ⟨pre, post, hgs⟩ := List.append_of_mem hg
    have hl := h.loc g hg
    cases hp : g.phase with
    | finished st' => simp [GState.isFinished, hp] at hf
    | loop todo idx =>
      cases hb : backendFor cfg g.c with
      | none => exact ⟨_, PStep.gor s pre post g _ _ _ hgs (GStep.noBackend g todo idx hp hb)⟩
      | some B =>
        by_cases hne : todo = []
        · subst hne; exact ⟨_, PStep.gor s pre post g _ _ _ hgs (GStep.exit g idx B hp hb)⟩
        · exact ⟨_, PStep.gor s pre post g _ _ _ hgs (GStep.prepare g todo idx B hp hne hb)⟩
    | prepared todo idx =>
      simp only [LInv, hp] at hl
      obtain ⟨_, _, _, _, B, hb, _⟩ := hl
      exact ⟨_, PStep.gor s pre post g _ _ _ hgs (GStep.call g todo idx B hp hb)⟩

end ArvVerif.C20
