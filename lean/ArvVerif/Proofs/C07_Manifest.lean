/-
C07 helper lemmas, part 6: `SignManifest`. The manifest text is an alternation of whitespace-free
fields and single whitespace characters (`render`); `mapFields` rewrites the fields and nothing
else; `stripPerm` deletes exactly the `+`-separated fields that start with `A`.
-/
import ArvVerif.Proofs.C07_Verify
namespace ArvVerif.C07
variable (mac : Str → Str → List UInt8)

/-! ## fields and whitespace -/

def NoSpace (s : Str) : Prop := ∀ c ∈ s, isSpace c = false

/-- first field, then (whitespace character, field) pairs -/
def render (f0 : Str) (rest : List (Char × Str)) : Str :=
  f0 ++ rest.flatMap (fun p => p.1 :: p.2)

/-- a decomposition into whitespace-free fields separated by single whitespace characters -/
structure IsLayout (f0 : Str) (rest : List (Char × Str)) : Prop where
  first : NoSpace f0
  seps : ∀ p ∈ rest, isSpace p.1 = true
  fields : ∀ p ∈ rest, NoSpace p.2

theorem exists_layout (m : Str) : ∃ f0 rest, IsLayout f0 rest ∧ m = render f0 rest := by
  induction m with
  | nil => exact ⟨[], [], ⟨by simp [NoSpace], by simp, by simp⟩, rfl⟩
  | cons c cs ih =>
    obtain ⟨f0, rest, hl, rfl⟩ := ih
    cases hc : isSpace c with
    | true =>
      refine ⟨[], (c, f0) :: rest, ⟨by simp [NoSpace], ?_, ?_⟩, by simp [render]⟩
      · intro p hp
        rcases List.mem_cons.mp hp with rfl | hp
        · exact hc
        · exact hl.seps p hp
      · intro p hp
        rcases List.mem_cons.mp hp with rfl | hp
        · exact hl.first
        · exact hl.fields p hp
    | false =>
      refine ⟨c :: f0, rest, ⟨?_, hl.seps, hl.fields⟩, by simp [render]⟩
      intro d hd
      rcases List.mem_cons.mp hd with rfl | hd
      · exact hc
      · exact hl.first d hd

theorem mapFields_noSpace (f : Str → Str) (cur a : Str) (tail : Str) (ha : NoSpace a) :
    mapFields f cur (a ++ tail) = mapFields f (cur ++ a) tail := by
  induction a generalizing cur with
  | nil => simp
  | cons c cs ih =>
    have hc : isSpace c = false := ha c (List.mem_cons_self ..)
    simp only [List.cons_append, mapFields, hc, Bool.false_eq_true, if_false]
    rw [ih _ (fun d hd => ha d (List.mem_cons_of_mem _ hd))]
    simp

/-- `mapFields` rewrites every field of a layout and leaves the separators where they are -/
theorem mapFields_render (f : Str → Str) (cur f0 : Str) (rest : List (Char × Str))
    (hl : IsLayout f0 rest) :
    mapFields f cur (render f0 rest) = render (f (cur ++ f0)) (rest.map (fun p => (p.1, f p.2))) := by
  induction rest generalizing cur f0 with
  | nil =>
    simp only [render, List.flatMap_nil, List.append_nil, List.map_nil]
    have := mapFields_noSpace f cur f0 [] hl.first
    simpa [mapFields] using this
  | cons p rest ih =>
    obtain ⟨c, g⟩ := p
    have hc : isSpace c = true := hl.seps (c, g) (List.mem_cons_self ..)
    have hl' : IsLayout g rest :=
      ⟨hl.fields (c, g) (List.mem_cons_self ..), fun q hq => hl.seps q (List.mem_cons_of_mem _ hq),
        fun q hq => hl.fields q (List.mem_cons_of_mem _ hq)⟩
    have e : render f0 ((c, g) :: rest) = f0 ++ c :: render g rest := by simp [render]
    rw [e, mapFields_noSpace f cur f0 _ hl.first]
    simp only [mapFields, hc, if_true]
    rw [ih [] g hl']
    simp [render]

theorem filter_isSpace_render (f0 : Str) (rest : List (Char × Str)) (hl : IsLayout f0 rest) :
    (render f0 rest).filter isSpace = rest.map (·.1) := by
  have h0 : ∀ a : Str, NoSpace a → a.filter isSpace = [] := by
    intro a ha
    rw [List.filter_eq_nil_iff]
    intro c hc; simp [ha c hc]
  induction rest generalizing f0 with
  | nil => simp [render, h0 f0 hl.first]
  | cons p rest ih =>
    obtain ⟨c, g⟩ := p
    have hc : isSpace c = true := hl.seps (c, g) (List.mem_cons_self ..)
    have hl' : IsLayout g rest :=
      ⟨hl.fields (c, g) (List.mem_cons_self ..), fun q hq => hl.seps q (List.mem_cons_of_mem _ hq),
        fun q hq => hl.fields q (List.mem_cons_of_mem _ hq)⟩
    have e : render f0 ((c, g) :: rest) = f0 ++ c :: render g rest := by simp [render]
    rw [e, List.filter_append, h0 f0 hl.first, List.nil_append, List.filter_cons, if_pos hc, ih g hl']
    simp

/-! ## stripPerm -/

/-- the hints that survive `mPermHintRe.ReplaceAllString(tok, "")` -/
def notPermHint (f : Str) : Bool := f.head? != some 'A'

theorem stripPerm_free_false (a rest : Str) (ha : Free '+' a) :
    stripPerm false (a ++ rest) = a ++ stripPerm false rest := by
  induction a with
  | nil => rfl
  | cons c cs ih =>
    have hc : c ≠ '+' := ha c (List.mem_cons_self ..)
    simp only [List.cons_append, stripPerm, hc, if_false, Bool.false_eq_true]
    rw [ih (fun d hd => ha d (List.mem_cons_of_mem _ hd))]

theorem stripPerm_free_true (a rest : Str) (ha : Free '+' a) :
    stripPerm true (a ++ rest) = stripPerm true rest := by
  induction a with
  | nil => rfl
  | cons c cs ih =>
    have hc : c ≠ '+' := ha c (List.mem_cons_self ..)
    simp only [List.cons_append, stripPerm, hc, if_false, if_true]
    rw [ih (fun d hd => ha d (List.mem_cons_of_mem _ hd))]

theorem stripPerm_plus_A (b : Bool) (r : Str) :
    stripPerm b ('+' :: 'A' :: r) = stripPerm true ('A' :: r) := by
  cases b <;> simp [stripPerm]

theorem stripPerm_plus_notA (b : Bool) (rest : Str) (h : rest.head? ≠ some 'A') :
    stripPerm b ('+' :: rest) = '+' :: stripPerm false rest := by
  cases rest with
  | nil => cases b <;> simp [stripPerm]
  | cons c x =>
    have hc : c ≠ 'A' := by simpa using h
    clear h
    generalize hr : stripPerm false (c :: x) = R
    cases b <;>
    · unfold stripPerm
      simp only [if_true]
      split
      · rename_i heq; simp at heq; exact absurd heq.1 hc
      · rw [hr]

theorem head?_hints_ne_A (fs : List Str) : (hints fs).head? ≠ some 'A' := by
  cases fs with
  | nil => simp
  | cons f fs => rw [hints_cons]; simp

theorem stripPerm_hints (b : Bool) (fs : List Str) (hfs : ∀ f ∈ fs, Free '+' f) :
    stripPerm b (hints fs) = hints (fs.filter notPermHint) := by
  induction fs generalizing b with
  | nil => cases b <;> rfl
  | cons f fs ih =>
    have hf := hfs f (List.mem_cons_self ..)
    have hfs' : ∀ g ∈ fs, Free '+' g := fun g hg => hfs g (List.mem_cons_of_mem _ hg)
    rw [hints_cons, List.cons_append]
    cases f with
    | nil =>
      have hn : notPermHint [] = true := by decide
      rw [List.filter_cons, if_pos hn, hints_cons, List.nil_append,
        stripPerm_plus_notA b _ (head?_hints_ne_A fs), ih false hfs']
      simp
    | cons c cs =>
      by_cases hA : c = 'A'
      · subst hA
        have hn : notPermHint ('A' :: cs) = false := by simp [notPermHint]
        rw [List.filter_cons, if_neg (by simp [hn]), List.cons_append, stripPerm_plus_A,
          ← List.cons_append, stripPerm_free_true _ _ hf, ih true hfs']
      · have hn : notPermHint (c :: cs) = true := by simp [notPermHint, hA]
        rw [List.filter_cons, if_pos hn, hints_cons,
          stripPerm_plus_notA b _ (by simp [hA]), stripPerm_free_false _ _ hf, ih false hfs']
        simp

/-- `stripPermHints` in terms of the `+`-separated fields: the first field and every later field
that does not start with `A` are kept, in order; fields starting with `A` disappear together
with their `+`. -/
theorem stripPermHints_fields {t h : Str} {fs : List Str} (e : splitOn '+' t = h :: fs) :
    stripPermHints t = h ++ hints (fs.filter notPermHint) := by
  obtain ⟨rfl, hh, hfs⟩ := splitOn_eq_cons e
  show stripPerm false (h ++ hints fs) = _
  rw [stripPerm_free_false _ _ hh, stripPerm_hints false fs hfs]

theorem mem_stripPerm {b : Bool} {t : Str} {c : Char} (h : c ∈ stripPerm b t) : c ∈ t := by
  induction t generalizing b with
  | nil => simp [stripPerm] at h
  | cons d ds ih =>
    unfold stripPerm at h
    split at h
    · rename_i hd
      split at h
      · exact List.mem_cons_of_mem _ (ih h)
      · rcases List.mem_cons.mp h with rfl | h
        · rw [hd]; exact List.mem_cons_self ..
        · exact List.mem_cons_of_mem _ (ih h)
    · split at h
      · exact List.mem_cons_of_mem _ (ih h)
      · rcases List.mem_cons.mp h with rfl | h
        · exact List.mem_cons_self ..
        · exact List.mem_cons_of_mem _ (ih h)

/-! ## signToken -/

theorem fmt08x_chars (v : Int) : ∀ c ∈ fmt08x v, isLowerHex c = true ∨ c = '-' := by
  intro c hc
  unfold fmt08x padLeft at hc
  split at hc
  · rcases List.mem_append.mp hc with hc | hc
    · rw [List.mem_replicate] at hc; rw [hc.2]; exact Or.inl (by decide)
    · exact Or.inl (natHex_lowerHex _ c hc)
  · rcases List.mem_cons.mp hc with rfl | hc
    · exact Or.inr rfl
    · rcases List.mem_append.mp hc with hc | hc
      · rw [List.mem_replicate] at hc; rw [hc.2]; exact Or.inl (by decide)
      · exact Or.inl (natHex_lowerHex _ c hc)

theorem sigHint_noSpace (h tok : Str) (exp ttlNs : Int) (key : Str) :
    NoSpace (sigHint mac h tok exp ttlNs key) := by
  have hx : ∀ c, (isLowerHex c = true ∨ c = '-') → isSpace c = false := by
    intro c hc
    rcases hc with hc | rfl
    · exact not_isSpace_of_isLowerHex hc
    · decide
  intro c hc
  simp only [sigHint, List.mem_cons, List.mem_append] at hc
  rcases hc with (rfl | rfl | hc) | rfl | hc
  · decide
  · decide
  · exact not_isSpace_of_isLowerHex (List.all_eq_true.mp (hexOfDigest_lowerHex _) c hc)
  · decide
  · exact hx c (fmt08x_chars exp c hc)

theorem signToken_nil (tok : Str) (exp ttlNs : Int) (key : Str) :
    signToken mac tok exp ttlNs key [] = [] := by
  simp [signToken, isBlockToken]

theorem signToken_noSpace (tok : Str) (exp ttlNs : Int) (key : Str) {t : Str} (ht : NoSpace t) :
    NoSpace (signToken mac tok exp ttlNs key t) := by
  unfold signToken
  split
  · unfold signLocator
    have hs : NoSpace (stripPermHints t) := fun c hc => ht c (mem_stripPerm hc)
    split
    · exact hs
    · intro c hc
      rcases List.mem_append.mp hc with hc | hc
      · exact hs c hc
      · exact sigHint_noSpace mac _ _ _ _ _ c hc
  · exact ht

/-- a block token's first `+`-field has at least 32 characters, all lowercase hex -/
theorem signToken_block {tok key t h : Str} {fs : List Str} {exp ttlNs : Int}
    (hb : isBlockToken t = true) (hk : key ≠ []) (htok : tok ≠ []) (e : splitOn '+' t = h :: fs) :
    signToken mac tok exp ttlNs key t =
      h ++ hints (fs.filter notPermHint ++
        [sigField (makePermSignature mac h tok (fmt08x exp) (ttlHex ttlNs) key) (fmt08x exp)]) := by
  have hke : key.isEmpty = false := by cases key <;> simp_all
  have hte : tok.isEmpty = false := by cases tok <;> simp_all
  have hfree := (splitOn_eq_cons e).2.1
  have hp : hashPart (h ++ hints (fs.filter notPermHint)) = h := hashPart_hints _ hfree
  simp only [signToken, hb, if_true, signLocator, hke, hte, Bool.or_self, Bool.false_eq_true,
    if_false, stripPermHints_fields e, hp, sigHint]
  rw [hints_append]
  simp [sigField, List.append_assoc]


/-! ## the layout of a text is unique -/

/-- `[]` or a text that starts with a whitespace character -/
def StartsWithSpace (x : Str) : Prop := ∀ c r, x = c :: r → isSpace c = true

theorem first_field_unique {a b x y : Str} (ha : NoSpace a) (hb : NoSpace b)
    (hx : StartsWithSpace x) (hy : StartsWithSpace y) (h : a ++ x = b ++ y) : a = b ∧ x = y := by
  induction a generalizing b with
  | nil =>
    cases b with
    | nil => exact ⟨rfl, by simpa using h⟩
    | cons d ds =>
      simp only [List.nil_append, List.cons_append] at h
      have := hx d _ h
      rw [hb d (List.mem_cons_self ..)] at this
      exact absurd this (by simp)
  | cons c cs ih =>
    cases b with
    | nil =>
      simp only [List.nil_append, List.cons_append] at h
      have := hy c _ h.symm
      rw [ha c (List.mem_cons_self ..)] at this
      exact absurd this (by simp)
    | cons d ds =>
      simp only [List.cons_append, List.cons.injEq] at h
      obtain ⟨rfl, h⟩ := h
      obtain ⟨rfl, rfl⟩ := ih (fun e he => ha e (List.mem_cons_of_mem _ he))
        (fun e he => hb e (List.mem_cons_of_mem _ he)) h
      exact ⟨rfl, rfl⟩

theorem startsWithSpace_tail (rest : List (Char × Str)) (hs : ∀ p ∈ rest, isSpace p.1 = true) :
    StartsWithSpace (rest.flatMap (fun p => p.1 :: p.2)) := by
  intro c r h
  cases rest with
  | nil => simp at h
  | cons p ps =>
    simp only [List.flatMap_cons, List.cons_append, List.cons.injEq] at h
    rw [← h.1]; exact hs p (List.mem_cons_self ..)

/-- two layouts of the same text are the same layout -/
theorem layout_unique {f0 g0 : Str} {rest rest' : List (Char × Str)}
    (h1 : IsLayout f0 rest) (h2 : IsLayout g0 rest') (h : render f0 rest = render g0 rest') :
    f0 = g0 ∧ rest = rest' := by
  induction rest generalizing f0 g0 rest' with
  | nil =>
    obtain ⟨rfl, ht⟩ := first_field_unique h1.first h2.first
      (startsWithSpace_tail [] (by simp)) (startsWithSpace_tail rest' h2.seps) h
    cases rest' with
    | nil => exact ⟨rfl, rfl⟩
    | cons p ps => simp at ht
  | cons p ps ih =>
    obtain ⟨rfl, ht⟩ := first_field_unique h1.first h2.first
      (startsWithSpace_tail _ h1.seps) (startsWithSpace_tail rest' h2.seps) h
    cases rest' with
    | nil => simp at ht
    | cons q qs =>
      obtain ⟨c, g⟩ := p
      obtain ⟨d, k⟩ := q
      simp only [List.flatMap_cons, List.cons_append, List.cons.injEq] at ht
      obtain ⟨rfl, ht⟩ := ht
      have l1 : IsLayout g ps :=
        ⟨h1.fields (c, g) (List.mem_cons_self ..), fun q hq => h1.seps q (List.mem_cons_of_mem _ hq),
          fun q hq => h1.fields q (List.mem_cons_of_mem _ hq)⟩
      have l2 : IsLayout k qs :=
        ⟨h2.fields (c, k) (List.mem_cons_self ..), fun q hq => h2.seps q (List.mem_cons_of_mem _ hq),
          fun q hq => h2.fields q (List.mem_cons_of_mem _ hq)⟩
      obtain ⟨rfl, rfl⟩ := ih l1 l2 ht
      exact ⟨rfl, rfl⟩

end ArvVerif.C07
