import ArvVerif.Proofs.C07_Verify
namespace ArvVerif.C07
end ArvVerif.C07
