/-
C13 helper lemmas, part 11: reader/writer locks with writer preference. Operations that ask only
for locks ranking above everything they hold cannot form a wait-for cycle, pending writers included;
a re-entrant read lock can.
-/
import ArvVerif.Model.C13_RW
import ArvVerif.Proofs.C13_Lock
namespace ArvVerif.C13.RW
open ArvVerif.C13.Lock (Lk)

variable {rank : Lk → Nat}

/-- twice the rank of the wanted lock, plus one for a writer -/
def mu (rank : Lk → Nat) (o : ROp) : Nat :=
  match o.want with
  | some (l, Mode.r) => 2 * rank l
  | some (l, Mode.w) => 2 * rank l + 1
  | none => 0

def muAt (rank : Lk → Nat) (ops : List ROp) (i : Nat) : Nat :=
  match ops[i]? with
  | some o => mu rank o
  | none => 0

def Waiting (ops : List ROp) (i : Nat) : Prop := ∃ o a, ops[i]? = some o ∧ o.want = some a

theorem Waits.waiting {ops : List ROp} {i j : Nat} (h : Waits ops i j) : Waiting ops i := by
  obtain ⟨oi, _, a, hi, _, ha, _⟩ := h
  exact ⟨oi, a, hi, ha⟩

theorem Path.waiting {ops : List ROp} {i k : Nat} (h : Path ops i k) : Waiting ops i := by
  cases h with
  | single hw => exact hw.waiting
  | cons hw _ => exact hw.waiting

theorem mu_bounds (o : ROp) (a : Lk × Mode) (h : o.want = some a) :
    2 * rank a.1 ≤ mu rank o ∧ mu rank o ≤ 2 * rank a.1 + 1 ∧ (a.2 = Mode.r → mu rank o = 2 * rank a.1) ∧
    (a.2 = Mode.w → mu rank o = 2 * rank a.1 + 1) := by
  obtain ⟨l, m⟩ := a
  unfold mu; rw [h]
  cases m <;> simp

/-- along a wait edge into an operation that is itself waiting, `mu` strictly grows -/
theorem waits_mu {ops : List ROp} (hord : ∀ o ∈ ops, Ordered rank o) {i j : Nat} (hw : Waits ops i j)
    (hj : Waiting ops j) : muAt rank ops i < muAt rank ops j := by
  obtain ⟨oi, oj, a, hi, hoj, ha, hb⟩ := hw
  obtain ⟨oj', b, hoj', hbj⟩ := hj
  rw [hoj] at hoj'; cases hoj'
  unfold muAt; rw [hi, hoj]; simp only []
  have bi := mu_bounds (rank := rank) oi a ha
  have bj := mu_bounds (rank := rank) oj b hbj
  rcases hb with ⟨h, hh, hl, _⟩ | ⟨hr, hwant⟩
  · have := hord oj (List.mem_of_getElem? hoj) b hbj h hh
    rw [hl] at this
    omega
  · rw [hwant] at hbj; cases hbj
    have := bi.2.2.1 hr
    have := bj.2.2.2 rfl
    simp only [] at *
    omega

theorem path_mu {ops : List ROp} (hord : ∀ o ∈ ops, Ordered rank o) {i k : Nat} (hp : Path ops i k) :
    Waiting ops k → muAt rank ops i < muAt rank ops k := by
  induction hp with
  | single hw => exact waits_mu hord hw
  | cons hw hp ih =>
    intro hk
    have h1 := waits_mu hord hw hp.waiting
    have h2 := ih hk
    omega

/-- **No wait-for cycle** among operations that keep the discipline, with read locks shared, write
locks exclusive and pending writers blocking new readers. -/
theorem no_cycle {ops : List ROp} (hord : ∀ o ∈ ops, Ordered rank o) (i : Nat) : ¬ Path ops i i := by
  intro hp
  have := path_mu hord hp hp.waiting
  omega

/-- a script whose ranks strictly increase keeps the discipline at every step -/
theorem script_ordered {script : List (Lk × Mode)}
    (h : script.Pairwise (fun a b => rank a.1 < rank b.1)) (k : Nat) : Ordered rank (atStep script k) := by
  intro a ha x hx
  simp only [atStep] at ha hx
  obtain ⟨j, hj⟩ := List.getElem?_of_mem hx
  rw [List.getElem?_take] at hj
  split at hj
  · next hjk =>
    obtain ⟨hjl, hxe⟩ := List.getElem?_eq_some_iff.mp hj
    obtain ⟨hkl, hae⟩ := List.getElem?_eq_some_iff.mp ha
    rw [← hxe, ← hae]
    exact (List.pairwise_iff_getElem.mp h) j k hjl hkl hjk
  · cases hj

theorem single_inc (a : Lk × Mode) : [a].Pairwise (fun a b => rank a.1 < rank b.1) :=
  List.pairwise_singleton _ _

theorem pair_inc {par dep : Nat → Nat} (ht : Lock.TreeOK par dep) {d c : Nat} (hc : c ≠ 0) (hp : par c = d)
    (m1 m2 : Mode) :
    [(d + 1, m1), (c + 1, m2)].Pairwise (fun a b => Lock.ldepth dep a.1 < Lock.ldepth dep b.1) := by
  have := (ht.up c hc).2
  rw [hp] at this
  simp [Lock.ldepth]
  omega

/-- **A re-entrant read lock deadlocks** as soon as a writer is pending: the reader's second RLock
waits for the pending writer, the pending writer waits for the reader's first lock. -/
theorem reentrant_read_cycle (l : Lk) :
    Path [⟨[(l, Mode.r)], some (l, Mode.r)⟩, ⟨[], some (l, Mode.w)⟩] 0 0 := by
  refine Path.cons (j := 1) ?_ (Path.single ?_)
  · exact ⟨_, _, (l, Mode.r), rfl, rfl, rfl, Or.inr ⟨rfl, rfl⟩⟩
  · exact ⟨_, _, (l, Mode.w), rfl, rfl, rfl, Or.inl ⟨(l, Mode.r), List.mem_singleton.mpr rfl, rfl, Or.inr rfl⟩⟩

/-- … and that state is what the re-entrant Seek of C13-h reaches after its first acquisition -/
theorem reentrantSeek_state (n : Nat) :
    atStep (reentrantSeekScript n) 1 = ⟨[(n + 1, Mode.r)], some (n + 1, Mode.r)⟩ := rfl

/-- its script does not keep the discipline, for any rank -/
theorem reentrantSeek_not_ordered (n : Nat) : ¬ Ordered rank (atStep (reentrantSeekScript n) 1) := by
  intro h
  have := h (n + 1, Mode.r) rfl (n + 1, Mode.r) (List.mem_singleton.mpr rfl)
  omega

end ArvVerif.C13.RW
