/-
C16, composition of part A (ChooseInstanceType) with part C (container.Queue):

* `NeedsOK`: if every polled record carries the container's own constraint vector (`needOfU uuid`),
  every cache entry was sized from its own container's constraint vector (`addedNeed`).
* `pollResultSel_need`: the records of a poll whose three list requests select the sizing
  attributes carry the constraint vector the controller has for that uuid; a request that does not
  select them yields the all-zero vector.
* `chooserOf`: the queue's type chooser as the dispatcher wires it: ChooseInstanceType over the
  cluster's table (for an iteration order of the Go map that may depend on the container).
-/
import ArvVerif.Proofs.C16_Queue
import ArvVerif.Proofs.C16
namespace ArvVerif.C16.Q
open ArvVerif.C16

/-! ### every entry is sized from its own container's constraint vector -/

def NeedsOK (needOfU : Nat → Nat) (cur : List (Nat × CEnt)) : Prop := ∀ p ∈ cur, p.2.addedNeed = needOfU p.1

theorem needsOK_setEnt {needOfU : Nat → Nat} {cur : List (Nat × CEnt)} {u : Nat} {e : CEnt}
    (h : NeedsOK needOfU cur) (he : e.addedNeed = needOfU u) : NeedsOK needOfU (setEnt cur u e) := by
  intro p hp
  rcases mem_setEnt hp with h1 | h1
  · exact h p h1
  · rw [h1]; exact he

theorem needsOK_addEnt (choose : Nat → Option Nat) (needOfU : Nat → Nat) (cur : List (Nat × CEnt)) (r : Rec)
    (hr : r.need = needOfU r.uuid) (h : NeedsOK needOfU cur) : NeedsOK needOfU (addEnt choose cur r).1 := by
  unfold addEnt
  cases choose r.need with
  | some t => exact needsOK_setEnt h hr
  | none =>
    dsimp only
    by_cases hs : r.st = .queued ∨ r.st = .locked
    · rw [if_pos hs]; exact h
    · rw [if_neg hs]; exact needsOK_setEnt h hr

theorem needsOK_applyRecs (choose : Nat → Option Nat) (needOfU : Nat → Nat) (d : Option (List Nat)) (recs : List Rec)
    (cur : List (Nat × CEnt)) (tasks : List Nat) (hr : ∀ r ∈ recs, r.need = needOfU r.uuid)
    (h : NeedsOK needOfU cur) : NeedsOK needOfU (applyRecs choose d recs cur tasks).1 := by
  induction recs generalizing cur tasks with
  | nil => exact h
  | cons r rest ih =>
    have hrest : ∀ r' ∈ rest, r'.need = needOfU r'.uuid := fun r' hr' => hr r' (List.mem_cons_of_mem _ hr')
    unfold applyRecs
    by_cases hd : inDont d r.uuid = true
    · rw [if_pos hd]; exact ih cur tasks hrest h
    · rw [if_neg hd]
      cases hl : lookup cur r.uuid with
      | none => exact ih _ _ hrest (needsOK_addEnt choose needOfU cur r (hr r List.mem_cons_self) h)
      | some e =>
        dsimp only
        apply ih _ _ hrest
        exact needsOK_setEnt h (h _ (lookup_mem hl))

/-- a history in which every poll response carries, for each record, the constraint vector of that
container -/
def FullPolls (needOfU : Nat → Nat) (ops : List QOp) : Prop :=
  ∀ next, QOp.poll next ∈ ops → ∀ r ∈ next, r.need = needOfU r.uuid

theorem needsOK_runOp (choose : Nat → Option Nat) (needOfU : Nat → Nat) (c : Cache) (op : QOp)
    (hop : ∀ next, op = QOp.poll next → ∀ r ∈ next, r.need = needOfU r.uuid)
    (h : NeedsOK needOfU c.current) : NeedsOK needOfU (runOp choose c op).current := by
  cases op with
  | begin => exact h
  | resp u st prio =>
    simp only [runOp, localResp]
    cases hl : lookup c.current u with
    | none => exact h
    | some e => exact needsOK_setEnt h (h _ (lookup_mem hl))
  | poll next =>
    simp only [runOp, applyPoll, expunge]
    intro p hp
    exact needsOK_applyRecs choose needOfU c.dontupdate next c.current [] (hop next rfl) h p (List.mem_filter.mp hp).1

theorem needsOK_runOps (choose : Nat → Option Nat) (needOfU : Nat → Nat) (ops : List QOp) (c : Cache)
    (hops : FullPolls needOfU ops) (h : NeedsOK needOfU c.current) :
    NeedsOK needOfU (runOps choose ops c).current := by
  induction ops generalizing c with
  | nil => exact h
  | cons op rest ih =>
    apply ih
    · intro next hn; exact hops next (List.mem_cons_of_mem _ hn)
    · exact needsOK_runOp choose needOfU c op (fun next hn => hops next (by rw [hn]; exact List.mem_cons_self)) h

/-! ### what `Select:` does to the polled records -/

theorem project_mem_need {sel : Bool} {l : List CRec} {r : Rec} (h : r ∈ l.map (project sel)) :
    ∃ c ∈ l, c.uuid = r.uuid ∧ r.need = (if sel then c.need else 0) := by
  rcases List.mem_map.mp h with ⟨c, hc, rfl⟩
  exact ⟨c, hc, rfl, rfl⟩

/-- every record of a poll comes from a record of the controller's snapshot with the same uuid, and
carries that record's constraint vector if the request it came from selected the sizing attributes
(and the all-zero vector if not) -/
theorem pollResultSel_need (s1 s2 s3 : Bool) (snap : Ctl) (cur : List (Nat × CEnt)) (r : Rec)
    (h : r ∈ pollResultSel s1 s2 s3 snap cur) :
    ∃ c ∈ snap, c.uuid = r.uuid ∧ (r.need = c.need ∨ ((s1 && s2 && s3) = false ∧ r.need = 0)) := by
  unfold pollResultSel at h
  simp only [List.mem_append] at h
  rcases h with (h | h) | h
  · obtain ⟨c, hc, hu, hn⟩ := project_mem_need h
    refine ⟨c, (List.mem_filter.mp hc).1, hu, ?_⟩
    cases s1 <;> simp_all
  · obtain ⟨c, hc, hu, hn⟩ := project_mem_need h
    refine ⟨c, (List.mem_filter.mp (List.mem_filter.mp hc).1).1, hu, ?_⟩
    cases s2 <;> simp_all
  · obtain ⟨c, hc, hu, hn⟩ := project_mem_need h
    refine ⟨c, (List.mem_filter.mp hc).1, hu, ?_⟩
    cases s3 <;> simp_all

/-- `poll()` as it is (all three requests select the sizing attributes): every polled record carries
the constraint vector the controller has for that uuid -/
theorem pollResult_need (snap : Ctl) (cur : List (Nat × CEnt)) (needOfU : Nat → Nat)
    (hsnap : ∀ c ∈ snap, c.need = needOfU c.uuid) :
    ∀ r ∈ pollResult snap cur, r.need = needOfU r.uuid := by
  intro r hr
  obtain ⟨c, hc, hu, hn⟩ := pollResultSel_need true true true snap cur r hr
  rcases hn with hn | ⟨hf, _⟩
  · rw [hn, hsnap c hc, hu]
  · cases hf

/-! ### the chooser as the dispatcher wires it -/

/-- `dispatcher.typeChooser` = `ChooseInstanceType(disp.Cluster, ctr)`: `decode` is the container a
constraint-vector code stands for, `orderOf` the iteration order of the Go map (may differ from
container to container); the queue keeps the returned type (here: its name) -/
def chooserOf (orderOf : Nat → List IType) (reserve : Int) (decode : Nat → Ctr) (need : Nat) : Option Nat :=
  match chooseWith (orderOf need) [] reserve (decode need) with
  | .ok it => some it.name
  | _ => none

theorem chooserOf_some {orderOf : Nat → List IType} {reserve : Int} {decode : Nat → Ctr} {need t : Nat}
    (h : chooserOf orderOf reserve decode need = some t) :
    ∃ it, chooseWith (orderOf need) [] reserve (decode need) = .ok it ∧ it.name = t := by
  unfold chooserOf at h
  split at h
  · rename_i it hit
    simp only [Option.some.injEq] at h
    exact ⟨it, hit, h⟩
  · cases h

theorem chooserOf_none {orderOf : Nat → List IType} {reserve : Int} {decode : Nat → Ctr} {need : Nat}
    (h : chooserOf orderOf reserve decode need = none) :
    ∀ it, chooseWith (orderOf need) [] reserve (decode need) ≠ .ok it := by
  unfold chooserOf at h
  intro it hit
  rw [hit] at h
  cases h

end ArvVerif.C16.Q
