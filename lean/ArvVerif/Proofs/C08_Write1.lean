/-
C08 helper lemmas, part 4: list surgery, `specWrite`, `pruneSegs`, `settleSegs`, and the second half
of a loop iteration of filenode.Write (`overwrite`).
-/
import ArvVerif.Proofs.C08_Trunc
namespace ArvVerif.C08

variable {max : Nat} {hash : Bytes → Loc} {st : Store}

/-! ### lists around a middle element -/

section Mid
variable {α : Type}

theorem take_mid (pre : List α) (x : α) (post : List α) : (pre ++ x :: post).take pre.length = pre :=
  List.take_left' rfl

theorem take_mid_succ (pre : List α) (x : α) (post : List α) :
    (pre ++ x :: post).take (pre.length + 1) = pre ++ [x] := by
  have : pre ++ x :: post = (pre ++ [x]) ++ post := by simp
  rw [this]; exact List.take_left' (by simp)

theorem drop_mid_succ (pre : List α) (x : α) (post : List α) :
    (pre ++ x :: post).drop (pre.length + 1) = post := by
  have : pre ++ x :: post = (pre ++ [x]) ++ post := by simp
  rw [this]; exact List.drop_left' (by simp)

theorem get_mid (pre : List α) (x : α) (post : List α) : (pre ++ x :: post)[pre.length]? = some x := by
  simp

theorem get_mid_succ (pre : List α) (x : α) (post : List α) :
    (pre ++ x :: post)[pre.length + 1]? = post[0]? := by
  rw [List.getElem?_append_right (by omega)]
  simp

theorem set_mid (pre : List α) (x y : α) (post : List α) :
    (pre ++ x :: post).set pre.length y = pre ++ y :: post := by
  induction pre with
  | nil => rfl
  | cons a pre ih => simp [ih]

theorem split3 (l : List α) (o k : Nat) : l = l.take o ++ (l.drop o).take k ++ l.drop (o + k) := by
  rw [List.append_assoc, ← List.drop_drop, List.take_append_drop, List.take_append_drop]

end Mid

/-! ### specWrite -/

/-- Writing `c` at offset `|X|` into `X ++ M ++ Y`, where `M` is as long as `c` (overwrite) or the
file ends at `X` (append). -/
theorem specWrite_mid (X M Y c : Bytes) (h : M.length = c.length ∨ (M = [] ∧ Y = [])) :
    specWrite (X ++ M ++ Y) X.length c = X ++ c ++ Y := by
  unfold specWrite
  have h1 : ((X ++ M ++ Y) ++ zeros (X.length - (X ++ M ++ Y).length)).take X.length = X := by
    rw [List.append_assoc, List.append_assoc]; exact List.take_left' rfl
  rw [h1]
  congr 1
  rcases h with h | ⟨hM, hY⟩
  · rw [List.append_assoc, List.drop_append, List.drop_of_length_le (by omega)]
    simp only [List.nil_append, Nat.add_sub_cancel_left]
    rw [← h]; exact List.drop_left' rfl
  · subst hM; subst hY
    simp

/-- Two consecutive chunks are one write. -/
theorem specWrite_specWrite (f : Bytes) (off : Nat) (a b : Bytes) (h : off ≤ f.length) :
    specWrite (specWrite f off a) (off + a.length) b = specWrite f off (a ++ b) := by
  unfold specWrite
  have hz : off - f.length = 0 := by omega
  simp only [hz, zeros_zero, List.append_nil]
  have hl : (f.take off ++ a ++ f.drop (off + a.length)).length ≥ off + a.length := by
    simp only [List.length_append, List.length_take, List.length_drop]; omega
  have hz2 : off + a.length - (f.take off ++ a ++ f.drop (off + a.length)).length = 0 := by omega
  rw [hz2]
  simp only [zeros_zero, List.append_nil]
  have hto : (f.take off).length = off := by simp; omega
  have e1 : (f.take off ++ a ++ f.drop (off + a.length)).take (off + a.length) = f.take off ++ a :=
    List.take_left' (by simp; omega)
  rw [e1]
  have e2 : (f.take off ++ a ++ f.drop (off + a.length)).drop (off + a.length + b.length)
      = f.drop (off + (a ++ b).length) := by
    rw [List.drop_append, List.drop_of_length_le (by simp; omega)]
    simp only [List.nil_append, List.length_append, hto, List.drop_drop]
    congr 1; omega
  rw [e2]
  simp

/-! ### same segment lengths -/

def SameLens (a b : List Seg) : Prop := a.map Seg.len = b.map Seg.len

theorem SameLens.refl (a : List Seg) : SameLens a a := rfl
theorem SameLens.symm {a b : List Seg} (h : SameLens a b) : SameLens b a := Eq.symm h
theorem SameLens.trans {a b c : List Seg} (h1 : SameLens a b) (h2 : SameLens b c) : SameLens a c :=
  Eq.trans h1 h2

theorem SameLens.length {a b : List Seg} (h : SameLens a b) : a.length = b.length := by
  have := congrArg List.length h; simpa using this

theorem SameLens.sumLen {a b : List Seg} (h : SameLens a b) : sumLen a = sumLen b := by
  unfold ArvVerif.C08.sumLen; rw [h]

theorem SameLens.take {a b : List Seg} (h : SameLens a b) (n : Nat) : SameLens (a.take n) (b.take n) := by
  unfold SameLens at *; rw [List.map_take, List.map_take, h]

theorem SameLens.get {a b : List Seg} (h : SameLens a b) (i : Nat) {s : Seg} (hs : a[i]? = some s) :
    ∃ s', b[i]? = some s' ∧ s'.len = s.len := by
  have h1 : (a.map Seg.len)[i]? = some s.len := by simp [hs]
  rw [h] at h1
  simp only [List.getElem?_map, Option.map_eq_some_iff] at h1
  obtain ⟨s', h2, h3⟩ := h1
  exact ⟨s', h2, h3⟩

theorem SameLens.pos {a b : List Seg} (h : SameLens a b) {o i off : Nat} (hp : Pos a o i off) : Pos b o i off := by
  rcases hp with ⟨h1, h2, h3⟩ | ⟨s, h1, h2, h3⟩
  · exact Or.inl ⟨by rw [← h.length]; exact h1, h2, by rw [← h.sumLen]; exact h3⟩
  · obtain ⟨s', hs', hl⟩ := h.get i h1
    exact Or.inr ⟨s', hs', by omega, by rw [← (h.take i).sumLen]; exact h3⟩

theorem SameLens.located {a b : List Seg} (h : SameLens a b) {o i off : Nat} (hp : Located a o i off) :
    Located b o i off := by
  obtain ⟨s, h1, h2, h3⟩ := hp
  obtain ⟨s', hs', hl⟩ := h.get i h1
  exact ⟨s', hs', by omega, by rw [← (h.take i).sumLen]; exact h3⟩

/-! ### pruneMemSegments -/

theorem pruneSegs_spec (hinj : Function.Injective hash) :
    ∀ (segs : List Seg) (idx : Nat) (st : Store), StoreOK hash st → (∀ s ∈ segs, SegWF max hash st s) →
      StoreExt st (pruneSegs hash max segs idx st).2 ∧ StoreOK hash (pruneSegs hash max segs idx st).2 ∧
      SameLens (pruneSegs hash max segs idx st).1 segs ∧
      (∀ s ∈ (pruneSegs hash max segs idx st).1, SegWF max hash (pruneSegs hash max segs idx st).2 s) ∧
      absSegs (pruneSegs hash max segs idx st).2 (pruneSegs hash max segs idx st).1 = absSegs st segs := by
  intro segs
  induction segs with
  | nil => intro idx st hok _; exact ⟨StoreExt.refl _, hok, rfl, by simp [pruneSegs], rfl⟩
  | cons s rest ih =>
    intro idx st hok hwf
    have hs := hwf s (List.mem_cons_self ..)
    have hrest : ∀ x ∈ rest, SegWF max hash st x := fun x hx => hwf x (List.mem_cons_of_mem _ hx)
    -- the generic "keep s, recurse with the same store" step
    have keep : pruneSegs hash max (s :: rest) idx st =
        (s :: (pruneSegs hash max rest (idx + 1) st).1, (pruneSegs hash max rest (idx + 1) st).2) →
        StoreExt st (pruneSegs hash max (s :: rest) idx st).2 ∧ StoreOK hash (pruneSegs hash max (s :: rest) idx st).2 ∧
        SameLens (pruneSegs hash max (s :: rest) idx st).1 (s :: rest) ∧
        (∀ x ∈ (pruneSegs hash max (s :: rest) idx st).1, SegWF max hash (pruneSegs hash max (s :: rest) idx st).2 x) ∧
        absSegs (pruneSegs hash max (s :: rest) idx st).2 (pruneSegs hash max (s :: rest) idx st).1
          = absSegs st (s :: rest) := by
      intro heq
      obtain ⟨h1, h2, h3, h4, h5⟩ := ih (idx + 1) st hok hrest
      rw [heq]
      refine ⟨h1, h2, ?_, ?_, ?_⟩
      · unfold SameLens at *; simp [h3]
      · intro x hx
        rcases List.mem_cons.mp hx with h | h
        · rw [h]; exact hs.ext h1
        · exact h4 x h
      · simp only [absSegs_cons, h5, hs.bytes_ext h1]
    cases s with
    | stored loc sz off l => exact keep (by simp [pruneSegs])
    | mem buf fl =>
      cases fl with
      | pending i l => exact keep (by simp [pruneSegs])
      | stale => exact keep (by simp [pruneSegs])
      | none =>
        by_cases hlt : buf.length < max
        · exact keep (by simp [pruneSegs, hlt])
        · have heq : pruneSegs hash max (Seg.mem buf Flush.none :: rest) idx st =
              (Seg.mem buf (Flush.pending idx buf.length) :: (pruneSegs hash max rest (idx + 1) (st.put hash buf)).1,
               (pruneSegs hash max rest (idx + 1) (st.put hash buf)).2) := by
            simp [pruneSegs, hlt]
          have hext := Store.put_ext hinj hok buf
          obtain ⟨h1, h2, h3, h4, h5⟩ := ih (idx + 1) (st.put hash buf) (Store.put_ok hok buf)
            (fun x hx => (hrest x hx).ext hext)
          rw [heq]
          refine ⟨hext.trans h1, h2, ?_, ?_, ?_⟩
          · unfold SameLens at *; simp [h3]
          · intro x hx
            rcases List.mem_cons.mp hx with h | h
            · rw [h]
              refine ⟨hs.1, hs.2.1, ?_⟩
              intro i l hp
              cases hp
              exact ⟨Nat.le_refl _, fun _ => h1 _ _ (Store.put_get hash st buf)⟩
            · exact h4 x h
          · simp only [absSegs_cons, Seg.bytes_mem, h5]
            rw [absSegs_ext hext hrest]

/-! ### the background goroutines: settle -/

theorem settleSegs_spec : ∀ (segs : List Seg) (i : Nat), (∀ s ∈ segs, SegWF max hash st s) →
    SameLens (settleSegs hash segs i) segs ∧ (∀ s ∈ settleSegs hash segs i, SegWF max hash st s) ∧
    absSegs st (settleSegs hash segs i) = absSegs st segs := by
  intro segs
  induction segs with
  | nil => intro i _; exact ⟨rfl, by simp [settleSegs], rfl⟩
  | cons s rest ih =>
    intro i hwf
    have hs := hwf s (List.mem_cons_self ..)
    obtain ⟨h1, h2, h3⟩ := ih (i + 1) (fun x hx => hwf x (List.mem_cons_of_mem _ hx))
    -- what happens to the head
    have head : ∃ s', settleSegs hash (s :: rest) i = s' :: settleSegs hash rest (i + 1) ∧
        s'.len = s.len ∧ SegWF max hash st s' ∧ s'.bytes st = s.bytes st := by
      cases s with
      | stored loc sz off l => exact ⟨_, by simp [settleSegs], rfl, hs, rfl⟩
      | mem buf fl =>
        cases fl with
        | none => exact ⟨_, by simp [settleSegs], rfl, hs, rfl⟩
        | stale => exact ⟨_, by simp [settleSegs], rfl, hs, rfl⟩
        | pending idx l =>
          by_cases hc : idx = i ∧ l = buf.length
          · refine ⟨Seg.stored (hash buf) buf.length 0 buf.length, by simp [settleSegs, hc], rfl, ?_, ?_⟩
            · have hb := (hs.2.2 idx l rfl).2 hc.2
              exact ⟨hs.1, by omega, buf, hb, rfl⟩
            · have hb := (hs.2.2 idx l rfl).2 hc.2
              rw [Seg.bytes_stored hb]; simp
          · refine ⟨Seg.mem buf Flush.stale, by simp [settleSegs, hc], rfl, ?_, rfl⟩
            exact ⟨hs.1, hs.2.1, fun i l h => by cases h⟩
    obtain ⟨s', he, hl, hw, hb⟩ := head
    rw [he]
    refine ⟨?_, ?_, ?_⟩
    · unfold SameLens at *; simp [h1, hl]
    · intro x hx
      rcases List.mem_cons.mp hx with h | h
      · rw [h]; exact hw
      · exact h2 x h
    · simp only [absSegs_cons, h3, hb]

end ArvVerif.C08
