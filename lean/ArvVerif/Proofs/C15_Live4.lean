/-
C15 liveness system: "every container is final" is stable under every step (faults and restarts
included).
-/
import ArvVerif.Proofs.C15_Live3
namespace ArvVerif.C15
open ArvVerif.C14 (Uuid IType)

/-- all jobs of the instance are lingering processes of final containers -/
def Inst.quiet (i : Inst) : Prop := ∀ j, i.ph.job = some j → j.ph = .done

theorem restartInst_job (i : Inst) : (restartInst i).ph.job = i.ph.job := by
  unfold restartInst
  cases hp : i.ph <;> simp [IPh.job, hp]

theorem restartCtr_fin (c : Ctr) (h : c.ph = .fin) : (restartCtr c).ph = .fin := by
  unfold restartCtr; rw [h]; exact h

theorem quiet_of_job_none (i : Inst) (h : i.ph.job = none) : i.quiet := by
  intro j hj; rw [h] at hj; cases hj

theorem quiet_setJob_absurd (i : Inst) (j : Job) (hq : i.quiet) (hj : i.ph.job = some j) (hne : j.ph ≠ .done) : False :=
  hne (hq j hj)

theorem allFinal_step {s t : LState} {a : Act} (h : Step s a t) (hA : AllFinal s) : AllFinal t := by
  obtain ⟨hc, hi⟩ := hA
  have hi' : ∀ i ∈ s.insts, i.quiet := hi
  -- a guard asking for a non-final free container is impossible
  have noctr : ∀ (pre post : List Ctr) (c : Ctr), s.ctrs = pre ++ c :: post → c.ph ≠ .fin → False := by
    intro pre post c h1 hne
    exact hne (forall_mid_x _ pre post c (h1 ▸ hc))
  -- one instance replaced by a quiet one
  have inst : ∀ (ipre ipost : List Inst) (i i' : Inst), s.insts = ipre ++ i :: ipost → (i.quiet → i'.quiet) →
      ∀ z ∈ ipre ++ i' :: ipost, z.quiet := by
    intro ipre ipost i i' h1 hq
    exact forall_mid _ ipre ipost i i' (h1 ▸ hi') (hq (forall_mid_x _ ipre ipost i (h1 ▸ hi')))
  -- a guard asking for an unfinished job is impossible
  have nojob : ∀ (ipre ipost : List Inst) (i : Inst) (j : Job), s.insts = ipre ++ i :: ipost → i.ph.job = some j →
      j.ph ≠ .done → False := by
    intro ipre ipost i j h1 hj hne
    have hq : i.quiet := forall_mid_x _ ipre ipost i (h1 ▸ hi')
    exact hne (hq j hj)
  cases h with
  | lock pre post c h1 h2 _ _ => exact (noctr pre post c h1 (by rw [h2]; decide)).elim
  | lockQ pre post c h1 h2 _ _ => exact (noctr pre post c h1 (by rw [h2]; decide)).elim
  | unlockQ pre post c h1 h2 _ _ => exact (noctr pre post c h1 (by rw [h2]; decide)).elim
  | requeue pre post c h1 h2 _ => exact (noctr pre post c h1 (by rw [h2]; decide)).elim
  | cancel pre post c h1 h2 _ _ => exact (noctr pre post c h1 (by rw [h2]; decide)).elim
  | staleResolve pre post c u h1 h2 _ => exact (noctr pre post c h1 (by rw [h2]; decide)).elim
  | start pre post c ipre ipost i h1 h2 _ _ _ _ _ => exact (noctr pre post c h1 (by rw [h2]; decide)).elim
  | create t _ _ _ _ =>
    refine ⟨hc, ?_⟩
    intro z hz
    simp only [List.mem_append, List.mem_cons, List.not_mem_nil, or_false] at hz
    rcases hz with hz | hz
    · exact hi z hz
    · rw [hz]; intro j hj; simp [IPh.job] at hj
  | recoveryDone _ _ => exact ⟨hc, hi⟩
  | quotaExpire _ => exact ⟨hc, hi⟩
  | idle => exact ⟨hc, hi⟩
  | hiccup _ => exact ⟨hc, hi⟩
  | boot ipre ipost i h1 _ _ => exact ⟨hc, inst ipre ipost i _ h1 (fun _ => quiet_of_job_none _ rfl)⟩
  | probeUnknown ipre ipost i j h1 h2 _ =>
    refine ⟨hc, inst ipre ipost i _ h1 ?_⟩
    intro hq j' hj'
    exact hq j' (by simpa [h2, IPh.job] using hj')
  | jobGone ipre ipost i j g h1 _ _ _ => exact ⟨hc, inst ipre ipost i _ h1 (fun _ => quiet_of_job_none _ rfl)⟩
  | idleTimeout ipre ipost i h1 _ _ _ => exact ⟨hc, inst ipre ipost i _ h1 (fun _ => quiet_of_job_none _ rfl)⟩
  | drainShutdown ipre ipost i h1 _ _ => exact ⟨hc, inst ipre ipost i _ h1 (fun _ => quiet_of_job_none _ rfl)⟩
  | quotaShutdown ipre ipost i h1 _ _ => exact ⟨hc, inst ipre ipost i _ h1 (fun _ => quiet_of_job_none _ rfl)⟩
  | createDone ipre ipost i h1 _ => exact ⟨hc, inst ipre ipost i _ h1 (fun _ => quiet_of_job_none _ rfl)⟩
  | createFail ipre ipost i q _ h1 _ => exact ⟨hc, inst ipre ipost i _ h1 (fun _ => quiet_of_job_none _ rfl)⟩
  | brokenTimeout ipre ipost i j h1 h2 _ =>
    refine ⟨hc, inst ipre ipost i _ h1 ?_⟩
    intro hq j' hj'
    rcases h2 with ⟨_, rfl⟩ | h2 | h2
    · simp [IPh.job] at hj'
    · exact hq j' (by simpa [h2, IPh.job] using hj')
    · exact hq j' (by simpa [h2, IPh.job] using hj')
  | destroyRetry ipre ipost i j h1 h2 =>
    refine ⟨hc, inst ipre ipost i _ h1 ?_⟩
    intro hq j' hj'
    exact hq j' (by simpa [h2, IPh.job] using hj')
  | destroyFail ipre ipost i j _ h1 h2 =>
    refine ⟨hc, inst ipre ipost i _ h1 ?_⟩
    intro hq j' hj'
    exact hq j' (by simpa [h2, IPh.job] using hj')
  | breakInst ipre ipost i _ h1 => exact ⟨hc, inst ipre ipost i _ h1 (fun hq => hq)⟩
  | drainInst ipre ipost i _ h1 _ => exact ⟨hc, inst ipre ipost i _ h1 (fun hq => hq)⟩
  | exec ipre ipost i j h1 h2 _ h4 =>
    exact (nojob ipre ipost i j h1 (by rcases h2 with h2 | h2 <;> simp [h2, IPh.job]) (by rw [h4]; decide)).elim
  | apiRun ipre ipost i j h1 h2 h4 => exact (nojob ipre ipost i j h1 h2 (by rw [h4]; decide)).elim
  | complete ipre ipost i j h1 h2 h4 => exact (nojob ipre ipost i j h1 h2 (by rw [h4]; decide)).elim
  | crashL ipre ipost i j _ h1 h2 h4 =>
    exact (nojob ipre ipost i j h1 h2 (by rcases h4 with h4 | h4 <;> (rw [h4]; decide))).elim
  | crashR ipre ipost i j _ h1 h2 h4 => exact (nojob ipre ipost i j h1 h2 (by rw [h4]; decide)).elim
  | noticeDead ipre ipost i j h1 h2 _ h4 =>
    exact (nojob ipre ipost i j h1 (by simp [h2, IPh.job]) (by rcases h4 with h4 | h4 <;> (rw [h4]; decide))).elim
  | destroyOk ipre ipost i j h1 h2 =>
    have hq := forall_mid_x _ ipre ipost i (h1 ▸ hi')
    have hrel : released i.ty j = [] := by
      cases j with
      | none => rfl
      | some j =>
        have := hq j (by simp [h2, IPh.job])
        simp [released, this]
    refine ⟨?_, inst ipre ipost i _ h1 (fun _ => quiet_of_job_none _ rfl)⟩
    rw [hrel, List.append_nil]
    exact hc
  | restart _ =>
    refine ⟨?_, ?_⟩
    · intro z hz
      obtain ⟨c, hc', rfl⟩ := List.mem_map.mp hz
      exact restartCtr_fin c (hc c hc')
    · intro z hz j hj
      obtain ⟨i, hi'', rfl⟩ := List.mem_map.mp hz
      rw [restartInst_job] at hj
      exact hi i hi'' j hj

end ArvVerif.C15
