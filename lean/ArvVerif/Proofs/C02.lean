/-
C02 helper lemmas, part 1: the finite map, well-formedness (one entry per path), and steps that do
not touch a given path.
-/
import ArvVerif.Model.C02
namespace ArvVerif.C02

/-! ### lookup / set / erase -/

theorem lookupP_filter_ne {p q : Path} (l : List (Path × File)) (h : p ≠ q) :
    lookupP p (l.filter (fun e => !decide (e.1 = q))) = lookupP p l := by
  induction l with
  | nil => rfl
  | cons e rest ih =>
    obtain ⟨r, f⟩ := e
    by_cases hr : r = q
    · subst hr
      have : r ≠ p := fun h' => h h'.symm
      simp_all [List.filter, lookupP]
    · by_cases hp : r = p
      · subst hp; simp [List.filter, hr, lookupP]
      · simp_all [List.filter, lookupP]

theorem lookupP_filter_self (q : Path) (l : List (Path × File)) :
    lookupP q (l.filter (fun e => !decide (e.1 = q))) = none := by
  induction l with
  | nil => rfl
  | cons e rest ih =>
    obtain ⟨r, f⟩ := e
    by_cases hr : r = q
    · simp_all [List.filter]
    · simp_all [List.filter, lookupP]

theorem lookupP_mem {p : Path} {f : File} : ∀ {l : List (Path × File)}, lookupP p l = some f → (p, f) ∈ l
  | [], h => by simp [lookupP] at h
  | (q, g) :: rest, h => by
    by_cases hq : q = p
    · subst hq; simp [lookupP] at h; subst h; exact List.mem_cons_self
    · simp [lookupP, hq] at h; exact List.mem_cons_of_mem _ (lookupP_mem h)

@[simp] theorem get_set_eq (fs : FS) (p : Path) (f : File) : (fs.set p f).get p = some f := by
  simp [FS.get, FS.set, lookupP]

theorem get_set_ne (fs : FS) {p q : Path} (f : File) (h : p ≠ q) : (fs.set q f).get p = fs.get p := by
  have : q ≠ p := fun h' => h h'.symm
  simp [FS.get, FS.set, lookupP, this, lookupP_filter_ne _ h]

@[simp] theorem get_erase_eq (fs : FS) (p : Path) : (fs.erase p).get p = none := by
  simp [FS.get, FS.erase, lookupP_filter_self]

theorem get_erase_ne (fs : FS) {p q : Path} (h : p ≠ q) : (fs.erase q).get p = fs.get p := by
  simp [FS.get, FS.erase, lookupP_filter_ne _ h]

theorem get_some_mem {fs : FS} {p : Path} {f : File} (h : fs.get p = some f) : (p, f) ∈ fs.files :=
  lookupP_mem h

theorem mem_erase {fs : FS} {q : Path} {e : Path × File} (h : e ∈ (fs.erase q).files) :
    e ∈ fs.files ∧ e.1 ≠ q := by
  simpa [FS.erase, List.mem_filter] using h

theorem mem_set {fs : FS} {q : Path} {g : File} {e : Path × File} (h : e ∈ (fs.set q g).files) :
    e = (q, g) ∨ (e ∈ fs.files ∧ e.1 ≠ q) := by
  simpa [FS.set, List.mem_filter] using h

/-! ### one entry per path -/

def WF (fs : FS) : Prop := (fs.files.map (·.1)).Nodup

theorem wf_empty : WF FS.empty := by simp [WF, FS.empty]

theorem wf_erase {fs : FS} (h : WF fs) (q : Path) : WF (fs.erase q) := by
  unfold WF FS.erase at *
  simp only
  exact (List.Nodup.sublist ((List.filter_sublist).map _) h)

theorem wf_set {fs : FS} (h : WF fs) (q : Path) (g : File) : WF (fs.set q g) := by
  have h1 := wf_erase h q
  unfold WF FS.set FS.erase at *
  simp only [List.map_cons, List.nodup_cons]
  refine ⟨?_, h1⟩
  intro hm
  obtain ⟨e, he, heq⟩ := List.mem_map.1 hm
  simp [List.mem_filter] at he
  exact he.2 heq

theorem lookupP_of_mem_nodup {p : Path} {f : File} :
    ∀ {l : List (Path × File)}, (l.map (·.1)).Nodup → (p, f) ∈ l → lookupP p l = some f
  | [], _, h => by simp at h
  | (q, g) :: rest, hn, h => by
    simp only [List.map_cons, List.nodup_cons] at hn
    rcases List.mem_cons.1 h with h | h
    · cases h; simp [lookupP]
    · have : q ≠ p := by
        intro hq; subst hq
        exact hn.1 (List.mem_map.2 ⟨(q, f), h, rfl⟩)
      simp [lookupP, this, lookupP_of_mem_nodup hn.2 h]

theorem get_of_mem {fs : FS} (h : WF fs) {p : Path} {f : File} (hm : (p, f) ∈ fs.files) :
    fs.get p = some f := lookupP_of_mem_nodup h hm

theorem wf_apply {fs : FS} (h : WF fs) (s : Step) : WF (s.apply fs) := by
  cases s with
  | nop => exact h
  | mkdirAll d => simp only [Step.apply]; split <;> exact h
  | createTemp p t => exact wf_set h _ _
  | append p c => simp only [Step.apply]; split <;> first | exact wf_set h _ _ | exact h
  | chtimes p t => simp only [Step.apply]; split <;> first | exact wf_set h _ _ | exact h
  | rename a b => simp only [Step.apply]; split <;> first | exact wf_set (wf_erase h _) _ _ | exact h
  | remove p => exact wf_erase h _

@[simp] theorem run_nil (fs : FS) : run fs [] = fs := rfl
@[simp] theorem run_cons (fs : FS) (e : Ev) (es : List Ev) : run fs (e :: es) = run (e.eff.apply fs) es := rfl
theorem run_append (fs : FS) (a b : List Ev) : run fs (a ++ b) = run (run fs a) b := by
  simp [run, List.foldl_append]

theorem wf_run {fs : FS} (h : WF fs) (evs : List Ev) : WF (run fs evs) := by
  induction evs generalizing fs with
  | nil => exact h
  | cons e es ih => exact ih (wf_apply h _)

/-! ### steps that leave a path alone -/

/-- `s` cannot change what is stored at `p`. -/
def Step.avoids (p : Path) : Step → Prop
  | .nop => True
  | .mkdirAll _ => True
  | .createTemp q _ => q ≠ p
  | .append q _ => q ≠ p
  | .chtimes q _ => q ≠ p
  | .rename a b => a ≠ p ∧ b ≠ p
  | .remove q => q ≠ p

theorem get_apply_of_avoids {p : Path} {s : Step} (h : s.avoids p) (fs : FS) :
    (s.apply fs).get p = fs.get p := by
  cases s with
  | nop => rfl
  | mkdirAll d => simp only [Step.apply]; split <;> rfl
  | createTemp q t => exact get_set_ne _ _ (Ne.symm h)
  | append q c =>
    simp only [Step.apply]; split
    · exact get_set_ne _ _ (Ne.symm h)
    · rfl
  | chtimes q t =>
    simp only [Step.apply]; split
    · exact get_set_ne _ _ (Ne.symm h)
    · rfl
  | rename a b =>
    simp only [Step.apply]; split
    · rw [get_set_ne _ _ (Ne.symm h.2), get_erase_ne _ (Ne.symm h.1)]
    · rfl
  | remove q => exact get_erase_ne _ (Ne.symm h)

theorem get_run_of_avoids {p : Path} {evs : List Ev} (h : ∀ e ∈ evs, e.eff.avoids p) (fs : FS) :
    (run fs evs).get p = fs.get p := by
  induction evs generalizing fs with
  | nil => rfl
  | cons e es ih =>
    rw [run_cons, ih (fun e' he' => h e' (List.mem_cons_of_mem _ he')), get_apply_of_avoids (h e List.mem_cons_self)]

theorem avoids_take {p : Path} {evs : List Ev} (h : ∀ e ∈ evs, e.eff.avoids p) (k : Nat) :
    ∀ e ∈ evs.take k, e.eff.avoids p := fun e he => h e (List.mem_of_mem_take he)

/-! ### names -/

theorem isHex_t : isHex 't' = false := by decide

theorem tmpName_head (h sfx : Name) : tmpName h sfx = 't' :: ('m' :: 'p' :: (h ++ sfx)) := by
  simp [tmpName, tmpPrefix]

theorem tmp_not_blockName (h sfx : Name) : isBlockName (tmpName h sfx) = false := by
  simp [tmpName_head, isBlockName, List.all_cons, isHex_t]

theorem tmp_not_trashLike (h sfx : Name) : isTrashLike (tmpName h sfx) = false := by
  simp [tmpName_head, isTrashLike, isBlockName, List.take, List.all_cons, isHex_t]

theorem tmp_not_trashName (h sfx : Name) : isTrashName (tmpName h sfx) = false := by
  simp [isTrashName, tmp_not_trashLike]

theorem tmpPath_ne_blockPath (h sfx : Name) : tmpPath h sfx ≠ blockPath h := by
  intro he
  have : (tmpName h sfx).length = h.length := by
    have := congrArg (fun p => p.name.length) he
    simpa [tmpPath, blockPath] using this
  simp [tmpName, tmpPrefix] at this
  omega

/-! ### steps that are local to one file -/

/-- `s` reads and writes nothing but the file at `p` -/
def LocalAt (p : Path) : Step → Prop
  | .nop => True
  | .mkdirAll _ => True
  | .createTemp q _ => q = p
  | .append q _ => q = p
  | .chtimes q _ => q = p
  | .remove q => q = p
  | .rename _ _ => False

/-- what a local step does to the file at its path -/
def localStep : Step → Option File → Option File
  | .createTemp _ t, _ => some ⟨[], t⟩
  | .append _ c, some f => some ⟨f.data ++ c, f.mtime⟩
  | .chtimes _ t, some f => some ⟨f.data, t⟩
  | .remove _, _ => none
  | _, x => x

theorem local_avoids {p q : Path} (hne : p ≠ q) {s : Step} (h : LocalAt p s) : s.avoids q := by
  cases s <;> simp_all [LocalAt, Step.avoids]

theorem get_apply_local {p : Path} {s : Step} (h : LocalAt p s) (fs : FS) :
    (s.apply fs).get p = localStep s (fs.get p) := by
  cases s with
  | nop => rfl
  | mkdirAll d => simp only [Step.apply]; split <;> rfl
  | createTemp q t => cases h; simp [Step.apply, localStep]
  | append q c =>
    cases h
    simp only [Step.apply]
    cases hg : fs.get p with
    | none => simp [localStep, hg]
    | some f => simp [localStep]
  | chtimes q t =>
    cases h
    simp only [Step.apply]
    cases hg : fs.get p with
    | none => simp [localStep, hg]
    | some f => simp [localStep]
  | rename a b => cases h
  | remove q => cases h; simp [Step.apply, localStep]

end ArvVerif.C02
