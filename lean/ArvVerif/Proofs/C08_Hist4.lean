/-
C08 helper lemmas, part 13: per-operation refinement of `step` for every operation except the
reads and the flushes (those are in C08_Hist5).
-/
import ArvVerif.Proofs.C08_Hist3
namespace ArvVerif.C08

variable {max : Nat} {hash : Bytes → Loc}

theorem doOpen_ref (hmax : 1 ≤ max) {s : CFS} (hinv : Inv max hash s) (h : Nat) (path : String) (acc : Nat)
    (app cre excl trunc sync dirPerm : Bool) :
    Ref3 max hash (doOpen (concImpl hash max) s h path acc app cre excl trunc sync dirPerm)
      (doOpen specImpl (absFS s) h path acc app cre excl trunc sync dirPerm) := by
  unfold doOpen
  obtain ⟨h1, h2, h3⟩ := openFile_ref hmax hinv path acc app cre excl trunc sync dirPerm
  generalize openFile (concImpl hash max) s path acc app cre excl trunc sync dirPerm = a at h1 h2 h3
  generalize openFile specImpl (absFS s) path acc app cre excl trunc sync dirPerm = b at h1 h3
  obtain ⟨a1, a2⟩ := a
  obtain ⟨b1, b2⟩ := b
  simp only [] at h1 h2 h3
  rcases h3 with ⟨e, e1, e2⟩ | ⟨hd, e1, e2, e3, e4⟩
  · subst e1; subst e2
    exact ⟨rfl, h1, h2⟩
  · subst e1; subst e2
    simp only []
    refine ⟨rfl, by rw [setHandle_abs, h1], ?_⟩
    apply h2.setHandle
    intro f hf
    obtain ⟨nf, hnf⟩ := e4 f hf
    exact ⟨nf, hnf, by rw [e3]; exact h2.ptr0 hnf⟩

theorem seekTo_off (p : Ptr) (t : Nat) : (p.seekTo t).off = t := by
  unfold Ptr.seekTo
  split
  · rfl
  · next h => simp at h; exact h.symm

theorem seekTo_ok {fn : FileNode} {p : Ptr} (hrep : 0 ≤ fn.repacked) (hp : PtrOK fn p) (t : Nat) :
    PtrOK fn (p.seekTo t) := by
  unfold Ptr.seekTo
  split
  · exact ⟨by show (-1 : Int) ≤ fn.repacked; omega, fun h => by simp only [] at h; omega⟩
  · exact hp

/-- the refinement statement for one operation -/
def StepRef (max : Nat) (hash : Bytes → Loc) (s : CFS) (op : Op) : Prop :=
  Ref3 max hash (step (concImpl hash max) s op) (step specImpl (absFS s) op)

theorem step_open (hmax : 1 ≤ max) {s : CFS} (hinv : Inv max hash s) (h : Nat) (path : String) (acc : Nat)
    (app cre excl trunc sync dirPerm : Bool) :
    StepRef max hash s (Op.openF h path acc app cre excl trunc sync dirPerm) :=
  doOpen_ref hmax hinv h path acc app cre excl trunc sync dirPerm

theorem step_create (hmax : 1 ≤ max) {s : CFS} (hinv : Inv max hash s) (h : Nat) (path : String) :
    StepRef max hash s (Op.create h path) :=
  doOpen_ref hmax hinv h path 2 false true false true false false

theorem step_mkdir {s : CFS} (hinv : Inv max hash s) (path : String) : StepRef max hash s (Op.mkdir path) :=
  doMkdir_ref hinv path

theorem step_rename {s : CFS} (hinv : Inv max hash s) (a b : String) : StepRef max hash s (Op.rename a b) :=
  doRename_ref hinv a b

theorem step_remove {s : CFS} (hinv : Inv max hash s) (path : String) : StepRef max hash s (Op.remove path) :=
  doRemove_ref hinv path false

theorem step_removeAll {s : CFS} (hinv : Inv max hash s) (path : String) : StepRef max hash s (Op.removeAll path) :=
  doRemove_ref hinv path true

theorem step_stat {s : CFS} (hinv : Inv max hash s) (path : String) : StepRef max hash s (Op.stat path) := by
  unfold StepRef step
  simp only [absFS_ents, absFS_dirs]
  cases walk s.ents s.dirs (Node.dir 0) (splitPath path) with
  | error e => exact Ref3.same hinv _
  | ok n =>
    simp only [infoOf_abs hinv]
    exact Ref3.same hinv _

theorem step_readdir (hmax : 1 ≤ max) {s : CFS} (hinv : Inv max hash s) (path : String) :
    StepRef max hash s (Op.readdir path) := by
  unfold StepRef step
  simp only []
  obtain ⟨h1, h2, h3⟩ := openFile_ref hmax hinv path 0 false false false false false false
  generalize openFile (concImpl hash max) s path 0 false false false false false false = a at h1 h2 h3
  generalize openFile specImpl (absFS s) path 0 false false false false false false = b at h1 h3
  obtain ⟨a1, a2⟩ := a
  obtain ⟨b1, b2⟩ := b
  simp only [] at h1 h2 h3
  rcases h3 with ⟨e, e1, e2⟩ | ⟨hd, e1, e2, e3, e4⟩
  · subst e1; subst e2
    exact Ref3.same hinv _
  · subst e1; subst e2
    simp only [absH_node]
    cases hd.node with
    | file f => exact Ref3.same hinv _
    | dir d =>
      simp only [listingOf_abs hinv]
      exact Ref3.same hinv _

theorem step_close {s : CFS} (hinv : Inv max hash s) (h : Nat) : StepRef max hash s (Op.close h) := by
  unfold StepRef step
  simp only [getHandle_abs]
  cases getHandle s h with
  | none => exact Ref3.same hinv _
  | some hd =>
    simp only [Option.map_some]
    refine ⟨rfl, ?_, hinv.closeHandle h⟩
    simp only [absFS, absHandles, List.filter_map]
    rfl

theorem step_hstat {s : CFS} (hinv : Inv max hash s) (h : Nat) : StepRef max hash s (Op.hstat h) := by
  unfold StepRef step
  simp only [getHandle_abs]
  cases getHandle s h with
  | none => exact Ref3.same hinv _
  | some hd =>
    simp only [Option.map_some, absH_node, infoOf_abs hinv]
    exact Ref3.same hinv _

theorem step_hreaddir {s : CFS} (hinv : Inv max hash s) (h : Nat) : StepRef max hash s (Op.hreaddir h) := by
  unfold StepRef step
  simp only [getHandle_abs]
  cases getHandle s h with
  | none => exact Ref3.same hinv _
  | some hd =>
    simp only [Option.map_some, absH_node]
    cases hd.node with
    | file f => exact Ref3.same hinv _
    | dir d =>
      simp only [listingOf_abs hinv]
      exact Ref3.same hinv _

theorem getHandle_mem {s : CFS} {h : Nat} {hd : Handle Ptr} (hg : getHandle s h = some hd) :
    ∃ e ∈ s.handles, e.2 = hd := by
  unfold getHandle at hg
  cases hf : s.handles.find? (fun e => e.1 == h) with
  | none => rw [hf] at hg; cases hg
  | some e =>
    rw [hf] at hg
    simp only [Option.map_some, Option.some.injEq] at hg
    exact ⟨e, List.mem_of_find?_eq_some hf, hg⟩

theorem step_trunc (hmax : 1 ≤ max) {s : CFS} (hinv : Inv max hash s) (h size : Nat) :
    StepRef max hash s (Op.trunc h size) := by
  unfold StepRef step
  simp only [getHandle_abs]
  cases getHandle s h with
  | none => exact Ref3.same hinv _
  | some hd =>
    simp only [Option.map_some, absH_node]
    cases hd.node with
    | dir d => exact Ref3.same hinv _
    | file f =>
      simp only [absFS_files, absFiles_get]
      cases hf : s.files[f]? with
      | none => exact Ref3.same hinv _
      | some nf =>
        obtain ⟨c', t1, t2⟩ := conc_trunc hmax hinv hf size
        obtain ⟨r1, r2⟩ := setFile_trunc_ref hmax hinv hf t2
        simp only [Option.map_some, t1]
        exact ⟨rfl, r1, r2⟩

theorem step_seek {s : CFS} (hinv : Inv max hash s) (h : Nat) (off : Int) (whence : Nat) :
    StepRef max hash s (Op.seek h off whence) := by
  unfold StepRef step
  simp only [getHandle_abs]
  cases hg : getHandle s h with
  | none => exact Ref3.same hinv _
  | some hd =>
    simp only [Option.map_some, absH_node, nodeSize_abs hinv]
    have hoff : specImpl.off (absH hd).ptr = (concImpl hash max).off hd.ptr := rfl
    rw [hoff]
    refine Ref3.ite (Ref3.same hinv _) ?_
    refine ⟨rfl, ?_, ?_⟩
    · rw [setHandle_abs]
      congr 1
      simp only [absH]
      congr 1
      exact seekTo_off _ _
    · apply hinv.setHandle
      intro f hf
      obtain ⟨e, he, heq⟩ := getHandle_mem hg
      obtain ⟨nf, hnf, hp⟩ := hinv.handles e he f (by rw [heq]; exact hf)
      refine ⟨nf, hnf, ?_⟩
      rw [heq] at hp
      exact seekTo_ok (hinv.files nf (List.mem_of_getElem? hnf)).2 hp _

/-! ### write -/

theorem absFiles_ext {st st' : Store} {files : List (String × FileNode)} (he : StoreExt st st')
    (h : ∀ nf ∈ files, WF max hash st nf.2) : absFiles st' files = absFiles st files := by
  unfold absFiles
  apply List.map_congr_left
  intro nf hnf
  rw [(h nf hnf).abs_ext he]

theorem Inv.ext_world {s : CFS} (hinv : Inv max hash s) {st' : Store} (he : StoreExt s.world st')
    (hok : StoreOK hash st') : Inv max hash { s with world := st' } :=
  ⟨hok, fun nf hnf => ⟨(hinv.files nf hnf).1.ext he, (hinv.files nf hnf).2⟩, hinv.handles, hinv.ents⟩

theorem absFS_ext_world {s : CFS} (hinv : Inv max hash s) {st' : Store} (he : StoreExt s.world st') :
    absFS { s with world := st' } = absFS s := by
  simp only [absFS]
  rw [absFiles_ext he (fun nf hnf => (hinv.files nf hnf).1)]

theorem step_write (hinj : Function.Injective hash) (hmax : 1 ≤ max) {s : CFS} (hinv : Inv max hash s)
    (h : Nat) (data : Bytes) : StepRef max hash s (Op.write h data) := by
  unfold StepRef step
  simp only [getHandle_abs]
  cases hg : getHandle s h with
  | none => exact Ref3.same hinv _
  | some hd =>
    simp only [Option.map_some, absH_node]
    have hwr : (absH hd).wr = hd.wr := rfl
    rw [hwr]
    refine Ref3.ite (Ref3.same hinv _) ?_
    cases hnode : hd.node with
    | dir d =>
      simp only []
      refine ⟨rfl, by rw [setHandle_abs]; rfl, ?_⟩
      apply hinv.setHandle
      intro f hf; simp at hf
    | file f =>
      simp only [absFS_files, absFiles_get]
      cases hf : s.files[f]? with
      | none => exact Ref3.same hinv _
      | some nf =>
        simp only [Option.map_some]
        obtain ⟨hwf, hrep⟩ := hinv.files nf (List.mem_of_getElem? hf)
        obtain ⟨e, he, heq⟩ := getHandle_mem hg
        obtain ⟨nf', hnf', hp⟩ := hinv.handles e he f (by rw [heq]; exact hnode)
        rw [hf] at hnf'; cases hnf'
        rw [heq] at hp
        -- the start pointer
        obtain ⟨p0, hp0⟩ : ∃ p0, p0 = (if hd.app = true then appendPtr nf.2 else hd.ptr) := ⟨_, rfl⟩
        have hp0ok : PtrOK nf.2 p0 := by
          rw [hp0]; split
          · exact appendPtr_ok _
          · exact hp
        obtain ⟨w, hw1, hw2⟩ := write_spec hinj hmax hinv.ok hwf hrep hp0ok data
        obtain ⟨s1, s2, s3, s4, s5⟩ := settle_spec hw2.wf
        have hcw : (concImpl hash max).write s.world nf.2 hd.ptr hd.app data =
            Except.ok (w.st, settle hash w.fn, w.ptr, data.length) := by
          show (match write hash max s.world nf.2 (if hd.app = true then appendPtr nf.2 else hd.ptr) data with
            | WriteRes.done w n => pure (w.st, settle hash w.fn, w.ptr, n)
            | WriteRes.panic => throw Err.panic
            | WriteRes.hang => throw Err.hang) = _
          rw [← hp0, hw1]; rfl
        have hsw : specImpl.write () (abs s.world nf.2) (absH hd).ptr (absH hd).app data =
            Except.ok ((), specWrite (abs s.world nf.2) p0.off data, p0.off + data.length, data.length) := by
          show Except.ok ((), specWrite (abs s.world nf.2) (if hd.app = true then (abs s.world nf.2).length else hd.ptr.off) data,
            (if hd.app = true then (abs s.world nf.2).length else hd.ptr.off) + data.length, data.length) = _
          have : (if hd.app = true then (abs s.world nf.2).length else hd.ptr.off) = p0.off := by
            rw [hp0]; split
            · rw [hwf.abs_length]; rfl
            · rfl
          rw [this]
        rw [hcw]
        have hsw' : specImpl.write (absFS s).world (abs s.world nf.2) (absH hd).ptr (absH hd).app data = _ := hsw
        rw [hsw']
        simp only []
        -- the state after the write
        have hinv1 : Inv max hash { s with world := w.st } := hinv.ext_world hw2.ext hw2.ok
        have hf1 : ({ s with world := w.st } : CFS).files[f]? = some nf := hf
        have hinv2 : Inv max hash (setFile { s with world := w.st } f (settle hash w.fn)) := by
          apply hinv1.setFile f _ s1 (by rw [s4]; exact hw2.rep)
          intro nf' hnf' q hq
          rw [hf1] at hnf'; cases hnf'
          exact s5 q (hw2.others q hq)
        refine ⟨rfl, ?_, ?_⟩
        · rw [setHandle_abs, setFile_abs, absFS_ext_world hinv hw2.ext]
          show setHandle (setFile (absFS s) f (abs w.st (settle hash w.fn))) h _ =
            setHandle (setFile (absFS s) f _) h _
          rw [s2, hw2.abs_eq]
          congr 1
          simp only [absH, hw2.off]
        · apply hinv2.setHandle
          intro f' hf'
          have : f' = f := by
            have h1 : Node.file f = Node.file f' := hf'
            cases h1; rfl
          subst this
          have hlt : f' < s.files.length := by
            apply Classical.byContradiction; intro hn
            rw [List.getElem?_eq_none (by omega)] at hf; cases hf
          refine ⟨(nf.1, settle hash w.fn), ?_, s5 _ hw2.ptr_ok⟩
          unfold setFile
          rw [hf1]
          exact List.getElem?_set_self hlt

end ArvVerif.C08
