/-
C10 — `replace_range` (Python range mapper): pointwise semantics. `pyrAt rs p` says where byte `p` of the file
lives; the theorem is that after `replace_range` every position inside the written range lives in the new
segment and every other position lives where it lived before, and that the list stays contiguous.
-/
import ArvVerif.Model.C10_PyReplace
import ArvVerif.Proofs.C10_FirstBlock
namespace ArvVerif.C10

/-- the segments are contiguous and start at `s` (zero-length segments allowed) -/
def ContigFrom : Nat → List PyR → Prop
  | _, [] => True
  | s, r :: rest => r.start = s ∧ ContigFrom (s + r.size) rest

def totalR (rs : List PyR) : Nat := (rs.map (·.size)).sum

theorem totalR_cons (r : PyR) (rs : List PyR) : totalR (r :: rs) = r.size + totalR rs := by
  simp [totalR]

theorem totalR_single (r : PyR) : totalR [r] = r.size := by simp [totalR]

theorem totalR_append (a b : List PyR) : totalR (a ++ b) = totalR a + totalR b := by
  simp [totalR]

theorem contigFrom_append : ∀ (a b : List PyR) (s : Nat),
    ContigFrom s (a ++ b) ↔ ContigFrom s a ∧ ContigFrom (s + totalR a) b
  | [], b, s => by simp [ContigFrom, totalR]
  | r :: a, b, s => by
    simp only [List.cons_append, ContigFrom, totalR_cons]
    rw [contigFrom_append a b (s + r.size), Nat.add_assoc, and_assoc]

/-- before the first segment nothing lives -/
theorem pyrAt_none_lt : ∀ (rs : List PyR) (s p : Nat), ContigFrom s rs → p < s → pyrAt rs p = none
  | [], _, _, _, _ => rfl
  | r :: rest, s, p, hc, hp => by
    obtain ⟨h1, h2⟩ := hc
    have := pyrAt_none_lt rest (s + r.size) p h2 (by omega)
    simp only [pyrAt, this]
    rw [if_neg (by omega)]

/-- beyond the last segment nothing lives -/
theorem pyrAt_none_ge : ∀ (rs : List PyR) (s p : Nat), ContigFrom s rs → s + totalR rs ≤ p → pyrAt rs p = none
  | [], _, _, _, _ => rfl
  | r :: rest, s, p, hc, hp => by
    obtain ⟨h1, h2⟩ := hc
    rw [totalR_cons] at hp
    have := pyrAt_none_ge rest (s + r.size) p h2 (by omega)
    simp only [pyrAt, this]
    rw [if_neg (by omega)]

theorem pyrAt_append : ∀ (a b : List PyR) (p : Nat),
    pyrAt (a ++ b) p = match pyrAt a p with | some x => some x | none => pyrAt b p
  | [], b, p => rfl
  | r :: a, b, p => by
    simp only [List.cons_append, pyrAt]
    by_cases h : r.start ≤ p ∧ p < r.start + r.size
    · rw [if_pos h, if_pos h]
    · rw [if_neg h, if_neg h]; exact pyrAt_append a b p

/-! ## the loop -/

/-- **tail phase** (every remaining segment starts after `ns`): segments are deleted or shrunk up to `ne` -/
theorem rrLoop_tail (ns ne : Nat) (new : PyR) : ∀ (tail : List PyR) (s : Nat), ContigFrom s tail → ns < s →
    (∀ p, pyrAt (rrLoop ns ne new tail) p = if p < ne then none else pyrAt tail p) ∧
    (s ≤ ne → ContigFrom ne (rrLoop ns ne new tail) ∧ ne + totalR (rrLoop ns ne new tail) = max ne (s + totalR tail))
  | [], s, _, _ => by
    refine ⟨fun p => by simp [rrLoop, pyrAt], fun h => ?_⟩
    simp only [rrLoop, ContigFrom, totalR, List.map_nil, List.sum_nil, Nat.add_zero, true_and]
    omega
  | dl :: tail, s, hc, hs => by
    obtain ⟨h1, h2⟩ := hc
    obtain ⟨ih1, ih2⟩ := rrLoop_tail ns ne new tail (s + dl.size) h2 (by omega)
    unfold rrLoop
    simp only []
    by_cases c1 : ne ≤ dl.start
    · rw [if_pos c1]
      refine ⟨fun p => ?_, fun h => ?_⟩
      · by_cases hp : p < ne
        · rw [if_pos hp]; exact pyrAt_none_lt (dl :: tail) s p ⟨h1, h2⟩ (by omega)
        · rw [if_neg hp]
      · have e : ne = s := by omega
        subst e
        refine ⟨⟨h1, h2⟩, ?_⟩
        omega
    · rw [if_neg c1, if_neg (by omega), if_neg (by omega)]
      by_cases c4 : ns < dl.start ∧ ne ≥ dl.start + dl.size
      · rw [if_pos c4]
        refine ⟨fun p => ?_, fun h => ?_⟩
        · rw [ih1 p]
          by_cases hp : p < ne
          · rw [if_pos hp, if_pos hp]
          · rw [if_neg hp, if_neg hp]
            simp only [pyrAt]
            rw [if_neg (by omega)]
        · obtain ⟨i1, i2⟩ := ih2 (by omega)
          refine ⟨i1, ?_⟩
          rw [i2, totalR_cons]; omega
      · rw [if_neg c4]
        refine ⟨fun p => ?_, fun h => ?_⟩
        · simp only [pyrAt]
          by_cases hp : p < ne
          · rw [if_pos hp, if_neg (by omega)]
            exact pyrAt_none_lt tail (s + dl.size) p h2 (by omega)
          · rw [if_neg hp]
            by_cases hq : p < dl.start + dl.size
            · rw [if_pos (by omega), if_pos (by omega)]
              congr 2; omega
            · rw [if_neg (by omega), if_neg (by omega)]
        · refine ⟨⟨rfl, ?_⟩, ?_⟩
          · have e : ne + (dl.start + dl.size - ne) = s + dl.size := by omega
            simp only [e]; exact h2
          · simp only [totalR_cons]; omega

/-- finish an equation between nested `if`s over linear arithmetic: split every `if`, close each leaf -/
macro "ite_omega" : tactic =>
  `(tactic| ((repeat' split) <;> first | rfl | omega | (congr 2; omega) | (exfalso; omega)))

/-- **head phase**: the first segment looked at holds `ns` (what `first_block` returns) -/
theorem rrLoop_head (ns nsize : Nat) (nl : Bytes) (no : Nat) (hsz : 0 < nsize) (dl : PyR) (tail : List PyR) (s : Nat)
    (hc : ContigFrom s (dl :: tail)) (h1 : dl.start ≤ ns) (h2 : ns < dl.start + dl.size) :
    (∀ p, pyrAt (rrLoop ns (ns + nsize) ⟨nl, ns, nsize, no⟩ (dl :: tail)) p =
      if ns ≤ p ∧ p < ns + nsize then some (nl, no + (p - ns)) else pyrAt (dl :: tail) p) ∧
    ContigFrom s (rrLoop ns (ns + nsize) ⟨nl, ns, nsize, no⟩ (dl :: tail)) ∧
    s + totalR (rrLoop ns (ns + nsize) ⟨nl, ns, nsize, no⟩ (dl :: tail)) = max (ns + nsize) (s + totalR (dl :: tail)) := by
  obtain ⟨hs, ht⟩ := hc
  unfold rrLoop
  simp only []
  rw [if_neg (by omega)]
  by_cases c2 : dl.start ≤ ns ∧ ns + nsize ≤ dl.start + dl.size
  · rw [if_pos c2]
    by_cases cl : ns - dl.start > 0 <;> by_cases cr : dl.start + dl.size - (ns + nsize) > 0
    · rw [if_pos cl, if_pos cr]
      refine ⟨fun p => ?_, ?_, ?_⟩
      · simp only [List.cons_append, List.nil_append, pyrAt]
        ite_omega
      · simp only [List.cons_append, List.nil_append, ContigFrom]
        refine ⟨hs, by omega, by omega, ?_⟩
        have e : s + (ns - dl.start) + nsize + (dl.start + dl.size - (ns + nsize)) = s + dl.size := by omega
        rw [e]; exact ht
      · simp only [List.cons_append, List.nil_append, totalR_cons]; omega
    · rw [if_pos cl, if_neg cr]
      refine ⟨fun p => ?_, ?_, ?_⟩
      · simp only [List.cons_append, List.nil_append, List.append_nil, pyrAt]
        ite_omega
      · simp only [List.cons_append, List.nil_append, List.append_nil, ContigFrom]
        refine ⟨hs, by omega, ?_⟩
        have e : s + (ns - dl.start) + nsize = s + dl.size := by omega
        rw [e]; exact ht
      · simp only [List.cons_append, List.nil_append, List.append_nil, totalR_cons]; omega
    · rw [if_neg cl, if_pos cr]
      refine ⟨fun p => ?_, ?_, ?_⟩
      · simp only [List.cons_append, List.nil_append, pyrAt]
        ite_omega
      · simp only [List.cons_append, List.nil_append, ContigFrom]
        refine ⟨by omega, by omega, ?_⟩
        have e : s + nsize + (dl.start + dl.size - (ns + nsize)) = s + dl.size := by omega
        rw [e]; exact ht
      · simp only [List.cons_append, List.nil_append, totalR_cons]; omega
    · rw [if_neg cl, if_neg cr]
      refine ⟨fun p => ?_, ?_, ?_⟩
      · simp only [List.cons_append, List.nil_append, List.append_nil, pyrAt]
        ite_omega
      · simp only [List.cons_append, List.nil_append, List.append_nil, ContigFrom]
        refine ⟨by omega, ?_⟩
        have e : s + nsize = s + dl.size := by omega
        rw [e]; exact ht
      · simp only [List.cons_append, List.nil_append, List.append_nil, totalR_cons]; omega
  · rw [if_neg c2, if_pos (by omega)]
    obtain ⟨t1, t2⟩ := rrLoop_tail ns (ns + nsize) ⟨nl, ns, nsize, no⟩ tail (s + dl.size) ht (by omega)
    obtain ⟨t2a, t2b⟩ := t2 (by omega)
    refine ⟨fun p => ?_, ?_, ?_⟩
    · simp only [pyrAt, t1 p]
      by_cases hp : p < s + dl.size
      · rw [pyrAt_none_lt tail (s + dl.size) p ht hp]
        ite_omega
      · ite_omega
    · simp only [ContigFrom]
      refine ⟨hs, by omega, ?_⟩
      have e : s + (ns - dl.start) + nsize = ns + nsize := by omega
      rw [e]; exact t2a
    · simp only [totalR_cons] at t2b ⊢
      omega

/-! ## the whole function -/

theorem contigFrom_toRange : ∀ (rs : List PyR) (s : Nat), ContigFrom s rs → Contiguous (rs.map PyR.toRange)
  | [], _, _ => trivial
  | [_], _, _ => trivial
  | r :: r' :: rest, s, ⟨h1, h2, h3⟩ => by
    refine ⟨?_, contigFrom_toRange (r' :: rest) (s + r.size) ⟨h2, h3⟩⟩
    simp only [PyR.toRange]; omega

/-- a position inside a contiguous list lies in one of its segments -/
theorem exists_pyInBlock : ∀ (rs : List PyR) (s ns : Nat), ContigFrom s rs → s ≤ ns → ns < s + totalR rs →
    ∃ i, PyInBlock (rs.map PyR.toRange) ns i
  | [], s, ns, _, h1, h2 => by simp [totalR] at h2; omega
  | r :: rest, s, ns, ⟨hs, ht⟩, h1, h2 => by
    rw [totalR_cons] at h2
    by_cases h : ns < s + r.size
    · exact ⟨0, r.toRange, rfl, by simp only [PyR.toRange]; omega, by simp only [PyR.toRange]; omega⟩
    · obtain ⟨i, x, hx, hb⟩ := exists_pyInBlock rest (s + r.size) ns ht (by omega) (by omega)
      exact ⟨i + 1, x, by simpa using hx, hb⟩

theorem drop_of_pyInBlock (rs : List PyR) (ns i : Nat) (h : PyInBlock (rs.map PyR.toRange) ns i) :
    ∃ dl tail, rs.drop i = dl :: tail ∧ dl.start ≤ ns ∧ ns < dl.start + dl.size := by
  obtain ⟨x, hx, h1, h2⟩ := h
  rw [List.getElem?_map] at hx
  cases hr : rs[i]? with
  | none => rw [hr] at hx; cases hx
  | some dl =>
    rw [hr] at hx
    simp only [Option.map_some, Option.some.injEq] at hx
    subst hx
    have hi : i < rs.length := (List.getElem?_eq_some_iff.mp hr).1
    refine ⟨dl, rs.drop (i + 1), ?_, h1, h2⟩
    have hget : rs[i] = dl := (List.getElem?_eq_some_iff.mp hr).2
    rw [← hget]
    exact List.drop_eq_getElem_cons hi

/-- **`replace_range`** on a contiguous segment list starting at `s`, for a non-empty write that starts inside
the file or exactly at its end: no exception; the list stays contiguous from `s`; the file now ends at
`max(old end, new_range_end)`; every position of the written range lives in the new segment at the right block
offset, every other position lives where it lived before. -/
theorem pyReplaceRange_spec (rs : List PyR) (s : Nat) (hc : ContigFrom s rs) (ns nsize : Nat) (nl : Bytes) (no : Nat)
    (hsz : 0 < nsize) (hlo : s ≤ ns) (hhi : ns ≤ s + totalR rs) :
    ∃ rs', pyReplaceRange rs ns nsize nl no = .ok rs' ∧ ContigFrom s rs' ∧
      s + totalR rs' = max (ns + nsize) (s + totalR rs) ∧
      ∀ p, pyrAt rs' p = if ns ≤ p ∧ p < ns + nsize then some (nl, no + (p - ns)) else pyrAt rs p := by
  unfold pyReplaceRange
  simp only []
  rw [if_neg (by omega)]
  cases hl : rs.getLast? with
  | none =>
    have : rs = [] := List.getLast?_eq_none_iff.mp hl
    subst this
    simp only [totalR, List.map_nil, List.sum_nil, Nat.add_zero] at hhi
    have e : ns = s := by omega
    subst e
    refine ⟨_, rfl, ⟨rfl, trivial⟩, by simp [totalR], fun p => ?_⟩
    simp only [pyrAt]
  | some last =>
    simp only []
    have hrs : rs = rs.dropLast ++ [last] := by
      have hne : rs ≠ [] := by intro e; rw [e] at hl; cases hl
      have := List.dropLast_concat_getLast hne
      rw [List.getLast?_eq_some_getLast hne] at hl
      cases hl
      exact this.symm
    generalize rs.dropLast = init at hrs
    subst hrs
    obtain ⟨hci, hcl, _⟩ := (contigFrom_append init [last] s).mp hc
    have htot : totalR (init ++ [last]) = totalR init + last.size := by
      rw [totalR_append, totalR_single]
    rw [htot] at hhi
    by_cases hend : last.start + last.size = ns
    · rw [if_pos hend]
      have hinit : ∀ p, ns ≤ p → pyrAt init p = none := fun p hp => pyrAt_none_ge init s p hci (by omega)
      have hinit' : ∀ p, last.start ≤ p → pyrAt init p = none := fun p hp => pyrAt_none_ge init s p hci (by omega)
      by_cases hext : last.loc = nl ∧ last.off + last.size = no
      · rw [if_pos hext]
        refine ⟨_, rfl, ?_, ?_, fun p => ?_⟩
        · exact (contigFrom_append init _ s).mpr ⟨hci, hcl, trivial⟩
        · rw [htot, totalR_append, totalR_single]; simp only []; omega
        · rw [pyrAt_append, pyrAt_append]
          obtain ⟨e1, e2⟩ := hext
          subst e1
          by_cases hp : last.start ≤ p
          · rw [hinit' p hp]
            simp only [pyrAt]
            ite_omega
          · cases pyrAt init p with
            | some x => simp only []; rw [if_neg (by omega)]
            | none =>
              simp only [pyrAt]
              ite_omega
      · rw [if_neg hext]
        refine ⟨_, rfl, ?_, ?_, fun p => ?_⟩
        · rw [contigFrom_append]
          refine ⟨hc, ?_, trivial⟩
          show ns = s + totalR (init ++ [last])
          rw [htot]; omega
        · rw [totalR_append, htot, totalR_single]; simp only []; omega
        · rw [pyrAt_append]
          by_cases hp : ns ≤ p
          · rw [pyrAt_none_ge (init ++ [last]) s p hc (by rw [htot]; omega)]
            simp only [pyrAt]
            try ite_omega
          · rw [if_neg (by omega)]
            cases pyrAt (init ++ [last]) p with
            | some x => rfl
            | none => simp only [pyrAt]; rw [if_neg (by omega)]
    · rw [if_neg hend]
      have hlt : ns < s + totalR (init ++ [last]) := by rw [htot]; omega
      have hne : (init ++ [last]).map PyR.toRange ≠ [] := by simp
      have hcont := contigFrom_toRange _ s hc
      rcases pyFirstBlock_spec _ ns hne hcont with ⟨i, hf, hin⟩ | ⟨_, hnone⟩
      · rw [hf]
        simp only []
        obtain ⟨dl, tail, hd, hb1, hb2⟩ := drop_of_pyInBlock _ ns i hin
        rw [hd]
        have hsplit : init ++ [last] = (init ++ [last]).take i ++ dl :: tail := by
          rw [← hd, List.take_append_drop]
        generalize (init ++ [last]).take i = pre at hsplit ⊢
        rw [hsplit] at hc ⊢
        obtain ⟨hcp, hcd⟩ := (contigFrom_append pre (dl :: tail) s).mp hc
        obtain ⟨g1, g2, g3⟩ := rrLoop_head ns nsize nl no hsz dl tail (s + totalR pre) hcd hb1 hb2
        refine ⟨_, rfl, (contigFrom_append pre _ s).mpr ⟨hcp, g2⟩, ?_, fun p => ?_⟩
        · rw [totalR_append, totalR_append]; omega
        · rw [pyrAt_append, pyrAt_append, g1 p]
          by_cases hp : ns ≤ p ∧ p < ns + nsize
          · rw [if_pos hp, if_pos hp, pyrAt_none_ge pre s p hcp (by have := hcd.1; omega)]
          · rw [if_neg hp, if_neg hp]
      · obtain ⟨j, hj⟩ := exists_pyInBlock _ s ns hc hlo hlt
        exact absurd hj (hnone j)

end ArvVerif.C10
