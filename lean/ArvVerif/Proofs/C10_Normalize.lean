/-
C10 — the kernel of `segmentedStream.normalizedText` (and of the Python `normalize_stream`, which
is the same algorithm keyed by locator string): each digest once as a block, each file's segments
collapsed into stream spans. The spans, resolved over the new block list, give back exactly the
bytes of the file's segments.
-/
import ArvVerif.Proofs.C10_Bytes
namespace ArvVerif.C10

/-- bytes `a … a+l` of a stream -/
def slice (S : Bytes) (a l : Nat) : Bytes := (S.drop a).take l

theorem slice_append_slice (S : Bytes) (a b l : Nat) (hab : a ≤ b) :
    slice S a (b - a) ++ slice S b l = slice S a (b + l - a) := by
  unfold slice
  have e : b + l - a = (b - a) + l := by omega
  rw [e, List.take_add, List.drop_drop]
  congr 3; omega

theorem slice_of_prefix (S X : Bytes) (a l : Nat) (h : a + l ≤ S.length) : slice (S ++ X) a l = slice S a l := by
  unfold slice
  rw [List.drop_append, List.take_append, List.length_drop]
  have : l - (S.length - a) = 0 := by omega
  rw [this]; simp

theorem slice_slice (S : Bytes) (o n off len : Nat) (h : off + len ≤ n) :
    ((slice S o n).drop off).take len = slice S (o + off) len := by
  unfold slice
  rw [List.drop_take, List.take_take, List.drop_drop]
  congr 1; omega

/-- structured second pass: the spans (position, length) of one file -/
def normSpansS (tbl : List (Bytes × Nat)) : List Seg → Option (Nat × Nat) → List (Nat × Nat)
  | [], none => []
  | [], some (a, b) => [(a, b - a)]
  | s :: rest, cur =>
    let so := tblLookup tbl (digestKey s.loc) + s.off
    match cur with
    | none => normSpansS tbl rest (some (so, so + s.len))
    | some (a, b) =>
      if so = b then normSpansS tbl rest (some (a, b + s.len))
      else (a, b - a) :: normSpansS tbl rest (some (so, so + s.len))

/-- rendering of one span -/
def spanTok (fout : Bytes) (p : Nat × Nat) : Bytes := fileTokText (p.1 : Int) (p.2 : Int) fout

/-- the text tokens of the model are the rendering of the structured spans -/
theorem normSpans_eq (tbl : List (Bytes × Nat)) (fout : Bytes) : ∀ (segs : List Seg) (cur : Option (Nat × Nat)),
    (∀ a b, cur = some (a, b) → a ≤ b) →
    normSpans tbl fout segs cur = (normSpansS tbl segs cur).map (spanTok fout)
  | [], none, _ => rfl
  | [], some (a, b), h => by
    have := h a b rfl
    simp only [normSpans, normSpansS, List.map_cons, List.map_nil, spanTok]
    congr 2; omega
  | s :: rest, none, _ => by
    simp only [normSpans, normSpansS]
    exact normSpans_eq tbl fout rest _ (by intro a b h; cases h; omega)
  | s :: rest, some (a, b), h => by
    have hab := h a b rfl
    simp only [normSpans, normSpansS]
    split
    · exact normSpans_eq tbl fout rest _ (by intro a' b' h'; cases h'; omega)
    · simp only [List.map_cons, spanTok]
      congr 1
      · congr 1; omega
      · exact normSpans_eq tbl fout rest _ (by intro a' b' h'; cases h'; omega)

/-- the bytes a span cuts out of the stream -/
def spanSlice (S : Bytes) (p : Nat × Nat) : Bytes := slice S p.1 p.2

/-- every segment's bytes are where the table says: `S[lookup + off … + len]` -/
def SegsPlaced (blk : Bytes → Bytes) (S : Bytes) (tbl : List (Bytes × Nat)) (segs : List Seg) : Prop :=
  ∀ s ∈ segs, ((blk s.loc).drop s.off).take s.len = slice S (tblLookup tbl (digestKey s.loc) + s.off) s.len

/-- **second pass preserves bytes**: the spans cut out of the stream exactly the file's bytes -/
theorem normSpansS_bytes (blk : Bytes → Bytes) (S : Bytes) (tbl : List (Bytes × Nat)) :
    ∀ (segs : List Seg) (cur : Option (Nat × Nat)), SegsPlaced blk S tbl segs →
      (∀ a b, cur = some (a, b) → a ≤ b) →
      (normSpansS tbl segs cur).flatMap (spanSlice S) =
        (match cur with | some (a, b) => slice S a (b - a) | none => []) ++ segBytes blk segs
  | [], none, _, _ => by simp [normSpansS, segBytes]
  | [], some (a, b), _, _ => by simp [normSpansS, segBytes, spanSlice]
  | s :: rest, none, hp, _ => by
    have hs := hp s (by simp)
    have ih := normSpansS_bytes blk S tbl rest
      (some (tblLookup tbl (digestKey s.loc) + s.off, tblLookup tbl (digestKey s.loc) + s.off + s.len))
      (fun x hx => hp x (List.mem_cons_of_mem _ hx)) (by intro a b h; cases h; omega)
    simp only [normSpansS]
    rw [ih, segBytes_cons, hs]
    simp only [List.nil_append]
    congr 2; omega
  | s :: rest, some (a, b), hp, hab => by
    have hs := hp s (by simp)
    have hle := hab a b rfl
    simp only [normSpansS]
    by_cases hso : tblLookup tbl (digestKey s.loc) + s.off = b
    · rw [if_pos hso]
      have ih := normSpansS_bytes blk S tbl rest (some (a, b + s.len))
        (fun x hx => hp x (List.mem_cons_of_mem _ hx)) (by intro a' b' h; cases h; omega)
      rw [ih, segBytes_cons, hs, hso]
      simp only []
      rw [← List.append_assoc, slice_append_slice S a b s.len hle]
    · rw [if_neg hso]
      have ih := normSpansS_bytes blk S tbl rest
        (some (tblLookup tbl (digestKey s.loc) + s.off, tblLookup tbl (digestKey s.loc) + s.off + s.len))
        (fun x hx => hp x (List.mem_cons_of_mem _ hx)) (by intro a' b' h; cases h; omega)
      simp only [List.flatMap_cons, spanSlice]
      rw [ih, segBytes_cons, hs]
      simp only [List.append_assoc]
      congr 2
      congr 1; omega

/-! ## first pass: the block table -/

/-- block contents and sizes depend on the digest only (true of real MD5 digests), and every
segment lies inside its block -/
structure DigestConsistent (blk : Bytes → Bytes) (segs : List Seg) : Prop where
  len : ∀ s ∈ segs, (blk s.loc).length = locSize s.loc
  same : ∀ s ∈ segs, ∀ s' ∈ segs, digestKey s.loc = digestKey s'.loc → blk s.loc = blk s'.loc
  inside : ∀ s ∈ segs, s.off + s.len ≤ locSize s.loc

theorem tblLookup_append_of_mem (tbl : List (Bytes × Nat)) (x : Bytes × Nat) (k : Bytes)
    (h : tbl.any (·.1 = k) = true) : tblLookup (tbl ++ [x]) k = tblLookup tbl k := by
  unfold tblLookup
  rw [List.find?_append]
  obtain ⟨e, he, hk⟩ := List.any_eq_true.mp h
  cases hf : tbl.find? (fun e => decide (e.1 = k)) with
  | none => exact absurd hk (by simpa using List.find?_eq_none.mp hf e he)
  | some e' => rfl

theorem tblLookup_append_new (tbl : List (Bytes × Nat)) (k : Bytes) (o : Nat)
    (h : tbl.any (·.1 = k) = false) : tblLookup (tbl ++ [(k, o)]) k = o := by
  unfold tblLookup
  rw [List.find?_append]
  have : tbl.find? (fun e => decide (e.1 = k)) = none := by
    rw [List.find?_eq_none]
    intro e he
    have := (Bool.eq_false_iff.mp h)
    intro hk
    exact this (List.any_eq_true.mpr ⟨e, he, hk⟩)
  simp [this]

/-- invariant of `normBlocks`: the table places every listed digest at a block of the stream built
so far (`S` = concatenation of the listed blocks, `off` = its length) -/
theorem normBlocks_placed (blk : Bytes → Bytes) (all : List Seg) (hc : DigestConsistent blk all) :
    ∀ (segs : List Seg) (tbl : List (Bytes × Nat)) (toks : List Bytes) (off : Nat),
      (∀ s ∈ segs, s ∈ all) →
      (streamBytes blk (toks.map fun t => ⟨t, locSize t⟩)).length = off →
      (∀ t ∈ toks, ∃ s ∈ all, s.loc = t) →
      (∀ s ∈ all, tbl.any (·.1 = digestKey s.loc) = true →
        slice (streamBytes blk (toks.map fun t => ⟨t, locSize t⟩)) (tblLookup tbl (digestKey s.loc)) (locSize s.loc)
          = blk s.loc) →
      let r := normBlocks segs tbl toks off
      (streamBytes blk (r.2.1.map fun t => ⟨t, locSize t⟩)).length = r.2.2 ∧
      (∀ t ∈ r.2.1, ∃ s ∈ all, s.loc = t) ∧
      (∀ s ∈ all, (tbl.any (·.1 = digestKey s.loc) = true ∨ s ∈ segs) →
        slice (streamBytes blk (r.2.1.map fun t => ⟨t, locSize t⟩)) (tblLookup r.1 (digestKey s.loc)) (locSize s.loc)
          = blk s.loc)
  | [], tbl, toks, off, _, hlen, htoks, hinv => by
    simp only [normBlocks]
    refine ⟨hlen, htoks, ?_⟩
    intro s hs h
    rcases h with h | h
    · exact hinv s hs h
    · simp at h
  | x :: rest, tbl, toks, off, hsub, hlen, htoks, hinv => by
    have hx : x ∈ all := hsub x (by simp)
    by_cases hany : tbl.any (·.1 = digestKey x.loc) = true
    · simp only [normBlocks, hany, if_true]
      obtain ⟨r1, r2, r3⟩ := normBlocks_placed blk all hc rest tbl toks off
        (fun s hs => hsub s (List.mem_cons_of_mem _ hs)) hlen htoks hinv
      refine ⟨r1, r2, ?_⟩
      intro s hs h
      rcases h with h | h
      · exact r3 s hs (Or.inl h)
      · rcases List.mem_cons.mp h with rfl | h
        · exact r3 s hs (Or.inl hany)
        · exact r3 s hs (Or.inr h)
    · have hany' : tbl.any (·.1 = digestKey x.loc) = false := by rw [Bool.eq_false_iff]; exact hany
      simp only [normBlocks, hany', Bool.false_eq_true, if_false]
      have hS : streamBytes blk ((toks ++ [x.loc]).map fun t => ⟨t, locSize t⟩) =
          streamBytes blk (toks.map fun t => ⟨t, locSize t⟩) ++ blk x.loc := by
        simp [streamBytes]
      obtain ⟨r1, r2, r3⟩ := normBlocks_placed blk all hc rest (tbl ++ [(digestKey x.loc, off)]) (toks ++ [x.loc])
        (off + locSize x.loc) (fun s hs => hsub s (List.mem_cons_of_mem _ hs))
        (by rw [hS, List.length_append, hlen, hc.len x hx])
        (by
          intro t ht
          rcases List.mem_append.mp ht with ht | ht
          · exact htoks t ht
          · exact ⟨x, hx, (List.mem_singleton.mp ht).symm⟩)
        (by
          intro s hs hin
          rw [hS]
          by_cases hk : digestKey s.loc = digestKey x.loc
          · rw [hk, tblLookup_append_new tbl _ off hany']
            unfold slice
            rw [List.drop_append, hlen]
            have hd : (streamBytes blk (toks.map fun t => ⟨t, locSize t⟩)).drop off = [] :=
              List.drop_eq_nil_of_le (by rw [hlen]; exact Nat.le_refl _)
            rw [hd, Nat.sub_self, List.drop_zero, List.nil_append]
            have hsame := hc.same s hs x hx hk
            have hsz : locSize s.loc = (blk x.loc).length := by rw [← hsame, hc.len s hs]
            rw [hsz, List.take_length, hsame]
          · have hold : tbl.any (·.1 = digestKey s.loc) = true := by
              rw [List.any_append] at hin
              rcases Bool.or_eq_true _ _ |>.mp hin with h | h
              · exact h
              · simp at h; exact absurd h.symm hk
            rw [tblLookup_append_of_mem tbl _ _ hold]
            have hold' := hinv s hs hold
            rw [← hold']
            by_cases hz : locSize s.loc = 0
            · rw [hz]; simp [slice]
            · have hbound : tblLookup tbl (digestKey s.loc) + locSize s.loc ≤
                  (streamBytes blk (toks.map fun t => ⟨t, locSize t⟩)).length := by
                -- the old slice has the full block length, so it fits
                have hl : (slice (streamBytes blk (toks.map fun t => ⟨t, locSize t⟩))
                    (tblLookup tbl (digestKey s.loc)) (locSize s.loc)).length = locSize s.loc := by
                  rw [hold', hc.len s hs]
                unfold slice at hl
                rw [List.length_take, List.length_drop] at hl
                omega
              exact slice_of_prefix _ _ _ _ hbound)
      refine ⟨r1, r2, ?_⟩
      intro s hs h
      apply r3 s hs
      rcases h with h | h
      · left; rw [List.any_append, h]; rfl
      · rcases List.mem_cons.mp h with rfl | h
        · left; rw [List.any_append]; simp
        · exact Or.inr h

/-- **C10_normalize core.** Run both passes of `normalizedText` on the segments of a set of files
(contents and sizes determined by the digest, segments inside their blocks): for every file, the
spans of the second pass cut exactly that file's bytes out of the concatenation of the blocks the
first pass lists. -/
theorem normalize_preserves_bytes (blk : Bytes → Bytes) (files : List (List Seg))
    (hc : DigestConsistent blk files.flatten) :
    let r := normBlocks files.flatten [] [] 0
    let S := streamBytes blk (r.2.1.map fun t => ⟨t, locSize t⟩)
    ∀ segs ∈ files, (normSpansS r.1 segs none).flatMap (spanSlice S) = segBytes blk segs := by
  intro r S segs hsegs
  obtain ⟨_, _, r3⟩ := normBlocks_placed blk files.flatten hc files.flatten [] [] 0 (fun _ h => h) rfl
    (by simp) (by simp)
  have hplaced : SegsPlaced blk S r.1 segs := by
    intro s hs
    have hsall : s ∈ files.flatten := List.mem_flatten.mpr ⟨segs, hsegs, hs⟩
    have h := r3 s hsall (Or.inr hsall)
    rw [← h]
    exact slice_slice S _ _ _ _ (hc.inside s hsall)
  have := normSpansS_bytes blk S r.1 segs none hplaced (by intro a b h; cases h)
  simpa using this

end ArvVerif.C10
