/-
Helper lemmas for C14 layer L1 (one scheduler pass).
-/
import ArvVerif.Model.C14
namespace ArvVerif.C14

/-! ### one iteration -/

theorem startAttempt_start {e : Ent} {un : Unalloc} {dont : List IType} {script : List Bool}
    {pre : List Call} {t : IType} {u : Uuid} {a : Bool}
    (hpre : ∀ t u a, Call.start t u a ∉ pre)
    (h : Call.start t u a ∈ (startAttempt e un dont script pre).calls) :
    e.uuid = u ∧ e.itype = t ∧
      (startAttempt e un dont script pre).calls = pre ++ [.kill u false, .start t u a] := by
  unfold startAttempt at h ⊢
  dsimp only at h ⊢
  split at h
  · exact absurd h (hpre t u a)
  · split at h
    · simp at h; exact absurd h (hpre t u a)
    · simp at h
      rcases h with h | h
      · exact absurd h (hpre t u a)
      · obtain ⟨h1, h2, h3⟩ := h
        simp_all

theorem startAttempt_goLock {e : Ent} {un : Unalloc} {dont : List IType} {script : List Bool}
    {pre : List Call} {u : Uuid}
    (hpre : Call.goLock u ∉ pre) : Call.goLock u ∉ (startAttempt e un dont script pre).calls := by
  unfold startAttempt
  dsimp only
  split
  · exact hpre
  · split <;> simp [hpre]

/-- A `StartContainer` call made for entry `e` is for `e` itself, `e` is Locked with priority ≥ 1
and not in the `Running()` snapshot, and the call directly before it is `KillContainer(e) = false`. -/
theorem iter_start {running : Uuid → Bool} {e : Ent} {un : Unalloc} {dont : List IType}
    {script : List Bool} {t : IType} {u : Uuid} {a : Bool}
    (h : Call.start t u a ∈ (iter running e un dont script).calls) :
    e.uuid = u ∧ e.itype = t ∧ e.state = .locked ∧ 1 ≤ e.prio ∧ running e.uuid = false ∧
      ∃ p, (iter running e un dont script).calls = p ++ [.kill u false, .start t u a] := by
  unfold iter at h ⊢
  dsimp only at h ⊢
  by_cases hskip : (running e.uuid || decide (e.prio < 1)) = true
  · simp [hskip] at h
  · simp only [hskip] at h ⊢
    simp only [Bool.or_eq_true, decide_eq_true_eq, not_or, Bool.not_eq_true, Int.not_lt] at hskip
    have hprio : 1 ≤ e.prio := by omega
    cases hst : e.state <;> simp only [hst] at h ⊢
    case queued =>
      exfalso; revert h
      repeat' split
      all_goals simp
    case locked =>
      by_cases hun : un.get e.itype > 0
      · simp only [hun, if_true] at h ⊢
        obtain ⟨h1, h2, h3⟩ := startAttempt_start (pre := []) (by simp) h
        exact ⟨h1, h2, trivial, hprio, hskip.1, [], by simpa using h3⟩
      · simp only [hun, if_false] at h ⊢
        by_cases hq : (nextAns script).1 = true
        · simp [hq] at h
        · simp only [hq] at h ⊢
          by_cases hc : (nextAns (nextAns script).2).1 = true
          · simp only [hc, if_true] at h ⊢
            obtain ⟨h1, h2, h3⟩ :=
              startAttempt_start (pre := [.atQuota false, .create e.itype true]) (by simp) h
            exact ⟨h1, h2, trivial, hprio, hskip.1, _, h3⟩
          · simp [hc] at h
    all_goals simp at h

/-- A `go lockContainer` issued for entry `e` is for `e` itself, `e` is Queued with priority ≥ 1
and not in the `Running()` snapshot, and the call directly before it is `KillContainer(e) = false`. -/
theorem iter_goLock {running : Uuid → Bool} {e : Ent} {un : Unalloc} {dont : List IType}
    {script : List Bool} {u : Uuid}
    (h : Call.goLock u ∈ (iter running e un dont script).calls) :
    e.uuid = u ∧ e.state = .queued ∧ 1 ≤ e.prio ∧ running e.uuid = false ∧
      ∃ p, (iter running e un dont script).calls = p ++ [.kill u false, .goLock u] := by
  unfold iter at h ⊢
  dsimp only at h ⊢
  by_cases hskip : (running e.uuid || decide (e.prio < 1)) = true
  · simp [hskip] at h
  · simp only [hskip] at h ⊢
    simp only [Bool.or_eq_true, decide_eq_true_eq, not_or, Bool.not_eq_true, Int.not_lt] at hskip
    have hprio : 1 ≤ e.prio := by omega
    cases hst : e.state <;> simp only [hst] at h ⊢
    case queued =>
      refine ⟨?_, trivial, hprio, hskip.1, ?_⟩
      · revert h
        repeat' split
        all_goals simp
        all_goals (intro h; exact h.symm)
      · have hu : e.uuid = u := by
          revert h
          repeat' split
          all_goals simp
          all_goals (intro h; exact h.symm)
        subst hu
        revert h
        repeat' split
        all_goals simp
        all_goals exact ⟨[_], rfl⟩
    case locked =>
      exfalso; revert h
      repeat' split
      all_goals first | exact startAttempt_goLock (by simp) | simp
    all_goals simp at h

/-! ### the loop -/

/-- Every call of the loop belongs to the iteration of some entry, and the loop's call list is
that iteration's calls with something before and after. -/
theorem tryrun_decomp {running : Uuid → Bool} {c : Call} :
    ∀ (es : List Ent) (un : Unalloc) (dont : List IType) (script : List Bool),
      c ∈ (tryrun running es un dont script).calls →
      ∃ e ∈ es, ∃ un' dont' script' pre post,
        (tryrun running es un dont script).calls
          = pre ++ (iter running e un' dont' script').calls ++ post ∧
        c ∈ (iter running e un' dont' script').calls
  | [], un, dont, script, h => by simp [tryrun] at h
  | e :: rest, un, dont, script, h => by
    unfold tryrun at h ⊢
    simp only at h ⊢
    split at h
    · rename_i hstop
      simp only [hstop, if_true]
      exact ⟨e, List.mem_cons_self, un, dont, script, [], [], by simp, h⟩
    · rename_i hstop
      simp only [hstop]
      simp only [List.mem_append] at h
      rcases h with h | h
      · exact ⟨e, List.mem_cons_self, un, dont, script, [], _, by simp; rfl, h⟩
      · obtain ⟨e', he', un', dont', script', pre, post, heq, hc⟩ :=
          tryrun_decomp rest _ _ _ h
        refine ⟨e', List.mem_cons_of_mem _ he', un', dont', script',
          (iter running e un dont script).calls ++ pre, post, ?_, hc⟩
        simp [heq]

theorem overquotaUnlocks_not_start (l : List Ent) (t : IType) (u : Uuid) (a : Bool) :
    Call.start t u a ∉ overquotaUnlocks l := by
  simp [overquotaUnlocks]

theorem overquotaUnlocks_not_goLock (l : List Ent) (u : Uuid) :
    Call.goLock u ∉ overquotaUnlocks l := by
  simp [overquotaUnlocks]

/-- `StartContainer` calls of a whole pass come from the loop. -/
theorem runQueue_start_in_loop {sorted : List Ent} {running : Uuid → Bool} {un : Unalloc}
    {script : List Bool} {t : IType} {u : Uuid} {a : Bool}
    (h : Call.start t u a ∈ runQueue sorted running un script) :
    Call.start t u a ∈ (tryrun running sorted un [] script).calls := by
  unfold runQueue at h
  simp only [List.mem_append, List.mem_map] at h
  rcases h with (h | h) | h
  · exact h
  · exact absurd h (overquotaUnlocks_not_start _ _ _ _)
  · obtain ⟨_, _, h⟩ := h; cases h

theorem runQueue_goLock_in_loop {sorted : List Ent} {running : Uuid → Bool} {un : Unalloc}
    {script : List Bool} {u : Uuid}
    (h : Call.goLock u ∈ runQueue sorted running un script) :
    Call.goLock u ∈ (tryrun running sorted un [] script).calls := by
  unfold runQueue at h
  simp only [List.mem_append, List.mem_map] at h
  rcases h with (h | h) | h
  · exact h
  · exact absurd h (overquotaUnlocks_not_goLock _ _)
  · obtain ⟨_, _, h⟩ := h; cases h

/-! ### the latch -/

theorem held_uuidLock_true {l : Latch} {u : Uuid} {op : Op} (h : (uuidLock l u op).1 = true) :
    l.held u = false ∧ (uuidLock l u op).2 = (u, op) :: l := by
  unfold uuidLock at h ⊢
  by_cases hh : l.held u = true
  · simp [hh] at h
  · simp only [Bool.not_eq_true] at hh
    simp [hh]

theorem held_uuidLock_false {l : Latch} {u : Uuid} {op : Op} (h : (uuidLock l u op).1 = false) :
    l.held u = true ∧ (uuidLock l u op).2 = l := by
  unfold uuidLock at h ⊢
  by_cases hh : l.held u = true
  · simp [hh]
  · simp [hh] at h

theorem held_cons (l : Latch) (u v : Uuid) (op : Op) :
    Latch.held ((u, op) :: l) v = (decide (u = v) || l.held v) := by
  by_cases h : u = v <;> simp [Latch.held, h]

theorem held_uuidUnlock (l : Latch) (u v : Uuid) :
    (uuidUnlock l u).held v = (l.held v && decide (v ≠ u)) := by
  unfold uuidUnlock Latch.held
  induction l with
  | nil => simp
  | cons p rest ih =>
    simp only [List.filter_cons]
    by_cases hp : p.1 = u
    · by_cases hv : v = u
      · subst hv; simp [hp]
      · have hne : ¬ u = v := fun h => hv h.symm
        simp [hp, ih, hv, hne]
    · have hp' : (p.1 != u) = true := by simpa using hp
      simp only [hp', if_true, List.any_cons, ih]
      by_cases hv : p.1 = v
      · have : ¬ v = u := fun h => hp (hv.trans h)
        simp [hv, this]
      · have : (p.1 == v) = false := by simpa using hv
        simp [this]

/-! ### latch invariant -/

/-- The latch is held for `u` exactly when one goroutine is performing an operation on `u`. -/
def LInv (s : LSys) : Prop :=
  ∀ u, inFlight s u = if s.latch.held u then 1 else 0

theorem inFlight_mid (l : Latch) (pre post : List Gor) (g : Gor) (u : Uuid) :
    inFlight ⟨l, pre ++ g :: post⟩ u
      = inFlight ⟨l, pre⟩ u + (if g.phase == .holding && g.uuid == u then 1 else 0)
        + inFlight ⟨l, post⟩ u := by
  simp only [inFlight, List.countP_append, List.countP_cons]
  omega

theorem LInv_step {s t : LSys} (hinv : LInv s) (hst : LStep s t) : LInv t := by
  cases hst with
  | spawn u op =>
    intro v
    have := hinv v
    simp only [inFlight, List.countP_cons] at this ⊢
    simpa using this
  | acquire l pre post u op h =>
    obtain ⟨hfree, hl⟩ := held_uuidLock_true h
    intro v
    have hv := hinv v
    rw [inFlight_mid] at hv ⊢
    simp only [hl, held_cons] at hv ⊢
    by_cases huv : u = v
    · subst huv
      simp [hfree] at hv ⊢
      simp only [inFlight] at hv ⊢
      omega
    · simp [huv] at hv ⊢
      simp only [inFlight] at hv ⊢
      exact hv
  | refuse l pre post u op h =>
    obtain ⟨_, hl⟩ := held_uuidLock_false h
    intro v
    have hv := hinv v
    rw [inFlight_mid] at hv ⊢
    simp only [hl] at hv ⊢
    simp at hv ⊢
    simp only [inFlight] at hv ⊢
    exact hv
  | release l pre post u op =>
    intro v
    have hv := hinv v
    rw [inFlight_mid] at hv ⊢
    simp only [held_uuidUnlock] at hv ⊢
    by_cases huv : u = v
    · subst huv
      simp at hv ⊢
      simp only [inFlight] at hv ⊢
      split at hv <;> omega
    · have hvu : v ≠ u := fun h => huv h.symm
      simp [huv, hvu] at hv ⊢
      simp only [inFlight] at hv ⊢
      exact hv

theorem LInv_reach {s : LSys} (h : LReach s) : LInv s := by
  induction h with
  | init => intro u; simp [inFlight, Latch.held]
  | step _ hst ih => exact LInv_step ih hst

end ArvVerif.C14
