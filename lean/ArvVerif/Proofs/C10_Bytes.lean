/-
C10 — the reference interpreter against the document's own wording: the bytes of `resolveTok`'s
pieces are the requested range of the logical concatenation of the stream's blocks.
-/
import ArvVerif.Proofs.C10_Resolve
namespace ArvVerif.C10

theorem segBytes_cons (blk : Bytes → Bytes) (s : Seg) (rest : List Seg) :
    segBytes blk (s :: rest) = ((blk s.loc).drop s.off).take s.len ++ segBytes blk rest := by
  simp [segBytes]

theorem segBytes_append (blk : Bytes → Bytes) (a b : List Seg) :
    segBytes blk (a ++ b) = segBytes blk a ++ segBytes blk b := by
  simp [segBytes]

theorem streamBytes_cons (blk : Bytes → Bytes) (b : Loc) (rest : List Loc) :
    streamBytes blk (b :: rest) = blk b.text ++ streamBytes blk rest := by
  simp [streamBytes]

theorem streamBytes_length (blk : Bytes → Bytes) : ∀ bs : List Loc, (∀ b ∈ bs, (blk b.text).length = b.size) →
    (streamBytes blk bs).length = streamLen bs
  | [], _ => rfl
  | b :: rest, h => by
    rw [streamBytes_cons, List.length_append, h b (by simp),
      streamBytes_length blk rest (fun x hx => h x (List.mem_cons_of_mem _ hx)), streamLen_cons]

/-- **`resolveTok` means "bytes `pos … pos+len` of the concatenated blocks"** (the part of that
range at or after `base`, the stream offset of the first block considered). -/
theorem resolveTok_bytes (blk : Bytes → Bytes) : ∀ (bs : List Loc) (base pos len : Nat),
    (∀ b ∈ bs, (blk b.text).length = b.size) →
    segBytes blk (resolveTok bs base pos len) =
      ((streamBytes blk bs).drop (max pos base - base)).take (pos + len - max pos base)
  | [], base, pos, len, _ => by simp [resolveTok, segBytes, streamBytes]
  | b :: rest, base, pos, len, h => by
    have hB : (blk b.text).length = b.size := h b (by simp)
    have ih := resolveTok_bytes blk rest (base + b.size) pos len (fun x hx => h x (List.mem_cons_of_mem _ hx))
    unfold resolveTok
    simp only []
    rw [streamBytes_cons]
    by_cases hlt : max pos base < min (pos + len) (base + b.size)
    · rw [if_pos hlt, segBytes_cons, ih]
      simp only []
      have hk : max pos base - base < b.size := by omega
      rw [List.drop_append, List.take_append, List.length_drop, hB]
      have hd0 : max pos base - base - b.size = 0 := by omega
      rw [hd0, List.drop_zero]
      by_cases hend : pos + len ≤ base + b.size
      · have e1 : min (pos + len) (base + b.size) - max pos base = pos + len - max pos base := by omega
        have e2 : pos + len - max pos base - (b.size - (max pos base - base)) = 0 := by omega
        have e3 : pos + len - max pos (base + b.size) = 0 := by omega
        rw [e1, e2, e3]
        simp
      · have e1 : min (pos + len) (base + b.size) - max pos base = b.size - (max pos base - base) := by omega
        have hfull : ((blk b.text).drop (max pos base - base)).length ≤ b.size - (max pos base - base) := by
          rw [List.length_drop, hB]; omega
        have hfull2 : ((blk b.text).drop (max pos base - base)).length ≤ pos + len - max pos base := by
          rw [List.length_drop, hB]; omega
        rw [e1, List.take_of_length_le hfull, List.take_of_length_le hfull2]
        have e2 : max pos (base + b.size) - (base + b.size) = 0 := by omega
        have e3 : pos + len - max pos (base + b.size) = pos + len - max pos base - (b.size - (max pos base - base)) := by
          omega
        rw [e2, e3, List.drop_zero]
    · rw [if_neg hlt, ih]
      by_cases hemp : pos + len ≤ max pos base
      · have e1 : pos + len - max pos base = 0 := by omega
        have e2 : pos + len - max pos (base + b.size) = 0 := by omega
        rw [e1, e2]; simp
      · have hge : base + b.size ≤ max pos base := by omega
        have e1 : max pos (base + b.size) = max pos base := by omega
        rw [e1, List.drop_append]
        have hnil : (blk b.text).drop (max pos base - base) = [] := by
          apply List.drop_eq_nil_of_le; rw [hB]; omega
        rw [hnil, List.nil_append, hB]
        have e2 : max pos base - (base + b.size) = max pos base - base - b.size := by omega
        rw [e2]

/-- a whole file token, from the start of the stream -/
theorem resolveTok_bytes_zero (blk : Bytes → Bytes) (bs : List Loc) (pos len : Nat)
    (h : ∀ b ∈ bs, (blk b.text).length = b.size) :
    segBytes blk (resolveTok bs 0 pos len) = ((streamBytes blk bs).drop pos).take len := by
  have := resolveTok_bytes blk bs 0 pos len h
  simp only [Nat.max_zero, Nat.sub_zero] at this
  rw [this]
  congr 1; omega

/-- **`resolve` means what the document says**: the bytes of a path's segments are the
concatenation, over its file tokens in manifest order, of the token's range of its stream. -/
theorem resolve_bytes (blk : Bytes → Bytes) (M : Manifest) (p : Bytes)
    (h : ∀ s ∈ M, ∀ b ∈ s.blocks, (blk b.text).length = b.size) :
    segBytes blk (resolve M p) = fileContent blk M p := by
  unfold resolve fileContent
  induction M with
  | nil => rfl
  | cons s rest ih =>
    rw [List.flatMap_cons, List.flatMap_cons, segBytes_append,
      ih (fun x hx => h x (List.mem_cons_of_mem _ hx))]
    congr 1
    have hs := h s (by simp)
    unfold resolveStream
    induction s.files with
    | nil => rfl
    | cons f fs ihf =>
      rw [List.flatMap_cons, List.flatMap_cons, segBytes_append, ihf]
      congr 1
      by_cases hp : pathOf s.name f.name = p
      · rw [if_pos hp, if_pos hp, resolveTok_bytes_zero blk s.blocks f.pos f.len hs]
      · rw [if_neg hp, if_neg hp]; rfl

end ArvVerif.C10
