/-
C07 helper lemmas, part 1: character classes, `splitOn`, hex formatting and parsing.
-/
import ArvVerif.Model.C07
namespace ArvVerif.C07

/-! ## character classes -/

theorem isXDigit_of_isLowerHex {c : Char} (h : isLowerHex c = true) : isXDigit c = true := by
  simp [isXDigit, h]

theorem isLowerHex_digitChar : ∀ k, k < 16 → isLowerHex (Nat.digitChar k) = true := by decide

theorem hexVal_digitChar : ∀ k, k < 16 → hexVal? (Nat.digitChar k) = some k := by decide

theorem ne_plus_of_isXDigit {c : Char} (h : isXDigit c = true) : c ≠ '+' := by
  intro e; subst e; revert h; decide

theorem ne_minus_of_isXDigit {c : Char} (h : isXDigit c = true) : c ≠ '-' := by
  intro e; subst e; revert h; decide

theorem ne_at_of_isXDigit {c : Char} (h : isXDigit c = true) : c ≠ '@' := by
  intro e; subst e; revert h; decide

theorem ne_plus_of_isDigit {c : Char} (h : isDigit c = true) : c ≠ '+' := by
  intro e; subst e; revert h; decide

theorem ne_plus_of_isHintChar {c : Char} (h : isHintChar c = true) : c ≠ '+' := by
  intro e; subst e; revert h; decide

theorem ne_plus_of_isHintStart {c : Char} (h : isHintStart c = true) : c ≠ '+' := by
  intro e; subst e; revert h; decide

theorem ne_A_of_isHintStart {c : Char} (h : isHintStart c = true) : c ≠ 'A' := by
  intro e; subst e; revert h; decide

theorem not_isSpace_of_isLowerHex {c : Char} (h : isLowerHex c = true) : isSpace c = false := by
  have h1 : ('0'.val ≤ c.val ∧ c.val ≤ '9'.val) ∨ ('a'.val ≤ c.val ∧ c.val ≤ 'f'.val) := by
    simpa [isLowerHex, isDigit, Char.le_def] using h
  have : c ≠ '\t' ∧ c ≠ '\n' ∧ c ≠ '\x0c' ∧ c ≠ '\r' ∧ c ≠ ' ' := by
    refine ⟨?_, ?_, ?_, ?_, ?_⟩ <;> (intro e; subst e; revert h1; decide)
  simp [isSpace, this]

theorem isHintChar_of_isXDigit {c : Char} (h : isXDigit c = true) : isHintChar c = true := by
  have h1 : ('0'.val ≤ c.val ∧ c.val ≤ '9'.val) ∨ ('a'.val ≤ c.val ∧ c.val ≤ 'f'.val) ∨
      ('A'.val ≤ c.val ∧ c.val ≤ 'F'.val) := by
    simpa [isXDigit, isLowerHex, isDigit, Char.le_def, or_assoc] using h
  have e1 : 'f'.val ≤ 'z'.val := by decide
  have e2 : 'F'.val ≤ 'Z'.val := by decide
  simp only [isHintChar, isDigit, Char.le_def, Bool.or_eq_true, Bool.and_eq_true, decide_eq_true_eq]
  rcases h1 with h1 | h1 | h1
  · exact Or.inl (Or.inl (Or.inl (Or.inl (Or.inl h1))))
  · exact Or.inl (Or.inl (Or.inl (Or.inr ⟨h1.1, UInt32.le_trans h1.2 e1⟩)))
  · exact Or.inl (Or.inl (Or.inl (Or.inl (Or.inr ⟨h1.1, UInt32.le_trans h1.2 e2⟩))))

/-! ## splitOn -/

/-- `+f1+f2…` -/
def hints (fs : List Str) : Str := fs.flatMap (fun f => '+' :: f)

@[simp] theorem hints_nil : hints [] = [] := rfl
@[simp] theorem hints_cons (f : Str) (fs : List Str) : hints (f :: fs) = '+' :: f ++ hints fs := by
  simp [hints]
theorem hints_append (a b : List Str) : hints (a ++ b) = hints a ++ hints b := by
  simp [hints]

def Free (sep : Char) (f : Str) : Prop := ∀ c ∈ f, c ≠ sep

theorem splitOn_ne_nil (sep : Char) (s : Str) : splitOn sep s ≠ [] := by
  induction s with
  | nil => simp [splitOn]
  | cons c cs ih =>
    unfold splitOn
    split
    · simp
    · split <;> simp

theorem splitOn_free {sep : Char} {f : Str} (h : Free sep f) : splitOn sep f = [f] := by
  induction f with
  | nil => rfl
  | cons c cs ih =>
    have hc : c ≠ sep := h c (List.mem_cons_self ..)
    have := ih (fun d hd => h d (List.mem_cons_of_mem _ hd))
    simp [splitOn, hc, this]

theorem splitOn_append_sep {sep : Char} {a : Str} (b : Str) (h : Free sep a) :
    splitOn sep (a ++ sep :: b) = a :: splitOn sep b := by
  induction a with
  | nil => simp [splitOn]
  | cons c cs ih =>
    have hc : c ≠ sep := h c (List.mem_cons_self ..)
    have := ih (fun d hd => h d (List.mem_cons_of_mem _ hd))
    simp [splitOn, hc, this]

theorem splitOn_hints {h : Str} {fs : List Str} (hh : Free '+' h) (hfs : ∀ f ∈ fs, Free '+' f) :
    splitOn '+' (h ++ hints fs) = h :: fs := by
  induction fs generalizing h with
  | nil => simpa using splitOn_free hh
  | cons f fs ih =>
    rw [hints_cons, List.cons_append, splitOn_append_sep _ hh,
      ih (hfs f (List.mem_cons_self ..)) (fun g hg => hfs g (List.mem_cons_of_mem _ hg))]

theorem splitOn_eq_cons {sep : Char} {s h : Str} {fs : List Str} (e : splitOn sep s = h :: fs) :
    s = h ++ fs.flatMap (fun f => sep :: f) ∧ Free sep h ∧ ∀ f ∈ fs, Free sep f := by
  induction s generalizing h fs with
  | nil =>
    simp [splitOn] at e
    obtain ⟨rfl, rfl⟩ := e
    simp [Free]
  | cons c cs ih =>
    unfold splitOn at e
    split at e
    · rename_i hc
      simp at e
      obtain ⟨rfl, rfl⟩ := e
      cases hs : splitOn sep cs with
      | nil => exact absurd hs (splitOn_ne_nil _ _)
      | cons g gs =>
        obtain ⟨e1, f1, f2⟩ := ih hs
        refine ⟨?_, by simp [Free], ?_⟩
        · simp [hc, e1]
        · intro f hf
          rcases List.mem_cons.mp hf with rfl | hf
          · exact f1
          · exact f2 f hf
    · rename_i hc
      cases hs : splitOn sep cs with
      | nil => exact absurd hs (splitOn_ne_nil _ _)
      | cons g gs =>
        rw [hs] at e
        simp at e
        obtain ⟨rfl, rfl⟩ := e
        obtain ⟨e1, f1, f2⟩ := ih hs
        refine ⟨by simp [e1], ?_, f2⟩
        intro d hd
        rcases List.mem_cons.mp hd with rfl | hd
        · exact hc
        · exact f1 d hd

theorem splitOn_plus_eq_cons {s h : Str} {fs : List Str} (e : splitOn '+' s = h :: fs) :
    s = h ++ hints fs := (splitOn_eq_cons e).1

/-- the text before the first separator is the first field -/
theorem takeWhile_eq_head_splitOn (sep : Char) (s : Str) :
    ∃ fs, splitOn sep s = s.takeWhile (· ≠ sep) :: fs := by
  induction s with
  | nil => exact ⟨[], rfl⟩
  | cons c cs ih =>
    obtain ⟨fs, e⟩ := ih
    by_cases hc : c = sep
    · exact ⟨splitOn sep cs, by simp [splitOn, hc]⟩
    · exact ⟨fs, by simp [splitOn, hc, e]⟩

/-! ## hex formatting -/

theorem natHex_eq_if (n : Nat) :
    natHex n = if n < 16 then [Nat.digitChar n] else natHex (n / 16) ++ [Nat.digitChar (n % 16)] :=
  Nat.toDigits_eq_if (by decide)

theorem natHex_lowerHex (n : Nat) : ∀ c ∈ natHex n, isLowerHex c = true := by
  induction n using Nat.strongRecOn with
  | _ n ih =>
    rw [natHex_eq_if]
    split
    · intro c hc
      simp at hc
      subst hc
      exact isLowerHex_digitChar n ‹_›
    · intro c hc
      rcases List.mem_append.mp hc with hc | hc
      · exact ih (n / 16) (by omega) c hc
      · simp at hc
        subst hc
        exact isLowerHex_digitChar _ (Nat.mod_lt _ (by decide))

theorem natHex_ne_nil (n : Nat) : natHex n ≠ [] := Nat.toDigits_ne_nil

theorem natHex_length_le_iff (n k : Nat) (hk : 0 < k) : (natHex n).length ≤ k ↔ n < 16 ^ k :=
  Nat.length_toDigits_le_iff (by decide) hk

theorem hexNat?_append (a b : Str) (acc : Nat) :
    hexNat? (a ++ b) acc = (hexNat? a acc).bind (hexNat? b) := by
  induction a generalizing acc with
  | nil => simp [hexNat?]
  | cons c cs ih =>
    simp only [List.cons_append, hexNat?]
    cases hexVal? c with
    | none => simp
    | some v => simp [ih]

theorem hexNat?_natHex (n : Nat) : hexNat? (natHex n) 0 = some n := by
  induction n using Nat.strongRecOn with
  | _ n ih =>
    rw [natHex_eq_if]
    split
    · simp [hexNat?, hexVal_digitChar n ‹_›]
    · rw [hexNat?_append, ih (n / 16) (by omega)]
      simp [hexNat?, hexVal_digitChar _ (Nat.mod_lt n (by decide : 0 < 16))]
      omega

theorem hexNat?_zeros (k : Nat) (s : Str) : hexNat? (List.replicate k '0' ++ s) 0 = hexNat? s 0 := by
  induction k with
  | zero => simp
  | succ k ih =>
    simp only [List.replicate_succ, List.cons_append, hexNat?]
    have : hexVal? '0' = some 0 := by decide
    simp [this, ih]

theorem natHex_injective {a b : Nat} (h : natHex a = natHex b) : a = b := by
  have := hexNat?_natHex a
  rw [h, hexNat?_natHex] at this
  exact (Option.some.inj this).symm

/-- value bound: a string of hex digits of length `k` parses to a number below `16^k` -/
theorem hexNat?_xdigits (s : Str) (acc : Nat) (h : ∀ c ∈ s, isXDigit c = true) :
    ∃ v, hexNat? s acc = some v ∧ v < (acc + 1) * 16 ^ s.length := by
  induction s generalizing acc with
  | nil => exact ⟨acc, rfl, by simp⟩
  | cons c cs ih =>
    have hc := h c (List.mem_cons_self ..)
    have hv : ∃ d, hexVal? c = some d ∧ d < 16 := by
      have h1 : ('0'.val ≤ c.val ∧ c.val ≤ '9'.val) ∨ ('a'.val ≤ c.val ∧ c.val ≤ 'f'.val) ∨
          ('A'.val ≤ c.val ∧ c.val ≤ 'F'.val) := by
        simpa [isXDigit, isLowerHex, isDigit, Char.le_def, or_assoc] using hc
      have t0 : ('0' : Char).val.toNat = 48 := by decide
      have t9 : ('9' : Char).val.toNat = 57 := by decide
      have ta : ('a' : Char).val.toNat = 97 := by decide
      have tf : ('f' : Char).val.toNat = 102 := by decide
      have tA : ('A' : Char).val.toNat = 65 := by decide
      have tF : ('F' : Char).val.toNat = 70 := by decide
      simp only [UInt32.le_iff_toNat_le, t0, t9, ta, tf, tA, tF] at h1
      have hn : c.toNat = c.val.toNat := rfl
      rw [← hn] at h1
      have e : hexVal? c =
          if 48 ≤ c.toNat ∧ c.toNat ≤ 57 then some (c.toNat - 48)
          else if 97 ≤ c.toNat ∧ c.toNat ≤ 102 then some (c.toNat - 87)
          else if 65 ≤ c.toNat ∧ c.toNat ≤ 70 then some (c.toNat - 55) else none := by
        unfold hexVal? isDigit
        simp only [Char.le_def, UInt32.le_iff_toNat_le, t0, t9, ta, tf, tA, tF, Bool.and_eq_true,
          decide_eq_true_eq, ← hn]
      rw [e]
      split
      · exact ⟨_, rfl, by omega⟩
      · split
        · exact ⟨_, rfl, by omega⟩
        · split
          · exact ⟨_, rfl, by omega⟩
          · omega
    obtain ⟨d, hd, hd16⟩ := hv
    obtain ⟨v, e, hvlt⟩ := ih (acc * 16 + d) (fun x hx => h x (List.mem_cons_of_mem _ hx))
    refine ⟨v, by simp [hexNat?, hd, e], ?_⟩
    calc v < (acc * 16 + d + 1) * 16 ^ cs.length := hvlt
      _ ≤ ((acc + 1) * 16) * 16 ^ cs.length := Nat.mul_le_mul_right _ (by omega)
      _ = (acc + 1) * 16 ^ (cs.length + 1) := by rw [Nat.pow_succ, Nat.mul_assoc, Nat.mul_comm 16]

end ArvVerif.C07
