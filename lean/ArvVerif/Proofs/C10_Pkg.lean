/-
C10 — the Go manifest package's range mapper (`sendFileSegmentIterByName`: firstBlock + block loop)
agrees with the reference interpreter `resolveTok` on every file token that lies inside its stream,
and never reaches one of its `panic`s there.
-/
import ArvVerif.Proofs.C10_Resolve
namespace ArvVerif.C10

/-- (locator, blockPos, blockEnd) triples of a block list laid out from `base` -/
def spansFrom : Nat → List Loc → List (Bytes × Nat × Nat)
  | _, [] => []
  | base, b :: rest => (b.text, base, base + b.size) :: spansFrom (base + b.size) rest

theorem plainOffsets_ne_nil (bs : List Loc) (base : Nat) : plainOffsets base bs ≠ [] := by
  cases bs <;> simp [plainOffsets]

theorem plainOffsets_head (bs : List Loc) (base : Nat) : ∃ tl, plainOffsets base bs = base :: tl := by
  cases bs <;> simp [plainOffsets]

theorem spansOf_plain : ∀ (bs : List Loc) (base : Nat), spansOf bs (plainOffsets base bs) = spansFrom base bs
  | [], base => by simp [spansOf, spansFrom]
  | b :: rest, base => by
    obtain ⟨tl, htl⟩ := plainOffsets_head rest (base + b.size)
    have ih := spansOf_plain rest (base + b.size)
    simp only [spansOf, plainOffsets, spansFrom] at ih ⊢
    rw [htl] at ih ⊢
    simp only [List.tail_cons, List.zip_cons_cons, List.map_cons] at ih ⊢
    rw [ih]

theorem spansFrom_drop : ∀ (bs : List Loc) (base i : Nat),
    (spansFrom base bs).drop i = spansFrom (base + streamLen (bs.take i)) (bs.drop i)
  | [], base, i => by simp [spansFrom]
  | b :: rest, base, 0 => by simp
  | b :: rest, base, i + 1 => by
    simp only [spansFrom, List.drop_succ_cons, List.take_succ_cons, streamLen_cons]
    rw [spansFrom_drop rest (base + b.size) i]
    congr 1; omega

theorem subU64_eq {a b : Nat} (hba : b ≤ a) (ha : a < two64) : subU64 a b = a - b := by
  unfold subU64
  rw [Nat.mod_eq_of_lt (by omega : b < two64)]
  have : a + two64 - b = (a - b) + two64 := by omega
  rw [this, Nat.add_mod_right, Nat.mod_eq_of_lt (by omega)]

theorem toI64_eq {x : Nat} (hx : x < two63) : toI64 x = (x : Int) := by
  unfold toI64
  have h64 : x < two64 := by unfold two63 at hx; unfold two64; omega
  rw [Nat.mod_eq_of_lt h64, if_pos hx]

theorem keepPositive_cons (p : PSeg) (ps : List PSeg) :
    keepPositive (p :: ps) =
      (if p.len > 0 then [⟨p.loc, p.off.toNat, p.len.toNat⟩] else []) ++ keepPositive ps := by
  unfold keepPositive
  rw [List.filterMap_cons]
  split <;> rename_i h <;> split at h <;> simp_all

/-- The block loop from a block that contains `wantPos` (or from any block after it): no panic,
and the positive-length segments are exactly the reference interpreter's pieces. -/
theorem sendLoop_spec (wantPos wl : Nat) (hwl : wantPos < wl) (h64 : wl < two64) :
    ∀ (bs : List Loc) (base : Nat),
      (∀ b ∈ bs, b.size < two63) → base + streamLen bs < two64 →
      (wantPos < base ∨ ∃ b rest, bs = b :: rest ∧ base ≤ wantPos ∧ wantPos < base + b.size) →
      ∃ segs, sendLoop wantPos wl (spansFrom base bs) = .ok segs ∧
        keepPositive segs = resolveTok bs base wantPos (wl - wantPos) := by
  intro bs
  induction bs with
  | nil => intro base _ _ _; exact ⟨[], rfl, rfl⟩
  | cons b rest ih =>
    intro base hsz htot hpre
    have hb : b.size < two63 := hsz b (by simp)
    simp only [streamLen_cons] at htot
    have hnp : ¬ (base + b.size ≤ wantPos) := by
      rcases hpre with h | ⟨b', r', he, h1, h2⟩
      · omega
      · cases he; omega
    simp only [spansFrom, sendLoop]
    rw [if_neg hnp]
    by_cases hbrk : base ≥ wl
    · rw [if_pos hbrk]
      refine ⟨[], rfl, ?_⟩
      rw [resolveTok_nil_of_ge _ _ _ _ (by omega)]; rfl
    · rw [if_neg hbrk]
      obtain ⟨segs', hs', hk'⟩ := ih (base + b.size) (fun x hx => hsz x (List.mem_cons_of_mem _ hx))
        (by omega) (Or.inl (by omega))
      rw [hs']
      simp only [Res.bind]
      refine ⟨_, rfl, ?_⟩
      rw [keepPositive_cons, hk']
      have e1 : subU64 (base + b.size) base = b.size := by rw [subU64_eq (by omega) (by omega)]; omega
      have e1' : toI64 (subU64 (base + b.size) base) = (b.size : Int) := by rw [e1, toI64_eq hb]
      conv => rhs; unfold resolveTok
      simp only []
      by_cases hlt : base < wantPos
      · have e2 : toI64 (subU64 wantPos base) = ((wantPos - base : Nat) : Int) := by
          rw [subU64_eq (by omega) (by omega), toI64_eq (by omega)]
        by_cases hend : base + b.size > wl
        · have e3 : toI64 (subU64 wl base) = ((wl - base : Nat) : Int) := by
            rw [subU64_eq (by omega) (by omega), toI64_eq (by omega)]
          simp only [if_pos hlt, if_pos hend, e1', e2, e3]
          have hmax : max wantPos base = wantPos := by omega
          have hmin : min (wantPos + (wl - wantPos)) (base + b.size) = wl := by omega
          rw [hmax, hmin, if_pos hwl, if_pos (by omega)]
          simp only [List.cons_append, List.nil_append, List.cons.injEq, and_true]
          congr 1 <;> omega
        · simp only [if_pos hlt, if_neg hend, e1', e2]
          have hmax : max wantPos base = wantPos := by omega
          have hmin : min (wantPos + (wl - wantPos)) (base + b.size) = base + b.size := by omega
          rw [hmax, hmin, if_pos (by omega), if_pos (by omega)]
          simp only [List.cons_append, List.nil_append, List.cons.injEq, and_true]
          congr 1 <;> omega
      · by_cases hend : base + b.size > wl
        · have e3 : toI64 (subU64 wl base) = ((wl - base : Nat) : Int) := by
            rw [subU64_eq (by omega) (by omega), toI64_eq (by omega)]
          simp only [if_neg hlt, if_pos hend, e1', e3]
          have hmax : max wantPos base = base := by omega
          have hmin : min (wantPos + (wl - wantPos)) (base + b.size) = wl := by omega
          rw [hmax, hmin, if_pos (by omega), if_pos (by omega)]
          simp only [List.cons_append, List.nil_append, List.cons.injEq, and_true]
          congr 1 <;> omega
        · simp only [if_neg hlt, if_neg hend, e1']
          have hmax : max wantPos base = base := by omega
          have hmin : min (wantPos + (wl - wantPos)) (base + b.size) = base + b.size := by omega
          rw [hmax, hmin]
          by_cases hz : b.size = 0
          · rw [if_neg (by omega), if_neg (by omega)]; rfl
          · rw [if_pos (by omega), if_pos (by omega)]
            simp only [List.cons_append, List.nil_append, List.cons.injEq, and_true]
            congr 1 <;> omega

/-- One file token inside the stream (`pos + len ≤` stream length `< 2^64`, block sizes `< 2^63`
as `ParseInt` guarantees): `sendFileSegmentIterByName` does not panic and what `segment()` keeps of
its output is `resolveTok`. This is the statement that failed before fix 584d30b. -/
theorem sendTok_spec (name : Bytes) (bs : List Loc) (files : List FTok) (f : FTok)
    (hsz : ∀ b ∈ bs, b.size < two63) (htot : streamLen bs < two64)
    (hin : f.pos + f.len ≤ streamLen bs) :
    ∃ segs, sendTok firstBlock ⟨name, bs, offsetsFrom 0 bs, files, false⟩ f = .ok segs ∧
      keepPositive segs = resolveTok bs 0 f.pos f.len := by
  unfold sendTok
  by_cases h0 : f.len = 0
  · rw [if_pos h0, h0, resolveTok_len0]
    exact ⟨_, rfl, by simp [keepPositive]⟩
  · rw [if_neg h0]
    simp only []
    rw [offsetsFrom_eq_plain bs 0 (by omega)]
    have hne : bs ≠ [] := by
      intro h; subst h; simp at hin; omega
    have hlen : 2 ≤ (plainOffsets 0 bs).length := by
      rw [plainOffsets_length]
      have := List.length_pos_iff.mpr hne; omega
    obtain ⟨i, hi⟩ := exists_inBlock bs 0 f.pos (Nat.zero_le _) (by omega)
    rw [(firstBlock_found_iff _ _ i hlen (plainOffsets_sorted bs 0)).mpr hi]
    simp only []
    obtain ⟨a, c, ha, hc, h1, h2⟩ := hi
    have hil : i < bs.length := by
      have := (List.getElem?_eq_some_iff.mp hc).1
      rw [plainOffsets_length] at this; omega
    rw [plainOffsets_get bs 0 i (by omega)] at ha
    rw [plainOffsets_get bs 0 (i + 1) (by omega)] at hc
    cases ha; cases hc
    rw [spansOf_plain, spansFrom_drop]
    have hdrop : bs.drop i = bs[i] :: bs.drop (i + 1) := (List.drop_eq_getElem_cons hil)
    have htake := streamLen_take_succ bs i hil
    have hsplit := streamLen_take_drop bs i
    have hmod : (f.pos + f.len) % two64 = f.pos + f.len := Nat.mod_eq_of_lt (by omega)
    rw [hmod]
    have := sendLoop_spec f.pos (f.pos + f.len) (by omega) (by omega) (bs.drop i) (0 + streamLen (bs.take i))
      (fun x hx => hsz x (List.mem_of_mem_drop hx)) (by omega)
      (Or.inr ⟨bs[i], bs.drop (i + 1), hdrop, by omega, by omega⟩)
    obtain ⟨segs, hs, hk⟩ := this
    refine ⟨segs, hs, ?_⟩
    rw [hk, resolveTok_drop bs 0 f.pos f.len i (by omega)]
    congr 1; omega

end ArvVerif.C10
