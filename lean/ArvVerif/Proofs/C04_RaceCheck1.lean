/- C04 interleaving layer: kernel evaluation of the table check for the 36 configurations with
Serialize = false, BlobTrashLifetime == 0 = true. -/
import ArvVerif.Proofs.C04_RaceTable
namespace ArvVerif.C04.Race

theorem checkGroup1 : ((cfgGroup false true).all fun c => checkCfg c (tableOf c)) = true := by decide +kernel

end ArvVerif.C04.Race
