/-
C10 — the binary searches `manifest.firstBlock` (Go) and `_ranges.first_block` (Python):
termination (the fuel of the model is never exhausted) and correctness for every non-decreasing
offsets array, zero-length blocks included.
-/
import ArvVerif.Model.C10_Py
namespace ArvVerif.C10

/-- `start` lies in block `i` of the offsets array: `offs[i] ≤ start < offs[i+1]` -/
def InBlock (offs : List Nat) (start i : Nat) : Prop :=
  ∃ bs be, offs[i]? = some bs ∧ offs[i + 1]? = some be ∧ bs ≤ start ∧ start < be

theorem pairwise_le_get {offs : List Nat} (hs : offs.Pairwise (· ≤ ·)) {j k : Nat} {a b : Nat}
    (hjk : j ≤ k) (ha : offs[j]? = some a) (hb : offs[k]? = some b) : a ≤ b := by
  rcases Nat.lt_or_eq_of_le hjk with h | h
  · obtain ⟨hj, rfl⟩ := List.getElem?_eq_some_iff.mp ha
    obtain ⟨hk, rfl⟩ := List.getElem?_eq_some_iff.mp hb
    exact (List.pairwise_iff_getElem.mp hs) j k hj hk h
  · subst h; rw [ha] at hb; cases hb; exact Nat.le_refl _

/-- in a non-decreasing array the block containing `start` is unique -/
theorem inBlock_unique {offs : List Nat} (hs : offs.Pairwise (· ≤ ·)) {start i j : Nat}
    (hi : InBlock offs start i) (hj : InBlock offs start j) : i = j := by
  obtain ⟨a, b, ha, hb, h1, h2⟩ := hi
  obtain ⟨c, d, hc, hd, h3, h4⟩ := hj
  rcases Nat.lt_trichotomy i j with h | h | h
  · have := pairwise_le_get hs (Nat.succ_le_of_lt h) hb hc; omega
  · exact h
  · have := pairwise_le_get hs (Nat.succ_le_of_lt h) hd ha; omega

/-- Loop invariant ⇒ result. `lo < hi`, both block bounds of every probe exist, the fuel covers
`hi - lo`, and every block containing `start` lies in `[lo, hi)`. -/
theorem fbLoop_spec (offs : List Nat) (start : Nat) (hs : offs.Pairwise (· ≤ ·)) :
    ∀ fuel lo hi, lo < hi → hi + 1 ≤ offs.length → hi - lo ≤ fuel →
      (∀ j, InBlock offs start j → lo ≤ j ∧ j < hi) →
      (∃ i, fbLoop goRightNew offs start fuel lo hi ((hi + lo) / 2) = .found i ∧ InBlock offs start i) ∨
      (fbLoop goRightNew offs start fuel lo hi ((hi + lo) / 2) = .notFound ∧ ∀ j, ¬ InBlock offs start j) := by
  intro fuel
  induction fuel with
  | zero => intro lo hi h1 _ h3 _; omega
  | succ fuel ih =>
    intro lo hi hlt hlen hfuel hcand
    have hi1 : lo ≤ (hi + lo) / 2 := by omega
    have hi2 : (hi + lo) / 2 < hi := by omega
    have hA : (hi + lo) / 2 < offs.length := by omega
    have hB : (hi + lo) / 2 + 1 < offs.length := by omega
    have eA : offs[(hi + lo) / 2]? = some offs[(hi + lo) / 2] := List.getElem?_eq_getElem hA
    have eB : offs[(hi + lo) / 2 + 1]? = some offs[(hi + lo) / 2 + 1] := List.getElem?_eq_getElem hB
    unfold fbLoop
    rw [eA, eB]
    simp only []
    by_cases hin : offs[(hi + lo) / 2] ≤ start ∧ start < offs[(hi + lo) / 2 + 1]
    · rw [if_pos hin]
      exact Or.inl ⟨_, rfl, _, _, eA, eB, hin.1, hin.2⟩
    · rw [if_neg hin]
      by_cases hlo : lo = (hi + lo) / 2
      · rw [if_pos hlo]
        refine Or.inr ⟨rfl, ?_⟩
        intro j hj
        have := hcand j hj
        have hji : j = (hi + lo) / 2 := by omega
        subst hji
        obtain ⟨a, b, ha, hb, h1, h2⟩ := hj
        rw [eA] at ha; rw [eB] at hb; cases ha; cases hb
        exact hin ⟨h1, h2⟩
      · rw [if_neg hlo]
        by_cases hr : offs[(hi + lo) / 2 + 1] ≤ start
        · have : goRightNew offs[(hi + lo) / 2] offs[(hi + lo) / 2 + 1] start = true := by
            simp [goRightNew, hr]
          rw [if_pos this]
          apply ih ((hi + lo) / 2) hi hi2 hlen (by omega)
          intro j hj
          have hc := hcand j hj
          refine ⟨?_, hc.2⟩
          obtain ⟨a, b, ha, hb, h1, h2⟩ := hj
          rcases Nat.lt_or_ge j ((hi + lo) / 2) with hlt' | hge
          · have := pairwise_le_get hs (Nat.succ_le_of_lt hlt') hb eA
            have := pairwise_le_get hs (Nat.le_succ _) eA eB
            omega
          · exact hge
        · have : goRightNew offs[(hi + lo) / 2] offs[(hi + lo) / 2 + 1] start = false := by
            simp [goRightNew, hr]
          rw [this]
          simp only [Bool.false_eq_true, if_false]
          apply ih lo ((hi + lo) / 2) (by omega) (by omega) (by omega)
          intro j hj
          have hc := hcand j hj
          refine ⟨hc.1, ?_⟩
          obtain ⟨a, b, ha, hb, h1, h2⟩ := hj
          rcases Nat.lt_or_ge j ((hi + lo) / 2) with hlt' | hge
          · exact hlt'
          · have := pairwise_le_get hs hge eA ha
            omega

/-- **Correctness and termination of `firstBlock`** (fixed code) for every non-decreasing offsets
array with at least one block, zero-length blocks anywhere: it returns the unique block containing
`start`, or `-1` exactly when no block contains it; it never runs out of fuel and never indexes
out of range. -/
theorem firstBlock_spec (offs : List Nat) (start : Nat) (hlen : 2 ≤ offs.length)
    (hs : offs.Pairwise (· ≤ ·)) :
    (∃ i, firstBlock offs start = .found i ∧ InBlock offs start i) ∨
    (firstBlock offs start = .notFound ∧ ∀ j, ¬ InBlock offs start j) := by
  unfold firstBlock firstBlockWith
  rw [if_neg (by omega)]
  have := fbLoop_spec offs start hs (offs.length + 1) 0 (offs.length - 1) (by omega) (by omega) (by omega)
    (by
      intro j hj
      obtain ⟨a, b, ha, hb, _, _⟩ := hj
      have := (List.getElem?_eq_some_iff.mp hb).1
      omega)
  simpa using this

theorem firstBlock_found_iff (offs : List Nat) (start i : Nat) (hlen : 2 ≤ offs.length)
    (hs : offs.Pairwise (· ≤ ·)) : firstBlock offs start = .found i ↔ InBlock offs start i := by
  rcases firstBlock_spec offs start hlen hs with ⟨k, hk, hin⟩ | ⟨hn, hno⟩
  · constructor
    · intro h; rw [hk] at h; cases h; exact hin
    · intro h; rw [hk, inBlock_unique hs hin h]
  · constructor
    · intro h; rw [hn] at h; cases h
    · intro h; exact absurd h (hno i)

/-! ## Python `first_block` -/

/-- offsets array of a Range list: starts, then the end of the last range -/
def pyOffsets : List PyRange → List Nat
  | [] => []
  | [r] => [r.start, r.start + r.size]
  | r :: r' :: rest => r.start :: pyOffsets (r' :: rest)

/-- the ranges are contiguous: each starts where its predecessor ends -/
def Contiguous : List PyRange → Prop
  | [] => True
  | [_] => True
  | r :: r' :: rest => r.start + r.size = r'.start ∧ Contiguous (r' :: rest)

theorem pyOffsets_length : ∀ rs : List PyRange, rs ≠ [] → (pyOffsets rs).length = rs.length + 1
  | [], h => absurd rfl h
  | [_], _ => rfl
  | _ :: r' :: rest, _ => by
    simp only [pyOffsets, List.length_cons]
    rw [pyOffsets_length (r' :: rest) (by simp)]
    simp

theorem pyOffsets_get : ∀ (rs : List PyRange) (i : Nat) (r : PyRange), Contiguous rs → rs[i]? = some r →
    (pyOffsets rs)[i]? = some r.start ∧ (pyOffsets rs)[i + 1]? = some (r.start + r.size)
  | [], i, r, _, h => by simp at h
  | [a], i, r, _, h => by
    cases i with
    | zero => simp at h; subst h; simp [pyOffsets]
    | succ i => simp at h
  | a :: b :: rest, i, r, hc, h => by
    cases i with
    | zero =>
      simp at h; subst h
      have : (pyOffsets (b :: rest))[0]? = some b.start := by
        cases rest <;> simp [pyOffsets]
      simp [pyOffsets, this, hc.1]
    | succ i =>
      have h' : (b :: rest)[i]? = some r := by simpa using h
      have := pyOffsets_get (b :: rest) i r hc.2 h'
      simpa [pyOffsets] using this

theorem pyOffsets_none (rs : List PyRange) (i : Nat) (hne : rs ≠ []) (h : rs[i]? = none) :
    (pyOffsets rs)[i + 1]? = none := by
  have := pyOffsets_length rs hne
  have hi : rs.length ≤ i := List.getElem?_eq_none_iff.mp h
  exact List.getElem?_eq_none_iff.mpr (by omega)

/-- The Python loop is the Go loop on the offsets array of the (contiguous, non-empty) ranges. -/
theorem pyFbLoop_eq (g : Nat → Nat → Nat → Bool) (rs : List PyRange) (start : Nat) (hne : rs ≠ [])
    (hc : Contiguous rs) :
    ∀ fuel lo hi i, pyFbLoop g rs start fuel lo hi i = fbLoop g (pyOffsets rs) start fuel lo hi i := by
  intro fuel
  induction fuel with
  | zero => intros; rfl
  | succ fuel ih =>
    intro lo hi i
    unfold pyFbLoop fbLoop
    cases h : rs[i]? with
    | none =>
      rw [pyOffsets_none rs i hne h]
      cases (pyOffsets rs)[i]? <;> rfl
    | some r =>
      obtain ⟨h1, h2⟩ := pyOffsets_get rs i r hc h
      rw [h1, h2]
      simp only [ih]

theorem pyOffsets_head_le : ∀ (rs : List PyRange) (r : PyRange) (rest : List PyRange), rs = r :: rest →
    Contiguous rs → ∀ x ∈ pyOffsets rs, r.start ≤ x
  | [], _, _, h, _ => by cases h
  | [a], r, rest, h, _ => by
    cases h
    intro x hx
    simp [pyOffsets] at hx
    omega
  | a :: b :: tl, r, rest, h, hc => by
    cases h
    intro x hx
    simp only [pyOffsets, List.mem_cons] at hx
    rcases hx with hx | hx
    · omega
    · have := pyOffsets_head_le (b :: tl) b tl rfl hc.2 x hx
      have := hc.1
      omega

theorem pyOffsets_sorted : ∀ rs : List PyRange, Contiguous rs → (pyOffsets rs).Pairwise (· ≤ ·)
  | [], _ => by simp [pyOffsets]
  | [a], _ => by simp [pyOffsets]
  | a :: b :: tl, hc => by
    simp only [pyOffsets, List.pairwise_cons]
    refine ⟨?_, pyOffsets_sorted (b :: tl) hc.2⟩
    intro x hx
    have := pyOffsets_head_le (b :: tl) b tl rfl hc.2 x hx
    have := hc.1
    omega

/-- `start` lies in range `i` -/
def PyInBlock (rs : List PyRange) (start i : Nat) : Prop :=
  ∃ r, rs[i]? = some r ∧ r.start ≤ start ∧ start < r.start + r.size

theorem pyInBlock_iff (rs : List PyRange) (start i : Nat) (hne : rs ≠ []) (hc : Contiguous rs) :
    InBlock (pyOffsets rs) start i ↔ PyInBlock rs start i := by
  constructor
  · rintro ⟨a, b, ha, hb, h1, h2⟩
    cases h : rs[i]? with
    | none => rw [pyOffsets_none rs i hne h] at hb; cases hb
    | some r =>
      obtain ⟨e1, e2⟩ := pyOffsets_get rs i r hc h
      rw [e1] at ha; rw [e2] at hb; cases ha; cases hb
      exact ⟨r, h, h1, h2⟩
  · rintro ⟨r, hr, h1, h2⟩
    obtain ⟨e1, e2⟩ := pyOffsets_get rs i r hc hr
    exact ⟨_, _, e1, e2, h1, h2⟩

/-- **Correctness and termination of Python `first_block`** (fixed code) for every non-empty list
of contiguous ranges, zero-length ranges anywhere. -/
theorem pyFirstBlock_spec (rs : List PyRange) (start : Nat) (hne : rs ≠ []) (hc : Contiguous rs) :
    (∃ i, pyFirstBlock rs start = .found i ∧ PyInBlock rs start i) ∨
    (pyFirstBlock rs start = .notFound ∧ ∀ j, ¬ PyInBlock rs start j) := by
  unfold pyFirstBlock pyFirstBlockWith
  rw [pyFbLoop_eq goRightNew rs start hne hc]
  have hl := pyOffsets_length rs hne
  have hpos : 0 < rs.length := List.length_pos_iff.mpr hne
  have := fbLoop_spec (pyOffsets rs) start (pyOffsets_sorted rs hc) (rs.length + 1) 0 rs.length hpos
    (by omega) (by omega)
    (by
      intro j hj
      obtain ⟨a, b, ha, hb, _, _⟩ := hj
      have := (List.getElem?_eq_some_iff.mp hb).1
      omega)
  simp only [Nat.add_zero] at this
  rcases this with ⟨i, h1, h2⟩ | ⟨h1, h2⟩
  · exact Or.inl ⟨i, h1, (pyInBlock_iff rs start i hne hc).mp h2⟩
  · exact Or.inr ⟨h1, fun j hj => h2 j ((pyInBlock_iff rs start j hne hc).mpr hj)⟩

end ArvVerif.C10
