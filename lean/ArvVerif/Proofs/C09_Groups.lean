/-
C09 helper lemmas, part 3: completeness of the synchronous flush. With `shortBlocks` every mem
segment of the directory's files is in one of the groups `dirnode.flush` hands to `commitBlock`, and
when every `commitBlock` succeeds no mem segment is left — so `marshalManifest` never reaches its
"can't marshal segment type" panic after a successful flush.
-/
import ArvVerif.Proofs.C09_Tree
namespace ArvVerif.C09

open ArvVerif.C08 (Seg FileNode Ptr Flush Store Ref)

variable {max : Nat} {hash : Bytes → C08.Loc}

/-! ### segAt / setSeg -/

theorem segAt_setSeg (fs : List FileNode) (r : Ref) (s : Seg) (r' : Ref) :
    C08.segAt (C08.setSeg fs r s) r' =
      if r' = r ∧ (C08.segAt fs r).isSome then some s else C08.segAt fs r' := by
  unfold C08.setSeg
  cases hf : fs[r.1]? with
  | none =>
    simp only []
    have : C08.segAt fs r = none := by unfold C08.segAt; rw [hf]
    rw [this]; simp
  | some fn =>
    simp only []
    have hlt : r.1 < fs.length := by
      apply Classical.byContradiction; intro hn
      rw [List.getElem?_eq_none (by omega)] at hf; cases hf
    unfold C08.segAt
    rw [List.getElem?_set]
    by_cases h1 : r.1 = r'.1
    · rw [if_pos h1, if_pos hlt]
      simp only []
      rw [List.getElem?_set]
      by_cases h2 : r.2 = r'.2
      · have heq : r' = r := by cases r; cases r'; simp_all
        rw [if_pos h2]
        by_cases h3 : r.2 < fn.segs.length
        · rw [if_pos h3, if_pos ⟨heq, by simp only [hf]; simp [h3]⟩]
        · rw [if_neg h3]
          have hnone : fn.segs[r.2]? = none := List.getElem?_eq_none (by omega)
          rw [if_neg (by simp only [hf, hnone]; simp)]
          rw [← h1, hf]; simp only []; rw [← h2, hnone]
      · rw [if_neg h2, if_neg (by intro ⟨h, _⟩; rw [h] at h2; exact h2 rfl)]
        rw [← h1, hf]
    · rw [if_neg h1, if_neg (by intro ⟨h, _⟩; rw [h] at h1; exact h1 rfl)]

/-- the ref points at a stored segment -/
def IsStoredAt (fs : List FileNode) (r : Ref) : Prop := ∃ a b c d, C08.segAt fs r = some (Seg.stored a b c d)

theorem refBuf_eq_of_segAt {fs fs' : List FileNode} {r : Ref} (h : C08.segAt fs' r = C08.segAt fs r) :
    C08.refBuf fs' r = C08.refBuf fs r := by unfold C08.refBuf; rw [h]

theorem refBuf_none_of_stored {fs : List FileNode} {r : Ref} (h : IsStoredAt fs r) : C08.refBuf fs r = none := by
  obtain ⟨a, b, c, d, h⟩ := h
  unfold C08.refBuf; rw [h]

theorem refBuf_segAt {fs : List FileNode} {r : Ref} {buf : Bytes} (h : C08.refBuf fs r = some buf) :
    ∃ fl, C08.segAt fs r = some (Seg.mem buf fl) := by
  obtain ⟨fn, fl, h1, h2⟩ := refBuf_some h
  exact ⟨fl, by unfold C08.segAt; rw [h1]; exact h2⟩

/-! ### one successful commitBlock -/

/-- after `commitBlock(refs)`: a ref of the group that pointed at a mem segment points at a stored
one, every other position is untouched -/
theorem commitBlock_segAt (st : Store) (files : List FileNode) (refs : List Ref) (r' : Ref) :
    (r' ∈ refs ∧ (C08.refBuf files r').isSome → IsStoredAt (C08.commitBlock hash st files refs).2 r') ∧
    (¬ (r' ∈ refs ∧ (C08.refBuf files r').isSome) →
      C08.segAt (C08.commitBlock hash st files refs).2 r' = C08.segAt files r') := by
  unfold C08.commitBlock
  simp only []
  generalize hash (refs.flatMap fun r => (C08.refBuf files r).getD []) = loc
  generalize (refs.flatMap fun r => (C08.refBuf files r).getD []).length = blen
  -- the fold, over the processed prefix `done`
  have fold : ∀ (todo done : List Ref) (acc : List FileNode × Nat),
      ((r' ∈ done ∧ (C08.refBuf files r').isSome → IsStoredAt acc.1 r') ∧
       (¬ (r' ∈ done ∧ (C08.refBuf files r').isSome) → C08.segAt acc.1 r' = C08.segAt files r')) →
      ((r' ∈ done ++ todo ∧ (C08.refBuf files r').isSome →
          IsStoredAt (todo.foldl (fun (acc : List FileNode × Nat) (r : Ref) =>
            match C08.refBuf files r with
            | some buf => (C08.setSeg acc.1 r (Seg.stored loc blen acc.2 buf.length), acc.2 + buf.length)
            | none => acc) acc).1 r') ∧
       (¬ (r' ∈ done ++ todo ∧ (C08.refBuf files r').isSome) →
          C08.segAt (todo.foldl (fun (acc : List FileNode × Nat) (r : Ref) =>
            match C08.refBuf files r with
            | some buf => (C08.setSeg acc.1 r (Seg.stored loc blen acc.2 buf.length), acc.2 + buf.length)
            | none => acc) acc).1 r' = C08.segAt files r')) := by
    intro todo
    induction todo with
    | nil => intro done acc h; simpa using h
    | cons r todo ih =>
      intro done acc h
      simp only [List.foldl_cons]
      have hcat : done ++ r :: todo = (done ++ [r]) ++ todo := by simp
      rw [hcat]
      apply ih (done ++ [r])
      cases hrb : C08.refBuf files r with
      | none =>
        simp only []
        constructor
        · intro ⟨hm, hs⟩
          simp only [List.mem_append, List.mem_singleton] at hm
          rcases hm with hm | rfl
          · exact h.1 ⟨hm, hs⟩
          · rw [hrb] at hs; simp at hs
        · intro hn
          apply h.2
          intro ⟨hm, hs⟩
          exact hn ⟨by simp [hm], hs⟩
      | some buf =>
        simp only []
        by_cases heq : r' = r
        · subst heq
          have hsome : (C08.segAt acc.1 r').isSome = true := by
            by_cases hd : r' ∈ done
            · obtain ⟨a, b, c, d, e⟩ := h.1 ⟨hd, by rw [hrb]; rfl⟩
              rw [e]; rfl
            · rw [h.2 (fun hh => hd hh.1)]
              obtain ⟨fl, e⟩ := refBuf_segAt hrb
              rw [e]; rfl
          constructor
          · intro _
            refine ⟨loc, blen, acc.2, buf.length, ?_⟩
            rw [segAt_setSeg, if_pos ⟨rfl, hsome⟩]
          · intro hn
            exact absurd ⟨by simp, by rw [hrb]; rfl⟩ hn
        · constructor
          · intro ⟨hm, hs⟩
            simp only [List.mem_append, List.mem_singleton] at hm
            rcases hm with hm | hm
            · obtain ⟨a, b, c, d, e⟩ := h.1 ⟨hm, hs⟩
              exact ⟨a, b, c, d, by rw [segAt_setSeg, if_neg (fun hh => heq hh.1)]; exact e⟩
            · exact absurd hm heq
          · intro hn
            rw [segAt_setSeg, if_neg (fun hh => heq hh.1)]
            apply h.2
            intro ⟨hm, hs⟩
            exact hn ⟨by simp [hm], hs⟩
  exact fold refs [] (files, 0) ⟨fun h => absurd h.1 List.not_mem_nil, fun _ => rfl⟩

/-! ### all groups succeed -/

/-- Keep whose next `n` outcomes are all ok: `commitGroups` commits every group -/
theorem commitGroups_allOk : ∀ (groups : List (List Ref)) (k : Keep) (files files0 : List FileNode) (ok : Bool)
    (hit : List Ref), allOk groups.length k = true →
    (∀ r', (r' ∈ hit ∧ (C08.refBuf files0 r').isSome → IsStoredAt files r') ∧
           (¬ (r' ∈ hit ∧ (C08.refBuf files0 r').isSome) → C08.segAt files r' = C08.segAt files0 r')) →
    ∀ r', (r' ∈ hit ++ groups.flatten ∧ (C08.refBuf files0 r').isSome →
              IsStoredAt (commitGroups hash groups (k, files, ok)).2.1 r') ∧
          (¬ (r' ∈ hit ++ groups.flatten ∧ (C08.refBuf files0 r').isSome) →
              C08.segAt (commitGroups hash groups (k, files, ok)).2.1 r' = C08.segAt files0 r')
  | [], k, files, files0, ok, hit, _, h => by
    intro r'
    simpa [commitGroups] using h r'
  | g :: rest, k, files, files0, ok, hit, hall, h => by
    intro r'
    unfold allOk at hall
    simp only [List.length_cons, Bool.and_eq_true, beq_iff_eq] at hall
    unfold commitGroups
    simp only []
    have hk : commitK hash k files g = ((k.next.2.record hash (blockOf files g)),
        (C08.commitBlock hash k.next.2.store files g).2, true) := by
      unfold commitK
      cases ho : k.next with
      | mk o k' =>
        have : o = Outcome.ok := by rw [ho] at hall; exact hall.1
        subst this
        rfl
    rw [hk]
    simp only []
    have hrest : allOk rest.length (k.next.2.record hash (blockOf files g)) = true := by
      have hse : ScriptEq (k.next.2.record hash (blockOf files g)) k.next.2 := ⟨rfl, rfl⟩
      rw [allOk_congr _ hse]; exact hall.2
    have := commitGroups_allOk rest (k.next.2.record hash (blockOf files g))
      (C08.commitBlock hash k.next.2.store files g).2 files0 (ok && true) (hit ++ g) hrest (by
        intro x
        obtain ⟨c1, c2⟩ := commitBlock_segAt (hash := hash) k.next.2.store files g x
        obtain ⟨h1, h2⟩ := h x
        constructor
        · intro ⟨hm, hs⟩
          by_cases hx : x ∈ hit
          · -- already stored before this group: untouched by it (refBuf is none) or re-stored
            have hst := h1 ⟨hx, hs⟩
            by_cases hg : x ∈ g ∧ (C08.refBuf files x).isSome
            · exact c1 hg
            · obtain ⟨a, b, c, d, e⟩ := hst
              exact ⟨a, b, c, d, by rw [c2 hg]; exact e⟩
          · have hxg : x ∈ g := by
              simp only [List.mem_append] at hm; rcases hm with hm | hm
              · exact absurd hm hx
              · exact hm
            have hsame : C08.segAt files x = C08.segAt files0 x := h2 (fun hh => hx hh.1)
            exact c1 ⟨hxg, by rw [refBuf_eq_of_segAt hsame]; exact hs⟩
        · intro hn
          have hng : ¬ (x ∈ g ∧ (C08.refBuf files x).isSome) := by
            intro ⟨hg, hs⟩
            by_cases hx : x ∈ hit ∧ (C08.refBuf files0 x).isSome
            · rw [refBuf_none_of_stored (h1 hx)] at hs; simp at hs
            · have hsame : C08.segAt files x = C08.segAt files0 x := h2 hx
              exact hn ⟨by simp [hg], by rw [← refBuf_eq_of_segAt hsame]; exact hs⟩
          rw [c2 hng]
          exact h2 (fun hh => hn ⟨by simp [hh.1], hh.2⟩)) r'
    simpa [List.append_assoc] using this

/-! ### every mem segment is in a group -/

/-- the enumeration `flush` walks: every (file index, segment index) with its segment -/
def allRefs (files : List FileNode) : List (Ref × Seg) :=
  (files.zipIdx).flatMap (fun (fn, fi) => (fn.segs.zipIdx).map (fun (s, si) => ((fi, si), s)))

theorem mem_allRefs {files : List FileNode} {r : Ref} {s : Seg} :
    (r, s) ∈ allRefs files ↔ C08.segAt files r = some s := by
  unfold allRefs C08.segAt
  simp only [List.mem_flatMap, List.mem_map, Prod.exists, List.mem_zipIdx_iff_getElem?, Prod.mk.injEq]
  constructor
  · rintro ⟨fn, fi, hf, s', si, hs, rfl, rfl⟩
    simp only [hf, hs]
  · intro h
    cases hf : files[r.1]? with
    | none => rw [hf] at h; cases h
    | some fn =>
      rw [hf] at h
      exact ⟨fn, r.1, hf, s, r.2, h, rfl, rfl⟩

/-- the step function of `flushGroups` -/
def groupStep (max : Nat) (acc : List (List Ref) × List Ref × Nat) (r : Ref × Seg) : List (List Ref) × List Ref × Nat :=
  match r.2 with
  | Seg.stored .. => acc
  | Seg.mem buf _ =>
    if buf.length > max / 2 then (acc.1 ++ [[r.1]], acc.2.1, acc.2.2)
    else if acc.2.2 + buf.length > max then (acc.1 ++ [acc.2.1], [r.1], buf.length)
    else (acc.1, acc.2.1 ++ [r.1], acc.2.2 + buf.length)

theorem flushGroups_eq (max : Nat) (short : Bool) (files : List FileNode) :
    C08.flushGroups max short files =
      (if short then ((allRefs files).foldl (groupStep max) ([], [], 0)).1 ++ [((allRefs files).foldl (groupStep max) ([], [], 0)).2.1]
       else ((allRefs files).foldl (groupStep max) ([], [], 0)).1).filter (fun g => !g.isEmpty) := by
  unfold C08.flushGroups allRefs
  rfl

theorem groupStep_covers (max : Nat) : ∀ (l : List (Ref × Seg)) (acc : List (List Ref) × List Ref × Nat) (r : Ref),
    (r ∈ acc.1.flatten ++ acc.2.1 ∨ ∃ buf fl, (r, Seg.mem buf fl) ∈ l) →
    r ∈ (l.foldl (groupStep max) acc).1.flatten ++ (l.foldl (groupStep max) acc).2.1
  | [], acc, r, h => by
    rcases h with h | ⟨_, _, h⟩
    · exact h
    · cases h
  | x :: l, acc, r, h => by
    simp only [List.foldl_cons]
    apply groupStep_covers max l
    rcases h with h | ⟨buf, fl, h⟩
    · left
      unfold groupStep
      cases hx : x.2 with
      | stored => exact h
      | mem b f =>
        simp only []
        simp only [List.mem_append, List.mem_flatten] at h ⊢
        split
        · rcases h with ⟨g, hg, hr⟩ | h
          · exact Or.inl ⟨g, by simp [hg], hr⟩
          · exact Or.inr h
        · split
          · rcases h with ⟨g, hg, hr⟩ | h
            · exact Or.inl ⟨g, by simp [hg], hr⟩
            · exact Or.inl ⟨acc.2.1, by simp, h⟩
          · rcases h with h | h
            · exact Or.inl h
            · exact Or.inr (by simp [h])
    · rcases List.mem_cons.mp h with h | h
      · left
        unfold groupStep
        rw [← h]
        simp only []
        simp only [List.mem_append, List.mem_flatten]
        split
        · exact Or.inl ⟨[r], by simp, by simp⟩
        · split
          · exact Or.inr (by simp)
          · exact Or.inr (by simp)
      · exact Or.inr ⟨buf, fl, h⟩

/-- with `shortBlocks` every mem segment's ref is in one of the groups -/
theorem flushGroups_covers (max : Nat) (files : List FileNode) (r : Ref) (buf : Bytes)
    (h : C08.refBuf files r = some buf) : r ∈ (C08.flushGroups max true files).flatten := by
  obtain ⟨fl, hs⟩ := refBuf_segAt h
  have hall : (r, Seg.mem buf fl) ∈ allRefs files := mem_allRefs.mpr hs
  have := groupStep_covers max (allRefs files) ([], [], 0) r (Or.inr ⟨buf, fl, hall⟩)
  rw [flushGroups_eq]
  simp only [if_true]
  simp only [List.mem_append, List.mem_flatten] at this ⊢
  rcases this with ⟨g, hg, hr⟩ | hr
  · exact ⟨g, List.mem_filter.mpr ⟨by simp [hg], by cases g <;> simp_all⟩, hr⟩
  · exact ⟨_, List.mem_filter.mpr ⟨by simp, by
      cases hp : ((allRefs files).foldl (groupStep max) ([], [], 0)).2.1 with
      | nil => rw [hp] at hr; cases hr
      | cons a b => rfl⟩, hr⟩

/-- **a synchronous flush all of whose Keep writes succeed leaves no mem segment** -/
theorem flushFilesK_no_mem (k : Keep) (files : List FileNode)
    (hall : allOk (C08.flushGroups max true files).length k = true) :
    ∀ fn ∈ (flushFilesK hash max k files true).2.1, ∀ s ∈ fn.segs, s.isMem = false := by
  intro fn hfn s hs
  unfold flushFilesK at hfn
  obtain ⟨i, hi⟩ := List.mem_iff_getElem?.mp hfn
  obtain ⟨j, hj⟩ := List.mem_iff_getElem?.mp hs
  have hat : C08.segAt (commitGroups hash (C08.flushGroups max true files) (k, files, true)).2.1 (i, j) = some s := by
    unfold C08.segAt; simp only [hi, hj]
  obtain ⟨c1, c2⟩ := commitGroups_allOk (hash := hash) (C08.flushGroups max true files) k files files true [] hall
    (fun r' => ⟨fun h => by simp at h, fun _ => rfl⟩) (i, j)
  cases s with
  | stored => rfl
  | mem buf fl =>
    exfalso
    by_cases hm : (C08.refBuf files (i, j)).isSome
    · have hin : (i, j) ∈ (C08.flushGroups max true files).flatten := by
        cases hb : C08.refBuf files (i, j) with
        | none => rw [hb] at hm; simp at hm
        | some b => exact flushGroups_covers max files (i, j) b hb
      obtain ⟨a, b, c, d, e⟩ := c1 ⟨by simpa using hin, hm⟩
      rw [hat] at e; cases e
    · have := c2 (fun hh => hm hh.2)
      rw [hat] at this
      have hb : C08.refBuf files (i, j) = some buf := by unfold C08.refBuf; rw [← this]
      rw [hb] at hm; simp at hm

end ArvVerif.C09
