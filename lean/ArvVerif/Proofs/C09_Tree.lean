/-
C09 helper lemmas, part 2: the synchronous flush of a whole tree (`flushTree9`) under any script:
directory structure, names, per-file keys (bytes per segment, lengths, size) are kept, the store
grows by acknowledged blocks only, the flag is "every consumed outcome was ok" and the script is
consumed one entry per block group.
-/
import ArvVerif.Proofs.C09_Flush
namespace ArvVerif.C09

open ArvVerif.C08 (Seg FileNode Ptr Flush Store Ref StoreOK StoreExt AllWF fileKey SegWF)

variable {max : Nat} {hash : Bytes → C08.Loc}

/-! ### script bookkeeping -/

/-- Keep after `n` more outcomes have been consumed (as far as the script is concerned) -/
def nextN : Nat → Keep → Keep
  | 0, k => k
  | n + 1, k => nextN n k.next.2

def ScriptEq (a b : Keep) : Prop := a.script = b.script ∧ a.dflt = b.dflt

theorem ScriptEq.refl (a : Keep) : ScriptEq a a := ⟨rfl, rfl⟩
theorem ScriptEq.trans {a b c : Keep} (h1 : ScriptEq a b) (h2 : ScriptEq b c) : ScriptEq a c :=
  ⟨h1.1.trans h2.1, h1.2.trans h2.2⟩

theorem ScriptEq.next {a b : Keep} (h : ScriptEq a b) : a.next.1 = b.next.1 ∧ ScriptEq a.next.2 b.next.2 := by
  obtain ⟨hs, hd⟩ := h
  refine ⟨?_, ?_, ?_⟩
  · unfold Keep.next; rw [hs, hd]; cases b.script <;> rfl
  · unfold Keep.next; rw [hs]; cases hb : b.script <;> simp [hs, hb]
  · unfold Keep.next; rw [hs]; cases hb : b.script <;> simp [hd]

theorem allOk_congr : ∀ (n : Nat) {a b : Keep}, ScriptEq a b → allOk n a = allOk n b
  | 0, _, _, _ => rfl
  | n + 1, a, b, h => by
    unfold allOk
    rw [h.next.1, allOk_congr n h.next.2]

theorem nextN_congr : ∀ (n : Nat) {a b : Keep}, ScriptEq a b → ScriptEq (nextN n a) (nextN n b)
  | 0, _, _, h => h
  | n + 1, _, _, h => nextN_congr n h.next.2

theorem allOk_add : ∀ (a b : Nat) (k : Keep), allOk (a + b) k = (allOk a k && allOk b (nextN a k))
  | 0, b, k => by simp [allOk, nextN]
  | a + 1, b, k => by
    rw [show a + 1 + b = (a + b) + 1 by omega]
    show (k.next.1 == Outcome.ok && allOk (a + b) k.next.2) =
      ((k.next.1 == Outcome.ok && allOk a k.next.2) && allOk b (nextN a k.next.2))
    rw [allOk_add a b k.next.2, Bool.and_assoc]

theorem nextN_add : ∀ (a b : Nat) (k : Keep), nextN (a + b) k = nextN b (nextN a k)
  | 0, b, k => by simp [nextN]
  | a + 1, b, k => by
    rw [show a + 1 + b = (a + b) + 1 by omega]
    show nextN (a + b) k.next.2 = nextN b (nextN a k.next.2)
    exact nextN_add a b k.next.2

theorem commitGroups_script : ∀ (groups : List (List Ref)) (k : Keep) (files : List FileNode) (ok : Bool),
    ScriptEq (commitGroups hash groups (k, files, ok)).1 (nextN groups.length k)
  | [], k, _, _ => ScriptEq.refl k
  | g :: rest, k, files, ok => by
    unfold commitGroups
    simp only [List.length_cons, nextN]
    obtain ⟨c1, c2, _⟩ := commitK_script (hash := hash) k files g
    have h0 : ScriptEq (commitK hash k files g).1 k.next.2 := by
      refine ⟨c1, ?_⟩
      rw [c2]; unfold Keep.next; cases k.script <;> rfl
    exact (commitGroups_script rest _ _ _).trans (nextN_congr _ h0)

/-! ### one directory -/

/-- what a flush may do to a directory -/
structure DirKept (max : Nat) (hash : Bytes → C08.Loc) (st : Store) (new : Seg → Prop) (d d' : Dir9) : Prop where
  path : d'.path = d.path
  nsub : d'.nsub = d.nsub
  names : d'.files.map (·.1) = d.files.map (·.1)
  kept : Kept max hash st new (d.files.map (·.2)) (d'.files.map (·.2))

/-- number of block groups (= Keep writes attempted or skipped) the flush of a directory has -/
def dirGroups (max : Nat) (d : Dir9) : Nat :=
  if d.isEmpty then 0 else (C08.flushGroups max true (d.files.map (·.2))).length

theorem map_fst_zip {α β : Type} : ∀ (a : List α) (b : List β), a.length = b.length → (a.zip b).map (·.1) = a
  | [], _, _ => rfl
  | x :: xs, [], h => by simp at h
  | x :: xs, y :: ys, h => by simp [map_fst_zip xs ys (by simpa using h)]

theorem map_snd_zip {α β : Type} : ∀ (a : List α) (b : List β), a.length = b.length → (a.zip b).map (·.2) = b
  | [], [], _ => rfl
  | [], y :: ys, h => by simp at h
  | x :: xs, [], h => by simp at h
  | x :: xs, y :: ys, h => by simp [map_snd_zip xs ys (by simpa using h)]

theorem flushDir9_spec (hinj : Function.Injective hash) {k : Keep} (hk : KeepOK hash k) (d : Dir9)
    (hwf : AllWF max hash k.store (d.files.map (·.2))) :
    KeepOK hash (flushDir9 hash max k d).1 ∧ KeepStep hash k (flushDir9 hash max k d).1 ∧
    DirKept max hash (flushDir9 hash max k d).1.store (Fresh hash (flushDir9 hash max k d).1) d (flushDir9 hash max k d).2.1 ∧
    (flushDir9 hash max k d).2.2 = allOk (dirGroups max d) k ∧
    ScriptEq (flushDir9 hash max k d).1 (nextN (dirGroups max d) k) := by
  unfold flushDir9 dirGroups
  by_cases he : d.isEmpty = true
  · simp only [he, if_true]
    exact ⟨hk, KeepStep.refl k, ⟨rfl, rfl, rfl, Kept.refl hwf⟩, rfl, ScriptEq.refl k⟩
  · simp only [he, if_false, Bool.false_eq_true]
    obtain ⟨h1, h2, h3, h4⟩ := flushFilesK_spec (max := max) hinj hk (d.files.map (·.2)) hwf true
    have hlen : (flushFilesK hash max k (d.files.map (·.2)) true).2.1.length = (d.files.map (·.1)).length := by
      have := congrArg List.length h3.key
      simpa using this
    refine ⟨h1, h2, ⟨rfl, rfl, ?_, ?_⟩, h4, ?_⟩
    · simp only [Dir9.setFiles]
      exact map_fst_zip _ _ hlen.symm
    · simp only [Dir9.setFiles]
      rw [map_snd_zip _ _ hlen.symm]
      exact h3
    · unfold flushFilesK
      exact commitGroups_script _ _ _ _

/-! ### the whole tree -/

def TreeAllWF (max : Nat) (hash : Bytes → C08.Loc) (st : Store) (t : Tree9) : Prop :=
  ∀ d ∈ t, AllWF max hash st (d.files.map (·.2))

def treeGroups (max : Nat) : Tree9 → Nat
  | [] => 0
  | d :: rest => dirGroups max d + treeGroups max rest

/-- pointwise relation between the tree before and after -/
inductive TreeKept (max : Nat) (hash : Bytes → C08.Loc) (st : Store) (new : Seg → Prop) : Tree9 → Tree9 → Prop
  | nil : TreeKept max hash st new [] []
  | cons {d d' : Dir9} {t t' : Tree9} : DirKept max hash st new d d' → TreeKept max hash st new t t' →
      TreeKept max hash st new (d :: t) (d' :: t')

theorem DirKept.ext {st st' : Store} {new new' : Seg → Prop} {d d' : Dir9} (h : DirKept max hash st new d d')
    (he : StoreExt st st') (hwf : AllWF max hash st (d.files.map (·.2))) (hn : ∀ x, new x → new' x) :
    DirKept max hash st' new' d d' :=
  ⟨h.path, h.nsub, h.names, h.kept.ext he hwf hn⟩

theorem flushTree9_spec (hinj : Function.Injective hash) : ∀ (t : Tree9) (k : Keep), KeepOK hash k →
    TreeAllWF max hash k.store t →
    KeepOK hash (flushTree9 hash max k t).1 ∧ KeepStep hash k (flushTree9 hash max k t).1 ∧
    TreeKept max hash (flushTree9 hash max k t).1.store (Fresh hash (flushTree9 hash max k t).1) t (flushTree9 hash max k t).2.1 ∧
    (flushTree9 hash max k t).2.2 = allOk (treeGroups max t) k ∧
    ScriptEq (flushTree9 hash max k t).1 (nextN (treeGroups max t) k)
  | [], k, hk, _ => ⟨hk, KeepStep.refl k, TreeKept.nil, rfl, ScriptEq.refl k⟩
  | d :: rest, k, hk, hwf => by
    obtain ⟨a1, a2, a3, a4, a5⟩ := flushDir9_spec (max := max) hinj hk d (hwf d (by simp))
    have hwf' : TreeAllWF max hash (flushDir9 hash max k d).1.store rest :=
      fun d' hd' fn hfn s hs => (hwf d' (List.mem_cons_of_mem _ hd') fn hfn s hs).ext a2.ext
    obtain ⟨b1, b2, b3, b4, b5⟩ := flushTree9_spec hinj rest (flushDir9 hash max k d).1 a1 hwf'
    unfold flushTree9
    simp only []
    refine ⟨b1, a2.trans b2, ?_, ?_, ?_⟩
    · exact TreeKept.cons
        (a3.ext b2.ext (fun fn hfn s hs => (hwf d (by simp) fn hfn s hs).ext a2.ext) (fun x hx => hx.mono b2)) b3
    · rw [a4, b4, treeGroups, allOk_add, allOk_congr _ a5]
    · rw [treeGroups, nextN_add]
      exact b5.trans (nextN_congr _ a5)

/-! ### consequences for the content -/

theorem Kept.abs_eq {st0 st : Store} {new : Seg → Prop} {fs fs' : List FileNode}
    (h : Kept max hash st new fs fs') (he : StoreExt st0 st) (hwf : AllWF max hash st0 fs) :
    fs'.map (C08.abs st) = fs.map (C08.abs st0) ∧ fs'.map (·.size) = fs.map (·.size) := by
  have e2 : fs.map (fileKey st) = fs.map (fileKey st0) :=
    List.map_congr_left (fun fn hfn => C08.fileKey_ext he (hwf fn hfn))
  have hkey := h.key.trans e2
  have hlen : fs'.length = fs.length := by simpa using congrArg List.length hkey
  constructor
  · apply List.ext_getElem (by simpa using hlen)
    intro i h1 h2
    simp only [List.getElem_map]
    have hi : (fs'.map (fileKey st))[i]'(by simpa using h1) = (fs.map (fileKey st0))[i]'(by simpa using h2) := by
      simp only [hkey]
    simp only [List.getElem_map] at hi
    exact (C08.abs_of_key hi).1
  · apply List.ext_getElem (by simpa using hlen)
    intro i h1 h2
    simp only [List.getElem_map]
    have hi : (fs'.map (fileKey st))[i]'(by simpa using h1) = (fs.map (fileKey st0))[i]'(by simpa using h2) := by
      simp only [hkey]
    simp only [List.getElem_map] at hi
    exact (C08.abs_of_key hi).2.2.1

theorem zip_map_eq {α β γ : Type} (f : β → γ) : ∀ (a : List α) (b : List β),
    (a.zip b).map (fun p => (p.1, f p.2)) = a.zip (b.map f)
  | [], _ => rfl
  | _ :: _, [] => rfl
  | x :: xs, y :: ys => by simp [zip_map_eq f xs ys]

theorem zip_fst_snd {α β : Type} (l : List (α × β)) : (l.map (·.1)).zip (l.map (·.2)) = l := by
  induction l with
  | nil => rfl
  | cons x xs ih => simp [ih]

theorem DirKept.abs_eq {st0 st : Store} {new : Seg → Prop} {d d' : Dir9}
    (h : DirKept max hash st new d d') (he : StoreExt st0 st) (hwf : AllWF max hash st0 (d.files.map (·.2))) :
    d'.files.map (fun f => ((d'.path, f.1), C08.abs st f.2)) = d.files.map (fun f => ((d.path, f.1), C08.abs st0 f.2)) ∧
    d'.files.map (fun f => f.2.size) = d.files.map (fun f => f.2.size) := by
  obtain ⟨a1, a2⟩ := h.kept.abs_eq he hwf
  constructor
  · have e1 : d'.files.map (fun f => ((d'.path, f.1), C08.abs st f.2)) =
        ((d'.files.map (·.1)).zip ((d'.files.map (·.2)).map (C08.abs st))).map (fun p => ((d'.path, p.1), p.2)) := by
      rw [← zip_map_eq, zip_fst_snd]; simp
    have e2 : d.files.map (fun f => ((d.path, f.1), C08.abs st0 f.2)) =
        ((d.files.map (·.1)).zip ((d.files.map (·.2)).map (C08.abs st0))).map (fun p => ((d.path, p.1), p.2)) := by
      rw [← zip_map_eq, zip_fst_snd]; simp
    rw [e1, e2, h.names, a1, h.path]
  · have : ∀ (l : List (Bytes × FileNode)), l.map (fun f => f.2.size) = (l.map (·.2)).map (·.size) := by
      intro l; simp
    rw [this, this, a2]

/-- **a flush never changes what the tree stands for**: same directories, same names, same bytes, same sizes -/
theorem TreeKept.abs_eq {st0 st : Store} {new : Seg → Prop} : ∀ {t t' : Tree9}, TreeKept max hash st new t t' →
    StoreExt st0 st → TreeAllWF max hash st0 t →
    absTree st t' = absTree st0 t ∧ dirPaths t' = dirPaths t ∧ treeSize t' = treeSize t ∧
    t'.map (·.nsub) = t.map (·.nsub)
  | _, _, TreeKept.nil, _, _ => ⟨rfl, rfl, rfl, rfl⟩
  | _, _, TreeKept.cons (d := d) (d' := d') (t := t) (t' := t') hd ht, he, hwf => by
    obtain ⟨i1, i2, i3, i4⟩ := TreeKept.abs_eq ht he (fun x hx => hwf x (List.mem_cons_of_mem _ hx))
    obtain ⟨a1, a2⟩ := hd.abs_eq he (hwf d (by simp))
    refine ⟨?_, ?_, ?_, ?_⟩
    · unfold absTree at i1 ⊢
      simp only [List.flatMap_cons]
      rw [a1, i1]
    · unfold dirPaths at i2 ⊢
      simp only [List.map_cons, hd.path, i2]
    · unfold treeSize at i3 ⊢
      simp only [List.flatMap_cons, List.sum_append]
      rw [a2, i3]
    · simp only [List.map_cons, hd.nsub, i4]

end ArvVerif.C09
