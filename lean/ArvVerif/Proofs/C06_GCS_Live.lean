/-
C06(c') proofs, liveness: `GetCurrentState` cannot deadlock. In every reachable state of the
small-step system in which some goroutine has not ended, some goroutine can take a step
(`collQ` capacity ≥ 1): `wg.Wait()` is never left waiting for goroutines that all block.

The blocking statements are the processor's receive / drain on an empty, open `collQ` and the
scanner's send on a full `collQ`. Invariant: `collQ` is closed exactly when the scanner is past
`close(collQ)`; the processor leaves its loops only after the close; `len(collQ) ≤ cap(collQ)`.
-/
import ArvVerif.Proofs.C06_GCS_Queue
namespace ArvVerif.C06.GCS

structure LInv (cap : Nat) (g : G) : Prop where
  wpc : ∀ l ∈ g.ws, l.pc ≤ 14
  ppc : g.p.pc ≤ 9
  spc : g.s.pc ≤ 11
  cap : g.sh.cap = cap
  qle : g.sh.q ≤ g.sh.cap
  pdone : g.p.pc = 7 ∨ g.p.pc = 8 ∨ g.p.pc = 0 → g.sh.closed = true
  sdone : g.s.pc = 9 ∨ g.s.pc = 10 ∨ g.s.pc = 11 ∨ g.s.pc = 0 → g.sh.closed = true
  sopen : g.sh.closed = true → g.s.pc = 9 ∨ g.s.pc = 10 ∨ g.s.pc = 11 ∨ g.s.pc = 0

/-- a worker step changes neither the queue nor the capacity, and stays inside the program -/
theorem wStep_live {sh sh' : Sh} {l l' : Loc} (h : (sh', l') ∈ wStep sh l) :
    sh'.q = sh.q ∧ sh'.cap = sh.cap ∧ sh'.closed = sh.closed ∧ l'.pc ≤ 14 := by
  unfold wStep at h
  split at h
  all_goals (try split at h)
  all_goals simp only [List.mem_cons, List.not_mem_nil, Prod.mk.injEq, or_false] at h
  all_goals (try rcases h with h | h)
  all_goals (try (obtain ⟨rfl, rfl⟩ := h))
  all_goals (try (exact absurd h id))
  all_goals (try subst_vars)
  all_goals (try simp)
  all_goals (unfold trySend; split <;> simp)

theorem pStep_live {sh sh' : Sh} {l l' : Loc} (h : (sh', l') ∈ pStep sh l)
    (hd : l.pc = 7 ∨ l.pc = 8 ∨ l.pc = 0 → sh.closed = true) :
    sh'.q ≤ sh.q ∧ sh'.cap = sh.cap ∧ sh'.closed = sh.closed ∧ l'.pc ≤ 9 ∧
    (l'.pc = 7 ∨ l'.pc = 8 ∨ l'.pc = 0 → sh'.closed = true) := by
  unfold pStep pRecv at h
  split at h
  all_goals (try split at h)
  all_goals (try split at h)
  all_goals simp only [List.mem_cons, List.not_mem_nil, Prod.mk.injEq, or_false] at h
  all_goals (try rcases h with h | h)
  all_goals (try (obtain ⟨rfl, rfl⟩ := h))
  all_goals (try (exact absurd h id))
  all_goals (try subst_vars)
  all_goals refine ⟨?_, ?_, ?_, ?_, ?_⟩
  all_goals (try simp_all)
  all_goals (try omega)
  all_goals (try (unfold trySend; split <;> simp_all))

theorem sStep_live {sh sh' : Sh} {l l' : Loc} (h : (sh', l') ∈ sStep sh l) (hq : sh.q ≤ sh.cap)
    (hd : l.pc = 9 ∨ l.pc = 10 ∨ l.pc = 11 ∨ l.pc = 0 → sh.closed = true)
    (ho : sh.closed = true → l.pc = 9 ∨ l.pc = 10 ∨ l.pc = 11 ∨ l.pc = 0) :
    sh'.q ≤ sh'.cap ∧ sh'.cap = sh.cap ∧ (sh.closed = true → sh'.closed = true) ∧ l'.pc ≤ 11 ∧
    (l'.pc = 9 ∨ l'.pc = 10 ∨ l'.pc = 11 ∨ l'.pc = 0 → sh'.closed = true) ∧
    (sh'.closed = true → l'.pc = 9 ∨ l'.pc = 10 ∨ l'.pc = 11 ∨ l'.pc = 0) := by
  unfold sStep sInside at h
  split at h
  all_goals (try split at h)
  all_goals simp only [List.mem_cons, List.not_mem_nil, Prod.mk.injEq, or_false] at h
  all_goals (try rcases h with h | h | h | h)
  all_goals (try rcases h with h | h)
  all_goals (try (obtain ⟨rfl, rfl⟩ := h))
  all_goals (try (exact absurd h id))
  all_goals (try subst_vars)
  all_goals refine ⟨?_, ?_, ?_, ?_, ?_, ?_⟩
  all_goals (try simp_all)
  all_goals (try omega)
  all_goals (try (unfold trySend; split <;> simp_all))

theorem linv_init (n cap : Nat) : LInv cap (init n cap) := by
  refine ⟨?_, by simp [init, initLoc], by simp [init, initLoc], rfl, by simp [init, initSh],
    by simp [init, initLoc], by simp [init, initLoc], by simp [init, initSh]⟩
  intro l hl
  simp only [init, List.mem_replicate] at hl
  rw [hl.2]; simp [initLoc]

theorem step_linv {cap : Nat} {g g' : G} (hi : LInv cap g) (hs : Step g g') : LInv cap g' := by
  cases hs with
  | worker pre post l sh' l' hws hm =>
    obtain ⟨e1, e2, e3, e4⟩ := wStep_live hm
    refine ⟨?_, hi.ppc, hi.spc, by simpa [e2] using hi.cap, by simpa [e1, e2] using hi.qle,
      by simpa [e3] using hi.pdone, by simpa [e3] using hi.sdone, by simpa [e3] using hi.sopen⟩
    intro x hx
    simp only [List.mem_append, List.mem_cons] at hx
    rcases hx with hx | rfl | hx
    · exact hi.wpc x (by rw [hws]; simp [hx])
    · exact e4
    · exact hi.wpc x (by rw [hws]; simp [hx])
  | proc sh' l' hm =>
    obtain ⟨e1, e2, e3, e4, e5⟩ := pStep_live hm hi.pdone
    have hq := hi.qle
    exact ⟨hi.wpc, e4, hi.spc, by simpa [e2] using hi.cap, by simp only [e2]; omega, e5,
      by simpa [e3] using hi.sdone, by simpa [e3] using hi.sopen⟩
  | scan sh' l' hm =>
    obtain ⟨e1, e2, e3, e4, e5, e6⟩ := sStep_live hm hi.qle hi.sdone hi.sopen
    exact ⟨hi.wpc, hi.ppc, e4, by simpa [e2] using hi.cap, e1, fun h => e3 (hi.pdone h), e5, e6⟩

theorem reach_linv {n cap : Nat} {g : G} (r : Reach n cap g) : LInv cap g := by
  induction r with
  | start => exact linv_init n cap
  | step _ hs ih => exact step_linv ih hs

/-- a worker that has not ended can always step -/
theorem wStep_enabled (sh : Sh) (l : Loc) (h0 : l.pc ≠ 0) (h14 : l.pc ≤ 14) : ∃ x, x ∈ wStep sh l := by
  have : l.pc = 1 ∨ l.pc = 2 ∨ l.pc = 3 ∨ l.pc = 4 ∨ l.pc = 5 ∨ l.pc = 6 ∨ l.pc = 7 ∨ l.pc = 8 ∨ l.pc = 9 ∨
      l.pc = 10 ∨ l.pc = 11 ∨ l.pc = 12 ∨ l.pc = 13 ∨ l.pc = 14 := by omega
  rcases this with h | h | h | h | h | h | h | h | h | h | h | h | h | h
  all_goals (unfold wStep; rw [h]; simp only [])
  all_goals (try split)
  all_goals exact ⟨_, List.mem_cons_self⟩

/-- the processor can step unless it waits on an empty, open queue -/
theorem pStep_enabled (sh : Sh) (l : Loc) (h0 : l.pc ≠ 0) (h9 : l.pc ≤ 9)
    (hq : 0 < sh.q ∨ sh.closed = true) : ∃ x, x ∈ pStep sh l := by
  have : l.pc = 1 ∨ l.pc = 2 ∨ l.pc = 3 ∨ l.pc = 4 ∨ l.pc = 5 ∨ l.pc = 6 ∨ l.pc = 7 ∨ l.pc = 8 ∨ l.pc = 9 := by
    omega
  rcases this with h | h | h | h | h | h | h | h | h
  all_goals (unfold pStep pRecv; rw [h]; simp only [])
  all_goals (try split)
  all_goals (try split)
  all_goals (try exact ⟨_, List.mem_cons_self⟩)
  all_goals (rcases hq with hq | hq <;> simp_all)

/-- the scanner can step unless it waits to send on a full queue -/
theorem sStep_enabled (sh : Sh) (l : Loc) (h0 : l.pc ≠ 0) (h11 : l.pc ≤ 11)
    (hq : l.pc = 3 → sh.q < sh.cap) : ∃ x, x ∈ sStep sh l := by
  have : l.pc = 1 ∨ l.pc = 2 ∨ l.pc = 3 ∨ l.pc = 4 ∨ l.pc = 5 ∨ l.pc = 6 ∨ l.pc = 7 ∨ l.pc = 8 ∨ l.pc = 9 ∨
      l.pc = 10 ∨ l.pc = 11 := by omega
  rcases this with h | h | h | h | h | h | h | h | h | h | h
  all_goals (unfold sStep sInside; rw [h]; simp only [])
  all_goals (try split)
  all_goals (try exact ⟨_, List.mem_cons_self⟩)
  all_goals (have := hq h; omega)

/-- **Deadlock-freedom.** For every number of workers, every `collQ` capacity ≥ 1 and every
interleaving: a reachable state in which some goroutine has not ended has a successor. -/
theorem no_deadlock {n cap : Nat} (hc : 1 ≤ cap) {g : G} (r : Reach n cap g) (hnt : ¬ Terminal g) :
    ∃ g', Step g g' := by
  have hi := reach_linv r
  by_cases hw : ∃ l ∈ g.ws, l.pc ≠ 0
  · obtain ⟨l, hl, h0⟩ := hw
    obtain ⟨pre, post, hdec⟩ := List.append_of_mem hl
    obtain ⟨x, hx⟩ := wStep_enabled g.sh l h0 (hi.wpc l hl)
    exact ⟨_, Step.worker pre post l x.1 x.2 hdec hx⟩
  · have hws : ∀ l ∈ g.ws, l.pc = 0 := by
      intro l hl
      by_cases h : l.pc = 0
      · exact h
      · exact absurd ⟨l, hl, h⟩ hw
    by_cases hs0 : g.s.pc = 0
    · -- the scanner has ended, so collQ is closed and the processor is never blocked
      have hp0 : g.p.pc ≠ 0 := fun h => hnt ⟨hws, h, hs0⟩
      obtain ⟨x, hx⟩ := pStep_enabled g.sh g.p hp0 hi.ppc (Or.inr (hi.sdone (by simp [hs0])))
      exact ⟨_, Step.proc x.1 x.2 hx⟩
    · by_cases hblk : g.s.pc = 3 ∧ g.sh.cap ≤ g.sh.q
      · -- the scanner waits on a full queue: the queue is open and non-empty, the processor has
        -- not left its loops, so it can receive (or drain)
        have hopen : g.sh.closed ≠ true := by
          intro hcl
          have := hi.sopen hcl
          omega
        have hp0 : g.p.pc ≠ 0 := fun h => hopen (hi.pdone (by simp [h]))
        have hq : 0 < g.sh.q := by have := hi.cap; omega
        obtain ⟨x, hx⟩ := pStep_enabled g.sh g.p hp0 hi.ppc (Or.inl hq)
        exact ⟨_, Step.proc x.1 x.2 hx⟩
      · obtain ⟨x, hx⟩ := sStep_enabled g.sh g.s hs0 hi.spc (by intro h3; omega)
        exact ⟨_, Step.scan x.1 x.2 hx⟩

end ArvVerif.C06.GCS
