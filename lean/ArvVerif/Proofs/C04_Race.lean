/-
C04 interleaving layer, proofs: for EVERY schedule `sched : List Bool`, `run sched (init c)` lies in
the table invariant of its configuration (induction over the schedule, using the kernel-checked
closure of `Proofs/C04_RaceCheck*.lean`), hence satisfies the per-state predicates. Also: the
controller's eager-wake runner `runE` only produces states `run` produces, and a fair drain of 30
P/T rounds always finishes both threads (no deadlock).
-/
import ArvVerif.Proofs.C04_RaceCheck0
import ArvVerif.Proofs.C04_RaceCheck1
import ArvVerif.Proofs.C04_RaceCheck2
import ArvVerif.Proofs.C04_RaceCheck3
namespace ArvVerif.C04.Race

theorem check_of (c : Cfg) : checkCfg c (tableOf c) = true := by
  have hm := mem_cfgGroup c
  cases hs : c.serialize <;> cases hl : c.life0 <;> rw [hs, hl] at hm
  · exact (List.all_eq_true.mp checkGroup0) c hm
  · exact (List.all_eq_true.mp checkGroup1) c hm
  · exact (List.all_eq_true.mp checkGroup2) c hm
  · exact (List.all_eq_true.mp checkGroup3) c hm

theorem run_inv (c : Cfg) (sched : List Bool) : Inv (tableOf c) (run sched (init c)) :=
  checkCfg_run (check_of c) sched _ (checkCfg_init (check_of c))

theorem run_local (c : Cfg) (sched : List Bool) : okLocal c (run sched (init c)) = true :=
  checkCfg_local (check_of c) (run_inv c sched)

theorem run_cfg (c : Cfg) (sched : List Bool) : (run sched (init c)).cfg = c := by
  have h := run_local c sched
  simp only [okLocal, Bool.and_eq_true, decide_eq_true_eq] at h
  exact h.1.1.1

theorem run_contract (c : Cfg) (sched : List Bool) : contract (run sched (init c)) = true := by
  have h := run_local c sched
  simp only [okLocal, Bool.and_eq_true] at h
  exact h.1.1.2

theorem run_ackSafe (c : Cfg) (htop : c.top ≠ .untrash) (sched : List Bool) :
    ackSafe (run sched (init c)) = true := by
  have h := run_local c sched
  simp only [okLocal, Bool.and_eq_true, htop, if_false] at h
  exact h.1.2

/-- with an untrash as second thread: at quiescence -/
theorem run_ackSafe_fin (c : Cfg) (sched : List Bool) (hf : finished (run sched (init c)) = true) :
    ackSafe (run sched (init c)) = true := by
  have h := run_local c sched
  simp only [okLocal, Bool.and_eq_true] at h
  have h2 := h.1.2
  split at h2
  · simpa [hf] using h2
  · exact h2

theorem run_append (a b : List Bool) (s : St) : run (a ++ b) s = run b (run a s) := by
  induction a generalizing s with
  | nil => rfl
  | cons x xs ih => simp [run, ih]

/-! ### no deadlock: a fair drain finishes both threads -/

def pairs : Nat → List Bool
  | 0 => []
  | k+1 => true :: false :: pairs k

def drain : List Bool := pairs 30

theorem step_finished {s : St} (h : finished s = true) (x : Bool) : step x s = s := by
  simp only [finished, Bool.and_eq_true, decide_eq_true_eq] at h
  cases x
  · simp [step, stepT, h.2]
  · simp [step, stepP, h.1]

theorem run_finished {s : St} (h : finished s = true) (sched : List Bool) : run sched s = s := by
  induction sched with
  | nil => rfl
  | cons x xs ih => simp [run, step_finished h, ih]

theorem rank_zero_finished {s : St} (h : rank s = 0) : finished s = true := by
  have h1 : rankP s.pcP = 0 := by unfold rank at h; omega
  have h2 : rankT s.pcT = 0 := by unfold rank at h; omega
  have hp : s.pcP = .done := by cases hq : s.pcP <;> simp [hq, rankP] at h1 <;> rfl
  have ht : s.pcT = .done := by cases hq : s.pcT <;> simp [hq, rankT] at h2 <;> rfl
  simp [finished, hp, ht]

theorem rank_le (s : St) : rank s ≤ 24 := by
  unfold rank
  have h1 : rankP s.pcP ≤ 17 := by cases s.pcP <;> simp [rankP]
  have h2 : rankT s.pcT ≤ 7 := by cases s.pcT <;> simp [rankT]
  omega

theorem pairs_finish {c : Cfg} {R : List Nat} (h : checkCfg c R = true) :
    ∀ (k : Nat) (s : St), Inv R s → rank s ≤ k → finished (run (pairs k) s) = true := by
  intro k
  induction k with
  | zero => intro s _ hr; exact rank_zero_finished (Nat.le_zero.mp hr)
  | succ k ih =>
    intro s hs hr
    have hl := checkCfg_local h hs
    simp only [okLocal, Bool.and_eq_true, Bool.or_eq_true, decide_eq_true_eq] at hl
    cases hl.2 with
    | inl hf => rw [run_finished hf]; exact hf
    | inr hlt =>
      have hs' : Inv R (stepT (stepP s)) := checkCfg_step h (checkCfg_step h hs true) false
      have := ih (stepT (stepP s)) hs' (by omega)
      simpa [pairs, run, step] using this

theorem run_drain_finished (c : Cfg) (sched : List Bool) :
    finished (run drain (run sched (init c))) = true :=
  pairs_finish (check_of c) 30 _ (run_inv c sched) (Nat.le_trans (rank_le _) (by decide))

/-! ### the controller's eager-wake runner is a refinement of `run` -/

theorem stepE_is_run (x : Bool) (s : St) : ∃ sched, (stepE x s).1 = run sched s := by
  unfold stepE
  split
  · exact ⟨[], rfl⟩
  · simp only
    split
    · split
      · exact ⟨[x], rfl⟩
      · exact ⟨[x, !x], rfl⟩
    · exact ⟨[x], rfl⟩

theorem runE_is_run (sched : List Bool) (s : St) (tr : List String) :
    ∃ sched', (runE sched s tr).1 = run sched' s := by
  induction sched generalizing s tr with
  | nil => exact ⟨[], rfl⟩
  | cons x xs ih =>
    obtain ⟨a, ha⟩ := stepE_is_run x s
    simp only [runE]
    obtain ⟨b, hb⟩ := ih (stepE x s).1 (tr ++ (stepE x s).2)
    exact ⟨a ++ b, by rw [hb, ha, run_append]⟩

end ArvVerif.C04.Race
