/-
C03: invariant of the BlockCache transition system (Model/C03_Conc.lean).
-/
import ArvVerif.Model.C03_Conc
namespace ArvVerif.C03

/-- Every finished cache entry and every value handed to a reader is an outcome the fetch for that
key can produce; pending entries and waiting readers refer to fetches for their own key. -/
structure Inv (out : Key → Entry → Prop) (s : CS) : Prop where
  cacheDone : ∀ k e, s.cache k = some (.done e) → out k e
  cachePending : ∀ k f, s.cache k = some (.pending f) → f.1 = k
  waitKey : ∀ w ∈ s.waiting, w.2.2.1 = w.2.1
  results : ∀ x ∈ s.results, out x.2.1 x.2.2

theorem inv_init (out : Key → Entry → Prop) : Inv out CS.init :=
  ⟨by intro k e h; simp [CS.init] at h, by intro k f h; simp [CS.init] at h,
   by intro w h; simp [CS.init] at h, by intro x h; simp [CS.init] at h⟩

theorem inv_startFetch (out : Key → Entry → Prop) (s : CS) (r : Nat) (k : Key) (h : Inv out s) :
    Inv out (startFetch s r k) := by
  refine ⟨?_, ?_, ?_, ?_⟩
  · intro k' e he
    simp only [startFetch, setKey] at he
    split at he
    · simp at he
    · exact h.cacheDone k' e he
  · intro k' f hf
    simp only [startFetch, setKey] at hf
    split at hf
    · rename_i hk
      simp at hf
      rw [← hf]; exact hk.symm
    · exact h.cachePending k' f hf
  · intro w hw
    simp only [startFetch, List.mem_cons] at hw
    rcases hw with rfl | hw
    · rfl
    · exact h.waitKey w hw
  · exact h.results

theorem inv_apply (out : Key → Entry → Prop) (s : CS) (a : Act) (h : Inv out s) (hv : a.Valid out) :
    Inv out (apply s a) := by
  cases a with
  | lookup r k =>
    simp only [apply]
    split
    · exact inv_startFetch out s r k h
    · rename_i f hc
      refine ⟨h.cacheDone, h.cachePending, ?_, h.results⟩
      intro w hw
      simp only [List.mem_cons] at hw
      rcases hw with rfl | hw
      · exact h.cachePending k f hc
      · exact h.waitKey w hw
    · rename_i e hc
      split
      · refine ⟨h.cacheDone, h.cachePending, h.waitKey, ?_⟩
        intro x hx
        simp only [List.mem_cons] at hx
        rcases hx with rfl | hx
        · exact h.cacheDone k e hc
        · exact h.results x hx
      · exact inv_startFetch out s r k h
  | fetchDone f e =>
    simp only [apply]
    split
    · refine ⟨?_, ?_, ?_, ?_⟩
      · intro k e' he
        simp only at he
        split at he
        · simp only [setKey] at he
          split at he
          · rename_i hk
            simp at he
            rw [← he, hk]; exact hv
          · exact h.cacheDone k e' he
        · exact h.cacheDone k e' he
      · intro k f' hf
        simp only at hf
        split at hf
        · simp only [setKey] at hf
          split at hf
          · simp at hf
          · exact h.cachePending k f' hf
        · exact h.cachePending k f' hf
      · intro w hw
        simp only [List.mem_filter] at hw
        exact h.waitKey w hw.1
      · intro x hx
        simp only [List.mem_append, List.mem_map, List.mem_filter] at hx
        rcases hx with ⟨w, ⟨hw, hwf⟩, rfl⟩ | hx
        · have hk := h.waitKey w hw
          simp only [decide_eq_true_eq] at hwf
          simp only
          rw [← hk, hwf]; exact hv
        · exact h.results x hx
    · exact h
  | sweep keep =>
    simp only [apply]
    refine ⟨?_, ?_, h.waitKey, h.results⟩
    · intro k e he
      simp only at he
      split at he
      · exact h.cacheDone k e he
      · simp at he
    · intro k f hf
      simp only at hf
      split at hf
      · exact h.cachePending k f hf
      · simp at hf

theorem inv_reach (out : Key → Entry → Prop) (s : CS) (h : Reach out s) : Inv out s := by
  induction h with
  | init => exact inv_init out
  | step s a _ hv ih => exact inv_apply out s a ih hv

/-- A finished entry that holds an error is never handed out by a later lookup: the lookup
replaces it by a fresh pending entry, starts a new fetch, and adds no result. -/
theorem lookup_err_refetches (s : CS) (r : Nat) (k : Key) (e : Entry) (err : Err)
    (hc : s.cache k = some (.done e)) (he : e.err = some err) :
    (apply s (.lookup r k)).cache k = some (.pending (k, s.nextFid)) ∧
    (apply s (.lookup r k)).results = s.results ∧
    (k, s.nextFid) ∈ (apply s (.lookup r k)).inflight ∧
    (r, k, (k, s.nextFid)) ∈ (apply s (.lookup r k)).waiting := by
  simp [apply, hc, he, startFetch, setKey]

/-- A pending entry is joined, not bypassed: the reader gets whatever that fetch will report. -/
theorem lookup_pending_joins (s : CS) (r : Nat) (k : Key) (f : FetchId)
    (hc : s.cache k = some (.pending f)) :
    (apply s (.lookup r k)).results = s.results ∧ (r, k, f) ∈ (apply s (.lookup r k)).waiting := by
  simp [apply, hc]

end ArvVerif.C03
