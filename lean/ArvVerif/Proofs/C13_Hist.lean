/-
C13 helper lemmas, part 8: every atomic step of the concurrent model refines the corresponding step
of the sequential specification; histories.
-/
import ArvVerif.Proofs.C13_Save
namespace ArvVerif.C13
open ArvVerif.C08

variable {max : Nat} {hash : Bytes → Loc}

/-- Output of the concurrent model vs. output of the specification: equal; or the save failed
because Keep writes failed (the specification has no failures); or a completion event, whose only
output is whether such a background write existed. -/
inductive OutRef : Out → Out → Prop
  | same (o : Out) : OutRef o o
  | failed (sp : Out) : OutRef Out.failed sp
  | done (b : Bool) : OutRef (Out.done b) (Out.done true)

/-- pointwise `OutRef` on the output lists -/
inductive OutsRef : List Out → List Out → Prop
  | nil : OutsRef [] []
  | cons {a b : Out} {as bs : List Out} : OutRef a b → OutsRef as bs → OutsRef (a :: as) (b :: bs)

/-- events whose results are determined by the plain model (everything except the single-call
`read`, whose contract is C08_read_step_refines) -/
def Ev.det : Ev → Bool
  | Ev.fg _ op => Op.det op
  | _ => true

def markG (max : Nat) (hash : Bytes → Loc) (world : Store) (toks : List Tok) (b : Bytes) (fl : Flush) : Prop :=
  MarkOK max hash world toks (Seg.mem b fl)

theorem markG_pred0 (world : Store) (toks : List Tok) : MarkPred0 (markG max hash world toks) := by
  refine ⟨fun _ => trivial, ?_⟩
  intro b fl n h
  cases fl with
  | none => trivial
  | stale => trivial
  | pending t l => exact ⟨h.1, h.2.take n⟩

theorem markOK_truncClosed (world : Store) (toks : List Tok) : TruncClosed max (MarkOK max hash world toks) := by
  intro c n c' h ht sg hsg
  cases sg with
  | stored => trivial
  | mem b fl =>
    have hG : AllG (markG max hash world toks) c.segs := fun b fl hm => h _ hm
    exact truncate_G (markG_pred0 world toks) hG ht b fl hsg

theorem plain_step_inv (hinj : Function.Injective hash) (hmax : 1 ≤ max) {s : St} (hinv : Inv13 max hash s) (op : Op)
    (hp : Op.plain op = true) (hd : Op.det op = true) :
    (step (concImpl hash max) s.fs op).2 = (step specImpl (absFS s.fs) op).2 ∧
    absFS (step (concImpl hash max) s.fs op).1 = (step specImpl (absFS s.fs) op).1 ∧
    Inv13 max hash { s with fs := (step (concImpl hash max) s.fs op).1 } := by
  obtain ⟨h1, h2, h3⟩ := C08_step_refines hinj hmax hinv.base op hd
  obtain ⟨p1, p2⟩ := step_plain (hash := hash) (markOK_truncClosed (max := max) (hash := hash) s.fs.world s.toks) s.fs op hp
  refine ⟨h1, h2, h3, ?_⟩
  show AllSegs (MarkOK max hash (step (concImpl hash max) s.fs op).1.world s.toks) _
  rw [p1]
  exact p2 hinv.marks

theorem event_refines (hinj : Function.Injective hash) (hmax : 1 ≤ max) {s : St} (hinv : Inv13 max hash s) (e : Ev)
    (hdet : e.det = true) :
    OutRef (evStep hash max s e).2 (specStep (absFS s.fs) e).2 ∧
    absFS (evStep hash max s e).1.fs = (specStep (absFS s.fs) e).1 ∧
    Inv13 max hash (evStep hash max s e).1 := by
  cases e with
  | fg w op =>
    by_cases hw : ∃ h data, op = Op.write h data
    · obtain ⟨h, data, rfl⟩ := hw
      obtain ⟨h1, h2, h3⟩ := doWrite_ref hinj hmax hinv h data
      simp only [evStep, specStep, Op.plain, Bool.false_or, if_true]
      exact ⟨by rw [h1]; exact OutRef.same _, h2, h3⟩
    · have hev : evStep hash max s (Ev.fg w op) =
          (if Op.plain op then ({ s with fs := (step (concImpl hash max) s.fs op).1 }, Out.res (step (concImpl hash max) s.fs op).2)
           else (s, Out.res Res.badOp)) := by
        cases op <;> first | rfl | (exfalso; exact hw ⟨_, _, rfl⟩)
      have hsp : specStep (absFS s.fs) (Ev.fg w op) =
          (if Op.plain op then ((step specImpl (absFS s.fs) op).1, Out.res (step specImpl (absFS s.fs) op).2)
           else (absFS s.fs, Out.res Res.badOp)) := by
        cases op <;> first | rfl | (exfalso; exact hw ⟨_, _, rfl⟩)
      rw [hev, hsp]
      by_cases hp : Op.plain op = true
      · rw [if_pos hp, if_pos hp]
        obtain ⟨h1, h2, h3⟩ := plain_step_inv hinj hmax hinv op hp hdet
        exact ⟨by simp only []; rw [h1]; exact OutRef.same _, h2, h3⟩
      · rw [if_neg hp, if_neg hp]
        exact ⟨OutRef.same _, rfl, hinv⟩
  | flush w path short =>
    obtain ⟨h1, h2, h3⟩ := doFlushAsync_spec hinj hinv path short
    simp only [evStep, specStep]
    exact ⟨by rw [h3]; exact OutRef.same _, h2, h1⟩
  | complete g ok =>
    obtain ⟨h1, h2⟩ := complete_spec hinv g ok
    simp only [evStep, specStep]
    exact ⟨OutRef.done _, h2, h1⟩
  | save w mask fail =>
    obtain ⟨h1, h2, h3⟩ := save_spec hinj hinv w mask fail
    refine ⟨?_, h2, h1⟩
    rcases h3 with h | ⟨h, _⟩
    · rw [h]; exact OutRef.same _
    · rw [h]; exact OutRef.failed _

theorem history_refines (hinj : Function.Injective hash) (hmax : 1 ≤ max) :
    ∀ (evs : List Ev) (s : St), Inv13 max hash s → (∀ e ∈ evs, e.det = true) →
      OutsRef (run13 hash max s evs).2 (runSpec (absFS s.fs) evs).2 ∧
      absFS (run13 hash max s evs).1.fs = (runSpec (absFS s.fs) evs).1 ∧
      Inv13 max hash (run13 hash max s evs).1 := by
  intro evs
  induction evs with
  | nil => intro s hinv _; exact ⟨OutsRef.nil, rfl, hinv⟩
  | cons e rest ih =>
    intro s hinv hdet
    obtain ⟨h1, h2, h3⟩ := event_refines hinj hmax hinv e (hdet e (List.mem_cons_self ..))
    obtain ⟨i1, i2, i3⟩ := ih _ h3 (fun x hx => hdet x (List.mem_cons_of_mem _ hx))
    simp only [run13, runSpec]
    rw [← h2]
    exact ⟨OutsRef.cons h1 i1, i2, i3⟩

theorem init_inv13 : Inv13 max hash St.init :=
  ⟨C08_init_inv, fun _ h => by cases h⟩

end ArvVerif.C13
