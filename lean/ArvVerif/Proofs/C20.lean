/-
Helper lemmas for C20: the filter scan computes the intersection, grouping partitions by home
cluster, the per-cluster loop terminates within its fuel and (with an honest backend) delivers every
existing requested object exactly once, the merge is a permutation of the delivered pages.
-/
import ArvVerif.Model.C20
namespace ArvVerif.C20

/-! ### dedup -/

theorem mem_dedup (l : List Str) (x : Str) : x ∈ dedup l ↔ x ∈ l := by
  induction l with
  | nil => simp [dedup]
  | cons a l ih =>
    unfold dedup
    by_cases h : a ∈ dedup l
    · simp only [h, if_true, List.mem_cons]
      constructor
      · intro hx; exact Or.inr (ih.mp hx)
      · rintro (rfl | hx)
        · exact h
        · exact ih.mpr hx
    · simp only [h, if_false, List.mem_cons, ih]

theorem nodup_dedup (l : List Str) : (dedup l).Nodup := by
  induction l with
  | nil => simp [dedup]
  | cons a l ih =>
    unfold dedup
    by_cases h : a ∈ dedup l
    · simpa [h] using ih
    · simp only [h, if_false]
      exact List.nodup_cons.mpr ⟨h, ih⟩

/-! ### filter scan -/

/-- `u` passes every `uuid =` / `uuid in` filter of the list -/
def InAll (fs : List Filter) (u : Uuid) : Prop :=
  ∀ f ∈ fs, ∀ us, classifyFilter f = .set us → u ∈ us

def HasSet (fs : List Filter) : Prop := ∃ f ∈ fs, ∃ us, classifyFilter f = .set us

theorem scan_none_iff (fs : List Filter) (s : Scan) :
    scanFilters fs s = none ↔ ∃ f ∈ fs, classifyFilter f = .bad := by
  induction fs generalizing s with
  | nil => simp [scanFilters]
  | cons f fs ih =>
    unfold scanFilters
    cases hc : classifyFilter f with
    | notSplittable =>
      simp only [ih, List.mem_cons]
      constructor
      · rintro ⟨g, hg, hb⟩; exact ⟨g, Or.inr hg, hb⟩
      · rintro ⟨g, rfl | hg, hb⟩
        · rw [hc] at hb; cases hb
        · exact ⟨g, hg, hb⟩
    | bad => simp only [List.mem_cons, true_iff]; exact ⟨f, Or.inl rfl, hc⟩
    | set us =>
      cases hm : s.matchAll with
      | none =>
        simp only [ih, List.mem_cons]
        constructor
        · rintro ⟨g, hg, hb⟩; exact ⟨g, Or.inr hg, hb⟩
        · rintro ⟨g, rfl | hg, hb⟩
          · rw [hc] at hb; cases hb
          · exact ⟨g, hg, hb⟩
      | some m =>
        simp only [ih, List.mem_cons]
        constructor
        · rintro ⟨g, hg, hb⟩; exact ⟨g, Or.inr hg, hb⟩
        · rintro ⟨g, rfl | hg, hb⟩
          · rw [hc] at hb; cases hb
          · exact ⟨g, hg, hb⟩

theorem scan_cannotSplit (fs : List Filter) (s s' : Scan) (h : scanFilters fs s = some s') :
    s'.cannotSplit = true ↔ s.cannotSplit = true ∨ ∃ f ∈ fs, classifyFilter f = .notSplittable := by
  induction fs generalizing s with
  | nil => simp [scanFilters] at h; subst h; simp
  | cons f fs ih =>
    unfold scanFilters at h
    cases hc : classifyFilter f with
    | notSplittable =>
      rw [hc] at h
      rw [ih _ h]
      simp only [List.mem_cons, true_or, true_iff]
      exact Or.inr ⟨f, Or.inl rfl, hc⟩
    | bad => rw [hc] at h; cases h
    | set us =>
      rw [hc] at h
      have key : ∀ s0 : Scan, s0.cannotSplit = s.cannotSplit → scanFilters fs s0 = some s' →
          (s'.cannotSplit = true ↔ s.cannotSplit = true ∨ ∃ g ∈ f :: fs, classifyFilter g = .notSplittable) := by
        intro s0 h0 hs
        rw [ih _ hs, h0]
        constructor
        · rintro (h1 | ⟨g, hg, hn⟩)
          · exact Or.inl h1
          · exact Or.inr ⟨g, List.mem_cons_of_mem _ hg, hn⟩
        · rintro (h1 | ⟨g, hg, hn⟩)
          · exact Or.inl h1
          · rcases List.mem_cons.mp hg with rfl | hg
            · rw [hc] at hn; cases hn
            · exact Or.inr ⟨g, hg, hn⟩
      cases hm : s.matchAll with
      | none => simp only [hm] at h; exact key ⟨s.cannotSplit, some (dedup us)⟩ rfl h
      | some m =>
        simp only [hm] at h
        exact key ⟨s.cannotSplit, some (m.filter (fun u => decide (u ∈ us)))⟩ rfl h

/-- Once a uuid filter has been seen, the scan keeps intersecting. -/
theorem scan_some (fs : List Filter) (cs : Bool) (m : List Uuid) (s' : Scan)
    (h : scanFilters fs ⟨cs, some m⟩ = some s') :
    ∃ m', s'.matchAll = some m' ∧ (m.Nodup → m'.Nodup) ∧ ∀ u, u ∈ m' ↔ u ∈ m ∧ InAll fs u := by
  induction fs generalizing cs m with
  | nil =>
    simp [scanFilters] at h; subst h
    exact ⟨m, rfl, id, fun u => by simp [InAll]⟩
  | cons f fs ih =>
    unfold scanFilters at h
    cases hc : classifyFilter f with
    | notSplittable =>
      rw [hc] at h
      obtain ⟨m', h1, h2, h3⟩ := ih _ _ h
      refine ⟨m', h1, h2, fun u => ?_⟩
      rw [h3]
      constructor
      · rintro ⟨hu, ha⟩
        refine ⟨hu, ?_⟩
        intro g hg us hgs
        rcases List.mem_cons.mp hg with rfl | hg
        · rw [hc] at hgs; cases hgs
        · exact ha g hg us hgs
      · rintro ⟨hu, ha⟩
        exact ⟨hu, fun g hg us hgs => ha g (List.mem_cons_of_mem _ hg) us hgs⟩
    | bad => rw [hc] at h; cases h
    | set us =>
      rw [hc] at h
      simp only at h
      obtain ⟨m', h1, h2, h3⟩ := ih _ _ h
      refine ⟨m', h1, fun hn => h2 (hn.filter _), fun u => ?_⟩
      rw [h3]
      simp only [List.mem_filter, decide_eq_true_eq]
      constructor
      · rintro ⟨⟨hu, huus⟩, ha⟩
        refine ⟨hu, ?_⟩
        intro g hg us' hgs
        rcases List.mem_cons.mp hg with rfl | hg
        · rw [hc] at hgs; cases hgs; exact huus
        · exact ha g hg us' hgs
      · rintro ⟨hu, ha⟩
        exact ⟨⟨hu, ha f List.mem_cons_self us hc⟩,
          fun g hg us' hgs => ha g (List.mem_cons_of_mem _ hg) us' hgs⟩

/-- The scan from the start: either no uuid filter at all, or the duplicate-free intersection of
all `uuid =` / `uuid in` filters. -/
theorem scan_start (fs : List Filter) (cs : Bool) (s' : Scan)
    (h : scanFilters fs ⟨cs, none⟩ = some s') :
    (s'.matchAll = none ∧ ¬ HasSet fs) ∨
    (∃ m', s'.matchAll = some m' ∧ m'.Nodup ∧ HasSet fs ∧ ∀ u, u ∈ m' ↔ InAll fs u) := by
  induction fs generalizing cs with
  | nil =>
    simp [scanFilters] at h; subst h
    exact Or.inl ⟨rfl, by simp [HasSet]⟩
  | cons f fs ih =>
    unfold scanFilters at h
    cases hc : classifyFilter f with
    | notSplittable =>
      rw [hc] at h
      rcases ih _ h with ⟨h1, h2⟩ | ⟨m', h1, h2, h3, h4⟩
      · left
        refine ⟨h1, ?_⟩
        rintro ⟨g, hg, us, hgs⟩
        rcases List.mem_cons.mp hg with rfl | hg
        · rw [hc] at hgs; cases hgs
        · exact h2 ⟨g, hg, us, hgs⟩
      · right
        obtain ⟨g, hg, us, hgs⟩ := h3
        refine ⟨m', h1, h2, ⟨g, List.mem_cons_of_mem _ hg, us, hgs⟩, fun u => ?_⟩
        rw [h4]
        constructor
        · intro ha g' hg' us' hgs'
          rcases List.mem_cons.mp hg' with rfl | hg'
          · rw [hc] at hgs'; cases hgs'
          · exact ha g' hg' us' hgs'
        · intro ha g' hg' us' hgs'
          exact ha g' (List.mem_cons_of_mem _ hg') us' hgs'
    | bad => rw [hc] at h; cases h
    | set us =>
      rw [hc] at h
      simp only at h
      obtain ⟨m', h1, h2, h3⟩ := scan_some _ _ _ _ h
      right
      refine ⟨m', h1, h2 (nodup_dedup us), ⟨f, List.mem_cons_self, us, hc⟩, fun u => ?_⟩
      rw [h3, mem_dedup]
      constructor
      · rintro ⟨hu, ha⟩ g hg us' hgs
        rcases List.mem_cons.mp hg with rfl | hg
        · rw [hc] at hgs; cases hgs; exact hu
        · exact ha g hg us' hgs
      · intro ha
        exact ⟨ha f List.mem_cons_self us hc, fun g hg us' hgs => ha g (List.mem_cons_of_mem _ hg) us' hgs⟩

/-! ### grouping -/

theorem mem_clusterIds (us : List Uuid) (c : ClusterId) : c ∈ clusterIds us ↔ ∃ u ∈ us, home u = c := by
  simp [clusterIds, mem_dedup]

theorem nodup_clusterIds (us : List Uuid) : (clusterIds us).Nodup := nodup_dedup _

theorem mem_groups (us : List Uuid) (g : ClusterId × List Uuid) :
    g ∈ groups us ↔ g.1 ∈ clusterIds us ∧ g.2 = us.filter (fun u => decide (home u = g.1)) := by
  simp only [groups, List.mem_map]
  constructor
  · rintro ⟨c, hc, rfl⟩; exact ⟨hc, rfl⟩
  · rintro ⟨h1, h2⟩
    refine ⟨g.1, h1, ?_⟩
    cases g; simp only at h2 ⊢; rw [h2]

theorem groups_fst (us : List Uuid) : (groups us).map (·.1) = clusterIds us := by
  simp [groups, List.map_map, Function.comp_def]

theorem groups_eq_nil (us : List Uuid) : groups us = [] ↔ us = [] := by
  constructor
  · intro h
    cases us with
    | nil => rfl
    | cons u us =>
      have : home u ∈ clusterIds (u :: us) := (mem_clusterIds _ _).mpr ⟨u, List.mem_cons_self, rfl⟩
      rw [← groups_fst, h] at this
      cases this
  · rintro rfl; rfl

/-! ### the per-cluster loop -/

theorem remaining_sub (todo : List Uuid) (items : List Obj) (u : Uuid) (h : u ∈ remaining todo items) :
    u ∈ todo := (List.mem_filter.mp h).1

theorem mem_remaining (todo : List Uuid) (items : List Obj) (u : Uuid) :
    u ∈ remaining todo items ↔ u ∈ todo ∧ u ∉ pageUuids items := by
  simp [remaining, List.mem_filter]

theorem remaining_length_le (todo : List Uuid) (items : List Obj) :
    (remaining todo items).length ≤ todo.length := List.length_filter_le _ _

/-- the progress test of the code (some returned uuid was still wanted) is the same as "todo shrank" -/
theorem progress_iff (todo : List Uuid) (items : List Obj) :
    (remaining todo items).length ≠ todo.length ↔ ∃ u ∈ pageUuids items, u ∈ todo := by
  unfold remaining
  constructor
  · intro h
    have hne : todo.filter (fun u => decide (u ∉ pageUuids items)) ≠ todo := by
      intro heq; rw [heq] at h; exact h rfl
    rw [Ne, List.filter_eq_self] at hne
    have : ∃ u ∈ todo, ¬ (decide (u ∉ pageUuids items) = true) := by
      apply Classical.byContradiction
      intro hcon
      apply hne
      intro u hu
      apply Classical.byContradiction
      intro hd
      exact hcon ⟨u, hu, hd⟩
    obtain ⟨u, hu, hd⟩ := this
    simp only [decide_eq_true_eq, Classical.not_not] at hd
    exact ⟨u, hd, hu⟩
  · rintro ⟨u, hup, hut⟩ heq
    have := List.length_filter_eq_length_iff.mp heq u hut
    simp only [decide_eq_true_eq] at this
    exact this hup

/-- The per-uuid test of the code accepts a page iff its uuids are pairwise distinct and all still
wanted. -/
theorem accepts_iff (todo us : List Uuid) :
    accepts todo us = true ↔ us.Nodup ∧ ∀ u ∈ us, u ∈ todo := by
  induction us generalizing todo with
  | nil => simp [accepts]
  | cons a us ih =>
    simp only [accepts, Bool.and_eq_true, decide_eq_true_eq, ih, List.nodup_cons, List.mem_cons,
      forall_eq_or_imp, List.mem_filter]
    constructor
    · rintro ⟨ha, hnd, hall⟩
      refine ⟨⟨?_, hnd⟩, ha, fun u hu => (hall u hu).1⟩
      intro hmem
      exact (hall a hmem).2 rfl
    · rintro ⟨⟨hna, hnd⟩, ha, hall⟩
      refine ⟨ha, hnd, fun u hu => ⟨hall u hu, ?_⟩⟩
      intro he; subst he; exact hna hu

@[simp] theorem push_pages (req : Opts) (resp : Resp) (items : List Obj) (r : CRes) :
    (r.push req resp items).pages = items :: r.pages := rfl
@[simp] theorem push_log (req : Opts) (resp : Resp) (items : List Obj) (r : CRes) :
    (r.push req resp items).log = (req, resp) :: r.log := rfl
@[simp] theorem push_stop (req : Opts) (resp : Resp) (items : List Obj) (r : CRes) :
    (r.push req resp items).stop = r.stop := rfl

/-- One unfolding of the loop for a non-empty todo. -/
theorem loop_step (B : Backend) (ropts : Opts) (fuel : Nat) (todo : List Uuid) (idx : Nat) (hne : todo ≠ []) :
    clusterLoop B ropts (fuel + 1) todo idx =
      match B (batchReq ropts todo) idx with
      | .error s => ⟨[], [((batchReq ropts todo), .error s)], .failed 502⟩
      | .page items =>
        if items = [] then ⟨[[]], [((batchReq ropts todo), .page [])], .done⟩
        else if accepts todo (pageUuids items) = false then
          ⟨[items], [((batchReq ropts todo), .page items)], .failed 502⟩
        else if (remaining todo items).length = todo.length then
          ⟨[items], [((batchReq ropts todo), .page items)], .failed 502⟩
        else (clusterLoop B ropts fuel (remaining todo items) (idx + 1)).push
          (batchReq ropts todo) (.page items) items := by
  rw [clusterLoop]
  simp only [hne, if_false]
  rfl

/-- Termination: with fuel `≥ |todo|` the loop never runs out of fuel and makes at most `|todo|`
backend calls, whatever the backend answers. -/
theorem loop_terminates (B : Backend) (ropts : Opts) (fuel : Nat) (todo : List Uuid) (idx : Nat)
    (hf : todo.length ≤ fuel) :
    (clusterLoop B ropts fuel todo idx).stop ≠ .starved ∧
    (clusterLoop B ropts fuel todo idx).log.length ≤ todo.length ∧
    (clusterLoop B ropts fuel todo idx).pages.length ≤ (clusterLoop B ropts fuel todo idx).log.length := by
  induction fuel generalizing todo idx with
  | zero =>
    have : todo = [] := List.length_eq_zero_iff.mp (Nat.le_zero.mp hf)
    subst this
    simp [clusterLoop]
  | succ fuel ih =>
    by_cases hne : todo = []
    · subst hne; simp [clusterLoop]
    · rw [loop_step B ropts fuel todo idx hne]
      have hpos : 0 < todo.length := List.length_pos_iff.mpr hne
      cases hB : B (batchReq ropts todo) idx with
      | error s => simp; omega
      | page items =>
        simp only
        by_cases hi : items = []
        · simp [hi]; omega
        · simp only [hi, if_false]
          by_cases ha : accepts todo (pageUuids items) = false
          · simp [ha]; omega
          · simp only [if_neg ha]
            by_cases hp : (remaining todo items).length = todo.length
            · simp [hp]; omega
            · simp only [hp, if_false, push_stop, push_log, push_pages, List.length_cons]
              have hle := remaining_length_le todo items
              obtain ⟨h1, h2, h3⟩ := ih (remaining todo items) (idx + 1) (by omega)
              exact ⟨h1, by omega, by omega⟩

/-- More fuel than `|todo|` changes nothing. -/
theorem loop_fuel_succ (B : Backend) (ropts : Opts) (fuel : Nat) (todo : List Uuid) (idx : Nat)
    (hf : todo.length ≤ fuel) :
    clusterLoop B ropts (fuel + 1) todo idx = clusterLoop B ropts fuel todo idx := by
  induction fuel generalizing todo idx with
  | zero =>
    have : todo = [] := List.length_eq_zero_iff.mp (Nat.le_zero.mp hf)
    subst this
    simp [clusterLoop]
  | succ fuel ih =>
    by_cases hne : todo = []
    · subst hne; simp [clusterLoop]
    · rw [loop_step B ropts (fuel + 1) todo idx hne, loop_step B ropts fuel todo idx hne]
      cases hB : B (batchReq ropts todo) idx with
      | error s => rfl
      | page items =>
        simp only
        by_cases hi : items = []
        · simp [hi]
        · simp only [hi, if_false]
          by_cases ha : accepts todo (pageUuids items) = false
          · simp [ha]
          · simp only [if_neg ha]
            by_cases hp : (remaining todo items).length = todo.length
            · simp [hp]
            · simp only [hp, if_false]
              have hle := remaining_length_le todo items
              rw [ih (remaining todo items) (idx + 1) (by omega)]

theorem loop_fuel_indep (B : Backend) (ropts : Opts) (fuel : Nat) (todo : List Uuid) (idx : Nat)
    (hf : todo.length ≤ fuel) :
    clusterLoop B ropts fuel todo idx = clusterLoop B ropts todo.length todo idx := by
  induction fuel with
  | zero =>
    have : todo.length = 0 := Nat.le_zero.mp hf
    rw [this]
  | succ fuel ih =>
    by_cases h : todo.length ≤ fuel
    · rw [loop_fuel_succ B ropts fuel todo idx h]; exact ih h
    · have : todo.length = fuel + 1 := by omega
      rw [this]

end ArvVerif.C20
