/- C04, link between the layers: kernel evaluation of the linearizability check over the reachable-state
tables of all 144 configurations (5 194 states). -/
import ArvVerif.Proofs.C04_ComposeTable
namespace ArvVerif.C04.Race

theorem linCheck : (allCfgs.all fun c => linCfg c (tableOf c) (linOf c)) = true := by decide +kernel

end ArvVerif.C04.Race
