/-
C18 helper lemmas: `perms` enumerates exactly the permutations of a list (so
`collectionGetAnyOrder` ranges over every completion order of the answering remotes).
-/
import ArvVerif.Model.C18
namespace ArvVerif.C18

theorem insertions_perm {α : Type} (a : α) : ∀ (l o : List α), o ∈ insertions a l → o.Perm (a :: l)
  | [], o, h => by
    simp only [insertions, List.mem_singleton] at h
    subst h; exact List.Perm.refl _
  | b :: bs, o, h => by
    simp only [insertions, List.mem_cons, List.mem_map] at h
    rcases h with h | ⟨o', ho', rfl⟩
    · subst h; exact List.Perm.refl _
    · exact ((insertions_perm a bs o' ho').cons b).trans (List.Perm.swap a b bs)

theorem perms_perm {α : Type} : ∀ (l o : List α), o ∈ perms l → o.Perm l
  | [], o, h => by
    simp only [perms, List.mem_singleton] at h
    subst h; exact List.Perm.refl _
  | a :: as, o, h => by
    simp only [perms, List.mem_flatMap] at h
    obtain ⟨p, hp, ho⟩ := h
    exact (insertions_perm a p o ho).trans ((perms_perm as p hp).cons a)

theorem mem_insertions {α : Type} (a : α) : ∀ (l1 l2 : List α), l1 ++ a :: l2 ∈ insertions a (l1 ++ l2)
  | [], l2 => by
    cases l2 <;> simp [insertions]
  | b :: l1, l2 => by
    simp only [List.cons_append, insertions, List.mem_cons, List.mem_map]
    right
    exact ⟨l1 ++ a :: l2, mem_insertions a l1 l2, rfl⟩

theorem mem_perms_of_perm {α : Type} : ∀ (l o : List α), o.Perm l → o ∈ perms l
  | [], o, h => by
    have := h.eq_nil
    subst this; simp [perms]
  | a :: as, o, h => by
    have ha : a ∈ o := h.symm.subset (List.mem_cons_self)
    obtain ⟨l1, l2, rfl⟩ := List.append_of_mem ha
    have h2 : (l1 ++ l2).Perm as := (List.perm_middle.symm.trans h).cons_inv
    simp only [perms, List.mem_flatMap]
    exact ⟨l1 ++ l2, mem_perms_of_perm as (l1 ++ l2) h2, mem_insertions a l1 l2⟩

theorem mem_perms_iff {α : Type} (l o : List α) : o ∈ perms l ↔ o.Perm l :=
  ⟨perms_perm l o, mem_perms_of_perm l o⟩

end ArvVerif.C18
