/-
C02 helper lemmas, part 6: two WriteBlock runs for the same hash running concurrently (distinct
temp names), any interleaving, crash anywhere.
-/
import ArvVerif.Proofs.C02_Write
namespace ArvVerif.C02

/-- What is left to do of one writer: local steps on its temp file `tmp`, possibly followed by the
rename onto `bp` (`fin`), at which moment the temp file will hold `file`. Indexed by the present
content `x` of the temp file. -/
inductive Rem (tmp bp : Path) (file : File) : Bool → Option File → List Ev → Prop where
  | done (x : Option File) : Rem tmp bp file false x []
  | fin (pt : Option Point) : Rem tmp bp file true (some file) [⟨pt, .rename tmp bp⟩]
  | loc {b : Bool} {x : Option File} (e : Ev) (es : List Ev) : LocalAt tmp e.eff →
      Rem tmp bp file b (localStep e.eff x) es → Rem tmp bp file b x (e :: es)

theorem conc_atomic {tmpA tmpB bp : Path} {fileA fileB : File}
    (hAB : tmpA ≠ tmpB) (hA : tmpA ≠ bp) (hB : tmpB ≠ bp) :
    ∀ (sched : List Bool) (fs : FS) (as bs : List Ev) (fa fb : Bool),
      Rem tmpA bp fileA fa (fs.get tmpA) as → Rem tmpB bp fileB fb (fs.get tmpB) bs →
      (run fs (interleave sched as bs)).get bp = fs.get bp ∨
      (fa = true ∧ (run fs (interleave sched as bs)).get bp = some fileA) ∨
      (fb = true ∧ (run fs (interleave sched as bs)).get bp = some fileB) := by
  intro sched
  induction sched with
  | nil => intro fs as bs fa fb _ _; left; simp [interleave]
  | cons c s ih =>
    intro fs as bs fa fb ha hb
    cases c with
    | true =>
      generalize hx : fs.get tmpA = x at ha
      cases ha with
      | done => simpa [interleave] using ih fs [] bs false fb (hx ▸ Rem.done _) hb
      | fin pt =>
        simp only [interleave, run_cons]
        have hfs' : (Step.rename tmpA bp).apply fs = (fs.erase tmpA).set bp fileA := by
          simp [Step.apply, hx]
        rw [hfs']
        have hbp : ((fs.erase tmpA).set bp fileA).get bp = some fileA := get_set_eq _ _ _
        have htb : ((fs.erase tmpA).set bp fileA).get tmpB = fs.get tmpB := by
          rw [get_set_ne _ _ hB, get_erase_ne _ (Ne.symm hAB)]
        rcases ih ((fs.erase tmpA).set bp fileA) [] bs false fb (Rem.done _) (htb ▸ hb) with h | ⟨h, _⟩ | h
        · right; left; exact ⟨by first | rfl | trivial, by rw [h, hbp]⟩
        · cases h
        · right; right; exact h
      | loc e es hl hr =>
        simp only [interleave, run_cons]
        have h1 : (e.eff.apply fs).get tmpA = localStep e.eff x := by rw [get_apply_local hl, hx]
        have h2 : (e.eff.apply fs).get tmpB = fs.get tmpB := get_apply_of_avoids (local_avoids hAB hl) fs
        have h3 : (e.eff.apply fs).get bp = fs.get bp := get_apply_of_avoids (local_avoids hA hl) fs
        rcases ih (e.eff.apply fs) es bs fa fb (h1 ▸ hr) (h2 ▸ hb) with h | h | h
        · left; rw [h, h3]
        · right; left; exact h
        · right; right; exact h
    | false =>
      generalize hx : fs.get tmpB = x at hb
      cases hb with
      | done =>
        cases as <;> simpa [interleave] using ih fs _ [] fa false ha (hx ▸ Rem.done _)
      | fin pt =>
        have hfs' : (Step.rename tmpB bp).apply fs = (fs.erase tmpB).set bp fileB := by
          simp [Step.apply, hx]
        have hbp : ((fs.erase tmpB).set bp fileB).get bp = some fileB := get_set_eq _ _ _
        have hta : ((fs.erase tmpB).set bp fileB).get tmpA = fs.get tmpA := by
          rw [get_set_ne _ _ hA, get_erase_ne _ hAB]
        have key := ih ((fs.erase tmpB).set bp fileB) as [] fa false (hta ▸ ha) (Rem.done _)
        have e : interleave (false :: s) as [⟨pt, .rename tmpB bp⟩] =
            ⟨pt, .rename tmpB bp⟩ :: interleave s as [] := by cases as <;> rfl
        rw [e, run_cons, hfs']
        rcases key with h | h | ⟨h, _⟩
        · right; right; exact ⟨by first | rfl | trivial, by rw [h, hbp]⟩
        · right; left; exact h
        · cases h
      | loc e es hl hr =>
        have e' : interleave (false :: s) as (e :: es) = e :: interleave s as es := by cases as <;> rfl
        rw [e', run_cons]
        have h1 : (e.eff.apply fs).get tmpB = localStep e.eff x := by rw [get_apply_local hl, hx]
        have h2 : (e.eff.apply fs).get tmpA = fs.get tmpA := get_apply_of_avoids (local_avoids (Ne.symm hAB) hl) fs
        have h3 : (e.eff.apply fs).get bp = fs.get bp := get_apply_of_avoids (local_avoids hB hl) fs
        rcases ih (e.eff.apply fs) as es fa fb (h2 ▸ ha) (h1 ▸ hr) with h | h | h
        · left; rw [h, h3]
        · right; left; exact h
        · right; right; exact h

/-! ### a WriteBlock run is such a writer -/

theorem rem_of_local {tmp bp : Path} {file : File} {l : List Ev} (h : ∀ e ∈ l, LocalAt tmp e.eff) :
    ∀ x, Rem tmp bp file false x l := by
  induction l with
  | nil => intro x; exact Rem.done x
  | cons e es ih =>
    intro x
    exact Rem.loc e es (h e List.mem_cons_self) (ih (fun e' he' => h e' (List.mem_cons_of_mem _ he')) _)

def tmpAfter (x : Option File) (evs : List Ev) : Option File := evs.foldl (fun x e => localStep e.eff x) x

theorem rem_append_local {tmp bp : Path} {file : File} {b : Bool} {l1 l2 : List Ev}
    (h : ∀ e ∈ l1, LocalAt tmp e.eff) :
    ∀ x, Rem tmp bp file b (tmpAfter x l1) l2 → Rem tmp bp file b x (l1 ++ l2) := by
  induction l1 with
  | nil => intro x hr; simpa [tmpAfter] using hr
  | cons e es ih =>
    intro x hr
    exact Rem.loc e _ (h e List.mem_cons_self)
      (ih (fun e' he' => h e' (List.mem_cons_of_mem _ he')) _ (by simpa [tmpAfter] using hr))

theorem get_run_local {p : Path} {evs : List Ev} (h : ∀ e ∈ evs, LocalAt p e.eff) :
    ∀ fs : FS, (run fs evs).get p = tmpAfter (fs.get p) evs := by
  induction evs with
  | nil => intro fs; rfl
  | cons e es ih =>
    intro fs
    rw [run_cons, ih (fun e' he' => h e' (List.mem_cons_of_mem _ he')), get_apply_local (h e List.mem_cons_self)]
    rfl

theorem wb_rem (fs : FS) (w : WBIn) :
    Rem (tmpPath w.h w.sfx) (blockPath w.h) ⟨w.chunks.flatten, w.now⟩ (writeBlockEvs w).2
      (fs.get (tmpPath w.h w.sfx)) (writeBlockEvs w).1 := by
  rcases wb_shape w with ⟨h2, hl⟩ | ⟨h2, _, _, he⟩
  · rw [h2]; exact rem_of_local hl _
  · rw [h2, he]
    apply rem_append_local (wbBody_local w)
    rw [← get_run_local (wbBody_local w) fs, get_tmp_after_body fs w]
    exact Rem.fin _

theorem tmpPath_inj {h s1 s2 : Name} (hs : s1 ≠ s2) : tmpPath h s1 ≠ tmpPath h s2 := by
  intro he
  have : tmpName h s1 = tmpName h s2 := by
    have := congrArg Path.name he
    simpa [tmpPath] using this
  simp [tmpName] at this
  exact hs this

end ArvVerif.C02
