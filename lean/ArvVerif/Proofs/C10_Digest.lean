/-
C10 — blockdigest: `FromString` / `String` round trip on the 32 digest characters of a locator, the
digest as a map key (`digestKey`), and `ParseBlockLocator` on every string `LocatorPattern` accepts.
-/
import ArvVerif.Model.C10_Digest
import ArvVerif.Proofs.C10_Text
namespace ArvVerif.C10

/-! ## hex digits -/

/-- per-byte facts about hex digits, checked for all 256 byte values -/
def hexCheck (c : UInt8) : Bool :=
  !isAnyHex c ||
    (decide (hexValB c < 16) && hexDigitB (hexValB c) == lowerHexB c && decide (hexValB (lowerHexB c) = hexValB c) &&
      isAnyHex (lowerHexB c) && c != bPlus)

set_option maxRecDepth 100000 in
theorem hexCheck_all : ∀ n : Fin 256, hexCheck (UInt8.ofNat n.val) = true := by decide

theorem hexCheck_ok (c : UInt8) (h : isAnyHex c = true) :
    hexValB c < 16 ∧ hexDigitB (hexValB c) = lowerHexB c ∧ hexValB (lowerHexB c) = hexValB c ∧
      isAnyHex (lowerHexB c) = true ∧ c ≠ bPlus := by
  have := hexCheck_all ⟨c.toNat, c.toNat_lt⟩
  simp only [UInt8.ofNat_toNat] at this
  unfold hexCheck at this
  simp only [h, Bool.not_true, Bool.false_or, Bool.and_eq_true, decide_eq_true_eq, beq_iff_eq, bne_iff_ne] at this
  obtain ⟨⟨⟨⟨h1, h2⟩, h3⟩, h4⟩, h5⟩ := this
  exact ⟨h1, h2, h3, h4, h5⟩

theorem hexFold_snoc (s : Bytes) (c : UInt8) : hexFold (s ++ [c]) = hexFold s * 16 + hexValB c := by
  simp [hexFold, List.foldl_append]

/-- the value of `w` hex digits is below `16^w` and prints back (`%0wx`) as the lower-cased digits -/
theorem hexPad_hexFold : ∀ (w : Nat) (s : Bytes), s.length = w → s.all isAnyHex = true →
    hexFold s < 16 ^ w ∧ hexPad w (hexFold s) = s.map lowerHexB := by
  intro w
  induction w with
  | zero =>
    intro s hl _
    have : s = [] := List.length_eq_zero_iff.mp hl
    subst this
    exact ⟨by simp [hexFold], rfl⟩
  | succ w ih =>
    intro s hl hall
    have hne : s ≠ [] := by intro e; rw [e] at hl; simp at hl
    obtain ⟨s', c, rfl⟩ : ∃ s' c, s = s' ++ [c] := ⟨s.dropLast, s.getLast hne, (List.dropLast_concat_getLast hne).symm⟩
    have hl' : s'.length = w := by simp at hl; exact hl
    have hall' : s'.all isAnyHex = true ∧ isAnyHex c = true := by
      simpa [List.all_append] using hall
    obtain ⟨h1, h2⟩ := ih s' hl' hall'.1
    obtain ⟨c1, c2, _, _, _⟩ := hexCheck_ok c hall'.2
    rw [hexFold_snoc]
    refine ⟨?_, ?_⟩
    · rw [Nat.pow_succ]; omega
    · have e1 : (hexFold s' * 16 + hexValB c) / 16 = hexFold s' := by omega
      have e2 : (hexFold s' * 16 + hexValB c) % 16 = hexValB c := by omega
      simp only [hexPad, e1, e2, h2, c2, List.map_append, List.map_cons, List.map_nil]

/-- the value of a hex string depends only on its lower-cased form -/
theorem hexFold_lower_aux : ∀ (s : Bytes) (acc : Nat), s.all isAnyHex = true →
    (s.map lowerHexB).foldl (fun acc c => acc * 16 + hexValB c) acc = s.foldl (fun acc c => acc * 16 + hexValB c) acc
  | [], _, _ => rfl
  | c :: rest, acc, hall => by
    have hall' : isAnyHex c = true ∧ rest.all isAnyHex = true := by simpa using hall
    obtain ⟨_, _, c3, _, _⟩ := hexCheck_ok c hall'.1
    simp only [List.map_cons, List.foldl_cons, c3]
    exact hexFold_lower_aux rest _ hall'.2

theorem hexFold_lower (s : Bytes) (hall : s.all isAnyHex = true) : hexFold (s.map lowerHexB) = hexFold s :=
  hexFold_lower_aux s 0 hall

theorem parseHex64_hex16 (s : Bytes) (hl : s.length = 16) (hall : s.all isAnyHex = true) :
    parseHex64 s = some (hexFold s) := by
  have hne : s ≠ [] := by intro e; rw [e] at hl; simp at hl
  obtain ⟨h1, _⟩ := hexPad_hexFold 16 s hl hall
  unfold parseHex64
  rw [if_pos ⟨hne, hall⟩, if_pos (by unfold two64; omega)]

/-! ## FromString / String -/

theorem digestKey_eq (t : Bytes) : digestKey t = (t.take 32).map lowerHexB := rfl

/-- **`FromString` then `String()`**: on 32 hex characters (either case) `blockdigest.FromString` succeeds and
`BlockDigest.String()` prints the lower-cased characters back. -/
theorem digestFromString_spec (s : Bytes) (hl : s.length = 32) (hall : s.all isAnyHex = true) :
    ∃ d, digestFromString s = some d ∧ digestString d = s.map lowerHexB ∧
      d = ⟨hexFold (s.take 16), hexFold (s.drop 16)⟩ := by
  have hl1 : (s.take 16).length = 16 := by simp [hl]
  have hl2 : (s.drop 16).length = 16 := by simp [hl]
  have ha1 : (s.take 16).all isAnyHex = true := by
    rw [List.all_eq_true] at hall ⊢
    intro x hx; exact hall x (List.mem_of_mem_take hx)
  have ha2 : (s.drop 16).all isAnyHex = true := by
    rw [List.all_eq_true] at hall ⊢
    intro x hx; exact hall x (List.mem_of_mem_drop hx)
  refine ⟨⟨hexFold (s.take 16), hexFold (s.drop 16)⟩, ?_, ?_, rfl⟩
  · unfold digestFromString
    rw [if_neg (by simp [hl]), parseHex64_hex16 _ hl1 ha1, parseHex64_hex16 _ hl2 ha2]
  · unfold digestString
    rw [(hexPad_hexFold 16 _ hl1 ha1).2, (hexPad_hexFold 16 _ hl2 ha2).2, ← List.map_append, List.take_append_drop]

/-- anything else is an error: wrong length, or a character outside `[0-9a-fA-F]` -/
theorem digestFromString_none (s : Bytes) (h : s.length ≠ 32 ∨ s.all isAnyHex = false) :
    digestFromString s = none := by
  unfold digestFromString
  by_cases hl : s.length ≠ 32
  · rw [if_pos hl]
  · rw [if_neg hl]
    have hl' : s.length = 32 := by omega
    rcases h with h | h
    · exact absurd h hl
    · have : (s.take 16).all isAnyHex = false ∨ (s.drop 16).all isAnyHex = false := by
        rw [← List.take_append_drop 16 s, List.all_append] at h
        cases h1 : (s.take 16).all isAnyHex
        · exact Or.inl rfl
        · rw [h1] at h; simp only [Bool.true_and] at h; exact Or.inr h
      rcases this with h1 | h1
      · have : parseHex64 (s.take 16) = none := by
          unfold parseHex64; rw [if_neg (by rw [h1]; simp)]
        rw [this]
      · have : parseHex64 (s.drop 16) = none := by
          unfold parseHex64; rw [if_neg (by rw [h1]; simp)]
        rw [this]
        cases parseHex64 (s.take 16) <;> rfl

/-- **the digest as a map key**: two strings of 32 hex characters parse to the same `BlockDigest` exactly
when their lower-cased forms (`digestKey`, the key the codec model uses) are equal. -/
theorem digestFromString_eq_iff (a b : Bytes) (ha : a.length = 32) (hb : b.length = 32)
    (haa : a.all isAnyHex = true) (hbb : b.all isAnyHex = true) :
    digestFromString a = digestFromString b ↔ a.map lowerHexB = b.map lowerHexB := by
  obtain ⟨da, ha1, ha2, _⟩ := digestFromString_spec a ha haa
  obtain ⟨db, hb1, hb2, _⟩ := digestFromString_spec b hb hbb
  constructor
  · intro h
    rw [ha1, hb1] at h
    cases h
    rw [← ha2, ← hb2]
  · intro h
    have hla : (a.map lowerHexB).length = 32 := by simp [ha]
    have hall : (a.map lowerHexB).all isAnyHex = true := by
      rw [List.all_eq_true]
      intro x hx
      obtain ⟨y, hy, rfl⟩ := List.mem_map.mp hx
      exact (hexCheck_ok y (List.all_eq_true.mp haa y hy)).2.2.2.1
    -- both parse like their common lower-cased form
    have key : ∀ s : Bytes, s.length = 32 → s.all isAnyHex = true →
        digestFromString s = some ⟨hexFold ((s.map lowerHexB).take 16), hexFold ((s.map lowerHexB).drop 16)⟩ := by
      intro s hs hss
      obtain ⟨d, h1, _, h3⟩ := digestFromString_spec s hs hss
      rw [h1, h3]
      have t1 : (s.take 16).all isAnyHex = true := by
        rw [List.all_eq_true] at hss ⊢
        intro x hx; exact hss x (List.mem_of_mem_take hx)
      have t2 : (s.drop 16).all isAnyHex = true := by
        rw [List.all_eq_true] at hss ⊢
        intro x hx; exact hss x (List.mem_of_mem_drop hx)
      have e1 : (s.map lowerHexB).take 16 = (s.take 16).map lowerHexB := by simp
      have e2 : (s.map lowerHexB).drop 16 = (s.drop 16).map lowerHexB := by simp
      rw [e1, e2, hexFold_lower _ t1, hexFold_lower _ t2]
    rw [key a ha haa, key b hb hbb, h]

/-! ## ParseBlockLocator -/

theorem plus_not_digit : isDigit bPlus = false := by decide

/-- `strings.Split(s, "+")` on a token `LocatorPattern` accepts -/
theorem locator_split (t ds : Bytes) (h : goLocatorDigits t = some ds) :
    ∃ hints, splitOn bPlus t = t.take 32 :: ds :: hints ∧ (t.take 32).length = 32 ∧
      (t.take 32).all isAnyHex = true ∧ ds ≠ [] ∧ ds.all isDigit = true ∧
      t = joinWith bPlus (t.take 32 :: ds :: hints) := by
  obtain ⟨hs, tl, ht, hlen, hall, hdne, hd, htl⟩ := locatorSizeDigits_shape isAnyHex t ds h
  have hnp : bPlus ∉ hs := by
    intro hm
    exact (hexCheck_ok bPlus (List.all_eq_true.mp hall _ hm)).2.2.2.2 rfl
  have hnd : bPlus ∉ ds := not_mem_of_all hd plus_not_digit
  have htake : t.take 32 = hs := by rw [ht, List.take_left' hlen]
  rw [htake]
  rcases htl with rfl | ⟨_, tl', rfl⟩
  · refine ⟨[], ?_, hlen, hall, hdne, hd, ?_⟩
    · rw [ht, splitOn_append_sep bPlus hs _ hnp, List.append_nil, splitOn_of_no_sep bPlus ds hnd]
    · rw [ht]; simp [joinWith]
  · refine ⟨splitOn bPlus tl', ?_, hlen, hall, hdne, hd, ?_⟩
    · rw [ht, splitOn_append_sep bPlus hs _ hnp, splitOn_append_sep bPlus ds _ hnd]
    · have hj := joinWith_splitOn bPlus tl'
      rw [ht]
      cases hsp : splitOn bPlus tl' with
      | nil => exact absurd hsp (splitOn_ne_nil bPlus tl')
      | cons x xs =>
        rw [hsp] at hj
        simp only [joinWith, hj]

/-- `ParseBlockLocator` never reaches the index-out-of-range on `tokens[1]`, for any string -/
theorem parseBlockLocator_no_panic (t : Bytes) : parseBlockLocator t ≠ .panic := by
  unfold parseBlockLocator
  cases hg : isGoLocator t
  · simp
  · simp only [Bool.not_true, Bool.false_eq_true, if_false]
    unfold isGoLocator at hg
    cases hd : goLocatorDigits t with
    | none => rw [hd] at hg; cases hg
    | some ds =>
      obtain ⟨hints, hsp, _⟩ := locator_split t ds hd
      rw [hsp]
      simp only []
      cases digestFromString (List.take 32 t) with
      | none => simp
      | some dg => cases parseIntBits 64 ds <;> simp

/-- **`ParseBlockLocator` on every string `LocatorPattern` accepts** (size below 2^63, what `ParseInt`
holds): it succeeds; the digest prints back as the lower-cased 32 digest characters (`digestKey`); the
size is the decimal value of the size field; digest text, size text and `Hints` joined by `+` are the
token. Beyond 2^63 it is an error, and so is every string the pattern rejects. -/
theorem parseBlockLocator_spec (t ds : Bytes) (h : goLocatorDigits t = some ds) :
    (natOfDigits ds < two63 →
      ∃ d hints, parseBlockLocator t = .ok ⟨d, (natOfDigits ds : Nat), hints⟩ ∧ digestString d = digestKey t ∧
        t = joinWith bPlus (t.take 32 :: ds :: hints)) ∧
    (two63 ≤ natOfDigits ds → parseBlockLocator t = .err) := by
  obtain ⟨hints, hsp, hlen, hall, hdne, hd, hjoin⟩ := locator_split t ds h
  obtain ⟨d, hd1, hd2, _⟩ := digestFromString_spec (t.take 32) hlen hall
  have hg : isGoLocator t = true := by unfold isGoLocator; rw [h]; rfl
  constructor
  · intro hlt
    refine ⟨d, hints, ?_, ?_, hjoin⟩
    · unfold parseBlockLocator
      simp only [hg, Bool.not_true, Bool.false_eq_true, if_false, hsp, hd1]
      rw [parseIntBits_digits 64 ds hdne hd (by unfold two63 at hlt; omega)]
    · rw [hd2, digestKey_eq]
  · intro hge
    unfold parseBlockLocator
    simp only [hg, Bool.not_true, Bool.false_eq_true, if_false, hsp, hd1]
    have : parseIntBits 64 ds = none := by
      cases ds with
      | nil => exact absurd rfl hdne
      | cons c rest =>
        have hc : isDigit c = true := List.all_eq_true.mp hd c (by simp)
        have h43 : (c == 43) = false := by
          simp only [beq_eq_false_iff_ne]; rintro rfl; revert hc; decide
        have h45 : (c == 45) = false := by
          simp only [beq_eq_false_iff_ne]; rintro rfl; revert hc; decide
        unfold parseIntBits
        simp only [h43, h45, Bool.false_eq_true, if_false]
        rw [parseNat?_digits (c :: rest) hdne hd]
        have : ¬ natOfDigits (c :: rest) < 2 ^ (64 - 1) := by unfold two63 at hge; omega
        simp [this]
    rw [this]

theorem parseBlockLocator_rejects (t : Bytes) (h : isGoLocator t = false) : parseBlockLocator t = .err := by
  unfold parseBlockLocator; simp [h]

end ArvVerif.C10
