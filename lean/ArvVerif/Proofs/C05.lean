/-
C05 helper lemmas, part 1: what is preserved by the class loop (slot identities, replicas,
monotone `want`), the unsafeToDelete list only grows, the code's under-replication test.
-/
import ArvVerif.Model.C05
namespace ArvVerif.C05

/-- mount and replica of a slot: never changed by balanceBlock -/
def core (s : Slot) : Mount × Option Int := (s.mnt, s.repl)

@[simp] theorem markWant_mnt (w : List Nat) (s : Slot) : (markWant w s).mnt = s.mnt := by
  unfold markWant; split <;> rfl

@[simp] theorem markWant_repl (w : List Nat) (s : Slot) : (markWant w s).repl = s.repl := by
  unfold markWant; split <;> rfl

theorem markWant_want_of (w : List Nat) (s : Slot) (h : s.want = true) : (markWant w s).want = true := by
  unfold markWant; split <;> simp [h]

theorem markWant_cases (w : List Nat) (s : Slot) :
    markWant w s = s ∨ markWant w s = { s with want := true } := by
  unfold markWant; split <;> simp

theorem markWant_want_iff (w : List Nat) (s : Slot) :
    (markWant w s).want = true ↔ s.want = true ∨ w.contains s.mnt.id = true := by
  unfold markWant; split <;> simp_all

@[simp] theorem classIter_slots (env : Env) (c : Class) (sorted : List Slot) (b : BState) :
    (classIter env c sorted b).slots =
      sorted.map (markWant (pass2 c (env.desired c) sorted (pass1 c (env.desired c) sorted (passInit b.utd))).wantMnt) := rfl

/-- A property of single slots that survives setting `want` survives the whole class loop. -/
theorem runClasses_forall (Q : Slot → Prop) (hQ : ∀ s, Q s → Q { s with want := true })
    (env : Env) (sorter : Class → List Slot → List Slot) :
    ∀ (cs : List Class) (b : BState), RunPerm env sorter cs b → (∀ s ∈ b.slots, Q s) →
      ∀ s ∈ (runClasses env sorter cs b).slots, Q s := by
  intro cs
  induction cs with
  | nil => intro b _ h; simpa [runClasses] using h
  | cons c cs ih =>
    intro b hok h
    unfold runClasses
    unfold RunPerm at hok
    by_cases hd : env.desired c = 0
    · simp only [hd, if_true] at hok ⊢
      exact ih b hok h
    · simp only [hd, if_false] at hok ⊢
      refine ih _ hok.2 ?_
      intro s hs
      rw [classIter_slots] at hs
      obtain ⟨s0, hs0, rfl⟩ := List.mem_map.1 hs
      have hq : Q s0 := h s0 (hok.1.mem_iff.1 hs0)
      rcases markWant_cases _ s0 with e | e <;> rw [e]
      · exact hq
      · exact hQ _ hq

theorem finalSlot_cases (b : BState) (s0 : Slot) :
    finalSlot b s0 = s0 ∨ finalSlot b s0 = { s0 with want := true } := by
  unfold finalSlot
  split
  · split <;> simp
  · simp

@[simp] theorem finalSlot_mnt (b : BState) (s : Slot) : (finalSlot b s).mnt = s.mnt := by
  rcases finalSlot_cases b s with e | e <;> rw [e]

@[simp] theorem finalSlot_repl (b : BState) (s : Slot) : (finalSlot b s).repl = s.repl := by
  rcases finalSlot_cases b s with e | e <;> rw [e]

theorem finalWant_forall (Q : Slot → Prop) (hQ : ∀ s, Q s → Q { s with want := true }) (b : BState)
    (h : ∀ s ∈ b.slots, Q s) : ∀ s ∈ finalWant b, Q s := by
  intro s hs
  unfold finalWant at hs
  obtain ⟨s0, hs0, rfl⟩ := List.mem_map.1 hs
  have hq := h s0 hs0
  rcases finalSlot_cases b s0 with e | e <;> rw [e]
  · exact hq
  · exact hQ _ hq

/-- every slot of the final list, with the class-loop state `b` it came from -/
theorem mem_changes {env : Env} {classes : List Class} {sorter : Class → List Slot → List Slot}
    {mounts : List Mount} {reps : List Replica} {p : Slot × Change}
    (hp : p ∈ (balanceBlock env classes sorter mounts reps).changes) :
    p.1 ∈ finalWant (balanceBlock env classes sorter mounts reps).final ∧ p.2 = change env reps p.1 := by
  unfold balanceBlock at hp ⊢
  simp only [List.mem_map] at hp
  obtain ⟨s, hs, rfl⟩ := hp
  exact ⟨hs, rfl⟩

/-- A want-closed slot property that holds of the initial slots holds of every final slot. -/
theorem final_forall (Q : Slot → Prop) (hQ : ∀ s, Q s → Q { s with want := true })
    {env : Env} {classes : List Class} {sorter : Class → List Slot → List Slot}
    {mounts : List Mount} {reps : List Replica}
    (hok : BalancePerm env classes sorter mounts reps)
    (h0 : ∀ s ∈ initSlots mounts reps, Q s) :
    ∀ s ∈ finalWant (balanceBlock env classes sorter mounts reps).final, Q s := by
  apply finalWant_forall Q hQ
  exact runClasses_forall Q hQ env sorter classes _ hok h0

theorem mem_initSlots {mounts : List Mount} {reps : List Replica} {s : Slot}
    (h : s ∈ initSlots mounts reps) :
    s.mnt ∈ mounts ∧ s.repl = replicaOn reps s.mnt.id ∧ s.want = (s.repl.isSome && s.mnt.ro) := by
  unfold initSlots at h
  obtain ⟨m, hm, rfl⟩ := List.mem_map.1 h
  exact ⟨hm, rfl, rfl⟩

/-! ### the change switch -/

theorem change_trash {env : Env} {reps : List Replica} {s : Slot} {t : Int}
    (h : change env reps s = .trash t) : s.repl = some t ∧ s.want = false ∧ t < env.minMtime := by
  unfold change at h
  cases hr : s.repl with
  | none => simp only [hr] at h; split at h <;> (try split at h) <;> (try split at h) <;> cases h
  | some t' =>
    simp only [hr] at h
    split at h
    · rename_i hc
      cases h
      simp only [Bool.and_eq_true, Bool.not_eq_true', decide_eq_true_eq] at hc
      exact ⟨rfl, hc.1, hc.2⟩
    · cases h

theorem change_pull {env : Env} {reps : List Replica} {s : Slot} {src : Option Nat}
    (h : change env reps s = .pull src) :
    s.repl = none ∧ s.want = true ∧ s.mnt.ro = false ∧ ∃ r rest, reps = r :: rest ∧ src = some r.srv := by
  unfold change at h
  cases hr : s.repl with
  | some t' => simp only [hr] at h; split at h <;> cases h
  | none =>
    simp only [hr] at h
    split at h
    · rename_i hw
      split at h
      · cases h
      · rename_i he
        split at h
        · rename_i hro
          cases h
          cases reps with
          | nil => simp at he
          | cons r rest => exact ⟨rfl, hw, by simpa using hro, r, rest, rfl, rfl⟩
        · cases h
    · cases h

theorem change_lost {env : Env} {reps : List Replica} {s : Slot} :
    change env reps s = .lost ↔ s.repl = none ∧ s.want = true ∧ reps = [] := by
  unfold change
  cases hr : s.repl with
  | some t' => simp only []; constructor
               · intro h; split at h <;> cases h
               · intro h; cases h.1
  | none =>
    simp only []
    by_cases hw : s.want = true
    · cases reps with
      | nil => simp [hw]
      | cons r rest =>
        simp only [hw, if_true, List.isEmpty_cons]
        constructor
        · intro h
          by_cases hro : (!s.mnt.ro) = true <;> simp [hro] at h
        · intro h; cases h.2.2
    · simp [hw]

theorem mem_trashes {r : Result} {s : Slot} {t : Int} : (s, t) ∈ r.trashes ↔ (s, Change.trash t) ∈ r.changes := by
  unfold Result.trashes
  simp only [List.mem_filterMap]
  constructor
  · rintro ⟨⟨s', ch⟩, hp, hm⟩
    cases ch <;> simp at hm
    obtain ⟨rfl, rfl⟩ := hm
    exact hp
  · intro h
    exact ⟨(s, .trash t), h, rfl⟩

/-! ### unsafeToDelete only grows -/

theorem protectStep_utd (c : Class) (d : Nat) (s : Slot) (st : PassSt) :
    ∀ t ∈ st.utd, t ∈ (protectStep c d s st).utd := by
  intro t ht
  unfold protectStep
  split
  · split
    · simp [ht]
    · exact ht
  · exact ht

@[simp] theorem wantStep_utd (d : Nat) (s : Slot) (st : PassSt) : (wantStep d s st).utd = st.utd := by
  unfold wantStep; split <;> rfl

theorem trySlot_utd (c : Class) (d : Nat) (s : Slot) (st : PassSt) : ∀ t ∈ st.utd, t ∈ (trySlot c d s st).utd := by
  intro t ht
  unfold trySlot
  split
  · exact ht
  · simp only [wantStep_utd]
    exact protectStep_utd c d s st t ht

theorem pass1Step_utd (c : Class) (d : Nat) (st : PassSt) (s : Slot) :
    ∀ t ∈ st.utd, t ∈ (pass1Step c d st s).utd := by
  intro t ht
  unfold pass1Step
  split
  · exact ht
  · split
    · exact ht
    · exact trySlot_utd c d s st t ht

theorem pass2Step_utd (c : Class) (d : Nat) (st : PassSt) (s : Slot) :
    ∀ t ∈ st.utd, t ∈ (pass2Step c d st s).utd := by
  intro t ht
  unfold pass2Step
  split
  · exact ht
  · exact trySlot_utd c d s st t ht

theorem pass1_utd (c : Class) (d : Nat) (l : List Slot) :
    ∀ (st : PassSt), ∀ t ∈ st.utd, t ∈ (pass1 c d l st).utd := by
  induction l with
  | nil => intro st t ht; exact ht
  | cons s l ih =>
    intro st t ht
    show t ∈ (pass1 c d l (pass1Step c d st s)).utd
    exact ih _ t (pass1Step_utd c d st s t ht)

theorem pass2_utd (c : Class) (d : Nat) (l : List Slot) :
    ∀ (st : PassSt), ∀ t ∈ st.utd, t ∈ (pass2 c d l st).utd := by
  induction l with
  | nil => intro st t ht; exact ht
  | cons s l ih =>
    intro st t ht
    show t ∈ (pass2 c d l (pass2Step c d st s)).utd
    exact ih _ t (pass2Step_utd c d st s t ht)

/-- what the two passes have protected stays in the list the iteration leaves -/
theorem classIter_utd_of_passes (env : Env) (c : Class) (sorted : List Slot) (b : BState) (t : Int)
    (h : t ∈ (pass2 c (env.desired c) sorted (pass1 c (env.desired c) sorted (passInit b.utd))).utd) :
    t ∈ (classIter env c sorted b).utd := by
  unfold classIter
  simp only [List.mem_append]
  right
  exact h

theorem classIter_utd_mono (env : Env) (c : Class) (sorted : List Slot) (b : BState) (t : Int)
    (h : t ∈ b.utd) : t ∈ (classIter env c sorted b).utd :=
  classIter_utd_of_passes env c sorted b t (pass2_utd _ _ _ _ t (pass1_utd _ _ _ _ t h))

theorem runClasses_utd_mono (env : Env) (sorter : Class → List Slot → List Slot) :
    ∀ (cs : List Class) (b : BState) (t : Int), t ∈ b.utd → t ∈ (runClasses env sorter cs b).utd := by
  intro cs
  induction cs with
  | nil => intro b t h; exact h
  | cons c cs ih =>
    intro b t h
    unfold runClasses
    split
    · exact ih b t h
    · exact ih _ t (classIter_utd_mono env c _ b t h)

theorem runClasses_underrep_mono (env : Env) (sorter : Class → List Slot → List Slot) :
    ∀ (cs : List Class) (b : BState), b.underrep = true → (runClasses env sorter cs b).underrep = true := by
  intro cs
  induction cs with
  | nil => intro b h; exact h
  | cons c cs ih =>
    intro b h
    unfold runClasses
    split
    · exact ih b h
    · apply ih
      simp [classIter, h]

/-! ### slot lists with the same cores -/

@[simp] theorem core_markWant (w : List Nat) (s : Slot) : core (markWant w s) = core s := by
  unfold core; simp

@[simp] theorem core_finalSlot (b : BState) (s : Slot) : core (finalSlot b s) = core s := by
  unfold core; simp

def CoreRel (l₁ l₂ : List Slot) : Prop := (l₁.map core).Perm (l₂.map core)

theorem CoreRel.refl (l : List Slot) : CoreRel l l := List.Perm.refl _
theorem CoreRel.trans {a b c : List Slot} (h₁ : CoreRel a b) (h₂ : CoreRel b c) : CoreRel a c := List.Perm.trans h₁ h₂
theorem CoreRel.symm {a b : List Slot} (h : CoreRel a b) : CoreRel b a := List.Perm.symm h

theorem coreRel_of_perm {l₁ l₂ : List Slot} (h : l₁.Perm l₂) : CoreRel l₁ l₂ := h.map core

theorem coreRel_map_markWant (w : List Nat) (l : List Slot) : CoreRel (l.map (markWant w)) l := by
  unfold CoreRel
  rw [List.map_map]
  have : (core ∘ markWant w) = core := by funext s; simp
  rw [this]

theorem coreRel_finalWant (b : BState) : CoreRel (finalWant b) b.slots := by
  unfold CoreRel finalWant
  rw [List.map_map]
  have : (core ∘ finalSlot b) = core := by funext s; simp
  rw [this]

theorem classIter_coreRel (env : Env) (c : Class) {sorted : List Slot} {b : BState}
    (h : sorted.Perm b.slots) : CoreRel (classIter env c sorted b).slots b.slots := by
  rw [classIter_slots]
  exact (coreRel_map_markWant _ _).trans (coreRel_of_perm h)

theorem runClasses_coreRel (env : Env) (sorter : Class → List Slot → List Slot) :
    ∀ (cs : List Class) (b : BState), RunPerm env sorter cs b → CoreRel (runClasses env sorter cs b).slots b.slots := by
  intro cs
  induction cs with
  | nil => intro b _; exact CoreRel.refl _
  | cons c cs ih =>
    intro b hok
    unfold runClasses
    unfold RunPerm at hok
    by_cases hd : env.desired c = 0
    · simp only [hd, if_true] at hok ⊢; exact ih b hok
    · simp only [hd, if_false] at hok ⊢
      exact (ih _ hok.2).trans (classIter_coreRel env c hok.1)

theorem coreRel_mnt_perm {l₁ l₂ : List Slot} (h : CoreRel l₁ l₂) : (l₁.map (·.mnt)).Perm (l₂.map (·.mnt)) := by
  have := h.map Prod.fst
  simpa [List.map_map, Function.comp_def, core] using this

theorem mem_of_coreRel {l l' : List Slot} (h : CoreRel l l') {s : Slot} (hs : s ∈ l) :
    ∃ s' ∈ l', s'.mnt = s.mnt ∧ s'.repl = s.repl := by
  have : core s ∈ l'.map core := h.mem_iff.1 (List.mem_map.2 ⟨s, hs, rfl⟩)
  obtain ⟨s', hs', e⟩ := List.mem_map.1 this
  exact ⟨s', hs', congrArg Prod.fst e, congrArg Prod.snd e⟩

theorem initSlots_mnt (mounts : List Mount) (reps : List Replica) :
    (initSlots mounts reps).map (·.mnt) = mounts := by
  induction mounts with
  | nil => rfl
  | cons m l ih =>
    unfold initSlots at ih ⊢
    simp only [List.map_cons, List.map_map] at ih ⊢
    rw [ih]

/-! ### the code's under-replication test -/

/-- the mounts the `safe` loop would count if it did not `break` -/
def countedSafe (c : Class) : List Slot → List Dev → List Mount
  | [], _ => []
  | s :: rest, seen =>
    if s.repl.isNone || !inClass c s.mnt || seen.contains s.mnt.dev then countedSafe c rest seen
    else s.mnt :: countedSafe c rest (if s.mnt.dev != 0 then s.mnt.dev :: seen else seen)

/-- the `safe` loop with its `break` decides `Σ < desired` -/
theorem safeCount_lt (c : Class) (d : Nat) : ∀ (l : List Slot) (seen : List Dev) (acc : Nat),
    safeCount c d l seen acc < d ↔ acc + ((countedSafe c l seen).map (·.repl)).sum < d := by
  intro l
  induction l with
  | nil => intro seen acc; simp [safeCount, countedSafe]
  | cons s l ih =>
    intro seen acc
    unfold safeCount countedSafe
    by_cases h : (s.repl.isNone || !inClass c s.mnt || seen.contains s.mnt.dev) = true
    · rw [if_pos h, if_pos h]; exact ih seen acc
    · rw [if_neg h, if_neg h]
      simp only [List.map_cons, List.sum_cons]
      split
      · omega
      · rw [ih]; omega

/-- if the code's test fires for some class of the loop — on whatever reordering of the slots it
is evaluated — the flag is set at the end -/
theorem runClasses_underrep (env : Env) (sorter : Class → List Slot → List Slot) (c' : Class) :
    ∀ (cs : List Class) (b : BState), RunPerm env sorter cs b → c' ∈ cs → env.desired c' ≠ 0 →
      (∀ l, CoreRel l b.slots → safeCount c' (env.desired c') l [] 0 < env.desired c') →
      (runClasses env sorter cs b).underrep = true := by
  intro cs
  induction cs with
  | nil => intro b _ hm; cases hm
  | cons c cs ih =>
    intro b hok hm hd' hlt
    unfold runClasses
    unfold RunPerm at hok
    by_cases hd : env.desired c = 0
    · simp only [hd, if_true] at hok ⊢
      rcases List.mem_cons.1 hm with rfl | hm'
      · exact absurd hd hd'
      · exact ih b hok hm' hd' hlt
    · simp only [hd, if_false] at hok ⊢
      rcases List.mem_cons.1 hm with rfl | hm'
      · apply runClasses_underrep_mono
        unfold classIter
        simp only
        split
        · rfl
        · have := hlt (sorter c' b.slots) (coreRel_of_perm hok.1)
          simpa using this
      · apply ih _ hok.2 hm' hd'
        intro l hl
        exact hlt l (hl.trans (classIter_coreRel env c hok.1))

end ArvVerif.C05
