/-
C02 helper lemmas, part 7 (extension round): an acknowledged block stays retrievable through whole
histories until it is trashed; leftover temp files are inert.
-/
import ArvVerif.Proofs.C02_Inv
import ArvVerif.Proofs.C02_Put
namespace ArvVerif.C02

variable (hash : Bytes → Name)

/-- A fresh process's GetBlock for `h` succeeds. -/
def Good (fs : FS) (h : Name) : Prop := ∃ f, fs.get (blockPath h) = some f ∧ hash f.data = h

theorem good_iff_getBlock (fs : FS) (h : Name) : Good hash fs h ↔ ∃ b, getBlock hash fs h = .ok b := by
  unfold Good getBlock
  constructor
  · rintro ⟨f, hf, hh⟩; exact ⟨f.data, by simp [hf, hh]⟩
  · rintro ⟨b, hb⟩
    cases hg : fs.get (blockPath h) with
    | none => simp [hg] at hb
    | some f =>
      refine ⟨f, rfl, ?_⟩
      by_cases hh : hash f.data = h
      · exact hh
      · simp [hg, hh] at hb

/-- `s` does not take the file at `p` away and does not write into it. -/
def NoLoss (p : Path) : Step → Prop
  | .nop => True
  | .mkdirAll _ => True
  | .chtimes _ _ => True
  | .createTemp q _ => q ≠ p
  | .append q _ => q ≠ p
  | .remove q => q ≠ p
  | .rename a _ => a ≠ p

theorem good_apply {fs : FS} {h : Name} (hb : isBlockName h = true) {s : Step}
    (hs : StepOk hash fs s) (hn : NoLoss (blockPath h) s) (hg : Good hash fs h) :
    Good hash (s.apply fs) h := by
  obtain ⟨f, hf, hh⟩ := hg
  cases s with
  | nop => exact ⟨f, hf, hh⟩
  | mkdirAll d => simp only [Step.apply]; split <;> exact ⟨f, hf, hh⟩
  | createTemp q t => exact ⟨f, by rw [Step.apply, get_set_ne _ _ (Ne.symm hn)]; exact hf, hh⟩
  | append q c =>
    simp only [Step.apply]; split
    · exact ⟨f, by rw [get_set_ne _ _ (Ne.symm hn)]; exact hf, hh⟩
    · exact ⟨f, hf, hh⟩
  | chtimes q t =>
    simp only [Step.apply]
    by_cases hq : q = blockPath h
    · subst hq
      simp only [hf]
      exact ⟨⟨f.data, t⟩, get_set_eq _ _ _, hh⟩
    · split
      · exact ⟨f, by rw [get_set_ne _ _ (Ne.symm hq)]; exact hf, hh⟩
      · exact ⟨f, hf, hh⟩
  | remove q => exact ⟨f, by rw [Step.apply, get_erase_ne _ (Ne.symm hn)]; exact hf, hh⟩
  | rename a b =>
    simp only [Step.apply]
    cases ha : fs.get a with
    | none => exact ⟨f, hf, hh⟩
    | some g =>
      simp only
      by_cases hbp : b = blockPath h
      · subst hbp
        refine ⟨g, get_set_eq _ _ _, ?_⟩
        exact hs g ha h (by simp [blockPath, owner_block hb])
      · refine ⟨f, ?_, hh⟩
        rw [get_set_ne _ _ (Ne.symm hbp), get_erase_ne _ (Ne.symm hn)]
        exact hf

theorem good_prefix {fs : FS} {h : Name} (hb : isBlockName h = true) {evs : List Ev}
    (ho : EvsOk hash fs evs) (hn : ∀ e ∈ evs, NoLoss (blockPath h) e.eff) (hg : Good hash fs h) (k : Nat) :
    Good hash (run fs (evs.take k)) h := by
  induction evs generalizing fs k with
  | nil => simpa using hg
  | cons e es ih =>
    cases k with
    | zero => simpa using hg
    | succ k =>
      exact ih ho.2 (fun e' he' => hn e' (List.mem_cons_of_mem _ he'))
        (good_apply hash hb ho.1 (hn e List.mem_cons_self) hg) k

/-! ### none of keepstore's operations (except Trash of that very hash) takes a block away -/

theorem noLoss_of_local {p q : Path} (hne : p ≠ q) {s : Step} (h : LocalAt p s) : NoLoss q s := by
  cases s <;> simp_all [LocalAt, NoLoss]

theorem blockName_ne_of_not {n m : Name} (hn : isBlockName n = true) (hm : isBlockName m = false) : m ≠ n := by
  intro h; rw [h, hn] at hm; cases hm

theorem tmpPath_ne_blockPath' (h' sfx h : Name) (hb : isBlockName h = true) : tmpPath h' sfx ≠ blockPath h := by
  intro he
  have : tmpName h' sfx = h := by simpa [tmpPath, blockPath] using congrArg Path.name he
  exact blockName_ne_of_not hb (tmp_not_blockName h' sfx) this

theorem wb_noLoss (w : WBIn) {h : Name} (hb : isBlockName h = true) :
    ∀ e ∈ (writeBlockEvs w).1, NoLoss (blockPath h) e.eff := by
  have hne := tmpPath_ne_blockPath' w.h w.sfx h hb
  rcases wb_shape w with ⟨_, hl⟩ | ⟨_, _, _, he⟩
  · exact fun e he => noLoss_of_local hne (hl e he)
  · rw [he]
    intro e hm
    rcases List.mem_append.1 hm with hm | hm
    · exact noLoss_of_local hne (wbBody_local w e hm)
    · simp at hm; subst hm; exact hne

theorem attempts_noLoss (ws : List WBIn) {h : Name} (hb : isBlockName h = true) :
    ∀ e ∈ (attemptsEvs ws).1, NoLoss (blockPath h) e.eff := by
  induction ws with
  | nil => intro e he; simp [attemptsEvs] at he
  | cons w rest ih =>
    intro e he
    simp only [attemptsEvs] at he
    split at he
    · exact wb_noLoss w hb e he
    · rcases List.mem_append.1 he with he | he
      · exact wb_noLoss w hb e he
      · exact ih e he

theorem touch_noLoss (fs : FS) (h' : Name) (now : Nat) (fail : Option Nat) (p : Path) :
    ∀ e ∈ (touchEvs fs h' now fail).1, NoLoss p e.eff := by
  intro e he
  unfold touchEvs at he
  split at he
  · simp at he; subst he; trivial
  · split at he <;> simp at he <;> rcases he with rfl | rfl | rfl | rfl <;> trivial

theorem compare_noLoss (fs : FS) (h' : Name) (p : Path) : ∀ e ∈ compareEvs fs h', NoLoss p e.eff := by
  intro e he
  rw [compare_nops fs h' e he]
  trivial

theorem put_noLoss (fs : FS) (p : PutIn) {h : Name} (hb : isBlockName h = true) :
    ∀ e ∈ (handlePut hash fs p).1, NoLoss (blockPath h) e.eff := by
  have hatt := attempts_noLoss p.effAttempts hb
  have htouch := touch_noLoss fs p.h p.now p.touchFail (blockPath h)
  have hcmp := compare_noLoss fs p.h (blockPath h)
  intro e he
  unfold handlePut at he
  split at he
  · simp at he
  · split at he
    · simp at he
    · split at he
      · exact hcmp e he
      · simp only at he
        rcases List.mem_append.1 he with he | he
        · exact hcmp e he
        · unfold putCore at he
          simp only at he
          split at he
          · simp at he; exact hatt e he
          · split at he
            · split at he
              · exact htouch e he
              · rcases List.mem_append.1 he with he | he
                · exact htouch e he
                · exact hatt e he
            · split at he
              · simp at he
              · simp at he; exact hatt e he

theorem blockPath_ne {h h' : Name} (hne : h' ≠ h) : blockPath h' ≠ blockPath h := by
  intro he; exact hne (by simpa [blockPath] using congrArg Path.name he)

theorem trash_noLoss (fs : FS) (cfg : Cfg) {h h' : Name} (hne : h' ≠ h) :
    ∀ e ∈ (trashEvs fs cfg h').1, NoLoss (blockPath h) e.eff := by
  have hp := blockPath_ne hne
  intro e he
  unfold trashEvs at he
  split at he
  · simp at he; subst he; trivial
  · simp only at he
    split at he
    · simp at he; rcases he with rfl | rfl | rfl | rfl <;> trivial
    · split at he <;> simp at he
      · rcases he with rfl | rfl | rfl | rfl | rfl
        · trivial
        · trivial
        · trivial
        · trivial
        · exact hp
      · rcases he with rfl | rfl | rfl | rfl | rfl
        · trivial
        · trivial
        · trivial
        · trivial
        · exact hp

theorem untrash_noLoss (fs : FS) {h h' : Name} (hb : isBlockName h = true) (hb' : isBlockName h' = true) (now : Nat) :
    ∀ e ∈ (untrashEvs fs h' now).1, NoLoss (blockPath h) e.eff := by
  intro e he
  unfold untrashEvs at he
  split at he
  · simp at he; subst he; trivial
  · rename_i n hn
    simp at he
    rcases he with rfl | rfl | rfl
    · trivial
    · -- the source is a trash-named file, never a block path
      have hpre := List.find?_some hn
      simp only [List.isPrefixOf_iff_prefix] at hpre
      obtain ⟨rest, hrest⟩ := hpre
      intro hp
      have hname : n = h := by simpa [blockPath] using congrArg Path.name hp
      have hl := blockName_length hb
      have hl' := blockName_length hb'
      have : n.length = 32 := by rw [hname]; exact hl
      rw [← hrest] at this
      simp [trashInfix] at this
      omega
    · trivial

theorem emptyTrash_noLoss (fs : FS) (now : Nat) {h : Name} (hb : isBlockName h = true) :
    ∀ e ∈ emptyTrashEvs fs now, NoLoss (blockPath h) e.eff := by
  intro e he
  obtain ⟨p, hp, rfl⟩ := List.mem_map.1 he
  -- victims have trash names
  have hv : isTrashName p.name = true := by
    have : p ∈ (fs.files.map (·.1)).filter (fun p =>
        isBlockDir p.dir && isTrashName p.name &&
        decide (digitsVal (p.name.drop 39) < 2 ^ 63) && decide (digitsVal (p.name.drop 39) ≤ now)) := by
      have hsub : ∀ (l : List Path) (x : Path), x ∈ l.foldr insertPath [] → x ∈ l := by
        intro l
        induction l with
        | nil => intro x hx; simp at hx
        | cons a as ih =>
          intro x hx
          simp only [List.foldr_cons] at hx
          have hins : ∀ (l : List Path) (y : Path), y ∈ insertPath a l → y = a ∨ y ∈ l := by
            intro l
            induction l with
            | nil => intro y hy; simp [insertPath] at hy; exact Or.inl hy
            | cons b bs ihb =>
              intro y hy
              simp only [insertPath] at hy
              split at hy
              · rcases List.mem_cons.1 hy with hy | hy
                · exact Or.inr (hy ▸ List.mem_cons_self)
                · rcases ihb y hy with h1 | h1
                  · exact Or.inl h1
                  · exact Or.inr (List.mem_cons_of_mem _ h1)
              · rcases List.mem_cons.1 hy with hy | hy
                · exact Or.inl hy
                · exact Or.inr hy
          rcases hins _ x hx with h1 | h1
          · exact h1 ▸ List.mem_cons_self
          · exact List.mem_cons_of_mem _ (ih x h1)
      exact hsub _ p hp
    simp only [List.mem_filter, Bool.and_eq_true] at this
    exact this.2.1.1.2
  intro hp
  have hname : p.name = h := by simpa [blockPath] using congrArg Path.name hp
  rw [hname] at hv
  have hl := blockName_length hb
  simp [isTrashName, isTrashLike, List.drop_of_length_le, hl] at hv

/-- operations that leave the block of `h` in place: everything but Trash of `h` itself (and the
environment removing or overwriting it) -/
def Op.keeps (h : Name) : Op → Prop
  | .trash _ h' => h' ≠ h
  | .env s => NoLoss (blockPath h) s
  | _ => True

theorem op_noLoss (fs : FS) (op : Op) {h : Name} (hb : isBlockName h = true) (hk : op.keeps h) :
    ∀ e ∈ op.evs hash fs, NoLoss (blockPath h) e.eff := by
  cases op with
  | put p => exact put_noLoss hash fs p hb
  | writeBlock w => exact wb_noLoss w hb
  | touch h' now fail =>
    simp only [Op.evs]; split
    · exact touch_noLoss fs h' now fail _
    · intro e he; simp at he
  | trash cfg h' =>
    simp only [Op.evs]; split
    · exact trash_noLoss fs cfg hk
    · intro e he; simp at he
  | untrash h' now =>
    simp only [Op.evs]; split
    · rename_i hb'; exact untrash_noLoss fs hb hb' now
    · intro e he; simp at he
  | emptyTrash now => exact emptyTrash_noLoss fs now hb
  | env s => intro e he; simp [Op.evs] at he; subst he; exact hk

/-- histories (with crashes) in which the block of `h` is never trashed -/
inductive ReachKeep (h : Name) (fs0 : FS) : FS → Prop where
  | init : ReachKeep h fs0 fs0
  | step {fs : FS} (op : Op) (k : Nat) : ReachKeep h fs0 fs → op.valid hash → op.keeps h →
      ReachKeep h fs0 (run fs ((op.evs hash fs).take k))

theorem reachKeep_reach {h : Name} {fs0 fs : FS} (hr : ReachKeep hash h fs0 fs) : Reach hash fs0 fs := by
  induction hr with
  | init => exact .init
  | step op k _ hv _ ih => exact .step op k ih hv

theorem good_reachKeep {h : Name} (hb : isBlockName h = true) {fs0 fs : FS} (hi : Intact hash fs0)
    (hg : Good hash fs0 h) (hr : ReachKeep hash h fs0 fs) : Good hash fs h := by
  induction hr with
  | init => exact hg
  | step op k hprev hv hk ih =>
    have hi' := intact_reach hash hi (reachKeep_reach hash hprev)
    exact good_prefix hash hb (op_evsOk hash hi' op hv) (op_noLoss hash _ op hb hk) ih k

/-! ### files without an owner (temp files) are left alone -/

/-- every path `s` writes, renames or removes is a block or trash name -/
def OnOwned : Step → Prop
  | .nop => True
  | .mkdirAll _ => True
  | .createTemp p _ => owner p.name ≠ none
  | .append p _ => owner p.name ≠ none
  | .chtimes p _ => owner p.name ≠ none
  | .remove p => owner p.name ≠ none
  | .rename a b => owner a.name ≠ none ∧ owner b.name ≠ none

theorem avoids_of_onOwned {q : Path} (hq : owner q.name = none) {s : Step} (h : OnOwned s) : s.avoids q := by
  have key : ∀ p : Path, owner p.name ≠ none → p ≠ q := fun p hp he => hp (he ▸ hq)
  cases s with
  | nop => trivial
  | mkdirAll d => trivial
  | createTemp p t => exact key p h
  | append p c => exact key p h
  | chtimes p t => exact key p h
  | remove p => exact key p h
  | rename a b => exact ⟨key a h.1, key b h.2⟩

theorem owner_blockPath {h : Name} (hb : isBlockName h = true) : owner (blockPath h).name ≠ none := by
  simp [blockPath, owner_block hb]

theorem touch_onOwned (fs : FS) {h : Name} (hb : isBlockName h = true) (now : Nat) (fail : Option Nat) :
    ∀ e ∈ (touchEvs fs h now fail).1, OnOwned e.eff := by
  intro e he
  unfold touchEvs at he
  split at he
  · simp at he; subst he; trivial
  · split at he <;> simp at he
    · subst he; trivial
    · rcases he with rfl | rfl <;> trivial
    · rcases he with rfl | rfl | rfl | rfl <;> trivial
    · rcases he with rfl | rfl | rfl | rfl
      · trivial
      · trivial
      · trivial
      · exact owner_blockPath hb

theorem trash_onOwned (fs : FS) (cfg : Cfg) {h : Name} (hb : isBlockName h = true) :
    ∀ e ∈ (trashEvs fs cfg h).1, OnOwned e.eff := by
  intro e he
  unfold trashEvs at he
  split at he
  · simp at he; subst he; trivial
  · simp only at he
    split at he
    · simp at he; rcases he with rfl | rfl | rfl | rfl <;> trivial
    · split at he <;> simp at he
      · rcases he with rfl | rfl | rfl | rfl | rfl
        · trivial
        · trivial
        · trivial
        · trivial
        · exact owner_blockPath hb
      · rcases he with rfl | rfl | rfl | rfl | rfl
        · trivial
        · trivial
        · trivial
        · trivial
        · exact ⟨owner_blockPath hb, by simp [trashPath, owner_trashName hb]⟩

theorem untrash_onOwned (fs : FS) {h : Name} (hb : isBlockName h = true) (now : Nat) :
    ∀ e ∈ (untrashEvs fs h now).1, OnOwned e.eff := by
  intro e he
  unfold untrashEvs at he
  split at he
  · simp at he; subst he; trivial
  · rename_i n hn
    simp at he
    have hpre := List.find?_some hn
    simp only [List.isPrefixOf_iff_prefix] at hpre
    obtain ⟨rest, hrest⟩ := hpre
    rcases he with rfl | rfl | rfl
    · trivial
    · refine ⟨?_, owner_blockPath hb⟩
      simp only
      rw [← hrest, owner_trashPrefixed hb rest]
      simp
    · exact owner_blockPath hb

theorem owner_of_trashName {n : Name} (h : isTrashName n = true) : owner n ≠ none := by
  have hl : isTrashLike n = true := by
    simp only [isTrashName, Bool.and_eq_true] at h
    exact h.1.1
  unfold owner
  split
  · simp
  · simp [hl]

theorem mem_insertPath {a : Path} : ∀ (l : List Path) (y : Path), y ∈ insertPath a l → y = a ∨ y ∈ l := by
  intro l
  induction l with
  | nil => intro y hy; simp [insertPath] at hy; exact Or.inl hy
  | cons b bs ihb =>
    intro y hy
    simp only [insertPath] at hy
    split at hy
    · rcases List.mem_cons.1 hy with hy | hy
      · exact Or.inr (hy ▸ List.mem_cons_self)
      · rcases ihb y hy with h1 | h1
        · exact Or.inl h1
        · exact Or.inr (List.mem_cons_of_mem _ h1)
    · rcases List.mem_cons.1 hy with hy | hy
      · exact Or.inl hy
      · exact Or.inr hy

theorem mem_foldr_insertPath : ∀ (l : List Path) (x : Path), x ∈ l.foldr insertPath [] → x ∈ l := by
  intro l
  induction l with
  | nil => intro x hx; simp at hx
  | cons a as ih =>
    intro x hx
    simp only [List.foldr_cons] at hx
    rcases mem_insertPath _ x hx with h1 | h1
    · exact h1 ▸ List.mem_cons_self
    · exact List.mem_cons_of_mem _ (ih x h1)

theorem victim_trashName (fs : FS) (now : Nat) {p : Path} (hp : p ∈ emptyTrashVictims fs now) :
    isTrashName p.name = true := by
  have := mem_foldr_insertPath _ p hp
  simp only [List.mem_filter, Bool.and_eq_true] at this
  exact this.2.1.1.2

theorem emptyTrash_onOwned (fs : FS) (now : Nat) : ∀ e ∈ emptyTrashEvs fs now, OnOwned e.eff := by
  intro e he
  obtain ⟨p, hp, rfl⟩ := List.mem_map.1 he
  exact owner_of_trashName (victim_trashName fs now hp)

theorem wb_avoids_unowned (w : WBIn) (hb : isBlockName w.h = true) {q : Path} (hq : owner q.name = none)
    (hne : tmpPath w.h w.sfx ≠ q) : ∀ e ∈ (writeBlockEvs w).1, e.eff.avoids q := by
  have hbp : blockPath w.h ≠ q := fun he => owner_blockPath hb (he ▸ hq)
  rcases wb_shape w with ⟨_, hl⟩ | ⟨_, _, _, he⟩
  · exact fun e he => local_avoids hne (hl e he)
  · rw [he]
    intro e hm
    rcases List.mem_append.1 hm with hm | hm
    · exact local_avoids hne (wbBody_local w e hm)
    · simp at hm; subst hm; exact ⟨hne, hbp⟩

theorem attempts_avoids_unowned (ws : List WBIn) {q : Path} (hq : owner q.name = none)
    (hws : ∀ w ∈ ws, isBlockName w.h = true ∧ tmpPath w.h w.sfx ≠ q) :
    ∀ e ∈ (attemptsEvs ws).1, e.eff.avoids q := by
  induction ws with
  | nil => intro e he; simp [attemptsEvs] at he
  | cons w rest ih =>
    have hw := hws w List.mem_cons_self
    intro e he
    simp only [attemptsEvs] at he
    split at he
    · exact wb_avoids_unowned w hw.1 hq hw.2 e he
    · rcases List.mem_append.1 he with he | he
      · exact wb_avoids_unowned w hw.1 hq hw.2 e he
      · exact ih (fun w' hw' => hws w' (List.mem_cons_of_mem _ hw')) e he

theorem put_avoids_unowned (fs : FS) (p : PutIn) {q : Path} (hq : owner q.name = none)
    (hv : ∀ w ∈ p.attempts, w.h = p.h ∧ (w.rend = .eof → w.chunks.flatten = p.body))
    (hfresh : ∀ w ∈ p.attempts, tmpPath w.h w.sfx ≠ q) :
    ∀ e ∈ (handlePut hash fs p).1, e.eff.avoids q := by
  intro e he
  unfold handlePut at he
  split at he
  · simp at he
  · rename_i hb
    have hb' : isBlockName p.h = true := by simpa using hb
    have hcmp : ∀ e ∈ compareEvs fs p.h, e.eff.avoids q := by
      intro e he; rw [compare_nops fs p.h e he]; trivial
    have htouch : ∀ e ∈ (touchEvs fs p.h p.now p.touchFail).1, e.eff.avoids q :=
      fun e he => avoids_of_onOwned hq (touch_onOwned fs hb' p.now p.touchFail e he)
    have hatt : ∀ e ∈ (attemptsEvs p.effAttempts).1, e.eff.avoids q := by
      apply attempts_avoids_unowned _ hq
      intro w hw
      unfold PutIn.effAttempts at hw
      split at hw
      · simp at hw
      · exact ⟨(hv w hw).1 ▸ hb', hfresh w hw⟩
    split at he
    · simp at he
    · split at he
      · exact hcmp e he
      · simp only at he
        rcases List.mem_append.1 he with he | he
        · exact hcmp e he
        · unfold putCore at he
          simp only at he
          split at he
          · simp at he; exact hatt e he
          · split at he
            · split at he
              · exact htouch e he
              · rcases List.mem_append.1 he with he | he
                · exact htouch e he
                · exact hatt e he
            · split at he
              · simp at he
              · simp at he; exact hatt e he

/-- the operation creates its temp files under names other than `q` (O_EXCL) -/
def Op.freshFor (q : Path) : Op → Prop
  | .put p => ∀ w ∈ p.attempts, tmpPath w.h w.sfx ≠ q
  | .writeBlock w => tmpPath w.h w.sfx ≠ q
  | .env s => s.avoids q
  | _ => True

theorem op_avoids_unowned (fs : FS) (op : Op) (hv : op.valid hash) {q : Path} (hq : owner q.name = none)
    (hf : op.freshFor q) : ∀ e ∈ op.evs hash fs, e.eff.avoids q := by
  cases op with
  | put p => exact put_avoids_unowned hash fs p hq hv hf
  | writeBlock w => exact wb_avoids_unowned w hv.1 hq hf
  | touch h now fail =>
    simp only [Op.evs]; split
    · rename_i hb; exact fun e he => avoids_of_onOwned hq (touch_onOwned fs hb now fail e he)
    · intro e he; simp at he
  | trash cfg h =>
    simp only [Op.evs]; split
    · rename_i hb; exact fun e he => avoids_of_onOwned hq (trash_onOwned fs cfg hb e he)
    · intro e he; simp at he
  | untrash h now =>
    simp only [Op.evs]; split
    · rename_i hb; exact fun e he => avoids_of_onOwned hq (untrash_onOwned fs hb now e he)
    · intro e he; simp at he
  | emptyTrash now => exact fun e he => avoids_of_onOwned hq (emptyTrash_onOwned fs now e he)
  | env s => intro e he; simp [Op.evs] at he; subst he; exact hf

end ArvVerif.C02
