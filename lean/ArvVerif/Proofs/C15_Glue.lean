/-
Helper lemmas for Props/C15_Glue.lean: what a fresh, successful probe does with a tracked container
that the instance no longer lists as running (`probeApply_exited`), and the latch algebra of
goroutines that run to completion (`runBody_held`, `runBodies_held`).
-/
import ArvVerif.Model.C15_Glue
import ArvVerif.Proofs.C14_L2
namespace ArvVerif.C15
open ArvVerif.C14

/-! ### a probe closes the runner of a container that is not listed as running -/

theorem closeDead_exited (w : Worker) (alive : List Uuid) (now : Nat) (u : Uuid)
    (hu : u ∈ w.running) (hno : u ∉ alive) :
    u ∈ (w.closeDead alive now).2 ∧ u ∉ (w.closeDead alive now).1.running := by
  have hdead : u ∈ w.running.filter (fun v => !alive.contains v) := by
    simp [List.mem_filter, hu, hno]
  have hne : (w.running.filter (fun v => !alive.contains v)).isEmpty = false := by
    cases h : w.running.filter (fun v => !alive.contains v) with
    | nil => rw [h] at hdead; cases hdead
    | cons _ _ => rfl
  refine ⟨?_, ?_⟩
  · unfold Worker.closeDead
    simp only [hne]
    exact hdead
  · intro h
    exact hno (((Worker.closeDead_spec w alive now).1 u).mp h).2

theorem updateRunning_exited (w : Worker) (alive : List Uuid) (now : Nat) (u : Uuid)
    (hu : u ∈ w.running) (hno : u ∉ alive) :
    u ∈ (w.updateRunning alive now).2.1 ∧ u ∉ (w.updateRunning alive now).1.running := by
  have ha : u ∈ (w.adoptAlive alive).1.running :=
    ((Worker.adoptAlive_spec alive w).1 u).mpr (Or.inl hu)
  exact closeDead_exited (w.adoptAlive alive).1 alive now u ha hno

theorem applyFresh_snd (w : Worker) (p : Probe) (now : Nat) :
    (w.applyFresh p now).2 =
      ((if (!p.uuids.isEmpty || !w.running.isEmpty) = true then { w with busy := now } else w).updateRunning
        p.uuids now).2.1 := by
  unfold Worker.applyFresh
  dsimp only
  generalize (if (!p.uuids.isEmpty || !w.running.isEmpty) = true then { w with busy := now } else w) = w2
  repeat' split
  all_goals rfl

theorem applyFresh_running (w : Worker) (p : Probe) (now : Nat) :
    (w.applyFresh p now).1.running =
      ((if (!p.uuids.isEmpty || !w.running.isEmpty) = true then { w with busy := now } else w).updateRunning
        p.uuids now).1.running := by
  unfold Worker.applyFresh
  dsimp only
  generalize (if (!p.uuids.isEmpty || !w.running.isEmpty) = true then { w with busy := now } else w) = w2
  repeat' split
  all_goals rfl

theorem applyFresh_exited (w : Worker) (p : Probe) (now : Nat) (u : Uuid)
    (hu : u ∈ w.running) (hno : u ∉ p.uuids) :
    u ∈ (w.applyFresh p now).2 ∧ u ∉ (w.applyFresh p now).1.running := by
  rw [applyFresh_snd, applyFresh_running]
  apply updateRunning_exited _ _ _ _ _ hno
  split <;> exact hu

/-- A successful probe of a booted worker that does not report "broken" and was not overtaken by
another update: a tracked container that is not among the reported ones has its runner closed
(its uuid is in the list that gets `wp.exited[uuid] = now`) and leaves `running`. -/
theorem probeApply_exited (w : Worker) (p : Probe) (now : Nat) (u : Uuid)
    (hbr : p.broken = false) (hok : p.ok = true) (hbooted : p.booted = true)
    (hstamp : p.stamp = w.updated) (hu : u ∈ w.running) (hno : u ∉ p.uuids) :
    u ∈ (w.probeApply p now).2 ∧ u ∉ (w.probeApply p now).1.running := by
  unfold Worker.probeApply
  have hd : w.drainStep p now = w := by simp [Worker.drainStep, hbr]
  have hf : w.probeFailed p = false := by simp [Worker.probeFailed, hok, hbooted]
  simp only [hd, hf]
  have hs : (p.stamp != ({ w with probed := now } : Worker).updated) = false := by
    simp [hstamp]
  simp only [hs]
  exact applyFresh_exited { w with probed := now } p now u hu hno

/-! ### the latch after goroutines that ran to completion -/

theorem held_uuidUnlock (l : Latch) (u v : Uuid) :
    (uuidUnlock l u).held v = (l.held v && v != u) := by
  unfold uuidUnlock Latch.held
  induction l with
  | nil => simp
  | cons p rest ih =>
    by_cases hp : p.1 = u
    · by_cases hv : v = u
      · subst hv; simp [hp, List.any_cons] at ih ⊢
      · simp only [List.filter_cons, hp, bne_self_eq_false, Bool.false_eq_true, if_false,
          List.any_cons]
        rw [ih]
        have : (u == v) = false := by simpa using fun h => hv h.symm
        simp [this]
    · have hp' : (p.1 != u) = true := by simpa using hp
      simp only [List.filter_cons, hp', if_true, List.any_cons, ih]
      by_cases hv : v = u
      · subst hv
        have : (p.1 == v) = false := by simpa using hp
        simp [this]
      · have : (v != u) = true := by simpa using hv
        simp [this]

theorem held_cons (l : Latch) (u v : Uuid) (op : Op) :
    Latch.held ((u, op) :: l) v = (u == v || l.held v) := by
  simp [Latch.held, List.any_cons]

/-- A goroutine that has returned leaves the latch exactly as it found it, for every container —
whether it was refused or performed its operation, whatever `queue.Get` answered and whether or not
the API call failed. -/
theorem runBody_held (l : Latch) (b : Body) (v : Uuid) :
    (runBody l b).latch.held v = l.held v := by
  unfold runBody uuidLock
  by_cases h : l.held b.uuid = true
  · simp [h]
  · simp only [h, Bool.false_eq_true, if_false, if_true]
    rw [held_uuidUnlock, held_cons]
    by_cases hv : v = b.uuid
    · subst hv
      simp only [Bool.not_eq_true] at h
      simp [h]
    · have h1 : (b.uuid == v) = false := by simpa using fun e => hv e.symm
      have h2 : (v != b.uuid) = true := by simpa using hv
      simp [h1, h2]

theorem runBodies_held (bs : List Body) : ∀ (l : Latch) (v : Uuid),
    (runBodies l bs).1.held v = l.held v := by
  induction bs with
  | nil => intro l v; rfl
  | cons b rest ih =>
    intro l v
    show (runBodies (runBody l b).latch rest).1.held v = l.held v
    rw [ih, runBody_held]

theorem runBody_effects (l : Latch) (b : Body) (h : l.held b.uuid = false) :
    (runBody l b).effects = bodyEffects b.stateNow b.apiOk b.op b.uuid ∧ (runBody l b).wake = false := by
  unfold runBody uuidLock
  simp [h]

theorem runBody_refused (l : Latch) (b : Body) (h : l.held b.uuid = true) :
    (runBody l b).effects = [] ∧ (runBody l b).wake = true ∧ (runBody l b).latch = l := by
  unfold runBody uuidLock
  simp [h]

end ArvVerif.C15
