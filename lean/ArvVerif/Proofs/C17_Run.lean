/-
C17 — from the plan to the saved collection: `runPlan` on the plan of a successful scan.
-/
import ArvVerif.Proofs.C17_Shape
import ArvVerif.Proofs.C17_Tree
namespace ArvVerif.C17

theorem scan_shape (h : Host) (cfg : Cfg) (hwf : HostWF h) (hs : supported cfg = true) (hreal : OutDirReal h cfg)
    (fuel : Nat) (plan : Plan) (hscan : scan h cfg fuel = .ok plan) : Shape plan := by
  unfold scan at hscan
  refine (shape_walk h cfg hwf hs fuel _ _ _ hscan ?_ ⟨trivial, by simp, by simp, by simp, by simp⟩).1
  intro _
  refine ⟨fun x hx => by simp [dests] at hx, Or.inl rfl, fun _ => ⟨cfg.hostOut, ?_⟩, by simp [List.isPrefixOf_iff_prefix]⟩
  rw [hostPath_out]; exact hreal

/-- mounted content (the loaded manifest fragments) and host content do not claim the same output
path: a planned directory may exist already as a directory, a planned file's path is free -/
structure NoCollide (t0 : Tree) (plan : Plan) : Prop where
  dirs : ∀ d ∈ plan.dirs, t0.get d = none ∨ t0.get d = some .dir
  files : ∀ f ∈ plan.files, t0.get f.1 = none

theorem parentFirst_of_ordered (t0 : Tree) : ∀ (ds before : List Path), Ordered before ds →
    (∀ d ∈ ds, t0.get d = none ∨ t0.get d = some .dir) → ParentFirst t0 before ds := by
  intro ds
  induction ds with
  | nil => intro _ _ _; trivial
  | cons d ds ih =>
    intro before ho hfree
    obtain ⟨h1, h2, h3⟩ := ho
    refine ⟨h1, ?_, hfree d (List.mem_cons_self ..), ih _ h3 (fun x hx => hfree x (List.mem_cons_of_mem _ hx))⟩
    rcases h2 with h2 | h2
    · right; rw [h2]; exact Tree.get_nil t0
    · left; exact h2

/-- the saved collection: planned files with the bytes of their host sources, planned directories,
and below them whatever the mounted collections contributed -/
theorem runPlan_spec (h : Host) (plan : Plan) (hsh : Shape plan) (t0 : Tree)
    (hload : loadFrags [] plan.frags = some t0) (hnc : NoCollide t0 plan) :
    ∃ tree, runPlan h plan = .ok tree ∧
      ∀ x, tree.get x = match planned h plan.files x with
        | some c => some (.file c)
        | none => if x ∈ plan.dirs then some .dir else t0.get x := by
  obtain ⟨t1, hm, hg1⟩ := mkdirs_spec plan.dirs [] t0 t0
    (parentFirst_of_ordered t0 _ [] hsh.ordered hnc.dirs) (fun x => by simp)
  have hfiles : ∀ f ∈ plan.files, f.1 ≠ [] ∧ t1.get f.1.dropLast = some .dir ∧ t1.get f.1 = none := by
    intro f hf
    obtain ⟨hne, hpar⟩ := hsh.parents f hf
    refine ⟨hne, ?_, ?_⟩
    · rcases hpar with hp | hp
      · rw [hp]; exact Tree.get_nil t1
      · rw [hg1]; simp [hp]
    · rw [hg1]
      have : f.1 ∉ plan.dirs := fun hm => hsh.disjoint _ hm (List.mem_map.mpr ⟨f, hf, rfl⟩)
      simp [this, hnc.files f hf]
  obtain ⟨t2, hc, hg2⟩ := copyFiles_spec h plan.files t1 hsh.nodupFiles hfiles
  refine ⟨t2, ?_, ?_⟩
  · unfold runPlan; rw [hload]; simp only; rw [hm]; simp only; rw [hc]
  · intro x
    rw [hg2]
    cases planned h plan.files x with
    | some c => rfl
    | none => simp only; rw [hg1]; simp

theorem planned_some' (h : Host) (fs : List (Path × Option Path)) (x : Path) (c : Bytes)
    (hp : planned h fs x = some c) : ∃ f ∈ fs, f.1 = x ∧ srcContent h f.2 = c := by
  unfold planned at hp
  cases hf : fs.find? (·.1 = x) with
  | none => rw [hf] at hp; cases hp
  | some f =>
    rw [hf] at hp
    simp at hp
    exact ⟨f, List.mem_of_find?_eq_some hf, by simpa using List.find?_some hf, hp⟩

theorem ordered_ne : ∀ (ds before : List Path), Ordered before ds → ∀ d ∈ ds, d ≠ [] := by
  intro ds
  induction ds with
  | nil => intro _ _ d hd; cases hd
  | cons x xs ih =>
    intro before ho d hd
    obtain ⟨h1, _, h3⟩ := ho
    rcases List.mem_cons.mp hd with rfl | hm
    · exact h1
    · exact ih _ h3 d hm

/-- **what the copier does when mounted content and host content claim the same output path**
(no `NoCollide`): whenever `runPlan` succeeds, the saved tree is the tree of the mounted content
`t0` with (a) every planned directory added where nothing was (an existing file or directory at
that path stays), (b) every planned file laid over what was there: on nothing, the file; on a file
of the mounted content, the host bytes followed by the tail of the longer mounted file (the
destination is opened without truncation); on a directory of the mounted content - possible only
for an empty host file - the directory stays. -/
theorem runPlan_ok_spec (h : Host) (plan : Plan) (hsh : Shape plan) (tree : Tree)
    (hrun : runPlan h plan = .ok tree) :
    ∃ t0, loadFrags [] plan.frags = some t0 ∧
      ∀ x, (tree.get x = match planned h plan.files x with
          | some c => overlay (t0.get x) c
          | none => if x ∈ plan.dirs ∧ t0.get x = none then some .dir else t0.get x) ∧
        (∀ c, planned h plan.files x = some c → t0.get x = some .dir → c = []) := by
  unfold runPlan at hrun
  cases hl : loadFrags [] plan.frags with
  | none => rw [hl] at hrun; cases hrun
  | some t0 =>
    rw [hl] at hrun
    simp only at hrun
    cases hm : mkdirs t0 plan.dirs with
    | none => rw [hm] at hrun; cases hrun
    | some t1 =>
      rw [hm] at hrun
      simp only at hrun
      cases hc : copyFiles h t1 plan.files with
      | none => rw [hc] at hrun; cases hrun
      | some t2 =>
        rw [hc] at hrun
        cases hrun
        refine ⟨t0, rfl, fun x => ?_⟩
        have hg1 := mkdirs_ok_spec plan.dirs t0 t1 (ordered_ne _ [] hsh.ordered) hm
        obtain ⟨hg2, hd2⟩ := copyFiles_ok_spec h plan.files t1 tree hsh.nodupFiles
          (fun f hf => (hsh.parents f hf).1) hc x
        cases hp : planned h plan.files x with
        | none =>
          rw [hp] at hg2
          exact ⟨by rw [hg2, hg1], fun c hcc => by cases hcc⟩
        | some c =>
          rw [hp] at hg2
          obtain ⟨f, hf, hfx, _⟩ := planned_some' h plan.files x c hp
          have hnd : x ∉ plan.dirs := fun hm' => hsh.disjoint x hm' (by rw [← hfx]; exact List.mem_map.mpr ⟨f, hf, rfl⟩)
          have ht1 : t1.get x = t0.get x := by rw [hg1]; simp [hnd]
          refine ⟨by rw [hg2, ht1], fun c' hc' hdir => ?_⟩
          rw [hp] at hd2
          exact hd2 c' hc' (by rw [ht1]; exact hdir)

theorem planned_of_mem (h : Host) (fs : List (Path × Option Path)) (hnd : (fs.map (·.1)).Nodup)
    (f : Path × Option Path) (hf : f ∈ fs) : planned h fs f.1 = some (srcContent h f.2) := by
  unfold planned
  induction fs with
  | nil => cases hf
  | cons g gs ih =>
    simp only [List.map_cons, List.nodup_cons] at hnd
    simp only [List.find?_cons]
    rcases List.mem_cons.mp hf with rfl | hm
    · simp
    · have : g.1 ≠ f.1 := fun heq => hnd.1 (by rw [heq]; exact List.mem_map.mpr ⟨f, hm, rfl⟩)
      simp only [this, decide_false]
      exact ih hnd.2 hm

theorem planned_none_of_not_mem (h : Host) (fs : List (Path × Option Path)) (x : Path)
    (hx : x ∉ fs.map (·.1)) : planned h fs x = none := by
  unfold planned
  have : fs.find? (·.1 = x) = none := by
    rw [List.find?_eq_none]
    intro g hg
    have : g.1 ≠ x := fun heq => hx (by rw [← heq]; exact List.mem_map.mpr ⟨g, hg, rfl⟩)
    simpa using this
  rw [this]; rfl

theorem planned_some (h : Host) (fs : List (Path × Option Path)) (x : Path) (c : Bytes)
    (hp : planned h fs x = some c) : ∃ f ∈ fs, f.1 = x ∧ srcContent h f.2 = c := by
  unfold planned at hp
  cases hf : fs.find? (·.1 = x) with
  | none => rw [hf] at hp; cases hp
  | some f =>
    rw [hf] at hp
    simp at hp
    exact ⟨f, List.mem_of_find?_eq_some hf, by simpa using List.find?_some hf, hp⟩

end ArvVerif.C17
