/-
C09 helper lemmas, part 13: which directories a saved text mentions. Every line is the line of a
directory of the tree; an empty directory below the root has its marker, a directory with files has
its stream; so every directory is a prefix of some line's directory and vice versa.
-/
import ArvVerif.Proofs.C09_Save
namespace ArvVerif.C09

open ArvVerif.C08 (Seg FileNode Store SegWF)
open ArvVerif.C10 (bSlash bDot)

variable {max : Nat} {hash : Bytes → C08.Loc}

theorem lineNames_append (a b : List Line9) : lineNames (a ++ b) = lineNames a ++ lineNames b := by
  induction a with
  | nil => rfl
  | cons x rest ih => cases x <;> simp [lineNames, ih]

/-- the names on the lines of one directory -/
theorem dirLines_names {d : Dir9} {L : List Line9} (hL : dirLines d = some L) :
    (∀ n ∈ lineNames L, n = prefixOf d.path) ∧
    (d.isEmpty = true → d.path ≠ [] → prefixOf d.path ∈ lineNames L) ∧
    (d.files ≠ [] → prefixOf d.path ∈ lineNames L) := by
  unfold dirLines at hL
  by_cases he : d.isEmpty = true
  · rw [if_pos he] at hL
    simp only [Option.some.injEq] at hL
    subst hL
    refine ⟨?_, ?_, ?_⟩
    · intro n hn
      split at hn
      · cases hn
      · simpa [lineNames] using hn
    · intro _ hp
      have : ¬ d.path.isEmpty = true := fun h => hp (List.isEmpty_iff.mp h)
      simp [this, lineNames]
    · intro hf
      unfold Dir9.isEmpty at he
      simp only [Bool.and_eq_true] at he
      exact absurd (List.isEmpty_iff.mp he.1) hf
  · rw [if_neg he] at hL
    cases hem : emitFiles ⟨[], 0, []⟩ d.files with
    | none => rw [hem] at hL; cases hL
    | some e =>
      rw [hem] at hL
      simp only [Option.some.injEq] at hL
      subst hL
      refine ⟨?_, fun h => absurd h he, ?_⟩
      · intro n hn
        split at hn
        · cases hn
        · simpa [lineNames, streamOfEmit] using hn
      · intro hf
        obtain ⟨f, hf'⟩ : ∃ f, f ∈ d.files := by
          cases hd : d.files with
          | nil => exact absurd hd hf
          | cons a b => exact ⟨a, by simp⟩
        obtain ⟨p, hp, _⟩ := emitFiles_keeps f.1 d.files _ e hem (Or.inr ⟨f, hf', rfl⟩)
        have : ¬ e.partsRev.isEmpty = true := by
          intro h; rw [List.isEmpty_iff.mp h] at hp; cases hp
        simp [this, lineNames, streamOfEmit]

theorem treeLines_names : ∀ (t : Tree9) (L : List Line9), treeLines t = some L →
    (∀ n ∈ lineNames L, ∃ d ∈ t, n = prefixOf d.path) ∧
    (∀ d ∈ t, d.isEmpty = true → d.path ≠ [] → prefixOf d.path ∈ lineNames L) ∧
    (∀ d ∈ t, d.files ≠ [] → prefixOf d.path ∈ lineNames L)
  | [], L, h => by
    simp only [treeLines, Option.some.injEq] at h; subst h
    exact ⟨fun n hn => (by cases hn), fun d hd => (by cases hd), fun d hd => (by cases hd)⟩
  | d0 :: rest, L, h => by
    unfold treeLines at h
    cases h1 : dirLines d0 with
    | none => rw [h1] at h; cases h
    | some a =>
      cases h2 : treeLines rest with
      | none => rw [h1, h2] at h; cases h
      | some b =>
        rw [h1, h2] at h
        simp only [Option.some.injEq] at h
        subst h
        obtain ⟨a1, a2, a3⟩ := dirLines_names h1
        obtain ⟨b1, b2, b3⟩ := treeLines_names rest b h2
        rw [lineNames_append]
        refine ⟨?_, ?_, ?_⟩
        · intro n hn
          rcases List.mem_append.mp hn with hn | hn
          · exact ⟨d0, by simp, a1 n hn⟩
          · obtain ⟨d, hd, e⟩ := b1 n hn
            exact ⟨d, List.mem_cons_of_mem _ hd, e⟩
        · intro d hd he hp
          rcases List.mem_cons.mp hd with rfl | hd
          · exact List.mem_append_left _ (a2 he hp)
          · exact List.mem_append_right _ (b2 d hd he hp)
        · intro d hd hf
          rcases List.mem_cons.mp hd with rfl | hd
          · exact List.mem_append_left _ (a3 hf)
          · exact List.mem_append_right _ (b3 d hd hf)

/-- the directory list is closed: every listed directory's parent is listed, and a directory that
counts sub-directories has one listed -/
structure TreeClosed (t : Tree9) : Prop where
  parent : ∀ d ∈ t, d.path ≠ [] → d.path.dropLast ∈ dirPaths t
  child : ∀ d ∈ t, 0 < d.nsub → ∃ c ∈ t, ∃ n, c.path = d.path ++ [n]

/-- every prefix of a listed directory is listed -/
theorem TreeClosed.prefixes_rev {t : Tree9} (h : TreeClosed t) : ∀ (q p : List Bytes), p ++ q.reverse ∈ dirPaths t → p ∈ dirPaths t
  | [], p, hp => by simpa using hp
  | x :: q, p, hp => by
    apply TreeClosed.prefixes_rev h q p
    obtain ⟨d, hd, hdp⟩ := List.mem_map.mp hp
    have hne : d.path ≠ [] := by rw [hdp]; simp
    have := h.parent d hd hne
    rw [hdp, List.reverse_cons, ← List.append_assoc, List.dropLast_concat] at this
    exact this

theorem TreeClosed.prefixes {t : Tree9} (h : TreeClosed t) (q p : List Bytes) (hp : p ++ q ∈ dirPaths t) : p ∈ dirPaths t := by
  apply h.prefixes_rev q.reverse p
  rw [List.reverse_reverse]; exact hp

/-- **the directories of the tree are exactly the prefixes of the directories the text mentions** -/
theorem dirs_recovered {t : Tree9} {L : List Line9} (hL : treeLines t = some L) (hclosed : TreeClosed t)
    (hns : ∀ d ∈ t, ∀ c ∈ d.path, bSlash ∉ c) (p : List Bytes) (hp : p ≠ []) (hps : ∀ c ∈ p, bSlash ∉ c) :
    p ∈ dirPaths t ↔ ∃ n ∈ lineNames L, ∃ q, (∀ c ∈ q, bSlash ∉ c) ∧ n = prefixOf (p ++ q) := by
  obtain ⟨n1, n2, n3⟩ := treeLines_names t L hL
  constructor
  · -- descend to a directory that has a line of its own
    intro hmem
    -- bound on the depth
    obtain ⟨M, hM⟩ : ∃ M, ∀ d ∈ t, d.path.length ≤ M := by
      refine ⟨(t.map (·.path.length)).foldr Nat.max 0, ?_⟩
      intro d hd
      have : ∀ (l : List Nat) (x : Nat), x ∈ l → x ≤ l.foldr Nat.max 0 := by
        intro l
        induction l with
        | nil => intro x hx; cases hx
        | cons a rest ih =>
          intro x hx
          simp only [List.foldr_cons]
          rcases List.mem_cons.mp hx with rfl | hx
          · exact Nat.le_max_left _ _
          · exact Nat.le_trans (ih x hx) (Nat.le_max_right _ _)
      exact this _ _ (List.mem_map.mpr ⟨d, hd, rfl⟩)
    have key : ∀ (fuel : Nat) (d : Dir9), d ∈ t → d.path ≠ [] → M - d.path.length ≤ fuel →
        ∃ n ∈ lineNames L, ∃ q, (∀ c ∈ q, bSlash ∉ c) ∧ n = prefixOf (d.path ++ q) := by
      intro fuel
      induction fuel with
      | zero =>
        intro d hd hne hle
        by_cases he : d.isEmpty = true
        · exact ⟨_, n2 d hd he hne, [], fun c hc => (by cases hc), (by simp)⟩
        · by_cases hf : d.files = []
          · -- it has a sub-directory, deeper than the bound allows
            have hsub : 0 < d.nsub := by
              unfold Dir9.isEmpty at he
              rw [hf] at he
              simp at he
              omega
            obtain ⟨c, hc, x, hcx⟩ := hclosed.child d hd hsub
            have := hM c hc
            have := hM d hd
            rw [hcx] at *
            simp at *
            omega
          · exact ⟨_, n3 d hd hf, [], fun c hc => (by cases hc), (by simp)⟩
      | succ fuel ih =>
        intro d hd hne hle
        by_cases he : d.isEmpty = true
        · exact ⟨_, n2 d hd he hne, [], fun c hc => (by cases hc), (by simp)⟩
        · by_cases hf : d.files = []
          · have hsub : 0 < d.nsub := by
              unfold Dir9.isEmpty at he
              rw [hf] at he
              simp at he
              omega
            obtain ⟨c, hc, x, hcx⟩ := hclosed.child d hd hsub
            obtain ⟨n, hn, q, hq, e⟩ := ih c hc (by rw [hcx]; simp) (by rw [hcx]; simp; omega)
            refine ⟨n, hn, x :: q, ?_, by rw [e, hcx]; simp⟩
            intro y hy
            rcases List.mem_cons.mp hy with rfl | hy
            · exact hns c hc y (by rw [hcx]; simp)
            · exact hq y hy
          · exact ⟨_, n3 d hd hf, [], fun c hc => (by cases hc), (by simp)⟩
    obtain ⟨d, hd, hdp⟩ := List.mem_map.mp hmem
    obtain ⟨n, hn, q, hq, e⟩ := key M d hd (by rw [hdp]; exact hp) (by omega)
    exact ⟨n, hn, q, hq, by rw [e, hdp]⟩
  · rintro ⟨n, hn, q, hq, e⟩
    obtain ⟨d, hd, hnd⟩ := n1 n hn
    have hsplit1 := splitOn_prefixOf d.path (hns d hd)
    have hsplit2 := splitOn_prefixOf (p ++ q) (by
      intro c hc
      rcases List.mem_append.mp hc with hc | hc
      · exact hps c hc
      · exact hq c hc)
    rw [← hnd, e, hsplit2] at hsplit1
    have : p ++ q = d.path := (List.cons.inj hsplit1).2
    apply hclosed.prefixes q p
    rw [this]
    exact List.mem_map.mpr ⟨d, hd, rfl⟩

end ArvVerif.C09
