/-
C06(b) proofs: the producer's exact line format `<hash>+<size> <mtime>` (services/keepstore
`IndexTo`: `fmt.Fprint(w, name, "+", size, " ", mtime.UnixNano(), "\n")`) is parsed back by
`KeepService.index`'s `parseLine` for ALL sizes and mtimes — a decimal round-trip lemma for
`strconv.ParseInt` (`parseInt64 (decimal n) = n` for every `n < 2^63`) and the field split.
-/
import ArvVerif.Proofs.C06_Index
namespace ArvVerif.C06

theorem parseDigits_append : ∀ (a b : List Byte) (acc : Nat),
    parseDigits (a ++ b) acc = (parseDigits a acc).bind (parseDigits b) := by
  intro a
  induction a with
  | nil => intro b acc; simp [parseDigits]
  | cons x a ih =>
    intro b acc
    simp only [List.cons_append, parseDigits]
    cases digitVal? x with
    | none => simp
    | some d => exact ih b _

theorem digitChar_toNat {d : Nat} (h : d < 10) : (Nat.digitChar d).toNat = 48 + d := by
  have : d = 0 ∨ d = 1 ∨ d = 2 ∨ d = 3 ∨ d = 4 ∨ d = 5 ∨ d = 6 ∨ d = 7 ∨ d = 8 ∨ d = 9 := by omega
  rcases this with rfl | rfl | rfl | rfl | rfl | rfl | rfl | rfl | rfl | rfl <;> rfl

theorem digitVal_digit {d : Nat} (h : d < 10) : digitVal? (48 + d) = some d := by
  unfold digitVal?
  have hc : 48 ≤ 48 + d ∧ 48 + d ≤ 57 := by omega
  rw [if_pos hc]
  congr 1
  omega

theorem decimal_eq_if (n : Nat) :
    decimal n = if n < 10 then [48 + n] else decimal (n / 10) ++ [48 + n % 10] := by
  unfold decimal
  rw [Nat.toDigits_eq_if (by decide)]
  split
  · rename_i h; simp [digitChar_toNat h]
  · simp [digitChar_toNat (Nat.mod_lt n (by decide : 0 < 10))]

/-- every byte of a decimal numeral is an ASCII digit -/
theorem decimal_digits (n : Nat) : ∀ b : Nat, b ∈ decimal n → 48 ≤ b ∧ b ≤ 57 := by
  induction n using Nat.strongRecOn with
  | _ n ih =>
    rw [decimal_eq_if]
    split
    · intro b hb; simp at hb; omega
    · intro b hb
      simp only [List.mem_append, List.mem_singleton] at hb
      rcases hb with hb | hb
      · exact ih (n / 10) (by omega) b hb
      · have := Nat.mod_lt n (by decide : 0 < 10); omega

theorem decimal_ne_nil (n : Nat) : decimal n ≠ [] := by
  rw [decimal_eq_if]; split <;> simp

/-- Decimal round trip: scanning the decimal numeral of `n` digit by digit yields `n`, for every `n`. -/
theorem parseDigits_decimal (n : Nat) : parseDigits (decimal n) 0 = some n := by
  induction n using Nat.strongRecOn with
  | _ n ih =>
    rw [decimal_eq_if]
    split
    · rename_i h
      simp [parseDigits, digitVal_digit h]
    · rename_i h
      rw [parseDigits_append, ih (n / 10) (by omega)]
      simp only [Option.bind_some, parseDigits, digitVal_digit (Nat.mod_lt n (by decide : 0 < 10))]
      congr 1
      omega

theorem parseInt64_nosign (x : Nat) (rest : List Nat) (h43 : x ≠ 43) (h45 : x ≠ 45) (n : Nat)
    (hp : parseDigits (x :: rest) 0 = some n) (h : n < 2 ^ 63) : parseInt64 (x :: rest) = some (n : Int) := by
  unfold parseInt64
  split
  rename_i heq
  split at heq
  · rename_i h1; simp only [List.cons.injEq] at h1; exact absurd h1.1 h43
  · rename_i h1; simp only [List.cons.injEq] at h1; exact absurd h1.1 h45
  · obtain ⟨h1, h2⟩ := Prod.mk.inj heq
    subst h1; subst h2
    simp [hp, h]

/-- `strconv.ParseInt(decimal n, 10, 64) = n` for every `n` in int64 range. -/
theorem parseInt64_decimal (n : Nat) (h : n < 2 ^ 63) : parseInt64 (decimal n) = some (n : Int) := by
  have hd := decimal_digits n
  have hp := parseDigits_decimal n
  obtain ⟨x, rest, hdec⟩ : ∃ (x : Nat) (rest : List Nat), decimal n = x :: rest := by
    cases hc : decimal n with
    | nil => exact absurd hc (decimal_ne_nil n)
    | cons a b => exact ⟨a, b, rfl⟩
  rw [hdec] at hd hp ⊢
  have hx := hd x (by simp)
  exact parseInt64_nosign x rest (by omega) (by omega) n hp h

theorem splitSP_nosp (b : List Byte) (hb : 32 ∉ b) : ∀ cur, splitSP b cur = [cur.reverse ++ b] := by
  induction b with
  | nil => intro cur; simp [splitSP]
  | cons x b ih =>
    intro cur
    have hx : x ≠ 32 := by intro h; exact hb (by simp [h])
    have hb' : 32 ∉ b := by intro h; exact hb (by simp [h])
    simp only [splitSP, if_neg hx]
    rw [ih hb']
    simp

theorem splitSP_one (a b : List Byte) (ha : 32 ∉ a) (hb : 32 ∉ b) : ∀ cur,
    splitSP (a ++ 32 :: b) cur = [cur.reverse ++ a, b] := by
  induction a with
  | nil => intro cur; simp [splitSP, splitSP_nosp b hb]
  | cons x a ih =>
    intro cur
    have hx : x ≠ 32 := by intro h; exact ha (by simp [h])
    have ha' : 32 ∉ a := by intro h; exact ha (by simp [h])
    simp only [List.cons_append, splitSP, if_neg hx]
    rw [ih ha']
    simp

theorem decimal_nosp (n : Nat) : 32 ∉ decimal n := by
  intro h; have := decimal_digits n 32 h; omega

/-- a hex digit `0-9a-f` -/
def isHex (b : Nat) : Prop := (48 ≤ b ∧ b ≤ 57) ∨ (97 ≤ b ∧ b ≤ 102)

/-- the line keepstore's `IndexTo` writes for a block: `<hash>+<size> <mtime>` (without the `\n`) -/
def producerLine (hash : List Nat) (size mtime : Nat) : Line :=
  hash ++ 43 :: decimal size ++ 32 :: decimal mtime

theorem decimal_length_le (n : Nat) (h : n < 10 ^ 19) : (decimal n).length ≤ 19 := by
  unfold decimal
  rw [List.length_map]
  exact (Nat.length_toDigits_le_iff (by decide) (by decide)).mpr h

/-- **Parse of the producer's format, for all sizes and mtimes.** For every hash of hex digits
(non-empty, at most 64 of them), every size and every mtime in int64 range, the line the producer
writes is a `GoodLine`: well-formed, no trailing CR, below the scanner's token limit, and `parseLine`
returns exactly `<hash>+<size>` with the mtime (after the legacy-seconds fix). -/
theorem producerLine_good (hash : List Nat) (size mtime : Nat) (hne : hash ≠ [])
    (hhex : ∀ b : Nat, b ∈ hash → isHex b) (hlen : hash.length ≤ 64) (hs : size < 2 ^ 63) (hm : mtime < 2 ^ 63) :
    GoodLine (producerLine hash size mtime) ⟨hash ++ 43 :: decimal size, fixMtime (mtime : Int)⟩ := by
  have hds := decimal_digits size
  have hdm := decimal_digits mtime
  have hmem : ∀ b : Nat, b ∈ producerLine hash size mtime → isHex b ∨ b = 43 ∨ b = 32 := by
    intro b hb
    simp only [producerLine, List.mem_append, List.mem_cons] at hb
    rcases hb with (hb | rfl | hb) | rfl | hb
    · exact Or.inl (hhex b hb)
    · exact Or.inr (Or.inl rfl)
    · exact Or.inl (Or.inl (hds b hb))
    · exact Or.inr (Or.inr rfl)
    · exact Or.inl (Or.inl (hdm b hb))
  have hl1 : (decimal size).length ≤ 19 := decimal_length_le size (by omega)
  have hl2 : (decimal mtime).length ≤ 19 := decimal_length_le mtime (by omega)
  refine ⟨⟨?_, ?_, ?_⟩, ?_, ?_, ?_⟩
  · cases hash with
    | nil => exact absurd rfl hne
    | cons x r => simp [producerLine]
  · intro h; rcases hmem 10 h with h | h | h
    · unfold isHex at h; omega
    · omega
    · omega
  · cases hash with
    | nil => exact absurd rfl hne
    | cons x r =>
      simp only [producerLine, List.cons_append, List.head?_cons, ne_eq, Option.some.injEq]
      intro hx
      have hx' : x = (13 : Nat) := hx
      have := hhex x (by simp)
      unfold isHex at this; omega
  · intro h
    have hmemL : (13 : Nat) ∈ producerLine hash size mtime := List.mem_of_getLast? h
    rcases hmem 13 hmemL with h | h | h
    · unfold isHex at h; omega
    · omega
    · omega
  · simp only [producerLine, List.length_append, List.length_cons, maxTok]
    omega
  · have ha : 32 ∉ hash ++ 43 :: decimal size := by
      intro h
      simp only [List.mem_append, List.mem_cons] at h
      rcases h with h | h | h
      · have := hhex 32 h; unfold isHex at this; omega
      · omega
      · exact decimal_nosp size h
    have hsplit : splitSP (producerLine hash size mtime) [] = [hash ++ 43 :: decimal size, decimal mtime] := by
      have := splitSP_one (hash ++ 43 :: decimal size) (decimal mtime) ha (decimal_nosp mtime) []
      simpa [producerLine] using this
    unfold parseLine
    rw [hsplit]
    simp [parseInt64_decimal mtime hm]

/-- … hence a whole response in the producer's format is accepted with exactly its entries. -/
theorem producer_allGood : ∀ (bs : List (List Nat × Nat × Nat)),
    (∀ b ∈ bs, b.1 ≠ [] ∧ (∀ x : Nat, x ∈ b.1 → isHex x) ∧ b.1.length ≤ 64 ∧ b.2.1 < 2 ^ 63 ∧ b.2.2 < 2 ^ 63) →
    AllGood (bs.map (fun b => producerLine b.1 b.2.1 b.2.2))
      (bs.map (fun b => ⟨b.1 ++ 43 :: decimal b.2.1, fixMtime (b.2.2 : Int)⟩)) := by
  intro bs
  induction bs with
  | nil => intro _; exact .nil
  | cons b bs ih =>
    intro h
    obtain ⟨h1, h2, h3, h4, h5⟩ := h b (by simp)
    exact .cons (producerLine_good b.1 b.2.1 b.2.2 h1 h2 h3 h4 h5) (ih (fun x hx => h x (by simp [hx])))

end ArvVerif.C06
