/-
C05 helper lemmas, part 6: the protection argument for servers with several mounts, when every
replica of the block sits on a mount of the class (e.g. a cluster without storage classes). Nothing
outside the class can absorb the protection, and the two passes together try every slot unless
`done`; so either `replProt` (which then counts only distinct in-class replicas) reaches `desired`
or every replica is protected. Needs distinct mount identities and no shared device; does not use
the sort order at all.
-/
import ArvVerif.Proofs.C05Safe
namespace ArvVerif.C05

/-- replication of a slot if its mount is in the list of protected mounts -/
def ind (pm : List Nat) (s : Slot) : Nat := if pm.contains s.mnt.id then s.mnt.repl else 0

def IdsDistinct (S : List Slot) : Prop := (S.map (·.mnt)).Pairwise (fun a b => a.id ≠ b.id)
def DevsDistinct (S : List Slot) : Prop := (S.map (·.mnt)).Pairwise (fun a b => a.dev = b.dev → a.dev = 0)

theorem eq_of_pairwise_map {α β : Type} (f : α → β) (R : β → β → Prop) :
    ∀ (l : List α), (l.map f).Pairwise R → ∀ p ∈ l, ∀ q ∈ l, ¬ R (f p) (f q) → ¬ R (f q) (f p) → p = q := by
  intro l
  induction l with
  | nil => intro _ p hp; cases hp
  | cons a l ih =>
    intro h p hp q hq h1 h2
    have h' := List.pairwise_cons.1 (show (f a :: l.map f).Pairwise R from h)
    rcases List.mem_cons.1 hp with rfl | hp'
    · rcases List.mem_cons.1 hq with rfl | hq'
      · rfl
      · exact absurd (h'.1 (f q) (List.mem_map.2 ⟨q, hq', rfl⟩)) h1
    · rcases List.mem_cons.1 hq with rfl | hq'
      · exact absurd (h'.1 (f p) (List.mem_map.2 ⟨p, hp', rfl⟩)) h2
      · exact ih h'.2 p hp' q hq' h1 h2

theorem eq_of_same_id {S : List Slot} (hid : IdsDistinct S) {p q : Slot} (hp : p ∈ S) (hq : q ∈ S)
    (h : p.mnt.id = q.mnt.id) : p = q :=
  eq_of_pairwise_map (fun (x : Slot) => x.mnt) (fun (a b : Mount) => a.id ≠ b.id) S hid p hp q hq
    (fun hne => hne h) (fun hne => hne h.symm)

theorem eq_of_same_dev {S : List Slot} (hdev : DevsDistinct S) {p q : Slot} (hp : p ∈ S) (hq : q ∈ S)
    (h : p.mnt.dev = q.mnt.dev) (h0 : p.mnt.dev ≠ 0) : p = q :=
  eq_of_pairwise_map (fun (x : Slot) => x.mnt) (fun (a b : Mount) => a.dev = b.dev → a.dev = 0) S hdev p hp q hq
    (fun hr => h0 (hr h)) (fun hr => h0 (h ▸ hr h.symm))

theorem ind_cons_ne (pm : List Nat) (id : Nat) (s : Slot) (h : s.mnt.id ≠ id) : ind (id :: pm) s = ind pm s := by
  unfold ind
  rw [List.contains_cons]
  have : (s.mnt.id == id) = false := by simpa using h
  rw [this, Bool.false_or]

theorem ssum_ind_cons : ∀ (S : List Slot), IdsDistinct S → ∀ s0 ∈ S, ∀ pm : List Nat,
    pm.contains s0.mnt.id = false → ssum (ind (s0.mnt.id :: pm)) S = ssum (ind pm) S + s0.mnt.repl := by
  intro S
  induction S with
  | nil => intro _ s0 hs0; cases hs0
  | cons a l ih =>
    intro hid s0 hs0 pm hn
    have h' := List.pairwise_cons.1 (show (a.mnt :: l.map (·.mnt)).Pairwise (fun a b => a.id ≠ b.id) from hid)
    simp only [ssum_cons]
    rcases List.mem_cons.1 hs0 with rfl | hs0'
    · have e1 : ind (s0.mnt.id :: pm) s0 = s0.mnt.repl := by
        unfold ind; rw [List.contains_cons]; simp
      have e2 : ind pm s0 = 0 := by unfold ind; rw [hn]; rfl
      have e3 : ssum (ind (s0.mnt.id :: pm)) l = ssum (ind pm) l := by
        apply ssum_congr
        intro b hb
        apply ind_cons_ne
        exact fun e => h'.1 b.mnt (List.mem_map.2 ⟨b, hb, rfl⟩) e.symm
      rw [e1, e2, e3]; omega
    · have hne : a.mnt.id ≠ s0.mnt.id := h'.1 s0.mnt (List.mem_map.2 ⟨s0, hs0', rfl⟩)
      rw [ind_cons_ne pm _ a hne, ih h'.2 s0 hs0' pm hn]; omega

theorem ssum_ind_nil (S : List Slot) : ssum (ind []) S = 0 := by
  induction S with
  | nil => rfl
  | cons a l ih => rw [ssum_cons, ih]; rfl

/-- what both passes maintain, relative to the whole slot list `S` of the iteration -/
structure MInv (d : Nat) (S : List Slot) (st : PassSt) : Prop where
  prot : ∀ s ∈ S, st.protMnt.contains s.mnt.id = true → ∃ t, s.repl = some t ∧ t ∈ st.utd
  want : ∀ s ∈ S, st.wantMnt.contains s.mnt.id = true → ∀ t, s.repl = some t → (t ∈ st.utd ∨ d ≤ st.replProt)
  dev : ∀ x, st.wantDev.contains x = true →
    x ≠ 0 ∧ ∃ s' ∈ S, s'.mnt.dev = x ∧ st.wantMnt.contains s'.mnt.id = true
  sum : st.replProt = ssum (ind st.protMnt) S
  done : st.done = true → d ≤ st.replProt

theorem minv_init (d : Nat) (S : List Slot) (u : List Int) : MInv d S (passInit u) where
  prot := by intro s _ h; simp [passInit] at h
  want := by intro s _ h; simp [passInit] at h
  dev := by intro x h; simp [passInit] at h
  sum := by show 0 = ssum (ind []) S; rw [ssum_ind_nil]
  done := by intro h; cases h

theorem minv_protect {d : Nat} {S : List Slot} {st : PassSt} (hid : IdsDistinct S) (h : MInv d S st)
    {s0 : Slot} (hs0 : s0 ∈ S) {t : Int} (hr : s0.repl = some t) (hn : st.protMnt.contains s0.mnt.id = false) :
    MInv d S { st with utd := t :: st.utd, protMnt := s0.mnt.id :: st.protMnt,
                       replProt := st.replProt + s0.mnt.repl } where
  prot := by
    intro s hs hc
    simp only [List.contains_cons, Bool.or_eq_true, beq_iff_eq] at hc
    rcases hc with hc | hc
    · have : s = s0 := eq_of_same_id hid hs hs0 hc
      subst this
      exact ⟨t, hr, List.mem_cons_self ..⟩
    · obtain ⟨t', h1, h2⟩ := h.prot s hs hc
      exact ⟨t', h1, List.mem_cons_of_mem _ h2⟩
  want := by
    intro s hs hc t' ht'
    rcases h.want s hs hc t' ht' with h1 | h1
    · left; exact List.mem_cons_of_mem _ h1
    · right; show d ≤ st.replProt + s0.mnt.repl; omega
  dev := h.dev
  sum := by
    show st.replProt + s0.mnt.repl = ssum (ind (s0.mnt.id :: st.protMnt)) S
    rw [ssum_ind_cons S hid s0 hs0 st.protMnt hn, h.sum]
  done := by
    intro hd
    have := h.done hd
    show d ≤ st.replProt + s0.mnt.repl
    omega

theorem minv_want {d : Nat} {S : List Slot} {st : PassSt} (hid : IdsDistinct S) (h : MInv d S st)
    {s0 : Slot} (hs0 : s0 ∈ S) (hg : ∀ t, s0.repl = some t → (t ∈ st.utd ∨ d ≤ st.replProt)) (rw' : Nat) :
    MInv d S { st with wantSrv := s0.mnt.srv :: st.wantSrv, wantMnt := s0.mnt.id :: st.wantMnt,
                       wantDev := if s0.mnt.dev != 0 then s0.mnt.dev :: st.wantDev else st.wantDev,
                       replWant := rw' } where
  prot := h.prot
  want := by
    intro s hs hc t ht
    simp only [List.contains_cons, Bool.or_eq_true, beq_iff_eq] at hc
    rcases hc with hc | hc
    · have : s = s0 := eq_of_same_id hid hs hs0 hc
      subst this
      exact hg t ht
    · exact h.want s hs hc t ht
  dev := by
    intro x hx
    have hold : st.wantDev.contains x = true →
        x ≠ 0 ∧ ∃ s' ∈ S, s'.mnt.dev = x ∧ (s0.mnt.id :: st.wantMnt).contains s'.mnt.id = true := by
      intro hx'
      obtain ⟨h0, s', hs', hd', hw'⟩ := h.dev x hx'
      refine ⟨h0, s', hs', hd', ?_⟩
      rw [List.contains_cons, hw', Bool.or_true]
    by_cases h0 : (s0.mnt.dev != 0) = true
    · simp only [h0, if_true, List.contains_cons, Bool.or_eq_true, beq_iff_eq] at hx
      rcases hx with hx | hx
      · refine ⟨by rw [hx]; simpa using h0, s0, hs0, hx.symm, ?_⟩
        rw [List.contains_cons]; simp
      · exact hold hx
    · simp only [h0] at hx
      exact hold hx
  sum := h.sum
  done := h.done

theorem minv_setDone {d : Nat} {S : List Slot} {st : PassSt} (h : MInv d S st) (b : Bool)
    (hb : b = true → d ≤ st.replProt) : MInv d S { st with done := b } where
  prot := h.prot
  want := h.want
  dev := h.dev
  sum := h.sum
  done := hb

/-- the two shapes of protectStep -/
theorem protectStep_cases (d : Nat) (s : Slot) (st : PassSt) :
    (∃ t, s.repl = some t ∧ st.protMnt.contains s.mnt.id = false ∧
      protectStep d s st = { st with utd := t :: st.utd, protMnt := s.mnt.id :: st.protMnt,
                                     replProt := st.replProt + s.mnt.repl }) ∨
    (protectStep d s st = st ∧
      ∀ t, s.repl = some t → (d ≤ st.replProt ∨ st.protMnt.contains s.mnt.id = true)) := by
  unfold protectStep
  cases hr : s.repl with
  | none => right; exact ⟨rfl, fun t h => by cases h⟩
  | some t =>
    simp only
    by_cases hc : (decide (st.replProt < d) && !st.protMnt.contains s.mnt.id) = true
    · left
      have hc2 := hc
      simp only [Bool.and_eq_true, decide_eq_true_eq, Bool.not_eq_true'] at hc2
      exact ⟨t, rfl, hc2.2, by rw [if_pos hc]⟩
    · right
      refine ⟨by rw [if_neg hc], fun t' _ => ?_⟩
      by_cases h1 : st.replProt < d
      · right
        cases h2 : st.protMnt.contains s.mnt.id with
        | true => rfl
        | false =>
          have : (decide (st.replProt < d) && !st.protMnt.contains s.mnt.id) = true := by
            rw [h2, decide_eq_true h1]; rfl
          exact absurd this hc
      · left; omega

/-- the two shapes of wantStep -/
theorem wantStep_cases (d : Nat) (s : Slot) (st : PassSt) :
    wantStep d s st = { st with wantSrv := s.mnt.srv :: st.wantSrv, wantMnt := s.mnt.id :: st.wantMnt,
                                wantDev := if s.mnt.dev != 0 then s.mnt.dev :: st.wantDev else st.wantDev,
                                replWant := st.replWant + s.mnt.repl } ∨
    wantStep d s st = st := by
  unfold wantStep
  split
  · left; rfl
  · right; rfl

/-- trySlot keeps the invariant, and afterwards the slot's replica is protected unless `replProt`
already reached `d` -/
theorem trySlot_minv {d : Nat} {S : List Slot} (hid : IdsDistinct S) (hdev : DevsDistinct S) {st : PassSt}
    (h : MInv d S st) {s0 : Slot} (hs0 : s0 ∈ S) :
    MInv d S (trySlot d s0 st) ∧
    ∀ t, s0.repl = some t → (t ∈ (trySlot d s0 st).utd ∨ d ≤ (trySlot d s0 st).replProt) := by
  by_cases hc : (st.wantMnt.contains s0.mnt.id || st.wantDev.contains s0.mnt.dev) = true
  · have e : trySlot d s0 st = { st with done := false } := by unfold trySlot; rw [if_pos hc]
    rw [e]
    refine ⟨minv_setDone h false (fun hb => by cases hb), ?_⟩
    intro t ht
    simp only [Bool.or_eq_true] at hc
    rcases hc with hc | hc
    · exact h.want s0 hs0 hc t ht
    · obtain ⟨h0, s', hs', hd', hw'⟩ := h.dev _ hc
      have : s' = s0 := eq_of_same_dev hdev hs' hs0 hd' (by rw [hd']; exact h0)
      subst this
      exact h.want s' hs' hw' t ht
  · have hc' := Bool.eq_false_iff.mpr hc
    rw [Bool.or_eq_false_iff] at hc'
    rw [trySlot_fresh d s0 st hc'.1 hc'.2]
    -- after protectStep
    have hP : MInv d S (protectStep d s0 st) ∧
        ∀ t, s0.repl = some t → (t ∈ (protectStep d s0 st).utd ∨ d ≤ (protectStep d s0 st).replProt) := by
      rcases protectStep_cases d s0 st with ⟨t, hr, hn, e⟩ | ⟨e, hg⟩
      · rw [e]
        refine ⟨minv_protect hid h hs0 hr hn, ?_⟩
        intro t' ht'
        rw [hr] at ht'; cases ht'
        left; exact List.mem_cons_self ..
      · rw [e]
        refine ⟨h, ?_⟩
        intro t ht
        rcases hg t ht with h1 | h1
        · right; exact h1
        · obtain ⟨t', h2, h3⟩ := h.prot s0 hs0 h1
          rw [ht] at h2; cases h2
          left; exact h3
    have hW : MInv d S (wantStep d s0 (protectStep d s0 st)) ∧
        (wantStep d s0 (protectStep d s0 st)).utd = (protectStep d s0 st).utd ∧
        (wantStep d s0 (protectStep d s0 st)).replProt = (protectStep d s0 st).replProt := by
      refine ⟨?_, wantStep_utd _ _ _, wantStep_replProt _ _ _⟩
      rcases wantStep_cases d s0 (protectStep d s0 st) with e | e
      · rw [e]; exact minv_want hid hP.1 hs0 hP.2 _
      · rw [e]; exact hP.1
    refine ⟨minv_setDone hW.1 _ ?_, ?_⟩
    · intro hb
      simp only [Bool.and_eq_true, decide_eq_true_eq] at hb
      exact hb.1
    · intro t ht
      show t ∈ (wantStep d s0 (protectStep d s0 st)).utd ∨ d ≤ (wantStep d s0 (protectStep d s0 st)).replProt
      rw [hW.2.1, hW.2.2]
      exact hP.2 t ht

theorem pass1_minv {d : Nat} {S : List Slot} (hid : IdsDistinct S) (hdev : DevsDistinct S) :
    ∀ (l : List Slot), (∀ s ∈ l, s ∈ S) → ∀ st : PassSt, MInv d S st → MInv d S (pass1 d l st) := by
  intro l
  induction l with
  | nil => intro _ st h; exact h
  | cons s l ih =>
    intro hsub st h
    show MInv d S (pass1 d l (pass1Step d st s))
    apply ih (fun x hx => hsub x (List.mem_cons_of_mem _ hx))
    unfold pass1Step
    split
    · exact h
    · split
      · exact h
      · exact (trySlot_minv hid hdev h (hsub s (List.mem_cons_self ..))).1

theorem replProt_pass2Step (d : Nat) (st : PassSt) (s : Slot) : st.replProt ≤ (pass2Step d st s).replProt := by
  unfold pass2Step
  split
  · exact Nat.le_refl _
  · exact replProt_trySlot d s st

theorem replProt_pass2 (d : Nat) (l : List Slot) : ∀ st : PassSt, st.replProt ≤ (pass2 d l st).replProt := by
  induction l with
  | nil => intro st; exact Nat.le_refl _
  | cons s l ih =>
    intro st
    show st.replProt ≤ (pass2 d l (pass2Step d st s)).replProt
    exact Nat.le_trans (replProt_pass2Step d st s) (ih _)

theorem pass2_done (d : Nat) (l : List Slot) : ∀ st : PassSt, st.done = true → pass2 d l st = st := by
  induction l with
  | nil => intro st _; rfl
  | cons s l ih =>
    intro st h
    show pass2 d l (pass2Step d st s) = st
    have : pass2Step d st s = st := by unfold pass2Step; simp [h]
    rw [this]; exact ih st h

/-- the second pass tries every slot unless it finishes: at its end `replProt ≥ d` or every replica
of the slots it ran over is protected -/
theorem pass2_visits {d : Nat} {S : List Slot} (hid : IdsDistinct S) (hdev : DevsDistinct S) :
    ∀ (l : List Slot), (∀ s ∈ l, s ∈ S) → ∀ st : PassSt, MInv d S st → st.done = false →
      MInv d S (pass2 d l st) ∧
      (d ≤ (pass2 d l st).replProt ∨ ∀ s ∈ l, ∀ t, s.repl = some t → t ∈ (pass2 d l st).utd) := by
  intro l
  induction l with
  | nil => intro _ st h _; exact ⟨h, Or.inr (fun s hs => by cases hs)⟩
  | cons s l ih =>
    intro hsub st h hdone
    have hstep : pass2Step d st s = trySlot d s st := by unfold pass2Step; rw [hdone]; simp
    have hunf : pass2 d (s :: l) st = pass2 d l (trySlot d s st) := by
      show pass2 d l (pass2Step d st s) = _
      rw [hstep]
    rw [hunf]
    have hs := hsub s (List.mem_cons_self ..)
    have hsub' : ∀ x ∈ l, x ∈ S := fun x hx => hsub x (List.mem_cons_of_mem _ hx)
    obtain ⟨h1, g1⟩ := trySlot_minv hid hdev h hs
    by_cases hd1 : (trySlot d s st).done = true
    · rw [pass2_done d l _ hd1]
      exact ⟨h1, Or.inl (h1.done hd1)⟩
    · have hd1' : (trySlot d s st).done = false := Bool.eq_false_iff.mpr hd1
      obtain ⟨h2, g2⟩ := ih hsub' _ h1 hd1'
      refine ⟨h2, ?_⟩
      rcases g2 with g2 | g2
      · left; exact g2
      · -- the head slot
        cases hr : s.repl with
        | none =>
          right
          intro x hx t ht
          rcases List.mem_cons.1 hx with rfl | hx'
          · rw [hr] at ht; cases ht
          · exact g2 x hx' t ht
        | some t0 =>
          rcases g1 t0 hr with g | g
          · right
            intro x hx t ht
            rcases List.mem_cons.1 hx with rfl | hx'
            · rw [hr] at ht; cases ht
              exact pass2_utd d l _ t0 g
            · exact g2 x hx' t ht
          · left
            exact Nat.le_trans g (replProt_pass2 d l _)

/-- The protection guarantee of one class iteration when every replica sits on an in-class mount
(distinct mount identities, no shared device; several mounts per server allowed). -/
theorem classIter_protects_inclass (env : Env) (c : Class) (S : List Slot) (b : BState)
    (hid : IdsDistinct S) (hdev : DevsDistinct S)
    (hall : ∀ s ∈ S, s.repl.isSome = true → inClass c s.mnt = true) :
    env.desired c ≤ ssum (protTerm c (classIter env c S b).utd) S ∨ AllProt c (classIter env c S b).utd S := by
  have hsub : ∀ s ∈ S, s ∈ S := fun _ h => h
  have h1 := pass1_minv (d := env.desired c) hid hdev S hsub _ (minv_init (env.desired c) S b.utd)
  generalize hst1 : pass1 (env.desired c) S (passInit b.utd) = st1 at h1
  have hU : ∀ t ∈ (pass2 (env.desired c) S st1).utd, t ∈ (classIter env c S b).utd := by
    intro t ht
    unfold classIter
    simp only [List.mem_append]
    right; rw [hst1]; exact ht
  -- final invariant and the visiting guarantee
  have key : MInv (env.desired c) S (pass2 (env.desired c) S st1) ∧
      (env.desired c ≤ (pass2 (env.desired c) S st1).replProt ∨
        ∀ s ∈ S, ∀ t, s.repl = some t → t ∈ (pass2 (env.desired c) S st1).utd) := by
    by_cases hd : st1.done = true
    · rw [pass2_done _ S st1 hd]
      exact ⟨h1, Or.inl (h1.done hd)⟩
    · exact pass2_visits hid hdev S hsub st1 h1 (Bool.eq_false_iff.mpr hd)
  obtain ⟨h2, g⟩ := key
  rcases g with g | g
  · left
    have hle : ssum (ind (pass2 (env.desired c) S st1).protMnt) S ≤ ssum (protTerm c (classIter env c S b).utd) S := by
      apply ssum_le
      intro s hs
      unfold ind
      cases hc : (pass2 (env.desired c) S st1).protMnt.contains s.mnt.id with
      | false => exact Nat.zero_le _
      | true =>
        obtain ⟨t, hr, ht⟩ := h2.prot s hs hc
        rw [protTerm_some c _ s t hr]
        have hin : inClass c s.mnt = true := hall s hs (by rw [hr]; rfl)
        have hcu : (classIter env c S b).utd.contains t = true := List.contains_iff_mem.2 (hU t ht)
        rw [hin, hcu]
        simp
    have := h2.sum
    omega
  · right
    intro s hs _ t ht
    exact hU t (g s hs t ht)

end ArvVerif.C05
