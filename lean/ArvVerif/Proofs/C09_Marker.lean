/-
C09 helper lemmas, part 15: the empty-directory marker read back by `loadManifest` (`C10.fsLine`):
the line `<escaped ./a/b> d41d8cd98f00b204e9800998ecf8427e+0 0:0:\056` makes the directory and its
missing ancestors, adds no file and changes no file.
-/
import ArvVerif.Proofs.C09_Main
namespace ArvVerif.C09

open ArvVerif.C10 (bSpace bNL bSlash bColon bDot splitOn joinWith fsEscape FsTree walkParents)

/-- `walkParents` never removes a directory -/
theorem walkParents_mono : ∀ (cs c : List Bytes) (a b : FsTree) (r : List Bytes), walkParents cs c a = some (r, b) →
    ∀ d ∈ a.dirs, d ∈ b.dirs
  | [], c, a, b, r, h, d, hd => by
    simp only [walkParents, Option.some.injEq, Prod.mk.injEq] at h
    rw [← h.2]; exact hd
  | x :: xs, c, a, b, r, h, d, hd => by
    unfold walkParents at h
    split at h
    · exact walkParents_mono xs c a b r h d hd
    · split at h
      · split at h
        · cases h
        · exact walkParents_mono xs _ a b r h d hd
      · simp only [] at h
        split at h
        · cases h
        · split at h
          · exact walkParents_mono xs _ a b r h d hd
          · exact walkParents_mono xs _ _ b r h d (by simp [hd])

/-- `walkParents` leaves every directory of the walked path in the tree -/
theorem walkParents_creates : ∀ (cs cur : List Bytes) (t t' : FsTree) (res : List Bytes),
    C10.componentsOk cs = true → walkParents cs cur t = some (res, t') →
    ∀ pre, pre ≠ [] → pre <+: cs → cur ++ pre ∈ t'.dirs
  | [], _, _, _, _, _, _, pre, hne, hp => by
    have : pre = [] := List.prefix_nil.mp hp
    exact absurd this hne
  | n :: rest, cur, t, t', res, hok, hw, pre, hne, hp => by
    obtain ⟨hn, hrest⟩ := C10.componentsOk_cons hok
    unfold walkParents at hw
    rw [if_neg (by intro h; rcases h with h | h; exact hn.1 h; exact hn.2.1 h), if_neg hn.2.2] at hw
    simp only [] at hw
    obtain ⟨pre', rfl, hp'⟩ : ∃ pre', pre = n :: pre' ∧ pre' <+: rest := by
      cases pre with
      | nil => exact absurd rfl hne
      | cons a b =>
        obtain ⟨s, hs⟩ := hp
        simp only [List.cons_append, List.cons.injEq] at hs
        exact ⟨b, by rw [hs.1], ⟨s, hs.2⟩⟩
    split at hw
    · cases hw
    · split at hw
      · next hc =>
        by_cases hpe : pre' = []
        · subst hpe
          exact walkParents_mono rest _ t t' res hw _ (List.contains_iff_mem.mp hc)
        · have := walkParents_creates rest (cur ++ [n]) t t' res hrest hw pre' hpe hp'
          simpa using this
      · by_cases hpe : pre' = []
        · subst hpe
          exact walkParents_mono rest _ _ t' res hw _ (by simp)
        · have := walkParents_creates rest (cur ++ [n]) _ t' res hrest hw pre' hpe hp'
          simpa using this

theorem getLastD_concat {α : Type} (l : List α) (a d : α) : (l ++ [a]).getLastD d = a := by
  rw [List.getLastD_eq_getLast?, List.getLast?_append]
  simp

theorem emptyLoc_fsLocator : C10.fsLocator emptyLoc = some ⟨emptyLoc, 0⟩ := by decide +kernel
theorem emptyLoc_no_colon : emptyLoc.contains bColon = false := by decide +kernel
theorem markerTok_colon : markerTok.contains bColon = true := by decide +kernel
theorem markerTok_split : C10.splitN3 bColon markerTok = [[48], [48], [92, 48, 53, 54]] := by decide +kernel
theorem marker_unescape : C10.fsUnescape [92, 48, 53, 54] = [bDot] := by decide +kernel
theorem parse_zero : C10.parseIntBits 64 [48] = some 0 := by decide +kernel

/-- **the marker line through `loadManifest`**: on any tree in which no ancestor-or-self of the
directory is a file, the line loads, creates the directory and its missing ancestors, and leaves every
file (and every other directory) as it was -/
theorem fsLine_marker_core (line nm : Bytes) (path : List Bytes) (t : FsTree)
    (hsplit : splitOn bSpace line = [nm, emptyLoc, markerTok]) (hun : C10.fsUnescape nm = prefixOf path)
    (hok : C10.componentsOk path = true) (hns : ∀ c ∈ path, bSlash ∉ c)
    (hnofile : ∀ pre, pre ≠ [] → pre <+: path → t.files.any (·.1 = pre) = false) :
    ∃ t', C10.fsLine line t = some t' ∧
      t'.files = t.files ∧
      (∀ d ∈ t'.dirs, d ∈ t.dirs ∨ ∃ pre, pre ≠ [] ∧ pre <+: path ∧ d = pre) ∧
      (∀ d ∈ t.dirs, d ∈ t'.dirs) ∧
      (∀ pre, pre ≠ [] → pre <+: path → pre ∈ t'.dirs) := by
  have hpne' : prefixOf path ≠ [] := by
    intro he
    have := congrArg (splitOn bSlash) he
    rw [splitOn_prefixOf path hns] at this
    simp [splitOn] at this
  obtain ⟨t1, hw1, hw2, hw3, hw4⟩ := C10.walkParents_spec path [] t hok (by simpa using hnofile)
  have hcreate := walkParents_creates path [] t t1 ([] ++ path) hok hw1
  -- the path of the marker token: "./a/b/."
  have hmp : splitOn bSlash (prefixOf path ++ bSlash :: [bDot]) = [bDot] :: (path ++ [[bDot]]) := by
    have := pathOf_prefixOf path [bDot]
    unfold C10.pathOf at this
    rw [this]
    apply splitOn_prefixOf
    intro c hc
    rcases List.mem_append.mp hc with hc | hc
    · exact hns c hc
    · simp at hc; subst hc; decide
  have hcfp : C10.createFileAndParents (prefixOf path ++ bSlash :: [bDot]) t = (C10.Created.marker, t1) := by
    unfold C10.createFileAndParents
    simp only [hmp]
    have hlast : ([bDot] :: (path ++ [[bDot]])).getLastD [] = [bDot] := by
      rw [← List.cons_append]; exact getLastD_concat _ _ _
    have hdl : ([bDot] :: (path ++ [[bDot]])).dropLast = [bDot] :: path := by
      rw [← List.cons_append, List.dropLast_concat]
    rw [hlast, hdl]
    have hwalk : walkParents ([bDot] :: path) [] t = some (path, t1) := by
      unfold walkParents
      rw [if_pos (Or.inr rfl)]
      simpa using hw1
    rw [hwalk]
    simp
  refine ⟨t1, ?_, hw2, ?_, hw4, ?_⟩
  · unfold C10.fsLine
    rw [hsplit]
    simp only [hun]
    -- the locator token
    have htok1 : C10.fsToken emptyLoc ⟨prefixOf path, [], false, 0, 0⟩ t =
        some (⟨prefixOf path, [⟨emptyLoc, 0⟩], false, 0, 0⟩, t) := by
      unfold C10.fsToken
      rw [if_pos (by rw [emptyLoc_no_colon]; exact Bool.false_ne_true)]
      simp [emptyLoc_fsLocator]
    -- the marker token
    have htok2 : C10.fsToken markerTok ⟨prefixOf path, [⟨emptyLoc, 0⟩], false, 0, 0⟩ t =
        some (⟨prefixOf path, [⟨emptyLoc, 0⟩], true, 0, 0⟩, t1) := by
      unfold C10.fsToken
      rw [if_neg (by rw [markerTok_colon]; simp), if_neg (by simp), markerTok_split]
      simp only [parse_zero, marker_unescape]
      rw [if_neg (by decide)]
      simp only [hcfp]
      simp
    unfold C10.fsTokens
    rw [htok1]
    simp only []
    unfold C10.fsTokens
    rw [htok2]
    simp only [C10.fsTokens]
    rw [if_neg (by simp [hpne'])]
  · intro d hd
    rcases hw3 d hd with h | ⟨pre, h1, h2, h3⟩
    · exact Or.inl h
    · exact Or.inr ⟨pre, h1, h2, by simpa using h3⟩
  · intro pre hp1 hp2
    simpa using hcreate pre hp1 hp2

/-- the marker line as `marshalManifest` writes it -/
theorem fsLine_marker (path : List Bytes) (hpath : PathOK path) (t : FsTree)
    (hnofile : ∀ pre, pre ≠ [] → pre <+: path → t.files.any (·.1 = pre) = false) :
    ∃ t', C10.fsLine (joinWith bSpace [fsEscape (prefixOf path), emptyLoc, markerTok]) t = some t' ∧
      t'.files = t.files ∧
      (∀ d ∈ t'.dirs, d ∈ t.dirs ∨ ∃ pre, pre ≠ [] ∧ pre <+: path ∧ d = pre) ∧
      (∀ d ∈ t.dirs, d ∈ t'.dirs) ∧
      (∀ pre, pre ≠ [] → pre <+: path → pre ∈ t'.dirs) := by
  obtain ⟨hname, hpne', hpdel, hsp⟩ := prefixOf_spec path hpath
  obtain ⟨_, _, n3, _⟩ := fsEscape_token (prefixOf path) hpne' hpdel
  obtain ⟨_, e2, _⟩ := locator_token _ _ emptyLoc_ok
  obtain ⟨_, m2, _⟩ := markerTok_token
  have hsplit : splitOn bSpace (joinWith bSpace [fsEscape (prefixOf path), emptyLoc, markerTok]) =
      [fsEscape (prefixOf path), emptyLoc, markerTok] :=
    C10.splitOn_joinWith bSpace _ (by simp) (by
      intro x hx
      simp only [List.mem_cons, List.not_mem_nil, or_false] at hx
      rcases hx with rfl | rfl | rfl
      · exact n3
      · exact e2
      · exact m2)
  have hun : C10.fsUnescape (fsEscape (prefixOf path)) = prefixOf path :=
    C10.goUnescape_escapeWith C10.isOctDigit _ (fun _ h => h) (by decide) _
  have hok : C10.componentsOk path = true := by
    unfold C10.componentsOk
    rw [List.all_eq_true]
    intro c hc
    obtain ⟨⟨h1, h2, h3, _⟩, _⟩ := hpath c hc
    simp [h1, h2, h3]
  exact fsLine_marker_core _ _ path t hsplit hun hok (fun c hc => (hpath c hc).1.2.2.2) hnofile

end ArvVerif.C09
