/-
C17 — soundness of the scan as a whole, and its corollary: no planned file is read from (or from
below) the host file of a secret mount.
-/
import ArvVerif.Proofs.C17_Shows
namespace ArvVerif.C17

theorem canon_out (h : Host) (cfg : Cfg) (wf : CfgWF h cfg) : Canon h cfg cfg.ctrOut :=
  ⟨by simp [List.isPrefixOf_iff_prefix], wf.ctrClean, fun k h1 h2 => by omega⟩

/-- everything a successful scan plans is justified by the documented resolution of links -/
theorem scan_sound (h : Host) (cfg : Cfg) (hwf : HostWF h) (wf : CfgWF h cfg)
    (hout : h.get cfg.hostOut = some .dir) (hs : supported cfg = true) (hdirect : Direct h cfg)
    (fuel : Nat) (plan : Plan) (hscan : scan h cfg fuel = .ok plan) : Just h cfg plan := by
  unfold scan at hscan
  refine scan_sound_walk h cfg hwf wf hout hs hdirect fuel _ _ _ hscan ?_ ⟨by simp, by simp⟩
  intro _
  exact ⟨Shows.root, canon_out h cfg wf⟩

/-- no secret mount at or above `s` -/
def NoSecretAt (cfg : Cfg) (s : Path) : Prop := ∀ x ∈ cfg.secrets, x.isPrefixOf s = false

theorem prefix_of_prefix_append_singleton (x s : Path) (c : Name) (hx : x.isPrefixOf (s ++ [c]) = true) :
    x.isPrefixOf s = true ∨ x = s ++ [c] := by
  rw [List.isPrefixOf_iff_prefix] at hx
  by_cases hl : x.length ≤ s.length
  · left
    rw [List.isPrefixOf_iff_prefix]
    exact List.prefix_of_prefix_length_le hx (List.prefix_append s [c]) hl
  · right
    apply List.IsPrefix.eq_of_length_le hx
    simp; omega

theorem prefix_total (a b s : Path) (ha : a.isPrefixOf s = true) (hb : b.isPrefixOf s = true)
    (hl : a.length ≤ b.length) : a.isPrefixOf b = true := by
  rw [List.isPrefixOf_iff_prefix] at *
  exact List.prefix_of_prefix_length_le ha hb hl

theorem inOut_pre (cfg : Cfg) (x : Path) (hx : InOut cfg x) : cfg.ctrOut.isPrefixOf x = true := by
  obtain ⟨_, m, hsm, _, _⟩ := hx
  exact (srcMount_mem cfg x _ hsm).2.1

theorem shows_noSecret (h : Host) (cfg : Cfg) (wf : CfgWF h cfg) (d s : Path) (hsh : Shows h cfg d s) :
    NoSecretAt cfg s := by
  induction hsh with
  | root => exact wf.noSecretAbove
  | child hsh hdir hex hsec hskip ih =>
    intro x hx
    cases hp : x.isPrefixOf _ with
    | false => rfl
    | true =>
      rcases prefix_of_prefix_append_singleton _ _ _ hp with h1 | h1
      · rw [ih x hx] at h1; cases h1
      · rw [h1] at hx; exact absurd hx hsec
  | link hsh hnode hin ih =>
    rename_i d' s' a t
    intro x hx
    cases hp : x.isPrefixOf (linkTarget s' a t) with
    | false => rfl
    | true =>
      exfalso
      have hpre := inOut_pre cfg _ hin
      obtain ⟨hsec, m, hsm, _, _⟩ := hin
      rw [hsm] at hsec
      simp only [rootLen] at hsec
      by_cases hl : cfg.ctrOut.length < x.length
      · unfold underSecret at hsec
        rw [List.any_eq_false] at hsec
        have := hsec x hx
        simp [hl, hp] at this
      · have := prefix_total x cfg.ctrOut _ hp hpre (by omega)
        rw [wf.noSecretAbove x hx] at this; cases this

/-- the host path of (something below) a secret mount inside the output directory -/
def SecretHost (cfg : Cfg) (p : Path) : Prop :=
  ∃ x ∈ cfg.secrets, cfg.ctrOut.isPrefixOf x = true ∧ (hostPath cfg x).isPrefixOf p = true

theorem hostPath_prefix (cfg : Cfg) (x s : Path) (hx : cfg.ctrOut.isPrefixOf x = true)
    (hs : cfg.ctrOut.isPrefixOf s = true) (hp : (hostPath cfg x).isPrefixOf (hostPath cfg s) = true) :
    x.isPrefixOf s = true := by
  unfold hostPath at hp
  rw [List.isPrefixOf_iff_prefix] at hp
  rw [List.prefix_append_right_inj] at hp
  rw [← prefix_append_drop _ _ hx, ← prefix_append_drop _ _ hs, List.isPrefixOf_iff_prefix,
    List.prefix_append_right_inj]
  exact hp

theorem shows_pre (h : Host) (cfg : Cfg) (d s : Path) (hsh : Shows h cfg d s) :
    cfg.ctrOut.isPrefixOf s = true := by
  induction hsh with
  | root => simp [List.isPrefixOf_iff_prefix]
  | child _ _ _ _ _ ih => exact isPrefixOf_append_right _ _ _ ih
  | link _ _ hin _ => exact inOut_pre cfg _ hin

/-- **secrets**: under `Direct`, no file the scan plans to copy is the host file of a secret mount
(or lies below one) -/
theorem scan_no_secret (h : Host) (cfg : Cfg) (hwf : HostWF h) (wf : CfgWF h cfg)
    (hout : h.get cfg.hostOut = some .dir) (hs : supported cfg = true) (hdirect : Direct h cfg)
    (fuel : Nat) (plan : Plan) (hscan : scan h cfg fuel = .ok plan) :
    ∀ f ∈ plan.files, ∀ p, f.2 = some p → ¬ SecretHost cfg p := by
  intro f hf p hp
  have hj := (scan_sound h cfg hwf wf hout hs hdirect fuel plan hscan).files f hf
  unfold FileJust at hj
  rw [hp] at hj
  obtain ⟨s, c, hsh, hps, _⟩ := hj
  intro ⟨x, hx, hxpre, hxp⟩
  have hns := shows_noSecret h cfg wf _ s hsh x hx
  have := hostPath_prefix cfg x s hxpre (shows_pre h cfg _ s hsh) (by rw [← hps]; exact hxp)
  rw [hns] at this; cases this

end ArvVerif.C17
