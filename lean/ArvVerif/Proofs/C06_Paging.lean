/-
C06(a) proofs: the paging invariant (moved from the design-round prototype design/prototypes/Paging.lean
and adapted to the executable model Model/C06.lean).

`Inv P db s`: every collection of `P` (the uuids present throughout the scan) that has not been
passed to the callback lies strictly after the cursor `s.last` in (modified_at, uuid) order,
strengthened per paging mode.  It holds initially, is preserved by any environment step that keeps
`P` present and never moves a `P`-collection's modified_at backwards (`inv_env`), and by every
processed page (`step_cont`); when the loop ends normally it implies that all of `P` was seen
(`step_done`).
-/
import ArvVerif.Model.C06
namespace ArvVerif.C06

theorem klt_trans {a b c : Key} : klt a b → klt b c → klt a c := by
  unfold klt; omega

/-- What the API server guarantees about a page: a sorted prefix of the filtered table. -/
structure PageOf (db : List Coll) (f : Filt) (limit : Nat) (pg : List Coll) : Prop where
  sub : ∀ c ∈ pg, c ∈ db ∧ f.ok c
  sorted : pg.Pairwise (fun a b => klt a.key b.key)
  rest : ∀ c ∈ db, f.ok c → c ∉ pg → pg ≠ [] ∧ ∀ p ∈ pg, klt p.key c.key

/-- Environment between two requests: persistent collections stay, timestamps only move forward. -/
structure Env (P : List Nat) (db db' : List Coll) : Prop where
  stay : ∀ u ∈ P, ∃ c' ∈ db', c'.uuid = u
  mono : ∀ c' ∈ db', c'.uuid ∈ P → ∃ c ∈ db, c.uuid = c'.uuid ∧ c.time ≤ c'.time

def ahead (last : Option Key) (c : Coll) : Prop :=
  match last with
  | none => True
  | some k => klt k c.key

/-- The inductive invariant. -/
structure Inv (P : List Nat) (db : List Coll) (s : St) : Prop where
  unseen : ∀ c ∈ db, c.uuid ∈ P → c.uuid ∉ s.seen → ahead s.last c
  lastSeen : ∀ t u, s.last = some (t, u) → u ∈ s.seen
  mode : match s.filt with
    | .all => s.last = none ∧ s.exact = false
    | .ge t u => s.last = some (t, u) ∧ s.ftime = t ∧ s.exact = false
    | .eq t u => s.last = some (t, u) ∧ s.ftime = t ∧ s.exact = true
    | .gt t => s.ftime = t ∧ s.exact = false ∧ (∀ c ∈ db, c.uuid ∈ P → c.uuid ∉ s.seen → t < c.time) ∧
      (∃ u, s.last = some (t, u))

theorem inv_init (P : List Nat) (db : List Coll) : Inv P db init :=
  ⟨by intro c _ _ _; simp [init, ahead], by intro t u h; simp [init] at h, by simp [init]⟩

theorem inv_env {P db db' s} (h : Inv P db s) (e : Env P db db') : Inv P db' s := by
  refine ⟨?_, h.lastSeen, ?_⟩
  · intro c' hc' hP hns
    obtain ⟨c, hc, hu, ht⟩ := e.mono c' hc' hP
    have := h.unseen c hc (hu ▸ hP) (hu ▸ hns)
    revert this
    unfold ahead
    cases s.last with
    | none => simp
    | some k => simp only [Coll.key, klt]; intro hk; rw [hu] at hk; omega
  · have hm := h.mode
    revert hm
    cases hf : s.filt <;> simp only <;> intro hm
    · exact hm
    · exact hm
    · exact hm
    · refine ⟨hm.1, hm.2.1, ?_, hm.2.2.2⟩
      intro c' hc' hP hns
      obtain ⟨c, hc, hu, ht⟩ := e.mono c' hc' hP
      have := hm.2.2.1 c hc (hu ▸ hP) (hu ▸ hns)
      omega


/-! ### Processing one page -/

theorem processItem_fields (s : St) (c : Coll) :
    (processItem s c).filt = s.filt ∧ (processItem s c).ftime = s.ftime ∧
    (processItem s c).exact = s.exact := by
  unfold processItem; split <;> simp

theorem skip_false_of_ahead {last : Option Key} {c : Coll} (h : ahead last c) (hl : last ≠ none ∨ True) :
    skip last c = false := by
  unfold skip
  cases last with
  | none => rfl
  | some k =>
    obtain ⟨t, u⟩ := k
    simp only [ahead, klt, Coll.key] at h
    simp only [decide_eq_false_iff_not, not_and, Nat.not_le]
    intro ht; omega

theorem fold_props (l : List Coll) (hs : l.Pairwise (fun a b => klt a.key b.key)) (s : St) :
    let s' := l.foldl processItem s
    (s'.filt = s.filt ∧ s'.ftime = s.ftime ∧ s'.exact = s.exact) ∧
    (∀ u ∈ s.seen, u ∈ s'.seen) ∧
    ((∀ t u, s.last = some (t, u) → u ∈ s.seen) → (∀ t u, s'.last = some (t, u) → u ∈ s'.seen)) ∧
    (s'.last = s.last ∨ ∃ p ∈ l, s'.last = some p.key) ∧
    (∀ p ∈ l, ahead s.last p → p.uuid ∈ s'.seen) := by
  induction l generalizing s with
  | nil => simp
  | cons h tl ih =>
    have hs' := List.pairwise_cons.mp hs
    have ih' := ih hs'.2 (processItem s h)
    simp only [List.foldl_cons]
    obtain ⟨f1, f2, f3, f4, f5⟩ := ih'
    have pf := processItem_fields s h
    refine ⟨⟨f1.1.trans pf.1, f1.2.1.trans pf.2.1, f1.2.2.trans pf.2.2⟩, ?_, ?_, ?_, ?_⟩
    · intro u hu
      apply f2
      unfold processItem; split
      · exact hu
      · simp [hu]
    · intro hls
      apply f3
      intro t u hl
      unfold processItem at hl ⊢
      split at hl
      · rename_i hsk; simp only [hsk, if_true]; exact hls t u hl
      · rename_i hsk
        simp only [hsk]
        simp only [Coll.key, Option.some.injEq, Prod.mk.injEq] at hl
        simp [← hl.2]
    · rcases f4 with h4 | ⟨p, hp, h4⟩
      · by_cases hsk : skip s.last h = true
        · left; rw [h4]; unfold processItem; simp [hsk]
        · right; refine ⟨h, by simp, ?_⟩; rw [h4]; unfold processItem; simp [hsk]
      · right; exact ⟨p, by simp [hp], h4⟩
    · intro p hp hap
      rcases List.mem_cons.mp hp with rfl | hptl
      · apply f2
        have : skip s.last p = false := skip_false_of_ahead hap (Or.inr trivial)
        unfold processItem; simp [this]
      · apply f5 p hptl
        by_cases hsk : skip s.last h = true
        · unfold processItem; simp only [hsk, if_true]; exact hap
        · unfold processItem; simp only [hsk]
          exact hs'.1 p hptl

/-! ### One request/response step preserves the invariant; termination implies completeness -/

theorem exact_iff_eq {P db s} (h : Inv P db s) :
    s.exact = true → ∃ t u, s.filt = .eq t u ∧ s.last = some (t, u) ∧ s.ftime = t := by
  have hm := h.mode
  revert hm
  cases hf : s.filt <;> simp only <;> intro hm he
  · simp [hm.2] at he
  · simp [hm.2.2] at he
  · exact ⟨_, _, rfl, hm.1, hm.2.1⟩
  · simp [hm.2.1] at he

/-- An unseen persistent collection matches the current filter, except in `=T` mode where it
may instead lie strictly after every collection the filter can return. -/
theorem ok_or_later {P db s} (h : Inv P db s) {c : Coll} (hc : c ∈ db) (hP : c.uuid ∈ P)
    (hns : c.uuid ∉ s.seen) :
    s.filt.ok c ∨ (s.exact = true ∧ ∀ p, s.filt.ok p → klt p.key c.key) := by
  have ha := h.unseen c hc hP hns
  have hm := h.mode
  revert hm
  cases hf : s.filt with
  | all => intro _; left; trivial
  | ge t u =>
    simp only; intro hm; left
    rw [hm.1] at ha
    simp only [ahead, klt, Coll.key] at ha
    refine ⟨by omega, ?_⟩
    intro hu
    exact hns (hu ▸ h.lastSeen t u hm.1)
  | eq t u =>
    simp only; intro hm
    rw [hm.1] at ha
    simp only [ahead, klt, Coll.key] at ha
    by_cases htc : c.time = t
    · left; exact ⟨htc, by omega⟩
    · right; refine ⟨hm.2.2, ?_⟩
      intro p hp
      simp only [Filt.ok] at hp
      simp only [klt, Coll.key]; omega
  | gt t =>
    simp only; intro hm; left
    exact hm.2.2.1 c hc hP hns

theorem after_page {P db s limit pg} (h : Inv P db s) (hp : PageOf db s.filt limit pg) :
    let s1 := processPage s pg
    (∀ c ∈ db, c.uuid ∈ P → c.uuid ∉ s1.seen → ahead s1.last c) ∧
    (∀ t u, s1.last = some (t, u) → u ∈ s1.seen) ∧
    (s1.filt = s.filt ∧ s1.ftime = s.ftime ∧ s1.exact = s.exact) ∧
    (s1.last = s.last ∨ ∃ p ∈ pg, s1.last = some p.key) := by
  obtain ⟨f1, f2, f3, f4, f5⟩ := fold_props pg hp.sorted s
  refine ⟨?_, f3 h.lastSeen, f1, f4⟩
  intro c hc hP hns1
  have hns : c.uuid ∉ s.seen := fun hin => hns1 (f2 _ hin)
  have ha := h.unseen c hc hP hns
  by_cases hcp : c ∈ pg
  · exact absurd (f5 c hcp ha) hns1
  · have hlater : ∀ p ∈ pg, klt p.key c.key := by
      rcases ok_or_later h hc hP hns with hok | ⟨_, hl⟩
      · exact (hp.rest c hc hok hcp).2
      · intro p hpp; exact hl p (hp.sub p hpp).2
    rcases f4 with h4 | ⟨p, hpp, h4⟩
    · show ahead (processPage s pg).last c
      unfold processPage; rw [h4]; exact ha
    · show ahead (processPage s pg).last c
      unfold processPage; rw [h4]; exact hlater p hpp

theorem adv_cont {P db s limit pg s'} (h : Inv P db s) (hp : PageOf db s.filt limit pg)
    (hn : advance (processPage s pg) pg.isEmpty = .cont s') : Inv P db s' := by
  obtain ⟨a1, a2, a3, a4⟩ := after_page h hp
  unfold advance at hn
  split at hn
  · cases hn
  · split at hn
    · cases hn
    · rename_i lt lu hl
      split at hn
      · cases hn
      · split at hn
        · -- switch to `= T` mode
          rename_i hcond
          cases hn
          refine ⟨a1, a2, ?_⟩
          simp only [Bool.and_eq_true, decide_eq_true_eq] at hcond
          simp only
          exact ⟨by rw [hl, hcond.2], trivial, trivial⟩
        · split at hn
          · -- leave `= T` mode: `> T`
            rename_i hne hex
            cases hn
            refine ⟨a1, a2, ?_⟩
            simp only
            have hex' : s.exact = true := by rw [← a3.2.2]; exact hex
            obtain ⟨t, u, hf, hlast, hft⟩ := exact_iff_eq h hex'
            -- the page must have been empty
            have hpg : pg = [] := by
              apply Classical.byContradiction
              intro hne'
              apply hne
              simp only [Bool.and_eq_true, Bool.not_eq_true', List.isEmpty_eq_false_iff,
                decide_eq_true_eq]
              refine ⟨hne', ?_⟩
              rcases a4 with h4 | ⟨p, hpp, h4⟩
              · rw [h4, hlast] at hl
                simp only [Option.some.injEq, Prod.mk.injEq] at hl
                rw [a3.2.1, hft]; exact hl.1.symm
              · rw [h4] at hl
                simp only [Coll.key, Option.some.injEq, Prod.mk.injEq] at hl
                have := (hp.sub p hpp).2
                rw [hf] at this
                simp only [Filt.ok] at this
                rw [a3.2.1, hft, ← hl.1]; exact this.1
            subst hpg
            refine ⟨trivial, trivial, ?_, ⟨u, by simp only [processPage, List.foldl_nil]; rw [hlast, hft]⟩⟩
            intro c hc hP hns
            simp only [processPage, List.foldl_nil] at hns
            have ha := h.unseen c hc hP hns
            rw [hlast] at ha
            simp only [ahead, klt, Coll.key] at ha
            rw [a3.2.1, hft]
            apply Classical.byContradiction
            intro hle
            have hok : s.filt.ok c := by
              rw [hf]; simp only [Filt.ok]; omega
            exact (hp.rest c hc hok (by simp)).1 rfl
          · -- normal mode: `>= T`, skipping the last uuid
            rename_i hne hex
            cases hn
            refine ⟨a1, a2, ?_⟩
            simp only
            exact ⟨hl, trivial, by simpa using hex⟩

theorem adv_done {P db s limit pg s'} (h : Inv P db s) (hp : PageOf db s.filt limit pg)
    (hpers : ∀ u ∈ P, ∃ c ∈ db, c.uuid = u)
    (hn : advance (processPage s pg) pg.isEmpty = .done s') : ∀ u ∈ P, u ∈ s'.seen := by
  unfold advance at hn
  split at hn
  · rename_i hcond
    cases hn
    simp only [Bool.and_eq_true, List.isEmpty_iff, Bool.not_eq_true'] at hcond
    obtain ⟨hpg, hex⟩ := hcond
    subst hpg
    simp only [processPage, List.foldl_nil] at hex ⊢
    intro u hu
    obtain ⟨c, hc, hcu⟩ := hpers u hu
    apply Classical.byContradiction
    intro hns
    rcases ok_or_later h hc (hcu ▸ hu) (hcu ▸ hns) with hok | ⟨he, _⟩
    · exact (hp.rest c hc hok (by simp)).1 rfl
    · rw [hex] at he; cases he
  · split at hn
    · cases hn
    · split at hn
      · cases hn
      · split at hn
        · cases hn
        · split at hn <;> cases hn

/-! ### `next` = callback-failure test, then `advance` -/

theorem next_cont {cbFail s pg s'} (hn : next cbFail s pg = .cont s') :
    advance (processPage s pg) pg.isEmpty = .cont s' := by
  unfold next at hn
  split at hn
  · simp only at hn
    split at hn
    · cases hn
    · exact hn
  · exact hn

theorem next_done {cbFail s pg s'} (hn : next cbFail s pg = .done s') :
    advance (processPage s pg) pg.isEmpty = .done s' := by
  unfold next at hn
  split at hn
  · simp only at hn
    split at hn
    · cases hn
    · exact hn
  · exact hn

theorem step_cont {P db s limit pg s' cbFail} (h : Inv P db s) (hp : PageOf db s.filt limit pg)
    (hn : next cbFail s pg = .cont s') : Inv P db s' :=
  adv_cont h hp (next_cont hn)

theorem step_done {P db s limit pg s' cbFail} (h : Inv P db s) (hp : PageOf db s.filt limit pg)
    (hpers : ∀ u ∈ P, ∃ c ∈ db, c.uuid = u)
    (hn : next cbFail s pg = .done s') : ∀ u ∈ P, u ∈ s'.seen :=
  adv_done h hp hpers (next_done hn)

theorem inv_pushLog {P db s} (h : Inv P db s) (e : Ev) : Inv P db (pushLog s e) :=
  ⟨h.unseen, h.lastSeen, h.mode⟩

/-! ### Whole scans: any number of requests, arbitrary environment in between -/

/-- `Reach P db s`: scanner state `s` together with table `db` is reachable from a fresh scan,
with arbitrary environment activity (respecting persistence of `P`) between requests, arbitrary
page sizes (any `limit`, possibly different per request) and any callback-failure script. -/
inductive Reach (P : List Nat) : List Coll → St → Prop
  | start (db) : (∀ u ∈ P, ∃ c ∈ db, c.uuid = u) → Reach P db init
  | env {db db' s} : Reach P db s → Env P db db' → Reach P db' s
  | log {db s} (e : Ev) : Reach P db s → Reach P db (pushLog s e)
  | page {db s limit pg s' cbFail} : Reach P db s → PageOf db s.filt limit pg →
      next cbFail s pg = .cont s' → Reach P db s'

theorem reach_inv {P db s} (r : Reach P db s) :
    Inv P db s ∧ (∀ u ∈ P, ∃ c ∈ db, c.uuid = u) := by
  induction r with
  | start db h => exact ⟨inv_init P db, h⟩
  | env _ e ih => exact ⟨inv_env ih.1 e, e.stay⟩
  | log e _ ih => exact ⟨inv_pushLog ih.1 e, ih.2⟩
  | page _ hp hn ih => exact ⟨step_cont ih.1 hp hn, ih.2⟩

/-- If the scan ends normally, every collection that existed throughout the scan was handed to the
callback at least once — for every population, page size, tie multiplicity and environment
schedule, and for any server whose answers satisfy `PageOf`. -/
theorem paging_complete {P db s limit pg s' cbFail} (r : Reach P db s)
    (hp : PageOf db s.filt limit pg) (hn : next cbFail s pg = .done s') :
    ∀ u ∈ P, u ∈ s'.seen :=
  step_done (reach_inv r).1 hp (reach_inv r).2 hn

end ArvVerif.C06
