/-
C20 helper lemmas, part 3: the planning step (`plan`) and the whole request (`run`).
-/
import ArvVerif.Proofs.C20_Loop
namespace ArvVerif.C20

/-- What a `split` plan says about the request. -/
theorem plan_split (localId : ClusterId) (maxItems : Int) (o : Opts) (gs : List (ClusterId × List Uuid))
    (h : plan localId maxItems o = .split gs) :
    ∃ m, scanFilters o.filters ⟨false, none⟩ = some ⟨false, some m⟩ ∧
      gs = groups (m.filter wellFormed) ∧
      o.bypass = false ∧ o.fwd = [] ∧ o.count = sNone ∧ o.limit < 0 ∧ o.offset = 0 ∧ o.order = [] ∧
      ((m.filter wellFormed).length : Int) ≤ maxItems ∧ gs ≠ [] ∧
      ¬ (gs.length = 1 ∧ localId ∈ gs.map (·.1)) := by
  unfold plan at h
  split at h
  · cases h
  · rename_i hbf
    split at h
    · cases h
    · cases h
    · rename_i cs m hscan
      simp only at h
      split at h
      · cases h
      · rename_i hne
        split at h
        · cases h
        · rename_i hloc
          split at h
          · cases h
          · rename_i hcs
            split at h
            · cases h
            · rename_i hcount
              split at h
              · cases h
              · rename_i hlim
                split at h
                · cases h
                · rename_i hmax
                  cases h
                  have hcs' : cs = false := by cases cs <;> simp_all
                  subst hcs'
                  refine ⟨m, hscan, rfl, ?_, ?_, ?_, ?_, ?_, ?_, ?_, hne, hloc⟩
                  · cases hb : o.bypass <;> simp_all
                  · apply Classical.byContradiction; intro hf; exact hbf (Or.inr hf)
                  · apply Classical.byContradiction; intro hc; exact hcount hc
                  · apply Classical.byContradiction; intro hl; exact hlim (Or.inl (by omega))
                  · apply Classical.byContradiction; intro hl; exact hlim (Or.inr (Or.inl hl))
                  · apply Classical.byContradiction; intro hl; exact hlim (Or.inr (Or.inr hl))
                  · omega

/-- The rejection rules, in the order of the code. -/
theorem plan_reject (localId : ClusterId) (maxItems : Int) (o : Opts) (cs : Bool) (m : List Uuid)
    (hb : o.bypass = false) (hf : o.fwd = [])
    (hscan : scanFilters o.filters ⟨false, none⟩ = some ⟨cs, some m⟩)
    (hne : groups (m.filter wellFormed) ≠ [])
    (hfed : ¬ ((groups (m.filter wellFormed)).length = 1 ∧ localId ∈ (groups (m.filter wellFormed)).map (·.1)))
    (hbad : cs = true ∨ o.count ≠ sNone ∨ o.limit ≥ 0 ∨ o.offset ≠ 0 ∨ o.order ≠ [] ∨
      ((m.filter wellFormed).length : Int) > maxItems) :
    plan localId maxItems o = .reject 400 := by
  unfold plan
  have h1 : ¬ (o.bypass = true ∨ o.fwd ≠ []) := by simp [hb, hf]
  simp only [h1, if_false, hscan, hne, hfed]
  by_cases c1 : cs = true
  · simp [c1]
  · simp only [c1]
    by_cases c2 : o.count ≠ sNone
    · simp [c2]
    · simp only [c2, if_false]
      by_cases c3 : o.limit ≥ 0 ∨ o.offset ≠ 0 ∨ o.order ≠ []
      · simp [c3]
      · simp only [c3, if_false]
        have c4 : ((m.filter wellFormed).length : Int) > maxItems := by
          rcases hbad with h | h | h | h | h | h
          · exact absurd h c1
          · exact absurd h c2
          · exact absurd (Or.inl h) c3
          · exact absurd (Or.inr (Or.inl h)) c3
          · exact absurd (Or.inr (Or.inr h)) c3
          · exact h
        simp [c4]

theorem run_of_split (cfg : Cfg) (o : Opts) (gs : List (ClusterId × List Uuid))
    (h : plan cfg.localId cfg.maxItems o = .split gs) :
    run cfg o =
      if (splitResults cfg o gs).filterMap (fun r => r.2.stop.status?) = [] then
        ⟨.ok (mergePages ((splitResults cfg o gs).flatMap (fun r => r.2.pages))),
          (splitResults cfg o gs).map (fun r => (r.1, r.2.log))⟩
      else ⟨.err ((splitResults cfg o gs).filterMap (fun r => r.2.stop.status?)),
          (splitResults cfg o gs).map (fun r => (r.1, r.2.log))⟩ := by
  unfold run; rw [h]

theorem run_of_reject (cfg : Cfg) (o : Opts) (s : Nat)
    (h : plan cfg.localId cfg.maxItems o = .reject s) : run cfg o = ⟨.err [s], []⟩ := by
  unfold run; rw [h]

/-- the per-cluster loop of `runCluster` never starves -/
theorem runCluster_not_starved (cfg : Cfg) (o : Opts) (c : ClusterId) (todo : List Uuid) :
    (runCluster cfg o c todo).stop ≠ .starved ∧ (runCluster cfg o c todo).log.length ≤ todo.length := by
  unfold runCluster
  cases backendFor cfg c with
  | none => simp
  | some B =>
    have := loop_terminates B (remoteOpts cfg.localId o) todo.length todo 0 (Nat.le_refl _)
    exact ⟨this.1, this.2.1⟩

theorem runCluster_failed (cfg : Cfg) (o : Opts) (c : ClusterId) (todo : List Uuid) (s : Nat)
    (h : (runCluster cfg o c todo).stop = .failed s) : s = 404 ∨ s = 502 := by
  unfold runCluster at h
  cases hb : backendFor cfg c with
  | none => rw [hb] at h; simp at h; exact Or.inl h.symm
  | some B =>
    rw [hb] at h
    exact Or.inr ((loop_log B (remoteOpts cfg.localId o) todo.length todo 0).2.2.1 s h)

@[simp] theorem status_done : Stop.status? .done = none := rfl
@[simp] theorem status_failed (s : Nat) : Stop.status? (.failed s) = some s := rfl
@[simp] theorem status_starved : Stop.status? .starved = some 0 := rfl

/-- statuses collected from the clusters: empty iff every cluster ended normally -/
theorem errs_nil_iff (rs : List (ClusterId × CRes)) :
    rs.filterMap (fun r => r.2.stop.status?) = [] ↔ ∀ r ∈ rs, r.2.stop = .done := by
  induction rs with
  | nil => simp
  | cons r rs ih =>
    cases hs : r.2.stop with
    | done => simp only [List.filterMap_cons, hs, status_done, List.mem_cons, forall_eq_or_imp, ih, true_and]
    | failed s => simp [hs]
    | starved => simp [hs]

theorem mem_errs (rs : List (ClusterId × CRes)) (s : Nat)
    (h : s ∈ rs.filterMap (fun r => r.2.stop.status?)) :
    ∃ r ∈ rs, r.2.stop = .failed s ∨ (r.2.stop = .starved ∧ s = 0) := by
  simp only [List.mem_filterMap] at h
  obtain ⟨r, hr, hs⟩ := h
  refine ⟨r, hr, ?_⟩
  cases hst : r.2.stop with
  | done => rw [hst] at hs; simp at hs
  | failed s' => rw [hst] at hs; simp at hs; left; rw [hs]
  | starved => rw [hst] at hs; simp at hs; right; exact ⟨rfl, hs.symm⟩

/-- Combining the clusters: if every cluster's delivered uuids are pairwise distinct and are exactly
the uuids of its group that satisfy `S`, then over all clusters the delivered uuids are pairwise
distinct and are exactly the grouped uuids satisfying `S`. `gs` is any list of groups with distinct
cluster ids whose uuids are homed at the group's cluster. -/
theorem split_combine (cfg : Cfg) (o : Opts) (S : ClusterId → Uuid → Prop)
    (gs : List (ClusterId × List Uuid))
    (hkeys : (gs.map (·.1)).Nodup)
    (hhome : ∀ g ∈ gs, ∀ u ∈ g.2, home u = g.1)
    (hper : ∀ g ∈ gs, (pageUuids (runCluster cfg o g.1 g.2).pages.flatten).Nodup ∧
      ∀ u, u ∈ pageUuids (runCluster cfg o g.1 g.2).pages.flatten ↔ (u ∈ g.2 ∧ S g.1 u)) :
    (pageUuids ((splitResults cfg o gs).flatMap (fun r => r.2.pages)).flatten).Nodup ∧
    ∀ u, u ∈ pageUuids ((splitResults cfg o gs).flatMap (fun r => r.2.pages)).flatten ↔
      ∃ g ∈ gs, u ∈ g.2 ∧ S g.1 u := by
  induction gs with
  | nil => simp [splitResults, pageUuids]
  | cons g gs ih =>
    have hk : g.1 ∉ gs.map (·.1) ∧ (gs.map (·.1)).Nodup := by
      rw [List.map_cons] at hkeys; exact List.nodup_cons.mp hkeys
    obtain ⟨ih2, ih3⟩ := ih hk.2 (fun g' hg' => hhome g' (List.mem_cons_of_mem _ hg'))
      (fun g' hg' => hper g' (List.mem_cons_of_mem _ hg'))
    obtain ⟨l2, l3⟩ := hper g List.mem_cons_self
    have hh := hhome g List.mem_cons_self
    have hsr : splitResults cfg o (g :: gs) = (g.1, runCluster cfg o g.1 g.2) :: splitResults cfg o gs := rfl
    rw [hsr]
    simp only [List.flatMap_cons, List.flatten_append, pageUuids_append]
    refine ⟨?_, ?_⟩
    · rw [List.nodup_append]
      refine ⟨l2, ih2, ?_⟩
      intro a ha b hb hab
      subst hab
      have h1 := (l3 a).mp ha
      obtain ⟨g', hg', hu', _⟩ := (ih3 a).mp hb
      have e1 := hh a h1.1
      have e2 := hhome g' (List.mem_cons_of_mem _ hg') a hu'
      apply hk.1
      rw [← e1, e2]
      exact List.mem_map.mpr ⟨g', hg', rfl⟩
    · intro u
      rw [List.mem_append, l3, ih3]
      constructor
      · rintro (⟨h1, h2⟩ | ⟨g', hg', h1, h2⟩)
        · exact ⟨g, List.mem_cons_self, h1, h2⟩
        · exact ⟨g', List.mem_cons_of_mem _ hg', h1, h2⟩
      · rintro ⟨g', hg', h1, h2⟩
        rcases List.mem_cons.mp hg' with rfl | hg'
        · exact Or.inl ⟨h1, h2⟩
        · exact Or.inr ⟨g', hg', h1, h2⟩

/-- what one cluster delivers when its loop ends normally, for **any** backend -/
theorem runCluster_safe (cfg : Cfg) (o : Opts) (c : ClusterId) (todo : List Uuid)
    (hd : (runCluster cfg o c todo).stop = .done) :
    (∃ B, backendFor cfg c = some B) ∧
    (pageUuids (runCluster cfg o c todo).pages.flatten).Nodup ∧
    ∀ u ∈ pageUuids (runCluster cfg o c todo).pages.flatten, u ∈ todo := by
  unfold runCluster at hd ⊢
  cases hb : backendFor cfg c with
  | none => rw [hb] at hd; simp at hd
  | some B =>
    rw [hb] at hd
    exact ⟨⟨B, rfl⟩, loop_safe B _ _ _ _ hd⟩

/-- Safety over all clusters for **arbitrary** backends: if every loop ended normally, the delivered
uuids are pairwise distinct and each one belongs to the group of its home cluster. -/
theorem split_safe_all (cfg : Cfg) (o : Opts) (gs : List (ClusterId × List Uuid))
    (hkeys : (gs.map (·.1)).Nodup)
    (hhome : ∀ g ∈ gs, ∀ u ∈ g.2, home u = g.1)
    (hdone : ∀ g ∈ gs, (runCluster cfg o g.1 g.2).stop = .done) :
    (pageUuids ((splitResults cfg o gs).flatMap (fun r => r.2.pages)).flatten).Nodup ∧
    ∀ u ∈ pageUuids ((splitResults cfg o gs).flatMap (fun r => r.2.pages)).flatten, ∃ g ∈ gs, u ∈ g.2 := by
  have h := split_combine cfg o
    (fun c u => ∃ g ∈ gs, g.1 = c ∧ u ∈ pageUuids (runCluster cfg o g.1 g.2).pages.flatten) gs hkeys hhome (by
      intro g hg
      obtain ⟨_, h1, h2⟩ := runCluster_safe cfg o g.1 g.2 (hdone g hg)
      refine ⟨h1, fun u => ⟨fun hu => ⟨h2 u hu, g, hg, rfl, hu⟩, ?_⟩⟩
      rintro ⟨hu, g', hg', he, hu'⟩
      -- same key ⇒ same uuids requested, and u is homed there
      have hsame : g' = g := by
        -- distinct keys: two members with the same key are equal
        have : ∀ (l : List (ClusterId × List Uuid)), (l.map (·.1)).Nodup → g ∈ l → g' ∈ l → g'.1 = g.1 → g' = g := by
          intro l
          induction l with
          | nil => intro _ h; cases h
          | cons a l ihl =>
            intro hn h1 h2 he
            rw [List.map_cons] at hn
            obtain ⟨hna, hn'⟩ := List.nodup_cons.mp hn
            rcases List.mem_cons.mp h1 with e1 | h1' <;> rcases List.mem_cons.mp h2 with e2 | h2'
            · rw [e1, e2]
            · exact (hna (by rw [← e1, ← he]; exact List.mem_map.mpr ⟨g', h2', rfl⟩)).elim
            · exact (hna (by rw [← e2, he]; exact List.mem_map.mpr ⟨g, h1', rfl⟩)).elim
            · exact ihl hn' h1' h2' he
        exact this gs hkeys hg hg' he
      subst hsame
      exact hu')
  exact ⟨h.1, fun u hu => by obtain ⟨g, hg, hu', _⟩ := (h.2 u).mp hu; exact ⟨g, hg, hu'⟩⟩

/-- Repeating-honest backends on all clusters and every loop ended normally ⇒ over all clusters
each existing requested uuid is delivered exactly once and nothing else is. -/
theorem split_repeating_all (cfg : Cfg) (o : Opts) (ex : ClusterId → Uuid → Bool)
    (gs : List (ClusterId × List Uuid))
    (hkeys : (gs.map (·.1)).Nodup)
    (hhome : ∀ g ∈ gs, ∀ u ∈ g.2, home u = g.1)
    (hB : ∀ g ∈ gs, ∃ B, backendFor cfg g.1 = some B ∧ RepeatingHonest (ex g.1) B)
    (hdone : ∀ g ∈ gs, (runCluster cfg o g.1 g.2).stop = .done) :
    (pageUuids ((splitResults cfg o gs).flatMap (fun r => r.2.pages)).flatten).Nodup ∧
    ∀ u, u ∈ pageUuids ((splitResults cfg o gs).flatMap (fun r => r.2.pages)).flatten ↔
      ∃ g ∈ gs, u ∈ g.2 ∧ ex g.1 u = true := by
  apply split_combine cfg o (fun c u => ex c u = true) gs hkeys hhome
  intro g hg
  obtain ⟨B, hbf, hrep⟩ := hB g hg
  have hd := hdone g hg
  obtain ⟨_, s1, s2⟩ := runCluster_safe cfg o g.1 g.2 hd
  refine ⟨s1, fun u => ?_⟩
  unfold runCluster at hd s2 ⊢
  rw [hbf] at hd s2 ⊢
  obtain ⟨c1, c2⟩ := loop_complete (ex g.1) B hrep _ _ _ _ hd
  exact ⟨fun hu => ⟨s2 u hu, c2 u hu⟩, fun ⟨h1, h2⟩ => c1 u h1 h2⟩

/-- honest backends: every loop ends normally -/
theorem split_honest_done (cfg : Cfg) (o : Opts) (ex : ClusterId → Uuid → Bool)
    (gs : List (ClusterId × List Uuid))
    (hnd : ∀ g ∈ gs, g.2.Nodup)
    (hB : ∀ g ∈ gs, ∃ B, backendFor cfg g.1 = some B ∧ Honest (ex g.1) B) :
    ∀ g ∈ gs, (runCluster cfg o g.1 g.2).stop = .done := by
  intro g hg
  obtain ⟨B, hbf, hhon⟩ := hB g hg
  unfold runCluster; rw [hbf]
  exact (loop_honest (ex g.1) B hhon _ g.2.length g.2 0 (hnd g hg) (Nat.le_refl _)).1

theorem done_of_results (cfg : Cfg) (o : Opts) (gs : List (ClusterId × List Uuid))
    (h : ∀ r ∈ splitResults cfg o gs, r.2.stop = .done) :
    ∀ g ∈ gs, (runCluster cfg o g.1 g.2).stop = .done :=
  fun g hg => h (g.1, runCluster cfg o g.1 g.2) (List.mem_map.mpr ⟨g, hg, rfl⟩)

theorem results_of_done (cfg : Cfg) (o : Opts) (gs : List (ClusterId × List Uuid))
    (h : ∀ g ∈ gs, (runCluster cfg o g.1 g.2).stop = .done) :
    ∀ r ∈ splitResults cfg o gs, r.2.stop = .done := by
  intro r hr
  obtain ⟨g, hg, rfl⟩ := List.mem_map.mp hr
  exact h g hg

/-- the groups of a duplicate-free uuid list satisfy the side conditions of `split_honest_all` -/
theorem groups_wf (us : List Uuid) (hnd : us.Nodup) :
    ((groups us).map (·.1)).Nodup ∧ ∀ g ∈ groups us, g.2.Nodup ∧ ∀ u ∈ g.2, home u = g.1 := by
  refine ⟨by rw [groups_fst]; exact nodup_clusterIds us, ?_⟩
  intro g hg
  obtain ⟨_, h2⟩ := (mem_groups us g).mp hg
  rw [h2]
  refine ⟨hnd.filter _, ?_⟩
  intro u hu
  simpa using (List.mem_filter.mp hu).2

theorem mem_some_group (us : List Uuid) (ex : ClusterId → Uuid → Bool) (u : Uuid) :
    (∃ g ∈ groups us, u ∈ g.2 ∧ ex g.1 u = true) ↔ (u ∈ us ∧ ex (home u) u = true) := by
  constructor
  · rintro ⟨g, hg, hu, he⟩
    obtain ⟨_, h2⟩ := (mem_groups us g).mp hg
    rw [h2] at hu
    obtain ⟨hu1, hu2⟩ := List.mem_filter.mp hu
    simp only [decide_eq_true_eq] at hu2
    rw [hu2]; exact ⟨hu1, he⟩
  · rintro ⟨hu, he⟩
    refine ⟨(home u, us.filter (fun v => decide (home v = home u))), ?_, ?_, he⟩
    · exact (mem_groups us _).mpr ⟨(mem_clusterIds us _).mpr ⟨u, hu, rfl⟩, rfl⟩
    · exact List.mem_filter.mpr ⟨hu, by simp⟩

/-- total log of a split run = the per-cluster logs -/
def runLogItems (r : Run) : List Obj := r.log.flatMap (fun e => logItems e.2)

theorem split_pages_log (cfg : Cfg) (o : Opts) (gs : List (ClusterId × List Uuid)) :
    ((splitResults cfg o gs).flatMap (fun r => r.2.pages)).flatten =
      ((splitResults cfg o gs).map (fun r => (r.1, r.2.log))).flatMap (fun e => logItems e.2) := by
  induction gs with
  | nil => rfl
  | cons g gs ih =>
    have hsr : splitResults cfg o (g :: gs) = (g.1, runCluster cfg o g.1 g.2) :: splitResults cfg o gs := rfl
    rw [hsr]
    simp only [List.flatMap_cons, List.flatten_append, List.map_cons]
    rw [ih]
    congr 1
    unfold runCluster
    cases backendFor cfg g.1 with
    | none => simp [logItems]
    | some B => exact (loop_log B (remoteOpts cfg.localId o) g.2.length g.2 0).2.1

end ArvVerif.C20
