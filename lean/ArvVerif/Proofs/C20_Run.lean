/-
C20 helper lemmas, part 3: the planning step (`plan`) and the whole request (`run`).
-/
import ArvVerif.Proofs.C20_Loop
namespace ArvVerif.C20

/-- What a `split` plan says about the request. -/
theorem plan_split (localId : ClusterId) (maxItems : Int) (o : Opts) (gs : List (ClusterId × List Uuid))
    (h : plan localId maxItems o = .split gs) :
    ∃ m, scanFilters o.filters ⟨false, none⟩ = some ⟨false, some m⟩ ∧
      gs = groups (m.filter wellFormed) ∧
      o.bypass = false ∧ o.fwd = [] ∧ o.count = sNone ∧ o.limit < 0 ∧ o.offset = 0 ∧ o.order = [] ∧
      ((m.filter wellFormed).length : Int) ≤ maxItems ∧ gs ≠ [] ∧
      ¬ (gs.length = 1 ∧ localId ∈ gs.map (·.1)) := by
  unfold plan at h
  split at h
  · cases h
  · rename_i hbf
    split at h
    · cases h
    · cases h
    · rename_i cs m hscan
      simp only at h
      split at h
      · cases h
      · rename_i hne
        split at h
        · cases h
        · rename_i hloc
          split at h
          · cases h
          · rename_i hcs
            split at h
            · cases h
            · rename_i hcount
              split at h
              · cases h
              · rename_i hlim
                split at h
                · cases h
                · rename_i hmax
                  cases h
                  have hcs' : cs = false := by cases cs <;> simp_all
                  subst hcs'
                  refine ⟨m, hscan, rfl, ?_, ?_, ?_, ?_, ?_, ?_, ?_, hne, hloc⟩
                  · cases hb : o.bypass <;> simp_all
                  · apply Classical.byContradiction; intro hf; exact hbf (Or.inr hf)
                  · apply Classical.byContradiction; intro hc; exact hcount hc
                  · apply Classical.byContradiction; intro hl; exact hlim (Or.inl (by omega))
                  · apply Classical.byContradiction; intro hl; exact hlim (Or.inr (Or.inl hl))
                  · apply Classical.byContradiction; intro hl; exact hlim (Or.inr (Or.inr hl))
                  · omega

/-- The rejection rules, in the order of the code. -/
theorem plan_reject (localId : ClusterId) (maxItems : Int) (o : Opts) (cs : Bool) (m : List Uuid)
    (hb : o.bypass = false) (hf : o.fwd = [])
    (hscan : scanFilters o.filters ⟨false, none⟩ = some ⟨cs, some m⟩)
    (hne : groups (m.filter wellFormed) ≠ [])
    (hfed : ¬ ((groups (m.filter wellFormed)).length = 1 ∧ localId ∈ (groups (m.filter wellFormed)).map (·.1)))
    (hbad : cs = true ∨ o.count ≠ sNone ∨ o.limit ≥ 0 ∨ o.offset ≠ 0 ∨ o.order ≠ [] ∨
      ((m.filter wellFormed).length : Int) > maxItems) :
    plan localId maxItems o = .reject 400 := by
  unfold plan
  have h1 : ¬ (o.bypass = true ∨ o.fwd ≠ []) := by simp [hb, hf]
  simp only [h1, if_false, hscan, hne, hfed]
  by_cases c1 : cs = true
  · simp [c1]
  · simp only [c1]
    by_cases c2 : o.count ≠ sNone
    · simp [c2]
    · simp only [c2, if_false]
      by_cases c3 : o.limit ≥ 0 ∨ o.offset ≠ 0 ∨ o.order ≠ []
      · simp [c3]
      · simp only [c3, if_false]
        have c4 : ((m.filter wellFormed).length : Int) > maxItems := by
          rcases hbad with h | h | h | h | h | h
          · exact absurd h c1
          · exact absurd h c2
          · exact absurd (Or.inl h) c3
          · exact absurd (Or.inr (Or.inl h)) c3
          · exact absurd (Or.inr (Or.inr h)) c3
          · exact h
        simp [c4]

theorem run_of_split (cfg : Cfg) (o : Opts) (gs : List (ClusterId × List Uuid))
    (h : plan cfg.localId cfg.maxItems o = .split gs) :
    run cfg o =
      if (splitResults cfg o gs).filterMap (fun r => r.2.stop.status?) = [] then
        ⟨.ok (mergePages ((splitResults cfg o gs).flatMap (fun r => r.2.pages))),
          (splitResults cfg o gs).map (fun r => (r.1, r.2.log))⟩
      else ⟨.err ((splitResults cfg o gs).filterMap (fun r => r.2.stop.status?)),
          (splitResults cfg o gs).map (fun r => (r.1, r.2.log))⟩ := by
  unfold run; rw [h]

theorem run_of_reject (cfg : Cfg) (o : Opts) (s : Nat)
    (h : plan cfg.localId cfg.maxItems o = .reject s) : run cfg o = ⟨.err [s], []⟩ := by
  unfold run; rw [h]

/-- the per-cluster loop of `runCluster` never starves -/
theorem runCluster_not_starved (cfg : Cfg) (o : Opts) (c : ClusterId) (todo : List Uuid) :
    (runCluster cfg o c todo).stop ≠ .starved ∧ (runCluster cfg o c todo).log.length ≤ todo.length := by
  unfold runCluster
  cases backendFor cfg c with
  | none => simp
  | some B =>
    have := loop_terminates B (remoteOpts cfg.localId o) todo.length todo 0 (Nat.le_refl _)
    exact ⟨this.1, this.2.1⟩

theorem runCluster_failed (cfg : Cfg) (o : Opts) (c : ClusterId) (todo : List Uuid) (s : Nat)
    (h : (runCluster cfg o c todo).stop = .failed s) : s = 404 ∨ s = 502 := by
  unfold runCluster at h
  cases hb : backendFor cfg c with
  | none => rw [hb] at h; simp at h; exact Or.inl h.symm
  | some B =>
    rw [hb] at h
    exact Or.inr ((loop_log B (remoteOpts cfg.localId o) todo.length todo 0).2.2.1 s h)

@[simp] theorem status_done : Stop.status? .done = none := rfl
@[simp] theorem status_failed (s : Nat) : Stop.status? (.failed s) = some s := rfl
@[simp] theorem status_starved : Stop.status? .starved = some 0 := rfl

/-- statuses collected from the clusters: empty iff every cluster ended normally -/
theorem errs_nil_iff (rs : List (ClusterId × CRes)) :
    rs.filterMap (fun r => r.2.stop.status?) = [] ↔ ∀ r ∈ rs, r.2.stop = .done := by
  induction rs with
  | nil => simp
  | cons r rs ih =>
    cases hs : r.2.stop with
    | done => simp only [List.filterMap_cons, hs, status_done, List.mem_cons, forall_eq_or_imp, ih, true_and]
    | failed s => simp [hs]
    | starved => simp [hs]

theorem mem_errs (rs : List (ClusterId × CRes)) (s : Nat)
    (h : s ∈ rs.filterMap (fun r => r.2.stop.status?)) :
    ∃ r ∈ rs, r.2.stop = .failed s ∨ (r.2.stop = .starved ∧ s = 0) := by
  simp only [List.mem_filterMap] at h
  obtain ⟨r, hr, hs⟩ := h
  refine ⟨r, hr, ?_⟩
  cases hst : r.2.stop with
  | done => rw [hst] at hs; simp at hs
  | failed s' => rw [hst] at hs; simp at hs; left; rw [hs]
  | starved => rw [hst] at hs; simp at hs; right; exact ⟨rfl, hs.symm⟩

/-- All clusters honest ⇒ every loop ends normally and, over all clusters, each existing requested
uuid is delivered exactly once. `gs` is any list of groups with distinct cluster ids whose uuids
are duplicate-free and homed at the group's cluster. -/
theorem split_honest_all (cfg : Cfg) (o : Opts) (ex : ClusterId → Uuid → Bool)
    (gs : List (ClusterId × List Uuid))
    (hkeys : (gs.map (·.1)).Nodup)
    (hgs : ∀ g ∈ gs, g.2.Nodup ∧ ∀ u ∈ g.2, home u = g.1)
    (hB : ∀ g ∈ gs, ∃ B, backendFor cfg g.1 = some B ∧ Honest (ex g.1) B) :
    (∀ r ∈ splitResults cfg o gs, r.2.stop = .done) ∧
    (pageUuids ((splitResults cfg o gs).flatMap (fun r => r.2.pages)).flatten).Nodup ∧
    ∀ u, u ∈ pageUuids ((splitResults cfg o gs).flatMap (fun r => r.2.pages)).flatten ↔
      ∃ g ∈ gs, u ∈ g.2 ∧ ex g.1 u = true := by
  induction gs with
  | nil => simp [splitResults, pageUuids]
  | cons g gs ih =>
    have hk : g.1 ∉ gs.map (·.1) ∧ (gs.map (·.1)).Nodup := by
      rw [List.map_cons] at hkeys; exact List.nodup_cons.mp hkeys
    obtain ⟨ih1, ih2, ih3⟩ := ih hk.2 (fun g' hg' => hgs g' (List.mem_cons_of_mem _ hg'))
      (fun g' hg' => hB g' (List.mem_cons_of_mem _ hg'))
    obtain ⟨B, hbf, hhon⟩ := hB g List.mem_cons_self
    obtain ⟨hnd, hhome⟩ := hgs g List.mem_cons_self
    have hrc : runCluster cfg o g.1 g.2 = clusterLoop B (remoteOpts cfg.localId o) g.2.length g.2 0 := by
      unfold runCluster; rw [hbf]
    obtain ⟨l1, l2, l3⟩ := loop_honest (ex g.1) B hhon (remoteOpts cfg.localId o) g.2.length g.2 0 hnd (Nat.le_refl _)
    rw [← hrc] at l1 l2 l3
    have hsr : splitResults cfg o (g :: gs) = (g.1, runCluster cfg o g.1 g.2) :: splitResults cfg o gs := rfl
    rw [hsr]
    simp only [List.mem_cons, forall_eq_or_imp, List.flatMap_cons, List.flatten_append, pageUuids_append]
    refine ⟨⟨l1, ih1⟩, ?_, ?_⟩
    · rw [List.nodup_append]
      refine ⟨l2, ih2, ?_⟩
      intro a ha b hb hab
      subst hab
      have h1 := (l3 a).mp ha
      obtain ⟨g', hg', hu', _⟩ := (ih3 a).mp hb
      have e1 := hhome a h1.1
      have e2 := (hgs g' (List.mem_cons_of_mem _ hg')).2 a hu'
      apply hk.1
      rw [← e1, e2]
      exact List.mem_map.mpr ⟨g', hg', rfl⟩
    · intro u
      rw [List.mem_append, l3, ih3]
      constructor
      · rintro (⟨h1, h2⟩ | ⟨g', hg', h1, h2⟩)
        · exact ⟨g, Or.inl rfl, h1, h2⟩
        · exact ⟨g', Or.inr hg', h1, h2⟩
      · rintro ⟨g', rfl | hg', h1, h2⟩
        · exact Or.inl ⟨h1, h2⟩
        · exact Or.inr ⟨g', hg', h1, h2⟩

/-- the groups of a duplicate-free uuid list satisfy the side conditions of `split_honest_all` -/
theorem groups_wf (us : List Uuid) (hnd : us.Nodup) :
    ((groups us).map (·.1)).Nodup ∧ ∀ g ∈ groups us, g.2.Nodup ∧ ∀ u ∈ g.2, home u = g.1 := by
  refine ⟨by rw [groups_fst]; exact nodup_clusterIds us, ?_⟩
  intro g hg
  obtain ⟨_, h2⟩ := (mem_groups us g).mp hg
  rw [h2]
  refine ⟨hnd.filter _, ?_⟩
  intro u hu
  simpa using (List.mem_filter.mp hu).2

theorem mem_some_group (us : List Uuid) (ex : ClusterId → Uuid → Bool) (u : Uuid) :
    (∃ g ∈ groups us, u ∈ g.2 ∧ ex g.1 u = true) ↔ (u ∈ us ∧ ex (home u) u = true) := by
  constructor
  · rintro ⟨g, hg, hu, he⟩
    obtain ⟨_, h2⟩ := (mem_groups us g).mp hg
    rw [h2] at hu
    obtain ⟨hu1, hu2⟩ := List.mem_filter.mp hu
    simp only [decide_eq_true_eq] at hu2
    rw [hu2]; exact ⟨hu1, he⟩
  · rintro ⟨hu, he⟩
    refine ⟨(home u, us.filter (fun v => decide (home v = home u))), ?_, ?_, he⟩
    · exact (mem_groups us _).mpr ⟨(mem_clusterIds us _).mpr ⟨u, hu, rfl⟩, rfl⟩
    · exact List.mem_filter.mpr ⟨hu, by simp⟩

/-- total log of a split run = the per-cluster logs -/
def runLogItems (r : Run) : List Obj := r.log.flatMap (fun e => logItems e.2)

theorem split_pages_log (cfg : Cfg) (o : Opts) (gs : List (ClusterId × List Uuid)) :
    ((splitResults cfg o gs).flatMap (fun r => r.2.pages)).flatten =
      ((splitResults cfg o gs).map (fun r => (r.1, r.2.log))).flatMap (fun e => logItems e.2) := by
  induction gs with
  | nil => rfl
  | cons g gs ih =>
    have hsr : splitResults cfg o (g :: gs) = (g.1, runCluster cfg o g.1 g.2) :: splitResults cfg o gs := rfl
    rw [hsr]
    simp only [List.flatMap_cons, List.flatten_append, List.map_cons]
    rw [ih]
    congr 1
    unfold runCluster
    cases backendFor cfg g.1 with
    | none => simp [logItems]
    | some B => exact (loop_log B (remoteOpts cfg.localId o) g.2.length g.2 0).2.1

end ArvVerif.C20
