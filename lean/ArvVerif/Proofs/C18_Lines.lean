/-
C18: line-level view of rewriteManifest. The code works on space-delimited tokens (a token may
contain newlines); here it is shown to coincide, for every text, with the line-by-line
description of the manifest format: split into lines, split each line into tokens, keep the first
token of every line (the stream name), rewrite the block tokens.
-/
import ArvVerif.Proofs.C18
namespace ArvVerif.C18

/-- a token of one line (no newline inside): block tokens get `+A` → `+R<id>-` -/
def rwTok1 (id t : Str) : Str := if locPrefix t then replaceSig id t else t

/-- one line: the stream name is kept, every later token goes through `rwTok1` -/
def rwLine (id l : Str) : Str := joinWith ' ' (mapTail (rwTok1 id) (splitOn ' ' l))

/-- the manifest-format description of the relayed text -/
def rewriteByLines (mt id : Str) : Str := joinWith '\n' ((splitOn '\n' mt).map (rwLine id))

theorem linePart_of_no_nl (t : Str) (h : '\n' ∉ t) : linePart t = t ∧ restPart t = [] := by
  have hall : ∀ c ∈ t, notNL c = true := by
    intro c hc
    have : c ≠ '\n' := fun e => h (e ▸ hc)
    simp [notNL, this]
  constructor
  · have := takeWhile_append_of_all (p := notNL) t [] hall
    simpa [linePart] using this
  · have := dropWhile_append_of_all (p := notNL) t [] hall
    simpa [restPart] using this

theorem linePart_append_nl (a b : Str) (h : '\n' ∉ a) :
    linePart (a ++ '\n' :: b) = a ∧ restPart (a ++ '\n' :: b) = '\n' :: b := by
  have hall : ∀ c ∈ a, notNL c = true := by
    intro c hc
    have : c ≠ '\n' := fun e => h (e ▸ hc)
    simp [notNL, this]
  constructor
  · unfold linePart; rw [takeWhile_append_of_all _ _ hall]; simp [notNL]
  · unfold restPart; rw [dropWhile_append_of_all _ _ hall]; simp [notNL]

theorem mem_of_mem_splitOn_token (sep : Char) (s t : Str) (ht : t ∈ splitOn sep s) (c : Char) (hc : c ∈ t) :
    c ∈ s := by
  induction s generalizing t with
  | nil => simp [splitOn] at ht; subst ht; simp at hc
  | cons x s ih =>
    by_cases hx : x = sep
    · subst hx
      rw [splitOn_cons_sep] at ht
      rcases List.mem_cons.mp ht with rfl | ht
      · simp at hc
      · exact List.mem_cons_of_mem _ (ih t ht hc)
    · obtain ⟨t0, ts, h1, h2⟩ := splitOn_cons_ne sep x s hx
      rw [h2] at ht
      rcases List.mem_cons.mp ht with rfl | ht
      · rcases List.mem_cons.mp hc with rfl | hc
        · simp
        · exact List.mem_cons_of_mem _ (ih t0 (by rw [h1]; simp) hc)
      · exact List.mem_cons_of_mem _ (ih t (by rw [h1]; exact List.mem_cons_of_mem _ ht) hc)

/-- whether a token is a block token is decided before its first newline -/
theorem locPrefix_append_nl (a b : Str) (_h : '\n' ∉ a) : locPrefix (a ++ '\n' :: b) = locPrefix a := by
  by_cases hlen : 33 ≤ a.length
  · -- both look at the same first 33 characters
    have ht : (a ++ '\n' :: b).take 32 = a.take 32 := by
      rw [List.take_append_of_le_length (by omega)]
    have hd : ((a ++ '\n' :: b).drop 32).head? = (a.drop 32).head? := by
      rw [List.drop_append_of_le_length (by omega)]
      cases hda : a.drop 32 with
      | nil =>
        have := congrArg List.length hda
        simp at this; omega
      | cons c r => simp
    simp only [locPrefix, ht, hd]
  · have hfalse : locPrefix a = false := by
      by_cases h32 : a.length = 32
      · have : a.drop 32 = [] := List.drop_of_length_le (by omega)
        simp [locPrefix, this]
      · have hne : ((a.take 32).length == 32) = false := by
          have : (a.take 32).length ≠ 32 := by simp; omega
          simpa using this
        simp only [locPrefix, hne, Bool.false_and]
    rw [hfalse]
    by_cases h32 : a.length = 32
    · have : (a ++ '\n' :: b).drop 32 = '\n' :: b := by rw [← h32]; simp
      simp [locPrefix, this]
    · have hlt : a.length < 32 := by omega
      have hmem : '\n' ∈ (a ++ '\n' :: b).take 32 := by
        rw [List.take_append]
        apply List.mem_append_right
        have : 32 - a.length = (32 - a.length - 1) + 1 := by omega
        rw [this, List.take_succ_cons]
        simp
      have hall : ((a ++ '\n' :: b).take 32).all isLowerHex = false := by
        apply Bool.eq_false_iff.mpr
        intro hall
        have := List.all_eq_true.mp hall _ hmem
        revert this; decide
      simp [locPrefix, hall]

theorem rewriteTok_of_no_nl (id t : Str) (h : '\n' ∉ t) : rewriteTok id t = rwTok1 id t := by
  obtain ⟨h1, h2⟩ := linePart_of_no_nl t h
  simp [rewriteTok, rwTok1, h1, h2]

theorem rewriteTok_append_nl (id a b : Str) (h : '\n' ∉ a) :
    rewriteTok id (a ++ '\n' :: b) = rwTok1 id a ++ '\n' :: b := by
  obtain ⟨h1, h2⟩ := linePart_append_nl a b h
  unfold rewriteTok rwTok1
  rw [locPrefix_append_nl a b h, h1, h2]
  split <;> rfl

/-- splitting `a ++ c :: b` on `sep ≠ c`: the last token of `a` and the first token of `b` fuse -/
theorem splitOn_append_cons (sep c : Char) (hc : c ≠ sep) (b : Str) (b0 : Str) (bs : List Str)
    (hb : splitOn sep b = b0 :: bs) (a : Str) :
    ∃ init last, splitOn sep a = init ++ [last] ∧
      splitOn sep (a ++ c :: b) = init ++ (last ++ c :: b0) :: bs := by
  induction a with
  | nil =>
    refine ⟨[], [], by simp [splitOn], ?_⟩
    obtain ⟨t, ts, h1, h2⟩ := splitOn_cons_ne sep c b hc
    rw [hb] at h1
    injection h1 with e1 e2
    simp [h2, e1, e2]
  | cons x a ih =>
    obtain ⟨init, last, h1, h2⟩ := ih
    by_cases hx : x = sep
    · subst hx
      refine ⟨[] :: init, last, ?_, ?_⟩
      · rw [splitOn_cons_sep, h1]; rfl
      · rw [List.cons_append, splitOn_cons_sep, h2]; rfl
    · obtain ⟨t, ts, e1, e2⟩ := splitOn_cons_ne sep x a hx
      obtain ⟨t', ts', e1', e2'⟩ := splitOn_cons_ne sep x (a ++ c :: b) hx
      rw [h1] at e1
      rw [h2] at e1'
      cases init with
      | nil =>
        simp only [List.nil_append, List.cons.injEq] at e1 e1'
        refine ⟨[], x :: last, ?_, ?_⟩
        · rw [e2, ← e1.1, ← e1.2]; rfl
        · rw [List.cons_append, e2', ← e1'.1, ← e1'.2]; rfl
      | cons i0 is =>
        simp only [List.cons_append, List.cons.injEq] at e1 e1'
        refine ⟨(x :: i0) :: is, last, ?_, ?_⟩
        · rw [e2, ← e1.1, ← e1.2]; rfl
        · rw [List.cons_append, e2', ← e1'.1, ← e1'.2]; rfl

theorem joinWith_append_singleton (sep : Char) (init : List Str) (u v : Str) (ys : List Str) (c : Char) :
    joinWith sep (init ++ (u ++ c :: v) :: ys) = joinWith sep (init ++ [u]) ++ c :: joinWith sep (v :: ys) := by
  induction init with
  | nil =>
    simp only [List.nil_append]
    rw [joinWith_append_head]
    simp only [joinWith]
    rw [show c :: v = [c] ++ v by rfl, joinWith_append_head]; rfl
  | cons i0 is ih =>
    cases is with
    | nil =>
      simp only [List.cons_append, List.nil_append] at ih ⊢
      rw [joinWith_cons_cons, ih, joinWith_cons_cons]
      simp
    | cons i1 is' =>
      simp only [List.cons_append] at ih ⊢
      rw [joinWith_cons_cons, ih, joinWith_cons_cons]
      simp

theorem mapTail_append_cons {α : Type} (f : α → α) (i0 : α) (is : List α) (x : α) (ys : List α) :
    mapTail f ((i0 :: is) ++ x :: ys) = (i0 :: is.map f) ++ f x :: ys.map f := by
  simp [mapTail]

/-- the text built from lines without newlines -/
theorem rewriteManifest_joinLines (id : Str) (lines : List Str) (hne : lines ≠ [])
    (hnl : ∀ l ∈ lines, '\n' ∉ l) :
    rewriteManifest (joinWith '\n' lines) id = joinWith '\n' (lines.map (rwLine id)) := by
  induction lines with
  | nil => exact absurd rfl hne
  | cons l rest ih =>
    cases rest with
    | nil =>
      simp only [joinWith, List.map_cons, List.map_nil]
      unfold rewriteManifest rwLine
      congr 1
      cases hs : splitOn ' ' l with
      | nil => rfl
      | cons a as =>
        simp only [mapTail, List.cons.injEq, true_and]
        apply List.map_congr_left
        intro t ht
        apply rewriteTok_of_no_nl
        intro hm
        have : t ∈ splitOn ' ' l := by rw [hs]; exact List.mem_cons_of_mem _ ht
        exact hnl l (by simp) (mem_of_mem_splitOn_token ' ' l t this _ hm)
    | cons l2 more =>
      have ih' := ih (by simp) (fun x hx => hnl x (List.mem_cons_of_mem _ hx))
      rw [joinWith_cons_cons]
      simp only [List.map_cons] at ih' ⊢
      rw [joinWith_cons_cons, ← ih']
      -- split the fused text on spaces
      cases hb : splitOn ' ' (joinWith '\n' (l2 :: more)) with
      | nil => exact absurd hb (splitOn_ne_nil _ _)
      | cons b0 bs =>
        obtain ⟨init, last, h1, h2⟩ := splitOn_append_cons ' ' '\n' (by decide) _ b0 bs hb l
        have hlast : '\n' ∉ last := by
          intro hm
          have : last ∈ splitOn ' ' l := by rw [h1]; simp
          exact hnl l (by simp) (mem_of_mem_splitOn_token ' ' l last this _ hm)
        have hinit : ∀ t ∈ init, '\n' ∉ t := by
          intro t ht hm
          have : t ∈ splitOn ' ' l := by rw [h1]; simp [ht]
          exact hnl l (by simp) (mem_of_mem_splitOn_token ' ' l t this _ hm)
        unfold rewriteManifest rwLine
        rw [h2, h1, hb]
        cases init with
        | nil =>
          simp only [List.nil_append, mapTail, List.map_nil]
          rw [joinWith_append_head, joinWith_cons_head]
          simp [joinWith]
        | cons i0 is =>
          rw [mapTail_append_cons, mapTail_append_cons]
          simp only [List.map_nil]
          rw [rewriteTok_append_nl id last b0 hlast]
          have hmap : is.map (rewriteTok id) = is.map (rwTok1 id) := by
            apply List.map_congr_left
            intro t ht
            exact rewriteTok_of_no_nl id t (hinit t (List.mem_cons_of_mem _ ht))
          rw [hmap, joinWith_append_singleton]
          simp [mapTail]

/-- **Line-level form of rewriteManifest, for every text and id.** -/
theorem rewriteManifest_eq_byLines (mt id : Str) : rewriteManifest mt id = rewriteByLines mt id := by
  unfold rewriteByLines
  have := rewriteManifest_joinLines id (splitOn '\n' mt) (splitOn_ne_nil _ _)
    (not_mem_of_mem_splitOn '\n' mt)
  rw [joinWith_splitOn] at this
  exact this


theorem mem_joinWith (sep : Char) (ts : List Str) (c : Char) (h : c ∈ joinWith sep ts) :
    c = sep ∨ ∃ t ∈ ts, c ∈ t := by
  induction ts with
  | nil => simp [joinWith] at h
  | cons t rest ih =>
    cases rest with
    | nil => right; exact ⟨t, by simp, by simpa [joinWith] using h⟩
    | cons u us =>
      rw [joinWith_cons_cons] at h
      rcases List.mem_append.mp h with h | h
      · right; exact ⟨t, by simp, h⟩
      · rcases List.mem_cons.mp h with h | h
        · left; exact h
        · rcases ih h with h | ⟨x, hx, hc⟩
          · left; exact h
          · right; exact ⟨x, List.mem_cons_of_mem _ hx, hc⟩

theorem rwTok1_mem (id t : Str) (c : Char) (h : c ∈ rwTok1 id t) : c ∈ t ∨ c ∈ id ∨ c = 'R' ∨ c = '-' := by
  unfold rwTok1 at h
  split at h
  · exact replaceSig_mem id t c h
  · left; exact h

/-- a rewritten line contains no newline (given a line and an id without one) -/
theorem rwLine_no_nl (id l : Str) (hid : '\n' ∉ id) (hl : '\n' ∉ l) : '\n' ∉ rwLine id l := by
  intro h
  rcases mem_joinWith _ _ _ h with h | ⟨t, ht, hc⟩
  · exact absurd h (by decide)
  · rcases mem_mapTail _ _ _ ht with hh | ⟨y, hy, rfl⟩
    · exact hl (mem_of_mem_splitOn_token ' ' l t (List.mem_of_mem_head? hh) _ hc)
    · rcases rwTok1_mem id y _ hc with h | h | h | h
      · exact hl (mem_of_mem_splitOn_token ' ' l y (List.mem_of_mem_tail hy) _ h)
      · exact hid h
      · exact absurd h (by decide)
      · exact absurd h (by decide)

theorem rwTok1_no_space (id t : Str) (hid : ' ' ∉ id) (ht : ' ' ∉ t) : ' ' ∉ rwTok1 id t := by
  intro h
  rcases rwTok1_mem id t _ h with h | h | h | h
  · exact ht h
  · exact hid h
  · exact absurd h (by decide)
  · exact absurd h (by decide)

/-- the lines of the relayed text are the rewritten lines of the received text -/
theorem lines_rewriteManifest (mt id : Str) (hid : '\n' ∉ id) :
    splitOn '\n' (rewriteManifest mt id) = (splitOn '\n' mt).map (rwLine id) := by
  rw [rewriteManifest_eq_byLines]
  unfold rewriteByLines
  apply splitOn_joinWith
  · simp [splitOn_ne_nil]
  · intro t ht
    simp only [List.mem_map] at ht
    obtain ⟨l, hl, rfl⟩ := ht
    exact rwLine_no_nl id l hid (not_mem_of_mem_splitOn '\n' mt l hl)

/-- the tokens of a rewritten line -/
theorem tokens_rwLine (id l : Str) (hid : ' ' ∉ id) :
    splitOn ' ' (rwLine id l) = mapTail (rwTok1 id) (splitOn ' ' l) := by
  unfold rwLine
  apply splitOn_joinWith
  · exact mapTail_ne_nil _ _ (splitOn_ne_nil _ _)
  · intro t ht
    rcases mem_mapTail _ _ _ ht with h | ⟨y, hy, rfl⟩
    · exact not_mem_of_mem_splitOn ' ' l t (List.mem_of_mem_head? h)
    · exact rwTok1_no_space id y hid (not_mem_of_mem_splitOn ' ' l y (List.mem_of_mem_tail hy))

end ArvVerif.C18
