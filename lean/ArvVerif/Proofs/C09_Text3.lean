/-
C09 helper lemmas, part 7: the text of a whole (flushed) tree parses, under the published grammar
plus the empty-directory marker, to exactly the lines the stream builder computed.
-/
import ArvVerif.Proofs.C09_Text2
namespace ArvVerif.C09

open ArvVerif.C08 (Seg FileNode Store SegWF)
open ArvVerif.C10 (bSpace bNL bSlash bColon bPlus bBackslash bDot splitOn joinWith fsEscape specLocator mapOpt)

variable {max : Nat} {hash : Bytes → C08.Loc}

/-- what the text-level theorems need of a directory: proper names without DEL, well-formed segments,
and stored segments whose locator is a locator of the grammar carrying the block size -/
structure DirOK (max : Nat) (hash : Bytes → C08.Loc) (st : Store) (d : Dir9) : Prop where
  path : PathOK d.path
  names : ∀ f ∈ d.files, NameOK f.1 ∧ (127 : UInt8) ∉ f.1
  segs : ∀ f ∈ d.files, ∀ s ∈ f.2.segs, SegWF max hash st s
  locs : ∀ f ∈ d.files, ∀ loc size off len, Seg.stored loc size off len ∈ f.2.segs →
    specLocator loc = some ⟨loc, size⟩

theorem einv_init (st : Store) : EInv st ⟨[], 0, []⟩ :=
  ⟨rfl, fun b hb => (by cases hb), fun p hp => (by cases hp)⟩

theorem unlines_append (a b : List Bytes) : unlines (a ++ b) = unlines a ++ unlines b := by
  simp [unlines]

/-- **one directory** -/
theorem dirText_parses {st : Store} {d : Dir9} (hd : DirOK max hash st d) {txt : Bytes} (h : dirText d = some txt) :
    ∃ ls L, txt = unlines ls ∧ (∀ l ∈ ls, bNL ∉ l) ∧ dirLines d = some L ∧ mapOpt specLine9 ls = some L := by
  unfold dirText at h
  unfold dirLines
  by_cases he : d.isEmpty = true
  · rw [if_pos he] at h
    rw [if_pos he]
    simp only [Option.some.injEq] at h
    by_cases hp : d.path.isEmpty = true
    · rw [if_pos hp] at h
      subst h
      exact ⟨[], [], rfl, fun l hl => (by cases hl), by simp [hp], rfl⟩
    · rw [if_neg hp] at h
      subst h
      have hne : d.path ≠ [] := fun hh => hp (by rw [hh]; rfl)
      obtain ⟨m1, m2⟩ := specLine9_marker d.path hd.path hne
      refine ⟨[joinWith bSpace [fsEscape (prefixOf d.path), emptyLoc, markerTok]], [Line9.marker (prefixOf d.path)],
        by simp [markerLine, unlines], ?_, by simp [hp], ?_⟩
      · intro l hl; rw [List.mem_singleton.mp hl]; exact m2
      · simp [mapOpt, m1]
  · rw [if_neg he] at h
    rw [if_neg he]
    cases hem : emitFiles ⟨[], 0, []⟩ d.files with
    | none => rw [hem] at h; cases h
    | some e =>
      rw [hem] at h
      simp only [Option.some.injEq] at h ⊢
      obtain ⟨hinv, _, hblocks, hparts⟩ := emitFiles_spec (max := max) (hash := hash) d.files _ e (einv_init st) hd.segs hem
      unfold lineOf at h
      by_cases hpe : e.partsRev.isEmpty = true
      · have : e.partsRev.reverse.isEmpty = true := by
          rw [List.isEmpty_iff] at hpe ⊢; rw [hpe]; rfl
        rw [if_pos this] at h
        subst h
        exact ⟨[], [], rfl, fun l hl => (by cases hl), by simp [hpe], rfl⟩
      · have hpe' : ¬ e.partsRev.reverse.isEmpty = true := by
          intro hh; apply hpe
          rw [List.isEmpty_iff] at hh ⊢
          simpa using hh
        rw [if_neg hpe'] at h
        subst h
        -- the blocks of the line as a list of grammar locators
        let blocks : List C10.Loc := if e.blocksRev.isEmpty then [⟨emptyLoc, 0⟩] else e.blocksRev.reverse
        have hbl : (if e.blocksRev.reverse.isEmpty = true then [emptyLoc] else e.blocksRev.reverse.map (·.text)) =
            blocks.map (·.text) := by
          show _ = (if e.blocksRev.isEmpty then [⟨emptyLoc, 0⟩] else e.blocksRev.reverse).map (·.text)
          by_cases hb : e.blocksRev.isEmpty = true
          · have : e.blocksRev.reverse.isEmpty = true := by
              rw [List.isEmpty_iff] at hb ⊢; rw [hb]; rfl
            rw [if_pos this, if_pos hb]; rfl
          · have : ¬ e.blocksRev.reverse.isEmpty = true := by
              intro hh; apply hb
              rw [List.isEmpty_iff] at hh ⊢
              simpa using hh
            rw [if_neg this, if_neg hb]
        have hbok : ∀ b ∈ blocks, specLocator b.text = some b := by
          intro b hb
          show specLocator b.text = some b
          by_cases hbe : e.blocksRev.isEmpty = true
          · simp only [blocks, hbe, if_true, List.mem_singleton] at hb
            subst hb
            exact emptyLoc_ok
          · simp only [blocks, hbe, if_false, List.mem_reverse, Bool.false_eq_true] at hb
            rcases hblocks b hb with h' | ⟨f, hf, off, len, hseg⟩
            · cases h'
            · exact hd.locs f hf _ _ _ _ hseg
        have hbne : blocks ≠ [] := by
          show (if e.blocksRev.isEmpty then [⟨emptyLoc, 0⟩] else e.blocksRev.reverse) ≠ []
          by_cases hbe : e.blocksRev.isEmpty = true
          · rw [if_pos hbe]; simp
          · rw [if_neg hbe]
            intro hh; apply hbe
            rw [List.isEmpty_iff]; simpa using hh
        have hpok : ∀ p ∈ e.partsRev.reverse, NameOK p.name ∧ (127 : UInt8) ∉ p.name := by
          intro p hp
          rcases hparts p (List.mem_reverse.mp hp) with ⟨f, hf, hn⟩ | h'
          · rw [hn]; exact hd.names f hf
          · cases h'
        have hpne : e.partsRev.reverse ≠ [] := by
          intro hh; apply hpe'; rw [hh]; rfl
        have hin : ∀ p ∈ e.partsRev.reverse, p.off + p.len ≤ C10.streamLen blocks := by
          intro p hp
          have h1 := hinv.parts p (List.mem_reverse.mp hp)
          show p.off + p.len ≤ C10.streamLen (if e.blocksRev.isEmpty then [⟨emptyLoc, 0⟩] else e.blocksRev.reverse)
          by_cases hbe : e.blocksRev.isEmpty = true
          · rw [if_pos hbe]
            have h0 : e.len = 0 := by
              rw [hinv.len, List.isEmpty_iff.mp hbe]; rfl
            simp [C10.streamLen]; omega
          · rw [if_neg hbe, ← hinv.len]; exact h1
        obtain ⟨s1, s2⟩ := specLine_stream d.path blocks e.partsRev.reverse hd.path hbok hbne hpok hpne hin
        refine ⟨[joinWith bSpace (fsEscape (prefixOf d.path) :: (blocks.map (·.text) ++ e.partsRev.reverse.map tokText))],
          [Line9.stream (streamOfEmit d.path e)], ?_, ?_, by simp [hpe], ?_⟩
        · simp only [unlines, List.flatMap_cons, List.flatMap_nil, List.append_nil]
          rw [hbl]
        · intro l hl; rw [List.mem_singleton.mp hl]; exact s2
        · simp only [mapOpt, specLine9, s1]
          rfl

/-- the whole tree -/
def TreeOK (max : Nat) (hash : Bytes → C08.Loc) (st : Store) (t : Tree9) : Prop := ∀ d ∈ t, DirOK max hash st d

theorem treeText_parses {st : Store} : ∀ (t : Tree9), TreeOK max hash st t → ∀ txt, treeText t = some txt →
    ∃ ls L, txt = unlines ls ∧ (∀ l ∈ ls, bNL ∉ l) ∧ treeLines t = some L ∧ mapOpt specLine9 ls = some L
  | [], _, txt, h => by
    simp only [treeText, Option.some.injEq] at h
    subst h
    exact ⟨[], [], rfl, fun l hl => (by cases hl), rfl, rfl⟩
  | d :: rest, hok, txt, h => by
    unfold treeText at h
    cases h1 : dirText d with
    | none => rw [h1] at h; cases h
    | some a =>
      cases h2 : treeText rest with
      | none => rw [h1, h2] at h; cases h
      | some b =>
        rw [h1, h2] at h
        simp only [Option.some.injEq] at h
        subst h
        obtain ⟨l1, L1, a1, a2, a3, a4⟩ := dirText_parses (hok d (by simp)) h1
        obtain ⟨l2, L2, b1, b2, b3, b4⟩ := treeText_parses rest (fun x hx => hok x (List.mem_cons_of_mem _ hx)) b h2
        refine ⟨l1 ++ l2, L1 ++ L2, by rw [unlines_append, a1, b1], ?_, ?_, mapOpt_append _ _ _ _ _ a4 b4⟩
        · intro l hl
          rcases List.mem_append.mp hl with hl | hl
          · exact a2 l hl
          · exact b2 l hl
        · unfold treeLines
          rw [a3, b3]

/-- **the saved text is inside the grammar and reads back as the builder's lines** -/
theorem treeText_parse9 {st : Store} (t : Tree9) (hok : TreeOK max hash st t) (txt : Bytes) (h : treeText t = some txt) :
    ∃ L, treeLines t = some L ∧ parse9 txt = some L := by
  obtain ⟨ls, L, h1, h2, h3, h4⟩ := treeText_parses t hok txt h
  exact ⟨L, h3, by rw [h1, parse9_unlines ls h2, h4]⟩

end ArvVerif.C09
