/-
C12 helper lemmas for the keep-balance sweep model (Model/C12.lean `sweepRun`): every task stays
consistent with its own block under any interleaving of the workers' steps.
-/
import ArvVerif.Model.C12
namespace ArvVerif.C12
variable {α β γ : Type}

theorem forall_updAt (P : γ → Prop) (f : γ → γ) (hf : ∀ t, P t → P (f t)) :
    ∀ (i : Nat) (l : List γ), (∀ t ∈ l, P t) → ∀ t ∈ updAt f i l, P t
  | _, [], _ => by simp [updAt]
  | 0, a :: l, h => by
    intro t ht
    simp only [updAt, List.mem_cons] at ht
    rcases ht with rfl | ht
    · exact hf a (h a (by simp))
    · exact h t (by simp [ht])
  | i + 1, a :: l, h => by
    intro t ht
    simp only [updAt, List.mem_cons] at ht
    rcases ht with rfl | ht
    · exact h _ (by simp)
    · exact forall_updAt P f hf i l (fun t ht => h t (by simp [ht])) t ht

theorem map_updAt {δ : Type} (g : γ → δ) (f : γ → γ) (hf : ∀ t, g (f t) = g t) :
    ∀ (i : Nat) (l : List γ), (updAt f i l).map g = l.map g
  | _, [] => by simp [updAt]
  | 0, a :: l => by simp [updAt, hf]
  | i + 1, a :: l => by simp [updAt, map_updAt g f hf i l]

/-- A task is consistent with its own block: whatever it has computed so far is the ranking of
*its* block, and whatever it has placed is the first `d` of that ranking. -/
def TaskOK (w : β → α → Nat) (svcs : List α) (d : Nat) (t : Task β α) : Prop :=
  (t.rank = none ∨ t.rank = some (probeOrder (w t.blk) svcs)) ∧
  (t.wanted = none ∨ t.wanted = some (wantedServers d (probeOrder (w t.blk) svcs)))

theorem rankTask_ok (w : β → α → Nat) (svcs : List α) (d : Nat) (t : Task β α)
    (h : TaskOK w svcs d t) : TaskOK w svcs d (rankTask w svcs t) := by
  refine ⟨Or.inr rfl, ?_⟩
  simpa [rankTask] using h.2

theorem placeTask_ok (w : β → α → Nat) (svcs : List α) (d : Nat) (t : Task β α)
    (h : TaskOK w svcs d t) : TaskOK w svcs d (placeTask d t) := by
  unfold placeTask
  split
  · rename_i r hr
    rcases h.1 with h1 | h1
    · rw [h1] at hr; cases hr
    · rw [h1] at hr; cases hr
      exact ⟨Or.inr h1, Or.inr rfl⟩
  · exact h

theorem rankTask_blk (w : β → α → Nat) (svcs : List α) (t : Task β α) :
    (rankTask w svcs t).blk = t.blk := rfl

theorem placeTask_blk (d : Nat) (t : Task β α) : (placeTask d t).blk = t.blk := by
  unfold placeTask; split <;> rfl

theorem sweepStep_ok (w : β → α → Nat) (svcs : List α) (d : Nat) (ts : List (Task β α)) (s : SweepStep)
    (h : ∀ t ∈ ts, TaskOK w svcs d t) : ∀ t ∈ sweepStep w svcs d ts s, TaskOK w svcs d t := by
  cases s with
  | rank i => exact forall_updAt _ _ (rankTask_ok w svcs d) i ts h
  | place i => exact forall_updAt _ _ (placeTask_ok w svcs d) i ts h

theorem sweepStep_blks (w : β → α → Nat) (svcs : List α) (d : Nat) (ts : List (Task β α)) (s : SweepStep) :
    (sweepStep w svcs d ts s).map (·.blk) = ts.map (·.blk) := by
  cases s with
  | rank i => exact map_updAt _ _ (rankTask_blk w svcs) i ts
  | place i => exact map_updAt _ _ (placeTask_blk d) i ts

theorem foldl_sweep_ok (w : β → α → Nat) (svcs : List α) (d : Nat) (sched : List SweepStep) :
    ∀ ts : List (Task β α), (∀ t ∈ ts, TaskOK w svcs d t) →
      (∀ t ∈ sched.foldl (sweepStep w svcs d) ts, TaskOK w svcs d t) ∧
      (sched.foldl (sweepStep w svcs d) ts).map (·.blk) = ts.map (·.blk) := by
  induction sched with
  | nil => intro ts h; exact ⟨h, rfl⟩
  | cons s rest ih =>
    intro ts h
    have := ih (sweepStep w svcs d ts s) (sweepStep_ok w svcs d ts s h)
    simp only [List.foldl_cons]
    exact ⟨this.1, this.2.trans (sweepStep_blks w svcs d ts s)⟩

theorem init_ok (w : β → α → Nat) (svcs : List α) (d : Nat) (blks : List β) :
    ∀ t ∈ blks.map (fun b => ({ blk := b } : Task β α)), TaskOK w svcs d t := by
  intro t ht
  simp only [List.mem_map] at ht
  obtain ⟨b, _, rfl⟩ := ht
  exact ⟨Or.inl rfl, Or.inl rfl⟩

end ArvVerif.C12
