/-
Helper lemmas for C14 layer L2 (pool bookkeeping): membership characterisations of the
per-worker steps. Lists stand for Go map key sets, so everything is stated with `∈`.
-/
import ArvVerif.Model.C14_Pool
namespace ArvVerif.C14

@[simp] theorem mem_sInsert {l : List Uuid} {u v : Uuid} : v ∈ sInsert l u ↔ v ∈ l ∨ v = u := by
  unfold sInsert
  split
  · rename_i h
    simp only [List.contains_iff_mem] at h
    constructor
    · exact Or.inl
    · rintro (h' | h')
      · exact h'
      · exact h' ▸ h
  · simp

@[simp] theorem mem_sRemove {l : List Uuid} {u v : Uuid} : v ∈ sRemove l u ↔ v ∈ l ∧ v ≠ u := by
  simp [sRemove]

namespace Worker

/-! ### accept / startDone / closeRunner / shutdown -/

@[simp] theorem accept_starting (w : Worker) (u v : Uuid) :
    v ∈ (w.accept u).starting ↔ v ∈ w.starting ∨ v = u := by simp [accept]
@[simp] theorem accept_running (w : Worker) (u : Uuid) : (w.accept u).running = w.running := rfl
@[simp] theorem accept_state (w : Worker) (u : Uuid) : (w.accept u).state = .running := rfl
@[simp] theorem accept_updated (w : Worker) (u : Uuid) : (w.accept u).updated = w.updated := rfl
@[simp] theorem accept_idleB (w : Worker) (u : Uuid) : (w.accept u).idleB = w.idleB := rfl

theorem startDone_of_mem {w : Worker} {u : Uuid} (now : Nat) (h : u ∈ w.starting) :
    w.startDone u now =
      { w with updated := now, busy := now, starting := sRemove w.starting u, running := sInsert w.running u } := by
  unfold startDone
  rw [if_pos (by simpa using h)]

theorem startDone_of_not_mem {w : Worker} {u : Uuid} (now : Nat) (h : u ∉ w.starting) :
    w.startDone u now = w := by
  unfold startDone
  rw [if_neg (by simpa using h)]

theorem startDone_starting (w : Worker) (u v : Uuid) (now : Nat) :
    v ∈ (w.startDone u now).starting ↔ v ∈ w.starting ∧ v ≠ u := by
  by_cases h : u ∈ w.starting
  · rw [startDone_of_mem now h]; simp
  · rw [startDone_of_not_mem now h]
    exact ⟨fun hv => ⟨hv, fun e => h (e ▸ hv)⟩, fun hv => hv.1⟩
theorem startDone_running (w : Worker) (u v : Uuid) (now : Nat) :
    v ∈ (w.startDone u now).running ↔ v ∈ w.running ∨ (v = u ∧ u ∈ w.starting) := by
  by_cases h : u ∈ w.starting
  · rw [startDone_of_mem now h]; simp [h]
  · rw [startDone_of_not_mem now h]; simp [h]
@[simp] theorem startDone_state (w : Worker) (u : Uuid) (now : Nat) :
    (w.startDone u now).state = w.state := by
  unfold startDone; split <;> rfl
theorem startDone_updated (w : Worker) (u : Uuid) (now : Nat) :
    (w.startDone u now).updated = if u ∈ w.starting then now else w.updated := by
  by_cases h : u ∈ w.starting
  · rw [startDone_of_mem now h]; simp [h]
  · rw [startDone_of_not_mem now h]; simp [h]

@[simp] theorem shutdown_starting (w : Worker) (now : Nat) : (w.shutdown now).starting = w.starting := rfl
@[simp] theorem shutdown_running (w : Worker) (now : Nat) : (w.shutdown now).running = w.running := rfl
@[simp] theorem shutdown_state (w : Worker) (now : Nat) : (w.shutdown now).state = .shutdown := rfl
@[simp] theorem shutdown_updated (w : Worker) (now : Nat) : (w.shutdown now).updated = now := rfl

theorem isEmpty_iff (w : Worker) : w.isEmpty = true ↔ w.running = [] ∧ w.starting = [] := by
  simp [isEmpty, List.isEmpty_iff]

/-- What `closeRunner` does, by membership. -/
theorem closeRunner_spec (w : Worker) (u : Uuid) (now : Nat) :
    let r := (w.closeRunner u now).1
    (∀ v, v ∈ r.running ↔ v ∈ w.running ∧ v ≠ u) ∧ r.starting = w.starting ∧ r.idleB = w.idleB ∧
    (u ∈ w.running → r.updated = now) ∧ (u ∉ w.running → r = w) ∧
    (r.state = w.state ∨ (w.state = .running ∧ r.state = .idle ∧ r.running = [] ∧ r.starting = [])) := by
  unfold closeRunner
  by_cases hu : w.running.contains u = true
  · rw [if_pos hu]
    have hu' : u ∈ w.running := by simpa using hu
    by_cases he : (w.state == .running && Worker.isEmpty
        { w with running := sRemove w.running u, updated := now }) = true
    · dsimp only
      rw [if_pos he]
      simp only [Bool.and_eq_true, beq_iff_eq, isEmpty_iff] at he
      exact ⟨by simp, rfl, rfl, fun _ => rfl, fun h => absurd hu' h, Or.inr ⟨he.1, rfl, he.2.1, he.2.2⟩⟩
    · dsimp only
      rw [if_neg he]
      exact ⟨by simp, rfl, rfl, fun _ => rfl, fun h => absurd hu' h, Or.inl rfl⟩
  · rw [if_neg hu]
    have hu' : u ∉ w.running := by simpa using hu
    exact ⟨fun v => ⟨fun h => ⟨h, fun e => hu' (e ▸ h)⟩, fun h => h.1⟩, rfl, rfl,
      fun h => absurd h hu', fun _ => rfl, Or.inl rfl⟩

/-! ### updateRunning -/

theorem adoptAlive_spec (us : List Uuid) : ∀ (w : Worker),
    let r := (w.adoptAlive us).1
    (∀ v, v ∈ r.running ↔ v ∈ w.running ∨ v ∈ us) ∧
    (∀ v, v ∈ r.starting ↔ v ∈ w.starting ∧ (v ∈ us → v ∈ w.running)) ∧
    r.state = w.state ∧ r.idleB = w.idleB ∧ r.updated = w.updated ∧ r.busy = w.busy ∧
    r.probed = w.probed ∧ r.id = w.id ∧ r.itype = w.itype := by
  induction us with
  | nil => intro w; simp [adoptAlive]
  | cons u rest ih =>
    intro w
    unfold adoptAlive
    by_cases hu : w.running.contains u = true
    · rw [if_pos hu]
      have hu' : u ∈ w.running := by simpa using hu
      obtain ⟨h1, h2, h3⟩ := ih w
      refine ⟨fun v => ?_, fun v => ?_, h3⟩
      · rw [h1 v]; simp only [List.mem_cons]
        constructor
        · rintro (h | h); exact Or.inl h; exact Or.inr (Or.inr h)
        · rintro (h | h | h); exact Or.inl h; exact Or.inl (h ▸ hu'); exact Or.inr h
      · rw [h2 v]; simp only [List.mem_cons]
        constructor
        · rintro ⟨h, hn⟩
          exact ⟨h, fun e => e.elim (fun e => e ▸ hu') hn⟩
        · rintro ⟨h, hn⟩; exact ⟨h, fun e => hn (Or.inr e)⟩
    · rw [if_neg hu]
      dsimp only
      obtain ⟨h1, h2, h3⟩ := ih { w with running := w.running ++ [u], starting := sRemove w.starting u }
      refine ⟨fun v => ?_, fun v => ?_, h3⟩
      · rw [h1 v]; simp only [List.mem_append, List.mem_cons, List.not_mem_nil, or_false]
        constructor
        · rintro ((h | h) | h); exact Or.inl h; exact Or.inr (Or.inl h); exact Or.inr (Or.inr h)
        · rintro (h | h | h); exact Or.inl (Or.inl h); exact Or.inl (Or.inr h); exact Or.inr h
      · rw [h2 v]; simp only [mem_sRemove, List.mem_cons, List.mem_append, List.not_mem_nil, or_false]
        have hu' : u ∉ w.running := by simpa using hu
        constructor
        · rintro ⟨⟨h, hne⟩, hn⟩
          refine ⟨h, fun e => ?_⟩
          rcases e with e | e
          · exact absurd e hne
          · rcases hn e with h' | h'
            · exact h'
            · exact absurd h' hne
        · rintro ⟨h, hn⟩
          have hne : v ≠ u := fun e => hu' (e ▸ hn (Or.inl e))
          exact ⟨⟨h, hne⟩, fun e => Or.inl (hn (Or.inr e))⟩

theorem adoptAlive_unchanged (us : List Uuid) : ∀ (w : Worker),
    (w.adoptAlive us).2 = false → (w.adoptAlive us).1 = w := by
  induction us with
  | nil => intro w _; rfl
  | cons u rest ih =>
    intro w h
    unfold adoptAlive at h ⊢
    by_cases hu : w.running.contains u = true
    · rw [if_pos hu] at h ⊢; exact ih w h
    · rw [if_neg hu] at h; simp at h

theorem closeDead_spec (w : Worker) (alive : List Uuid) (now : Nat) :
    let r := (w.closeDead alive now).1
    (∀ v, v ∈ r.running ↔ v ∈ w.running ∧ v ∈ alive) ∧ r.starting = w.starting ∧ r.idleB = w.idleB ∧
    (r.state = w.state ∨ (w.state = .running ∧ r.state = .idle ∧ r.running = [] ∧ r.starting = [])) ∧
    (r.updated = w.updated ∨ r.updated = now) ∧
    ((w.closeDead alive now).2 = [] → r = w) := by
  unfold closeDead
  dsimp only
  by_cases hd : (w.running.filter (fun u => !alive.contains u)).isEmpty = true
  · rw [if_pos hd]
    have hd' : ∀ v ∈ w.running, v ∈ alive := by
      intro v hv
      have := List.isEmpty_iff.mp hd
      have h2 : v ∉ w.running.filter (fun u => !alive.contains u) := by rw [this]; simp
      simp only [List.mem_filter, Bool.not_eq_eq_eq_not, Bool.not_true, not_and,
        Bool.not_eq_false, List.contains_iff_mem] at h2
      exact h2 hv
    exact ⟨fun v => ⟨fun h => ⟨h, hd' v h⟩, fun h => h.1⟩, rfl, rfl, Or.inl rfl, Or.inl rfl, fun _ => rfl⟩
  · rw [if_neg hd]
    have hne : w.running.filter (fun u => !alive.contains u) ≠ [] := by
      intro h; rw [h] at hd; exact hd rfl
    by_cases he : (w.state == .running && Worker.isEmpty
        { w with running := w.running.filter (fun u => alive.contains u), updated := now }) = true
    · rw [if_pos he]
      simp only [Bool.and_eq_true, beq_iff_eq, isEmpty_iff] at he
      exact ⟨by simp, rfl, rfl, Or.inr ⟨he.1, rfl, he.2.1, he.2.2⟩, Or.inr rfl, fun h => absurd h hne⟩
    · rw [if_neg he]
      exact ⟨by simp, rfl, rfl, Or.inl rfl, Or.inr rfl, fun h => absurd h hne⟩

/-- `updateRunning`: afterwards `running` is exactly the reported set; `starting` loses what was
reported (unless it was already running); the worker may go from Running to Idle when empty. -/
theorem updateRunning_spec (w : Worker) (alive : List Uuid) (now : Nat) :
    let r := (w.updateRunning alive now).1
    (∀ v, v ∈ r.running ↔ v ∈ alive) ∧
    (∀ v, v ∈ r.starting ↔ v ∈ w.starting ∧ (v ∈ alive → v ∈ w.running)) ∧
    r.idleB = w.idleB ∧
    (r.state = w.state ∨ (w.state = .running ∧ r.state = .idle ∧ r.running = [] ∧ r.starting = [])) ∧
    (r.updated = w.updated ∨ r.updated = now) ∧
    ((w.updateRunning alive now).2.2 = false → r = w ∧ (w.updateRunning alive now).2.1 = []) := by
  unfold updateRunning
  dsimp only
  obtain ⟨a1, a2, a3, a4, a5, _⟩ := adoptAlive_spec alive w
  obtain ⟨c1, c2, c3, c4, c5, c6⟩ := closeDead_spec (w.adoptAlive alive).1 alive now
  refine ⟨fun v => ?_, fun v => ?_, c3.trans a4, ?_, ?_, ?_⟩
  · rw [c1 v, a1 v]
    constructor
    · exact fun h => h.2
    · exact fun h => ⟨Or.inr h, h⟩
  · rw [c2, a2 v]
  · rcases c4 with h | h
    · exact Or.inl (h.trans a3)
    · exact Or.inr ⟨a3 ▸ h.1, h.2⟩
  · rcases c5 with h | h
    · exact Or.inl (h.trans a5)
    · exact Or.inr h
  · intro h
    simp only [Bool.or_eq_false_iff, Bool.not_eq_eq_eq_not, Bool.not_false, List.isEmpty_iff] at h
    have h1 := adoptAlive_unchanged alive w h.1
    have h2 := c6 h.2
    exact ⟨h2.trans h1, h.2⟩

theorem setIdleBehavior_spec (w : Worker) (b : IdleB) (t g : Bool) (now : Nat) :
    let r := w.setIdleBehavior b t g now
    r.running = w.running ∧ r.starting = w.starting ∧ r.idleB = b ∧
    ((r.state = w.state ∧ r.updated = w.updated) ∨ (r.state = .shutdown ∧ r.updated = now)) := by
  unfold setIdleBehavior shutdownIfIdle
  dsimp only
  split
  · exact ⟨rfl, rfl, rfl, Or.inr ⟨rfl, rfl⟩⟩
  · exact ⟨rfl, rfl, rfl, Or.inl ⟨rfl, rfl⟩⟩

theorem drainStep_spec (w : Worker) (p : Probe) (now : Nat) :
    let r := w.drainStep p now
    r.running = w.running ∧ r.starting = w.starting ∧
    ((r.state = w.state ∧ r.updated = w.updated) ∨ (r.state = .shutdown ∧ r.updated = now)) := by
  unfold drainStep
  dsimp only
  split
  · obtain ⟨h1, h2, _, h4⟩ := setIdleBehavior_spec w .drain false p.allGivenUp now
    exact ⟨h1, h2, h4⟩
  · exact ⟨rfl, rfl, Or.inl ⟨rfl, rfl⟩⟩

theorem applyFailed_spec (w : Worker) (p : Probe) (now : Nat) :
    let r := w.applyFailed p now
    r.running = w.running ∧ r.starting = w.starting ∧
    ((r.state = w.state ∧ r.updated = w.updated) ∨ (r.state = .shutdown ∧ r.updated = now)) := by
  unfold applyFailed
  dsimp only
  split
  · exact ⟨rfl, rfl, Or.inl ⟨rfl, rfl⟩⟩
  · split
    · exact ⟨rfl, rfl, Or.inr ⟨rfl, rfl⟩⟩
    · exact ⟨rfl, rfl, Or.inl ⟨rfl, rfl⟩⟩

/-- The branch that uses the probe result. -/
theorem applyFresh_spec (w : Worker) (p : Probe) (now : Nat)
    (hidle : w.state = .idle → w.running = [] ∧ w.starting = []) :
    let r := (w.applyFresh p now).1
    (∀ v, v ∈ r.running ↔ v ∈ p.uuids) ∧
    (∀ v, v ∈ r.starting ↔ v ∈ w.starting ∧ (v ∈ p.uuids → v ∈ w.running)) ∧
    (r.state = .idle → r.running = [] ∧ r.starting = []) ∧
    (r.updated = w.updated ∨ r.updated = now) := by
  unfold applyFresh
  dsimp only
  generalize hw2 : (if (!p.uuids.isEmpty || !w.running.isEmpty) = true
      then { w with busy := now } else w) = w2
  have h2 : w2.running = w.running ∧ w2.starting = w.starting ∧ w2.state = w.state ∧
      w2.updated = w.updated := by
    subst hw2; split <;> exact ⟨rfl, rfl, rfl, rfl⟩
  obtain ⟨u1, u2, _, u4, u5, u6⟩ := updateRunning_spec w2 p.uuids now
  generalize (w2.updateRunning p.uuids now) = r at u1 u2 u4 u5 u6
  have hrun : ∀ v, v ∈ r.1.running ↔ v ∈ p.uuids := u1
  have hsta : ∀ v, v ∈ r.1.starting ↔ v ∈ w.starting ∧ (v ∈ p.uuids → v ∈ w.running) := by
    intro v; rw [u2 v, h2.2.1, h2.1]
  have hupd : r.1.updated = w.updated ∨ r.1.updated = now := by
    rcases u5 with h | h
    · exact Or.inl (h.trans h2.2.2.2)
    · exact Or.inr h
  have hidler : r.1.state = .idle → r.2.2 = false → r.1.running = [] ∧ r.1.starting = [] := by
    intro hi hc
    obtain ⟨e, _⟩ := u6 hc
    rw [e] at hi ⊢
    rw [h2.1, h2.2.1]
    exact hidle (h2.2.2.1 ▸ hi)
  by_cases hfb : (p.booted && (r.1.state == .unknown || r.1.state == .booting)) = true
  · -- first successful boot probe: Idle, then the fix-up
    rw [hfb]
    simp only [if_true, Bool.or_true, Bool.not_true, Bool.false_eq_true, if_false]
    by_cases he : Worker.isEmpty { r.1 with state := .idle } = true
    · have he' := (isEmpty_iff _).mp he
      simp only [beq_self_eq_true, Bool.true_and, he, Bool.not_true, Bool.false_eq_true, if_false]
      exact ⟨hrun, hsta, fun _ => he', (by first | exact Or.inr rfl | exact Or.inr trivial)⟩
    · simp only [Bool.not_eq_true] at he
      simp only [beq_self_eq_true, Bool.true_and, he, Bool.not_false, if_true]
      exact ⟨hrun, hsta, (fun h => nomatch h), (by first | exact Or.inr rfl | exact Or.inr trivial)⟩
  · simp only [Bool.not_eq_true] at hfb
    rw [hfb]
    simp only [Bool.false_eq_true, if_false, Bool.or_false]
    by_cases hch : r.2.2 = true
    · rw [hch]
      simp only [Bool.not_true, Bool.false_eq_true, if_false]
      by_cases h1 : (r.1.state == .idle && !r.1.isEmpty) = true
      · rw [if_pos h1]
        exact ⟨hrun, hsta, (fun h => nomatch h), (by first | exact Or.inr rfl | exact Or.inr trivial)⟩
      · rw [if_neg h1]
        by_cases h3 : (r.1.state == .running && r.1.isEmpty) = true
        · rw [if_pos h3]
          simp only [Bool.and_eq_true, beq_iff_eq] at h3
          exact ⟨hrun, hsta, fun _ => (isEmpty_iff _).mp h3.2, (by first | exact Or.inr rfl | exact Or.inr trivial)⟩
        · rw [if_neg h3]
          refine ⟨hrun, hsta, fun hi => ?_, (by first | exact Or.inr rfl | exact Or.inr trivial)⟩
          have hi' : r.1.state = .idle := hi
          simp only [Bool.and_eq_true, beq_iff_eq, Bool.not_eq_true', not_and, Bool.not_eq_false] at h1
          exact (isEmpty_iff _).mp (h1 hi')
    · simp only [Bool.not_eq_true] at hch
      rw [hch]
      simp only [Bool.not_false, if_true]
      exact ⟨hrun, hsta, fun hi => hidler hi hch, hupd⟩

theorem applyFresh_spec_starting (w : Worker) (p : Probe) (now : Nat) (v : Uuid) :
    v ∈ (w.applyFresh p now).1.starting ↔ v ∈ w.starting ∧ (v ∈ p.uuids → v ∈ w.running) := by
  unfold applyFresh
  dsimp only
  generalize hw2 : (if (!p.uuids.isEmpty || !w.running.isEmpty) = true
      then { w with busy := now } else w) = w2
  have h2 : w2.running = w.running ∧ w2.starting = w.starting := by
    subst hw2; split <;> exact ⟨rfl, rfl⟩
  obtain ⟨_, u2, _⟩ := updateRunning_spec w2 p.uuids now
  rw [← h2.1, ← h2.2, ← u2 v]
  repeat' split
  all_goals rfl

theorem probeFresh_stamp {w : Worker} {p : Probe} {now : Nat} (hlt : p.stamp < now)
    (h : probeFresh w p now = true) : p.stamp = w.updated ∧ p.ok = true := by
  unfold probeFresh at h
  simp only [Bool.and_eq_true, beq_iff_eq, Bool.not_eq_eq_eq_not, Bool.not_true] at h
  obtain ⟨_, _, hs⟩ := drainStep_spec w p now
  constructor
  · rcases hs with hs | hs
    · exact h.2.trans hs.2
    · have := h.2.trans hs.2; omega
  · have := h.1
    unfold probeFailed at this
    simp only [Bool.or_eq_false_iff, Bool.not_eq_eq_eq_not, Bool.not_false] at this
    exact this.1

/-- A probe result that is not fresh (failed, empty-and-unbooted, or stale) leaves both maps alone
and records no exit — for any worker, without any well-formedness assumption. -/
theorem probeApply_not_fresh (w : Worker) (p : Probe) (now : Nat) (h : probeFresh w p now = false) :
    (w.probeApply p now).1.running = w.running ∧ (w.probeApply p now).1.starting = w.starting ∧
    (w.probeApply p now).2 = [] := by
  unfold probeApply
  unfold probeFresh at h
  dsimp only
  obtain ⟨hr1, hs1, _⟩ := drainStep_spec w p now
  generalize (w.drainStep p now) = w1 at hr1 hs1 h
  by_cases hfail : w1.probeFailed p = true
  · rw [if_pos hfail]
    obtain ⟨f1, f2, _⟩ := applyFailed_spec w1 p now
    exact ⟨f1.trans hr1, f2.trans hs1, rfl⟩
  · rw [if_neg hfail]
    simp only [Bool.not_eq_true] at hfail
    rw [hfail] at h
    simp only [Bool.not_false, Bool.true_and, beq_eq_false_iff_ne, ne_eq] at h
    have : (p.stamp != w1.updated) = true := by simpa using h
    rw [if_pos this]
    exact ⟨hr1, hs1, rfl⟩

/-- **What a probe does to the bookkeeping.** Either the result is not used — `running` and
`starting` are untouched, no exit is recorded, the state stays or becomes Shutdown — or it is
fresh and then `running` becomes exactly the reported set. -/
theorem probeApply_spec (w : Worker) (p : Probe) (now : Nat)
    (hidle : w.state = .idle → w.running = [] ∧ w.starting = []) :
    let r := (w.probeApply p now).1
    (probeFresh w p now = false →
      r.running = w.running ∧ r.starting = w.starting ∧ (w.probeApply p now).2 = [] ∧
      (r.state = w.state ∨ r.state = .shutdown)) ∧
    (probeFresh w p now = true →
      (∀ v, v ∈ r.running ↔ v ∈ p.uuids) ∧
      (∀ v, v ∈ r.starting ↔ v ∈ w.starting ∧ (v ∈ p.uuids → v ∈ w.running)) ∧
      (r.state = .idle → r.running = [] ∧ r.starting = [])) ∧
    (r.updated = w.updated ∨ r.updated = now) := by
  unfold probeApply probeFresh
  dsimp only
  obtain ⟨hr1, hs1, hst1⟩ := drainStep_spec w p now
  generalize (w.drainStep p now) = w1 at hr1 hs1 hst1
  have hidle1 : w1.state = .idle → w1.running = [] ∧ w1.starting = [] := by
    intro h
    rcases hst1 with h' | h'
    · rw [hr1, hs1]; exact hidle (h'.1 ▸ h)
    · rw [h'.1] at h; cases h
  have hst1' : w1.state = w.state ∨ w1.state = .shutdown :=
    hst1.elim (fun h => Or.inl h.1) (fun h => Or.inr h.1)
  have hup1 : w1.updated = w.updated ∨ w1.updated = now :=
    hst1.elim (fun h => Or.inl h.2) (fun h => Or.inr h.2)
  by_cases hfail : w1.probeFailed p = true
  · rw [if_pos hfail, hfail]
    obtain ⟨f1, f2, f3⟩ := applyFailed_spec w1 p now
    refine ⟨fun _ => ⟨f1.trans hr1, f2.trans hs1, rfl, ?_⟩, (fun h => by simp at h), ?_⟩
    · rcases f3 with f | f
      · rw [f.1]; exact hst1'
      · exact Or.inr f.1
    · rcases f3 with f | f
      · rw [f.2]; exact hup1
      · exact Or.inr f.2
  · rw [if_neg hfail]
    simp only [Bool.not_eq_true] at hfail
    rw [hfail]
    by_cases hstale : (p.stamp != w1.updated) = true
    · rw [if_pos hstale]
      have : (p.stamp == w1.updated) = false := by
        simp only [bne_iff_ne, ne_eq] at hstale; simpa using hstale
      rw [this]
      exact ⟨fun _ => ⟨hr1, hs1, rfl, hst1'⟩, (fun h => by simp at h), hup1⟩
    · rw [if_neg hstale]
      have : (p.stamp == w1.updated) = true := by
        simp only [bne_iff_ne, ne_eq, Decidable.not_not] at hstale; simpa using hstale
      rw [this]
      obtain ⟨a1, a2, a3, a4⟩ := applyFresh_spec { w1 with probed := now } p now hidle1
      refine ⟨(fun h => by simp at h), fun _ => ⟨a1, ?_, a3⟩, ?_⟩
      · intro v; rw [a2 v]; show v ∈ w1.starting ∧ (v ∈ p.uuids → v ∈ w1.running) ↔ _
        rw [hs1, hr1]
      · rcases a4 with h | h
        · have h' : (({ w1 with probed := now } : Worker).applyFresh p now).1.updated = w1.updated := h
          rw [h']; exact hup1
        · exact Or.inr h

end Worker
theorem find?_id_of_mem : ∀ (l : List Worker), l.Pairwise (fun a b => a.id ≠ b.id) →
    ∀ w ∈ l, l.find? (fun x => x.id == w.id) = some w
  | [], _, w, hw => by cases hw
  | x :: rest, hwf, w, hw => by
    rw [List.pairwise_cons] at hwf
    rcases List.mem_cons.mp hw with h | h
    · subst h; simp
    · have hne : x.id ≠ w.id := hwf.1 w h
      rw [List.find?_cons]
      have : (x.id == w.id) = false := by simpa using hne
      rw [this]
      exact find?_id_of_mem rest hwf.2 w h

theorem Pool.find_of_mem {p : Pool} (hwf : p.WF) {w : Worker} (hw : w ∈ p.workers) :
    p.find w.id = some w := find?_id_of_mem p.workers hwf w hw

end ArvVerif.C14
