/-
C17 — every entry below the output directory that is reachable through real directories (and is
not hidden by a secret mount or a mount point) is visited by a scan that succeeds.
-/
import ArvVerif.Proofs.C17_Mono
namespace ArvVerif.C17

theorem mem_of_get (h : Host) (p : Path) (n : Node) (hp : p ≠ []) (hg : h.get p = some n) : (p, n) ∈ h := by
  unfold Host.get at hg
  simp only [hp, if_false, Option.map_eq_some_iff] at hg
  obtain ⟨e, he, hn⟩ := hg
  have hm := List.mem_of_find?_eq_some he
  have hp' : e.1 = p := by simpa using List.find?_some he
  have : e = (p, n) := by rw [← hp', ← hn]
  rw [← this]; exact hm

theorem children_of_mem (h : Host) (p : Path) (c : Name) (n : Node) (hm : (p ++ [c], n) ∈ h) :
    c ∈ h.children p := by
  unfold Host.children
  simp only [List.mem_filterMap]
  exact ⟨(p ++ [c], n), hm, by simp⟩

/-- a successful loop over directory entries has made a successful call for every entry it does
not skip -/
theorem children_ok (h : Host) (cfg : Cfg) (dest src : Path) (n : Nat) :
    ∀ (names : List Name) (fuel : Nat) (st st' : Plan),
      walk h cfg fuel (.children dest src n names) st = .ok st' →
      ∀ c ∈ names, (src ++ [c]) ∉ cfg.secrets → skipMount cfg (src ++ [c]) = false →
        ∃ fuel' st1 st2, walk h cfg fuel' (.host (dest ++ [c]) (src ++ [c]) n false) st1 = .ok st2 ∧
          st2.le st' := by
  intro names
  induction names with
  | nil => intro fuel st st' _ c hc; cases hc
  | cons x xs ih =>
    intro fuel st st' hw c hc hsec hskip
    cases fuel with
    | zero => rw [walk] at hw; cases hw
    | succ fuel =>
      rw [walk] at hw
      split at hw
      · rename_i hx
        rcases List.mem_cons.mp hc with rfl | hm
        · exact absurd (by simpa using hx) hsec
        · exact ih fuel st st' hw c hm hsec hskip
      · split at hw
        · rename_i hx
          rcases List.mem_cons.mp hc with rfl | hm
          · rw [hskip] at hx; cases hx
          · exact ih fuel st st' hw c hm hsec hskip
        · obtain ⟨a, ha, hrest⟩ := bind_eq_ok _ _ _ hw
          rcases List.mem_cons.mp hc with rfl | hm
          · exact ⟨fuel, st, a, ha, walk_mono h cfg _ _ _ _ hrest⟩
          · exact ih fuel a st' hrest c hm hsec hskip

/-- how a child of a resolved directory resolves -/
theorem namei_child (h : Host) (cfg : Cfg) (src p : Path) (c : Name) (n : Node)
    (hp : cfg.ctrOut.isPrefixOf src = true)
    (hd : namei h [] (hostPath cfg src) 0 = .found p .dir) (hc : CleanName c)
    (hg : h.get (p ++ [c]) = some n) :
    namei h [] (hostPath cfg (src ++ [c])) 0 = .found (p ++ [c]) n := by
  obtain ⟨cnt', hcnt⟩ := namei_append h (hostPath cfg src) [] 0 [c] p hd
  rw [hostPath_child cfg src c hp, hcnt]
  exact namei_single h p c cnt' n hc hg

/-- one step down from a successfully walked directory -/
theorem host_step (h : Host) (cfg : Cfg) (wf : HostWF h) (dest src p : Path) (n fuel : Nat) (inc : Bool)
    (st st' : Plan) (c : Name) (node : Node)
    (hw : walk h cfg fuel (.host dest src n inc) st = .ok st')
    (hd : namei h [] (hostPath cfg src) 0 = .found p .dir)
    (hg : h.get (p ++ [c]) = some node)
    (hsec : (src ++ [c]) ∉ cfg.secrets) (hskip : skipMount cfg (src ++ [c]) = false) :
    ∃ fuel' st1 st2, walk h cfg fuel' (.host (dest ++ [c]) (src ++ [c]) n false) st1 = .ok st2 ∧
      st2.le st' := by
  cases fuel with
  | zero => rw [walk] at hw; cases hw
  | succ fuel =>
    rw [walk] at hw
    obtain ⟨a, _, hrest⟩ := bind_eq_ok _ _ _ hw
    have hnm : namei h [] (cfg.hostOut ++ src.drop cfg.ctrOut.length) 0 = .found p .dir := hd
    rw [hnm] at hrest
    simp only at hrest
    have hmem : (p ++ [c], node) ∈ h := mem_of_get h _ _ (by simp) hg
    have hch : c ∈ h.children p := children_of_mem h p c node hmem
    split at hrest
    · rename_i hnil; rw [hnil] at hch; cases hch
    · exact children_ok h cfg dest src n _ fuel _ st' hrest c ((mem_sortNames c _).mpr hch) hsec hskip

/-- entries reachable through real, visible directories are visited -/
theorem reach (h : Host) (cfg : Cfg) (wf : HostWF h) :
    ∀ (rel dest src p : Path) (n fuel : Nat) (inc : Bool) (st st' : Plan),
      walk h cfg fuel (.host dest src n inc) st = .ok st' →
      cfg.ctrOut.isPrefixOf src = true →
      namei h [] (hostPath cfg src) 0 = .found p .dir →
      (∀ k, 0 < k → k < rel.length → h.get (p ++ rel.take k) = some .dir) →
      (∀ k, 0 < k → k ≤ rel.length →
        (src ++ rel.take k) ∉ cfg.secrets ∧ skipMount cfg (src ++ rel.take k) = false) →
      ∀ node, rel ≠ [] → h.get (p ++ rel) = some node →
      ∃ fuel' inc' st1 st2,
        walk h cfg fuel' (.host (dest ++ rel) (src ++ rel) n inc') st1 = .ok st2 ∧
        namei h [] (hostPath cfg (src ++ rel)) 0 = .found (p ++ rel) node ∧ st2.le st' := by
  intro rel
  induction rel with
  | nil => intro _ _ _ _ _ _ _ _ _ _ _ _ _ _ hne; exact absurd rfl hne
  | cons c rest ih =>
    intro dest src p n fuel inc st st' hw hpre hd hdirs hvis node _ hg
    by_cases hrest : rest = []
    · subst hrest
      have hv := hvis 1 (by omega) (by simp)
      simp only [List.take_succ_cons, List.take_zero] at hv
      have hcl : CleanName c := wf.clean _ (mem_of_get h _ _ (by simp) hg) c (by simp)
      obtain ⟨f', s1, s2, hcall, hle⟩ := host_step h cfg wf dest src p n fuel inc st st' c node hw hd hg hv.1 hv.2
      exact ⟨f', false, s1, s2, hcall, namei_child h cfg src p c node hpre hd hcl hg, hle⟩
    · have hlen : 1 < (c :: rest).length := by
        cases rest with
        | nil => exact absurd rfl hrest
        | cons _ _ => simp
      have hdir1 := hdirs 1 (by omega) hlen
      simp only [List.take_succ_cons, List.take_zero] at hdir1
      have hv := hvis 1 (by omega) (by simp)
      simp only [List.take_succ_cons, List.take_zero] at hv
      have hcl : CleanName c := wf.clean _ (mem_of_get h _ _ (by simp) hdir1) c (by simp)
      obtain ⟨f', s1, s2, hcall, hle⟩ := host_step h cfg wf dest src p n fuel inc st st' c .dir hw hd hdir1 hv.1 hv.2
      have hd' := namei_child h cfg src p c .dir hpre hd hcl hdir1
      have := ih (dest ++ [c]) (src ++ [c]) (p ++ [c]) n f' false s1 s2 hcall
        (isPrefixOf_append_right _ _ _ hpre) hd'
        (by
          intro k hk0 hk
          have := hdirs (k + 1) (by omega) (by simp at hk ⊢; omega)
          simpa [List.take_succ_cons, List.append_assoc] using this)
        (by
          intro k hk0 hk
          have := hvis (k + 1) (by omega) (by simp at hk ⊢; omega)
          simpa [List.take_succ_cons, List.append_assoc] using this)
        node hrest (by simpa [List.append_assoc] using hg)
      obtain ⟨f2, i2, t1, t2, hc2, hn2, hle2⟩ := this
      exact ⟨f2, i2, t1, t2, by simpa [List.append_assoc] using hc2, by simpa [List.append_assoc] using hn2,
        Plan.le_trans hle2 hle⟩

end ArvVerif.C17
