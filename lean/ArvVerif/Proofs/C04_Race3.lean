/-
C04 interleaving layer, a sweep step as third party (`Model/C04_Race3.lean`): what one `Remove` of an
empty-trash sweep can change. Proved for EVERY state (reachable or not) and every inode.
-/
import ArvVerif.Model.C04_Race3
import ArvVerif.Proofs.C04_RaceCode
namespace ArvVerif.C04.Race

theorem sweep_blk (i : Ino) (s : St) : (sweep i s).blk = s.blk := by
  unfold sweep
  split
  · rename_i h
    cases i <;> simp only [St.loc] at h <;> simp [St.setLoc, St.blk, h] <;> rfl
  · rfl

theorem sweep_fresh (i j : Ino) (s : St) : (sweep i s).fresh j = s.fresh j := by
  unfold sweep
  split
  · cases i <;> cases j <;> rfl
  · rfl

theorem sweep_good (i j : Ino) (s : St) : (sweep i s).good j = s.good j := by
  unfold sweep
  split
  · cases i <;> cases j <;> rfl
  · rfl

theorem sweep_resP (i : Ino) (s : St) : (sweep i s).resP = s.resP := by
  unfold sweep
  split
  · cases i <;> rfl
  · rfl

theorem sweep_cfg (i : Ino) (s : St) : (sweep i s).cfg = s.cfg := by
  unfold sweep
  split
  · cases i <;> rfl
  · rfl

/-- a sweep step never touches the temp file or the block file: only an inode at a trash name changes -/
theorem sweep_loc (i j : Ino) (s : St) : (sweep i s).loc j = s.loc j ∨ (s.loc j = .trash ∧ (sweep i s).loc j = .gone) := by
  unfold sweep
  split
  · rename_i h
    cases i <;> cases j <;> simp_all [St.loc, St.setLoc]
  · exact Or.inl rfl

theorem sweep_ackSafe (i : Ino) (s : St) : ackSafe (sweep i s) = ackSafe s := by
  simp only [ackSafe, St.acked, St.protected, sweep_blk, sweep_resP, sweep_cfg]
  cases s.blk with
  | none => rfl
  | some j => simp only [sweep_fresh, sweep_good]

end ArvVerif.C04.Race
