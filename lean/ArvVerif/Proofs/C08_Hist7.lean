/-
C08 helper lemmas, part 16: the flushes (`flushDir`, `doFlush`, `doSync`) refine the identity of the
plain model.
-/
import ArvVerif.Proofs.C08_Hist6
namespace ArvVerif.C08

variable {max : Nat} {hash : Bytes → Loc}

/-- same segment lengths, size and repacked counter -/
def SimK (a b : FileNode) : Prop := SameLens a.segs b.segs ∧ a.size = b.size ∧ a.repacked = b.repacked

theorem SimK.refl (a : FileNode) : SimK a a := ⟨SameLens.refl _, rfl, rfl⟩
theorem SimK.symm {a b : FileNode} (h : SimK a b) : SimK b a := ⟨SameLens.symm h.1, h.2.1.symm, h.2.2.symm⟩
theorem SimK.trans {a b c : FileNode} (h1 : SimK a b) (h2 : SimK b c) : SimK a c :=
  ⟨h1.1.trans h2.1, h1.2.1.trans h2.2.1, h1.2.2.trans h2.2.2⟩

theorem SimK.ptr {a b : FileNode} (h : SimK a b) {q : Ptr} (hq : PtrOK b q) : PtrOK a q :=
  hq.preserved (by rw [h.2.2]; exact Int.le_refl _) (fun _ => ⟨h.1, h.2.1⟩)

theorem filterMap_full {α β : Type} (g : α → Option β) :
    ∀ (l : List α), (l.filterMap g).length = l.length →
      ∀ (i : Nat) (x : α), l[i]? = some x → ∃ y, g x = some y ∧ (l.filterMap g)[i]? = some y := by
  intro l
  induction l with
  | nil => intro _ i x h; simp at h
  | cons a rest ih =>
    intro hlen i x hx
    cases hg : g a with
    | none =>
      rw [List.filterMap_cons_none hg] at hlen
      have := List.length_filterMap_le g rest
      simp at hlen; omega
    | some y =>
      rw [List.filterMap_cons_some hg] at hlen ⊢
      cases i with
      | zero => simp at hx; subst hx; exact ⟨y, hg, by simp⟩
      | succ i =>
        simp only [List.getElem?_cons_succ] at hx ⊢
        exact ih (by simpa using hlen) i x hx

theorem fold_setFile_abs : ∀ (L : List (Nat × FileNode)) (s1 : CFS),
    absFS (L.foldl (fun s (fc : Nat × FileNode) => setFile s fc.1 fc.2) s1) =
      (L.map (fun fc => (fc.1, abs s1.world fc.2))).foldl (fun s (fc : Nat × Bytes) => setFile s fc.1 fc.2) (absFS s1) := by
  intro L
  induction L with
  | nil => intro s1; rfl
  | cons fc rest ih =>
    intro s1
    simp only [List.foldl_cons, List.map_cons]
    rw [ih, setFile_abs]
    have : (setFile s1 fc.1 fc.2).world = s1.world := by
      unfold setFile; cases s1.files[fc.1]? <;> rfl
    rw [this]

theorem map_abs_of_key {st st' : Store} {cs cs' : List FileNode}
    (h : cs'.map (fileKey st') = cs.map (fileKey st)) : cs'.map (abs st') = cs.map (abs st) := by
  have e : ∀ (x : Store) (fn : FileNode), abs x fn = (fileKey x fn).1.flatten := by
    intro x fn; unfold abs absSegs fileKey; rw [List.flatMap_def]
  have : ∀ (x : Store) (l : List FileNode), l.map (abs x) = (l.map (fileKey x)).map (fun k => k.1.flatten) := by
    intro x l; rw [List.map_map]; apply List.map_congr_left; intro fn _; exact e x fn
  rw [this, this, h]

/-- the fold that writes the flushed files back keeps the invariant -/
theorem fold_setFile_inv {s : CFS} {w : Store} (hext : StoreExt s.world w) :
    ∀ (L : List (Nat × FileNode)) (s1 : CFS),
      (∀ fc ∈ L, ∃ nf0, s.files[fc.1]? = some nf0 ∧ SimK fc.2 nf0.2 ∧ WF max hash w fc.2 ∧ 0 ≤ fc.2.repacked) →
      Inv max hash s1 → s1.world = w →
      (∀ (f : Nat) (nf1 : String × FileNode), s1.files[f]? = some nf1 →
        ∃ nf0 : String × FileNode, s.files[f]? = some nf0 ∧ SimK nf1.2 nf0.2) →
      Inv max hash (L.foldl (fun s (fc : Nat × FileNode) => setFile s fc.1 fc.2) s1) := by
  intro L
  induction L with
  | nil => intro s1 _ h _ _; exact h
  | cons fc rest ih =>
    intro s1 hgood hinv1 hw hrel
    simp only [List.foldl_cons]
    obtain ⟨nf0, h0, hsim, hwf, hrep⟩ := hgood fc (List.mem_cons_self ..)
    have hw' : (setFile s1 fc.1 fc.2).world = w := by
      unfold setFile; cases s1.files[fc.1]? <;> exact hw
    apply ih _ (fun x hx => hgood x (List.mem_cons_of_mem _ hx)) _ hw'
    · -- relation to the original files
      intro f nf1 hnf1
      unfold setFile at hnf1
      cases hcur : s1.files[fc.1]? with
      | none => rw [hcur] at hnf1; exact hrel f nf1 hnf1
      | some cur =>
        rw [hcur] at hnf1
        simp only [List.getElem?_set] at hnf1
        by_cases hff : fc.1 = f
        · rw [if_pos hff] at hnf1
          split at hnf1
          · cases hnf1; subst hff; exact ⟨nf0, h0, hsim⟩
          · cases hnf1
        · rw [if_neg hff] at hnf1
          exact hrel f nf1 hnf1
    · apply hinv1.setFile fc.1 fc.2 (by rw [hw]; exact hwf) hrep
      intro cur hcur q hq
      obtain ⟨nf0', h0', hsim'⟩ := hrel fc.1 cur hcur
      rw [h0] at h0'; cases h0'
      exact (hsim.trans hsim'.symm).ptr hq

theorem sortedFiles_abs (s : CFS) (d : Nat) : sortedFiles (absFS s) d = sortedFiles s d := rfl

theorem flushDir_ref (hinj : Function.Injective hash) {s : CFS} (hinv : Inv max hash s) (short : Bool) (d : Nat) :
    absFS (flushDir (concImpl hash max) short s d) = flushDir specImpl short (absFS s) d ∧
    Inv max hash (flushDir (concImpl hash max) short s d) := by
  unfold flushDir
  simp only [sortedFiles_abs]
  obtain ⟨pairs, hpairs⟩ : ∃ pairs, pairs =
      (sortedFiles s d).filterMap (fun e => (s.files[e.2]?).map (fun nf => (e.2, nf.2))) := ⟨_, rfl⟩
  have hps : (sortedFiles s d).filterMap (fun e => ((absFS s).files[e.2]?).map (fun nf => (e.2, nf.2)))
      = pairs.map (fun fc => (fc.1, abs s.world fc.2)) := by
    rw [hpairs, List.map_filterMap]
    congr 1
    funext e
    simp only [absFS_files, absFiles_get]
    cases s.files[e.2]? <;> rfl
  rw [← hpairs, hps]
  -- every pair is (id, content of that id)
  have hpair : ∀ fc ∈ pairs, ∃ nf0 : String × FileNode, s.files[fc.1]? = some nf0 ∧ nf0.2 = fc.2 := by
    intro fc hfc
    rw [hpairs] at hfc
    obtain ⟨e, _, he⟩ := List.mem_filterMap.mp hfc
    cases hfile : s.files[e.2]? with
    | none => rw [hfile] at he; cases he
    | some nf =>
      rw [hfile] at he; simp only [Option.map_some, Option.some.injEq] at he
      rw [← he]; exact ⟨nf, hfile, rfl⟩
  obtain ⟨cs, hcs⟩ : ∃ cs, cs = pairs.map (·.2) := ⟨_, rfl⟩
  have hcswf : AllWF max hash s.world cs := by
    intro fn hfn sg hsg
    rw [hcs] at hfn
    obtain ⟨fc, hfc, hfn'⟩ := List.mem_map.mp hfn
    obtain ⟨nf0, h0, h1⟩ := hpair fc hfc
    rw [← hfn', ← h1] at hsg
    exact (hinv.files nf0 (List.mem_of_getElem? h0)).1.segs sg hsg
  have hcss : (pairs.map (fun fc => (fc.1, abs s.world fc.2))).map (·.2) = cs.map (abs s.world) := by
    rw [hcs, List.map_map, List.map_map]; rfl
  have hids : (pairs.map (fun fc => (fc.1, abs s.world fc.2))).map (·.1) = pairs.map (·.1) := by
    rw [List.map_map]; rfl
  rw [← hcs, hcss, hids]
  obtain ⟨f1, f2, f3, f4⟩ := flushFiles_spec hinj hinv.ok cs hcswf short
  have hfl : (concImpl hash max).flush s.world cs short = flushFiles hash max s.world cs short := rfl
  have hsf : ∀ X, specImpl.flush (absFS s).world X short = ((), X) := fun _ => rfl
  rw [hfl, hsf]
  generalize flushFiles hash max s.world cs short = r at f1 f2 f3 f4 ⊢
  obtain ⟨w, cs'⟩ := r
  simp only [] at f1 f2 f3 f4 ⊢
  -- every written-back pair is good
  have hgood : ∀ fc ∈ (pairs.map (·.1)).zip cs', ∃ nf0 : String × FileNode, s.files[fc.1]? = some nf0 ∧
      SimK fc.2 nf0.2 ∧ WF max hash w fc.2 ∧ 0 ≤ fc.2.repacked := by
    intro fc hfc
    obtain ⟨i, hi⟩ := List.mem_iff_getElem?.mp hfc
    obtain ⟨hi1, hi2⟩ := List.getElem?_zip_eq_some.mp hi
    simp only [List.getElem?_map, Option.map_eq_some_iff] at hi1
    obtain ⟨pc, hpc, hpc1⟩ := hi1
    obtain ⟨nf0, h0, h1⟩ := hpair pc (List.mem_of_getElem? hpc)
    have hci : cs[i]? = some pc.2 := by rw [hcs]; simp [hpc]
    have hk : fileKey w fc.2 = fileKey s.world pc.2 := by
      have h1' : (cs'.map (fileKey w))[i]? = some (fileKey w fc.2) := by simp [hi2]
      rw [f4] at h1'
      simp only [List.getElem?_map, hci, Option.map_some, Option.some.injEq] at h1'
      exact h1'.symm
    obtain ⟨_, k2, k3, k4⟩ := abs_of_key hk
    obtain ⟨hwf0, hrep0⟩ := hinv.files nf0 (List.mem_of_getElem? h0)
    rw [← h1] at k2 k3 k4
    refine ⟨nf0, by rw [← hpc1]; exact h0, ⟨k2, k3, k4⟩, ⟨?_, f3 fc.2 (List.mem_of_getElem? hi2)⟩, by rw [k4]; exact hrep0⟩
    rw [k3, hwf0.size_eq]; exact (k2.sumLen).symm
  refine ⟨?_, ?_⟩
  · rw [fold_setFile_abs, absFS_ext_world hinv f1]
    show List.foldl _ (absFS s) (((pairs.map (·.1)).zip cs').map (fun fc => (fc.1, abs w fc.2))) =
      List.foldl _ (absFS s) _
    have : ((pairs.map (·.1)).zip cs').map (fun fc => (fc.1, abs w fc.2)) =
        (pairs.map (·.1)).zip (cs.map (abs s.world)) := by
      rw [← map_abs_of_key f4, List.zip_map_right]
      rfl
    rw [this]
  · exact fold_setFile_inv f1 _ _ hgood (hinv.ext_world f1 f2) rfl
      (fun f nf1 h => ⟨nf1, h, SimK.refl _⟩)

theorem foldl_flushDir_ref (hinj : Function.Injective hash) (short : Bool) :
    ∀ (ds : List Nat) (s : CFS), Inv max hash s →
      absFS (ds.foldl (flushDir (concImpl hash max) short) s) = ds.foldl (flushDir specImpl short) (absFS s) ∧
      Inv max hash (ds.foldl (flushDir (concImpl hash max) short) s) := by
  intro ds
  induction ds with
  | nil => intro s hinv; exact ⟨rfl, hinv⟩
  | cons d rest ih =>
    intro s hinv
    simp only [List.foldl_cons]
    obtain ⟨h1, h2⟩ := flushDir_ref hinj hinv short d
    obtain ⟨i1, i2⟩ := ih _ h2
    exact ⟨by rw [i1, h1], i2⟩

theorem doSync_ref (hinj : Function.Injective hash) {s : CFS} (hinv : Inv max hash s) :
    Ref3 max hash (doSync (concImpl hash max) s) (doSync specImpl (absFS s)) := by
  unfold doSync
  obtain ⟨h1, h2⟩ := foldl_flushDir_ref hinj true (subdirs s.ents s.dirs.length 0) s hinv
  exact ⟨rfl, h1, h2⟩

theorem doFlush_ref (hinj : Function.Injective hash) {s : CFS} (hinv : Inv max hash s) (path : String) (short : Bool) :
    Ref3 max hash (doFlush (concImpl hash max) s path short) (doFlush specImpl (absFS s) path short) := by
  unfold doFlush
  simp only [absFS_ents, absFS_dirs]
  cases walk s.ents s.dirs (Node.dir 0) (splitPath path) with
  | error e => exact Ref3.same hinv _
  | ok n =>
    cases n with
    | file f => exact Ref3.same hinv _
    | dir d =>
      simp only []
      obtain ⟨h1, h2⟩ := foldl_flushDir_ref hinj short
        (if (path == "") = true then subdirs s.ents s.dirs.length d else [d]) s hinv
      exact ⟨rfl, h1, h2⟩

end ArvVerif.C08
