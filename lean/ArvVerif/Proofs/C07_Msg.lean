/-
C07 helper lemmas, part 3: the MAC input `hash@token@expiry@ttl` determines its four components
(for fixed-length hash and expiry and a TTL field without `@`), the signature text is 40 lowercase
hex digits, TTL formatting is injective on whole seconds.
-/
import ArvVerif.Proofs.C07_Match
namespace ArvVerif.C07

theorem first_sep_unique {sep : Char} {a a' b b' : Str} (ha : Free sep a) (ha' : Free sep a')
    (h : a ++ sep :: b = a' ++ sep :: b') : a = a' ∧ b = b' := by
  induction a generalizing a' with
  | nil =>
    cases a' with
    | nil => simpa using h
    | cons c cs =>
      simp at h
      exact absurd h.1.symm (ha' c (List.mem_cons_self ..))
  | cons c cs ih =>
    cases a' with
    | nil =>
      simp at h
      exact absurd h.1 (ha c (List.mem_cons_self ..))
    | cons d ds =>
      simp only [List.cons_append, List.cons.injEq] at h
      obtain ⟨rfl, h⟩ := h
      obtain ⟨rfl, rfl⟩ := ih (fun x hx => ha x (List.mem_cons_of_mem _ hx))
        (fun x hx => ha' x (List.mem_cons_of_mem _ hx)) h
      exact ⟨rfl, rfl⟩

theorem last_sep_unique {sep : Char} {a a' b b' : Str} (hb : Free sep b) (hb' : Free sep b')
    (h : a ++ sep :: b = a' ++ sep :: b') : a = a' ∧ b = b' := by
  have h2 := congrArg List.reverse h
  simp only [List.reverse_append, List.reverse_cons, List.append_assoc, List.singleton_append] at h2
  obtain ⟨e1, e2⟩ := first_sep_unique (a := b.reverse) (a' := b'.reverse)
    (fun c hc => hb c (List.mem_reverse.mp hc)) (fun c hc => hb' c (List.mem_reverse.mp hc)) h2
  exact ⟨List.reverse_inj.mp e2, List.reverse_inj.mp e1⟩

/-- `hash@token@expiry@ttl` can be taken apart again: equal messages have equal components -/
theorem sigMessage_injective {h h' t t' e e' l l' : Str}
    (hh : h.length = h'.length) (he : e.length = e'.length) (hl : Free '@' l) (hl' : Free '@' l')
    (hm : sigMessage h t e l = sigMessage h' t' e' l') : h = h' ∧ t = t' ∧ e = e' ∧ l = l' := by
  unfold sigMessage at hm
  obtain ⟨h1, rfl⟩ := last_sep_unique hl hl' hm
  obtain ⟨h2, h3⟩ := List.append_inj' h1 (by simp [he])
  obtain ⟨rfl, h4⟩ := List.append_inj h2 hh
  simp only [List.cons.injEq, true_and] at h3 h4
  exact ⟨rfl, h4, h3, rfl⟩

theorem ne_at_of_isLowerHex {c : Char} (h : isLowerHex c = true) : c ≠ '@' :=
  ne_at_of_isXDigit (isXDigit_of_isLowerHex h)

theorem intHex_free_at (v : Int) : Free '@' (intHex v) := by
  intro c hc
  unfold intHex at hc
  split at hc
  · exact ne_at_of_isLowerHex (natHex_lowerHex _ c hc)
  · rcases List.mem_cons.mp hc with rfl | hc
    · decide
    · exact ne_at_of_isLowerHex (natHex_lowerHex _ c hc)

theorem ttlHex_free_at (ttlNs : Int) : Free '@' (ttlHex ttlNs) := intHex_free_at _

theorem intHex_injective {v w : Int} (h : intHex v = intHex w) : v = w := by
  have hneg : ∀ n m : Nat, natHex n ≠ '-' :: natHex m := by
    intro n m e
    have hne := natHex_ne_nil n
    cases hn : natHex n with
    | nil => exact hne hn
    | cons c cs =>
      rw [hn] at e
      have : isLowerHex c = true := natHex_lowerHex n c (by rw [hn]; exact List.mem_cons_self ..)
      simp only [List.cons.injEq] at e
      rw [e.1] at this
      revert this; decide
  unfold intHex at h
  split at h <;> split at h
  · have := natHex_injective h; omega
  · exact absurd h (hneg _ _)
  · exact absurd h.symm (hneg _ _)
  · simp only [List.cons.injEq, true_and] at h
    have := natHex_injective h; omega

/-- equal TTL fields ⇔ equal whole seconds -/
theorem ttlHex_eq_iff {a b : Int} : ttlHex a = ttlHex b ↔ ttlSeconds a = ttlSeconds b :=
  ⟨fun h => intHex_injective h, fun h => by unfold ttlHex; rw [h]⟩

theorem hexOfDigest_length (d : List UInt8) : (hexOfDigest d).length = 2 * d.length := by
  induction d with
  | nil => rfl
  | cons b bs ih => simp only [hexOfDigest, List.flatMap_cons] at ih ⊢; simp [ih]; omega

theorem hexOfDigest_lowerHex (d : List UInt8) : (hexOfDigest d).all isLowerHex = true := by
  rw [List.all_eq_true]
  intro c hc
  simp only [hexOfDigest, List.mem_flatMap, List.mem_cons, List.not_mem_nil, or_false] at hc
  obtain ⟨b, _, rfl | rfl⟩ := hc
  · exact isLowerHex_digitChar _ (by have := b.toNat_lt; omega)
  · exact isLowerHex_digitChar _ (Nat.mod_lt _ (by decide))

theorem all_isXDigit_of_all_isLowerHex {s : Str} (h : s.all isLowerHex = true) :
    s.all isXDigit = true := by
  rw [List.all_eq_true] at h ⊢
  exact fun c hc => isXDigit_of_isLowerHex (h c hc)

end ArvVerif.C07
