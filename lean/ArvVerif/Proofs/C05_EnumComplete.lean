/-
C05 helper lemmas, part 9: for a strict weak order the enumeration `allSorted` produces exactly
the sorted permutations of its input — so "implementation ∈ allowed(model)" can neither miss a
behaviour an unstable sort may show nor accept one it cannot show.
-/
import ArvVerif.Proofs.C05Enum
namespace ArvVerif.C05

variable {α : Type}

/-- what `sort.Slice` needs of its `less` -/
structure StrictWeak (lt : α → α → Bool) : Prop where
  irrefl : ∀ a, lt a a = false
  trans : ∀ a b c, lt a b = true → lt b c = true → lt a c = true
  ntrans : ∀ a b c, lt a b = false → lt b c = false → lt a c = false

theorem StrictWeak.asymm {lt : α → α → Bool} (h : StrictWeak lt) {a b : α} (hab : lt a b = true) : lt b a = false := by
  cases hba : lt b a with
  | false => rfl
  | true =>
    have := h.trans a b a hab hba
    rw [h.irrefl a] at this; cases this

/-- sorted in the sense of `IsSorted` -/
def SortedBy (lt : α → α → Bool) (l : List α) : Prop := l.Pairwise (fun a b => lt b a = false)

/-! ### `perms` is complete -/

theorem mem_insertions (a : α) : ∀ (l₁ l₂ : List α), (l₁ ++ a :: l₂) ∈ insertions a (l₁ ++ l₂) := by
  intro l₁
  induction l₁ with
  | nil =>
    intro l₂
    cases l₂ with
    | nil => simp [insertions]
    | cons b l => simp [insertions]
  | cons b l₁ ih =>
    intro l₂
    simp only [List.cons_append]
    unfold insertions
    exact List.mem_cons_of_mem _ (List.mem_map.2 ⟨_, ih l₂, rfl⟩)

theorem perms_complete : ∀ (l r : List α), r.Perm l → r ∈ perms l := by
  intro l
  induction l with
  | nil => intro r h; rw [List.Perm.eq_nil h]; simp [perms]
  | cons a l ih =>
    intro r h
    have ha : a ∈ r := h.mem_iff.2 (List.mem_cons_self ..)
    obtain ⟨r₁, r₂, rfl⟩ := List.append_of_mem ha
    have h' : (r₁ ++ r₂).Perm l := by
      have : (a :: (r₁ ++ r₂)).Perm (a :: l) := (List.perm_middle).symm.trans h
      exact (List.perm_cons a).1 this
    unfold perms
    exact List.mem_flatMap.2 ⟨r₁ ++ r₂, ih _ h', mem_insertions a r₁ r₂⟩

/-! ### the minimum -/

theorem minOf_min {lt : α → α → Bool} (h : StrictWeak lt) : ∀ (l : List α) (a : α),
    lt (minOf lt a l) a = true ∨ minOf lt a l = a := by
  intro l
  induction l with
  | nil => intro a; right; rfl
  | cons b l ih =>
    intro a
    unfold minOf
    simp only [List.foldl_cons]
    have := ih (if lt b a then b else a)
    unfold minOf at this
    by_cases hba : lt b a = true
    · simp only [hba, if_true] at this ⊢
      rcases this with h1 | h1
      · left; exact h.trans _ _ _ h1 hba
      · left; rw [h1]; exact hba
    · simp only [hba] at this ⊢
      exact this

theorem minOf_minimal {lt : α → α → Bool} (h : StrictWeak lt) : ∀ (l : List α) (a : α),
    ∀ x ∈ a :: l, lt x (minOf lt a l) = false := by
  intro l
  induction l with
  | nil =>
    intro a x hx
    have : x = a := by simpa using hx
    subst this; exact h.irrefl _
  | cons b l ih =>
    intro a x hx
    have hunf : minOf lt a (b :: l) = minOf lt (if lt b a then b else a) l := by
      unfold minOf; simp only [List.foldl_cons]
    rw [hunf]
    have IH := ih (if lt b a then b else a)
    rcases List.mem_cons.1 hx with rfl | hx'
    · -- x = a
      by_cases hba : lt b x = true
      · simp only [hba, if_true] at IH ⊢
        -- m ≤ b < x, so not x < m
        rcases minOf_min h l b with h1 | h1
        · exact h.asymm (h.trans _ _ _ h1 hba)
        · rw [h1]; exact h.asymm hba
      · simp only [hba] at IH ⊢
        exact IH x (List.mem_cons_self ..)
    · rcases List.mem_cons.1 hx' with rfl | hx''
      · -- x = b
        by_cases hba : lt x a = true
        · simp only [hba, if_true] at IH ⊢
          exact IH x (List.mem_cons_self ..)
        · have hba' : lt x a = false := Bool.eq_false_iff.mpr hba
          simp only [hba] at IH ⊢
          -- not x < a and not a < m'... use negative transitivity: ¬ x<a, ¬ a<m ⇒ ¬ x<m
          exact h.ntrans x a _ hba' (IH a (List.mem_cons_self ..))
      · exact IH x (List.mem_cons_of_mem _ hx'')

/-! ### sorted lists split at the minimal class -/

theorem sorted_split_min {lt : α → α → Bool} (h : StrictWeak lt) (m : α) :
    ∀ (r : List α), SortedBy lt r →
      r = r.filter (fun x => !lt m x) ++ r.filter (fun x => lt m x) := by
  intro r
  induction r with
  | nil => intro _; rfl
  | cons a l ih =>
    intro hs
    have hs' := List.pairwise_cons.1 hs
    cases hma : lt m a with
    | false =>
      simp only [List.filter_cons, hma, Bool.not_false, if_true, Bool.false_eq_true, if_false, List.cons_append]
      congr 1
      exact ih hs'.2
    | true =>
      -- every later element is above m as well
      have hall : ∀ b ∈ l, lt m b = true := by
        intro b hb
        cases hmb : lt m b with
        | true => rfl
        | false =>
          have := h.ntrans m b a hmb (hs'.1 b hb)
          rw [hma] at this; cases this
      have e1 : l.filter (fun x => !lt m x) = [] := by
        rw [List.filter_eq_nil_iff]; intro b hb; simp [hall b hb]
      have e2 : l.filter (fun x => lt m x) = l := by
        rw [List.filter_eq_self]; intro b hb; exact hall b hb
      simp [hma, e1, e2]

/-! ### exactness -/

theorem groupProducts_cons (g : List α) (gs : List (List α)) (r : List α) :
    r ∈ groupProducts (g :: gs) ↔ ∃ p ∈ perms g, ∃ q ∈ groupProducts gs, r = p ++ q := by
  have e : groupProducts (g :: gs) = (perms g).flatMap (fun p => (groupProducts gs).map (p ++ ·)) := rfl
  rw [e]
  simp only [List.mem_flatMap, List.mem_map]
  constructor
  · rintro ⟨p, hp, q, hq, rfl⟩; exact ⟨p, hp, q, hq, rfl⟩
  · rintro ⟨p, hp, q, hq, rfl⟩; exact ⟨p, hp, q, hq, rfl⟩

/-- For a strict weak order, the concatenations of group permutations are exactly the sorted
permutations of the input. -/
theorem sortedGroups_exact {lt : α → α → Bool} (h : StrictWeak lt) : ∀ (n : Nat) (l : List α), l.length ≤ n →
    ∀ r, r ∈ groupProducts (sortedGroups lt n l) ↔ (r.Perm l ∧ SortedBy lt r) := by
  intro n
  induction n with
  | zero =>
    intro l hl r
    have : l = [] := List.length_eq_zero_iff.1 (Nat.le_zero.1 hl)
    subst this
    simp only [sortedGroups, List.isEmpty_nil, if_true, groupProducts, List.mem_singleton]
    constructor
    · rintro rfl; exact ⟨List.Perm.refl _, List.Pairwise.nil⟩
    · rintro ⟨hp, _⟩; exact List.Perm.eq_nil hp
  | succ n ih =>
    intro l hl r
    cases l with
    | nil =>
      simp only [sortedGroups, groupProducts, List.mem_singleton]
      constructor
      · rintro rfl; exact ⟨List.Perm.refl _, List.Pairwise.nil⟩
      · rintro ⟨hp, _⟩; exact List.Perm.eq_nil hp
    | cons a l =>
      have hunf : sortedGroups lt (n + 1) (a :: l) =
          ((a :: l).filter (fun x => !lt (minOf lt a l) x)) ::
            sortedGroups lt n ((a :: l).filter (fun x => lt (minOf lt a l) x)) := rfl
      rw [hunf, groupProducts_cons]
      generalize hm : minOf lt a l = m
      have hmem : m ∈ a :: l := hm ▸ minOf_mem lt l a
      have hmin : ∀ x ∈ a :: l, lt x m = false := hm ▸ minOf_minimal h l a
      have hlen : ((a :: l).filter (fun x => lt m x)).length ≤ n := by
        have h1 : ((a :: l).filter (fun x => lt m x)).length < (a :: l).length := by
          apply List.length_filter_lt_length_iff_exists.2
          exact ⟨m, hmem, by rw [h.irrefl m]; simp⟩
        simp only [List.length_cons] at hl h1
        omega
      have IH := ih ((a :: l).filter (fun x => lt m x)) hlen
      have hpart : ((a :: l).filter (fun x => !lt m x) ++ (a :: l).filter (fun x => lt m x)).Perm (a :: l) := by
        have := filter_partition_perm (fun x => !lt m x) (a :: l)
        simpa using this
      constructor
      · rintro ⟨p, hp, q, hq, rfl⟩
        have hpp := perms_perm _ p hp
        obtain ⟨hqp, hqs⟩ := (IH q).1 hq
        refine ⟨(hpp.append hqp).trans hpart, ?_⟩
        unfold SortedBy
        rw [List.pairwise_append]
        refine ⟨?_, hqs, ?_⟩
        · -- inside the minimal class nothing is below anything
          have hin : ∀ x ∈ p, lt m x = false ∧ lt x m = false := by
            intro x hx
            have hx' := List.mem_filter.1 (hpp.mem_iff.1 hx)
            exact ⟨by simpa using hx'.2, hmin x hx'.1⟩
          have : ∀ x ∈ p, ∀ y ∈ p, lt y x = false :=
            fun x hx y hy => h.ntrans y m x (hin y hy).2 (hin x hx).1
          exact List.pairwise_of_forall_mem_list (fun x hx y hy => this x hx y hy)
        · intro x hx y hy
          have hx' := List.mem_filter.1 (hpp.mem_iff.1 hx)
          have hy' := List.mem_filter.1 (hqp.mem_iff.1 hy)
          have hmx : lt m x = false := by simpa using hx'.2
          have hmy : lt m y = true := hy'.2
          -- y < x together with ¬ m < x … contradiction via ntrans: ¬m<x ⇒ (¬x<y ⇒ ¬m<y)
          cases hyx : lt y x with
          | false => rfl
          | true =>
            -- from y < x and ¬ x < m … use: ¬ m < y would follow from ¬ m < x and ¬ x < y; instead derive x<y impossible
            have hxy : lt x y = false := h.asymm hyx
            have := h.ntrans m x y hmx hxy
            rw [hmy] at this; cases this
      · rintro ⟨hperm, hsort⟩
        have hsplit := sorted_split_min h m r hsort
        refine ⟨r.filter (fun x => !lt m x), ?_, r.filter (fun x => lt m x), ?_, hsplit⟩
        · exact perms_complete _ _ (hperm.filter _)
        · apply (IH _).2
          exact ⟨hperm.filter _, hsort.sublist List.filter_sublist⟩

/-- `allSorted` is exact: for a strict weak order it returns precisely the lists `IsSorted` allows -/
theorem allSorted_exact {lt : α → α → Bool} (h : StrictWeak lt) (l : List α) (rs : List (List α))
    (hrs : allSorted lt l = some rs) (r : List α) : r ∈ rs ↔ IsSorted lt l r := by
  unfold allSorted at hrs
  simp only at hrs
  split at hrs
  · cases hrs
  · cases hrs
    exact sortedGroups_exact h l.length l (Nat.le_refl _) r

end ArvVerif.C05
