/-
C20 helper lemmas, part 2: what the per-cluster loop delivers (honest backend), what its call log
says (any backend), and the merge.
-/
import ArvVerif.Proofs.C20
namespace ArvVerif.C20

/-- An honest answer to `uuid in batch`: a duplicate-free list of existing objects whose uuid is in
the batch, non-empty whenever such an object exists (any size ≥ 1, any order). `ex` says which
uuids exist on that cluster. -/
def HonestResp (ex : Uuid → Bool) (batch : List Uuid) (r : Resp) : Prop :=
  ∃ items, r = .page items ∧ (pageUuids items).Nodup ∧
    (∀ u ∈ pageUuids items, u ∈ batch ∧ ex u = true) ∧
    ((∃ u ∈ batch, ex u = true) → items ≠ [])

/-- A backend that answers every batch request honestly, at every call index, whatever the other
options are. -/
def Honest (ex : Uuid → Bool) (B : Backend) : Prop :=
  ∀ (o : Opts) (batch : List Uuid) (idx : Nat), o.filters = [batchFilter batch] →
    HonestResp ex batch (B o idx)

def respItems : Resp → List Obj
  | .page items => items
  | .error _ => []

/-- everything the backends handed over, in log order -/
def logItems (log : List (Opts × Resp)) : List Obj := log.flatMap (fun e => respItems e.2)

theorem pageUuids_append (a b : List Obj) : pageUuids (a ++ b) = pageUuids a ++ pageUuids b := by
  simp [pageUuids]

theorem loop_honest (ex : Uuid → Bool) (B : Backend) (hB : Honest ex B) (ropts : Opts)
    (fuel : Nat) (todo : List Uuid) (idx : Nat) (hnd : todo.Nodup) (hf : todo.length ≤ fuel) :
    (clusterLoop B ropts fuel todo idx).stop = .done ∧
    (pageUuids (clusterLoop B ropts fuel todo idx).pages.flatten).Nodup ∧
    ∀ u, u ∈ pageUuids (clusterLoop B ropts fuel todo idx).pages.flatten ↔ (u ∈ todo ∧ ex u = true) := by
  induction fuel generalizing todo idx with
  | zero =>
    have : todo = [] := List.length_eq_zero_iff.mp (Nat.le_zero.mp hf)
    subst this
    simp [clusterLoop, pageUuids]
  | succ fuel ih =>
    by_cases hne : todo = []
    · subst hne; simp [clusterLoop, pageUuids]
    · rw [loop_step B ropts fuel todo idx hne]
      obtain ⟨items, hresp, hnd', hsub, hnonempty⟩ := hB (batchReq ropts todo) todo idx rfl
      rw [hresp]
      simp only
      by_cases hi : items = []
      · subst hi
        simp only [if_true, List.flatten_cons, List.flatten_nil, List.append_nil, pageUuids, List.map_nil,
          List.nodup_nil, List.not_mem_nil, false_iff, true_and]
        intro u ⟨hu, he⟩
        exact hnonempty ⟨u, hu, he⟩ rfl
      · simp only [hi, if_false]
        have hacc : ¬ accepts todo (pageUuids items) = false := by
          rw [Bool.not_eq_false, accepts_iff]
          exact ⟨hnd', fun u hu => (hsub u hu).1⟩
        simp only [if_neg hacc]
        have hprog : (remaining todo items).length ≠ todo.length := by
          rw [progress_iff]
          cases items with
          | nil => exact absurd rfl hi
          | cons x xs =>
            exact ⟨x.uuid, by simp [pageUuids], (hsub x.uuid (by simp [pageUuids])).1⟩
        simp only [hprog, if_false, push_stop, push_pages, List.flatten_cons, pageUuids_append]
        have hle := remaining_length_le todo items
        obtain ⟨h1, h2, h3⟩ := ih (remaining todo items) (idx + 1) (hnd.filter _) (by omega)
        refine ⟨h1, ?_, ?_⟩
        · rw [List.nodup_append]
          refine ⟨hnd', h2, ?_⟩
          intro a ha b hb hab
          subst hab
          have := (h3 a).mp hb
          exact ((mem_remaining todo items a).mp this.1).2 ha
        · intro u
          rw [List.mem_append, h3, mem_remaining]
          constructor
          · rintro (hu | ⟨⟨hu, _⟩, he⟩)
            · exact hsub u hu
            · exact ⟨hu, he⟩
          · rintro ⟨hu, he⟩
            by_cases hp : u ∈ pageUuids items
            · exact Or.inl hp
            · exact Or.inr ⟨⟨hu, hp⟩, he⟩

/-- Every object the loop hands to the merge was returned by this backend in answer to a batch
made of still-wanted uuids of this cluster (any backend). -/
theorem loop_provenance (B : Backend) (ropts : Opts) (fuel : Nat) (todo : List Uuid) (idx : Nat) :
    ∀ x ∈ (clusterLoop B ropts fuel todo idx).pages.flatten,
      ∃ batch i items, (∀ u ∈ batch, u ∈ todo) ∧ B (batchReq ropts batch) i = .page items ∧ x ∈ items := by
  induction fuel generalizing todo idx with
  | zero => intro x hx; by_cases h : todo = [] <;> simp [clusterLoop, h] at hx
  | succ fuel ih =>
    intro x hx
    by_cases hne : todo = []
    · subst hne; simp [clusterLoop] at hx
    · rw [loop_step B ropts fuel todo idx hne] at hx
      cases hB : B (batchReq ropts todo) idx with
      | error s => rw [hB] at hx; simp at hx
      | page items =>
        rw [hB] at hx
        simp only at hx
        by_cases hi : items = []
        · simp [hi] at hx
        · simp only [hi, if_false] at hx
          by_cases ha : accepts todo (pageUuids items) = false
          · simp only [ha, if_true, List.flatten_cons, List.flatten_nil, List.append_nil] at hx
            exact ⟨todo, idx, items, fun _ h => h, hB, hx⟩
          · simp only [if_neg ha] at hx
            by_cases hp : (remaining todo items).length = todo.length
            · simp only [hp, if_true, List.flatten_cons, List.flatten_nil, List.append_nil] at hx
              exact ⟨todo, idx, items, fun _ h => h, hB, hx⟩
            · simp only [hp, if_false, push_pages, List.flatten_cons, List.mem_append] at hx
              rcases hx with hx | hx
              · exact ⟨todo, idx, items, fun _ h => h, hB, hx⟩
              · obtain ⟨batch, i, its, h1, h2, h3⟩ := ih _ _ x hx
                exact ⟨batch, i, its, fun u hu => remaining_sub _ _ _ (h1 u hu), h2, h3⟩

/-- The call log of the loop (any backend): every entry is a real call with a non-empty batch of
still-wanted uuids; the pages merged are exactly the pages logged; a failure is a 502; and the loop
ends normally only if every call returned a page that was empty or consisted of pairwise distinct
uuids of its batch (so it also contained a wanted uuid). -/
theorem loop_log (B : Backend) (ropts : Opts) (fuel : Nat) (todo : List Uuid) (idx : Nat) :
    let r := clusterLoop B ropts fuel todo idx
    (∀ e ∈ r.log, ∃ batch i, batch ≠ [] ∧ (∀ u ∈ batch, u ∈ todo) ∧
        e = (batchReq ropts batch, B (batchReq ropts batch) i)) ∧
    r.pages.flatten = logItems r.log ∧
    (∀ s, r.stop = .failed s → s = 502) ∧
    (r.stop = .done → ∀ e ∈ r.log, ∃ batch items, e.1 = batchReq ropts batch ∧ e.2 = .page items ∧
        (items = [] ∨ ((pageUuids items).Nodup ∧ (∀ u ∈ pageUuids items, u ∈ batch) ∧
          ∃ u ∈ pageUuids items, u ∈ batch))) := by
  induction fuel generalizing todo idx with
  | zero => by_cases h : todo = [] <;> simp [clusterLoop, h, logItems]
  | succ fuel ih =>
    by_cases hne : todo = []
    · subst hne; simp [clusterLoop, logItems]
    · simp only
      rw [loop_step B ropts fuel todo idx hne]
      cases hB : B (batchReq ropts todo) idx with
      | error s =>
        simp only [List.mem_singleton, logItems, List.flatMap_cons, List.flatMap_nil, respItems,
          List.flatten_nil, List.append_nil, true_and]
        refine ⟨?_, ?_, ?_⟩
        · rintro e rfl; exact ⟨todo, idx, hne, fun _ h => h, by rw [hB]⟩
        · intro s' h; cases h; rfl
        · intro h; cases h
      | page items =>
        simp only
        by_cases hi : items = []
        · subst hi
          simp only [if_true, List.mem_singleton, logItems, List.flatMap_cons, List.flatMap_nil, respItems,
            List.flatten_cons, List.flatten_nil, List.append_nil, true_and]
          refine ⟨?_, ?_, ?_⟩
          · rintro e rfl; exact ⟨todo, idx, hne, fun _ h => h, by rw [hB]⟩
          · intro s' h; cases h
          · rintro _ e rfl; exact ⟨todo, [], rfl, rfl, Or.inl rfl⟩
        · simp only [hi, if_false]
          by_cases ha : accepts todo (pageUuids items) = false
          · simp only [ha, if_true, List.mem_singleton, logItems, List.flatMap_cons, List.flatMap_nil, respItems,
              List.flatten_cons, List.flatten_nil, List.append_nil, true_and]
            refine ⟨?_, ?_, ?_⟩
            · rintro e rfl; exact ⟨todo, idx, hne, fun _ h => h, by rw [hB]⟩
            · intro s' h; cases h; rfl
            · intro h; cases h
          · simp only [if_neg ha]
            by_cases hp : (remaining todo items).length = todo.length
            · simp only [hp, if_true, List.mem_singleton, logItems, List.flatMap_cons, List.flatMap_nil, respItems,
                List.flatten_cons, List.flatten_nil, List.append_nil, true_and]
              refine ⟨?_, ?_, ?_⟩
              · rintro e rfl; exact ⟨todo, idx, hne, fun _ h => h, by rw [hB]⟩
              · intro s' h; cases h; rfl
              · intro h; cases h
            · simp only [hp, if_false, push_log, push_pages, push_stop, List.mem_cons, List.flatten_cons]
              obtain ⟨h1, h2, h3, h4⟩ := ih (remaining todo items) (idx + 1)
              refine ⟨?_, ?_, h3, ?_⟩
              · rintro e (rfl | he)
                · exact ⟨todo, idx, hne, fun _ h => h, by rw [hB]⟩
                · obtain ⟨batch, i, hb1, hb2, hb3⟩ := h1 e he
                  exact ⟨batch, i, hb1, fun u hu => remaining_sub _ _ _ (hb2 u hu), hb3⟩
              · rw [h2]; simp [logItems, respItems]
              · intro hd e he
                rcases he with rfl | he
                · have hacc := (accepts_iff todo (pageUuids items)).mp (by simpa using ha)
                  exact ⟨todo, items, rfl, rfl, Or.inr ⟨hacc.1, hacc.2, (progress_iff todo items).mp hp⟩⟩
                · exact h4 hd e he

/-- Safety of the loop for **any** backend: if it ends normally, the uuids it handed to the merge
are pairwise distinct and were all requested from this cluster. -/
theorem loop_safe (B : Backend) (ropts : Opts) (fuel : Nat) (todo : List Uuid) (idx : Nat)
    (hd : (clusterLoop B ropts fuel todo idx).stop = .done) :
    (pageUuids (clusterLoop B ropts fuel todo idx).pages.flatten).Nodup ∧
    ∀ u ∈ pageUuids (clusterLoop B ropts fuel todo idx).pages.flatten, u ∈ todo := by
  induction fuel generalizing todo idx with
  | zero => by_cases h : todo = [] <;> simp [clusterLoop, h, pageUuids] at hd ⊢
  | succ fuel ih =>
    by_cases hne : todo = []
    · subst hne; simp [clusterLoop, pageUuids]
    · rw [loop_step B ropts fuel todo idx hne] at hd ⊢
      cases hB : B (batchReq ropts todo) idx with
      | error s => rw [hB] at hd; simp at hd
      | page items =>
        rw [hB] at hd
        simp only at hd ⊢
        by_cases hi : items = []
        · simp [hi, pageUuids]
        · simp only [hi, if_false] at hd ⊢
          by_cases ha : accepts todo (pageUuids items) = false
          · simp [ha] at hd
          · simp only [if_neg ha] at hd ⊢
            by_cases hp : (remaining todo items).length = todo.length
            · simp [hp] at hd
            · simp only [hp, if_false, push_stop, push_pages, List.flatten_cons, pageUuids_append] at hd ⊢
              have hacc := (accepts_iff todo (pageUuids items)).mp (by simpa using ha)
              obtain ⟨h1, h2⟩ := ih (remaining todo items) (idx + 1) hd
              refine ⟨?_, ?_⟩
              · rw [List.nodup_append]
                refine ⟨hacc.1, h1, ?_⟩
                intro a ha' b hb hab
                subst hab
                exact ((mem_remaining todo items a).mp (h2 a hb)).2 ha'
              · intro u hu
                rcases List.mem_append.mp hu with hu | hu
                · exact hacc.2 u hu
                · exact remaining_sub _ _ _ (h2 u hu)

/-- A backend that pages correctly except that it may also return existing objects outside the
batch (e.g. objects it already delivered, "repeated items"): every returned object exists, and
while a wanted object remains the page contains one. -/
def RepeatingHonest (ex : Uuid → Bool) (B : Backend) : Prop :=
  ∀ (o : Opts) (batch : List Uuid) (idx : Nat), o.filters = [batchFilter batch] →
    ∃ items, B o idx = .page items ∧ (∀ u ∈ pageUuids items, ex u = true) ∧
      ((∃ u ∈ batch, ex u = true) → ∃ u ∈ pageUuids items, u ∈ batch)

theorem honest_repeating (ex : Uuid → Bool) (B : Backend) (h : Honest ex B) : RepeatingHonest ex B := by
  intro o batch idx hf
  obtain ⟨items, h1, _, h3, h4⟩ := h o batch idx hf
  refine ⟨items, h1, fun u hu => (h3 u hu).2, ?_⟩
  intro hex
  have hne := h4 hex
  cases items with
  | nil => exact absurd rfl hne
  | cons x xs => exact ⟨x.uuid, by simp [pageUuids], (h3 x.uuid (by simp [pageUuids])).1⟩

/-- Completeness for repeating backends: if the loop ends normally, every wanted uuid that exists
was delivered, and everything delivered exists. -/
theorem loop_complete (ex : Uuid → Bool) (B : Backend) (hB : RepeatingHonest ex B) (ropts : Opts)
    (fuel : Nat) (todo : List Uuid) (idx : Nat)
    (hd : (clusterLoop B ropts fuel todo idx).stop = .done) :
    (∀ u ∈ todo, ex u = true → u ∈ pageUuids (clusterLoop B ropts fuel todo idx).pages.flatten) ∧
    (∀ u ∈ pageUuids (clusterLoop B ropts fuel todo idx).pages.flatten, ex u = true) := by
  induction fuel generalizing todo idx with
  | zero => by_cases h : todo = [] <;> simp [clusterLoop, h, pageUuids] at hd ⊢
  | succ fuel ih =>
    by_cases hne : todo = []
    · subst hne; simp [clusterLoop, pageUuids]
    · rw [loop_step B ropts fuel todo idx hne] at hd ⊢
      obtain ⟨items, hresp, hex, hprog⟩ := hB (batchReq ropts todo) todo idx rfl
      rw [hresp] at hd ⊢
      simp only at hd ⊢
      by_cases hi : items = []
      · subst hi
        simp only [if_true, List.flatten_cons, List.flatten_nil, List.append_nil, pageUuids, List.map_nil,
          List.not_mem_nil, false_imp_iff, implies_true, and_true]
        intro u hu he
        obtain ⟨v, hv, _⟩ := hprog ⟨u, hu, he⟩
        simp [pageUuids] at hv
      · simp only [hi, if_false] at hd ⊢
        by_cases ha : accepts todo (pageUuids items) = false
        · simp [ha] at hd
        · simp only [if_neg ha] at hd ⊢
          by_cases hp : (remaining todo items).length = todo.length
          · simp [hp] at hd
          · simp only [hp, if_false, push_stop, push_pages, List.flatten_cons, pageUuids_append] at hd ⊢
            obtain ⟨h1, h2⟩ := ih (remaining todo items) (idx + 1) hd
            refine ⟨?_, ?_⟩
            · intro u hu he
              by_cases hin : u ∈ pageUuids items
              · exact List.mem_append.mpr (Or.inl hin)
              · exact List.mem_append.mpr (Or.inr (h1 u ((mem_remaining todo items u).mpr ⟨hu, hin⟩) he))
            · intro u hu
              rcases List.mem_append.mp hu with hu | hu
              · exact hex u hu
              · exact h2 u hu

/-- first call fails ⇒ the cluster fails with 502 -/
theorem loop_first_error (B : Backend) (ropts : Opts) (fuel : Nat) (todo : List Uuid) (idx s : Nat)
    (hne : todo ≠ []) (hB : B (batchReq ropts todo) idx = .error s) :
    (clusterLoop B ropts (fuel + 1) todo idx).stop = .failed 502 ∧
    (clusterLoop B ropts (fuel + 1) todo idx).log.length = 1 := by
  rw [loop_step B ropts fuel todo idx hne, hB]; simp

/-- a first page that carries a uuid outside the batch, or the same uuid twice ⇒ the cluster fails
with 502 after that call (this subsumes the no-progress answer) -/
theorem loop_first_stray (B : Backend) (ropts : Opts) (fuel : Nat) (todo : List Uuid) (idx : Nat)
    (items : List Obj) (hne : todo ≠ []) (hB : B (batchReq ropts todo) idx = .page items)
    (hbad : ¬ ((pageUuids items).Nodup ∧ ∀ u ∈ pageUuids items, u ∈ todo)) :
    (clusterLoop B ropts (fuel + 1) todo idx).stop = .failed 502 ∧
    (clusterLoop B ropts (fuel + 1) todo idx).log.length = 1 := by
  rw [loop_step B ropts fuel todo idx hne, hB]
  have hi : items ≠ [] := by
    intro h; subst h; exact hbad ⟨by simp [pageUuids], by simp [pageUuids]⟩
  have ha : accepts todo (pageUuids items) = false := by
    cases h : accepts todo (pageUuids items) with
    | false => rfl
    | true => exact absurd ((accepts_iff _ _).mp h) hbad
  simp [hi, ha]

/-! ### merge -/

theorem tsGe_trans : ∀ a b c : Obj, tsGe a b = true → tsGe b c = true → tsGe a c = true := by
  intro a b c; simp only [tsGe, decide_eq_true_eq]; omega

theorem tsGe_total : ∀ a b : Obj, (tsGe a b || tsGe b a) = true := by
  intro a b; simp only [tsGe, Bool.or_eq_true, decide_eq_true_eq]; omega

theorem flatten_filter_ne_nil' (ps : List (List Obj)) :
    (ps.filter (fun p => decide (p ≠ []))).flatten = ps.flatten := by
  induction ps with
  | nil => rfl
  | cons p ps ih =>
    by_cases h : p = []
    · subst h; simpa using ih
    · simpa [h] using ih

/-- The merged result is a permutation of everything the merge callback was given: nothing is
dropped, nothing is de-duplicated. -/
theorem mergePages_perm (ps : List (List Obj)) : (mergePages ps).Perm ps.flatten := by
  unfold mergePages
  simp only
  split
  · rw [← flatten_filter_ne_nil' ps]; exact List.mergeSort_perm _ _
  · rw [flatten_filter_ne_nil' ps]

/-- when two or more non-empty pages arrived the result is in "modified_at desc" order -/
theorem mergePages_sorted (ps : List (List Obj))
    (h : 2 ≤ (ps.filter (fun p => decide (p ≠ []))).length) :
    (mergePages ps).Pairwise (fun a b => b.ts ≤ a.ts) := by
  unfold mergePages
  simp only [h, if_true]
  have := List.pairwise_mergeSort tsGe_trans tsGe_total (ps.filter (fun p => decide (p ≠ []))).flatten
  exact this.imp (by intro a b hab; simpa [tsGe] using hab)

/-- with fewer than two non-empty pages the result is the single page as the backend returned it -/
theorem mergePages_single (ps : List (List Obj))
    (h : ¬ 2 ≤ (ps.filter (fun p => decide (p ≠ []))).length) :
    mergePages ps = ps.flatten := by
  unfold mergePages
  simp only [h, if_false]
  exact flatten_filter_ne_nil' ps

end ArvVerif.C20
