/-
C10 — escape / unescape: every escaper of the tree (`manifest.EscapeName` fixed, `manifestEscape`,
Python `escape`) is inverted by every unescaper (`manifest.UnescapeName`, `manifestUnescape`, the
specification's `\ooo` reader) on every byte string; the Go unescapers agree with the
specification's on every token inside the grammar.
-/
import ArvVerif.Model.C10_Py
namespace ArvVerif.C10

/-- per-byte check of `fmt.Sprintf("\\%03o", c)`: three octal digits, the first in 0..3, that
read back as `c` -/
def octCheck (c : UInt8) : Bool :=
  match octDigits c with
  | [a, b, d] =>
    let v := (a.toNat - 48) * 64 + (b.toNat - 48) * 8 + (d.toNat - 48)
    isOctDigit a && isOctDigit b && isOctDigit d && UInt8.ofNat v == c && decide (v < 256) &&
      decide (48 ≤ a) && decide (a ≤ 51)
  | _ => false

set_option maxRecDepth 100000 in
theorem octCheck_all : ∀ n : Fin 256, octCheck (UInt8.ofNat n.val) = true := by decide

theorem octCheck_ok (c : UInt8) : octCheck c = true := by
  have := octCheck_all ⟨c.toNat, c.toNat_lt⟩
  simpa using this

theorem octDigits_spec (c : UInt8) : ∃ a b d, octDigits c = [a, b, d] ∧
    isOctDigit a = true ∧ isOctDigit b = true ∧ isOctDigit d = true ∧
    UInt8.ofNat ((a.toNat - 48) * 64 + (b.toNat - 48) * 8 + (d.toNat - 48)) = c ∧
    (a.toNat - 48) * 64 + (b.toNat - 48) * 8 + (d.toNat - 48) < 256 ∧ 48 ≤ a ∧ a ≤ 51 := by
  have h := octCheck_ok c
  unfold octCheck at h
  refine ⟨_, _, _, rfl, ?_⟩
  simp only [octDigits, Bool.and_eq_true, decide_eq_true_eq, beq_iff_eq] at h
  obtain ⟨⟨⟨⟨⟨⟨h1, h2⟩, h3⟩, h4⟩, h5⟩, h6⟩, h7⟩ := h
  exact ⟨h1, h2, h3, h4, h5, h6, h7⟩

/-- the skip counter of `goUnescapeAux` just drops bytes -/
theorem goUnescapeAux_skip (dig : UInt8 → Bool) : ∀ (k : Nat) (l : Bytes),
    goUnescapeAux dig k l = goUnescapeAux dig 0 (l.drop k)
  | 0, l => by simp
  | k + 1, [] => by simp [goUnescapeAux]
  | k + 1, _ :: rest => by
    simp only [goUnescapeAux, List.drop_succ_cons]
    exact goUnescapeAux_skip dig k rest

theorem goUnescapeAux_plain (dig : UInt8 → Bool) (c : UInt8) (rest : Bytes) (h : c ≠ bBackslash) :
    goUnescapeAux dig 0 (c :: rest) = c :: goUnescapeAux dig 0 rest := by
  have : (c == bBackslash) = false := by simpa using h
  simp [goUnescapeAux, this]

/-- a valid `\ooo` escape is decoded by the Go unescapers -/
theorem goUnescapeAux_esc (dig : UInt8 → Bool) (hd : ∀ c, isOctDigit c = true → dig c = true)
    (a b d : UInt8) (rest : Bytes) (ha : isOctDigit a = true) (hb : isOctDigit b = true)
    (hdd : isOctDigit d = true)
    (hv : (a.toNat - 48) * 64 + (b.toNat - 48) * 8 + (d.toNat - 48) < 256) :
    goUnescapeAux dig 0 (bBackslash :: a :: b :: d :: rest) =
      UInt8.ofNat ((a.toNat - 48) * 64 + (b.toNat - 48) * 8 + (d.toNat - 48)) :: goUnescapeAux dig 0 rest := by
  have e : goUnescapeAux dig 3 (a :: b :: d :: rest) = goUnescapeAux dig 0 rest := by
    rw [goUnescapeAux_skip]; rfl
  simp [goUnescapeAux, hd a ha, hd b hb, hd d hdd, ha, hb, hdd, hv, bBackslash] at e ⊢

/-- **Round trip, any escaper / any Go unescaper**: if the escaper escapes at least the backslash
and the unescaper's digit class contains the octal digits, unescape ∘ escape = id on every byte
string. -/
theorem goUnescape_escapeWith (dig p : UInt8 → Bool) (hd : ∀ c, isOctDigit c = true → dig c = true)
    (hp : p bBackslash = true) : ∀ s : Bytes, goUnescape dig (escapeWith p s) = s := by
  intro s
  unfold goUnescape
  induction s with
  | nil => rfl
  | cons c rest ih =>
    unfold escapeWith
    by_cases hc : p c = true
    · rw [if_pos hc]
      obtain ⟨a, b, d, hoct, ha, hb, hdd, hval, hv, _, _⟩ := octDigits_spec c
      rw [hoct]
      simp only [List.cons_append, List.nil_append]
      rw [goUnescapeAux_esc dig hd a b d _ ha hb hdd hv, hval, ih]
    · rw [if_neg hc]
      have hne : c ≠ bBackslash := by intro h; subst h; exact hc hp
      rw [goUnescapeAux_plain dig c _ hne, ih]

theorem isOctDigit_isDigit (c : UInt8) (h : isOctDigit c = true) : isDigit c = true := by
  simp only [isOctDigit, isDigit, Bool.and_eq_true, decide_eq_true_eq] at h ⊢
  refine ⟨h.1, ?_⟩
  have := h.2
  exact UInt8.le_trans this (by decide)

/-- **Round trip for the specification's reader**: an escaper that escapes at least the backslash
produces a token the specification unescapes to the original name. -/
theorem specUnescape_escapeWith (p : UInt8 → Bool) (hp : p bBackslash = true) :
    ∀ s : Bytes, specUnescape (escapeWith p s) = some s := by
  intro s
  induction s with
  | nil => rfl
  | cons c rest ih =>
    unfold escapeWith
    by_cases hc : p c = true
    · rw [if_pos hc]
      obtain ⟨a, b, d, hoct, ha, hb, hdd, hval, hv, h48, h51⟩ := octDigits_spec c
      rw [hoct]
      simp only [List.cons_append, List.nil_append]
      unfold specUnescape
      have h1 : (48 ≤ a && a ≤ 51 && isOctDigit b && isOctDigit d) = true := by
        simp [h48, h51, hb, hdd]
      simp only [beq_self_eq_true, if_true, h1, ih, Option.map_some, hval]
    · rw [if_neg hc]
      have hne : (c == bBackslash) = false := by
        simp only [beq_eq_false_iff_ne]; intro h; subst h; exact hc hp
      unfold specUnescape
      simp [hne, ih]

/-- an escaper that escapes every byte ≤ 32 never emits a delimiter or control byte -/
theorem escapeWith_no_delim (p : UInt8 → Bool) (hp : ∀ c : UInt8, c ≤ 32 → p c = true) :
    ∀ s : Bytes, ∀ x ∈ escapeWith p s, 32 < x := by
  intro s
  induction s with
  | nil => intro x hx; simp [escapeWith] at hx
  | cons c rest ih =>
    intro x hx
    unfold escapeWith at hx
    by_cases hc : p c = true
    · rw [if_pos hc] at hx
      obtain ⟨a, b, d, hoct, ha, hb, hdd, _⟩ := octDigits_spec c
      rw [hoct] at hx
      simp only [List.cons_append, List.nil_append, List.mem_cons] at hx
      have h48 : ∀ y : UInt8, isOctDigit y = true → 32 < y := by
        intro y hy
        simp only [isOctDigit, Bool.and_eq_true, decide_eq_true_eq] at hy
        exact UInt8.lt_of_lt_of_le (by decide) hy.1
      rcases hx with rfl | rfl | rfl | rfl | hx
      · decide
      · exact h48 _ ha
      · exact h48 _ hb
      · exact h48 _ hdd
      · exact ih x hx
    · rw [if_neg hc] at hx
      rcases List.mem_cons.mp hx with rfl | hx
      · by_cases h : 32 < x
        · exact h
        · exact absurd (hp x (UInt8.not_lt.mp h)) hc
      · exact ih x hx

/-- **The Go unescapers agree with the specification inside the grammar**: whatever the
specification reads as `u`, `UnescapeName` / `manifestUnescape` read as `u` too. -/
theorem goUnescape_of_spec (dig : UInt8 → Bool) (hd : ∀ c, isOctDigit c = true → dig c = true) :
    ∀ (n : Nat) (t u : Bytes), t.length ≤ n → specUnescape t = some u → goUnescape dig t = u := by
  intro n
  unfold goUnescape
  induction n with
  | zero =>
    intro t u hl h
    have : t = [] := List.length_eq_zero_iff.mp (Nat.le_zero.mp hl)
    subst this; simp [specUnescape] at h; subst h; rfl
  | succ n ih =>
    intro t u hl h
    cases t with
    | nil => simp [specUnescape] at h; subst h; rfl
    | cons c rest =>
      unfold specUnescape at h
      by_cases hc : (c == bBackslash) = true
      · rw [if_pos hc] at h
        have hceq : c = bBackslash := by simpa using hc
        subst hceq
        match rest, h, hl with
        | a :: b :: d :: rest', h, hl =>
          simp only [] at h
          by_cases hok : (48 ≤ a && a ≤ 51 && isOctDigit b && isOctDigit d) = true
          · rw [if_pos hok] at h
            simp only [Bool.and_eq_true, decide_eq_true_eq] at hok
            obtain ⟨⟨⟨h48, h51⟩, hb⟩, hdd⟩ := hok
            cases hr : specUnescape rest' with
            | none => rw [hr] at h; simp at h
            | some u' =>
              rw [hr] at h; simp only [Option.map_some, Option.some.injEq] at h
              have ha : isOctDigit a = true := by
                simp only [isOctDigit, Bool.and_eq_true, decide_eq_true_eq]
                exact ⟨h48, UInt8.le_trans h51 (by decide)⟩
              have hv : (a.toNat - 48) * 64 + (b.toNat - 48) * 8 + (d.toNat - 48) < 256 := by
                have h1 : a.toNat ≤ 51 := UInt8.le_iff_toNat_le.mp h51
                simp only [isOctDigit, Bool.and_eq_true, decide_eq_true_eq] at hb hdd
                have h2 : b.toNat ≤ 55 := UInt8.le_iff_toNat_le.mp hb.2
                have h3 : d.toNat ≤ 55 := UInt8.le_iff_toNat_le.mp hdd.2
                omega
              rw [goUnescapeAux_esc dig hd a b d rest' ha hb hdd hv,
                ih rest' u' (by simp only [List.length_cons] at hl; omega) hr, ← h]
          · rw [if_neg hok] at h; cases h
        | [], h, _ => simp at h
        | [_], h, _ => simp at h
        | [_, _], h, _ => simp at h
      · rw [if_neg hc] at h
        cases hr : specUnescape rest with
        | none => rw [hr] at h; simp at h
        | some u' =>
          rw [hr] at h; simp only [Option.map_some, Option.some.injEq] at h
          have hne : c ≠ bBackslash := by simpa using hc
          rw [goUnescapeAux_plain dig c rest hne,
            ih rest u' (by simp only [List.length_cons] at hl; omega) hr, ← h]

end ArvVerif.C10
