/-
C13 helper lemmas, part 4: the `Write` step of the concurrent model (C08's `filenode.Write` without
`settle`, then the fresh pruneMemSegments marks become tokens) refines the plain `pwrite` and keeps
the invariant.
-/
import ArvVerif.Proofs.C13_Marks
import ArvVerif.Proofs.C13_Complete
namespace ArvVerif.C13
open ArvVerif.C08

variable {max : Nat} {hash : Bytes → Loc}

/-- the instance of `MarkPred` used for the invariant: a token mark is backed by Keep -/
def GTok (max : Nat) (hash : Bytes → Loc) (world : Store) (toks : List Tok) (b : Bytes) : Flush → Prop
  | Flush.pending t l => l = max + 1 → TokOK hash world toks t b
  | _ => True

theorem GTok.pred (world : Store) (toks : List Tok) : MarkPred max (GTok max hash world toks) := by
  refine ⟨⟨fun _ => trivial, ?_⟩, ?_⟩
  · intro b fl n h
    cases fl with
    | none => trivial
    | stale => trivial
    | pending t l => exact fun hl => (h hl).take n
  · intro b i hb hl
    omega

theorem GTok.of_mark {world : Store} {toks : List Tok} {b : Bytes} {fl : Flush}
    (h : MarkOK max hash world toks (Seg.mem b fl)) : GTok max hash world toks b fl := by
  cases fl with
  | none => trivial
  | stale => trivial
  | pending t l => exact fun _ => h.2

theorem GTok.mono {world world' : Store} {toks more : List Tok} {b : Bytes} {fl : Flush}
    (he : StoreExt world world') (h : GTok max hash world toks b fl) : GTok max hash world' (toks ++ more) b fl := by
  cases fl with
  | none => trivial
  | stale => trivial
  | pending t l => exact fun hl => (h hl).mono he

theorem AllG.of_marks {world : Store} {toks : List Tok} {segs : List Seg}
    (h : ∀ sg ∈ segs, MarkOK max hash world toks sg) : AllG (GTok max hash world toks) segs :=
  fun _ _ hm => GTok.of_mark (h _ hm)

theorem segWF_mark {st : Store} {b : Bytes} {fl : Flush} (h : SegWF max hash st (Seg.mem b fl)) (t : Nat) :
    SegWF max hash st (Seg.mem b (mark max t)) := by
  refine ⟨h.1, h.2.1, ?_⟩
  intro i l hil
  unfold mark at hil
  cases hil
  have := h.2.1
  exact ⟨by omega, fun heq => by omega⟩

theorem segWF_stale {st : Store} {b : Bytes} {fl : Flush} (h : SegWF max hash st (Seg.mem b fl)) :
    SegWF max hash st (Seg.mem b Flush.stale) :=
  ⟨h.1, h.2.1, fun _ _ hil => by cases hil⟩

/-- `tokenizeFrom` only changes `flushing` fields; afterwards every mark is a token backed by Keep. -/
theorem tokenizeFrom_spec {st : Store} (f : Nat) : ∀ (segs : List Seg) (pos n : Nat) (toks0 : List Tok),
    toks0.length = n → (∀ sg ∈ segs, SegWF max hash st sg) → AllG (GTok max hash st toks0) segs →
    (tokenizeFrom max f segs pos n).1.map Seg.len = segs.map Seg.len ∧
    (tokenizeFrom max f segs pos n).1.map (Seg.bytes st) = segs.map (Seg.bytes st) ∧
    (∀ sg ∈ (tokenizeFrom max f segs pos n).1, SegWF max hash st sg) ∧
    (∀ sg ∈ (tokenizeFrom max f segs pos n).1, MarkOK max hash st (toks0 ++ (tokenizeFrom max f segs pos n).2.1) sg) := by
  intro segs
  induction segs with
  | nil => intro pos n toks0 _ _ _; exact ⟨rfl, rfl, (fun _ h => by cases h), (fun _ h => by cases h)⟩
  | cons sg rest ih =>
    intro pos n toks0 hn hwf hG
    have hwfr : ∀ x ∈ rest, SegWF max hash st x := fun x hx => hwf x (List.mem_cons_of_mem _ hx)
    have hGr : AllG (GTok max hash st toks0) rest := hG.sub (fun x hx => List.mem_cons_of_mem _ hx)
    have hwf0 := hwf sg (List.mem_cons_self ..)
    -- the generic "keep this segment" case
    have keep : MarkOK max hash st toks0 sg →
        (sg :: (tokenizeFrom max f rest (pos + 1) n).1).map Seg.len = (sg :: rest).map Seg.len ∧
        (sg :: (tokenizeFrom max f rest (pos + 1) n).1).map (Seg.bytes st) = (sg :: rest).map (Seg.bytes st) ∧
        (∀ x ∈ sg :: (tokenizeFrom max f rest (pos + 1) n).1, SegWF max hash st x) ∧
        (∀ x ∈ sg :: (tokenizeFrom max f rest (pos + 1) n).1,
          MarkOK max hash st (toks0 ++ (tokenizeFrom max f rest (pos + 1) n).2.1) x) := by
      intro hm
      obtain ⟨i1, i2, i3, i4⟩ := ih (pos + 1) n toks0 hn hwfr hGr
      refine ⟨by simp only [List.map_cons, i1], by simp only [List.map_cons, i2], ?_, ?_⟩
      · intro x hx
        rcases List.mem_cons.mp hx with h | h
        · rw [h]; exact hwf0
        · exact i3 x h
      · intro x hx
        rcases List.mem_cons.mp hx with h | h
        · rw [h]; exact hm.mono (StoreExt.refl _)
        · exact i4 x h
    cases sg with
    | stored loc size off l => exact keep trivial
    | mem buf fl =>
      cases fl with
      | none => exact keep trivial
      | stale => exact keep trivial
      | pending i l =>
        unfold tokenizeFrom
        by_cases hl : l = max + 1
        · simp only [hl, if_true]
          have := keep ⟨hl, hG _ _ (List.mem_cons_self ..) hl⟩
          rw [hl] at this
          exact this
        · simp only [hl, if_false]
          by_cases hl2 : l = buf.length
          · simp only [hl2, if_true]
            have hput : st (hash buf) = some buf := (hwf0.2.2 i l rfl).2 hl2
            have hGr' : AllG (GTok max hash st (toks0 ++ [⟨buf, 0, some buf.length⟩])) rest :=
              fun b fl hm => (hGr b fl hm).mono (StoreExt.refl _)
            obtain ⟨i1, i2, i3, i4⟩ := ih (pos + 1) (n + 1) (toks0 ++ [⟨buf, 0, some buf.length⟩])
              (by simp [hn]) hwfr hGr'
            refine ⟨by simp only [List.map_cons, i1]; rfl, by simp only [List.map_cons, i2]; rfl, ?_, ?_⟩
            · intro x hx
              rcases List.mem_cons.mp hx with h | h
              · rw [h]; exact segWF_mark hwf0 n
              · exact i3 x h
            · intro x hx
              rcases List.mem_cons.mp hx with h | h
              · rw [h]
                refine ⟨rfl, ⟨buf, 0, some buf.length⟩, ?_, by simp, hput⟩
                rw [List.getElem?_append_right (by omega)]
                simp [hn]
              · have := i4 x h
                rw [List.append_assoc] at this
                exact this
          · simp only [hl2, if_false]
            obtain ⟨i1, i2, i3, i4⟩ := ih (pos + 1) n toks0 hn hwfr hGr
            refine ⟨by simp only [List.map_cons, i1]; rfl, by simp only [List.map_cons, i2]; rfl, ?_, ?_⟩
            · intro x hx
              rcases List.mem_cons.mp hx with h | h
              · rw [h]; exact segWF_stale hwf0
              · exact i3 x h
            · intro x hx
              rcases List.mem_cons.mp hx with h | h
              · rw [h]; trivial
              · exact i4 x h

theorem absSegs_of_map {st : Store} {a b : List Seg} (h : a.map (Seg.bytes st) = b.map (Seg.bytes st)) :
    absSegs st a = absSegs st b := by
  unfold absSegs
  rw [List.flatMap_def, List.flatMap_def, h]

theorem setFile_world {F P W : Type} (s : FS F P W) (f : Nat) (c : F) : (setFile s f c).world = s.world := by
  unfold setFile
  split <;> rfl

/-- the Write step: result and abstract state as in the plain model, invariant kept -/
theorem doWrite_ref (hinj : Function.Injective hash) (hmax : 1 ≤ max) {s : St} (hinv : Inv13 max hash s)
    (h : Nat) (data : Bytes) :
    (doWrite hash max s h data).2.1 = (step specImpl (absFS s.fs) (Op.write h data)).2 ∧
    absFS (doWrite hash max s h data).1.fs = (step specImpl (absFS s.fs) (Op.write h data)).1 ∧
    Inv13 max hash (doWrite hash max s h data).1 := by
  unfold doWrite step
  simp only [getHandle_abs]
  cases hg : getHandle s.fs h with
  | none => exact ⟨rfl, rfl, hinv⟩
  | some hd =>
    simp only [Option.map_some, absH_node]
    have hwr : (absH hd).wr = hd.wr := rfl
    rw [hwr]
    cases hdwr : hd.wr with
    | false => exact ⟨rfl, rfl, hinv⟩
    | true =>
      simp only [Bool.not_true, Bool.false_eq_true, if_false]
      cases hnode : hd.node with
      | dir d =>
        simp only []
        refine ⟨by first | rfl | trivial, by rw [setHandle_abs]; rfl, ⟨?_, hinv.marks⟩⟩
        apply hinv.base.setHandle
        intro f hf; simp at hf
      | file f =>
        simp only [absFS_files, absFiles_get]
        cases hf : s.fs.files[f]? with
        | none => exact ⟨rfl, rfl, hinv⟩
        | some nf =>
          simp only [Option.map_some]
          obtain ⟨hwf, hrep⟩ := hinv.base.files nf (List.mem_of_getElem? hf)
          obtain ⟨e, he, heq⟩ := getHandle_mem hg
          obtain ⟨nf', hnf', hp⟩ := hinv.base.handles e he f (by rw [heq]; exact hnode)
          rw [hf] at hnf'; cases hnf'
          rw [heq] at hp
          obtain ⟨p0, hp0⟩ : ∃ p0, p0 = (if hd.app = true then appendPtr nf.2 else hd.ptr) := ⟨_, rfl⟩
          have hp0ok : PtrOK nf.2 p0 := by
            rw [hp0]; split
            · exact appendPtr_ok _
            · exact hp
          obtain ⟨w, hw1, hw2⟩ := write_spec hinj hmax hinv.base.ok hwf hrep hp0ok data
          rw [← hp0, hw1]
          simp only []
          -- marks after the C08 write, then tokenize
          have hG0 : AllG (GTok max hash s.fs.world s.toks) nf.2.segs :=
            AllG.of_marks (hinv.marks nf (List.mem_of_getElem? hf))
          have hG1 : AllG (GTok max hash s.fs.world s.toks) w.fn.segs :=
            write_G hinj hmax (GTok.pred _ _) hinv.base.ok hwf hrep hp0ok data hG0 hw1
          have hG2 : AllG (GTok max hash w.st s.toks) w.fn.segs := by
            intro b fl hm
            have := (hG1 b fl hm).mono (more := []) hw2.ext
            rw [List.append_nil] at this
            exact this
          obtain ⟨t1, t2, t3, t4⟩ := tokenizeFrom_spec (max := max) (hash := hash) f w.fn.segs 0 s.toks.length s.toks rfl hw2.wf.segs hG2
          obtain ⟨r, hr⟩ : ∃ r, r = tokenizeFrom max f w.fn.segs 0 s.toks.length := ⟨_, rfl⟩
          rw [← hr] at t1 t2 t3 t4 ⊢
          have hsame : SameLens r.1 w.fn.segs := t1
          have hwfc : WF max hash w.st { w.fn with segs := r.1 } :=
            ⟨by show w.fn.size = sumLen r.1; rw [hsame.sumLen]; exact hw2.wf.size_eq, t3⟩
          have habs : abs w.st { w.fn with segs := r.1 } = abs w.st w.fn := absSegs_of_map t2
          have hptrs : ∀ q, PtrOK w.fn q → PtrOK { w.fn with segs := r.1 } q :=
            fun q hq => hq.preserved (Int.le_refl _) (fun _ => ⟨hsame, rfl⟩)
          have hsw : specImpl.write (absFS s.fs).world (abs s.fs.world nf.2) (absH hd).ptr (absH hd).app data =
              Except.ok ((), specWrite (abs s.fs.world nf.2) p0.off data, p0.off + data.length, data.length) := by
            show Except.ok ((), specWrite (abs s.fs.world nf.2) (if hd.app = true then (abs s.fs.world nf.2).length else hd.ptr.off) data,
              (if hd.app = true then (abs s.fs.world nf.2).length else hd.ptr.off) + data.length, data.length) = _
            have : (if hd.app = true then (abs s.fs.world nf.2).length else hd.ptr.off) = p0.off := by
              rw [hp0]; split
              · rw [hwf.abs_length]; rfl
              · rfl
            rw [this]
          rw [hsw]
          simp only []
          have hinv1 : Inv max hash { s.fs with world := w.st } := hinv.base.ext_world hw2.ext hw2.ok
          have hf1 : ({ s.fs with world := w.st } : Conc).files[f]? = some nf := hf
          have hinv2 : Inv max hash (setFile { s.fs with world := w.st } f { w.fn with segs := r.1 }) := by
            apply hinv1.setFile f _ hwfc hw2.rep
            intro nf' hnf' q hq
            rw [hf1] at hnf'; cases hnf'
            exact hptrs q (hw2.others q hq)
          refine ⟨by first | rfl | trivial, ?_, ?_, ?_⟩
          · rw [setHandle_abs, setFile_abs, absFS_ext_world hinv.base hw2.ext]
            show setHandle (setFile (absFS s.fs) f (abs w.st { w.fn with segs := r.1 })) h _ =
              setHandle (setFile (absFS s.fs) f _) h _
            rw [habs, hw2.abs_eq]
            congr 1
            simp only [absH, hw2.off]
          · apply hinv2.setHandle
            intro f' hf'
            have : f' = f := by
              have h1 : Node.file f = Node.file f' := hf'
              cases h1; rfl
            subst this
            have hlt : f' < s.fs.files.length := by
              apply Classical.byContradiction; intro hn
              rw [List.getElem?_eq_none (by omega)] at hf; cases hf
            refine ⟨(nf.1, { w.fn with segs := r.1 }), ?_, hptrs _ hw2.ptr_ok⟩
            unfold setFile
            rw [hf1]
            exact List.getElem?_set_self hlt
          · -- marks
            intro nf' hnf' sg hsg
            have hnf'' : nf' ∈ (setFile ({ s.fs with world := w.st } : Conc) f { w.fn with segs := r.1 }).files := hnf'
            change MarkOK max hash (setFile ({ s.fs with world := w.st } : Conc) f { w.fn with segs := r.1 }).world
              (s.toks ++ r.2.1) sg
            rw [setFile_world]
            show MarkOK max hash w.st (s.toks ++ r.2.1) sg
            unfold setFile at hnf''
            rw [hf1] at hnf''
            simp only [] at hnf''
            rcases List.mem_or_eq_of_mem_set hnf'' with h1 | h1
            · exact (hinv.marks nf' h1 sg hsg).mono hw2.ext
            · rw [h1] at hsg
              exact t4 sg hsg

end ArvVerif.C13
