/-
C08 helper lemmas, part 1: segment lists, `abs`, store extension, `locate`/`seek`.
-/
import ArvVerif.Model.C08
namespace ArvVerif.C08

variable {max : Nat} {hash : Bytes → Loc} {st : Store}

/-! ### sums and concatenations -/

@[simp] theorem sumLen_nil : sumLen [] = 0 := rfl
@[simp] theorem sumLen_cons (s : Seg) (l : List Seg) : sumLen (s :: l) = s.len + sumLen l := by
  simp [sumLen]
@[simp] theorem sumLen_append (a b : List Seg) : sumLen (a ++ b) = sumLen a + sumLen b := by
  simp [sumLen]

@[simp] theorem absSegs_nil : absSegs st [] = [] := rfl
@[simp] theorem absSegs_cons (s : Seg) (l : List Seg) : absSegs st (s :: l) = s.bytes st ++ absSegs st l := by
  simp [absSegs]
@[simp] theorem absSegs_append (a b : List Seg) : absSegs st (a ++ b) = absSegs st a ++ absSegs st b := by
  simp [absSegs]

@[simp] theorem zeros_length (n : Nat) : (zeros n).length = n := by simp [zeros]
@[simp] theorem zeros_zero : zeros 0 = [] := rfl

@[simp] theorem Seg.len_mem (b : Bytes) (fl : Flush) : (Seg.mem b fl).len = b.length := rfl
@[simp] theorem Seg.len_stored (l : Loc) (a b c : Nat) : (Seg.stored l a b c).len = c := rfl
@[simp] theorem Seg.bytes_mem (b : Bytes) (fl : Flush) : (Seg.mem b fl).bytes st = b := rfl

theorem Seg.bytes_stored {loc : Loc} {size off l : Nat} {b : Bytes} (h : st loc = some b) :
    (Seg.stored loc size off l).bytes st = (b.drop off).take l := by
  simp [Seg.bytes, h]

theorem SegWF.len_pos {s : Seg} (h : SegWF max hash st s) : 0 < s.len := by
  cases s with
  | mem buf fl => exact h.1
  | stored loc size off l => exact h.1

theorem SegWF.bytes_length {s : Seg} (h : SegWF max hash st s) : (s.bytes st).length = s.len := by
  cases s with
  | mem buf fl => rfl
  | stored loc size off l =>
    obtain ⟨_, hle, b, hb, hlen⟩ := h
    rw [Seg.bytes_stored hb]
    simp only [List.length_take, List.length_drop, Seg.len_stored]
    omega

theorem absSegs_length {segs : List Seg} (h : ∀ s ∈ segs, SegWF max hash st s) :
    (absSegs st segs).length = sumLen segs := by
  induction segs with
  | nil => rfl
  | cons s rest ih =>
    simp only [absSegs_cons, List.length_append, sumLen_cons]
    rw [(h s (List.mem_cons_self ..)).bytes_length, ih (fun x hx => h x (List.mem_cons_of_mem _ hx))]

theorem WF.abs_length {fn : FileNode} (h : WF max hash st fn) : (abs st fn).length = fn.size := by
  rw [h.size_eq]; exact absSegs_length h.segs

/-! ### store extension -/

/-- `st'` has every block of `st`. -/
def StoreExt (st st' : Store) : Prop := ∀ l b, st l = some b → st' l = some b

/-- every block is filed under its own hash -/
def StoreOK (hash : Bytes → Loc) (st : Store) : Prop := ∀ l b, st l = some b → l = hash b

theorem StoreExt.refl (st : Store) : StoreExt st st := fun _ _ h => h
theorem StoreExt.trans {a b c : Store} (h1 : StoreExt a b) (h2 : StoreExt b c) : StoreExt a c :=
  fun l x h => h2 l x (h1 l x h)

theorem Store.put_get (hash : Bytes → Loc) (st : Store) (b : Bytes) : (st.put hash b) (hash b) = some b := by
  simp [Store.put]

theorem Store.put_ext (hinj : Function.Injective hash) (hok : StoreOK hash st) (b : Bytes) :
    StoreExt st (st.put hash b) := by
  intro l x hx
  simp only [Store.put]
  split
  · next heq =>
    have := hok l x hx
    rw [heq] at this
    rw [hinj this]
  · exact hx

theorem Store.put_ok (hok : StoreOK hash st) (b : Bytes) : StoreOK hash (st.put hash b) := by
  intro l x hx
  simp only [Store.put] at hx
  split at hx
  · next heq => cases hx; exact heq
  · exact hok l x hx

theorem SegWF.ext {st' : Store} {s : Seg} (he : StoreExt st st') (h : SegWF max hash st s) :
    SegWF max hash st' s := by
  cases s with
  | mem buf fl => exact ⟨h.1, h.2.1, fun i l h1 => ⟨(h.2.2 i l h1).1, fun h2 => he _ _ ((h.2.2 i l h1).2 h2)⟩⟩
  | stored loc size off l =>
    obtain ⟨h1, h2, b, hb, hl⟩ := h
    exact ⟨h1, h2, b, he _ _ hb, hl⟩

theorem SegWF.bytes_ext {st' : Store} {s : Seg} (he : StoreExt st st') (h : SegWF max hash st s) :
    s.bytes st' = s.bytes st := by
  cases s with
  | mem buf fl => rfl
  | stored loc size off l =>
    obtain ⟨_, _, b, hb, _⟩ := h
    rw [Seg.bytes_stored hb, Seg.bytes_stored (he _ _ hb)]

theorem absSegs_ext {st' : Store} {segs : List Seg} (he : StoreExt st st')
    (h : ∀ s ∈ segs, SegWF max hash st s) : absSegs st' segs = absSegs st segs := by
  induction segs with
  | nil => rfl
  | cons s rest ih =>
    simp only [absSegs_cons]
    rw [(h s (List.mem_cons_self ..)).bytes_ext he, ih (fun x hx => h x (List.mem_cons_of_mem _ hx))]

theorem WF.ext {st' : Store} {fn : FileNode} (he : StoreExt st st') (h : WF max hash st fn) :
    WF max hash st' fn :=
  ⟨h.size_eq, fun s hs => (h.segs s hs).ext he⟩

theorem WF.abs_ext {st' : Store} {fn : FileNode} (he : StoreExt st st') (h : WF max hash st fn) :
    abs st' fn = abs st fn := absSegs_ext he h.segs

/-! ### positions in a segment list -/

/-- `(idx, off)` is the normal form `seek` produces for offset `o`: strictly inside segment `idx`,
or exactly at EOF `(length, 0)`. -/
def Pos (segs : List Seg) (o idx off : Nat) : Prop :=
  (idx = segs.length ∧ off = 0 ∧ o = sumLen segs) ∨
  (∃ s, segs[idx]? = some s ∧ off < s.len ∧ sumLen (segs.take idx) + off = o)

theorem locate_spec {segs : List Seg} (hpos : ∀ s ∈ segs, 0 < s.len) :
    ∀ (r idx0 : Nat), r < sumLen segs →
      ∃ i o, locate segs r idx0 = some (idx0 + i, o) ∧
        ∃ s, segs[i]? = some s ∧ o < s.len ∧ sumLen (segs.take i) + o = r := by
  induction segs with
  | nil => intro r idx0 h; simp at h
  | cons s rest ih =>
    intro r idx0 h
    have hs : 0 < s.len := hpos s (List.mem_cons_self ..)
    cases r with
    | zero =>
      exact ⟨0, 0, by simp [locate], s, by simp, hs, by simp⟩
    | succ r =>
      simp only [locate]
      by_cases hlt : s.len > r + 1
      · simp only [hlt, if_true]
        exact ⟨0, r + 1, by simp, s, by simp, hlt, by simp⟩
      · simp only [hlt, if_false]
        have hr : r + 1 - s.len < sumLen rest := by simp at h; omega
        obtain ⟨i, o, h1, s', h2, h3, h4⟩ :=
          ih (fun x hx => hpos x (List.mem_cons_of_mem _ hx)) (r + 1 - s.len) (idx0 + 1) hr
        refine ⟨i + 1, o, ?_, s', ?_, h3, ?_⟩
        · rw [h1]; congr 2; omega
        · simpa using h2
        · simp only [List.take_succ_cons, sumLen_cons]; omega

theorem sumLen_take_le (segs : List Seg) (i : Nat) : sumLen (segs.take i) ≤ sumLen segs := by
  induction segs generalizing i with
  | nil => simp
  | cons s rest ih =>
    cases i with
    | zero => simp
    | succ i => simp only [List.take_succ_cons, sumLen_cons]; have := ih i; omega

theorem sumLen_take_succ {segs : List Seg} {i : Nat} {s : Seg} (h : segs[i]? = some s) :
    sumLen (segs.take (i + 1)) = sumLen (segs.take i) + s.len := by
  induction segs generalizing i with
  | nil => simp at h
  | cons x rest ih =>
    cases i with
    | zero => simp at h; simp [h]
    | succ i =>
      simp only [List.getElem?_cons_succ] at h
      simp only [List.take_succ_cons, sumLen_cons, ih h]; omega

/-- The postcondition of `seek` from a well-formed file and a pointer satisfying `PtrOK`. -/
theorem seek_spec {fn : FileNode} {p : Ptr} (hwf : WF max hash st fn) (hp : PtrOK fn p) :
    ∃ q, seek fn p = some q ∧ q.off = p.off ∧ q.repacked = fn.repacked ∧
      ((p.off ≥ fn.size ∧ q.segIdx = fn.segs.length ∧ q.segOff = 0) ∨
       (p.off < fn.size ∧ ∃ s, fn.segs[q.segIdx]? = some s ∧ q.segOff < s.len ∧
          sumLen (fn.segs.take q.segIdx) + q.segOff = p.off)) := by
  have hpos : ∀ s ∈ fn.segs, 0 < s.len := fun s hs => (hwf.segs s hs).len_pos
  unfold seek
  by_cases h1 : p.off ≥ fn.size
  · rw [if_pos h1]
    exact ⟨_, rfl, rfl, rfl, Or.inl ⟨h1, rfl, rfl⟩⟩
  · rw [if_neg h1]
    have hlt : p.off < fn.size := Nat.lt_of_not_ge h1
    by_cases h2 : p.repacked = fn.repacked
    · rw [if_pos h2]
      rcases hp.2 h2 with h | ⟨s, hs, hle, hsum⟩
      · omega
      · simp only [hs]
        by_cases h3 : p.segOff ≥ s.len
        · rw [if_pos h3]
          have heq : p.segOff = s.len := Nat.le_antisymm hle h3
          have hsum' : sumLen (fn.segs.take (p.segIdx + 1)) = p.off := by
            rw [sumLen_take_succ hs]; omega
          -- the next segment exists because p.off < size
          have hidx : p.segIdx + 1 < fn.segs.length := by
            apply Classical.byContradiction
            intro hn
            have : fn.segs.take (p.segIdx + 1) = fn.segs := List.take_of_length_le (by omega)
            rw [this, ← hwf.size_eq] at hsum'
            omega
          refine ⟨_, rfl, rfl, h2, Or.inr ⟨hlt, fn.segs[p.segIdx + 1], by simp [hidx], ?_, by simpa using hsum'⟩⟩
          exact hpos _ (List.getElem_mem hidx)
        · rw [if_neg h3]
          exact ⟨_, rfl, rfl, h2, Or.inr ⟨hlt, s, hs, Nat.lt_of_not_ge h3, hsum⟩⟩
    · rw [if_neg h2]
      obtain ⟨i, o, hl, s, hs, ho, hsum⟩ := locate_spec hpos p.off 0 (by rw [← hwf.size_eq]; exact hlt)
      rw [hl]
      simp only [Nat.zero_add]
      exact ⟨_, rfl, rfl, rfl, Or.inr ⟨hlt, s, hs, ho, hsum⟩⟩

end ArvVerif.C08
