/-
C10 — the Go manifest package on *arbitrary* text: what `parseManifestStream` can produce, and
under which conditions `segment()` neither panics nor applies a manifest partially.
-/
import ArvVerif.Proofs.C10_PkgText
namespace ArvVerif.C10

theorem pkgBlocks_sizes : ∀ (toks : List Bytes) (bs : List Loc), pkgBlocks toks = some bs →
    ∀ b ∈ bs, b.size < two63
  | [], bs, h, b, hb => by simp [pkgBlocks] at h; subst h; simp at hb
  | t :: rest, bs, h, b, hb => by
    unfold pkgBlocks at h
    cases hd : goLocatorDigits t with
    | none => rw [hd] at h; cases h
    | some ds =>
      rw [hd] at h
      simp only [] at h
      by_cases hlt : natOfDigits ds < two63
      · rw [if_pos hlt] at h
        cases hr : pkgBlocks rest with
        | none => rw [hr] at h; cases h
        | some bs' =>
          rw [hr] at h
          simp only [Option.map_some, Option.some.injEq] at h
          subst h
          rcases List.mem_cons.mp hb with rfl | hb
          · exact hlt
          · exact pkgBlocks_sizes rest bs' hr b hb
      · rw [if_neg hlt] at h; cases h

/-- the empty-directory marker the collection filesystem writes: a zero-length token named `.` -/
def IsMarker (f : FTok) : Prop := f.len = 0 ∧ f.name = [bDot]

theorem pkgFileToks_inside (sname : Bytes) (total : Nat) : ∀ (toks : List Bytes) (fs : List FTok) (e : Bool),
    pkgFileToks sname total toks = (fs, e) → ∀ f ∈ fs, f.pos + f.len ≤ total ∧
      (¬ IsMarker f → fixStreamName (pathOf sname f.name) = pathOf sname f.name)
  | [], fs, e, h, f, hf => by simp [pkgFileToks] at h; rw [h.1] at hf; simp at hf
  | t :: rest, fs, e, h, f, hf => by
    unfold pkgFileToks at h
    cases ht : pkgFileTok t with
    | none => rw [ht] at h; simp only [Prod.mk.injEq] at h; rw [← h.1] at hf; simp at hf
    | some g =>
      rw [ht] at h
      simp only [] at h
      by_cases hgt : g.pos > total ∨ g.len > total - g.pos
      · rw [if_pos hgt] at h; simp only [Prod.mk.injEq] at h; rw [← h.1] at hf; simp at hf
      · rw [if_neg hgt] at h
        by_cases hcl : ¬ (g.len = 0 ∧ g.name = [bDot]) ∧ fixStreamName (sname ++ bSlash :: g.name) ≠ sname ++ bSlash :: g.name
        · rw [if_pos hcl] at h; simp only [Prod.mk.injEq] at h; rw [← h.1] at hf; simp at hf
        · rw [if_neg hcl] at h
          cases hr : pkgFileToks sname total rest with
          | mk fs' e' =>
            rw [hr] at h
            simp only [Prod.mk.injEq] at h
            rw [← h.1] at hf
            rcases List.mem_cons.mp hf with rfl | hf
            · refine ⟨by omega, ?_⟩
              intro hpos
              cases Classical.em (fixStreamName (sname ++ bSlash :: f.name) = sname ++ bSlash :: f.name) with
              | inl h' => exact h'
              | inr h' => exact absurd ⟨hpos, h'⟩ hcl
            · exact pkgFileToks_inside sname total rest fs' e' hr f hf

/-- whatever the input line, a stream without error has this shape -/
theorem pkgParseStream_shape (line : Bytes) (h : (pkgParseStream line).err = false) :
    ∃ s : Stream, pkgParseStream line = toPStream s ∧ (∀ b ∈ s.blocks, b.size < two63) ∧
      streamLen s.blocks < two64 ∧ (s.name = [bDot] ∨ [bDot, bSlash].isPrefixOf s.name = true) ∧ ∀ f ∈ s.files, f.pos + f.len ≤ (offsetsFrom 0 s.blocks).getLastD 0 ∧
        (¬ IsMarker f → fixStreamName (pathOf s.name f.name) = pathOf s.name f.name) := by
  unfold pkgParseStream at h ⊢
  cases hs : splitOn bSpace line with
  | nil => rw [hs] at h; simp at h
  | cons nm toks =>
    rw [hs] at h
    simp only [] at h ⊢
    by_cases hn : pkgUnescape nm ≠ [bDot] ∧ ¬ ([bDot, bSlash].isPrefixOf (pkgUnescape nm) = true)
    · rw [if_pos hn] at h; simp at h
    · rw [if_neg hn] at h ⊢
      by_cases hb : toks.takeWhile isGoLocator = []
      · rw [if_pos hb] at h; simp at h
      · rw [if_neg hb] at h ⊢
        cases hpb : pkgBlocks (toks.takeWhile isGoLocator) with
        | none => rw [hpb] at h; simp at h
        | some blocks =>
          rw [hpb] at h
          simp only [] at h ⊢
          by_cases hov : streamLen blocks ≥ two64
          · rw [if_pos hov] at h; simp at h
          rw [if_neg hov] at h ⊢
          by_cases hf : toks.dropWhile isGoLocator = []
          · rw [if_pos hf] at h; simp at h
          · rw [if_neg hf] at h ⊢
            cases hft : pkgFileToks (pkgUnescape nm) ((offsetsFrom 0 blocks).getLastD 0) (toks.dropWhile isGoLocator) with
            | mk files e =>
              rw [hft] at h
              simp only [] at h ⊢
              subst h
              have hshape : pkgUnescape nm = [bDot] ∨ [bDot, bSlash].isPrefixOf (pkgUnescape nm) = true := by
                by_cases h1 : pkgUnescape nm = [bDot]
                · exact Or.inl h1
                · right
                  cases hb : [bDot, bSlash].isPrefixOf (pkgUnescape nm) with
                  | true => rfl
                  | false => exact absurd ⟨h1, by rw [hb]; simp⟩ hn
              exact ⟨⟨pkgUnescape nm, blocks, files⟩, rfl, pkgBlocks_sizes _ _ hpb, Nat.lt_of_not_ge hov, hshape,
                pkgFileToks_inside _ _ _ _ _ hft⟩

/-- stream and file names in the canonical form `fixStreamName` leaves alone (since fix b1a09e4
the parser enforces this for every non-empty token; the condition still matters for zero-length
tokens and for the stream name) -/
def CleanNames (ps : PStream) : Prop :=
  ps.name.getLast? ≠ some bSlash ∧
    ∀ f ∈ ps.files, fixStreamName (pathOf ps.name f.name) = pathOf ps.name f.name

/-- the structured stream a parsed stream stands for -/
def ofPStream (ps : PStream) : Stream := ⟨ps.name, ps.blocks, ps.files⟩

theorem pstream_fit (line : Bytes) (h : (pkgParseStream line).err = false) :
    pkgParseStream line = toPStream (ofPStream (pkgParseStream line)) ∧ PkgFit (ofPStream (pkgParseStream line)) := by
  obtain ⟨s, hs, h1, hw, _, h2⟩ := pkgParseStream_shape line h
  rw [hs]
  have e : ofPStream (toPStream s) = s := rfl
  rw [e]
  refine ⟨rfl, h1, hw, ?_⟩
  intro f hf
  have := (h2 f hf).1
  rw [offsetsFrom_eq_plain s.blocks 0 (by omega), plainOffsets_last] at this
  omega

/-- the per-stream loop never panics on a stream without wrap-around, whatever its names -/
theorem segmentStream_ok (s : Stream) (hw : PkgFit s) :
    ∀ (fs : List FTok) (seen : List Bytes) (m : SegMap),
      ∃ m', segmentStream firstBlock (toPStream s) fs seen m = .ok m'
  | [], _, m => ⟨m, rfl⟩
  | f :: rest, seen, m => by
    unfold segmentStream
    simp only []
    generalize ((if (toPStream s).name.getLast? = some bSlash then (toPStream s).name.dropLast
          else (toPStream s).name) ++ bSlash :: f.name) = path
    by_cases hseen : seen.contains path = true
    · rw [if_pos hseen]; exact segmentStream_ok s hw rest seen m
    · rw [if_neg hseen]
      obtain ⟨segs, h1, _⟩ := sendByName_gen s hw path
      rw [h1]
      simp only [Res.bind]
      exact segmentStream_ok s hw rest _ _

/-- no stream of this shape makes `segment()` panic -/
theorem segmentStreams_no_panic : ∀ (L : List PStream) (m : SegMap),
    (∀ ps ∈ L, ps.err = false → ps = toPStream (ofPStream ps) ∧ PkgFit (ofPStream ps)) →
    segmentStreams firstBlock L m ≠ .panic
  | [], m, _ => by simp [segmentStreams]
  | ps :: rest, m, h => by
    unfold segmentStreams
    by_cases he : ps.err = true
    · rw [if_pos he]; simp
    · rw [if_neg he]
      have he' : ps.err = false := by simpa using he
      obtain ⟨e1, e2⟩ := h ps (by simp) he'
      obtain ⟨m', hm'⟩ := segmentStream_ok (ofPStream ps) e2 ps.files [] m
      have hgoal : segmentStream firstBlock ps ps.files [] m = .ok m' := by
        have e := e1
        rw [e]; exact hm'
      rw [hgoal]
      simp only [Res.bind]
      exact segmentStreams_no_panic rest m' (fun x hx => h x (List.mem_cons_of_mem _ hx))

/-- **Never partially applied** (no wrap-around, clean names): either some stream has a parse error
and `segment()` returns the error and nothing else, or every stream parsed and every path's
segment list is the reference interpretation of *all* parsed streams. -/
theorem segmentStreams_total : ∀ (L : List PStream) (m : SegMap),
    (∀ ps ∈ L, ps.err = false → ps = toPStream (ofPStream ps) ∧ PkgWf (ofPStream ps)) →
    (segmentStreams firstBlock L m = .err ∧ ∃ ps ∈ L, ps.err = true) ∨
    (∃ m', segmentStreams firstBlock L m = .ok m' ∧ (∀ ps ∈ L, ps.err = false) ∧
      ∀ a b : Bytes, segLookup m' (splitPath (pathOf a b)) =
        segLookup m (splitPath (pathOf a b)) ++ resolve (L.map ofPStream) (pathOf a b))
  | [], m, _ => Or.inr ⟨m, rfl, by simp, by intro a b; simp [resolve]⟩
  | ps :: rest, m, h => by
    unfold segmentStreams
    by_cases he : ps.err = true
    · rw [if_pos he]; exact Or.inl ⟨rfl, ps, by simp, he⟩
    · rw [if_neg he]
      have he' : ps.err = false := by simpa using he
      obtain ⟨e1, e2⟩ := h ps (by simp) he'
      obtain ⟨m1, h1, h2⟩ := segmentStream_spec (ofPStream ps) e2 (ofPStream ps).files [] m (fun _ hx => hx)
      have hgoal : segmentStream firstBlock ps ps.files [] m = .ok m1 := by
        have e := e1
        rw [e]; exact h1
      rw [hgoal]
      simp only [Res.bind]
      rcases segmentStreams_total rest m1 (fun x hx => h x (List.mem_cons_of_mem _ hx)) with
        ⟨r1, x, hx, hxe⟩ | ⟨m2, r1, r2, r3⟩
      · exact Or.inl ⟨r1, x, List.mem_cons_of_mem _ hx, hxe⟩
      · refine Or.inr ⟨m2, r1, ?_, ?_⟩
        · intro x hx
          rcases List.mem_cons.mp hx with rfl | hx
          · exact he'
          · exact r2 x hx
        · intro a b
          rw [r3 a b, h2 a b]
          simp only [resolve, List.map_cons, List.flatMap_cons, List.append_assoc]
          congr 2
          by_cases hin : pathOf a b ∈ (ofPStream ps).files.map (fun f => pathOf (ofPStream ps).name f.name)
          · simp [hin]
          · rw [resolveStream_nil_of_not_mem _ _ hin]; simp [hin]

end ArvVerif.C10
