/-
C07 helper lemmas, part 7: keepstore before `handleGET` — token extraction, routes, canonical
paths — and the PUT→GET flow.
-/
import ArvVerif.Proofs.C07_Manifest
namespace ArvVerif.C07
variable (mac : Str → Str → List UInt8)

/-! ## GetAPIToken -/

theorem dropWhile_isSpace_eq_self {t : Str} (h : ∀ c r, t = c :: r → isSpace c = false) :
    t.dropWhile isSpace = t := by
  cases t with
  | nil => rfl
  | cons c r => simp [h c r rfl]

theorem getAPIToken_scheme (scheme tok : Str)
    (hs : scheme = ['O', 'A', 'u', 't', 'h', '2'] ∨ scheme = ['B', 'e', 'a', 'r', 'e', 'r'])
    (ws : Str) (hws : ws ≠ []) (hwsall : ∀ c ∈ ws, isSpace c = true)
    (h1 : ∀ c r, tok = c :: r → isSpace c = false) (h2 : ∀ c ∈ tok, c ≠ '\n') :
    getAPIToken (some (scheme ++ ws ++ tok)) = tok := by
  have hdw : (ws ++ tok).dropWhile isSpace = tok := by
    rw [List.dropWhile_append_of_pos hwsall, dropWhile_isSpace_eq_self h1]
  have htw : tok.takeWhile (· ≠ '\n') = tok :=
    takeWhile_eq_self (fun c hc => by simpa using h2 c hc)
  cases ws with
  | nil => exact absurd rfl hws
  | cons w ws' =>
    have hw : isSpace w = true := hwsall w (List.mem_cons_self ..)
    have hdw' : (ws' ++ tok).dropWhile isSpace = tok := by
      rw [List.cons_append, List.dropWhile_cons, if_pos hw] at hdw; exact hdw
    have htw' : tok.takeWhile (fun x => !decide (x = '\n')) = tok := by
      rw [← htw]; congr 1; funext x; simp
    rcases hs with rfl | rfl <;>
      simp [getAPIToken, List.isPrefixOf, hw, hdw', htw']

theorem getAPIToken_no_scheme (v : Str)
    (h1 : ['O', 'A', 'u', 't', 'h', '2'].isPrefixOf v = false)
    (h2 : ['B', 'e', 'a', 'r', 'e', 'r'].isPrefixOf v = false) : getAPIToken (some v) = [] := by
  simp [getAPIToken, h1, h2]

/-! ## routes -/

theorem routeHash_some {loc h : Str} (e : routeHash loc = some h) :
    h = loc.take 32 ∧ h.length = 32 ∧ h.all isLowerHex = true ∧ ∀ c ∈ loc, c ≠ '/' := by
  unfold routeHash at e
  simp only at e
  split at e
  · rename_i hc
    simp only [Bool.and_eq_true, decide_eq_true_eq] at hc
    have hslash : ∀ c ∈ loc.take 32, c ≠ '/' := by
      intro c hcm
      have := List.all_eq_true.mp hc.2 c hcm
      intro e'; subst e'; revert this; decide
    have hsplit : loc = loc.take 32 ++ loc.drop 32 := (List.take_append_drop 32 loc).symm
    split at e
    · rename_i hd
      simp only [Option.some.injEq] at e
      refine ⟨e.symm, e ▸ hc.1, e ▸ hc.2, ?_⟩
      intro c hcm
      rw [hsplit, hd, List.append_nil] at hcm
      exact hslash c hcm
    · rename_i hints hd
      split at e
      · rename_i hh
        simp only [Bool.and_eq_true, Bool.not_eq_true', List.all_eq_true, bne_iff_ne, ne_eq] at hh
        simp only [Option.some.injEq] at e
        refine ⟨e.symm, e ▸ hc.1, e ▸ hc.2, ?_⟩
        intro c hcm
        rw [hsplit, hd] at hcm
        rcases List.mem_append.mp hcm with hcm | hcm
        · exact hslash c hcm
        · rcases List.mem_cons.mp hcm with rfl | hcm
          · decide
          · exact hh.2 c hcm
      · simp at e
    · simp at e
  · simp at e

theorem containsSub_append (pat x y : Str) : containsSub pat (x ++ pat ++ y) = true := by
  induction x with
  | nil =>
    cases pat with
    | nil => cases y <;> simp [containsSub]
    | cons p ps =>
      simp only [List.nil_append, List.cons_append, containsSub, Bool.or_eq_true]
      left
      have : (p :: ps).isPrefixOf (p :: (ps ++ y)) = true := by
        have := List.isPrefixOf_iff_prefix.mpr (List.prefix_append (p :: ps) y)
        simp at this ⊢
      exact this
  | cons c cs ih =>
    simp only [List.cons_append, containsSub, Bool.or_eq_true]
    right
    simpa [List.append_assoc] using ih

/-! ## remote proxy -/

theorem remoteParts_outcome (configured : Str → Bool) (token : Str) (parts acc : List Str)
    (sel : Option (Str × Str)) (hsel : ∀ r t, sel = some (r, t) → configured r = true) :
    (∀ c, remoteParts mac configured token parts acc sel = .status c → c = 400 ∨ c = 500) ∧
    (∀ r l t, remoteParts mac configured token parts acc sel = .forward r l t → configured r = true) := by
  induction parts generalizing acc sel with
  | nil =>
    cases sel with
    | none => simp [remoteParts]
    | some p => obtain ⟨r, t⟩ := p; simp [remoteParts]; exact hsel r t rfl
  | cons part rest ih =>
    unfold remoteParts
    split
    · exact ih acc sel hsel
    · split
      · simp only
        split
        · simp
        · rename_i hcfg
          split
          · simp
          · simp
          · rename_i salted _
            apply ih
            intro r t h
            simp only [Option.some.injEq, Prod.mk.injEq] at h
            rw [← h.1]; simpa using hcfg
      · exact ih (part :: acc) sel hsel

end ArvVerif.C07
