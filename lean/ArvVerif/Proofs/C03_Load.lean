/-
C03 (second extension pass): the segments loadManifest's offset→segment loop produces are non-empty
and lie inside their blocks — the two side conditions of the file-read theorems, discharged from the
model.
-/
import ArvVerif.Proofs.C03_File
namespace ArvVerif.C03

/-- a segment is well-formed for block sizes `size`: non-empty and inside its block -/
def SegWF (size : Nat → Nat) (s : Seg) : Prop := 0 < s.length ∧ s.offset + s.length ≤ size s.blk

/-- a stream's block list agrees with the block sizes -/
def BlocksOK (size : Nat → Nat) (blocks : List (Nat × Nat)) : Prop := ∀ b ∈ blocks, b.2 = size b.1

theorem walkBlocks_wf (size : Nat → Nat) (offset length : Nat) (blocks : List (Nat × Nat)) (pos : Nat)
    (acc : List Seg) (hb : BlocksOK size blocks) (hacc : ∀ s ∈ acc, SegWF size s) :
    (∀ s ∈ (walkBlocks offset length blocks pos acc).1, SegWF size s) ∧
    BlocksOK size (walkBlocks offset length blocks pos acc).2.2 := by
  induction blocks generalizing pos acc with
  | nil => exact ⟨by simpa [walkBlocks] using hacc, by simp [walkBlocks, BlocksOK]⟩
  | cons b rest ih =>
    obtain ⟨i, sz⟩ := b
    have hrest : BlocksOK size rest := fun c hc => hb c (List.mem_cons_of_mem _ hc)
    have hsz : sz = size i := hb (i, sz) (by simp)
    unfold walkBlocks
    dsimp only
    by_cases h1 : pos + sz ≤ offset ∨ sz = 0
    · simp only [h1, if_true]
      exact ih _ _ hrest hacc
    · simp only [h1, if_false]
      by_cases h2 : offset + length ≤ pos
      · simp only [h2, if_true]
        exact ⟨hacc, hb⟩
      · simp only [h2, if_false]
        generalize (if pos < offset then offset - pos else 0) = blkOff at *
        have hfit : ∀ blkLen, blkLen = (if offset + length < pos + blkOff + (sz - blkOff)
            then offset + length - pos - blkOff else sz - blkOff) → blkLen > 0 → blkOff + blkLen ≤ sz := by
          intro bl hbl hgt
          subst hbl
          split at hgt <;> split <;> omega
        generalize hbl : (if offset + length < pos + blkOff + (sz - blkOff)
            then offset + length - pos - blkOff else sz - blkOff) = blkLen
        have hacc' : ∀ s ∈ (if blkLen > 0 then acc ++ [{ blk := i, offset := blkOff, length := blkLen }] else acc),
            SegWF size s := by
          intro s hs
          by_cases hgt : blkLen > 0
          · simp only [hgt, if_true] at hs
            rcases List.mem_append.mp hs with h | h
            · exact hacc s h
            · simp only [List.mem_singleton] at h
              subst h
              exact ⟨hgt, by simp only; rw [← hsz]; exact hfit blkLen hbl.symm hgt⟩
          · simp only [hgt, if_false] at hs
            exact hacc s hs
        by_cases h3 : offset + length < pos + sz
        · simp only [h3, if_true]
          exact ⟨hacc', hb⟩
        · simp only [h3, if_false]
          exact ih _ _ hrest hacc'

theorem loadTokensN_wf {ι : Type} (size : Nat → Nat) (blocks : List (Nat × Nat)) (hb : BlocksOK size blocks)
    (toks : List (Nat × Nat × ι)) (pos : Nat) (remaining : List (Nat × Nat)) (hr : BlocksOK size remaining)
    (acc : List (ι × List Seg)) (hacc : ∀ f ∈ acc, ∀ s ∈ f.2, SegWF size s)
    (out : List (ι × List Seg)) (h : loadTokensN blocks toks pos remaining acc = some out) :
    ∀ f ∈ out, ∀ s ∈ f.2, SegWF size s := by
  induction toks generalizing pos remaining acc with
  | nil => simp [loadTokensN] at h; subst h; exact hacc
  | cons t rest ih =>
    obtain ⟨offset, length, name⟩ := t
    unfold loadTokensN at h
    by_cases hlt : offset < pos
    · simp [hlt] at h
      have hw := walkBlocks_wf size offset length blocks 0 [] hb (by simp)
      refine ih _ _ hw.2 _ ?_ h.2
      intro f hf
      rcases List.mem_append.mp hf with hf | hf
      · exact hacc f hf
      · simp only [List.mem_singleton] at hf; subst hf; exact hw.1
    · simp [hlt] at h
      have hw := walkBlocks_wf size offset length remaining pos [] hr (by simp)
      refine ih _ _ hw.2 _ ?_ h.2
      intro f hf
      rcases List.mem_append.mp hf with hf | hf
      · exact hacc f hf
      · simp only [List.mem_singleton] at hf; subst hf; exact hw.1

theorem addToFile_wf {ι : Type} [BEq ι] (size : Nat → Nat) (files : List (ι × List Seg)) (path : ι) (segs : List Seg)
    (hf : ∀ f ∈ files, ∀ s ∈ f.2, SegWF size s) (hs : ∀ s ∈ segs, SegWF size s) :
    ∀ f ∈ addToFile files path segs, ∀ s ∈ f.2, SegWF size s := by
  intro f hmem
  unfold addToFile at hmem
  split at hmem
  · simp only [List.mem_map] at hmem
    obtain ⟨g, hg, rfl⟩ := hmem
    split
    · intro s hs'
      rcases List.mem_append.mp hs' with h | h
      · exact hf g hg s h
      · exact hs s h
    · exact hf g hg
  · rcases List.mem_append.mp hmem with h | h
    · exact hf f h
    · simp only [List.mem_singleton] at h; subst h; exact hs

/-- Every file of a loaded collection consists of non-empty segments inside their blocks. -/
theorem loadManifestN_wf {ι : Type} [BEq ι] (size : Nat → Nat)
    (streams : List (List (Nat × Nat) × List (Nat × Nat × ι)))
    (hstreams : ∀ st ∈ streams, BlocksOK size st.1)
    (files : List (ι × List Seg)) (hfiles : ∀ f ∈ files, ∀ s ∈ f.2, SegWF size s)
    (out : List (ι × List Seg)) (h : loadManifestN streams files = some out) :
    ∀ f ∈ out, ∀ s ∈ f.2, SegWF size s := by
  induction streams generalizing files with
  | nil => simp [loadManifestN] at h; subst h; exact hfiles
  | cons st rest ih =>
    obtain ⟨blocks, toks⟩ := st
    unfold loadManifestN at h
    split at h
    · simp at h
    · rename_i perTok hper
      have hb : BlocksOK size blocks := hstreams (blocks, toks) (by simp)
      have hwf := loadTokensN_wf size blocks hb toks 0 blocks hb [] (by simp) perTok hper
      refine ih (fun s hs => hstreams s (List.mem_cons_of_mem _ hs)) _ ?_ h
      -- folding addToFile keeps the invariant
      clear hper h
      induction perTok generalizing files with
      | nil => simpa using hfiles
      | cons t ts iht =>
        simp only [List.foldl_cons]
        apply iht
        · exact addToFile_wf size files t.1 t.2 hfiles (hwf t (by simp))
        · intro f hf; exact hwf f (List.mem_cons_of_mem _ hf)

theorem segsWF_pos_in (size : Nat → Nat) (blocks : Nat → Bytes) (hlen : ∀ i, size i ≤ (blocks i).length)
    (segs : List Seg) (h : ∀ s ∈ segs, SegWF size s) : SegsPos segs ∧ SegsIn blocks segs :=
  ⟨fun s hs => (h s hs).1, fun s hs => Nat.le_trans (h s hs).2 (hlen s.blk)⟩

end ArvVerif.C03
