/-
C08 helper lemmas, part 15: refinement of `Op.readn`, of the flushes, and the history theorem's
induction.
-/
import ArvVerif.Proofs.C08_Hist5
namespace ArvVerif.C08

variable {max : Nat} {hash : Bytes → Loc}

theorem readLoop_succ {F P W : Type} (impl : FileImpl F P W) (fuel : Nat) (s : FS F P W) (h want : Nat) (acc : Bytes) :
    readLoop impl (fuel + 1) s h want acc =
      if acc.length ≥ want then (s, acc, Err.ok) else
      match getHandle s h with
      | none => (s, acc, Err.panic)
      | some hd =>
        match handleRead impl s h hd (want - acc.length) with
        | (s', d, e) => if e == Err.ok then readLoop impl fuel s' h want (acc ++ d) else (s', acc ++ d, e) := by
  rfl

theorem step_readn {s : CFS} (hinv : Inv max hash s) (h n : Nat) : StepRef max hash s (Op.readn h n) := by
  unfold StepRef step
  simp only [getHandle_abs]
  cases hg : getHandle s h with
  | none => exact Ref3.same hinv _
  | some hd =>
    simp only [Option.map_some]
    by_cases hn : n = 0
    · subst hn
      have e1 : readLoop (concImpl hash max) (0 + 2) s h 0 [] = (s, [], Err.ok) := by simp [readLoop]
      have e2 : readLoop specImpl (0 + 2) (absFS s) h 0 [] = (absFS s, [], Err.ok) := by simp [readLoop]
      rw [e1, e2]
      exact Ref3.same hinv _
    · have hgs : getHandle (absFS s) h = some (absH hd) := by rw [getHandle_abs, hg]; rfl
      obtain ⟨node, ptr, app, rd, wr⟩ := hd
      -- first iteration on both sides
      have c0 : readLoop (concImpl hash max) (n + 2) s h n [] =
          (match handleRead (concImpl hash max) s h ⟨node, ptr, app, rd, wr⟩ (n - 0) with
           | (s', d, e) => if e == Err.ok then readLoop (concImpl hash max) (n + 1) s' h n ([] ++ d) else (s', [] ++ d, e)) := by
        rw [show n + 2 = (n + 1) + 1 by omega, readLoop_succ]
        rw [if_neg (by simp; omega)]
        simp only [hg, List.length_nil]
      have s0 : readLoop specImpl (n + 2) (absFS s) h n [] =
          (match handleRead specImpl (absFS s) h (absH ⟨node, ptr, app, rd, wr⟩) (n - 0) with
           | (s', d, e) => if e == Err.ok then readLoop specImpl (n + 1) s' h n ([] ++ d) else (s', [] ++ d, e)) := by
        rw [show n + 2 = (n + 1) + 1 by omega, readLoop_succ]
        rw [if_neg (by simp; omega)]
        simp only [hgs, List.length_nil]
      cases rd with
      | false =>
        rw [c0, s0]
        simp [handleRead, absH]
        exact Ref3.same hinv _
      | true =>
        cases node with
        | dir d =>
          rw [c0, s0]
          have hne : (Err.invalop == Err.ok) = false := by decide
          simp only [handleRead, absH, Bool.not_true, Bool.false_eq_true, if_false, hne, List.append_nil]
          refine ⟨rfl, by rw [setHandle_abs]; rfl, ?_⟩
          apply hinv.setHandle
          intro f hf; cases hf
        | file f =>
          cases hf : s.files[f]? with
          | none =>
            rw [c0, s0]
            have hne : (Err.panic == Err.ok) = false := by decide
            simp only [handleRead, absH, Bool.not_true, Bool.false_eq_true, if_false, hf, absFS_files, absFiles_get,
              Option.map_none, hne, List.append_nil]
            exact Ref3.same hinv _
          | some nf =>
            obtain ⟨s', hl, hi, ha⟩ := readLoop_conc hinv (n + 2) s [] ⟨Node.file f, ptr, app, true, wr⟩ h n f nf
              hinv hg rfl rfl hf (by simp; omega) (by simp)
            simp only [List.length_nil, Nat.sub_zero, List.nil_append] at hl ha
            rw [hl, s0]
            obtain ⟨hwf, _⟩ := hinv.files nf (List.mem_of_getElem? hf)
            have hAlen := hwf.abs_length
            obtain ⟨A, hA⟩ : ∃ A, A = abs s.world nf.2 := ⟨_, rfl⟩
            rw [← hA] at hl ha hAlen ⊢
            have hTl := specRead_length A ptr.off n
            -- the spec's single read
            have hsr : handleRead specImpl (absFS s) h (absH ⟨Node.file f, ptr, app, true, wr⟩) (n - 0) =
                (setHandle (absFS s) h ⟨Node.file f, ptr.off + (specRead A ptr.off n).length, app, true, wr⟩,
                 specRead A ptr.off n,
                 if ptr.off ≥ A.length ∨ (ptr.off + (specRead A ptr.off n).length = A.length ∧ (specRead A ptr.off n).length < n)
                 then Err.eof else Err.ok) := by
              simp only [handleRead, absH, Bool.not_true, Bool.false_eq_true, if_false, absFS_files, absFiles_get, hf,
                Option.map_some, ← hA, Nat.sub_zero]
              rfl
            rw [hsr]
            simp only []
            by_cases heof : ptr.off ≥ A.length ∨ (ptr.off + (specRead A ptr.off n).length = A.length ∧ (specRead A ptr.off n).length < n)
            · rw [if_pos heof]
              have hne : (Err.eof == Err.ok) = false := by decide
              simp only [hne, Bool.false_eq_true, if_false, List.nil_append]
              have hshort : (specRead A ptr.off n).length < n := by
                rcases heof with h1 | ⟨_, h2⟩
                · omega
                · exact h2
              rw [if_pos hshort]
              exact ⟨rfl, ha, hi⟩
            · rw [if_neg heof]
              have hfull : (specRead A ptr.off n).length = n := by
                apply Classical.byContradiction; intro hne
                apply heof
                by_cases hge : ptr.off ≥ A.length
                · exact Or.inl hge
                · exact Or.inr ⟨by omega, by omega⟩
              simp only [beq_self_eq_true, if_true, List.nil_append]
              have e2 : readLoop specImpl (n + 1) (setHandle (absFS s) h ⟨Node.file f, ptr.off + (specRead A ptr.off n).length, app, true, wr⟩)
                  h n (specRead A ptr.off n) = (setHandle (absFS s) h ⟨Node.file f, ptr.off + (specRead A ptr.off n).length, app, true, wr⟩,
                    specRead A ptr.off n, Err.ok) := by
                rw [readLoop_succ, if_pos (by omega)]
              rw [e2, if_neg (by omega)]
              exact ⟨rfl, ha, hi⟩

end ArvVerif.C08
