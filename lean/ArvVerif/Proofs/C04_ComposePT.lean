/-
C04, link between the layers: the history model's outcome of the sequential history [P, T] equals, for ALL
times that fit the configuration (`Times.fits`: TTL > 0, lifetime > 0, the stored copy is older than the TTL
exactly when the configuration says so), the table entry `linOf c` — which `Proofs/C04_ComposeCheck.lean`
shows to be the outcome of the interleaving model's sequential schedule. One lemma per (P, T) kind; the
remaining 24 configurations of each by symbolic evaluation of `C04.step`.
-/
import ArvVerif.Proofs.C04_ComposeTable
namespace ArvVerif.C04.Race
open ArvVerif.C04 ArvVerif.C04.Compose
set_option linter.unusedSimpArgs false

set_option maxRecDepth 8000 in
theorem seqPT_touch_del (ser l0 : Bool) (pre : Pre) (old : Bool) (τ : Times) (h : τ.fits ⟨ser, l0, pre, old, .touch, .del⟩) :
    seqPT ⟨ser, l0, pre, old, .touch, .del⟩ τ = (linOf ⟨ser, l0, pre, old, .touch, .del⟩).1 := by
  obtain ⟨httl, hlife, hage, hx⟩ := h
  have hl : τ.life ≠ 0 := by omega
  have hx' : (τ.now < τ.xmt + τ.ttl) = False := eq_false hx
  have hy : (τ.now < τ.mt + τ.ttl) = (old = false) := by
    apply propext
    cases old <;> simp at hage ⊢ <;> omega
  clear hage hx
  cases ser <;> cases l0 <;> cases pre <;> cases old <;>
  simp [seqPT, ArvVerif.C04.step, hCfg, hSt, hVol, hP, hT, obsH, writables, compareAndTouch, firstHolding, pickTarget, updVol,
    Vol.write, Vol.touch, Vol.setBlock, delHit, delVol, Vol.trashBlock, young, trashInsert, deadlineOf, tiVol, tiSelected,
    untrashVol, untrashHit, minEntry, Vol.untrash,
    linOf, linTab, cfgIdx, encB, encPre, encPOp, encTOp, *]

set_option maxRecDepth 8000 in
theorem seqPT_touch_ti (ser l0 : Bool) (pre : Pre) (old : Bool) (τ : Times) (h : τ.fits ⟨ser, l0, pre, old, .touch, .ti⟩) :
    seqPT ⟨ser, l0, pre, old, .touch, .ti⟩ τ = (linOf ⟨ser, l0, pre, old, .touch, .ti⟩).1 := by
  obtain ⟨httl, hlife, hage, hx⟩ := h
  have hl : τ.life ≠ 0 := by omega
  have hx' : (τ.now < τ.xmt + τ.ttl) = False := eq_false hx
  have hy : (τ.now < τ.mt + τ.ttl) = (old = false) := by
    apply propext
    cases old <;> simp at hage ⊢ <;> omega
  clear hage hx
  cases ser <;> cases l0 <;> cases pre <;> cases old <;>
  simp [seqPT, ArvVerif.C04.step, hCfg, hSt, hVol, hP, hT, obsH, writables, compareAndTouch, firstHolding, pickTarget, updVol,
    Vol.write, Vol.touch, Vol.setBlock, delHit, delVol, Vol.trashBlock, young, trashInsert, deadlineOf, tiVol, tiSelected,
    untrashVol, untrashHit, minEntry, Vol.untrash,
    linOf, linTab, cfgIdx, encB, encPre, encPOp, encTOp, *]

set_option maxRecDepth 8000 in
theorem seqPT_touch_untrash (ser l0 : Bool) (pre : Pre) (old : Bool) (τ : Times) (h : τ.fits ⟨ser, l0, pre, old, .touch, .untrash⟩) :
    seqPT ⟨ser, l0, pre, old, .touch, .untrash⟩ τ = (linOf ⟨ser, l0, pre, old, .touch, .untrash⟩).1 := by
  obtain ⟨httl, hlife, hage, hx⟩ := h
  have hl : τ.life ≠ 0 := by omega
  have hx' : (τ.now < τ.xmt + τ.ttl) = False := eq_false hx
  have hy : (τ.now < τ.mt + τ.ttl) = (old = false) := by
    apply propext
    cases old <;> simp at hage ⊢ <;> omega
  clear hage hx
  cases ser <;> cases l0 <;> cases pre <;> cases old <;>
  simp [seqPT, ArvVerif.C04.step, hCfg, hSt, hVol, hP, hT, obsH, writables, compareAndTouch, firstHolding, pickTarget, updVol,
    Vol.write, Vol.touch, Vol.setBlock, delHit, delVol, Vol.trashBlock, young, trashInsert, deadlineOf, tiVol, tiSelected,
    untrashVol, untrashHit, minEntry, Vol.untrash,
    linOf, linTab, cfgIdx, encB, encPre, encPOp, encTOp, *]

set_option maxRecDepth 8000 in
theorem seqPT_put_del (ser l0 : Bool) (pre : Pre) (old : Bool) (τ : Times) (h : τ.fits ⟨ser, l0, pre, old, .put, .del⟩) :
    seqPT ⟨ser, l0, pre, old, .put, .del⟩ τ = (linOf ⟨ser, l0, pre, old, .put, .del⟩).1 := by
  obtain ⟨httl, hlife, hage, hx⟩ := h
  have hl : τ.life ≠ 0 := by omega
  have hx' : (τ.now < τ.xmt + τ.ttl) = False := eq_false hx
  have hy : (τ.now < τ.mt + τ.ttl) = (old = false) := by
    apply propext
    cases old <;> simp at hage ⊢ <;> omega
  clear hage hx
  cases ser <;> cases l0 <;> cases pre <;> cases old <;>
  simp [seqPT, ArvVerif.C04.step, hCfg, hSt, hVol, hP, hT, obsH, writables, compareAndTouch, firstHolding, pickTarget, updVol,
    Vol.write, Vol.touch, Vol.setBlock, delHit, delVol, Vol.trashBlock, young, trashInsert, deadlineOf, tiVol, tiSelected,
    untrashVol, untrashHit, minEntry, Vol.untrash,
    linOf, linTab, cfgIdx, encB, encPre, encPOp, encTOp, *]

set_option maxRecDepth 8000 in
theorem seqPT_put_ti (ser l0 : Bool) (pre : Pre) (old : Bool) (τ : Times) (h : τ.fits ⟨ser, l0, pre, old, .put, .ti⟩) :
    seqPT ⟨ser, l0, pre, old, .put, .ti⟩ τ = (linOf ⟨ser, l0, pre, old, .put, .ti⟩).1 := by
  obtain ⟨httl, hlife, hage, hx⟩ := h
  have hl : τ.life ≠ 0 := by omega
  have hx' : (τ.now < τ.xmt + τ.ttl) = False := eq_false hx
  have hy : (τ.now < τ.mt + τ.ttl) = (old = false) := by
    apply propext
    cases old <;> simp at hage ⊢ <;> omega
  clear hage hx
  cases ser <;> cases l0 <;> cases pre <;> cases old <;>
  simp [seqPT, ArvVerif.C04.step, hCfg, hSt, hVol, hP, hT, obsH, writables, compareAndTouch, firstHolding, pickTarget, updVol,
    Vol.write, Vol.touch, Vol.setBlock, delHit, delVol, Vol.trashBlock, young, trashInsert, deadlineOf, tiVol, tiSelected,
    untrashVol, untrashHit, minEntry, Vol.untrash,
    linOf, linTab, cfgIdx, encB, encPre, encPOp, encTOp, *]

set_option maxRecDepth 8000 in
theorem seqPT_put_untrash (ser l0 : Bool) (pre : Pre) (old : Bool) (τ : Times) (h : τ.fits ⟨ser, l0, pre, old, .put, .untrash⟩) :
    seqPT ⟨ser, l0, pre, old, .put, .untrash⟩ τ = (linOf ⟨ser, l0, pre, old, .put, .untrash⟩).1 := by
  obtain ⟨httl, hlife, hage, hx⟩ := h
  have hl : τ.life ≠ 0 := by omega
  have hx' : (τ.now < τ.xmt + τ.ttl) = False := eq_false hx
  have hy : (τ.now < τ.mt + τ.ttl) = (old = false) := by
    apply propext
    cases old <;> simp at hage ⊢ <;> omega
  clear hage hx
  cases ser <;> cases l0 <;> cases pre <;> cases old <;>
  simp [seqPT, ArvVerif.C04.step, hCfg, hSt, hVol, hP, hT, obsH, writables, compareAndTouch, firstHolding, pickTarget, updVol,
    Vol.write, Vol.touch, Vol.setBlock, delHit, delVol, Vol.trashBlock, young, trashInsert, deadlineOf, tiVol, tiSelected,
    untrashVol, untrashHit, minEntry, Vol.untrash,
    linOf, linTab, cfgIdx, encB, encPre, encPOp, encTOp, *]

theorem seqPT_lit (c : Cfg) (τ : Times) (h : τ.fits c) : seqPT c τ = (linOf c).1 := by
  obtain ⟨ser, l0, pre, old, pop, top⟩ := c
  cases pop <;> cases top
  · exact seqPT_touch_del ser l0 pre old τ h
  · exact seqPT_touch_ti ser l0 pre old τ h
  · exact seqPT_touch_untrash ser l0 pre old τ h
  · exact seqPT_put_del ser l0 pre old τ h
  · exact seqPT_put_ti ser l0 pre old τ h
  · exact seqPT_put_untrash ser l0 pre old τ h

end ArvVerif.C04.Race
