/-
C07 helper lemmas, part 2: the hand-written matcher for `SignedLocatorRe` is sound and complete
for the locator grammar (`IsSignedLocator`); expiry formatting/parsing round trip.
-/
import ArvVerif.Proofs.C07
namespace ArvVerif.C07

/-- the signature hint without its leading `+` -/
def sigField (sig exp : Str) : Str := 'A' :: (sig ++ '@' :: exp)

/-- The grammar of `SignedLocatorRe`, spelled out: 32 hex digits, an optional decimal size,
hints `[B-Z][A-Za-z0-9@_-]*`, one `A<40 hex>@<8 hex>`, more hints; every field preceded by `+`. -/
def IsSignedLocator (s hash sig exp : Str) : Prop :=
  ∃ (size hs1 hs2 : List Str),
    s = hash ++ hints (size ++ hs1 ++ sigField sig exp :: hs2) ∧
    hash.length = 32 ∧ hash.all isXDigit = true ∧
    (size = [] ∨ ∃ d, size = [d] ∧ isSizeField d = true) ∧
    (∀ f ∈ hs1, isOtherHint f = true) ∧
    sig.length = 40 ∧ sig.all isXDigit = true ∧
    exp.length = 8 ∧ exp.all isXDigit = true ∧
    (∀ f ∈ hs2, isOtherHint f = true)

theorem free_of_all {p : Char → Bool} {f : Str} (hp : ∀ c, p c = true → c ≠ '+')
    (h : f.all p = true) : Free '+' f :=
  fun c hc => hp c (List.all_eq_true.mp h c hc)

theorem free_of_isOtherHint {f : Str} (h : isOtherHint f = true) : Free '+' f := by
  cases f with
  | nil => simp [isOtherHint] at h
  | cons c r =>
    simp only [isOtherHint, Bool.and_eq_true] at h
    intro d hd
    rcases List.mem_cons.mp hd with rfl | hd
    · exact ne_plus_of_isHintStart h.1
    · exact ne_plus_of_isHintChar (List.all_eq_true.mp h.2 d hd)

theorem free_of_isSizeField {f : Str} (h : isSizeField f = true) : Free '+' f := by
  simp only [isSizeField, Bool.and_eq_true] at h
  exact free_of_all (fun _ => ne_plus_of_isDigit) h.2

theorem free_sigField {sig exp : Str} (h1 : sig.all isXDigit = true) (h2 : exp.all isXDigit = true) :
    Free '+' (sigField sig exp) := by
  intro c hc
  simp only [sigField, List.mem_cons, List.mem_append] at hc
  rcases hc with rfl | hc | rfl | hc
  · decide
  · exact ne_plus_of_isXDigit (List.all_eq_true.mp h1 c hc)
  · decide
  · exact ne_plus_of_isXDigit (List.all_eq_true.mp h2 c hc)

theorem not_isSizeField_of_isOtherHint {f : Str} (h : isOtherHint f = true) : isSizeField f = false := by
  cases f with
  | nil => simp [isOtherHint] at h
  | cons c r =>
    simp only [isOtherHint, Bool.and_eq_true] at h
    have : isDigit c = false := by
      have h1 := h.1
      cases hd : isDigit c with
      | false => rfl
      | true =>
        exfalso
        simp only [isHintStart, isDigit, Char.le_def, Bool.and_eq_true, decide_eq_true_eq,
          UInt32.le_iff_toNat_le] at h1 hd
        have t9 : ('9' : Char).val.toNat = 57 := by decide
        have tB : ('B' : Char).val.toNat = 66 := by decide
        omega
    simp [isSizeField, this]

theorem not_isSizeField_sigField (sig exp : Str) : isSizeField (sigField sig exp) = false := by
  have : isDigit 'A' = false := by decide
  simp [isSizeField, sigField, this]

theorem not_isOtherHint_sigField (sig exp : Str) : isOtherHint (sigField sig exp) = false := by
  have : isHintStart 'A' = false := by decide
  simp [isOtherHint, sigField, this]

theorem parseSigField_sigField {sig exp : Str} (h1 : sig.length = 40) (h2 : sig.all isXDigit = true)
    (h3 : exp.length = 8) (h4 : exp.all isXDigit = true) :
    parseSigField (sigField sig exp) = some (sig, exp) := by
  have e1 : (sig ++ '@' :: exp).take 40 = sig := List.take_left' h1
  have e2 : (sig ++ '@' :: exp).drop 40 = '@' :: exp := List.drop_left' h1
  have e3 : (sig ++ '@' :: exp).drop 41 = exp := by
    have : sig ++ '@' :: exp = (sig ++ ['@']) ++ exp := by simp
    rw [this]; exact List.drop_left' (by simp [h1])
  simp [parseSigField, sigField, e1, e2, e3, h1, h2, h3, h4]

theorem parseSigField_some {f sig exp : Str} (h : parseSigField f = some (sig, exp)) :
    f = sigField sig exp ∧ sig.length = 40 ∧ sig.all isXDigit = true ∧
      exp.length = 8 ∧ exp.all isXDigit = true := by
  unfold parseSigField at h
  split at h
  · rename_i r
    split at h
    · rename_i hc
      simp only [Bool.and_eq_true, decide_eq_true_eq, beq_iff_eq] at hc
      obtain ⟨⟨⟨hl, ha⟩, hat⟩, hb⟩ := hc
      simp only [Option.some.injEq, Prod.mk.injEq] at h
      obtain ⟨rfl, rfl⟩ := h
      have hd : r.drop 40 = '@' :: r.drop 41 := by
        rw [List.drop_eq_getElem_cons (by omega)]
        rw [List.head?_drop, List.getElem?_eq_getElem (by omega)] at hat
        simp only [Option.some.injEq] at hat
        rw [hat]
      refine ⟨?_, by simp [hl], ha, by simp [hl], hb⟩
      simp only [sigField]
      rw [← hd, List.take_append_drop]
    · simp at h
  · simp at h

theorem takeWhile_eq_self {α} {p : α → Bool} {l : List α} (h : ∀ x ∈ l, p x = true) :
    l.takeWhile p = l := by
  induction l with
  | nil => rfl
  | cons a l ih =>
    rw [List.takeWhile_cons, if_pos (h a (List.mem_cons_self ..)),
      ih (fun x hx => h x (List.mem_cons_of_mem _ hx))]

theorem mem_takeWhile_imp {α} {p : α → Bool} {l : List α} {x : α} (h : x ∈ l.takeWhile p) :
    p x = true := by
  induction l with
  | nil => simp at h
  | cons a l ih =>
    rw [List.takeWhile_cons] at h
    split at h
    · rcases List.mem_cons.mp h with rfl | h
      · assumption
      · exact ih h
    · simp at h

/-- what the matcher does on `hash+size?+hints…+f+rest…` when `f` is the first field that is
neither a size nor an ordinary hint: everything hinges on `f` being a signature field -/
theorem matchSigned_at_field {hash f : Str} {size hs1 rest : List Str}
    (hl : hash.length = 32) (hx : hash.all isXDigit = true)
    (hsize : size = [] ∨ ∃ d, size = [d] ∧ isSizeField d = true)
    (hh1 : ∀ g ∈ hs1, isOtherHint g = true)
    (hf : Free '+' f) (hns : isSizeField f = false) (hnh : isOtherHint f = false)
    (hrest : ∀ g ∈ rest, Free '+' g) :
    matchSigned (hash ++ hints (size ++ hs1 ++ f :: rest)) =
      match parseSigField f with
      | none => none
      | some (sig, e) => if rest.all isOtherHint then some (hash, sig, e) else none := by
  have hfree : ∀ g ∈ size ++ hs1 ++ f :: rest, Free '+' g := by
    intro g hg
    simp only [List.mem_append, List.mem_cons] at hg
    rcases hg with (hg | hg) | rfl | hg
    · rcases hsize with rfl | ⟨d, rfl, hd⟩
      · simp at hg
      · simp at hg; subst hg; exact free_of_isSizeField hd
    · exact free_of_isOtherHint (hh1 g hg)
    · exact hf
    · exact hrest g hg
  have hsplit := splitOn_hints (free_of_all (fun _ => ne_plus_of_isXDigit) hx) hfree
  unfold matchSigned
  rw [hsplit]
  simp only [hl, hx, decide_true, Bool.and_self, if_true]
  have hfs1 : dropSizeField (size ++ hs1 ++ f :: rest) = hs1 ++ f :: rest := by
    rcases hsize with rfl | ⟨d, rfl, hd⟩
    · cases hs1 with
      | nil => simp [dropSizeField, hns]
      | cons g gs => simp [dropSizeField, not_isSizeField_of_isOtherHint (hh1 g (List.mem_cons_self ..))]
    · simp [dropSizeField, hd]
  rw [hfs1, List.dropWhile_append_of_pos hh1, List.dropWhile_cons]
  simp only [hnh, Bool.false_eq_true, if_false]
  cases parseSigField f with
  | none => rfl
  | some p => obtain ⟨a, b⟩ := p; rfl

/-- without any signature field nothing matches -/
theorem matchSigned_no_sigField {hash : Str} {size hs : List Str}
    (hl : hash.length = 32) (hx : hash.all isXDigit = true)
    (hsize : size = [] ∨ ∃ d, size = [d] ∧ isSizeField d = true)
    (hh : ∀ g ∈ hs, isOtherHint g = true) :
    matchSigned (hash ++ hints (size ++ hs)) = none := by
  have hfree : ∀ g ∈ size ++ hs, Free '+' g := by
    intro g hg
    rcases List.mem_append.mp hg with hg | hg
    · rcases hsize with rfl | ⟨d, rfl, hd⟩
      · simp at hg
      · simp at hg; subst hg; exact free_of_isSizeField hd
    · exact free_of_isOtherHint (hh g hg)
  have hsplit := splitOn_hints (free_of_all (fun _ => ne_plus_of_isXDigit) hx) hfree
  unfold matchSigned
  rw [hsplit]
  simp only [hl, hx, decide_true, Bool.and_self, if_true]
  have hfs1 : dropSizeField (size ++ hs) = hs := by
    rcases hsize with rfl | ⟨d, rfl, hd⟩
    · cases hs with
      | nil => rfl
      | cons g gs => simp [dropSizeField, not_isSizeField_of_isOtherHint (hh g (List.mem_cons_self ..))]
    · simp [dropSizeField, hd]
  have : hs.dropWhile isOtherHint = [] := by
    have := List.dropWhile_append_of_pos (l₂ := []) hh
    simpa using this
  rw [hfs1, this]

/-- completeness: every string of the grammar is matched, with the grammar's groups -/
theorem matchSigned_of_isSignedLocator {s hash sig exp : Str} (h : IsSignedLocator s hash sig exp) :
    matchSigned s = some (hash, sig, exp) := by
  obtain ⟨size, hs1, hs2, rfl, hl, hx, hsize, hh1, sl, sx, el, ex, hh2⟩ := h
  rw [matchSigned_at_field hl hx hsize hh1 (free_sigField sx ex) (not_isSizeField_sigField _ _)
    (not_isOtherHint_sigField _ _) (fun g hg => free_of_isOtherHint (hh2 g hg)),
    parseSigField_sigField sl sx el ex]
  have : hs2.all isOtherHint = true := List.all_eq_true.mpr hh2
  simp [this]

/-- soundness: whatever the matcher accepts is a string of the grammar -/
theorem isSignedLocator_of_matchSigned {s hash sig exp : Str}
    (h : matchSigned s = some (hash, sig, exp)) : IsSignedLocator s hash sig exp := by
  unfold matchSigned at h
  cases hs : splitOn '+' s with
  | nil => exact absurd hs (splitOn_ne_nil _ _)
  | cons h0 fs =>
    rw [hs] at h
    simp only at h
    split at h
    · rename_i hc
      simp only [Bool.and_eq_true, decide_eq_true_eq] at hc
      -- the optional size field
      have hsz : ∃ size fs1, fs = size ++ fs1 ∧ (size = [] ∨ ∃ d, size = [d] ∧ isSizeField d = true) ∧
          dropSizeField fs = fs1 := by
        cases fs with
        | nil => exact ⟨[], [], rfl, Or.inl rfl, rfl⟩
        | cons f r =>
          by_cases hf : isSizeField f = true
          · exact ⟨[f], r, rfl, Or.inr ⟨f, rfl, hf⟩, by simp [dropSizeField, hf]⟩
          · exact ⟨[], f :: r, rfl, Or.inl rfl, by simp [dropSizeField, hf]⟩
      obtain ⟨size, fs1, efs, hsize, efs1⟩ := hsz
      rw [efs1] at h
      cases hd : fs1.dropWhile isOtherHint with
      | nil => rw [hd] at h; simp at h
      | cons f r =>
        rw [hd] at h
        simp only at h
        cases hp : parseSigField f with
        | none => rw [hp] at h; simp at h
        | some p =>
          obtain ⟨sig', e'⟩ := p
          rw [hp] at h
          simp only at h
          split at h
          · rename_i hr
            simp only [Option.some.injEq, Prod.mk.injEq] at h
            obtain ⟨rfl, rfl, rfl⟩ := h
            obtain ⟨rfl, sl, sx, el, ex⟩ := parseSigField_some hp
            refine ⟨size, fs1.takeWhile isOtherHint, r, ?_, hc.1, hc.2, hsize,
              fun f hf => mem_takeWhile_imp hf, sl, sx, el, ex, List.all_eq_true.mp hr⟩
            rw [splitOn_plus_eq_cons hs, efs, List.append_assoc, ← hd,
              List.takeWhile_append_dropWhile]
          · simp at h
    · simp at h

theorem matchSigned_iff {s hash sig exp : Str} :
    matchSigned s = some (hash, sig, exp) ↔ IsSignedLocator s hash sig exp :=
  ⟨isSignedLocator_of_matchSigned, matchSigned_of_isSignedLocator⟩

/-- the first group is the text before the first `+` -/
theorem hash_eq_hashPart {s hash sig exp : Str} (h : IsSignedLocator s hash sig exp) :
    hashPart s = hash := by
  obtain ⟨size, hs1, hs2, rfl, _, hx, _⟩ := h
  have hfree := free_of_all (fun _ => ne_plus_of_isXDigit) hx
  generalize size ++ hs1 ++ sigField sig exp :: hs2 = fs
  unfold hashPart
  cases fs with
  | nil =>
    simp only [hints_nil, List.append_nil]
    exact takeWhile_eq_self (fun c hc => by simpa using hfree c hc)
  | cons f fs =>
    rw [hints_cons, List.cons_append]
    rw [List.takeWhile_append_of_pos (fun c hc => by simpa using hfree c hc)]
    simp

/-! ## expiry field -/

theorem parseHexTimestamp_xdigits {e : Str} (hl : e.length = 8) (hx : e.all isXDigit = true) :
    ∃ v : Nat, v < 2 ^ 32 ∧ hexNat? e 0 = some v ∧ parseHexTimestamp e = some (v : Int) := by
  obtain ⟨v, hv, hlt⟩ := hexNat?_xdigits e 0 (List.all_eq_true.mp hx)
  rw [hl] at hlt
  have hlt' : v < 2 ^ 32 := by simpa using hlt
  refine ⟨v, hlt', hv, ?_⟩
  cases e with
  | nil => simp at hl
  | cons c cs =>
    have hc : isXDigit c = true := List.all_eq_true.mp hx c (List.mem_cons_self ..)
    have h1 : c ≠ '+' := ne_plus_of_isXDigit hc
    have h2 : c ≠ '-' := ne_minus_of_isXDigit hc
    have hs : splitSign (c :: cs) = (false, c :: cs) := by
      unfold splitSign
      split
      · rename_i heq; simp at heq; exact absurd heq.1 h1
      · rename_i heq; simp at heq; exact absurd heq.1 h2
      · rfl
    have : v < 2 ^ 63 := Nat.lt_of_lt_of_le hlt' (by decide)
    simp [parseHexTimestamp, hs, hv, this]

theorem fmt08x_nonneg {v : Int} (h0 : 0 ≤ v) (hlt : v < 2 ^ 32) :
    (fmt08x v).length = 8 ∧ (fmt08x v).all isLowerHex = true ∧
      hexNat? (fmt08x v) 0 = some v.toNat := by
  have hn : v.toNat < 16 ^ 8 := by
    have : (v.toNat : Int) = v := Int.toNat_of_nonneg h0
    have : (v.toNat : Int) < 2 ^ 32 := by omega
    have h16 : (16 : Nat) ^ 8 = 2 ^ 32 := by decide
    omega
  have hlen := (natHex_length_le_iff v.toNat 8 (by decide)).mpr hn
  simp only [fmt08x, h0, if_true, padLeft]
  refine ⟨by simp; omega, ?_, by rw [hexNat?_zeros, hexNat?_natHex]⟩
  rw [List.all_eq_true]
  intro c hc
  rcases List.mem_append.mp hc with hc | hc
  · rw [List.mem_replicate] at hc; rw [hc.2]; decide
  · exact natHex_lowerHex _ c hc

/-- Go's zero-padded `%08x` and Ruby's `to_s(16)` agree from 2^28 on -/
theorem fmt08x_eq_natHex {v : Nat} (h : 2 ^ 28 ≤ v) : fmt08x (v : Int) = natHex v := by
  have h7 : ¬ (natHex v).length ≤ 7 := by
    rw [natHex_length_le_iff v 7 (by decide)]
    have : (16 : Nat) ^ 7 = 2 ^ 28 := by decide
    omega
  have : 8 - (natHex v).length = 0 := by omega
  simp [fmt08x, padLeft, this]

end ArvVerif.C07
