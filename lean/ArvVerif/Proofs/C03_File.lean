/-
C03 (second extension pass): a handle's sequence of File.Read / File.Seek calls reads the flat file
content at the handle's offset. Invariants on `locate` and on the incremental pointer.
-/
import ArvVerif.Proofs.C03Cache
namespace ArvVerif.C03

/-- bytes `[offset, offset+length)` of the segment's block -/
def segSlice (blocks : Nat → Bytes) (s : Seg) : Bytes := ((blocks s.blk).drop s.offset).take s.length

/-- the flat content of a file: its segments' slices, concatenated -/
def fileContent (blocks : Nat → Bytes) (segs : List Seg) : Bytes := (segs.map (segSlice blocks)).flatten

/-- every segment lies inside its block -/
def SegsIn (blocks : Nat → Bytes) (segs : List Seg) : Prop :=
  ∀ s ∈ segs, s.offset + s.length ≤ (blocks s.blk).length

/-- no empty segments (loadManifest appends a segment only when `blkLen > 0`) -/
def SegsPos (segs : List Seg) : Prop := ∀ s ∈ segs, 0 < s.length

theorem segSlice_length (blocks : Nat → Bytes) (s : Seg) (h : s.offset + s.length ≤ (blocks s.blk).length) :
    (segSlice blocks s).length = s.length := by
  simp [segSlice]; omega

theorem fileContent_length (blocks : Nat → Bytes) (segs : List Seg) (hin : SegsIn blocks segs) :
    (fileContent blocks segs).length = fileSize segs := by
  induction segs with
  | nil => simp [fileContent, fileSize]
  | cons s rest ih =>
    have h1 := segSlice_length blocks s (hin s (by simp))
    have h2 := ih (fun t ht => hin t (List.mem_cons_of_mem _ ht))
    simp only [fileContent, fileSize, List.map_cons, List.flatten_cons, List.length_append, List.sum_cons] at *
    omega

theorem fileSize_cons (s : Seg) (rest : List Seg) : fileSize (s :: rest) = s.length + fileSize rest := by
  simp [fileSize]

theorem fileContent_cons (blocks : Nat → Bytes) (s : Seg) (rest : List Seg) :
    fileContent blocks (s :: rest) = segSlice blocks s ++ fileContent blocks rest := by
  simp [fileContent]

/-- dropping the first `k` segments' worth of bytes, then `o` more inside segment `k` -/
theorem fileContent_drop (blocks : Nat → Bytes) (segs : List Seg) (hin : SegsIn blocks segs)
    (k : Nat) (s : Seg) (hk : segs[k]? = some s) (o : Nat) (ho : o ≤ s.length) :
    (fileContent blocks segs).drop (fileSize (segs.take k) + o) =
      (segSlice blocks s).drop o ++ fileContent blocks (segs.drop (k + 1)) := by
  induction segs generalizing k with
  | nil => simp at hk
  | cons t rest ih =>
    cases k with
    | zero =>
      simp at hk
      subst hk
      have hl := segSlice_length blocks t (hin t (by simp))
      simp only [List.take_zero, fileSize, List.map_nil, List.sum_nil, Nat.zero_add, fileContent_cons, List.drop_succ_cons, List.drop_zero]
      rw [List.drop_append_of_le_length (by omega)]
    | succ k =>
      simp at hk
      have hl := segSlice_length blocks t (hin t (by simp))
      have := ih (fun u hu => hin u (List.mem_cons_of_mem _ hu)) k hk
      rw [List.take_succ_cons, fileSize_cons, fileContent_cons, List.drop_succ_cons]
      rw [show t.length + fileSize (List.take k rest) + o = (segSlice blocks t).length + (fileSize (List.take k rest) + o) by omega]
      rw [List.drop_append, List.drop_of_length_le (by omega), Nat.add_sub_cancel_left, List.nil_append]
      simpa using this

/-- `locate` finds the segment that holds `target` and the offset inside it. -/
theorem locate_spec (target : Nat) (segs : List Seg) (hpos : SegsPos segs) (off0 idx0 : Nat)
    (h1 : off0 ≤ target) (h2 : target < off0 + fileSize segs) :
    ∃ k s, (locate target segs off0 idx0).1 = idx0 + k ∧ segs[k]? = some s ∧
      (locate target segs off0 idx0).2 < s.length ∧
      off0 + fileSize (segs.take k) + (locate target segs off0 idx0).2 = target := by
  induction segs generalizing off0 idx0 with
  | nil => simp [fileSize] at h2; omega
  | cons s rest ih =>
    have hs : 0 < s.length := hpos s (by simp)
    unfold locate
    by_cases hlt : off0 < target
    · simp only [hlt, if_true]
      by_cases hin : target < off0 + s.length
      · simp only [hin, if_true]
        exact ⟨0, s, rfl, rfl, by omega, by simp [fileSize]; omega⟩
      · simp only [hin, if_false]
        rw [fileSize_cons] at h2
        obtain ⟨k, t, e1, e2, e3, e4⟩ := ih (fun u hu => hpos u (List.mem_cons_of_mem _ hu))
          (off0 + s.length) (idx0 + 1) (by omega) (by omega)
        refine ⟨k + 1, t, by omega, by simpa using e2, e3, ?_⟩
        rw [List.take_succ_cons, fileSize_cons]; omega
    · simp only [hlt, if_false]
      exact ⟨0, s, rfl, rfl, hs, by simp [fileSize]; omega⟩

theorem fileSize_split (segs : List Seg) (k : Nat) :
    fileSize segs = fileSize (segs.take k) + fileSize (segs.drop k) := by
  induction segs generalizing k with
  | nil => simp [fileSize]
  | cons s rest ih =>
    cases k with
    | zero => simp [fileSize]
    | succ k =>
      rw [List.take_succ_cons, List.drop_succ_cons, fileSize_cons, fileSize_cons, ih k]; omega

theorem fileSize_take_succ (segs : List Seg) (k : Nat) (s : Seg) (hk : segs[k]? = some s) :
    fileSize (segs.take (k + 1)) = fileSize (segs.take k) + s.length := by
  induction segs generalizing k with
  | nil => simp at hk
  | cons t rest ih =>
    cases k with
    | zero => simp at hk; subst hk; simp [fileSize]
    | succ k =>
      simp at hk
      rw [List.take_succ_cons, fileSize_cons, List.take_succ_cons, fileSize_cons, ih k hk]; omega

/-- The pointer invariant: a pointer is stale (Seek changed its offset: recomputed on next use), or at
or beyond the end of the file, or its (segment index, offset in segment) pair names its offset —
possibly sitting exactly at the end of the segment. -/
def PtrOK (segs : List Seg) (p : Ptr) : Prop :=
  p.stale = true ∨ fileSize segs ≤ p.off ∨
  ∃ s, segs[p.idx]? = some s ∧ p.segOff ≤ s.length ∧ fileSize (segs.take p.idx) + p.segOff = p.off

/-- what `seek` establishes before the end of the file -/
structure Located (segs : List Seg) (p : Ptr) (s : Seg) : Prop where
  seg : segs[p.idx]? = some s
  lt : p.segOff < s.length
  pos : fileSize (segs.take p.idx) + p.segOff = p.off
  fresh : p.stale = false

theorem ptrOK_init (segs : List Seg) : PtrOK segs {} := by
  cases segs with
  | nil => right; left; simp [fileSize]
  | cons s rest => right; right; exact ⟨s, rfl, by simp, by simp [fileSize]⟩

theorem ptrOK_fileSeek (segs : List Seg) (p : Ptr) (off : Nat) (h : PtrOK segs p) : PtrOK segs (fileSeek p off) := by
  unfold fileSeek
  split
  · exact h
  · left; rfl

/-- the handle's offset after filehandle.Seek(off, whence) at `pos` in a file of `size` bytes: the target,
or `pos` again when the target is negative (the call fails and changes nothing) -/
def seekPos (size pos : Nat) (w : Whence) (off : Int) : Nat :=
  if seekTarget size pos w off < 0 then pos else (seekTarget size pos w off).toNat

theorem fileSeekW_off (size : Nat) (p : Ptr) (w : Whence) (off : Int) :
    (fileSeekW size p w off).1.off = seekPos size p.off w off := by
  unfold fileSeekW seekPos
  by_cases h : seekTarget size p.off w off < 0
  · simp [h]
  · simp only [h, if_false]
    split <;> simp_all

/-- what Seek reports is the handle's new offset; it fails exactly for a negative target -/
theorem fileSeekW_pos (size : Nat) (p : Ptr) (w : Whence) (off : Int) :
    ((fileSeekW size p w off).2 = none ↔ seekTarget size p.off w off < 0) ∧
    (∀ n, (fileSeekW size p w off).2 = some n → (fileSeekW size p w off).1.off = n ∧
      (n : Int) = seekTarget size p.off w off) ∧
    ((fileSeekW size p w off).2 = none → (fileSeekW size p w off).1 = p) := by
  unfold fileSeekW
  by_cases h : seekTarget size p.off w off < 0
  · simp [h]
  · simp only [h, if_false]
    have hnn : 0 ≤ seekTarget size p.off w off := by omega
    split
    · rename_i heq
      refine ⟨by simp, ?_, by simp⟩
      intro n hn
      simp at hn
      subst hn
      exact ⟨rfl, by omega⟩
    · refine ⟨by simp, ?_, by simp⟩
      intro n hn
      simp at hn
      subst hn
      exact ⟨rfl, by omega⟩

/-- Seek with any whence keeps the pointer invariant: either nothing changed or the pointer is stale -/
theorem ptrOK_fileSeekW (segs : List Seg) (size : Nat) (p : Ptr) (w : Whence) (off : Int) (h : PtrOK segs p) :
    PtrOK segs (fileSeekW size p w off).1 := by
  unfold fileSeekW
  simp only
  split
  · exact h
  · split
    · exact h
    · left; rfl

/-- SeekStart with a non-negative offset is the `fileSeek` used so far -/
theorem fileSeekW_start (size : Nat) (p : Ptr) (off : Nat) :
    fileSeekW size p .start (off : Int) = (fileSeek p off, some off) := by
  unfold fileSeekW fileSeek seekTarget
  have h : ¬ ((off : Int) < 0) := by omega
  simp only [h, if_false, Int.toNat_natCast]
  split
  · rename_i heq; simp [heq]
  · rfl

theorem seek_ge (segs : List Seg) (p : Ptr) (hge : fileSize segs ≤ p.off) :
    seek segs p = some { p with idx := segs.length, segOff := 0, stale := false } := by
  simp [seek, hge]

theorem seek_lt (segs : List Seg) (hpos : SegsPos segs) (p : Ptr) (hok : PtrOK segs p)
    (hlt : p.off < fileSize segs) :
    ∃ p1 s, seek segs p = some p1 ∧ p1.off = p.off ∧ Located segs p1 s := by
  have hnge : ¬ fileSize segs ≤ p.off := by omega
  unfold seek
  simp only [hnge, if_false]
  cases hst : p.stale with
  | true =>
    simp only [Bool.not_true, Bool.false_eq_true, if_false]
    obtain ⟨k, s, e1, e2, e3, e4⟩ := locate_spec p.off segs hpos 0 0 (Nat.zero_le _) (by omega)
    refine ⟨_, s, rfl, rfl, ?_⟩
    exact ⟨by simpa [e1] using e2, e3, by simp only [e1]; simpa using e4, rfl⟩
  | false =>
    simp only [Bool.not_false, if_true]
    rcases hok with h | h | ⟨s, hs, hle, hp⟩
    · rw [hst] at h; cases h
    · omega
    · rw [hs]
      simp only
      by_cases hend : s.length ≤ p.segOff
      · simp only [hend, if_true]
        have heq : p.segOff = s.length := by omega
        have hts := fileSize_take_succ segs p.idx s hs
        have hsplit := fileSize_split segs (p.idx + 1)
        -- there is a next segment, because the offset is before the end of the file
        cases hd : segs.drop (p.idx + 1) with
        | nil =>
          have hz : fileSize (segs.drop (p.idx + 1)) = 0 := by rw [hd]; rfl
          omega
        | cons t rest =>
          have ht : segs[p.idx + 1]? = some t := by
            have := List.getElem?_drop (xs := segs) (i := p.idx + 1) (j := 0)
            rw [hd] at this; simpa using this.symm
          have htpos : 0 < t.length := hpos t (List.mem_of_getElem? ht)
          exact ⟨_, t, rfl, rfl, ⟨ht, htpos, by simp only; omega, by simp⟩⟩
      · simp only [hend, if_false]
        exact ⟨p, s, rfl, rfl, ⟨hs, by omega, hp, hst⟩⟩

/-- storedSegment.ReadAt over a verified block store (BlockCache.ReadAt on an error-free entry that
holds block `s.blk`) -/
def vRead (blocks : Nat → Bytes) : Seg → Nat → Nat → Bytes × Option Err :=
  fun s pl off => segReadAt (fun l o => readAtEntry { data := blocks s.blk, err := none } o l) s pl off

theorem vRead_eq (blocks : Nat → Bytes) (s : Seg) (pl off : Nat) (hoff : off ≤ s.length)
    (hin : s.offset + s.length ≤ (blocks s.blk).length) :
    vRead blocks s pl off = (((segSlice blocks s).drop off).take pl,
      if s.length - off < pl then some .eof else none) := by
  unfold vRead segSlice
  exact segReadAt_verified (blocks s.blk) s pl off hoff hin

theorem take_take_length (X : Bytes) (n : Nat) : X.take (X.take n).length = X.take n := by
  rw [List.length_take]
  by_cases h : n ≤ X.length
  · rw [Nat.min_eq_left h]
  · rw [Nat.min_eq_right (by omega), List.take_of_length_le (Nat.le_refl _), List.take_of_length_le (by omega)]

/-- File.Read at or beyond the end of the file: no bytes, EOF, offset unchanged. -/
theorem fileRead_at_end (blocks : Nat → Bytes) (segs : List Seg) (p : Ptr) (plen : Nat)
    (hge : fileSize segs ≤ p.off) :
    ∃ p', fileRead (vRead blocks) segs p plen = some ([], some .eof, p') ∧ p'.off = p.off ∧ PtrOK segs p' := by
  unfold fileRead
  rw [seek_ge segs p hge]
  simp only
  have : segs[segs.length]? = none := by simp
  rw [this]
  exact ⟨_, rfl, rfl, Or.inr (Or.inl hge)⟩

/-- One File.Read before the end of the file. -/
theorem fileRead_before_end (blocks : Nat → Bytes) (segs : List Seg) (hin : SegsIn blocks segs)
    (hpos : SegsPos segs) (p : Ptr) (hok : PtrOK segs p) (plen : Nat) (hlt : p.off < fileSize segs) :
    ∃ d e p', fileRead (vRead blocks) segs p plen = some (d, e, p') ∧
      d = ((fileContent blocks segs).drop p.off).take d.length ∧
      (∃ s o, o < s.length ∧ s ∈ segs ∧ d.length = min plen (s.length - o)) ∧
      p'.off = p.off + d.length ∧ PtrOK segs p' ∧
      (e = none ∨ (e = some .eof ∧ p'.off = fileSize segs ∧ fileSize segs < p.off + plen)) := by
  obtain ⟨p1, s, hseek, hoff, hloc⟩ := seek_lt segs hpos p hok hlt
  have hmem : s ∈ segs := List.mem_of_getElem? hloc.seg
  have hsin := hin s hmem
  have hsl := segSlice_length blocks s hsin
  have hv := vRead_eq blocks s plen p1.segOff (Nat.le_of_lt hloc.lt) hsin
  -- the data of this read
  let X := (segSlice blocks s).drop p1.segOff
  have hXlen : X.length = s.length - p1.segOff := by simp [X, hsl]
  have hdlen : (X.take plen).length = min plen (s.length - p1.segOff) := by simp [hXlen]
  have hcontent : (fileContent blocks segs).drop p.off = X ++ fileContent blocks (segs.drop (p1.idx + 1)) := by
    rw [← hoff, ← hloc.pos]
    exact fileContent_drop blocks segs hin p1.idx s hloc.seg p1.segOff (Nat.le_of_lt hloc.lt)
  have hdata : X.take plen = ((fileContent blocks segs).drop p.off).take (X.take plen).length := by
    rw [hcontent, List.take_append_of_le_length (by rw [List.length_take]; omega), take_take_length]
  unfold fileRead
  rw [hseek]
  simp only [hloc.seg, hv]
  by_cases hn : (X.take plen).length = 0
  · -- nothing requested
    have hpl : plen = 0 := by
      rw [hdlen] at hn
      have := hloc.lt
      omega
    simp only [X] at hn
    simp only [hn, if_true]
    refine ⟨_, _, p1, rfl, ?_, ⟨s, p1.segOff, hloc.lt, hmem, by rw [hdlen]⟩, by simp [hn, hoff], ?_, ?_⟩
    · exact hdata
    · exact Or.inr (Or.inr ⟨s, hloc.seg, Nat.le_of_lt hloc.lt, hloc.pos⟩)
    · left; simp [hpl]
  · simp only [X] at hn
    simp only [hn, if_false]
    by_cases hend : p1.segOff + (List.take plen (List.drop p1.segOff (segSlice blocks s))).length = s.length
    · -- the read ends exactly at the segment's end: the pointer moves to the next segment
      simp only [hend, if_true]
      have hts := fileSize_take_succ segs p1.idx s hloc.seg
      have hn' : (X.take plen).length = s.length - p1.segOff := by simp only [X]; omega
      refine ⟨_, _, _, rfl, hdata, ⟨s, p1.segOff, hloc.lt, hmem, by rw [hdlen]⟩, by simp [hoff], ?_, ?_⟩
      · -- invariant for the moved pointer
        cases hnext : segs[p1.idx + 1]? with
        | none =>
          right; left
          have hall : segs.take (p1.idx + 1) = segs := List.take_of_length_le (by
            rw [List.getElem?_eq_none_iff] at hnext; exact hnext)
          have hpos' := hloc.pos
          simp only
          rw [hall] at hts
          simp only [X] at hn'
          omega
        | some t =>
          right; right
          refine ⟨t, hnext, Nat.zero_le _, ?_⟩
          have hpos' := hloc.pos
          simp only [X] at hn'
          simp only
          omega
      · -- the error
        by_cases hcut : s.length - p1.segOff < plen
        · simp only [hcut, if_true]
          by_cases hmore : p1.idx + 1 < segs.length
          · left; simp [hmore]
          · right
            have hall : segs.take (p1.idx + 1) = segs := List.take_of_length_le (by omega)
            rw [hall] at hts
            have hpos' := hloc.pos
            simp only [X] at hn'
            refine ⟨by simp [hmore], by omega, by omega⟩
        · left; simp [hcut]
    · -- the read ends inside the segment
      simp only [hend, if_false]
      have hn' : (X.take plen).length < s.length - p1.segOff := by
        have := hdlen; simp only [X] at this hend ⊢; omega
      have hfull : ¬ s.length - p1.segOff < plen := by
        rw [hdlen] at hn'; omega
      refine ⟨_, _, _, rfl, hdata, ⟨s, p1.segOff, hloc.lt, hmem, by rw [hdlen]⟩, by simp [hoff], ?_, ?_⟩
      · right; right
        refine ⟨s, hloc.seg, ?_, ?_⟩
        · simp only [X] at hn'; simp only; omega
        · have hpos' := hloc.pos; simp only; omega
      · left; rw [if_neg hfull]

/-- what a handle is asked to do -/
inductive FOp where
  | read (n : Nat)
  | seek (off : Nat)
  | seekW (w : Whence) (off : Int)
deriving Repr, DecidableEq

/-- A handle's life: filehandle.Read / filehandle.Seek(off, whence) calls in sequence (`seek off` =
SeekStart with a non-negative offset; `seekW` = any whence, any signed offset), threading the handle's
pointer; the results of the Read calls. -/
def runFile (segRead : Seg → Nat → Nat → Bytes × Option Err) (segs : List Seg) :
    Ptr → List FOp → Option (List (Bytes × Option Err))
  | _, [] => some []
  | p, .seek off :: rest => runFile segRead segs (fileSeek p off) rest
  | p, .seekW w off :: rest => runFile segRead segs (fileSeekW (fileSize segs) p w off).1 rest
  | p, .read n :: rest =>
    match fileRead segRead segs p n with
    | none => none
    | some (d, e, p') => (runFile segRead segs p' rest).map ((d, e) :: ·)

/-- The plain-file specification: the results of the Read calls, for a flat byte string `content` and
a position `pos` that Seek sets and Read advances. A Read returns the bytes at the position —
possibly fewer than asked (never none, unless nothing was asked or the position is at the end) —
and reports EOF only when the request reaches beyond the end of the content, always when the
position is at or beyond the end. -/
def Follows (content : Bytes) : Nat → List FOp → List (Bytes × Option Err) → Prop
  | _, [], rs => rs = []
  | _, .seek off :: ops, rs => Follows content off ops rs
  | pos, .seekW w off :: ops, rs => Follows content (seekPos content.length pos w off) ops rs
  | _, .read _ :: _, [] => False
  | pos, .read n :: ops, (d, e) :: rs =>
    d = (content.drop pos).take d.length ∧ d.length ≤ n ∧
    (d = [] → n = 0 ∨ content.length ≤ pos) ∧
    (e = none ∨ (e = some .eof ∧ content.length ≤ pos + d.length ∧ content.length < pos + n + 1)) ∧
    (content.length ≤ pos → e = some .eof) ∧
    Follows content (pos + d.length) ops rs

theorem runFile_follows (blocks : Nat → Bytes) (segs : List Seg) (hin : SegsIn blocks segs)
    (hpos : SegsPos segs) (ops : List FOp) (p : Ptr) (hok : PtrOK segs p) :
    ∃ rs, runFile (vRead blocks) segs p ops = some rs ∧ Follows (fileContent blocks segs) p.off ops rs := by
  have hclen := fileContent_length blocks segs hin
  induction ops generalizing p with
  | nil => exact ⟨[], rfl, rfl⟩
  | cons op rest ih =>
    cases op with
    | seek off =>
      obtain ⟨rs, h1, h2⟩ := ih (fileSeek p off) (ptrOK_fileSeek segs p off hok)
      refine ⟨rs, by simpa [runFile] using h1, ?_⟩
      have hoff : (fileSeek p off).off = off := by
        unfold fileSeek; split <;> simp_all
      rw [hoff] at h2
      simpa [Follows] using h2
    | seekW w off =>
      obtain ⟨rs, h1, h2⟩ := ih (fileSeekW (fileSize segs) p w off).1 (ptrOK_fileSeekW segs _ p w off hok)
      refine ⟨rs, by simpa [runFile] using h1, ?_⟩
      rw [fileSeekW_off, ← hclen] at h2
      simpa [Follows] using h2
    | read n =>
      by_cases hlt : p.off < fileSize segs
      · obtain ⟨d, e, p', hr, hd, ⟨s, o, ho, _, hlen⟩, hoff, hok', herr⟩ :=
          fileRead_before_end blocks segs hin hpos p hok n hlt
        obtain ⟨rs, h1, h2⟩ := ih p' hok'
        refine ⟨(d, e) :: rs, by simp [runFile, hr, h1], ?_⟩
        rw [hoff] at h2
        refine ⟨hd, by omega, ?_, ?_, by omega, h2⟩
        · intro hnil
          left
          have : d.length = 0 := by rw [hnil]; rfl
          omega
        · rcases herr with h | ⟨h, h3, h4⟩
          · left; exact h
          · right; exact ⟨h, by omega, by omega⟩
      · obtain ⟨p', hr, hoff, hok'⟩ := fileRead_at_end blocks segs p n (by omega)
        obtain ⟨rs, h1, h2⟩ := ih p' hok'
        refine ⟨([], some .eof) :: rs, by simp [runFile, hr, h1], ?_⟩
        rw [hoff] at h2
        refine ⟨by simp, by simp, fun _ => Or.inr (by omega), Or.inr ⟨rfl, by simp; omega, by omega⟩, fun _ => rfl, by simpa using h2⟩

end ArvVerif.C03
