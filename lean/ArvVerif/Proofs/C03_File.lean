/-
C03 (second extension pass): a handle's sequence of File.Read / File.Seek calls reads the flat file
content at the handle's offset. Invariants on `locate` and on the incremental pointer.
-/
import ArvVerif.Proofs.C03Cache
namespace ArvVerif.C03

/-- bytes `[offset, offset+length)` of the segment's block -/
def segSlice (blocks : Nat → Bytes) (s : Seg) : Bytes := ((blocks s.blk).drop s.offset).take s.length

/-- the flat content of a file: its segments' slices, concatenated -/
def fileContent (blocks : Nat → Bytes) (segs : List Seg) : Bytes := (segs.map (segSlice blocks)).flatten

/-- every segment lies inside its block -/
def SegsIn (blocks : Nat → Bytes) (segs : List Seg) : Prop :=
  ∀ s ∈ segs, s.offset + s.length ≤ (blocks s.blk).length

/-- no empty segments (loadManifest appends a segment only when `blkLen > 0`) -/
def SegsPos (segs : List Seg) : Prop := ∀ s ∈ segs, 0 < s.length

theorem segSlice_length (blocks : Nat → Bytes) (s : Seg) (h : s.offset + s.length ≤ (blocks s.blk).length) :
    (segSlice blocks s).length = s.length := by
  simp [segSlice]; omega

theorem fileContent_length (blocks : Nat → Bytes) (segs : List Seg) (hin : SegsIn blocks segs) :
    (fileContent blocks segs).length = fileSize segs := by
  induction segs with
  | nil => simp [fileContent, fileSize]
  | cons s rest ih =>
    have h1 := segSlice_length blocks s (hin s (by simp))
    have h2 := ih (fun t ht => hin t (List.mem_cons_of_mem _ ht))
    simp only [fileContent, fileSize, List.map_cons, List.flatten_cons, List.length_append, List.sum_cons] at *
    omega

theorem fileSize_cons (s : Seg) (rest : List Seg) : fileSize (s :: rest) = s.length + fileSize rest := by
  simp [fileSize]

theorem fileContent_cons (blocks : Nat → Bytes) (s : Seg) (rest : List Seg) :
    fileContent blocks (s :: rest) = segSlice blocks s ++ fileContent blocks rest := by
  simp [fileContent]

/-- dropping the first `k` segments' worth of bytes, then `o` more inside segment `k` -/
theorem fileContent_drop (blocks : Nat → Bytes) (segs : List Seg) (hin : SegsIn blocks segs)
    (k : Nat) (s : Seg) (hk : segs[k]? = some s) (o : Nat) (ho : o ≤ s.length) :
    (fileContent blocks segs).drop (fileSize (segs.take k) + o) =
      (segSlice blocks s).drop o ++ fileContent blocks (segs.drop (k + 1)) := by
  induction segs generalizing k with
  | nil => simp at hk
  | cons t rest ih =>
    cases k with
    | zero =>
      simp at hk
      subst hk
      have hl := segSlice_length blocks t (hin t (by simp))
      simp only [List.take_zero, fileSize, List.map_nil, List.sum_nil, Nat.zero_add, fileContent_cons, List.drop_succ_cons, List.drop_zero]
      rw [List.drop_append_of_le_length (by omega)]
    | succ k =>
      simp at hk
      have hl := segSlice_length blocks t (hin t (by simp))
      have := ih (fun u hu => hin u (List.mem_cons_of_mem _ hu)) k hk
      rw [List.take_succ_cons, fileSize_cons, fileContent_cons, List.drop_succ_cons]
      rw [show t.length + fileSize (List.take k rest) + o = (segSlice blocks t).length + (fileSize (List.take k rest) + o) by omega]
      rw [List.drop_append, List.drop_of_length_le (by omega), Nat.add_sub_cancel_left, List.nil_append]
      simpa using this

/-- `locate` finds the segment that holds `target` and the offset inside it. -/
theorem locate_spec (target : Nat) (segs : List Seg) (hpos : SegsPos segs) (off0 idx0 : Nat)
    (h1 : off0 ≤ target) (h2 : target < off0 + fileSize segs) :
    ∃ k s, (locate target segs off0 idx0).1 = idx0 + k ∧ segs[k]? = some s ∧
      (locate target segs off0 idx0).2 < s.length ∧
      off0 + fileSize (segs.take k) + (locate target segs off0 idx0).2 = target := by
  induction segs generalizing off0 idx0 with
  | nil => simp [fileSize] at h2; omega
  | cons s rest ih =>
    have hs : 0 < s.length := hpos s (by simp)
    unfold locate
    by_cases hlt : off0 < target
    · simp only [hlt, if_true]
      by_cases hin : target < off0 + s.length
      · simp only [hin, if_true]
        exact ⟨0, s, rfl, rfl, by omega, by simp [fileSize]; omega⟩
      · simp only [hin, if_false]
        rw [fileSize_cons] at h2
        obtain ⟨k, t, e1, e2, e3, e4⟩ := ih (fun u hu => hpos u (List.mem_cons_of_mem _ hu))
          (off0 + s.length) (idx0 + 1) (by omega) (by omega)
        refine ⟨k + 1, t, by omega, by simpa using e2, e3, ?_⟩
        rw [List.take_succ_cons, fileSize_cons]; omega
    · simp only [hlt, if_false]
      exact ⟨0, s, rfl, rfl, hs, by simp [fileSize]; omega⟩

end ArvVerif.C03
