/-
C10 — text-level lemmas: splitting and joining, the shape of tokens inside the grammar, and how
the Go recognisers (`LocatorPattern`, `ParseUint`/`ParseInt`, `SplitN`) treat them.
-/
import ArvVerif.Proofs.C10_Escape
namespace ArvVerif.C10

/-! ## splitOn / joinWith -/

theorem splitOn_ne_nil (sep : UInt8) : ∀ s : Bytes, splitOn sep s ≠ []
  | [] => by simp [splitOn]
  | c :: rest => by
    unfold splitOn
    split
    · simp
    · split <;> simp

theorem splitOn_of_no_sep (sep : UInt8) : ∀ s : Bytes, sep ∉ s → splitOn sep s = [s]
  | [], _ => rfl
  | c :: rest, h => by
    have hc : (c == sep) = false := by
      simp only [beq_eq_false_iff_ne]; intro e; exact h (by simp [e])
    have := splitOn_of_no_sep sep rest (fun hm => h (List.mem_cons_of_mem _ hm))
    unfold splitOn
    simp [hc, this]

theorem splitOn_append_sep (sep : UInt8) : ∀ (a rest : Bytes), sep ∉ a →
    splitOn sep (a ++ sep :: rest) = a :: splitOn sep rest
  | [], rest, _ => by simp [splitOn]
  | x :: a', rest, h => by
    have hx : (x == sep) = false := by
      simp only [beq_eq_false_iff_ne]; intro e; exact h (by simp [e])
    have := splitOn_append_sep sep a' rest (fun hm => h (List.mem_cons_of_mem _ hm))
    simp only [List.cons_append]
    conv => lhs; unfold splitOn
    simp [hx, this]

theorem joinWith_splitOn (sep : UInt8) : ∀ s : Bytes, joinWith sep (splitOn sep s) = s
  | [] => rfl
  | c :: rest => by
    have ih := joinWith_splitOn sep rest
    unfold splitOn
    by_cases hc : (c == sep) = true
    · rw [if_pos hc]
      have hce : c = sep := by simpa using hc
      cases hs : splitOn sep rest with
      | nil => exact absurd hs (splitOn_ne_nil sep rest)
      | cons p ps => rw [hs] at ih; simp [joinWith, ih, hce]
    · rw [if_neg hc]
      cases hs : splitOn sep rest with
      | nil => exact absurd hs (splitOn_ne_nil sep rest)
      | cons p ps =>
        rw [hs] at ih
        simp only []
        cases ps with
        | nil => simp only [joinWith] at ih ⊢; rw [ih]
        | cons q qs => simp only [joinWith, List.cons_append] at ih ⊢; rw [ih]

theorem splitOn_no_sep (sep : UInt8) : ∀ s : Bytes, ∀ p ∈ splitOn sep s, sep ∉ p
  | [], p, hp => by simp [splitOn] at hp; subst hp; simp
  | c :: rest, p, hp => by
    have ih := splitOn_no_sep sep rest
    unfold splitOn at hp
    by_cases hc : (c == sep) = true
    · rw [if_pos hc] at hp
      rcases List.mem_cons.mp hp with rfl | hp
      · simp
      · exact ih p hp
    · rw [if_neg hc] at hp
      cases hs : splitOn sep rest with
      | nil => exact absurd hs (splitOn_ne_nil sep rest)
      | cons q qs =>
        rw [hs] at hp ih
        simp only [] at hp
        rcases List.mem_cons.mp hp with rfl | hp
        · intro hm
          rcases List.mem_cons.mp hm with h | h
          · exact hc (by simp [h])
          · exact ih q (by simp) h
        · exact ih p (List.mem_cons_of_mem _ hp)

theorem splitOn_joinWith (sep : UInt8) : ∀ ps : List Bytes, ps ≠ [] → (∀ p ∈ ps, sep ∉ p) →
    splitOn sep (joinWith sep ps) = ps
  | [], h, _ => absurd rfl h
  | [p], _, h => by simp [joinWith, splitOn_of_no_sep sep p (h p (by simp))]
  | p :: q :: rest, _, h => by
    simp only [joinWith]
    rw [splitOn_append_sep sep p _ (h p (by simp)),
      splitOn_joinWith sep (q :: rest) (by simp) (fun x hx => h x (List.mem_cons_of_mem _ hx))]

/-- `SplitN(t, sep, 3)` on a token with (at least) two separators -/
theorem splitN3_three (sep : UInt8) (a b c : Bytes) (ha : sep ∉ a) (hb : sep ∉ b) :
    splitN3 sep (a ++ sep :: (b ++ sep :: c)) = [a, b, c] := by
  unfold splitN3
  rw [splitOn_append_sep sep a _ ha, splitOn_append_sep sep b _ hb]
  cases hs : splitOn sep c with
  | nil => exact absurd hs (splitOn_ne_nil sep c)
  | cons x xs =>
    simp only []
    rw [← hs, joinWith_splitOn]

/-! ## digit strings -/

theorem all_takeWhile (p : UInt8 → Bool) : ∀ l : Bytes, (l.takeWhile p).all p = true
  | [] => rfl
  | c :: rest => by
    unfold List.takeWhile
    cases h : p c <;> simp [h, all_takeWhile p rest]

theorem dropWhile_head (p : UInt8 → Bool) : ∀ (l : Bytes) (c : UInt8) (r : Bytes),
    l.dropWhile p = c :: r → p c = false
  | [], c, r, h => by simp at h
  | x :: rest, c, r, h => by
    unfold List.dropWhile at h
    cases hx : p x
    · rw [hx] at h; simp only [] at h; cases h; exact hx
    · rw [hx] at h; exact dropWhile_head p rest c r h

theorem not_mem_of_all {p : UInt8 → Bool} {l : Bytes} {c : UInt8} (h : l.all p = true) (hc : p c = false) :
    c ∉ l := by
  intro hm
  have := List.all_eq_true.mp h c hm
  rw [hc] at this; cases this

theorem parseNat?_digits (ds : Bytes) (h1 : ds ≠ []) (h2 : ds.all isDigit = true) :
    parseNat? ds = some (natOfDigits ds) := by
  unfold parseNat?
  rw [if_pos ⟨h1, h2⟩]

theorem parseUint64_digits (ds : Bytes) (h1 : ds ≠ []) (h2 : ds.all isDigit = true)
    (h3 : natOfDigits ds < two64) : parseUint64 ds = some (natOfDigits ds) := by
  unfold parseUint64
  rw [parseNat?_digits ds h1 h2]
  simp [h3]

/-- `ParseInt` on an unsigned digit string -/
theorem parseIntBits_digits (bits : Nat) (ds : Bytes) (h1 : ds ≠ []) (h2 : ds.all isDigit = true)
    (h3 : natOfDigits ds < 2 ^ (bits - 1)) : parseIntBits bits ds = some (natOfDigits ds : Int) := by
  cases ds with
  | nil => exact absurd rfl h1
  | cons c rest =>
    have hc : isDigit c = true := by
      have := List.all_eq_true.mp h2 c (by simp); exact this
    have h43 : (c == 43) = false := by
      simp only [beq_eq_false_iff_ne]; rintro rfl; revert hc; decide
    have h45 : (c == 45) = false := by
      simp only [beq_eq_false_iff_ne]; rintro rfl; revert hc; decide
    unfold parseIntBits
    simp only [h43, h45, Bool.false_eq_true, if_false]
    rw [parseNat?_digits (c :: rest) h1 h2]
    simp [h3]

/-! ## tokens of the grammar -/

/-- shape of a file token inside the grammar -/
theorem specFileTok_shape (t : Bytes) (f : FTok) (h : specFileTok t = some f) :
    ∃ p l nm, t = p ++ bColon :: (l ++ bColon :: nm) ∧ p ≠ [] ∧ p.all isDigit = true ∧
      l ≠ [] ∧ l.all isDigit = true ∧ nm ≠ [] ∧ specUnescape nm = some f.name ∧
      specFileNameOk f.name = true ∧ f.pos = natOfDigits p ∧ f.len = natOfDigits l := by
  unfold specFileTok at h
  simp only [] at h
  have ht : t = t.takeWhile isDigit ++ t.dropWhile isDigit := (List.takeWhile_append_dropWhile).symm
  cases hd : t.dropWhile isDigit with
  | nil => rw [hd] at h; cases h
  | cons c r =>
    rw [hd] at h
    simp only [] at h
    by_cases hc : (c == bColon) = true ∧ t.takeWhile isDigit ≠ []
    · rw [if_pos hc] at h
      have hr : r = r.takeWhile isDigit ++ r.dropWhile isDigit := (List.takeWhile_append_dropWhile).symm
      cases hd2 : r.dropWhile isDigit with
      | nil => rw [hd2] at h; cases h
      | cons c' nm =>
        rw [hd2] at h
        simp only [] at h
        by_cases hc' : (c' == bColon) = true ∧ r.takeWhile isDigit ≠ [] ∧ nm ≠ []
        · rw [if_pos hc'] at h
          cases hu : specUnescape nm with
          | none => rw [hu] at h; cases h
          | some name =>
            rw [hu] at h
            simp only [] at h
            by_cases hok : specFileNameOk name = true
            · rw [if_pos hok] at h
              cases h
              have e1 : c = bColon := by simpa using hc.1
              have e2 : c' = bColon := by simpa using hc'.1
              refine ⟨t.takeWhile isDigit, r.takeWhile isDigit, nm, ?_, hc.2, all_takeWhile _ _, hc'.2.1,
                all_takeWhile _ _, hc'.2.2, hu, hok, rfl, rfl⟩
              conv => lhs; rw [ht, hd, e1, hr, hd2, e2]
            · rw [if_neg hok] at h; cases h
        · rw [if_neg hc'] at h; cases h
    · rw [if_neg hc] at h; cases h

theorem colon_not_digit : isDigit bColon = false := by decide

theorem specFileTok_has_colon (t : Bytes) (f : FTok) (h : specFileTok t = some f) : bColon ∈ t := by
  obtain ⟨p, l, nm, ht, _⟩ := specFileTok_shape t f h
  rw [ht]; simp

/-- characters a hint section may hold -/
theorem hintsOk_chars : ∀ (tl : Bytes) (a b : Bool), hintsOk tl a b = true →
    ∀ c ∈ tl, c = bPlus ∨ isHintChar c = true
  | [], _, _, _, c, hc => by simp at hc
  | x :: rest, a, b, h, c, hc => by
    unfold hintsOk at h
    rcases List.mem_cons.mp hc with rfl | hc
    · by_cases ha : a = true
      · rw [if_pos ha] at h
        simp only [Bool.and_eq_true] at h
        right; simp [isHintChar, h.1]
      · rw [if_neg ha] at h
        by_cases hp : (c == bPlus) = true
        · left; simpa using hp
        · rw [if_neg hp] at h
          simp only [Bool.and_eq_true] at h
          right; exact h.1.2
    · by_cases ha : a = true
      · rw [if_pos ha] at h
        simp only [Bool.and_eq_true] at h
        exact hintsOk_chars rest _ _ h.2 c hc
      · rw [if_neg ha] at h
        by_cases hp : (x == bPlus) = true
        · rw [if_pos hp] at h; exact hintsOk_chars rest _ _ h c hc
        · rw [if_neg hp] at h
          simp only [Bool.and_eq_true] at h
          exact hintsOk_chars rest _ _ h.2 c hc

/-- shape of a token accepted by a locator recogniser -/
theorem locatorSizeDigits_shape (hex : UInt8 → Bool) (t ds : Bytes) (h : locatorSizeDigits hex t = some ds) :
    ∃ hs tl, t = hs ++ bPlus :: (ds ++ tl) ∧ hs.length = 32 ∧ hs.all hex = true ∧ ds ≠ [] ∧
      ds.all isDigit = true ∧ (tl = [] ∨ (hintsOk tl false false = true ∧ ∃ tl', tl = bPlus :: tl')) := by
  unfold locatorSizeDigits at h
  simp only [] at h
  by_cases h32 : (t.take 32).length = 32 ∧ (t.take 32).all hex = true
  · rw [if_pos h32] at h
    cases hr : t.drop 32 with
    | nil => rw [hr] at h; cases h
    | cons p r' =>
      rw [hr] at h
      simp only [] at h
      by_cases hp : (p == bPlus) = true
      · rw [if_pos hp] at h
        by_cases hok : r'.takeWhile isDigit ≠ [] ∧
            (r'.dropWhile isDigit = [] ∨ hintsOk (r'.dropWhile isDigit) false false = true)
        · rw [if_pos hok] at h
          cases h
          have pe : p = bPlus := by simpa using hp
          refine ⟨t.take 32, r'.dropWhile isDigit, ?_, h32.1, h32.2, hok.1, all_takeWhile _ _, ?_⟩
          · conv => lhs; rw [← List.take_append_drop 32 t, hr, pe, ← List.takeWhile_append_dropWhile (p := isDigit) (l := r')]
          · rcases hok.2 with h0 | h1
            · exact Or.inl h0
            · cases htl : r'.dropWhile isDigit with
              | nil => exact Or.inl rfl
              | cons x xs =>
                right
                refine ⟨by rw [← htl]; exact h1, ?_⟩
                rw [htl] at h1
                unfold hintsOk at h1
                simp only [Bool.false_eq_true, if_false, Bool.false_and] at h1
                by_cases hx : (x == bPlus) = true
                · have : x = bPlus := by simpa using hx
                  exact ⟨xs, by rw [this]⟩
                · rw [if_neg hx] at h1; cases h1
        · rw [if_neg hok] at h; cases h
      · rw [if_neg hp] at h; cases h
  · rw [if_neg h32] at h; cases h

theorem locatorSizeDigits_mono (hex1 hex2 : UInt8 → Bool) (hm : ∀ c, hex1 c = true → hex2 c = true)
    (t ds : Bytes) (h : locatorSizeDigits hex1 t = some ds) : locatorSizeDigits hex2 t = some ds := by
  unfold locatorSizeDigits at h ⊢
  simp only [] at h ⊢
  by_cases h32 : (t.take 32).length = 32 ∧ (t.take 32).all hex1 = true
  · rw [if_pos h32] at h
    have : (t.take 32).length = 32 ∧ (t.take 32).all hex2 = true := by
      refine ⟨h32.1, ?_⟩
      rw [List.all_eq_true] at *
      intro x hx; exact hm x (h32.2 x hx)
    rw [if_pos this]
    exact h
  · rw [if_neg h32] at h; cases h

theorem isLowerHex_isAnyHex (c : UInt8) (h : isLowerHex c = true) : isAnyHex c = true := by
  simp [isAnyHex, h]

theorem specLocator_go (t : Bytes) (l : Loc) (h : specLocator t = some l) :
    ∃ ds, goLocatorDigits t = some ds ∧ l = ⟨t, natOfDigits ds⟩ := by
  unfold specLocator at h
  cases hd : locatorSizeDigits isLowerHex t with
  | none => rw [hd] at h; cases h
  | some ds =>
    rw [hd] at h
    simp only [Option.map_some, Option.some.injEq] at h
    exact ⟨ds, locatorSizeDigits_mono _ _ isLowerHex_isAnyHex t ds hd, h.symm⟩

/-- a token that a locator recogniser accepts holds no colon -/
theorem locator_no_colon (hex : UInt8 → Bool) (hh : hex bColon = false) (t ds : Bytes)
    (h : locatorSizeDigits hex t = some ds) : bColon ∉ t := by
  obtain ⟨hs, tl, ht, _, hall, _, hd, htl⟩ := locatorSizeDigits_shape hex t ds h
  rw [ht]
  intro hm
  simp only [List.mem_append, List.mem_cons] at hm
  rcases hm with hm | hm | hm | hm
  · exact not_mem_of_all hall hh hm
  · revert hm; decide
  · exact not_mem_of_all hd colon_not_digit hm
  · rcases htl with rfl | ⟨hok, _⟩
    · simp at hm
    · rcases hintsOk_chars tl _ _ hok bColon hm with h1 | h1
      · revert h1; decide
      · revert h1; decide

theorem goLocator_no_colon (t : Bytes) (h : isGoLocator t = true) : bColon ∉ t := by
  unfold isGoLocator goLocatorDigits at h
  cases hd : locatorSizeDigits isAnyHex t with
  | none => rw [hd] at h; cases h
  | some ds => exact locator_no_colon isAnyHex (by decide) t ds hd

theorem fileTok_not_goLocator (t : Bytes) (f : FTok) (h : specFileTok t = some f) : isGoLocator t = false := by
  cases hg : isGoLocator t with
  | false => rfl
  | true => exact absurd (specFileTok_has_colon t f h) (goLocator_no_colon t hg)

/-! ## mapOpt / specLocators -/

theorem mapOpt_cons_some {α β : Type} (f : α → Option β) (a : α) (as : List α) (r : List β)
    (h : mapOpt f (a :: as) = some r) : ∃ b bs, f a = some b ∧ mapOpt f as = some bs ∧ r = b :: bs := by
  unfold mapOpt at h
  cases hb : f a with
  | none => rw [hb] at h; cases h
  | some b =>
    cases hbs : mapOpt f as with
    | none => rw [hb, hbs] at h; cases h
    | some bs => rw [hb, hbs] at h; cases h; exact ⟨b, bs, rfl, rfl, rfl⟩

theorem mapOpt_length {α β : Type} (f : α → Option β) : ∀ (as : List α) (r : List β),
    mapOpt f as = some r → r.length = as.length
  | [], r, h => by simp [mapOpt] at h; subst h; rfl
  | a :: as, r, h => by
    obtain ⟨b, bs, _, h2, rfl⟩ := mapOpt_cons_some f a as r h
    simp [mapOpt_length f as bs h2]

/-- what `specLocators` splits off: a run of grammar locators, then the rest, whose first token
(if any) is not a grammar locator -/
theorem specLocators_spec : ∀ (toks : List Bytes) (blocks : List Loc) (ftoks : List Bytes),
    specLocators toks = (blocks, ftoks) →
    toks = blocks.map (·.text) ++ ftoks ∧ (∀ b ∈ blocks, specLocator b.text = some b) ∧
      (∀ t rest, ftoks = t :: rest → specLocator t = none)
  | [], blocks, ftoks, h => by
    simp [specLocators] at h
    obtain ⟨rfl, rfl⟩ := h
    simp
  | t :: rest, blocks, ftoks, h => by
    unfold specLocators at h
    cases hl : specLocator t with
    | none =>
      rw [hl] at h
      simp only [Prod.mk.injEq] at h
      obtain ⟨rfl, rfl⟩ := h
      refine ⟨by simp, by simp, ?_⟩
      intro t' rest' he; cases he; exact hl
    | some l =>
      rw [hl] at h
      simp only [] at h
      cases hr : specLocators rest with
      | mk ls r =>
        rw [hr] at h
        simp only [Prod.mk.injEq] at h
        obtain ⟨rfl, rfl⟩ := h
        obtain ⟨h1, h2, h3⟩ := specLocators_spec rest ls r hr
        have hlt : l.text = t := by
          unfold specLocator at hl
          cases hd : locatorSizeDigits isLowerHex t with
          | none => rw [hd] at hl; cases hl
          | some ds => rw [hd] at hl; simp at hl; rw [← hl]
        refine ⟨by simp [hlt, ← h1], ?_, h3⟩
        intro b hb
        rcases List.mem_cons.mp hb with rfl | hb
        · rw [hlt]; exact hl
        · exact h2 b hb

end ArvVerif.C10
