/-
C05 helper lemmas, part 2: sums over slot lists, physical devices as keys, and the counting
lemma behind every "replication over distinct physical devices" statement: a duplicate-free family
of device keys drawn from a list is dominated by any family covering those keys, when views of
one device agree on replication.
-/
import ArvVerif.Proofs.C05
namespace ArvVerif.C05

/-! ### sums over slot lists -/

def ssum (g : Slot → Nat) (l : List Slot) : Nat := (l.map g).sum

@[simp] theorem ssum_nil (g : Slot → Nat) : ssum g [] = 0 := rfl
@[simp] theorem ssum_cons (g : Slot → Nat) (s : Slot) (l : List Slot) : ssum g (s :: l) = g s + ssum g l := by
  simp [ssum]

/-- elements of a list whose images are pairwise related by `R` are determined by their image up
to `¬R` -/
theorem eq_of_pairwise_map {α β : Type} (f : α → β) (R : β → β → Prop) :
    ∀ (l : List α), (l.map f).Pairwise R → ∀ p ∈ l, ∀ q ∈ l, ¬ R (f p) (f q) → ¬ R (f q) (f p) → p = q := by
  intro l
  induction l with
  | nil => intro _ p hp; cases hp
  | cons a l ih =>
    intro h p hp q hq h1 h2
    have h' := List.pairwise_cons.1 (show (f a :: l.map f).Pairwise R from h)
    rcases List.mem_cons.1 hp with rfl | hp'
    · rcases List.mem_cons.1 hq with rfl | hq'
      · rfl
      · exact absurd (h'.1 (f q) (List.mem_map.2 ⟨q, hq', rfl⟩)) h1
    · rcases List.mem_cons.1 hq with rfl | hq'
      · exact absurd (h'.1 (f p) (List.mem_map.2 ⟨p, hp', rfl⟩)) h2
      · exact ih h'.2 p hp' q hq' h1 h2

def DistinctIds (l : List Mount) : Prop := l.Pairwise (fun a b => a.id ≠ b.id)

theorem distinctIds_of_perm {l₁ l₂ : List Mount} (h : l₁.Perm l₂) (hp : DistinctIds l₂) : DistinctIds l₁ :=
  (h.pairwise_iff (fun {_ _} hab => fun e => hab e.symm)).2 hp

def IdsDistinct (S : List Slot) : Prop := DistinctIds (S.map (·.mnt))

theorem eq_of_same_id {S : List Slot} (hid : IdsDistinct S) {p q : Slot} (hp : p ∈ S) (hq : q ∈ S)
    (h : p.mnt.id = q.mnt.id) : p = q :=
  eq_of_pairwise_map (fun (x : Slot) => x.mnt) (fun (a b : Mount) => a.id ≠ b.id) S hid p hp q hq
    (fun hne => hne h) (fun hne => hne h.symm)

theorem mount_eq_of_same_id {L : List Mount} (hid : DistinctIds L) {a b : Mount} (ha : a ∈ L) (hb : b ∈ L)
    (h : a.id = b.id) : a = b :=
  eq_of_pairwise_map (fun (x : Mount) => x) (fun (a b : Mount) => a.id ≠ b.id) L (by unfold DistinctIds at hid; simpa using hid) a ha b hb
    (fun hne => hne h) (fun hne => hne h.symm)

/-! ### device keys -/

theorem devKey_blank {m : Mount} (h : m.dev = 0) : devKey m = (0, m.id) := by unfold devKey; simp [h]
theorem devKey_named {m : Mount} (h : m.dev ≠ 0) : devKey m = (1, m.dev) := by unfold devKey; simp [h]

theorem devKey_eq_iff (a b : Mount) :
    devKey a = devKey b ↔ (a.dev = 0 ∧ b.dev = 0 ∧ a.id = b.id) ∨ (a.dev ≠ 0 ∧ a.dev = b.dev) := by
  by_cases ha : a.dev = 0 <;> by_cases hb : b.dev = 0
  · rw [devKey_blank ha, devKey_blank hb]; simp [ha, hb]
  · rw [devKey_blank ha, devKey_named hb]; simp [ha, hb]
  · rw [devKey_named ha, devKey_blank hb]; simp [ha, hb]
  · rw [devKey_named ha, devKey_named hb]; simp [ha]

theorem sameDevice_iff (a b : Mount) : sameDevice a b = true ↔ devKey a = devKey b := by
  unfold sameDevice; simp

/-- mounts of one device agree on classes and replication (a device has one configuration) -/
def DeviceConsistent (mounts : List Mount) : Prop :=
  ∀ a ∈ mounts, ∀ b ∈ mounts, a.dev ≠ 0 → a.dev = b.dev → a.classes = b.classes ∧ a.repl = b.repl

/-- views of one physical device in `L` agree on replication and on membership in `c` -/
def KeyConsistent (c : Class) (L : List Mount) : Prop :=
  ∀ a ∈ L, ∀ b ∈ L, devKey a = devKey b → a.repl = b.repl ∧ inClass c a = inClass c b

theorem keyConsistent_of (c : Class) {L : List Mount} (hid : DistinctIds L) (hc : DeviceConsistent L) :
    KeyConsistent c L := by
  intro a ha b hb hk
  rcases (devKey_eq_iff a b).1 hk with ⟨_, _, hidab⟩ | ⟨h0, hd⟩
  · have : a = b := mount_eq_of_same_id hid ha hb hidab
    subst this; exact ⟨rfl, rfl⟩
  · have := hc a ha b hb h0 hd
    exact ⟨this.2, by unfold inClass; rw [this.1]⟩

theorem KeyConsistent.sub {c : Class} {L L' : List Mount} (h : KeyConsistent c L) (hs : ∀ m ∈ L', m ∈ L) :
    KeyConsistent c L' := fun a ha b hb hk => h a (hs a ha) b (hs b hb) hk

/-! ### the counting lemma -/

theorem sum_le_of_nodup_subset {α : Type} [DecidableEq α] (f : α → Nat) :
    ∀ (A B : List α), A.Nodup → (∀ a ∈ A, a ∈ B) → (A.map f).sum ≤ (B.map f).sum := by
  intro A
  induction A with
  | nil => intro B _ _; simp
  | cons a A ih =>
    intro B hnd hsub
    have hnd' := List.nodup_cons.1 hnd
    have haB : a ∈ B := hsub a (List.mem_cons_self ..)
    have hperm : B.Perm (a :: B.erase a) := List.perm_cons_erase haB
    have hsum : (B.map f).sum = f a + ((B.erase a).map f).sum := by
      have := (hperm.map f).sum_nat
      simpa using this
    have hsub' : ∀ x ∈ A, x ∈ B.erase a := by
      intro x hx
      have hne : x ≠ a := fun e => hnd'.1 (e ▸ hx)
      exact (List.mem_erase_of_ne hne).2 (hsub x (List.mem_cons_of_mem _ hx))
    have := ih (B.erase a) hnd'.2 hsub'
    simp only [List.map_cons, List.sum_cons]
    omega

/-- A family `A` of views of pairwise different devices is dominated in replication by any family
`B` that has a view of each of those devices. -/
theorem keysum_le (c : Class) (L : List Mount) (hc : KeyConsistent c L) (A B : List Mount)
    (hA : ∀ a ∈ A, a ∈ L) (hB : ∀ b ∈ B, b ∈ L) (hnd : (A.map devKey).Nodup)
    (hcov : ∀ a ∈ A, ∃ b ∈ B, devKey b = devKey a) :
    (A.map (·.repl)).sum ≤ (B.map (·.repl)).sum := by
  let g : Mount → (Nat × Nat) × Nat := fun m => (devKey m, m.repl)
  have hndg : (A.map g).Nodup := by
    have : ((A.map g).map Prod.fst) = A.map devKey := by rw [List.map_map]; rfl
    have h2 : ((A.map g).map Prod.fst).Nodup := by rw [this]; exact hnd
    exact List.Pairwise.of_map Prod.fst (fun a b hne e => hne (congrArg Prod.fst e)) h2
  have hsub : ∀ x ∈ A.map g, x ∈ B.map g := by
    intro x hx
    obtain ⟨a, ha, rfl⟩ := List.mem_map.1 hx
    obtain ⟨b, hb, hk⟩ := hcov a ha
    refine List.mem_map.2 ⟨b, hb, ?_⟩
    have := (hc b (hB b hb) a (hA a ha) hk).1
    show (devKey b, b.repl) = (devKey a, a.repl)
    rw [hk, this]
  have := sum_le_of_nodup_subset Prod.snd (A.map g) (B.map g) hndg hsub
  simpa [List.map_map, Function.comp_def, g] using this

/-! ### `distinctDevices` -/

theorem distinctDevices_sub : ∀ (L : List Mount), ∀ r ∈ distinctDevices L, r ∈ L := by
  intro L
  induction L with
  | nil => intro r hr; cases hr
  | cons a l ih =>
    intro r hr
    unfold distinctDevices at hr
    split at hr
    · exact List.mem_cons_of_mem _ (ih r hr)
    · rcases List.mem_cons.1 hr with rfl | h
      · exact List.mem_cons_self ..
      · exact List.mem_cons_of_mem _ (ih r h)

theorem distinctDevices_nodup : ∀ (L : List Mount), ((distinctDevices L).map devKey).Nodup := by
  intro L
  induction L with
  | nil => simp [distinctDevices]
  | cons a l ih =>
    unfold distinctDevices
    split
    · exact ih
    · rename_i hany
      simp only [List.map_cons]
      refine List.nodup_cons.2 ⟨?_, ih⟩
      intro hmem
      obtain ⟨r, hr, hk⟩ := List.mem_map.1 hmem
      apply hany
      rw [List.any_eq_true]
      exact ⟨r, hr, (sameDevice_iff a r).2 hk.symm⟩

theorem distinctDevices_cover : ∀ (L : List Mount), ∀ m ∈ L, ∃ r ∈ distinctDevices L, devKey r = devKey m := by
  intro L
  induction L with
  | nil => intro m hm; cases hm
  | cons a l ih =>
    intro m hm
    unfold distinctDevices
    split
    · rename_i hany
      rcases List.mem_cons.1 hm with rfl | h
      · obtain ⟨r, hr, hs⟩ := List.any_eq_true.1 hany
        exact ⟨r, hr, ((sameDevice_iff m r).1 hs).symm⟩
      · exact ih m h
    · rcases List.mem_cons.1 hm with rfl | h
      · exact ⟨m, List.mem_cons_self .., rfl⟩
      · obtain ⟨r, hr, hk⟩ := ih m h
        exact ⟨r, List.mem_cons_of_mem _ hr, hk⟩

/-- the physical replication of class `c` dominates any duplicate-free family of in-class views -/
theorem physRepl_ge (c : Class) (L : List Mount) (hc : KeyConsistent c L) (A : List Mount)
    (hA : ∀ a ∈ A, a ∈ L ∧ inClass c a = true) (hnd : (A.map devKey).Nodup) :
    (A.map (·.repl)).sum ≤ physRepl c L := by
  unfold physRepl
  apply keysum_le c L hc A _ (fun a ha => (hA a ha).1)
    (fun b hb => distinctDevices_sub L b (List.mem_filter.1 hb).1) hnd
  intro a ha
  obtain ⟨r, hr, hk⟩ := distinctDevices_cover L a (hA a ha).1
  refine ⟨r, List.mem_filter.2 ⟨hr, ?_⟩, hk⟩
  have := (hc r (distinctDevices_sub L r hr) a (hA a ha).1 hk).2
  rw [this]; exact (hA a ha).2

/-- …and is dominated by any family that covers every in-class view -/
theorem physRepl_le (c : Class) (L : List Mount) (hc : KeyConsistent c L) (B : List Mount)
    (hB : ∀ b ∈ B, b ∈ L) (hcov : ∀ m ∈ L, inClass c m = true → ∃ b ∈ B, devKey b = devKey m) :
    physRepl c L ≤ (B.map (·.repl)).sum := by
  unfold physRepl
  apply keysum_le c L hc _ B (fun a ha => distinctDevices_sub L a (List.mem_filter.1 ha).1) hB
  · exact ((distinctDevices_nodup L).sublist ((List.filter_sublist).map devKey))
  · intro a ha
    have := List.mem_filter.1 ha
    exact hcov a (distinctDevices_sub L a this.1) this.2

/-- physical replication depends only on which mounts are in the list -/
theorem physRepl_congr (c : Class) (L L' : List Mount) (hc : KeyConsistent c L)
    (h : ∀ m, m ∈ L ↔ m ∈ L') : physRepl c L = physRepl c L' := by
  have hc' : KeyConsistent c L' := hc.sub (fun m hm => (h m).2 hm)
  apply Nat.le_antisymm
  · apply physRepl_le c L hc _ (fun b hb => (h b).2 (distinctDevices_sub L' b (List.mem_filter.1 hb).1))
    intro m hm hin
    obtain ⟨r, hr, hk⟩ := distinctDevices_cover L' m ((h m).1 hm)
    refine ⟨r, List.mem_filter.2 ⟨hr, ?_⟩, hk⟩
    rw [(hc' r (distinctDevices_sub L' r hr) m ((h m).1 hm) hk).2]; exact hin
  · apply physRepl_le c L' hc' _ (fun b hb => (h b).1 (distinctDevices_sub L b (List.mem_filter.1 hb).1))
    intro m hm hin
    obtain ⟨r, hr, hk⟩ := distinctDevices_cover L m ((h m).2 hm)
    refine ⟨r, List.mem_filter.2 ⟨hr, ?_⟩, hk⟩
    rw [(hc r (distinctDevices_sub L r hr) m ((h m).2 hm) hk).2]; exact hin

end ArvVerif.C05
