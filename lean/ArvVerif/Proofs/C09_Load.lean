/-
C09 helper lemmas, part 11: a tree that holds exactly what `loadManifest` built from a valid text.
Its segments are `C10.resolve`'s pieces, it holds no mem segment, so saving it attempts no Keep
write at all, and every file's bytes are the manifest's bytes for its path.
-/
import ArvVerif.Proofs.C09_Example
namespace ArvVerif.C09

open ArvVerif.C08 (Seg FileNode Store SegWF AllWF StoreOK StoreExt)
open ArvVerif.C10 (bSlash bDot specLocator)

variable {max : Nat} {hash : Bytes → C08.Loc}

/-! ### no mem segment ⇒ no group ⇒ nothing is written -/

theorem foldl_groupStep_stored (max : Nat) : ∀ (l : List (C08.Ref × Seg)) (acc : List (List C08.Ref) × List C08.Ref × Nat),
    (∀ x ∈ l, x.2.isMem = false) → l.foldl (groupStep max) acc = acc
  | [], _, _ => rfl
  | x :: rest, acc, h => by
    simp only [List.foldl_cons]
    have hx := h x (by simp)
    have : groupStep max acc x = acc := by
      unfold groupStep
      cases hs : x.2 with
      | stored => rfl
      | mem => rw [hs] at hx; simp [Seg.isMem] at hx
    rw [this]
    exact foldl_groupStep_stored max rest acc (fun y hy => h y (List.mem_cons_of_mem _ hy))

theorem flushGroups_stored (max : Nat) (short : Bool) (files : List FileNode)
    (h : ∀ fn ∈ files, ∀ s ∈ fn.segs, s.isMem = false) : C08.flushGroups max short files = [] := by
  rw [flushGroups_eq]
  rw [foldl_groupStep_stored max (allRefs files) ([], [], 0) (by
    intro x hx
    have : C08.segAt files x.1 = some x.2 := mem_allRefs.mp hx
    unfold C08.segAt at this
    cases hf : files[x.1.1]? with
    | none => rw [hf] at this; cases this
    | some fn =>
      rw [hf] at this
      exact h fn (List.mem_of_getElem? hf) x.2 (List.mem_of_getElem? this))]
  cases short <;> rfl

theorem treeGroups_stored (max : Nat) : ∀ (t : Tree9), (∀ d ∈ t, ∀ f ∈ d.files, ∀ s ∈ f.2.segs, s.isMem = false) →
    treeGroups max t = 0
  | [], _ => rfl
  | d :: rest, h => by
    unfold treeGroups
    rw [treeGroups_stored max rest (fun x hx => h x (List.mem_cons_of_mem _ hx))]
    unfold dirGroups
    split
    · rfl
    · rw [flushGroups_stored max true _ (by
        intro fn hfn s hs
        obtain ⟨f, hf, rfl⟩ := List.mem_map.mp hfn
        exact h d (by simp) f hf s hs)]
      rfl

/-! ### what the loader built -/

/-- the whole-text loader theorem of C10, with its invariant exposed: the loaded tree holds, for every
file key, exactly the pieces `resolve` assigns to its path -/
theorem fsLoad_inv (txt : Bytes) (M : C10.Manifest) (hvalid : C10.parseSpec txt = some M)
    (hfit : ∀ s ∈ M, C10.FitsFs s) (htree : C10.TreeConsistent M) :
    ∃ tr, C10.fsLoad txt = some tr ∧ C10.FsInv (C10.manifestContribs M) tr := by
  have hmem : ∀ s ∈ M, ∀ f ∈ s.files, C10.pathOf s.name f.name ∈ C10.pathsOf M := by
    intro s hs f hf
    unfold C10.pathsOf
    rw [List.mem_eraseDups, List.mem_flatMap]
    exact ⟨s, hs, List.mem_map.mpr ⟨f, hf, rfl⟩⟩
  have hpaths : ∀ s ∈ M, ∀ f ∈ s.files, C10.pathOf s.name f.name ∈ C10.pathsOf M ∧
      C10.NoConflictWith (C10.pathsOf M) (C10.pathOf s.name f.name) := by
    intro s hs f hf
    refine ⟨hmem s hs f hf, ?_⟩
    intro q hq
    exact ⟨htree q hq _ (hmem s hs f hf), htree _ (hmem s hs f hf) q hq⟩
  unfold C10.parseSpec at hvalid
  by_cases h0 : txt = []
  · rw [if_pos h0] at hvalid; cases hvalid; subst h0
    exact ⟨⟨[], []⟩, by simp [C10.fsLoad, C10.splitOn, C10.fsLines], by simpa [C10.manifestContribs] using C10.fsInv_empty⟩
  · rw [if_neg h0] at hvalid
    simp only [] at hvalid
    by_cases hl : (C10.splitOn C10.bNL txt).getLast? = some []
    · rw [if_pos hl] at hvalid
      obtain ⟨t, h1, h2⟩ := C10.fsLines_spec _ M hvalid hfit [] ⟨[], []⟩ C10.fsInv_empty (C10.pathsOf M) (by simp) hpaths
      refine ⟨t, ?_, by simpa using h2⟩
      unfold C10.fsLoad
      simp only [hl, ne_eq, not_true_eq_false, if_false]
      exact h1
    · rw [if_neg hl] at hvalid; cases hvalid

/-- every block of a text inside the grammar is a grammar locator carrying its size -/
theorem parseSpec_blocks (txt : Bytes) (M : C10.Manifest) (hvalid : C10.parseSpec txt = some M) :
    ∀ s ∈ M, ∀ b ∈ s.blocks, specLocator b.text = some b := by
  have hline : ∀ line s, C10.specLine line = some s → ∀ b ∈ s.blocks, specLocator b.text = some b := by
    intro line s h
    unfold C10.specLine at h
    simp only [] at h
    split at h
    · split at h
      · split at h
        · split at h
          · split at h
            · split at h
              · cases h
                simp only []
                exact (C10.specLocators_spec _ _ _ rfl).2.1
              · cases h
            · cases h
          · cases h
        · cases h
      · cases h
    · cases h
  have hall : ∀ (lines : List Bytes) (M : C10.Manifest), C10.mapOpt C10.specLine lines = some M →
      ∀ s ∈ M, ∀ b ∈ s.blocks, specLocator b.text = some b := by
    intro lines
    induction lines with
    | nil => intro M h; simp [C10.mapOpt] at h; subst h; intro s hs; cases hs
    | cons l ls ih =>
      intro M h
      obtain ⟨s, ss, h1, h2, rfl⟩ := C10.mapOpt_cons_some C10.specLine l ls M h
      intro x hx
      rcases List.mem_cons.mp hx with rfl | hx
      · exact hline l x h1
      · exact ih ss h2 x hx
  unfold C10.parseSpec at hvalid
  by_cases h0 : txt = []
  · rw [if_pos h0] at hvalid; cases hvalid; intro s hs; cases hs
  · rw [if_neg h0] at hvalid
    simp only [] at hvalid
    split at hvalid
    · exact hall _ M hvalid
    · cases hvalid

/-- the stored segment the loader makes of one of `resolve`'s pieces (`size` = the block size the
locator token carries) -/
def segOf (size : Bytes → Nat) (sg : C10.Seg) : Seg := Seg.stored sg.loc (size sg.loc) sg.off sg.len

/-- the tree holds exactly the files the loader built: every file of the tree is a loaded file with
the loader's segments, and every loaded file is in the tree -/
structure Represents (size : Bytes → Nat) (tr : C10.FsTree) (t : Tree9) : Prop where
  files : ∀ d ∈ t, ∀ f ∈ d.files, ∃ e ∈ tr.files, e.1 = d.path ++ [f.1] ∧ f.2.segs = e.2.map (segOf size)
  all : ∀ e ∈ tr.files, ∃ d ∈ t, ∃ f ∈ d.files, e.1 = d.path ++ [f.1]

theorem absSegs_segOf {st : Store} (size : Bytes → Nat) : ∀ (segs : List C10.Seg),
    (∀ sg ∈ segs, ∃ x, st sg.loc = some x) →
    C08.absSegs st (segs.map (segOf size)) = C10.segBytes (blkOf st) segs
  | [], _ => rfl
  | sg :: rest, h => by
    obtain ⟨x, hx⟩ := h sg (by simp)
    simp only [List.map_cons, C08.absSegs_cons, C10.segBytes_cons, segOf]
    rw [C08.Seg.bytes_stored hx, absSegs_segOf size rest (fun y hy => h y (List.mem_cons_of_mem _ hy))]
    simp [blkOf, hx]

/-- the pieces `resolve` assigns to a path lie inside blocks of the manifest -/
theorem resolve_inside (M : C10.Manifest) (p : Bytes) : ∀ sg ∈ C10.resolve M p,
    ∃ s ∈ M, ∃ b ∈ s.blocks, sg.loc = b.text ∧ sg.off + sg.len ≤ b.size ∧ 0 < sg.len := by
  intro sg hsg
  unfold C10.resolve at hsg
  obtain ⟨s, hs, hsg⟩ := List.mem_flatMap.mp hsg
  unfold C10.resolveStream at hsg
  obtain ⟨f, hf, hsg⟩ := List.mem_flatMap.mp hsg
  split at hsg
  · obtain ⟨b, hb, h1, h2, h3⟩ := C10.resolveTok_inside s.blocks 0 f.pos f.len sg hsg
    exact ⟨s, hs, b, hb, h1, h2, h3⟩
  · cases hsg

end ArvVerif.C09
