/-
C11 proofs, part 2: invariants about the request/answer logs of the putReplicas machine
(only writable services are asked; the retry rule; every service at most once per round;
completeness of retrying on failure; enough acceptors).
-/
import ArvVerif.Proofs.C11
namespace ArvVerif.C11

/-! ### Who is asked, and when -/

structure Trace (c : Cfg) (sv0 : List Srv) (s : St) : Prop where
  svSub : ∀ x ∈ s.sv, x ∈ sv0
  retrySub : ∀ x ∈ s.retrySv, x ∈ sv0
  activeReq : ∀ x ∈ s.active, (x, s.round) ∈ s.reqLog
  reqSub : ∀ e ∈ s.reqLog, e.1 ∈ sv0 ∧ e.2 ≤ s.round
  respReq : ∀ e ∈ s.respLog, e ∈ s.reqLog
  svPrev : ∀ x ∈ s.sv, ∀ r, s.round = r + 1 →
    (x, r) ∈ s.respLog ∧ retryable (c.script x r).code = true
  retryNow : ∀ x ∈ s.retrySv, (x, s.round) ∈ s.respLog ∧ retryable (c.script x s.round).code = true
  reqPrev : ∀ x r, (x, r + 1) ∈ s.reqLog → (x, r) ∈ s.respLog ∧ retryable (c.script x r).code = true

theorem trace_init (c : Cfg) (sv : List Srv) : Trace c sv (init c sv) := by
  refine ⟨?_, ?_, ?_, ?_, ?_, ?_, ?_, ?_⟩ <;> simp [init]

theorem trace_preserved (c : Cfg) (sv0 : List Srv) : Preserved c (Trace c sv0) where
  start := by
    intro s h ht
    have hx : s.sv[s.next] ∈ s.sv := List.getElem_mem h
    refine ⟨ht.svSub, ht.retrySub, ?_, ?_, ?_, ht.svPrev, ht.retryNow, ?_⟩
    · intro x hxa
      simp only [startOne, List.mem_append, List.mem_singleton] at hxa ⊢
      rcases hxa with hxa | hxa
      · exact List.mem_cons_of_mem _ (ht.activeReq x hxa)
      · rw [hxa]; exact List.mem_cons_self
    · intro e he
      simp only [startOne, List.mem_cons] at he ⊢
      rcases he with he | he
      · rw [he]; exact ⟨ht.svSub _ hx, Nat.le_refl _⟩
      · exact ht.reqSub e he
    · intro e he
      exact List.mem_cons_of_mem _ (ht.respReq e he)
    · intro x r hm
      simp only [startOne, List.mem_cons, Prod.mk.injEq] at hm ⊢
      rcases hm with hm | hm
      · rw [hm.1]; exact ht.svPrev _ hx r hm.2.symm
      · exact ht.reqPrev x r hm
  recv := by
    intro s srv hm ht
    have hreq := ht.activeReq srv hm
    refine ⟨?_, ?_, ?_, ?_, ?_, ?_, ?_, ?_⟩
    · rw [receive_sv]; exact ht.svSub
    · rw [receive_retrySv]
      split
      · intro x hx
        simp only [List.mem_append, List.mem_singleton] at hx
        rcases hx with hx | hx
        · exact ht.retrySub x hx
        · rw [hx]; exact (ht.reqSub _ hreq).1
      · exact ht.retrySub
    · rw [receive_active, receive_round, receive_reqLog]
      intro x hx
      exact ht.activeReq x (List.mem_of_mem_erase hx)
    · rw [receive_reqLog, receive_round]; exact ht.reqSub
    · rw [receive_respLog, receive_reqLog]
      intro e he
      simp only [List.mem_cons] at he
      rcases he with he | he
      · rw [he]; exact hreq
      · exact ht.respReq e he
    · rw [receive_sv, receive_round, receive_respLog]
      intro x hx r hr
      have := ht.svPrev x hx r hr
      exact ⟨List.mem_cons_of_mem _ this.1, this.2⟩
    · rw [receive_retrySv, receive_round, receive_respLog]
      split
      · rename_i hret
        intro x hx
        simp only [List.mem_append, List.mem_singleton] at hx
        rcases hx with hx | hx
        · have := ht.retryNow x hx
          exact ⟨List.mem_cons_of_mem _ this.1, this.2⟩
        · rw [hx]; exact ⟨List.mem_cons_self, hret⟩
      · intro x hx
        have := ht.retryNow x hx
        exact ⟨List.mem_cons_of_mem _ this.1, this.2⟩
    · rw [receive_reqLog, receive_respLog]
      intro x r hxr
      have := ht.reqPrev x r hxr
      exact ⟨List.mem_cons_of_mem _ this.1, this.2⟩
  round := by
    intro s hact _ _ _ ht
    refine ⟨?_, ?_, ?_, ?_, ?_, ?_, ?_, ?_⟩
    · exact ht.retrySub
    · intro x hx; simp [nextRound] at hx
    · intro x hx; simp [nextRound, hact] at hx
    · intro e he
      have := ht.reqSub e he
      exact ⟨this.1, by simp only [nextRound]; omega⟩
    · exact ht.respReq
    · intro x hx r hr
      simp only [nextRound] at hx hr ⊢
      have hr' : r = s.round := by omega
      rw [hr']; exact ht.retryNow x hx
    · intro x hx; simp [nextRound] at hx
    · exact ht.reqPrev

/-! ### At most one request per service and round -/

/-- number of requests sent to service `x` -/
def reqCount (l : List (Srv × Nat)) (x : Srv) : Nat := (l.filter (fun e => e.1 == x)).length

structure Once (s : St) : Prop where
  svNodup : s.sv.Nodup
  actNodup : s.active.Nodup
  retryNodup : s.retrySv.Nodup
  disj : ∀ x ∈ s.active, x ∉ s.retrySv
  actSub : ∀ x ∈ s.active, x ∈ s.sv.take s.next
  retrySub : ∀ x ∈ s.retrySv, x ∈ s.sv.take s.next
  cnt : ∀ x, reqCount s.reqLog x ≤ s.round + (if x ∈ s.sv.take s.next then 1 else 0)

theorem once_init (c : Cfg) (sv : List Srv) (h : sv.Nodup) : Once (init c sv) := by
  refine ⟨h, ?_, ?_, ?_, ?_, ?_, ?_⟩ <;> simp [init, reqCount]

theorem getElem_not_mem_take {l : List Srv} (hn : l.Nodup) {i : Nat} (h : i < l.length) :
    l[i] ∉ l.take i := by
  have h1 : (l.take (i + 1)).Nodup := hn.sublist (List.take_sublist _ _)
  rw [← List.take_append_getElem h, List.nodup_append] at h1
  intro hm
  exact h1.2.2 _ hm _ (List.mem_singleton.mpr rfl) rfl

theorem mem_take_succ {l : List Srv} {i : Nat} (h : i < l.length) (x : Srv) :
    x ∈ l.take (i + 1) ↔ x ∈ l.take i ∨ x = l[i] := by
  rw [← List.take_append_getElem h, List.mem_append, List.mem_singleton]

theorem once_preserved (c : Cfg) : Preserved c Once where
  start := by
    intro s h ho
    have hnot := getElem_not_mem_take ho.svNodup h
    refine ⟨ho.svNodup, ?_, ho.retryNodup, ?_, ?_, ?_, ?_⟩
    · simp only [startOne]
      rw [List.nodup_append]
      refine ⟨ho.actNodup, (by simp), ?_⟩
      intro a ha b hb hab
      rw [List.mem_singleton] at hb
      rw [hab, hb] at ha
      exact hnot (ho.actSub _ ha)
    · intro x hx
      simp only [startOne, List.mem_append, List.mem_singleton] at hx ⊢
      rcases hx with hx | hx
      · exact ho.disj x hx
      · rw [hx]; intro hr; exact hnot (ho.retrySub _ hr)
    · intro x hx
      simp only [startOne, List.mem_append, List.mem_singleton] at hx ⊢
      rw [mem_take_succ h]
      rcases hx with hx | hx
      · exact Or.inl (ho.actSub x hx)
      · exact Or.inr hx
    · intro x hx
      simp only [startOne]
      rw [mem_take_succ h]
      exact Or.inl (ho.retrySub x hx)
    · intro x
      have hc := ho.cnt x
      simp only [startOne, reqCount, List.filter_cons] at hc ⊢
      by_cases hx : x = s.sv[s.next]
      · have h1 : (s.sv[s.next] == x) = true := by rw [hx]; exact beq_self_eq_true _
        have h2 : x ∈ List.take (s.next + 1) s.sv := by rw [mem_take_succ h]; exact Or.inr hx
        have h3 : x ∉ List.take s.next s.sv := by rw [hx]; exact hnot
        simp only [h1, if_true, List.length_cons, h2, h3, if_false] at hc ⊢
        omega
      · have h1 : (s.sv[s.next] == x) = false := by
          rw [beq_eq_false_iff_ne]; exact fun h => hx h.symm
        simp only [h1, Bool.false_eq_true, if_false]
        by_cases h4 : x ∈ List.take s.next s.sv
        · have h2 : x ∈ List.take (s.next + 1) s.sv := by rw [mem_take_succ h]; exact Or.inl h4
          simp only [h4, h2, if_true] at hc ⊢; exact hc
        · simp only [h4, if_false] at hc
          omega
  recv := by
    intro s srv hm ho
    refine ⟨?_, ?_, ?_, ?_, ?_, ?_, ?_⟩
    · rw [receive_sv]; exact ho.svNodup
    · rw [receive_active]; exact ho.actNodup.erase _
    · rw [receive_retrySv]
      split
      · rw [List.nodup_append]
        refine ⟨ho.retryNodup, (by simp), ?_⟩
        intro a ha b hb hab
        rw [List.mem_singleton] at hb
        rw [hab, hb] at ha
        exact ho.disj _ hm ha
      · exact ho.retryNodup
    · rw [receive_active, receive_retrySv]
      intro x hx
      have hxa : x ∈ s.active := List.mem_of_mem_erase hx
      have hne : x ≠ srv := by
        intro he; rw [he] at hx
        exact (List.Nodup.mem_erase_iff ho.actNodup).mp hx |>.1 rfl
      split
      · intro hr
        simp only [List.mem_append, List.mem_singleton] at hr
        rcases hr with hr | hr
        · exact ho.disj x hxa hr
        · exact hne hr
      · exact ho.disj x hxa
    · rw [receive_active, receive_sv, receive_next]
      intro x hx
      exact ho.actSub x (List.mem_of_mem_erase hx)
    · rw [receive_retrySv, receive_sv, receive_next]
      split
      · intro x hx
        simp only [List.mem_append, List.mem_singleton] at hx
        rcases hx with hx | hx
        · exact ho.retrySub x hx
        · rw [hx]; exact ho.actSub _ hm
      · exact ho.retrySub
    · rw [receive_reqLog, receive_round, receive_sv, receive_next]; exact ho.cnt
  round := by
    intro s hact _ _ _ ho
    refine ⟨ho.retryNodup, ?_, ?_, ?_, ?_, ?_, ?_⟩
    · simp [nextRound, hact]
    · simp [nextRound]
    · intro x hx; simp [nextRound, hact] at hx
    · intro x hx; simp [nextRound, hact] at hx
    · intro x hx; simp [nextRound] at hx
    · intro x
      have := ho.cnt x
      simp only [nextRound, List.take_zero, List.not_mem_nil, if_false]
      split at this <;> omega

/-! ### On failure every transient answer has been retried up to the limit -/

structure Complete (c : Cfg) (s : St) : Prop where
  prevRetried : ∀ x r, (x, r) ∈ s.respLog → retryable (c.script x r).code = true → r < s.round →
    (x, r + 1) ∈ s.respLog ∨ (r + 1 = s.round ∧ (x ∈ s.sv.drop s.next ∨ x ∈ s.active))
  nowRetry : ∀ x, (x, s.round) ∈ s.respLog → retryable (c.script x s.round).code = true →
    x ∈ s.retrySv
  respRound : ∀ e ∈ s.respLog, e.2 ≤ s.round

theorem complete_init (c : Cfg) (sv : List Srv) : Complete c (init c sv) := by
  refine ⟨?_, ?_, ?_⟩ <;> simp [init]

theorem complete_preserved (c : Cfg) : Preserved c (Complete c) where
  start := by
    intro s h hc
    refine ⟨?_, hc.nowRetry, hc.respRound⟩
    intro x r hm hret hlt
    rcases hc.prevRetried x r hm hret hlt with h1 | ⟨h1, h2⟩
    · exact Or.inl h1
    · right
      refine ⟨h1, ?_⟩
      simp only [startOne, List.mem_append, List.mem_singleton]
      rcases h2 with h2 | h2
      · rw [List.drop_eq_getElem_cons h, List.mem_cons] at h2
        rcases h2 with h2 | h2
        · exact Or.inr (Or.inr h2)
        · exact Or.inl h2
      · exact Or.inr (Or.inl h2)
  recv := by
    intro s srv hm hc
    refine ⟨?_, ?_, ?_⟩
    · rw [receive_respLog, receive_round, receive_sv, receive_next, receive_active]
      intro x r hxr hret hlt
      simp only [List.mem_cons, Prod.mk.injEq] at hxr
      rcases hxr with hxr | hxr
      · omega
      · rcases hc.prevRetried x r hxr hret hlt with h1 | ⟨h1, h2⟩
        · exact Or.inl (List.mem_cons_of_mem _ h1)
        · rcases h2 with h2 | h2
          · exact Or.inr ⟨h1, Or.inl h2⟩
          · by_cases hx : x = srv
            · left; rw [hx, h1]; exact List.mem_cons_self
            · exact Or.inr ⟨h1, Or.inr ((List.mem_erase_of_ne hx).mpr h2)⟩
    · rw [receive_respLog, receive_round, receive_retrySv]
      intro x hxr hret
      simp only [List.mem_cons, Prod.mk.injEq] at hxr
      rcases hxr with hxr | hxr
      · rw [hxr.1] at hret ⊢
        simp [hret]
      · have := hc.nowRetry x hxr hret
        split
        · exact List.mem_append_left _ this
        · exact this
    · rw [receive_respLog, receive_round]
      intro e he
      simp only [List.mem_cons] at he
      rcases he with he | he
      · rw [he]; exact Nat.le_refl _
      · exact hc.respRound e he
  round := by
    intro s hact hnext _ _ hc
    have hdrop : s.sv.drop s.next = [] := List.drop_eq_nil_of_le hnext
    refine ⟨?_, ?_, ?_⟩
    · intro x r hm hret hlt
      simp only [nextRound] at hm hlt ⊢
      by_cases hr : r < s.round
      · rcases hc.prevRetried x r hm hret hr with h1 | ⟨_, h2⟩
        · exact Or.inl h1
        · rw [hdrop, hact] at h2; simp at h2
      · have hr' : r = s.round := by omega
        right
        refine ⟨by omega, Or.inl ?_⟩
        rw [hr'] at hm hret
        simpa using hc.nowRetry x hm hret
    · intro x hm
      simp only [nextRound] at hm
      have := hc.respRound _ hm
      simp only at this
      omega
    · intro e he
      have := hc.respRound e he
      simp only [nextRound]; omega

/-! ### Every writable service is asked before the client gives up -/

structure First (sv0 : List Srv) (s : St) : Prop where
  first : ∀ x ∈ sv0, (x, 0) ∈ s.respLog ∨ (s.round = 0 ∧ (x ∈ s.sv.drop s.next ∨ x ∈ s.active))

theorem first_init (c : Cfg) (sv : List Srv) : First sv (init c sv) := by
  constructor; intro x hx; right; simp [init, hx]

theorem first_preserved (c : Cfg) (sv0 : List Srv) : Preserved c (First sv0) where
  start := by
    intro s h hf
    constructor
    intro x hx
    rcases hf.first x hx with h1 | ⟨h1, h2⟩
    · exact Or.inl h1
    · right
      refine ⟨h1, ?_⟩
      simp only [startOne, List.mem_append, List.mem_singleton]
      rcases h2 with h2 | h2
      · rw [List.drop_eq_getElem_cons h, List.mem_cons] at h2
        rcases h2 with h2 | h2
        · exact Or.inr (Or.inr h2)
        · exact Or.inl h2
      · exact Or.inr (Or.inl h2)
  recv := by
    intro s srv _ hf
    constructor
    rw [receive_respLog, receive_round, receive_sv, receive_next, receive_active]
    intro x hx
    rcases hf.first x hx with h1 | ⟨h1, h2⟩
    · exact Or.inl (List.mem_cons_of_mem _ h1)
    · rcases h2 with h2 | h2
      · exact Or.inr ⟨h1, Or.inl h2⟩
      · by_cases hxs : x = srv
        · left; rw [hxs, h1]; exact List.mem_cons_self
        · exact Or.inr ⟨h1, Or.inr ((List.mem_erase_of_ne hxs).mpr h2)⟩
  round := by
    intro s hact hnext _ _ hf
    constructor
    intro x hx
    rcases hf.first x hx with h1 | ⟨_, h2⟩
    · exact Or.inl h1
    · rw [List.drop_eq_nil_of_le hnext, hact] at h2; simp at h2

/-! ### Enough acceptors -/

theorem countP_erase_mem (p : Srv → Bool) {l : List Srv} {a : Srv} (h : a ∈ l) :
    (l.erase a).countP p + (if p a then 1 else 0) = l.countP p := by
  induction l with
  | nil => cases h
  | cons b t ih =>
    by_cases hb : b = a
    · subst hb
      simp only [List.erase_cons_head, List.countP_cons]
    · have hm : a ∈ t := by
        rcases List.mem_cons.mp h with h | h
        · exact absurd h.symm hb
        · exact h
      have hbeq : (b == a) = false := beq_eq_false_iff_ne.mpr hb
      rw [List.erase_cons, hbeq]
      simp only [Bool.false_eq_true, if_false, List.countP_cons]
      have := ih hm
      omega

/-- `K` acceptors exist among the writable services; each one not yet answered is either still to
be asked in this round or in flight. -/
structure Acc (acc : Srv → Bool) (K : Nat) (s : St) : Prop where
  pend : (K : Int) ≤ s.done + (((s.sv.drop s.next).countP acc + s.active.countP acc : Nat) : Int)

theorem acc_init (c : Cfg) (acc : Srv → Bool) (sv : List Srv) :
    Acc acc (sv.countP acc) (init c sv) := by
  constructor; simp [init]

theorem acc_preserved (c : Cfg) (acc : Srv → Bool) (K : Nat)
    (hacc : ∀ x r, acc x = true → (c.script x r).code = 200 ∧ 1 ≤ (c.script x r).rep)
    (hnn : ∀ x r, (c.script x r).code = 200 → 0 ≤ (c.script x r).rep) :
    Preserved c (Acc acc K) where
  start := by
    intro s h ha
    constructor
    have := ha.pend
    rw [List.drop_eq_getElem_cons h, List.countP_cons] at this
    simp only [startOne, List.countP_append, List.countP_cons, List.countP_nil]
    omega
  recv := by
    intro s srv hm ha
    constructor
    have hp := ha.pend
    have he := countP_erase_mem acc hm
    rw [receive_done, receive_sv, receive_next, receive_active]
    by_cases hs : acc srv = true
    · have h := hacc srv s.round hs
      simp only [hs, if_true] at he
      simp only [h.1, if_true]
      omega
    · simp only [hs, Bool.false_eq_true, if_false, Nat.add_zero] at he
      rw [he]
      split
      · rename_i h200
        have := hnn srv s.round h200
        omega
      · exact hp
  round := by
    intro s hact hnext _ _ ha
    constructor
    have hp := ha.pend
    rw [List.drop_eq_nil_of_le hnext, hact] at hp
    simp only [List.countP_nil, Nat.add_zero] at hp
    simp only [nextRound, List.drop_zero]
    omega

end ArvVerif.C11
