/-
C06(c') proofs: soundness of the trace acceptor (`GCS.accepts`, the executable search the
correspondence check runs on every observed execution of the real `GetCurrentState`) with respect
to the small-step relation `Step`: whenever the acceptor answers `some true`, there IS an
interleaving of the model — a `Reach`able state — in which every goroutine has ended and whose
result is the reported one. (The direction that matters: an accepted observation is explained by the
system the theorems `C06_gcs_*` quantify over. The partial-order reduction and the visited set only
prune the search; they cannot make it accept more.)
-/
import ArvVerif.Proofs.C06_GCS
namespace ArvVerif.C06.GCS

/-- the model state a search state stands for -/
def Run.toG (r : Run) : G := ⟨r.sh, r.ws.map (·.1), r.p.1, r.s.1⟩

theorem follow_mem {step : Sh → Loc → List (Sh × Loc)} {sh : Sh} {x : Loc × List Nat}
    {y : Sh × (Loc × List Nat)} (h : y ∈ follow step sh x) : (y.1, y.2.1) ∈ step sh x.1 := by
  unfold follow at h
  split at h
  · cases h
  · simp only [List.mem_filterMap] at h
    obtain ⟨r, hr, hy⟩ := h
    split at hy
    · cases hy; exact hr
    · cases hy

theorem followP_mem {sh : Sh} {x : Loc × List Nat} {y : Sh × (Loc × List Nat)}
    (h : y ∈ followP sh x) : (y.1, y.2.1) ∈ pStep sh x.1 := by
  unfold followP at h
  simp only [List.mem_append] at h
  rcases h with h | h
  · exact follow_mem h
  · split at h
    · simp only [List.mem_filterMap] at h
      obtain ⟨r, hr, hy⟩ := h
      split at hy
      · cases hy; exact hr
      · cases hy
    · cases h

theorem succsW_step {r r' : Run} {i : Nat} (h : r' ∈ succsW r i) : Step r.toG r'.toG := by
  unfold succsW at h
  split at h
  · rename_i w hw
    simp only [List.mem_map] at h
    obtain ⟨x, hx, rfl⟩ := h
    have hm := follow_mem hx
    obtain ⟨hi, hwi⟩ := List.getElem?_eq_some_iff.mp hw
    have hset : (r.ws.set i x.2).map (·.1) =
        (r.ws.map (·.1)).take i ++ x.2.1 :: (r.ws.map (·.1)).drop (i + 1) := by
      rw [List.map_set, List.set_eq_take_append_cons_drop]; simp [hi]
    have hdec : (r.ws.map (·.1)) = (r.ws.map (·.1)).take i ++ w.1 :: (r.ws.map (·.1)).drop (i + 1) := by
      have hi' : i < (r.ws.map (·.1)).length := by simpa using hi
      have : (r.ws.map (·.1))[i] = w.1 := by simp [hwi]
      rw [← this, List.getElem_cons_drop hi', List.take_append_drop]
    unfold Run.toG
    simp only [hset]
    exact Step.worker (g := ⟨r.sh, r.ws.map (·.1), r.p.1, r.s.1⟩) _ _ w.1 x.1 x.2.1 hdec hm
  · cases h

theorem succsP_step {r r' : Run} (h : r' ∈ succsP r) : Step r.toG r'.toG := by
  unfold succsP at h
  simp only [List.mem_map] at h
  obtain ⟨x, hx, rfl⟩ := h
  exact Step.proc (g := r.toG) x.1 x.2.1 (followP_mem hx)

theorem succsS_step {r r' : Run} (h : r' ∈ succsS r) : Step r.toG r'.toG := by
  unfold succsS at h
  simp only [List.mem_map] at h
  obtain ⟨x, hx, rfl⟩ := h
  exact Step.scan (g := r.toG) x.1 x.2.1 (follow_mem hx)

/-- every successor the search generates (eager local step or branching) is one `Step` of the model -/
theorem succs_step {r r' : Run} (h : r' ∈ succs r) : Step r.toG r'.toG := by
  unfold succs at h
  simp only at h
  split at h
  · rename_i l rest heq
    have hl : l ∈ l :: rest := by simp
    rw [← heq] at hl
    simp only [List.mem_filterMap] at hl
    obtain ⟨i, _, hi⟩ := hl
    split at hi
    · split at hi
      · cases hi; exact succsW_step h
      · cases hi
    · cases hi
  · split at h
    · exact succsP_step h
    · split at h
      · exact succsS_step h
      · simp only [List.mem_append, List.mem_flatMap] at h
        rcases h with (h | h) | ⟨i, _, h⟩
        · exact succsP_step h
        · exact succsS_step h
        · exact succsW_step h

theorem finished_terminal {r : Run} (h : finished r = true) : Terminal r.toG := by
  unfold finished at h
  simp only [Bool.and_eq_true, List.all_eq_true, beq_iff_eq] at h
  obtain ⟨⟨⟨⟨hw, _⟩, hp⟩, _⟩, hs⟩ := h
  refine ⟨?_, hp, hs⟩
  intro l hl
  simp only [Run.toG, List.mem_map] at hl
  obtain ⟨w, hw', rfl⟩ := hl
  exact (hw w hw').2

/-- The search only ever answers `some true` on a state that is reachable from its start states. -/
theorem search_sound {n cap : Nat} (res : Bool) : ∀ (fuel : Nat) (todo : List Run) (seen : Array (List Run)),
    (∀ r ∈ todo, Reach n cap r.toG) → search res fuel todo seen = some true →
    ∃ g, Reach n cap g ∧ Terminal g ∧ resultIsError g = res ∧ g.sh.errs ≠ some false := by
  intro fuel
  induction fuel with
  | zero => intro todo seen _ h; simp [search] at h
  | succ fuel ih =>
    intro todo seen hr h
    cases todo with
    | nil => simp [search] at h
    | cons r todo =>
      simp only [search] at h
      split at h
      · exact ih todo seen (fun x hx => hr x (by simp [hx])) h
      · split at h
        · rename_i hfin
          simp only [Bool.and_eq_true, bne_iff_ne, ne_eq, beq_iff_eq] at hfin
          obtain ⟨⟨hf, hres⟩, hnn⟩ := hfin
          refine ⟨r.toG, hr r (by simp), finished_terminal hf, ?_, hnn⟩
          simpa [resultIsError, Run.toG] using hres
        · refine ih _ _ ?_ h
          intro x hx
          simp only [List.mem_append] at hx
          rcases hx with hx | hx
          · exact .step (hr r (by simp)) (succs_step hx)
          · exact hr x (by simp [hx])

theorem mapM_startOf : ∀ (wpaths : List (List Nat)) (ws : List (Loc × List Nat)),
    wpaths.mapM startOf = some ws → ws.map (·.1) = List.replicate wpaths.length initLoc := by
  intro wpaths
  induction wpaths with
  | nil => intro ws h; simp at h; subst h; rfl
  | cons p rest ih =>
    intro ws h
    rw [List.mapM_cons] at h
    cases hp : startOf p with
    | none => rw [hp] at h; cases h
    | some x =>
      rw [hp] at h
      cases hr : rest.mapM startOf with
      | none => rw [hr] at h; cases h
      | some xs =>
        rw [hr] at h
        cases h
        have hx : x.1 = initLoc := by
          unfold startOf at hp
          split at hp
          · cases hp; rfl
          · cases hp
        simp [List.replicate_succ, hx, ih xs hr]

theorem startOf_fst {p : List Nat} {x : Loc × List Nat} (h : startOf p = some x) : x.1 = initLoc := by
  unfold startOf at h
  split at h
  · cases h; rfl
  · cases h

/-- **Acceptor soundness.** If `accepts` answers `some true` for an observation (per-goroutine label
paths of `wpaths.length` index workers, the processor and the scanner; queue capacity `cap`; result
`res`), then the small-step system has a reachable state in which every goroutine has ended, whose
result is `res`, and `errs` holds no nil. -/
theorem acceptsWith_sound (buckets cap : Nat) (wpaths : List (List Nat)) (ppath spath : List Nat) (res : Bool)
    (fuel : Nat) (h : acceptsWith buckets cap wpaths ppath spath res fuel = some true) :
    ∃ g, Reach wpaths.length cap g ∧ Terminal g ∧ resultIsError g = res ∧ g.sh.errs ≠ some false := by
  unfold acceptsWith at h
  cases hw : wpaths.mapM startOf with
  | none => rw [hw] at h; cases h
  | some ws =>
    cases hp : startOf ppath with
    | none => rw [hw, hp] at h; cases h
    | some p =>
      cases hs : startOf spath with
      | none => rw [hw, hp, hs] at h; cases h
      | some s =>
        rw [hw, hp, hs] at h
        refine search_sound res fuel _ _ ?_ h
        intro r hr
        simp only [List.mem_singleton] at hr
        subst hr
        have : (Run.toG ⟨initSh cap, ws, p, s⟩) = init wpaths.length cap := by
          simp [Run.toG, init, mapM_startOf wpaths ws hw, startOf_fst hp, startOf_fst hs]
        rw [this]
        exact .start

theorem accepts_sound (cap : Nat) (wpaths : List (List Nat)) (ppath spath : List Nat) (res : Bool)
    (fuel : Nat) (h : accepts cap wpaths ppath spath res fuel = some true) :
    ∃ g, Reach wpaths.length cap g ∧ Terminal g ∧ resultIsError g = res ∧ g.sh.errs ≠ some false :=
  acceptsWith_sound 8192 cap wpaths ppath spath res fuel h

end ArvVerif.C06.GCS
