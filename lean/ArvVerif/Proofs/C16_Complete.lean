/-
C16 part A: the set `allowed` printed by the model driver is exact — every member is the result of
the loop for some iteration order of the table (Proofs/C16.lean shows the converse).
-/
import ArvVerif.Proofs.C16
namespace ArvVerif.C16

/-- same price, RAM and VCPUs as `x`, and adequate -/
def Equiv (n : Need) (x y : IType) : Prop :=
  Adequate n y ∧ y.price = x.price ∧ y.ram = x.ram ∧ y.vcpus = x.vcpus

instance (n : Need) (x y : IType) : Decidable (Equiv n x y) := by unfold Equiv; infer_instance

theorem mem_allowed {n : Need} {table : List IType} {x : IType} (h : x ∈ allowed n table) :
    x ∈ table ∧ Adequate n x ∧ (∀ y ∈ table, Adequate n y → x.price ≤ y.price) ∧
    (∀ y ∈ table, Adequate n y → y.price = x.price → ¬ SDom y x) := by
  unfold allowed at h
  simp only [List.mem_filter, List.all_eq_true, decide_eq_true_eq, Bool.not_eq_true', decide_eq_false_iff_not,
    and_imp] at h
  obtain ⟨⟨⟨hx, hax⟩, hmin⟩, hdom⟩ := h
  refine ⟨hx, hax, hmin, ?_⟩
  intro y hy hay hp
  apply hdom y hy hay
  intro z hz haz
  have := hmin z hz haz
  omega

/-- folding over types equivalent to `x` leaves the state empty or holding a type equivalent to `x` -/
theorem fold_equivs (n : Need) (x : IType) (l : List IType) (acc : Bool × IType)
    (hl : ∀ y ∈ l, Equiv n x y ∧ 0 ≤ y.ram ∧ 0 ≤ y.vcpus)
    (hacc : acc = (false, zeroType) ∨ (acc.1 = true ∧ Equiv n x acc.2)) :
    l.foldl (chooseStep n) acc = (false, zeroType) ∨
      ((l.foldl (chooseStep n) acc).1 = true ∧ Equiv n x (l.foldl (chooseStep n) acc).2) := by
  induction l generalizing acc with
  | nil => exact hacc
  | cons y rest ih =>
    simp only [List.foldl_cons]
    apply ih _ (fun z hz => hl z (List.mem_cons_of_mem _ hz))
    obtain ⟨⟨hay, hp, hr, hv⟩, hnr, hnv⟩ := hl y List.mem_cons_self
    right
    rcases chooseStep_cases n acc y with ⟨_, why⟩ | ⟨heq, _, _, _⟩
    · exfalso
      rcases hacc with h0 | ⟨hok, _, hp', hr', hv'⟩
      · subst h0
        rcases why with h | ⟨h, _⟩ | ⟨_, h⟩
        · exact h hay
        · cases h
        · simp only [zeroType] at h; omega
      · rcases why with h | ⟨_, h⟩ | ⟨_, h⟩
        · exact h hay
        · omega
        · omega
    · rw [heq]; exact ⟨rfl, hay, hp, hr, hv⟩

/-- from such a state `x` itself is accepted -/
theorem step_x (n : Need) (x : IType) (acc : Bool × IType) (hax : Adequate n x)
    (hnn : 0 ≤ x.ram ∧ 0 ≤ x.vcpus)
    (hacc : acc = (false, zeroType) ∨ (acc.1 = true ∧ Equiv n x acc.2)) :
    chooseStep n acc x = (true, x) := by
  rcases chooseStep_cases n acc x with ⟨_, why⟩ | ⟨heq, _, _, _⟩
  · exfalso
    rcases hacc with h0 | ⟨hok, _, hp', hr', hv'⟩
    · subst h0
      rcases why with h | ⟨h, _⟩ | ⟨_, h⟩
      · exact h hax
      · cases h
      · simp only [zeroType] at h; omega
    · rcases why with h | ⟨_, h⟩ | ⟨_, h⟩
      · exact h hax
      · omega
      · omega
  · exact heq

/-- afterwards nothing that is not equivalent to `x` can replace it -/
theorem fold_rest (n : Need) (x : IType) (l : List IType)
    (hmin : ∀ y ∈ l, Adequate n y → x.price ≤ y.price)
    (hdom : ∀ y ∈ l, Adequate n y → y.price = x.price → ¬ SDom y x)
    (hne : ∀ y ∈ l, ¬ Equiv n x y) :
    l.foldl (chooseStep n) (true, x) = (true, x) := by
  induction l with
  | nil => rfl
  | cons y rest ih =>
    simp only [List.foldl_cons]
    have hstep : chooseStep n (true, x) y = (true, x) := by
      rcases chooseStep_cases n (true, x) y with ⟨heq, _⟩ | ⟨_, hay, h1, h6⟩
      · exact heq
      · exfalso
        have hm := hmin y List.mem_cons_self hay
        dsimp only at h1 h6
        simp only [true_and, gt_iff_lt, Int.not_lt] at h1
        have hp : y.price = x.price := by omega
        have hd := hdom y List.mem_cons_self hay hp
        apply hne y List.mem_cons_self
        refine ⟨hay, hp, ?_, ?_⟩ <;> (unfold SDom at hd; omega)
    rw [hstep]
    exact ih (fun z hz => hmin z (List.mem_cons_of_mem _ hz)) (fun z hz => hdom z (List.mem_cons_of_mem _ hz))
      (fun z hz => hne z (List.mem_cons_of_mem _ hz))

/-- every member of `allowed` is returned for some iteration order -/
theorem allowed_complete (n : Need) (table : List IType) (x : IType)
    (hnn : ∀ y ∈ table, 0 ≤ y.ram ∧ 0 ≤ y.vcpus) (hx : x ∈ allowed n table) :
    ∃ order, order.Perm table ∧ chooseLoop n order = (true, x) := by
  obtain ⟨hxt, hax, hmin, hdom⟩ := mem_allowed hx
  let t' := table.erase x
  let E := t'.filter (fun y => decide (Equiv n x y))
  let R := t'.filter (fun y => !decide (Equiv n x y))
  have hsub : ∀ y ∈ t', y ∈ table := fun y hy => List.mem_of_mem_erase hy
  refine ⟨E ++ x :: R, ?_, ?_⟩
  · have h1 : (E ++ R).Perm t' := List.filter_append_perm _ _
    have h2 : (E ++ x :: R).Perm (x :: (E ++ R)) := List.perm_middle
    exact h2.trans ((h1.cons x).trans (List.perm_cons_erase hxt).symm)
  · unfold chooseLoop
    rw [List.foldl_append, List.foldl_cons]
    have hE := fold_equivs n x E (false, zeroType)
      (fun y hy => by
        have hm := List.mem_filter.mp hy
        exact ⟨by simpa using hm.2, hnn y (hsub y hm.1)⟩)
      (Or.inl rfl)
    rw [step_x n x _ hax (hnn x hxt) hE]
    apply fold_rest
    · intro y hy; exact hmin y (hsub y (List.mem_filter.mp hy).1)
    · intro y hy; exact hdom y (hsub y (List.mem_filter.mp hy).1)
    · intro y hy; simpa using (List.mem_filter.mp hy).2

end ArvVerif.C16
