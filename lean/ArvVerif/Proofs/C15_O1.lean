/-
Runner objects of one worker (Model/C15_O1.lean): the invariant that rules out a double close, and
its preservation by `accept`, `probe` and the start completion (guarded since /repo 18910db).
-/
import ArvVerif.Model.C15_O1
namespace ArvVerif.C15
open ArvVerif.C14

def ids (l : List (Uuid × Nat)) : List Nat := l.map (·.2)

/-- runner objects in the maps are pairwise distinct, none of them is closed, and `next` is fresh -/
structure Good (w : RW) : Prop where
  nodup : (ids (w.running ++ w.starting)).Nodup
  open_ : ∀ r ∈ ids (w.running ++ w.starting), r ∉ w.closed
  lt : ∀ r ∈ ids (w.running ++ w.starting), r < w.next
  clt : ∀ r ∈ w.closed, r < w.next

/-! ### association lists -/

theorem ids_append (a b : List (Uuid × Nat)) : ids (a ++ b) = ids a ++ ids b := by simp [ids]

theorem ids_erase_sub (l : List (Uuid × Nat)) (u : Uuid) : (ids (erase l u)).Sublist (ids l) :=
  List.Sublist.map _ List.filter_sublist

theorem mem_ids_erase {l : List (Uuid × Nat)} {u : Uuid} {r : Nat} (h : r ∈ ids (erase l u)) : r ∈ ids l :=
  (ids_erase_sub l u).subset h

theorem lookup_mem {l : List (Uuid × Nat)} {u : Uuid} {r : Nat} (h : lookup l u = some r) : (u, r) ∈ l := by
  unfold lookup at h
  cases hf : l.find? (fun p => p.1 == u) with
  | none => rw [hf] at h; cases h
  | some p =>
    rw [hf] at h
    simp only [Option.map_some, Option.some.injEq] at h
    have hm := List.mem_of_find?_eq_some hf
    have hk := List.find?_some hf
    simp only [beq_iff_eq] at hk
    obtain ⟨a, b⟩ := p
    simp only at hk h
    subst hk; subst h
    exact hm

theorem lookup_mem_ids {l : List (Uuid × Nat)} {u : Uuid} {r : Nat} (h : lookup l u = some r) : r ∈ ids l :=
  List.mem_map.mpr ⟨(u, r), lookup_mem h, rfl⟩

/-- in a list whose ids are pairwise distinct an id determines its key -/
theorem key_of_id {l : List (Uuid × Nat)} (hn : (ids l).Nodup) {a b : Uuid} {r : Nat}
    (ha : (a, r) ∈ l) (hb : (b, r) ∈ l) : a = b := by
  induction l with
  | nil => cases ha
  | cons x rest ih =>
    simp only [ids, List.map_cons, List.nodup_cons] at hn
    rcases List.mem_cons.mp ha with e1 | e1 <;> rcases List.mem_cons.mp hb with e2 | e2
    · rw [← e1] at e2; exact (Prod.mk.inj e2).1.symm
    · exfalso; apply hn.1; rw [← e1]; exact List.mem_map.mpr ⟨(b, r), e2, rfl⟩
    · exfalso; apply hn.1; rw [← e2]; exact List.mem_map.mpr ⟨(a, r), e1, rfl⟩
    · exact ih hn.2 e1 e2

/-- after erasing the key of `(u, r)` the id `r` is gone -/
theorem not_mem_ids_erase {l : List (Uuid × Nat)} (hn : (ids l).Nodup) {u : Uuid} {r : Nat} (h : (u, r) ∈ l) :
    r ∉ ids (erase l u) := by
  intro hr
  obtain ⟨⟨a, b⟩, hm, hb⟩ := List.mem_map.mp hr
  simp only at hb; subst hb
  unfold erase at hm
  have hm' := List.mem_filter.mp hm
  have hk : a ≠ u := by simpa using hm'.2
  exact hk (key_of_id hn hm'.1 h)

theorem nodup_parts {a b : List Nat} (h : (a ++ b).Nodup) : a.Nodup ∧ b.Nodup ∧ ∀ x ∈ a, x ∉ b := by
  rw [List.nodup_append] at h
  exact ⟨h.1, h.2.1, fun x hx hb => h.2.2 x hx x hb rfl⟩

theorem nodup_join {a b : List Nat} (ha : a.Nodup) (hb : b.Nodup) (hd : ∀ x ∈ a, x ∉ b) : (a ++ b).Nodup := by
  rw [List.nodup_append]
  exact ⟨ha, hb, fun x hx y hy e => hd x hx (e ▸ hy)⟩

theorem mem_ids_insert {l : List (Uuid × Nat)} {u : Uuid} {r x : Nat} :
    x ∈ ids (insert l u r) ↔ x ∈ ids (erase l u) ∨ x = r := by
  unfold insert
  rw [ids_append, List.mem_append]
  simp [ids]

/-! ### moving a runner from `starting` to `running`, adding a fresh one, closing one -/

/-- `running[u] = r; delete(starting, u)` for the runner `r` that `starting` holds for `u` -/
theorem good_move (w : RW) (hg : Good w) (u : Uuid) (r : Nat) (hs : lookup w.starting u = some r) :
    Good { w with running := insert w.running u r, starting := erase w.starting u } := by
  obtain ⟨hn, ho, hl, hc⟩ := hg
  rw [ids_append] at hn ho hl
  obtain ⟨hnr, hns, hdisj⟩ := nodup_parts hn
  have hrs : r ∈ ids w.starting := lookup_mem_ids hs
  have hrnot : r ∉ ids (erase w.starting u) := not_mem_ids_erase hns (lookup_mem hs)
  have hrr : r ∉ ids w.running := fun h => hdisj r h hrs
  have hsub : ∀ x, x ∈ ids (insert w.running u r ++ erase w.starting u) → x ∈ ids w.running ++ ids w.starting := by
    intro x hx
    rw [ids_append, List.mem_append, mem_ids_insert] at hx
    rw [List.mem_append]
    rcases hx with (hx | hx) | hx
    · exact Or.inl (mem_ids_erase (l := w.running) hx)
    · exact Or.inr (hx ▸ hrs)
    · exact Or.inr (mem_ids_erase (l := w.starting) hx)
  refine ⟨?_, fun x hx => ho x (hsub x hx), fun x hx => hl x (hsub x hx), hc⟩
  show (ids (insert w.running u r ++ erase w.starting u)).Nodup
  rw [ids_append]
  unfold insert
  rw [ids_append]
  have h1 : (ids (erase w.running u)).Nodup := List.Nodup.sublist (ids_erase_sub _ _) hnr
  have h2 : (ids (erase w.starting u)).Nodup := List.Nodup.sublist (ids_erase_sub _ _) hns
  apply nodup_join
  · apply nodup_join h1
    · simp [ids]
    · intro x hx hx'
      simp only [ids, List.map_cons, List.map_nil, List.mem_cons, List.not_mem_nil, or_false] at hx'
      exact hrr (hx' ▸ mem_ids_erase hx)
  · exact h2
  · intro x hx hx'
    simp only [List.mem_append, ids, List.map_cons, List.map_nil, List.mem_cons, List.not_mem_nil, or_false] at hx
    rcases hx with hx | hx
    · exact hdisj x (mem_ids_erase (l := w.running) hx) (mem_ids_erase (l := w.starting) hx')
    · exact hrnot (hx ▸ hx')

/-- a brand-new runner object in `running` -/
theorem good_fresh_running (w : RW) (hg : Good w) (u : Uuid) :
    Good { w with running := insert w.running u w.next, next := w.next + 1 } := by
  obtain ⟨hn, ho, hl, hc⟩ := hg
  rw [ids_append] at hn ho hl
  obtain ⟨hnr, hns, hdisj⟩ := nodup_parts hn
  have hfresh : ∀ x ∈ ids w.running ++ ids w.starting, x ≠ w.next := fun x hx e => by
    have := hl x hx; omega
  have hmem : ∀ x, x ∈ ids (insert w.running u w.next ++ w.starting) →
      x = w.next ∨ x ∈ ids w.running ++ ids w.starting := by
    intro x hx
    rw [ids_append, List.mem_append, mem_ids_insert] at hx
    rw [List.mem_append]
    rcases hx with (hx | hx) | hx
    · exact Or.inr (Or.inl (mem_ids_erase (l := w.running) hx))
    · exact Or.inl hx
    · exact Or.inr (Or.inr hx)
  refine ⟨?_, ?_, ?_, ?_⟩
  · show (ids (insert w.running u w.next ++ w.starting)).Nodup
    rw [ids_append]
    unfold insert
    rw [ids_append]
    have h1 : (ids (erase w.running u)).Nodup := List.Nodup.sublist (ids_erase_sub _ _) hnr
    apply nodup_join
    · apply nodup_join h1
      · simp [ids]
      · intro x hx hx'
        simp only [ids, List.map_cons, List.map_nil, List.mem_cons, List.not_mem_nil, or_false] at hx'
        exact hfresh x (List.mem_append_left _ (mem_ids_erase hx)) hx'
    · exact hns
    · intro x hx hx'
      simp only [List.mem_append, ids, List.map_cons, List.map_nil, List.mem_cons, List.not_mem_nil, or_false] at hx
      rcases hx with hx | hx
      · exact hdisj x (mem_ids_erase (l := w.running) hx) hx'
      · exact hfresh x (List.mem_append_right _ hx') hx
  · intro x hx
    rcases hmem x hx with e | h
    · intro hcl; have := hc x hcl; omega
    · exact ho x h
  · intro x hx
    show x < w.next + 1
    rcases hmem x hx with e | h
    · omega
    · have := hl x h; omega
  · intro x hx
    show x < w.next + 1
    have := hc x hx; omega

/-- a brand-new runner object in `starting` -/
theorem good_fresh_starting (w : RW) (hg : Good w) (u : Uuid) :
    Good { w with starting := insert w.starting u w.next, next := w.next + 1 } := by
  obtain ⟨hn, ho, hl, hc⟩ := hg
  rw [ids_append] at hn ho hl
  obtain ⟨hnr, hns, hdisj⟩ := nodup_parts hn
  have hfresh : ∀ x ∈ ids w.running ++ ids w.starting, x ≠ w.next := fun x hx e => by
    have := hl x hx; omega
  have hmem : ∀ x, x ∈ ids (w.running ++ insert w.starting u w.next) →
      x = w.next ∨ x ∈ ids w.running ++ ids w.starting := by
    intro x hx
    rw [ids_append, List.mem_append, mem_ids_insert] at hx
    rw [List.mem_append]
    rcases hx with hx | hx | hx
    · exact Or.inr (Or.inl hx)
    · exact Or.inr (Or.inr (mem_ids_erase (l := w.starting) hx))
    · exact Or.inl hx
  refine ⟨?_, ?_, ?_, ?_⟩
  · show (ids (w.running ++ insert w.starting u w.next)).Nodup
    rw [ids_append]
    unfold insert
    rw [ids_append]
    have h2 : (ids (erase w.starting u)).Nodup := List.Nodup.sublist (ids_erase_sub _ _) hns
    apply nodup_join hnr
    · apply nodup_join h2
      · simp [ids]
      · intro x hx hx'
        simp only [ids, List.map_cons, List.map_nil, List.mem_cons, List.not_mem_nil, or_false] at hx'
        exact hfresh x (List.mem_append_right _ (mem_ids_erase hx)) hx'
    · intro x hx hx'
      simp only [List.mem_append, ids, List.map_cons, List.map_nil, List.mem_cons, List.not_mem_nil, or_false] at hx'
      rcases hx' with hx' | hx'
      · exact hdisj x hx (mem_ids_erase (l := w.starting) hx')
      · exact hfresh x (List.mem_append_left _ hx) hx'
  · intro x hx
    rcases hmem x hx with e | h
    · intro hcl; have := hc x hcl; omega
    · exact ho x h
  · intro x hx
    show x < w.next + 1
    rcases hmem x hx with e | h
    · omega
    · have := hl x h; omega
  · intro x hx
    show x < w.next + 1
    have := hc x hx; omega

/-- the invariant does not look at `state`, `pending`, `exited` -/
theorem good_congr {w w' : RW} (hg : Good w) (h1 : w'.running = w.running) (h2 : w'.starting = w.starting)
    (h3 : w'.closed = w.closed) (h4 : w'.next = w.next) : Good w' := by
  obtain ⟨a, b, c, d⟩ := hg
  exact ⟨by rw [h1, h2]; exact a, by rw [h1, h2, h3]; exact b, by rw [h1, h2, h4]; exact c,
    by rw [h3, h4]; exact d⟩

theorem good_ite {c : Prop} [Decidable c] {a b : RW} (ha : Good a) (hb : Good b) : Good (if c then a else b) := by
  split <;> assumption

theorem good_close_core (w : RW) (hg : Good w) (u : Uuid) (r : Nat) (hl : lookup w.running u = some r)
    (ex : List Uuid) :
    r ∉ w.closed ∧ Good { w with running := erase w.running u, closed := r :: w.closed, exited := ex } := by
  obtain ⟨hn, ho, hlt, hc⟩ := hg
  have hrin : r ∈ ids (w.running ++ w.starting) := by
    rw [ids_append]; exact List.mem_append_left _ (lookup_mem_ids hl)
  have hopen : r ∉ w.closed := ho r hrin
  rw [ids_append] at hn ho hlt
  obtain ⟨hnr, hns, hdisj⟩ := nodup_parts hn
  have hgone : r ∉ ids (erase w.running u) := not_mem_ids_erase hnr (lookup_mem hl)
  have hnots : r ∉ ids w.starting := fun h => hdisj r (lookup_mem_ids hl) h
  refine ⟨hopen, ?_, ?_, ?_, ?_⟩
  · show (ids (erase w.running u ++ w.starting)).Nodup
    rw [ids_append]
    exact nodup_join (List.Nodup.sublist (ids_erase_sub _ _) hnr) hns
      (fun x hx hx' => hdisj x (mem_ids_erase hx) hx')
  · intro x hx
    have hx' : x ∈ ids (erase w.running u) ∨ x ∈ ids w.starting := by
      have : x ∈ ids (erase w.running u ++ w.starting) := hx
      rw [ids_append] at this; exact List.mem_append.mp this
    show x ∉ r :: w.closed
    intro hcl
    rcases List.mem_cons.mp hcl with e | e
    · rcases hx' with h | h
      · exact hgone (e ▸ h)
      · exact hnots (e ▸ h)
    · rcases hx' with h | h
      · exact ho x (List.mem_append_left _ (mem_ids_erase h)) e
      · exact ho x (List.mem_append_right _ h) e
  · intro x hx
    have : x ∈ ids (erase w.running u ++ w.starting) := hx
    rw [ids_append] at this
    rcases List.mem_append.mp this with h | h
    · exact hlt x (List.mem_append_left _ (mem_ids_erase h))
    · exact hlt x (List.mem_append_right _ h)
  · intro x hx
    rcases List.mem_cons.mp hx with e | e
    · rw [e]; exact hlt r (List.mem_append_left _ (lookup_mem_ids hl))
    · exact hc x e

/-- **`closeRunner` never closes twice** on a good worker, and keeps it good. -/
theorem good_closeRunner (w : RW) (hg : Good w) (u : Uuid) : ∃ w', w.closeRunner u = some w' ∧ Good w' := by
  unfold RW.closeRunner
  cases hl : lookup w.running u with
  | none => exact ⟨w, rfl, hg⟩
  | some r =>
    obtain ⟨hopen, core⟩ := good_close_core w hg u r hl (if w.exited.contains u then w.exited else w.exited ++ [u])
    have hcf : w.closed.contains r = false := by simpa using hopen
    simp only [hcf, Bool.false_eq_true, if_false]
    exact ⟨_, rfl, good_ite (good_congr core rfl rfl rfl rfl) core⟩

theorem good_adopt (alive : List Uuid) : ∀ (w : RW), Good w → Good (w.adopt alive).1 := by
  induction alive with
  | nil => intro w hg; exact hg
  | cons u rest ih =>
    intro w hg
    unfold RW.adopt
    split
    · exact ih w hg
    · cases hs : lookup w.starting u with
      | some r => exact ih _ (good_move w hg u r hs)
      | none => exact ih _ (good_fresh_running w hg u)

theorem good_closeDead (alive : List Uuid) : ∀ (us : List Uuid) (w : RW), Good w →
    ∃ r, RW.closeDead alive us w = some r ∧ Good r.1 := by
  intro us
  induction us with
  | nil => intro w hg; exact ⟨(w, false), rfl, hg⟩
  | cons u rest ih =>
    intro w hg
    unfold RW.closeDead
    split
    · exact ih w hg
    · obtain ⟨w1, h1, hg1⟩ := good_closeRunner w hg u
      rw [h1]
      obtain ⟨r, hr, hgr⟩ := ih w1 hg1
      exact ⟨(r.1, true), by simp [hr], hgr⟩

theorem good_probe (w : RW) (hg : Good w) (alive : List Uuid) : ∃ w', w.probe alive = some w' ∧ Good w' := by
  unfold RW.probe
  dsimp only
  obtain ⟨r, hr, hgr⟩ := good_closeDead alive ((w.adopt alive).1.running.map (·.1)) _ (good_adopt alive w hg)
  rw [hr]
  obtain ⟨w1, c⟩ := r
  dsimp only
  split
  · exact ⟨_, rfl, hgr⟩
  · split
    · exact ⟨_, rfl, good_congr hgr rfl rfl rfl rfl⟩
    · split
      · exact ⟨_, rfl, good_congr hgr rfl rfl rfl rfl⟩
      · exact ⟨_, rfl, hgr⟩

theorem good_accept (w : RW) (hg : Good w) (u : Uuid) : Good (w.accept u) := by
  unfold RW.accept
  split
  · exact hg
  · exact good_congr (good_fresh_starting w hg u) rfl rfl rfl rfl

theorem good_startDone (w : RW) (hg : Good w) (u : Uuid) : Good (w.startDone u) := by
  unfold RW.startDone
  cases hp : lookup w.pending u with
  | none => exact hg
  | some r =>
    dsimp only
    split
    · rename_i hs
      exact good_congr (good_move w hg u r hs) rfl rfl rfl rfl
    · exact good_congr hg rfl rfl rfl rfl

theorem good_fresh : Good RW.fresh := by
  refine ⟨by simp [RW.fresh, ids], ?_, ?_, ?_⟩ <;> intro r hr <;> simp [RW.fresh, ids] at hr

theorem run_total : ∀ (ops : List RWOp) (w : RW), Good w → (w.run ops).isSome = true := by
  intro ops
  induction ops with
  | nil => intro w _; rfl
  | cons op rest ih =>
    intro w hg
    unfold RW.run
    cases op with
    | accept u => exact ih _ (good_accept w hg u)
    | startDone u => exact ih _ (good_startDone w hg u)
    | probe alive =>
      obtain ⟨w', h, hg'⟩ := good_probe w hg alive
      simp only [RW.step, h]
      exact ih _ hg'

end ArvVerif.C15
