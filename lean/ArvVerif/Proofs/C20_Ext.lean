/-
C20 helper lemmas, part 4 (extension round): the Go loop with its separate `batch` variable is
`clusterLoop`; the groups partition the requested uuids (total call bound); context cancellation.
-/
import ArvVerif.Proofs.C20_Run
namespace ArvVerif.C20

/-! ### the literal Go loop -/

/-- Whenever `batch` is `todo` itself or longer than `todo` (so that it is rebuilt), the literal loop
is `clusterLoop`. Both cases are all that ever occurs: after a page with progress `todo` is strictly
shorter than the batch just sent. -/
theorem loopGo_eq_gen (B : Backend) (ropts : Opts) (fuel : Nat) (batch todo : List Uuid) (idx : Nat)
    (h : batch = todo ∨ batch.length > todo.length) :
    clusterLoopGo B ropts fuel batch todo idx = clusterLoop B ropts fuel todo idx := by
  induction fuel generalizing batch todo idx with
  | zero => simp [clusterLoopGo, clusterLoop]
  | succ fuel ih =>
    by_cases hne : todo = []
    · subst hne; simp [clusterLoopGo, clusterLoop]
    · rw [loop_step B ropts fuel todo idx hne, clusterLoopGo]
      simp only [hne, if_false]
      have hb : (if batch.length > todo.length then todo else batch) = todo := by
        rcases h with rfl | h
        · simp
        · simp [h]
      rw [hb]
      cases hB : B (batchReq ropts todo) idx with
      | error s => rfl
      | page items =>
        simp only
        by_cases hi : items = []
        · simp [hi]
        · simp only [hi, if_false]
          by_cases ha : accepts todo (pageUuids items) = false
          · simp [ha]
          · simp only [if_neg ha]
            by_cases hp : (remaining todo items).length = todo.length
            · simp [hp]
            · simp only [hp, if_false]
              have hle := remaining_length_le todo items
              rw [ih todo (remaining todo items) (idx + 1) (Or.inr (by omega))]

/-- The loop as written in Go (batch initialised with all of `todo`) is the model's loop. -/
theorem loopGo_eq (B : Backend) (ropts : Opts) (fuel : Nat) (todo : List Uuid) (idx : Nat) :
    clusterLoopGo B ropts fuel todo todo idx = clusterLoop B ropts fuel todo idx :=
  loopGo_eq_gen B ropts fuel todo todo idx (Or.inl rfl)

/-! ### the groups partition the uuids -/

theorem length_filter_disjoint (us : List Uuid) (p q : Uuid → Bool) (hd : ∀ u, p u = true → q u = false) :
    (us.filter p).length + (us.filter q).length = (us.filter (fun u => p u || q u)).length := by
  induction us with
  | nil => rfl
  | cons u us ih =>
    simp only [List.filter_cons]
    cases hp : p u <;> cases hq : q u
    · simpa using ih
    · simp only [Bool.false_or, if_true, List.length_cons, Bool.false_eq_true, if_false]; omega
    · simp only [Bool.true_or, if_true, List.length_cons, Bool.false_eq_true, if_false]; omega
    · have := hd u hp; rw [hq] at this; cases this

theorem sum_filter_home (ks : List ClusterId) (hk : ks.Nodup) (us : List Uuid) :
    (ks.map (fun c => (us.filter (fun u => decide (home u = c))).length)).sum =
      (us.filter (fun u => decide (home u ∈ ks))).length := by
  induction ks with
  | nil =>
    have : us.filter (fun u => decide (home u ∈ ([] : List ClusterId))) = [] := by
      apply List.filter_eq_nil_iff.mpr; intro u _; simp
    rw [this]; rfl
  | cons c ks ih =>
    obtain ⟨hc, hk'⟩ := List.nodup_cons.mp hk
    rw [List.map_cons, List.sum_cons, ih hk',
      length_filter_disjoint us (fun u => decide (home u = c)) (fun u => decide (home u ∈ ks)) (by
        intro u hu
        simp only [decide_eq_true_eq] at hu
        simp only [decide_eq_false_iff_not]
        rw [hu]; exact hc)]
    congr 1
    apply List.filter_congr
    intro u _
    simp [List.mem_cons]

/-- Σ over the groups of their sizes = number of uuids -/
theorem groups_sum (us : List Uuid) : ((groups us).map (fun g => g.2.length)).sum = us.length := by
  have h := sum_filter_home (clusterIds us) (nodup_clusterIds us) us
  have hall : us.filter (fun u => decide (home u ∈ clusterIds us)) = us := by
    apply List.filter_eq_self.mpr
    intro u hu
    simp only [decide_eq_true_eq]
    exact (mem_clusterIds us _).mpr ⟨u, hu, rfl⟩
  rw [hall] at h
  rw [← h]
  simp [groups, List.map_map, Function.comp_def]

def totalCalls (r : Run) : Nat := (r.log.map (fun e => e.2.length)).sum

theorem sum_le_sum {α : Type} (l : List α) (f g : α → Nat) (h : ∀ a ∈ l, f a ≤ g a) :
    (l.map f).sum ≤ (l.map g).sum := by
  induction l with
  | nil => simp
  | cons a l ih =>
    simp only [List.map_cons, List.sum_cons]
    have := h a List.mem_cons_self
    have := ih (fun b hb => h b (List.mem_cons_of_mem _ hb))
    omega

/-! ### context cancellation -/

/-- A cluster whose loop is over before the cancellation reaches it is not influenced by it. -/
theorem loop_cut_eq (B : Backend) (ropts : Opts) (k fuel : Nat) (todo : List Uuid) (idx : Nat)
    (h : (clusterLoop B ropts fuel todo idx).log.length + idx ≤ k) :
    clusterLoop (cutBackend B (some k)) ropts fuel todo idx = clusterLoop B ropts fuel todo idx := by
  induction fuel generalizing todo idx with
  | zero => simp [clusterLoop]
  | succ fuel ih =>
    by_cases hne : todo = []
    · subst hne; simp [clusterLoop]
    · rw [loop_step B ropts fuel todo idx hne] at h
      rw [loop_step B ropts fuel todo idx hne, loop_step (cutBackend B (some k)) ropts fuel todo idx hne]
      have hlt : ¬ k ≤ idx := by
        intro hk
        revert h
        cases B (batchReq ropts todo) idx with
        | error s => simp; omega
        | page items =>
          simp only
          split
          · simp; omega
          · split
            · simp; omega
            · split
              · simp; omega
              · simp; omega
      have hcb : cutBackend B (some k) (batchReq ropts todo) idx = B (batchReq ropts todo) idx := by
        simp [cutBackend, hlt]
      rw [hcb]
      cases hB : B (batchReq ropts todo) idx with
      | error s => rfl
      | page items =>
        rw [hB] at h
        simp only at h ⊢
        by_cases hi : items = []
        · simp [hi]
        · simp only [hi, if_false] at h ⊢
          by_cases ha : accepts todo (pageUuids items) = false
          · simp [ha]
          · simp only [if_neg ha] at h ⊢
            by_cases hp : (remaining todo items).length = todo.length
            · simp [hp]
            · simp only [hp, if_false, push_log, List.length_cons] at h ⊢
              rw [ih (remaining todo items) (idx + 1) (by omega)]

/-- A cluster that is reached by the cancellation while its loop is still running fails (502), and
everything it did before is what it would have done anyway (its log is a prefix + the failed call;
here: it does not end normally). -/
theorem loop_cut_fails (B : Backend) (ropts : Opts) (k fuel : Nat) (todo : List Uuid) (idx : Nat)
    (hf : todo.length ≤ fuel) (hk : idx ≤ k)
    (h : k < (clusterLoop B ropts fuel todo idx).log.length + idx) :
    (clusterLoop (cutBackend B (some k)) ropts fuel todo idx).stop = .failed 502 := by
  induction fuel generalizing todo idx with
  | zero =>
    have : todo = [] := List.length_eq_zero_iff.mp (Nat.le_zero.mp hf)
    subst this
    simp [clusterLoop] at h
    omega
  | succ fuel ih =>
    by_cases hne : todo = []
    · subst hne; simp [clusterLoop] at h; omega
    · rw [loop_step B ropts fuel todo idx hne] at h
      rw [loop_step (cutBackend B (some k)) ropts fuel todo idx hne]
      by_cases hke : k = idx
      · subst hke
        have : cutBackend B (some k) (batchReq ropts todo) k = .error 0 := by simp [cutBackend]
        rw [this]
      · have hlt : ¬ k ≤ idx := by omega
        have hcb : cutBackend B (some k) (batchReq ropts todo) idx = B (batchReq ropts todo) idx := by
          simp [cutBackend, hlt]
        rw [hcb]
        cases hB : B (batchReq ropts todo) idx with
        | error s => rfl
        | page items =>
          rw [hB] at h
          simp only at h ⊢
          by_cases hi : items = []
          · simp [hi] at h; omega
          · simp only [hi, if_false] at h ⊢
            by_cases ha : accepts todo (pageUuids items) = false
            · simp [ha]
            · simp only [if_neg ha] at h ⊢
              by_cases hp : (remaining todo items).length = todo.length
              · simp [hp]
              · simp only [hp, if_false, push_log, push_stop, List.length_cons] at h ⊢
                have hle := remaining_length_le todo items
                exact ih (remaining todo items) (idx + 1) (by omega) (by omega) (by omega)

theorem runClusterCut_unaffected (cfg : Cfg) (o : Opts) (cut : ClusterId → Option Nat)
    (g : ClusterId × List Uuid) (h : affected cfg o cut g = false) :
    runClusterCut cfg o g.1 g.2 (cut g.1) = runCluster cfg o g.1 g.2 := by
  unfold affected at h
  unfold runClusterCut runCluster at *
  cases hb : backendFor cfg g.1 with
  | none => rfl
  | some B =>
    rw [hb] at h
    simp only at h ⊢
    cases hc : cut g.1 with
    | none => rfl
    | some k =>
      rw [hc] at h
      simp only [decide_eq_false_iff_not] at h
      exact loop_cut_eq B _ k _ _ 0 (by omega)

theorem runClusterCut_affected (cfg : Cfg) (o : Opts) (cut : ClusterId → Option Nat)
    (g : ClusterId × List Uuid) (h : affected cfg o cut g = true) :
    (runClusterCut cfg o g.1 g.2 (cut g.1)).stop = .failed 502 := by
  unfold affected at h
  unfold runClusterCut runCluster at *
  cases hb : backendFor cfg g.1 with
  | none =>
    rw [hb] at h
    cases hc : cut g.1 with
    | none => rw [hc] at h; cases h
    | some k => rw [hc] at h; simp at h
  | some B =>
    rw [hb] at h
    simp only at h ⊢
    cases hc : cut g.1 with
    | none => rw [hc] at h; cases h
    | some k =>
      rw [hc] at h
      simp only [decide_eq_true_eq] at h
      exact loop_cut_fails B _ k _ _ 0 (Nat.le_refl _) (Nat.zero_le _) (by omega)

end ArvVerif.C20
