/-
C09 helper lemmas, part 5: tokens. Decimal printing is read back by the grammar's number reader, an
escaped name holds no delimiter, control byte or raw colon and is read back as the name, and the file
token `%d:%d:%s` of a part parses to that part.
-/
import ArvVerif.Proofs.C10_FsText
import ArvVerif.Model.C09_Spec
namespace ArvVerif.C09

open ArvVerif.C10 (bSpace bNL bSlash bColon bPlus bBackslash bDot isDigit isOctDigit natToDec natOfDigits
  splitOn joinWith fsEscape fsEscapePred escapeWith octDigits specUnescape tokenBytesOk)

/-! ### decimal numbers -/

theorem digitByte (d : Nat) (h : d < 10) : UInt8.ofNat (Nat.digitChar d).toNat = UInt8.ofNat (48 + d) := by
  have : d = 0 ∨ d = 1 ∨ d = 2 ∨ d = 3 ∨ d = 4 ∨ d = 5 ∨ d = 6 ∨ d = 7 ∨ d = 8 ∨ d = 9 := by omega
  rcases this with rfl | rfl | rfl | rfl | rfl | rfl | rfl | rfl | rfl | rfl <;> rfl

theorem digitByte_isDigit (d : Nat) (h : d < 10) : isDigit (UInt8.ofNat (48 + d)) = true := by
  have : d = 0 ∨ d = 1 ∨ d = 2 ∨ d = 3 ∨ d = 4 ∨ d = 5 ∨ d = 6 ∨ d = 7 ∨ d = 8 ∨ d = 9 := by omega
  rcases this with rfl | rfl | rfl | rfl | rfl | rfl | rfl | rfl | rfl | rfl <;> decide

theorem digitByte_val (d : Nat) (h : d < 10) : (UInt8.ofNat (48 + d)).toNat - 48 = d := by
  have : d = 0 ∨ d = 1 ∨ d = 2 ∨ d = 3 ∨ d = 4 ∨ d = 5 ∨ d = 6 ∨ d = 7 ∨ d = 8 ∨ d = 9 := by omega
  rcases this with rfl | rfl | rfl | rfl | rfl | rfl | rfl | rfl | rfl | rfl <;> rfl

theorem natToDec_eq_if (n : Nat) :
    natToDec n = if n < 10 then [UInt8.ofNat (48 + n)] else natToDec (n / 10) ++ [UInt8.ofNat (48 + n % 10)] := by
  unfold natToDec
  rw [Nat.toDigits_eq_if (by decide)]
  split
  · next h => simp [digitByte n h]
  · simp [digitByte (n % 10) (Nat.mod_lt _ (by decide))]

theorem natToDec_digits (n : Nat) : (natToDec n).all isDigit = true := by
  induction n using Nat.strongRecOn with
  | _ n ih =>
    rw [natToDec_eq_if]
    split
    · next h =>
      simp only [List.all_cons, List.all_nil, Bool.and_true]
      exact digitByte_isDigit n h
    · rw [List.all_append, ih (n / 10) (by omega)]
      simp only [List.all_cons, List.all_nil, Bool.and_true, Bool.true_and]
      exact digitByte_isDigit (n % 10) (Nat.mod_lt _ (by decide))

theorem natToDec_ne_nil (n : Nat) : natToDec n ≠ [] := by
  rw [natToDec_eq_if]; split <;> simp

theorem natOfDigits_snoc (a : Bytes) (c : UInt8) : natOfDigits (a ++ [c]) = natOfDigits a * 10 + (c.toNat - 48) := by
  simp [natOfDigits, List.foldl_append]

theorem natOfDigits_natToDec (n : Nat) : natOfDigits (natToDec n) = n := by
  induction n using Nat.strongRecOn with
  | _ n ih =>
    rw [natToDec_eq_if]
    split
    · next h =>
      have := natOfDigits_snoc [] (UInt8.ofNat (48 + n))
      simp only [List.nil_append] at this
      rw [this, digitByte_val n h]; simp [natOfDigits]
    · rw [natOfDigits_snoc, ih (n / 10) (by omega), digitByte_val _ (Nat.mod_lt _ (by decide))]
      omega

theorem takeWhile_stop (p : UInt8 → Bool) : ∀ (a : Bytes) (c : UInt8) (r : Bytes), a.all p = true → p c = false →
    (a ++ c :: r).takeWhile p = a ∧ (a ++ c :: r).dropWhile p = c :: r
  | [], c, r, _, hc => by simp [hc]
  | x :: a, c, r, ha, hc => by
    simp only [List.all_cons, Bool.and_eq_true] at ha
    obtain ⟨i1, i2⟩ := takeWhile_stop p a c r ha.2 hc
    simp [ha.1, i1, i2]

/-! ### escaped names -/

theorem escapeWith_mem (p : UInt8 → Bool) : ∀ (s : Bytes) (x : UInt8), x ∈ escapeWith p s →
    x = bBackslash ∨ isOctDigit x = true ∨ (x ∈ s ∧ p x = false)
  | [], x, h => by simp [escapeWith] at h
  | c :: rest, x, h => by
    unfold escapeWith at h
    by_cases hc : p c = true
    · rw [if_pos hc] at h
      obtain ⟨a, b, d, hoct, ha, hb, hd, _⟩ := C10.octDigits_spec c
      rw [hoct] at h
      simp only [List.cons_append, List.nil_append, List.mem_cons] at h
      rcases h with rfl | rfl | rfl | rfl | h
      · exact Or.inl rfl
      · exact Or.inr (Or.inl ha)
      · exact Or.inr (Or.inl hb)
      · exact Or.inr (Or.inl hd)
      · rcases escapeWith_mem p rest x h with h' | h' | ⟨h', h''⟩
        · exact Or.inl h'
        · exact Or.inr (Or.inl h')
        · exact Or.inr (Or.inr ⟨List.mem_cons_of_mem _ h', h''⟩)
    · rw [if_neg hc] at h
      rcases List.mem_cons.mp h with rfl | h
      · exact Or.inr (Or.inr ⟨List.mem_cons_self, by simpa using hc⟩)
      · rcases escapeWith_mem p rest x h with h' | h' | ⟨h', h''⟩
        · exact Or.inl h'
        · exact Or.inr (Or.inl h')
        · exact Or.inr (Or.inr ⟨List.mem_cons_of_mem _ h', h''⟩)

theorem escapeWith_ne_nil (p : UInt8 → Bool) (s : Bytes) (h : s ≠ []) : escapeWith p s ≠ [] := by
  cases s with
  | nil => exact absurd rfl h
  | cons c rest => unfold escapeWith; split <;> simp

/-- a name without DEL: its escaped form is a legal token and holds no raw colon -/
theorem fsEscape_token (s : Bytes) (hne : s ≠ []) (hdel : (127 : UInt8) ∉ s) :
    tokenBytesOk (fsEscape s) = true ∧ bColon ∉ fsEscape s ∧ bSpace ∉ fsEscape s ∧ bNL ∉ fsEscape s := by
  have hall : ∀ x ∈ fsEscape s, 32 < x ∧ x ≠ 127 ∧ x ≠ bColon := by
    intro x hx
    have h32 : 32 < x := C10.escapeWith_no_delim fsEscapePred (fun c hc => by simp [fsEscapePred, hc]) s x hx
    refine ⟨h32, ?_, ?_⟩
    · rcases escapeWith_mem _ s x hx with rfl | h | ⟨h, _⟩
      · decide
      · intro h127; subst h127; revert h; decide
      · intro h127; subst h127; exact hdel h
    · rcases escapeWith_mem _ s x hx with rfl | h | ⟨_, h⟩
      · decide
      · intro hc; subst hc; revert h; decide
      · intro hc; subst hc; revert h; decide
  refine ⟨?_, fun h => (hall _ h).2.2 rfl, fun h => ?_, fun h => ?_⟩
  · unfold tokenBytesOk
    simp only [Bool.and_eq_true, bne_iff_ne, ne_eq, List.all_eq_true, decide_eq_true_eq]
    refine ⟨escapeWith_ne_nil fsEscapePred s hne, fun x hx => ⟨?_, (hall x hx).2.1⟩⟩
    have h' := UInt8.lt_iff_toNat_lt.mp (hall x hx).1
    exact UInt8.le_iff_toNat_le.mpr (by simp at h' ⊢; omega)
  · have := (hall _ h).1; revert this; decide
  · have := (hall _ h).1; revert this; decide

/-! ### file tokens -/

/-- a proper name: what `newNode` / `permittedName` accept, as one path component -/
def NameOK (n : Bytes) : Prop := n ≠ [] ∧ n ≠ [bDot] ∧ n ≠ [bDot, bDot] ∧ bSlash ∉ n

theorem colon_not_digit' : isDigit bColon = false := by decide

theorem specFileTok_tokText (p : Part) (hn : NameOK p.name) :
    C10.specFileTok (tokText p) = some ⟨p.off, p.len, p.name⟩ := by
  obtain ⟨hne, hd1, hd2, hsl⟩ := hn
  unfold tokText C10.specFileTok
  obtain ⟨t1, d1⟩ := takeWhile_stop isDigit (natToDec p.off) bColon
    (natToDec p.len ++ bColon :: fsEscape p.name) (natToDec_digits _) colon_not_digit'
  obtain ⟨t2, d2⟩ := takeWhile_stop isDigit (natToDec p.len) bColon (fsEscape p.name) (natToDec_digits _) colon_not_digit'
  simp only [t1, d1]
  rw [if_pos ⟨by simp, natToDec_ne_nil _⟩]
  simp only [t2, d2]
  rw [if_pos ⟨by simp, natToDec_ne_nil _, escapeWith_ne_nil _ _ hne⟩]
  have hu : specUnescape (fsEscape p.name) = some p.name := C10.specUnescape_escapeWith _ (by decide) _
  rw [hu]
  simp only []
  have hok : C10.specFileNameOk p.name = true := by
    unfold C10.specFileNameOk
    rw [C10.splitOn_of_no_sep bSlash p.name hsl]
    simp [C10.componentsOk, hne, hd1, hd2]
  rw [if_pos hok, natOfDigits_natToDec, natOfDigits_natToDec]

theorem tokText_token (p : Part) (hn : NameOK p.name) (hdel : (127 : UInt8) ∉ p.name) :
    tokenBytesOk (tokText p) = true ∧ bSpace ∉ tokText p ∧ bNL ∉ tokText p := by
  obtain ⟨e1, _, e3, e4⟩ := fsEscape_token p.name hn.1 hdel
  have hdig : ∀ n, ∀ x ∈ natToDec n, 33 ≤ x ∧ x ≠ 127 ∧ x ≠ bSpace ∧ x ≠ bNL := by
    intro n x hx
    have := List.all_eq_true.mp (natToDec_digits n) x hx
    simp only [isDigit, Bool.and_eq_true, decide_eq_true_eq] at this
    have h1 := UInt8.le_iff_toNat_le.mp this.1
    have h2 := UInt8.le_iff_toNat_le.mp this.2
    simp at h1 h2
    refine ⟨UInt8.le_iff_toNat_le.mpr (by simp; omega), ?_, ?_, ?_⟩ <;>
      (intro hh; subst hh; simp [bSpace, bNL] at h1 h2 <;> omega)
  unfold tokenBytesOk at e1
  simp only [Bool.and_eq_true, bne_iff_ne, ne_eq, List.all_eq_true, decide_eq_true_eq] at e1
  unfold tokText
  refine ⟨?_, ?_, ?_⟩
  · unfold tokenBytesOk
    simp only [Bool.and_eq_true, bne_iff_ne, ne_eq, List.all_eq_true, decide_eq_true_eq]
    refine ⟨by simp, ?_⟩
    intro x hx
    simp only [List.mem_append, List.mem_cons] at hx
    rcases hx with hx | rfl | hx | rfl | hx
    · exact ⟨(hdig _ x hx).1, (hdig _ x hx).2.1⟩
    · decide
    · exact ⟨(hdig _ x hx).1, (hdig _ x hx).2.1⟩
    · decide
    · exact e1.2 x hx
  · intro hx
    simp only [List.mem_append, List.mem_cons] at hx
    rcases hx with hx | hx | hx | hx | hx
    · exact (hdig _ _ hx).2.2.1 rfl
    · revert hx; decide
    · exact (hdig _ _ hx).2.2.1 rfl
    · revert hx; decide
    · exact e3 hx
  · intro hx
    simp only [List.mem_append, List.mem_cons] at hx
    rcases hx with hx | hx | hx | hx | hx
    · exact (hdig _ _ hx).2.2.2 rfl
    · revert hx; decide
    · exact (hdig _ _ hx).2.2.2 rfl
    · revert hx; decide
    · exact e4 hx

end ArvVerif.C09
