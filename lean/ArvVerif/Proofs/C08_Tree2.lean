/-
C08 treeness, part 2: `DirsOK` is preserved by adding a directory and by re-parenting a directory
under a directory that is not one of its descendants (Rename).
-/
import ArvVerif.Proofs.C08_Tree1
namespace ArvVerif.C08

theorem parentOf_lt {dirs : List (String × Nat)} {k : Nat} {nm : String} {p : Nat}
    (h : dirs[k]? = some (nm, p)) : parentOf dirs k = p := by
  simp [parentOf, h]

theorem parentOf_append_old (dirs : List (String × Nat)) (x : String × Nat) {k : Nat} (hk : k < dirs.length) :
    parentOf (dirs ++ [x]) k = parentOf dirs k := by
  simp only [parentOf, List.getElem?_append_left hk]

theorem parentOf_append_new (dirs : List (String × Nat)) (nm : String) (d : Nat) :
    parentOf (dirs ++ [(nm, d)]) dirs.length = d := by
  simp [parentOf]

/-- adding a directory below an existing one -/
theorem DirsOK.append {dirs : List (String × Nat)} (h : DirsOK dirs) (nm : String) {d : Nat} (hd : d < dirs.length) :
    DirsOK (dirs ++ [(nm, d)]) := by
  have hup : ∀ n k, k < dirs.length → up (dirs ++ [(nm, d)]) k n = up dirs k n := by
    intro n
    induction n with
    | zero => intro k _; rfl
    | succ n ih =>
      intro k hk
      simp only [up, parentOf_append_old dirs _ hk]
      exact ih _ (h.closed k hk)
  refine ⟨by simp, ?_, ?_, ?_⟩
  · rw [parentOf_append_old dirs _ h.nonempty]; exact h.root
  · intro k hk
    simp only [List.length_append, List.length_cons, List.length_nil] at hk ⊢
    by_cases hlt : k < dirs.length
    · rw [parentOf_append_old dirs _ hlt]; have := h.closed k hlt; omega
    · have : k = dirs.length := by omega
      subst this
      rw [parentOf_append_new]; omega
  · intro k hk
    simp only [List.length_append, List.length_cons, List.length_nil] at hk ⊢
    by_cases hlt : k < dirs.length
    · rw [hup _ k hlt, up_add, h.reach k hlt]; exact up_root h.root _
    · have : k = dirs.length := by omega
      subst this
      simp only [up, parentOf_append_new]
      rw [hup _ d hd]; exact h.reach d hd

theorem parentOf_set (dirs : List (String × Nat)) (k : Nat) (nm : String) (nd j : Nat) (hk : k < dirs.length) :
    parentOf (dirs.set k (nm, nd)) j = if j = k then nd else parentOf dirs j := by
  simp only [parentOf, List.getElem?_set]
  by_cases hj : j = k
  · subst hj; simp [hk]
  · rw [if_neg (fun h => hj h.symm), if_neg hj]

/-- re-parenting directory `k` under `nd`, where `k` is not an ancestor-or-self of `nd` -/
theorem DirsOK.reparent {dirs : List (String × Nat)} (h : DirsOK dirs) (nm : String) {k nd : Nat}
    (hk : k < dirs.length) (hnd : nd < dirs.length) (hav : ∀ i, up dirs nd i ≠ k) :
    DirsOK (dirs.set k (nm, nd)) := by
  have hk0 : k ≠ 0 := by
    intro hz
    exact hav dirs.length (by rw [h.reach nd hnd, hz])
  have hpar := parentOf_set dirs k nm nd
  -- chains that avoid k are unchanged
  have hsame : ∀ i x, (∀ t, up dirs x t ≠ k) → up (dirs.set k (nm, nd)) x i = up dirs x i := by
    intro i
    induction i with
    | zero => intro x _; rfl
    | succ i ih =>
      intro x hx
      have hxk : x ≠ k := hx 0
      simp only [up, hpar x hk, if_neg hxk]
      exact ih _ (fun t => hx (t + 1))
  have hndz : up (dirs.set k (nm, nd)) nd dirs.length = 0 := by rw [hsame _ nd hav]; exact h.reach nd hnd
  -- every chain still reaches the root
  have hex : ∀ n x, up dirs x n = 0 → ∃ n', up (dirs.set k (nm, nd)) x n' = 0 := by
    intro n
    induction n with
    | zero => intro x hx; exact ⟨0, hx⟩
    | succ n ih =>
      intro x hx
      by_cases hxk : x = k
      · refine ⟨dirs.length + 1, ?_⟩
        simp only [up, hpar x hk, if_pos hxk]
        exact hndz
      · obtain ⟨n', hn'⟩ := ih (parentOf dirs x) hx
        refine ⟨n' + 1, ?_⟩
        simp only [up, hpar x hk, if_neg hxk]
        exact hn'
  have hroot : parentOf (dirs.set k (nm, nd)) 0 = 0 := by
    rw [hpar 0 hk, if_neg (fun e => hk0 e.symm)]; exact h.root
  have hclosed : ∀ j, j < (dirs.set k (nm, nd)).length → parentOf (dirs.set k (nm, nd)) j < (dirs.set k (nm, nd)).length := by
    intro j hj
    simp only [List.length_set] at hj ⊢
    rw [hpar j hk]
    split
    · exact hnd
    · exact h.closed j hj
  refine ⟨by simp only [List.length_set]; exact h.nonempty, hroot, hclosed, ?_⟩
  intro j hj
  have hj' : j < dirs.length := by simpa using hj
  exact up_within hroot hclosed hj (hex dirs.length j (h.reach j hj'))

theorem DirsOK.init : DirsOK [(".", 0)] := by
  refine ⟨by simp, rfl, ?_, ?_⟩
  · intro k hk
    have : k = 0 := by simpa using hk
    subst this; simp [parentOf]
  · intro k hk
    have : k = 0 := by simpa using hk
    subst this; simp [up, parentOf]

end ArvVerif.C08
