/-
C17 — what the tree loaded from the manifest fragments can contain: every entry lies on the path
of some fragment (`loadFrags_cover`), and a fragment's path lies at or below the output path it
was extracted for (`fragOf_prefix`, `belowFrags_prefix`).
-/
import ArvVerif.Proofs.C17_Det
set_option linter.unusedSimpArgs false
namespace ArvVerif.C17

/-- every non-root entry of `t` lies on the path of a fragment in `S`; a file is a file fragment -/
def Covered (S : List Frag) (t : Tree) : Prop :=
  ∀ p e, t.get p = some e → p ≠ [] →
    ∃ f ∈ S, p.isPrefixOf f.1 = true ∧ (∀ c, e = .file c → p = f.1 ∧ f.2.isSome = true)

theorem Covered.mono {S S' : List Frag} {t : Tree} (hc : Covered S t) (hs : ∀ f ∈ S, f ∈ S') : Covered S' t := by
  intro p e hg hp
  obtain ⟨f, hf, h1, h2⟩ := hc p e hg hp
  exact ⟨f, hs f hf, h1, h2⟩

/-- `mkParents` only adds directories along `pre ++ cs` -/
theorem mkParents_get : ∀ (cs : List Name) (t t' : Tree) (pre : Path), mkParents t pre cs = some t' →
    ∀ p e, t'.get p = some e → t.get p = some e ∨ (e = .dir ∧ p.isPrefixOf (pre ++ cs) = true) := by
  intro cs
  induction cs with
  | nil => intro t t' pre hm p e hg; simp [mkParents] at hm; subst hm; exact Or.inl hg
  | cons c rest ih =>
    intro t t' pre hm p e hg
    simp only [mkParents] at hm
    cases hgc : t.get (pre ++ [c]) with
    | none =>
      rw [hgc] at hm
      rcases ih _ t' (pre ++ [c]) hm p e hg with h1 | ⟨h1, h2⟩
      · rw [Tree.get_set t (pre ++ [c]) p .dir (by simp)] at h1
        split at h1
        · rename_i hp
          right
          simp only [Option.some.injEq] at h1
          refine ⟨h1.symm, ?_⟩
          rw [hp, List.isPrefixOf_iff_prefix]
          exact ⟨rest, by simp⟩
        · exact Or.inl h1
      · exact Or.inr ⟨h1, by simpa [List.append_assoc] using h2⟩
    | some ent =>
      rw [hgc] at hm
      cases ent with
      | dir =>
        simp only at hm
        rcases ih _ t' (pre ++ [c]) hm p e hg with h1 | ⟨h1, h2⟩
        · exact Or.inl h1
        · exact Or.inr ⟨h1, by simpa [List.append_assoc] using h2⟩
      | file _ => simp at hm

theorem addFrag_cover (S : List Frag) (t t' : Tree) (f : Frag) (hc : Covered S t) (ha : addFrag t f = some t') :
    Covered (S ++ [f]) t' := by
  intro p e hg hp
  unfold addFrag at ha
  cases hf2 : f.2 with
  | none =>
    rw [hf2] at ha
    simp only at ha
    rcases mkParents_get f.1 t t' [] ha p e hg with h1 | ⟨h1, h2⟩
    · obtain ⟨g, hgm, h3, h4⟩ := hc p e h1 hp
      exact ⟨g, List.mem_append_left _ hgm, h3, h4⟩
    · refine ⟨f, by simp, by simpa using h2, ?_⟩
      intro c hc'; rw [h1] at hc'; cases hc'
  | some content =>
    rw [hf2] at ha
    simp only at ha
    cases hm : mkParents t [] f.1.dropLast with
    | none => rw [hm] at ha; simp at ha
    | some t1 =>
      rw [hm] at ha
      simp only [Option.bind] at ha
      -- entries of t1
      have ht1 : ∀ q e', t1.get q = some e' → q ≠ [] →
          ∃ g ∈ S ++ [f], q.isPrefixOf g.1 = true ∧ (∀ c, e' = .file c → q = g.1 ∧ g.2.isSome = true) := by
        intro q e' hq hqne
        rcases mkParents_get f.1.dropLast t t1 [] hm q e' hq with h1 | ⟨h1, h2⟩
        · obtain ⟨g, hgm, h3, h4⟩ := hc q e' h1 hqne
          exact ⟨g, List.mem_append_left _ hgm, h3, h4⟩
        · refine ⟨f, by simp, ?_, ?_⟩
          · have h2' : q.isPrefixOf f.1.dropLast = true := by simpa using h2
            rw [List.isPrefixOf_iff_prefix] at h2' ⊢
            exact h2'.trans (List.dropLast_prefix f.1)
          · intro c hc'; rw [h1] at hc'; cases hc'
      by_cases hne : f.1 = []
      · -- a file fragment at the root cannot be stored: the root is a directory
        rw [hne] at ha
        simp [Tree.get] at ha
      · have hset : ∀ ent, t' = t1.set f.1 ent →
            ∃ g ∈ S ++ [f], p.isPrefixOf g.1 = true ∧ (∀ c, e = .file c → p = g.1 ∧ g.2.isSome = true) := by
          intro ent ht'
          rw [ht', Tree.get_set t1 f.1 p ent hne] at hg
          split at hg
          · rename_i hpf
            refine ⟨f, by simp, by rw [hpf]; simp [List.isPrefixOf_iff_prefix], ?_⟩
            intro c _; exact ⟨hpf, by rw [hf2]; rfl⟩
          · exact ht1 p e hg hp
        cases hgf : t1.get f.1 with
        | none =>
          rw [hgf] at ha
          simp only [Option.some.injEq] at ha
          exact hset _ ha.symm
        | some ent =>
          rw [hgf] at ha
          cases ent with
          | file old =>
            simp only [Option.some.injEq] at ha
            exact hset _ ha.symm
          | dir => simp at ha

theorem loadFrags_cover_aux : ∀ (fs : List Frag) (S : List Frag) (t t' : Tree), Covered S t →
    loadFrags t fs = some t' → Covered (S ++ fs) t' := by
  intro fs
  induction fs with
  | nil => intro S t t' hc hl; simp [loadFrags] at hl; subst hl; simpa using hc
  | cons f fs ih =>
    intro S t t' hc hl
    simp only [loadFrags] at hl
    cases ha : addFrag t f with
    | none => rw [ha] at hl; simp at hl
    | some t1 =>
      rw [ha] at hl
      simp only [Option.bind] at hl
      have := ih (S ++ [f]) t1 t' (addFrag_cover S t t1 f hc ha) hl
      simpa [List.append_assoc] using this

/-- every entry of the loaded tree lies on the path of a fragment -/
theorem loadFrags_cover (fs : List Frag) (t0 : Tree) (hl : loadFrags [] fs = some t0) : Covered fs t0 := by
  have := loadFrags_cover_aux fs [] [] t0 (by
    intro p e hg hp
    simp [Tree.get, hp] at hg) hl
  simpa using this

/-! ### where fragments are placed -/

theorem extract_prefix (c : Coll) (rel dest : Path) (f : Frag) (hf : f ∈ extract c rel dest) :
    dest.isPrefixOf f.1 = true := by
  unfold extract at hf
  split at hf
  · cases hf
  · split at hf
    · simp only [List.mem_singleton] at hf
      rw [hf]
      split
      · rename_i hd; rw [hd]; simp [List.isPrefixOf_iff_prefix]
      · simp [List.isPrefixOf_iff_prefix]
    · simp only [List.mem_map, List.mem_filter] at hf
      obtain ⟨e, _, he⟩ := hf
      rw [← he]
      split
      · simp [List.isPrefixOf_iff_prefix]
      · rw [List.isPrefixOf_iff_prefix, List.append_assoc]; exact List.prefix_append _ _

theorem fragOf_prefix (cfg : Cfg) (d x : Path) (f : Frag) (hf : f ∈ fragOf cfg d x) : d.isPrefixOf f.1 = true := by
  unfold fragOf at hf
  split at hf
  · cases hf
  · split at hf
    · cases hf
    · split at hf
      · cases hf
      · split at hf
        · cases hf
        · split at hf
          · cases hf
          · split at hf
            · split at hf
              · cases hf
              · exact extract_prefix _ _ _ _ hf
            · cases hf

/-- a non-empty `fragOf` means `x` lies in a read-only collection mount, not in the output directory -/
theorem fragOf_not_inOut (cfg : Cfg) (d x : Path) (f : Frag) (hf : f ∈ fragOf cfg d x) : ¬ InOut cfg x := by
  intro ⟨_, m, hsm, hk, _⟩
  unfold fragOf at hf
  split at hf
  · cases hf
  · rw [hsm] at hf
    simp only [hk, if_true] at hf
    split at hf <;> cases hf

theorem belowFrags_prefix (cfg : Cfg) (d x : Path) (f : Frag) (hf : f ∈ belowFrags cfg d x) :
    ∃ e ∈ cfg.mounts, x.isPrefixOf e.1 = true ∧ x.length < e.1.length ∧ copyRegular e.2 = false ∧
      (d ++ e.1.drop x.length).isPrefixOf f.1 = true := by
  unfold belowFrags at hf
  rw [List.mem_flatMap] at hf
  obtain ⟨e, he, hfe⟩ := hf
  split at hfe
  · rename_i hc
    exact ⟨e, he, hc.1, hc.2.1, by simpa using hc.2.2, fragOf_prefix cfg _ _ f hfe⟩
  · cases hfe

end ArvVerif.C17
