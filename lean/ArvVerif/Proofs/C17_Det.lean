/-
C17 — determinism of the specification per output path. What `Shows` derives for one output path
`d` is a single chain of links: an entry point (the output directory for the root, `s0/c` for the
entry `c` of the one directory `s0` shown at the parent path) followed by link steps. Consequences:
at most one non-link node is shown at `d` (`shows_terminal_unique`), every proper prefix of a shown
path shows a directory (`shows_prefix_dir`), and if the chain at `d` ends in a link that is not
followed, nothing but links is shown at `d` (`shows_all_links`).
-/
import ArvVerif.Proofs.C17_Frags
namespace ArvVerif.C17

/-- `b` is reached from `a` by following links the way `Shows.link` does -/
inductive Reach (h : Host) (cfg : Cfg) : Path → Path → Prop
  | refl (s : Path) : Reach h cfg s s
  | step {a b : Path} {ab : Bool} {t : Path} : Reach h cfg a b → nodeAt h cfg b = some (.link ab t) →
      InOut cfg (linkTarget b ab t) → Reach h cfg a (linkTarget b ab t)

theorem Reach.trans {h : Host} {cfg : Cfg} {a b c : Path} (h1 : Reach h cfg a b) (h2 : Reach h cfg b c) :
    Reach h cfg a c := by
  induction h2 with
  | refl => exact h1
  | step _ hn hi ih => exact Reach.step ih hn hi

/-- first step of a non-trivial chain -/
theorem Reach.head {h : Host} {cfg : Cfg} {b s : Path} (hr : Reach h cfg b s) :
    b = s ∨ ∃ ab t, nodeAt h cfg b = some (.link ab t) ∧ InOut cfg (linkTarget b ab t) ∧
      Reach h cfg (linkTarget b ab t) s := by
  induction hr with
  | refl => exact Or.inl rfl
  | step hr' hn hi ih =>
    rename_i b' ab t
    right
    rcases ih with rfl | ⟨ab', t', hn', hi', hr''⟩
    · exact ⟨ab, t, hn, hi, Reach.refl _⟩
    · exact ⟨ab', t', hn', hi', Reach.step hr'' hn hi⟩

theorem Reach.linear {h : Host} {cfg : Cfg} {e s1 s2 : Path} (h1 : Reach h cfg e s1) (h2 : Reach h cfg e s2) :
    Reach h cfg s1 s2 ∨ Reach h cfg s2 s1 := by
  induction h1 with
  | refl => exact Or.inl h2
  | step hr hn hi ih =>
    rename_i b ab t
    rcases ih with hb | hb
    · rcases hb.head with rfl | ⟨ab', t', hn', _, hr'⟩
      · exact Or.inr (Reach.step (Reach.refl _) hn hi)
      · rw [hn] at hn'
        simp only [Option.some.injEq, Node.link.injEq] at hn'
        obtain ⟨rfl, rfl⟩ := hn'
        exact Or.inl hr'
    · exact Or.inr (Reach.step hb hn hi)

/-- a node that is not a followed link ends the chain -/
theorem Reach.stuck {h : Host} {cfg : Cfg} {b s : Path} (hr : Reach h cfg b s)
    (hb : ∀ ab t, nodeAt h cfg b = some (.link ab t) → ¬ InOut cfg (linkTarget b ab t)) : s = b := by
  rcases hr.head with rfl | ⟨ab, t, hn, hi, _⟩
  · rfl
  · exact absurd hi (hb ab t hn)

/-- the entry point of the chain shown at an output path -/
def IsEntry (h : Host) (cfg : Cfg) (d e : Path) : Prop :=
  (d = [] ∧ e = cfg.ctrOut) ∨
  ∃ (d' s0 : Path) (c : Name), d = d' ++ [c] ∧ Shows h cfg d' s0 ∧ nodeAt h cfg s0 = some .dir ∧ e = s0 ++ [c] ∧
    (∃ n, nodeAt h cfg (s0 ++ [c]) = some n) ∧ (s0 ++ [c]) ∉ cfg.secrets ∧ skipMount cfg (s0 ++ [c]) = false

theorem shows_entry (h : Host) (cfg : Cfg) (d s : Path) (hs : Shows h cfg d s) :
    ∃ e, IsEntry h cfg d e ∧ Reach h cfg e s := by
  induction hs with
  | root => exact ⟨cfg.ctrOut, Or.inl ⟨rfl, rfl⟩, Reach.refl _⟩
  | child hsh hdir hex hsec hskip _ih =>
    rename_i d' s' c
    exact ⟨s' ++ [c], Or.inr ⟨d', s', c, rfl, hsh, hdir, rfl, hex, hsec, hskip⟩, Reach.refl _⟩
  | link _ hnode hin ih =>
    obtain ⟨e, he, hr⟩ := ih
    exact ⟨e, he, Reach.step hr hnode hin⟩

theorem shows_of_entry (h : Host) (cfg : Cfg) (d e s : Path) (he : IsEntry h cfg d e) (hr : Reach h cfg e s) :
    Shows h cfg d s := by
  induction hr with
  | refl =>
    rcases he with ⟨rfl, rfl⟩ | ⟨d', s0, c, rfl, hsh, hdir, rfl, hex, hsec, hskip⟩
    · exact Shows.root
    · exact Shows.child hsh hdir hex hsec hskip
  | step _ hn hi ih => exact Shows.link ih hn hi

def NonLink (h : Host) (cfg : Cfg) (s : Path) : Prop := ∀ ab t, nodeAt h cfg s ≠ some (.link ab t)

/-- entry points and non-link nodes are unique per output path -/
theorem shows_det (h : Host) (cfg : Cfg) : ∀ (k : Nat) (d : Path), d.length = k →
    (∀ e1 e2, IsEntry h cfg d e1 → IsEntry h cfg d e2 → e1 = e2) ∧
    (∀ s1 s2, Shows h cfg d s1 → Shows h cfg d s2 → NonLink h cfg s1 → NonLink h cfg s2 → s1 = s2) := by
  intro k
  induction k with
  | zero =>
    intro d hd
    have hd0 : d = [] := List.eq_nil_of_length_eq_zero hd
    subst hd0
    have hent : ∀ e1 e2, IsEntry h cfg [] e1 → IsEntry h cfg [] e2 → e1 = e2 := by
      intro e1 e2 h1 h2
      rcases h1 with ⟨_, rfl⟩ | ⟨d', s0, c, hd', _⟩
      · rcases h2 with ⟨_, rfl⟩ | ⟨d', s0, c, hd', _⟩
        · rfl
        · simp at hd'
      · simp at hd'
    refine ⟨hent, ?_⟩
    intro s1 s2 hs1 hs2 hn1 hn2
    obtain ⟨e1, he1, hr1⟩ := shows_entry h cfg _ _ hs1
    obtain ⟨e2, he2, hr2⟩ := shows_entry h cfg _ _ hs2
    have := hent e1 e2 he1 he2; subst this
    rcases hr1.linear hr2 with hr | hr
    · exact (hr.stuck (fun ab t hn => absurd hn (hn1 ab t))).symm
    · exact hr.stuck (fun ab t hn => absurd hn (hn2 ab t))
  | succ k ih =>
    intro d hd
    have hent : ∀ e1 e2, IsEntry h cfg d e1 → IsEntry h cfg d e2 → e1 = e2 := by
      intro e1 e2 h1 h2
      rcases h1 with ⟨rfl, _⟩ | ⟨d1, s1, c1, hd1, hsh1, hdir1, rfl, _⟩
      · simp at hd
      · rcases h2 with ⟨rfl, _⟩ | ⟨d2, s2, c2, hd2, hsh2, hdir2, rfl, _⟩
        · simp at hd
        · rw [hd1] at hd2
          have hdc := List.append_inj' hd2 rfl
          obtain ⟨rfl, hc⟩ := hdc
          simp only [List.cons.injEq, and_true] at hc
          subst hc
          have hlen : d1.length = k := by rw [hd1] at hd; simpa using hd
          have := (ih d1 hlen).2 s1 s2 hsh1 hsh2
            (fun ab t hn => by rw [hdir1] at hn; cases hn) (fun ab t hn => by rw [hdir2] at hn; cases hn)
          rw [this]
    refine ⟨hent, ?_⟩
    intro s1 s2 hs1 hs2 hn1 hn2
    obtain ⟨e1, he1, hr1⟩ := shows_entry h cfg _ _ hs1
    obtain ⟨e2, he2, hr2⟩ := shows_entry h cfg _ _ hs2
    have := hent e1 e2 he1 he2; subst this
    rcases hr1.linear hr2 with hr | hr
    · exact (hr.stuck (fun ab t hn => absurd hn (hn1 ab t))).symm
    · exact hr.stuck (fun ab t hn => absurd hn (hn2 ab t))

theorem shows_terminal_unique (h : Host) (cfg : Cfg) (d s1 s2 : Path) (hs1 : Shows h cfg d s1)
    (hs2 : Shows h cfg d s2) (hn1 : NonLink h cfg s1) (hn2 : NonLink h cfg s2) : s1 = s2 :=
  (shows_det h cfg d.length d rfl).2 s1 s2 hs1 hs2 hn1 hn2

theorem entry_unique (h : Host) (cfg : Cfg) (d e1 e2 : Path) (h1 : IsEntry h cfg d e1) (h2 : IsEntry h cfg d e2) :
    e1 = e2 := (shows_det h cfg d.length d rfl).1 e1 e2 h1 h2

/-- anything shown below `d` goes through a directory shown at `d` -/
theorem shows_prefix_dir (h : Host) (cfg : Cfg) (d : Path) : ∀ (k : Nat) (r : Path) (s : Path), r.length = k → r ≠ [] →
    Shows h cfg (d ++ r) s → ∃ s0, Shows h cfg d s0 ∧ nodeAt h cfg s0 = some .dir := by
  intro k
  induction k with
  | zero => intro r s hk hr; exact absurd (List.eq_nil_of_length_eq_zero hk) hr
  | succ k ih =>
    intro r s hk hr hs
    have hdec : r = r.dropLast ++ [r.getLast hr] := (List.dropLast_concat_getLast hr).symm
    obtain ⟨e, he, _⟩ := shows_entry h cfg _ _ hs
    rcases he with ⟨hd, _⟩ | ⟨d', s0, c', hd', hsh, hdir, _⟩
    · exact absurd (List.append_eq_nil_iff.mp hd).2 hr
    · rw [hdec, ← List.append_assoc] at hd'
      obtain ⟨hd1, _⟩ := List.append_inj' hd' rfl
      rw [← hd1] at hsh
      by_cases hr' : r.dropLast = []
      · rw [hr'] at hsh; exact ⟨s0, by simpa using hsh, hdir⟩
      · exact ih r.dropLast s0 (by simp; omega) hr' hsh

/-- if the chain at `d` ends in a link whose target is not followed, only links are shown at `d` -/
theorem shows_all_links (h : Host) (cfg : Cfg) (d s0 : Path) (ab : Bool) (t : Path) (hs0 : Shows h cfg d s0)
    (hn0 : nodeAt h cfg s0 = some (.link ab t)) (hno : ¬ InOut cfg (linkTarget s0 ab t))
    (s : Path) (hs : Shows h cfg d s) : ∃ ab' t', nodeAt h cfg s = some (.link ab' t') := by
  obtain ⟨e1, he1, hr1⟩ := shows_entry h cfg _ _ hs0
  obtain ⟨e2, he2, hr2⟩ := shows_entry h cfg _ _ hs
  have := entry_unique h cfg d e1 e2 he1 he2; subst this
  rcases hr1.linear hr2 with hr | hr
  · have : s = s0 := hr.stuck (fun ab' t' hn => by
      rw [hn0] at hn
      simp only [Option.some.injEq, Node.link.injEq] at hn
      obtain ⟨rfl, rfl⟩ := hn
      exact hno)
    rw [this]; exact ⟨ab, t, hn0⟩
  · rcases hr.head with rfl | ⟨ab', t', hn', _, _⟩
    · exact ⟨ab, t, hn0⟩
    · exact ⟨ab', t', hn'⟩

end ArvVerif.C17
