/-
The fault model without faults is the model of Model/C01.lean (so everything proved about `handlePut`
is about `handlePutF` on fault-free mounts, and the Lean driver can run `handlePutF` on every case).
-/
import ArvVerif.Proofs.C01_Fault
namespace ArvVerif.C01
set_option linter.unusedSectionVars false

section
variable {δ β : Type} [DecidableEq δ] [DecidableEq β]

def liftWR : WriteResult → WriteResultF
  | .ok => .ok
  | .readOnly => .readOnly
  | .full => .full

theorem volWriteF_calm (v : Vol δ β) (h : δ) (body : β) :
    volWriteF (FVol.calm v) h body = (liftWR (volWrite v h body).1, FVol.calm (volWrite v h body).2) := by
  unfold volWriteF volWrite
  by_cases h1 : v.ro = true
  · simp [FVol.calm, h1, liftWR]
  · by_cases h2 : v.full = true
    · simp [FVol.calm, h1, h2, liftWR]
    · simp [FVol.calm, h1, h2, liftWR]

theorem compareAndTouchF_calm (hash : β → δ) (size : β → Nat) (h : δ) (body : β) :
    ∀ (vols : List (Vol δ β)),
      compareAndTouchF hash size h body (vols.map FVol.calm) = compareAndTouch hash size h body vols := by
  intro vols
  induction vols with
  | nil => simp [compareAndTouchF, compareAndTouch]
  | cons v rest ih =>
    simp only [List.map_cons]
    unfold compareAndTouchF compareAndTouch
    rw [ih]
    have hv : (FVol.calm v).vol = v := rfl
    have ht : volTouchF (FVol.calm v) h = volTouch v := by simp [volTouchF, FVol.calm]
    rw [hv, ht]
    by_cases h1 : v.ro = true
    · simp [h1]
    · simp only [h1, if_false]
      cases volCompare hash size v h body <;> rfl

def liftLoop : PutLoopResult δ β → PutLoopResultF δ β
  | .ok r vs => .ok r (vs.map FVol.calm)
  | .allFull => .allFull
  | .failed => .failed

theorem putLoopF_calm (h : δ) (body : β) :
    ∀ (vols : List (Vol δ β)), putLoopF h body (vols.map FVol.calm) = liftLoop (putLoop h body vols) := by
  intro vols
  induction vols with
  | nil => simp [putLoopF, putLoop, liftLoop]
  | cons v rest ih =>
    simp only [List.map_cons]
    unfold putLoopF putLoop
    rw [ih, volWriteF_calm]
    have hv : (FVol.calm v).vol = v := rfl
    rw [hv]
    by_cases h1 : v.ro = true
    · simp only [h1, if_true]
      cases putLoop h body rest <;> simp [liftLoop]
    · have h1' : v.ro = false := by simpa using h1
      by_cases h2 : v.full = true
      · have hw : volWrite v h body = (.full, v) := by simp [volWrite, h1', h2]
        simp only [h1', Bool.false_eq_true, if_false, hw, liftWR]
        cases putLoop h body rest <;> simp [liftLoop]
      · have h2' : v.full = false := by simpa using h2
        have hw : volWrite v h body = (.ok, { v with files := update v.files h body }) := by
          simp [volWrite, h1', h2']
        simp only [h1', Bool.false_eq_true, if_false, hw, liftWR, liftLoop, List.map_cons]

theorem nthWritableF_calm :
    ∀ (vols : List (Vol δ β)) (k : Nat),
      nthWritableF (vols.map FVol.calm) k = (nthWritable vols k).map FVol.calm := by
  intro vols
  induction vols with
  | nil => intro k; simp [nthWritableF, nthWritable]
  | cons v rest ih =>
    intro k
    simp only [List.map_cons]
    unfold nthWritableF nthWritable
    have hv : (FVol.calm v).vol = v := rfl
    rw [hv]
    by_cases h1 : v.ro = true
    · simp only [h1, if_true]; exact ih k
    · simp only [h1, if_false]
      cases k with
      | zero => simp
      | succ k => simp only; exact ih k

theorem setNthWritableF_calm (v' : Vol δ β) :
    ∀ (vols : List (Vol δ β)) (k : Nat),
      setNthWritableF (FVol.calm v') (vols.map FVol.calm) k = (setNthWritable v' vols k).map FVol.calm := by
  intro vols
  induction vols with
  | nil => intro k; simp [setNthWritableF, setNthWritable]
  | cons v rest ih =>
    intro k
    simp only [List.map_cons]
    unfold setNthWritableF setNthWritable
    have hv : (FVol.calm v).vol = v := rfl
    rw [hv]
    by_cases h1 : v.ro = true
    · simp only [h1, if_true, List.map_cons]; rw [ih k]
    · have h1' : v.ro = false := by simpa using h1
      cases k with
      | zero => simp [h1']
      | succ k => simp [h1', ih k]

theorem writableCountF_calm (vols : List (Vol δ β)) :
    writableCountF (vols.map FVol.calm) = (allWritable vols).length := by
  unfold writableCountF allWritable
  induction vols with
  | nil => simp
  | cons v rest ih =>
    simp only [List.map_cons, List.filter_cons]
    have hv : (FVol.calm v).vol = v := rfl
    rw [hv]
    by_cases h1 : v.ro = true
    · simp [h1, ih]
    · simp [h1, ih]

/-- a `PutBlock` result over fault-free mounts, lifted -/
def liftRes (r : PutOutcome × List (Vol δ β) × Nat) : PutOutcome × List (FVol δ β) × Nat :=
  (r.1, r.2.1.map FVol.calm, r.2.2)

theorem putViaLoopF_calm (h : δ) (body : β) (vols : List (Vol δ β)) (c : Nat) :
    putViaLoopF h body (vols.map FVol.calm) c = liftRes (putViaLoop h body vols c) := by
  unfold putViaLoopF putViaLoop
  rw [writableCountF_calm, putLoopF_calm]
  by_cases hn : (allWritable vols).length = 0
  · simp [hn, liftRes]
  · simp only [hn, if_false]
    cases putLoop h body vols <;> simp [liftLoop, liftRes]

theorem putNewF_calm (h : δ) (body : β) (vols : List (Vol δ β)) (rr : Nat) :
    putNewF h body (vols.map FVol.calm) rr = liftRes (putNew h body vols rr) := by
  unfold putNewF putNew nextWritable
  rw [writableCountF_calm]
  by_cases hn : (allWritable vols).length = 0
  · simp only [hn, if_true]; exact putViaLoopF_calm h body vols rr
  · simp only [hn, if_false]
    rw [nthWritableF_calm]
    cases hnth : nthWritable vols ((rr + 1) % (allWritable vols).length) with
    | none => simp only [Option.map_none]; exact putViaLoopF_calm h body vols (rr + 1)
    | some v =>
      simp only [Option.map_some]
      rw [volWriteF_calm]
      rcases hw : volWrite v h body with ⟨wr, v'⟩
      cases wr with
      | ok =>
        simp only [liftWR]
        rw [setNthWritableF_calm]
        rfl
      | readOnly => simp only [liftWR]; exact putViaLoopF_calm h body vols (rr + 1)
      | full => simp only [liftWR]; exact putViaLoopF_calm h body vols (rr + 1)

theorem putBlockF_calm (hash : β → δ) (size : β → Nat) (vols : List (Vol δ β)) (rr : Nat) (h : δ) (body : β) :
    putBlockF hash size (vols.map FVol.calm) rr h body = liftRes (putBlock hash size vols rr h body) := by
  unfold putBlockF putBlock
  rw [compareAndTouchF_calm]
  by_cases hh : hash body = h
  · simp only [hh, ne_eq, not_true_eq_false, if_false]
    cases compareAndTouch hash size h body vols with
    | touched r => rfl
    | collision => rfl
    | miss => exact putNewF_calm h body vols rr
  · simp only [ne_eq, hh, not_false_eq_true, if_true]; rfl

end

end ArvVerif.C01
