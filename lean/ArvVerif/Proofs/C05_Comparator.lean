/-
C05 helper lemmas, part 10: the comparator balanceBlock hands to `sort.Slice` is a strict weak
order whenever `rendezvousLess` compares a weight of the device id (it compares MD5 digests).
-/
import ArvVerif.Proofs.C05_EnumComplete
namespace ArvVerif.C05

variable {α : Type}

/-- compare by a numeric key first, then by `next` -/
def lexBy (f : α → Nat) (next : α → α → Bool) (a b : α) : Bool :=
  if f a != f b then decide (f a < f b) else next a b

theorem strictWeak_key (f : α → Nat) : StrictWeak (fun a b => decide (f a < f b)) where
  irrefl := by intro a; simp
  trans := by intro a b c h1 h2; simp only [decide_eq_true_eq] at *; omega
  ntrans := by intro a b c h1 h2; simp only [decide_eq_false_iff_not] at *; omega

theorem lexBy_eq (f : α → Nat) (next : α → α → Bool) (a b : α) :
    lexBy f next a b = if f a = f b then next a b else decide (f a < f b) := by
  unfold lexBy
  by_cases h : f a = f b <;> simp [h]

theorem strictWeak_lexBy (f : α → Nat) {next : α → α → Bool} (h : StrictWeak next) : StrictWeak (lexBy f next) where
  irrefl := by intro a; rw [lexBy_eq, if_pos rfl]; exact h.irrefl a
  trans := by
    intro a b c h1 h2
    rw [lexBy_eq] at h1 h2 ⊢
    by_cases e1 : f a = f b <;> by_cases e2 : f b = f c
    · rw [if_pos e1] at h1; rw [if_pos e2] at h2; rw [if_pos (e1.trans e2)]
      exact h.trans a b c h1 h2
    · rw [if_pos e1] at h1; rw [if_neg e2] at h2
      have h2' : f b < f c := of_decide_eq_true h2
      have e3 : f a ≠ f c := by omega
      rw [if_neg e3]; exact decide_eq_true (by omega)
    · rw [if_neg e1] at h1; rw [if_pos e2] at h2
      have h1' : f a < f b := of_decide_eq_true h1
      have e3 : f a ≠ f c := by omega
      rw [if_neg e3]; exact decide_eq_true (by omega)
    · rw [if_neg e1] at h1; rw [if_neg e2] at h2
      have h1' : f a < f b := of_decide_eq_true h1
      have h2' : f b < f c := of_decide_eq_true h2
      have e3 : f a ≠ f c := by omega
      rw [if_neg e3]; exact decide_eq_true (by omega)
  ntrans := by
    intro a b c h1 h2
    rw [lexBy_eq] at h1 h2 ⊢
    by_cases e1 : f a = f b <;> by_cases e2 : f b = f c
    · rw [if_pos e1] at h1; rw [if_pos e2] at h2; rw [if_pos (e1.trans e2)]
      exact h.ntrans a b c h1 h2
    · rw [if_pos e1] at h1; rw [if_neg e2] at h2
      have h2' : ¬ f b < f c := of_decide_eq_false h2
      have e3 : f a ≠ f c := by omega
      rw [if_neg e3]; exact decide_eq_false (by omega)
    · rw [if_neg e1] at h1; rw [if_pos e2] at h2
      have h1' : ¬ f a < f b := of_decide_eq_false h1
      have e3 : f a ≠ f c := by omega
      rw [if_neg e3]; exact decide_eq_false (by omega)
    · rw [if_neg e1] at h1; rw [if_neg e2] at h2
      have h1' : ¬ f a < f b := of_decide_eq_false h1
      have h2' : ¬ f b < f c := of_decide_eq_false h2
      have e3 : f a ≠ f c := by omega
      rw [if_neg e3]; exact decide_eq_false (by omega)

def b01 (b : Bool) : Nat := if b then 0 else 1

theorem b01_ne (x y : Bool) : (b01 x != b01 y) = (x != y) := by cases x <;> cases y <;> rfl
theorem b01_lt (x y : Bool) (h : (x != y) = true) : decide (b01 x < b01 y) = x := by
  cases x <;> cases y <;> simp_all [b01]

/-- the comparator as a lexicographic order on (not in class, not wanted, rank, no replica, device weight) -/
theorem less_eq_lex (env : Env) (c : Class) (a b : Slot) :
    less env c a b =
      lexBy (fun s => b01 (inClass c s.mnt)) (lexBy (fun s => b01 s.want) (lexBy (fun s => env.rank s.mnt.srv)
        (lexBy (fun s => b01 s.repl.isSome) (fun x y => env.devLess x.mnt.dev y.mnt.dev)))) a b := by
  unfold less lexBy
  simp only [b01_ne]
  by_cases h1 : (inClass c a.mnt != inClass c b.mnt) = true
  · simp only [h1, if_true]; exact (b01_lt _ _ h1).symm
  · simp only [h1, Bool.false_eq_true, if_false]
    by_cases h2 : (a.want != b.want) = true
    · simp only [h2, if_true]; exact (b01_lt _ _ h2).symm
    · simp only [h2, Bool.false_eq_true, if_false]
      by_cases h3 : (env.rank a.mnt.srv != env.rank b.mnt.srv) = true
      · simp only [h3, if_true]
      · simp only [h3, Bool.false_eq_true, if_false]
        by_cases h4 : (a.repl.isSome != b.repl.isSome) = true
        · simp only [h4, if_true]; exact (b01_lt _ _ h4).symm
        · simp only [h4, Bool.false_eq_true, if_false]

/-- `rendezvousLess` compares a weight (the MD5 digest) of the device id -/
def DevLessByWeight (env : Env) : Prop := ∃ w : Dev → Nat, ∀ a b, env.devLess a b = decide (w a < w b)

theorem less_strictWeak (env : Env) (c : Class) (hw : DevLessByWeight env) : StrictWeak (less env c) := by
  obtain ⟨w, hw⟩ := hw
  have hbase : StrictWeak (fun (x y : Slot) => env.devLess x.mnt.dev y.mnt.dev) := by
    have := strictWeak_key (fun (s : Slot) => w s.mnt.dev)
    have e : (fun (x y : Slot) => env.devLess x.mnt.dev y.mnt.dev) = fun x y => decide (w x.mnt.dev < w y.mnt.dev) := by
      funext x y; exact hw _ _
    rw [e]; exact this
  have e : less env c = lexBy (fun s => b01 (inClass c s.mnt)) (lexBy (fun s => b01 s.want)
      (lexBy (fun s => env.rank s.mnt.srv) (lexBy (fun s => b01 s.repl.isSome)
        (fun x y => env.devLess x.mnt.dev y.mnt.dev)))) := by
    funext a b; exact less_eq_lex env c a b
  rw [e]
  exact strictWeak_lexBy _ (strictWeak_lexBy _ (strictWeak_lexBy _ (strictWeak_lexBy _ hbase)))

end ArvVerif.C05
