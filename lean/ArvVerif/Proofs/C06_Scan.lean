/-
C06(a) proofs about the executable scan (`scan` / `pageLoop` / `finalCheck`): completeness for every
environment function, and error propagation.
-/
import ArvVerif.Proofs.C06_Serve
namespace ArvVerif.C06

theorem finalCheck_st (env fail k s) : (finalCheck env fail k s).st = pushLog s (.reqCheck s.ftime) := by
  unfold finalCheck
  simp only
  split
  · rfl
  · split <;> rfl

theorem pageLoop_complete {P : List Nat} {limit : Nat} {env : Nat → List Coll} (fail : Nat → Bool)
    (cbFail : Option Nat) (hl : 0 < limit)
    (hnd : ∀ k, ((env k).map Coll.uuid).Nodup)
    (henv : ∀ k, Env P (env k) (env (k + 1))) :
    ∀ fuel k s, Reach P (env k) s → (pageLoop limit env fail cbFail fuel k s).out = .ok →
      ∀ u ∈ P, u ∈ (pageLoop limit env fail cbFail fuel k s).st.seen := by
  intro fuel
  induction fuel with
  | zero => intro k s _ h; simp [pageLoop] at h
  | succ n ih =>
    intro k s r h
    have r1 : Reach P (env k) (pushLog s (.reqPage s.filt)) := .log _ r
    have hp : PageOf (env k) (pushLog s (.reqPage s.filt)).filt limit
        (serve (env k) (pushLog s (.reqPage s.filt)).filt limit) := serve_pageOf _ _ _ hl (hnd k)
    unfold pageLoop at h ⊢
    simp only at h ⊢
    split at h
    · cases h
    · rename_i hf
      simp only [hf, Bool.false_eq_true, ↓reduceIte]
      cases hnx : next cbFail (pushLog s (.reqPage s.filt)) (serve (env k) (pushLog s (.reqPage s.filt)).filt limit) with
      | done s' =>
        simp only [hnx] at h ⊢
        rw [finalCheck_st]
        exact fun u hu => paging_complete r1 hp hnx u hu
      | bug s' => simp only [hnx] at h; cases h
      | cbErr s' => simp only [hnx] at h; cases h
      | cont s' =>
        simp only [hnx] at h ⊢
        exact ih (k + 1) s' (.env (.page r1 hp hnx) (henv k)) h

theorem scan_complete {P : List Nat} {limit : Nat} {env : Nat → List Coll} (fail : Nat → Bool)
    (cbFail : Option Nat) (fuel : Nat) (hl : 0 < limit)
    (hnd : ∀ k, ((env k).map Coll.uuid).Nodup)
    (hstart : ∀ u ∈ P, ∃ c ∈ env 0, c.uuid = u)
    (henv : ∀ k, Env P (env k) (env (k + 1)))
    (hok : (scan limit env fail cbFail fuel).out = .ok) :
    ∀ u ∈ P, u ∈ (scan limit env fail cbFail fuel).st.seen := by
  unfold scan at hok ⊢
  simp only at hok ⊢
  split at hok
  · cases hok
  · rename_i hf
    simp only [hf, Bool.false_eq_true, ↓reduceIte]
    exact pageLoop_complete fail cbFail hl hnd henv fuel 1 _ (.log _ (.env (.start _ hstart) (henv 0))) hok

/-! ### Error propagation -/

theorem finalCheck_ok {env fail k s} (h : (finalCheck env fail k s).out = .ok) :
    fail k = false ∧ (finalCheck env fail k s).nreq = k + 1 ∧
      ¬ (s.seen.length < countLE (env k) s.ftime) := by
  unfold finalCheck at h ⊢
  simp only at h ⊢
  split at h
  · cases h
  · rename_i hf
    split at h
    · cases h
    · rename_i hc
      simp only [hf, hc]
      simp [pushLog] at hc ⊢
      omega

/-- A scan that returns nil issued only requests that succeeded and only callbacks that returned
nil: requests `k … nreq-1` all succeeded and the failing callback invocation was never reached. -/
theorem pageLoop_ok {limit env fail cbFail} :
    ∀ fuel k s, (pageLoop limit env fail cbFail fuel k s).out = .ok →
      k < (pageLoop limit env fail cbFail fuel k s).nreq ∧
      (∀ j, k ≤ j → j < (pageLoop limit env fail cbFail fuel k s).nreq → fail j = false) ∧
      (∀ n, cbFail = some n → (pageLoop limit env fail cbFail fuel k s).st.seen.length ≤ n) := by
  intro fuel
  induction fuel with
  | zero => intro k s h; simp [pageLoop] at h
  | succ m ih =>
    intro k s h
    unfold pageLoop at h ⊢
    simp only at h ⊢
    split at h
    · cases h
    · rename_i hf
      simp only [hf, Bool.false_eq_true, ↓reduceIte]
      cases hnx : next cbFail (pushLog s (.reqPage s.filt)) (serve (env k) (pushLog s (.reqPage s.filt)).filt limit) with
      | done s' =>
        simp only [hnx] at h ⊢
        obtain ⟨h1, h2, _⟩ := finalCheck_ok h
        rw [h2, finalCheck_st]
        refine ⟨by omega, ?_, ?_⟩
        · intro j hj1 hj2
          have : j = k ∨ j = k + 1 := by omega
          rcases this with rfl | rfl
          · simpa using hf
          · exact h1
        · intro n hn
          subst hn
          unfold next at hnx
          simp only at hnx
          split at hnx
          · cases hnx
          · rename_i hlt
            have hs : s' = processPage (pushLog s (.reqPage s.filt)) (serve (env k) (pushLog s (.reqPage s.filt)).filt limit) := by
              unfold advance at hnx
              split at hnx
              · cases hnx; rfl
              · split at hnx
                · cases hnx
                · split at hnx
                  · cases hnx
                  · split at hnx
                    · cases hnx
                    · split at hnx <;> cases hnx
            simp only [pushLog]
            rw [hs]
            omega
      | bug s' => simp only [hnx] at h; cases h
      | cbErr s' => simp only [hnx] at h; cases h
      | cont s' =>
        simp only [hnx] at h ⊢
        obtain ⟨i1, i2, i3⟩ := ih (k + 1) s' h
        refine ⟨by omega, ?_, i3⟩
        intro j hj1 hj2
        by_cases hjk : j = k
        · subst hjk; simpa using hf
        · exact i2 j (by omega) hj2

theorem scan_ok {limit env fail cbFail fuel} (h : (scan limit env fail cbFail fuel).out = .ok) :
    (∀ j, j < (scan limit env fail cbFail fuel).nreq → fail j = false) ∧
    (∀ n, cbFail = some n → (scan limit env fail cbFail fuel).st.seen.length ≤ n) := by
  unfold scan at h ⊢
  simp only at h ⊢
  split at h
  · cases h
  · rename_i hf
    simp only [hf, Bool.false_eq_true, ↓reduceIte]
    obtain ⟨_, i2, i3⟩ := pageLoop_ok fuel 1 _ h
    refine ⟨?_, i3⟩
    intro j hj
    by_cases hj0 : j = 0
    · subst hj0; simpa using hf
    · exact i2 j (by omega) hj

end ArvVerif.C06
