/-
C13 helper lemmas, part 3: what C08's foreground code (`filenode.Write`, `filenode.truncate`) does to
the `flushing` fields. For a predicate `G buf flushing` that holds for nil, survives cutting the
buffer shorter, and holds for the marks `pruneSegs` sets: if it holds for every mem segment before
`write` / `truncate`, it holds afterwards. In words: a non-nil `flushing` value never travels to a
buffer with different bytes — a marked buffer can only get shorter (Truncate shrinks in place), every
other change (WriteAt, growing Truncate, Slice) resets the field to nil. This is the copy-on-write
rule of memSegment seen from the value model.
-/
import ArvVerif.Proofs.C13_Sim
namespace ArvVerif.C13
open ArvVerif.C08

/-- what `truncate` needs: nil is fine, cutting the buffer keeps the predicate -/
structure MarkPred0 (G : Bytes → Flush → Prop) : Prop where
  none : ∀ b, G b Flush.none
  take : ∀ b fl n, G b fl → G (b.take n) fl

/-- what `Write` needs in addition: the marks pruneMemSegments sets are fine -/
structure MarkPred (max : Nat) (G : Bytes → Flush → Prop) : Prop extends MarkPred0 G where
  fresh : ∀ b i, b.length ≤ max → G b (Flush.pending i b.length)

def AllG (G : Bytes → Flush → Prop) (segs : List Seg) : Prop := ∀ b fl, Seg.mem b fl ∈ segs → G b fl

variable {max : Nat} {hash : Bytes → Loc} {G : Bytes → Flush → Prop}

theorem AllG.nil : AllG G [] := fun _ _ h => by cases h

theorem AllG.append {a b : List Seg} (h1 : AllG G a) (h2 : AllG G b) : AllG G (a ++ b) := by
  intro x fl hm
  rcases List.mem_append.mp hm with h | h
  · exact h1 x fl h
  · exact h2 x fl h

theorem AllG.cons {s : Seg} {l : List Seg} (h1 : AllG G [s]) (h2 : AllG G l) : AllG G (s :: l) :=
  AllG.append h1 h2

theorem AllG.sub {a b : List Seg} (h : AllG G a) (hs : ∀ x ∈ b, x ∈ a) : AllG G b :=
  fun x fl hm => h x fl (hs _ hm)

theorem AllG.take {a : List Seg} (h : AllG G a) (n : Nat) : AllG G (a.take n) :=
  h.sub (fun _ hx => List.mem_of_mem_take hx)

theorem AllG.drop {a : List Seg} (h : AllG G a) (n : Nat) : AllG G (a.drop n) :=
  h.sub (fun _ hx => List.mem_of_mem_drop hx)

theorem AllG.dropLast {a : List Seg} (h : AllG G a) : AllG G a.dropLast :=
  h.sub (fun _ hx => (List.dropLast_sublist a).subset hx)

theorem AllG.set {a : List Seg} {s : Seg} (h : AllG G a) (hs : AllG G [s]) (i : Nat) : AllG G (a.set i s) := by
  intro x fl hm
  rcases List.mem_or_eq_of_mem_set hm with h1 | h1
  · exact h x fl h1
  · exact hs x fl (by rw [h1]; exact List.mem_singleton.mpr rfl)

theorem AllG.get {a : List Seg} (h : AllG G a) {i : Nat} {b : Bytes} {fl : Flush} (hi : a[i]? = some (Seg.mem b fl)) :
    G b fl := h b fl (List.mem_of_getElem? hi)

theorem AllG.single_none (hG : MarkPred0 G) (b : Bytes) : AllG G [Seg.mem b Flush.none] := by
  intro x fl hm
  rw [List.mem_singleton] at hm
  cases hm
  exact hG.none _

theorem AllG.single_stored (loc : Loc) (a b c : Nat) : AllG G [Seg.stored loc a b c] := by
  intro x fl hm
  rw [List.mem_singleton] at hm
  cases hm

/-- `memSegment.Truncate`: the field survives only when the buffer is cut (not grown). -/
theorem memTruncate_G (hG : MarkPred0 G) {buf : Bytes} {fl : Flush} (h : G buf fl) (n : Nat) :
    AllG G [memTruncate buf fl n] := by
  intro x fl' hm
  rw [List.mem_singleton] at hm
  unfold memTruncate at hm
  injection hm with h1 h2
  by_cases hc : fl ≠ Flush.none ∧ n > buf.length
  · rw [if_pos hc] at h2
    rw [h2]; exact hG.none _
  · rw [if_neg hc] at h2
    by_cases hn : n > buf.length
    · have : fl = Flush.none := by
        apply Classical.byContradiction; intro hne; exact hc ⟨hne, hn⟩
      rw [h2, this]; exact hG.none _
    · have hz : n - buf.length = 0 := by omega
      rw [hz, zeros_zero, List.append_nil] at h1
      rw [h1, h2]; exact hG.take _ _ _ h

theorem memTruncate_new_G (hG : MarkPred0 G) (n : Nat) : AllG G [memTruncate [] Flush.none n] :=
  memTruncate_G hG (hG.none _) n

/-- `Slice` copies into a fresh buffer: nil. -/
theorem slice_G (hG : MarkPred0 G) (s : Seg) (n : Nat) (len : Option Nat) : AllG G [s.slice n len] := by
  cases s with
  | stored loc size off l =>
    cases len <;> exact AllG.single_stored _ _ _ _
  | mem buf fl =>
    cases len <;> exact AllG.single_none hG _

theorem curFate_G (hG : MarkPred0 G) {fn : FileNode} (h : AllG G fn.segs) (cur : Nat) (curSeg : Option Seg)
    (cando : Bytes) : AllG G (curFate fn cur curSeg cando).2.2 := by
  unfold curFate
  cases curSeg with
  | none => exact AllG.nil
  | some s =>
    simp only []
    split
    · exact h.drop _
    · exact AllG.cons (slice_G hG _ _ _) (h.drop _)

theorem restrSplit_G (hG : MarkPred0 G) {fn : FileNode} (h : AllG G fn.segs) {cur so : Nat} {s : Seg}
    {cando : Bytes} {r : Restr} (hr : restrSplit fn cur so s cando = some r) : AllG G r.segs := by
  unfold restrSplit at hr
  split at hr
  · cases hr
  · simp only [] at hr
    split at hr
    · cases hr
      exact AllG.append (AllG.append (h.take _) (AllG.cons (slice_G hG _ _ _) (memTruncate_new_G hG _))) (h.drop _)
    · cases hr
      exact AllG.append (AllG.append (h.take _)
        (AllG.cons (slice_G hG _ _ _) (AllG.cons (memTruncate_new_G hG _) (slice_G hG _ _ _)))) (h.drop _)

theorem prevApp_mem {segs : List Seg} {cur : Nat} {pb : Bytes} {pfl : Flush}
    (h : prevApp max segs cur = some (pb, pfl)) : Seg.mem pb pfl ∈ segs := by
  obtain ⟨_, h2, _⟩ := prevApp_some h
  exact List.mem_of_getElem? h2

theorem restrShift_G (hG : MarkPred0 G) {fn : FileNode} (h : AllG G fn.segs) (cur : Nat) (curSeg : Option Seg)
    (cando : Bytes) : AllG G (restrShift max fn cur curSeg cando).segs := by
  unfold restrShift
  cases hp : prevApp max fn.segs cur with
  | none =>
    simp only []
    exact AllG.append (AllG.append (h.take _) (memTruncate_new_G hG _)) (curFate_G hG h _ _ _)
  | some pf =>
    obtain ⟨buf, fl⟩ := pf
    simp only []
    exact AllG.append (AllG.append (h.take _) (memTruncate_G hG (h _ _ (prevApp_mem hp)) _)) (curFate_G hG h _ _ _)

theorem restructure_G (hG : MarkPred0 G) {fn : FileNode} (h : AllG G fn.segs) {ptr : Ptr} {p : Bytes} {r : Restr}
    (hr : restructure max fn ptr p = some r) : AllG G r.segs := by
  unfold restructure at hr
  simp only [] at hr
  split at hr
  · cases hr
  · split at hr
    · split at hr
      · cases hr
      · cases hr; exact h
    · split at hr
      · split at hr
        · cases hr
        · exact restrSplit_G hG h hr
      · cases hr; exact restrShift_G hG h _ _ _

/-- `pruneMemSegments`: the marks it sets are the `fresh` ones; the length bound is taken from the
well-formedness of the result. -/
theorem pruneSegs_G (hG : MarkPred max G) : ∀ (segs : List Seg) (idx : Nat) (st : Store), AllG G segs →
    (∀ b fl, Seg.mem b fl ∈ (pruneSegs hash max segs idx st).1 → b.length ≤ max) →
    AllG G (pruneSegs hash max segs idx st).1 := by
  intro segs
  induction segs with
  | nil => intro idx st _ _; exact AllG.nil
  | cons s rest ih =>
    intro idx st h hb
    have hrest : AllG G rest := h.sub (fun x hx => List.mem_cons_of_mem _ hx)
    unfold pruneSegs
    cases s with
    | stored loc size off l =>
      simp only []
      refine AllG.cons (AllG.single_stored _ _ _ _) (ih _ _ hrest ?_)
      intro b fl hm
      apply hb b fl
      unfold pruneSegs
      exact List.mem_cons_of_mem _ hm
    | mem buf fl =>
      cases fl with
      | none =>
        simp only []
        split
        · refine AllG.cons (AllG.single_none hG.toMarkPred0 _) (ih _ _ hrest ?_)
          intro b fl hm
          apply hb b fl
          unfold pruneSegs
          simp only []
          rw [if_pos (by assumption)]
          exact List.mem_cons_of_mem _ hm
        · next hlt =>
          have hbuf : buf.length ≤ max := by
            apply hb buf (Flush.pending idx buf.length)
            unfold pruneSegs
            simp only []
            rw [if_neg hlt]
            exact List.mem_cons_self ..
          refine AllG.cons ?_ (ih _ _ hrest ?_)
          · intro x fl' hm
            rw [List.mem_singleton] at hm
            cases hm
            exact hG.fresh _ _ hbuf
          · intro b fl hm
            apply hb b fl
            unfold pruneSegs
            simp only []
            rw [if_neg hlt]
            exact List.mem_cons_of_mem _ hm
      | pending i l =>
        simp only []
        refine AllG.cons (fun x fl' hm => ?_) (ih _ _ hrest ?_)
        · rw [List.mem_singleton] at hm
          cases hm; exact h _ _ (List.mem_cons_self ..)
        · intro b fl hm
          apply hb b fl
          unfold pruneSegs
          exact List.mem_cons_of_mem _ hm
      | stale =>
        simp only []
        refine AllG.cons (fun x fl' hm => ?_) (ih _ _ hrest ?_)
        · rw [List.mem_singleton] at hm
          cases hm; exact h _ _ (List.mem_cons_self ..)
        · intro b fl hm
          apply hb b fl
          unfold pruneSegs
          exact List.mem_cons_of_mem _ hm

theorem memWriteAt_flag {buf p : Bytes} {off : Nat} {s' : Seg} (h : memWriteAt buf p off = some s') :
    ∃ b', s' = Seg.mem b' Flush.none := by
  unfold memWriteAt at h
  split at h
  · cases h
  · cases h; exact ⟨_, rfl⟩

theorem overwrite_G (hG : MarkPred max G) {w w' : WState} {r : Restr} {k : Nat} (h : AllG G r.segs)
    (ho : overwrite hash max w r = some (w', k)) (hb : ∀ b fl, Seg.mem b fl ∈ w'.fn.segs → b.length ≤ max) :
    AllG G w'.fn.segs := by
  unfold overwrite at ho
  split at ho
  · next buf fl hseg =>
    cases hm : memWriteAt buf r.cando r.off with
    | none => rw [hm] at ho; cases ho
    | some s' =>
      rw [hm] at ho
      obtain ⟨b', hs'⟩ := memWriteAt_flag hm
      subst hs'
      simp only [] at ho
      injection ho with ho
      injection ho with ho1 ho2
      rw [← ho1] at hb ⊢
      simp only [] at hb ⊢
      have hset : AllG G (r.segs.set r.idx (Seg.mem b' Flush.none)) := h.set (AllG.single_none hG.toMarkPred0 b') r.idx
      split
      · next hge =>
        simp only [hge, if_true] at hb
        exact pruneSegs_G hG _ _ _ hset hb
      · exact hset
  · cases ho

theorem writeStep_G (hG : MarkPred max G) {w w' : WState} {p : Bytes} {k : Nat} (h : AllG G w.fn.segs)
    (hs : writeStep hash max w p = some (w', k)) (hb : ∀ b fl, Seg.mem b fl ∈ w'.fn.segs → b.length ≤ max) :
    AllG G w'.fn.segs := by
  unfold writeStep at hs
  cases hr : restructure max w.fn w.ptr p with
  | none => rw [hr] at hs; cases hs
  | some r =>
    rw [hr] at hs
    exact overwrite_G hG (restructure_G (max := max) hG.toMarkPred0 h hr) hs hb

theorem wf_mem_le {st : Store} {fn : FileNode} (hwf : WF max hash st fn) :
    ∀ b fl, Seg.mem b fl ∈ fn.segs → b.length ≤ max :=
  fun _ _ hm => (hwf.segs _ hm).2.1

theorem writeLoop_G (hinj : Function.Injective hash) (hmax : 1 ≤ max) (hG : MarkPred max G) :
    ∀ (fuel : Nat) (w : WState) (p : Bytes) (n : Nat) (w' : WState) (k : Nat),
      StoreOK hash w.st → WF max hash w.st w.fn → WPos w.fn w.ptr → AllG G w.fn.segs →
      writeLoop hash max fuel w p n = WriteRes.done w' k → AllG G w'.fn.segs := by
  intro fuel
  induction fuel with
  | zero =>
    intro w p n w' k _ _ _ h hl
    cases p with
    | nil => simp only [writeLoop] at hl; cases hl; exact h
    | cons b p' => simp [writeLoop] at hl
  | succ fuel ih =>
    intro w p n w' k hok hwf hpos h hl
    cases p with
    | nil => simp only [writeLoop] at hl; cases hl; exact h
    | cons b p' =>
      obtain ⟨w1, k1, hstep, hs⟩ := step_spec hinj hmax (p := b :: p') (by simp) hok hwf hpos
      simp only [writeLoop, hstep] at hl
      have h1 : AllG G w1.fn.segs := writeStep_G hG h hstep (wf_mem_le hs.wf)
      exact ih w1 _ _ w' k hs.ok hs.wf hs.pos h1 hl

theorem growLoop_G (hG : MarkPred0 G) : ∀ (fuel : Nat) (segs : List Seg) (size target : Nat) (r : List Seg × Nat),
    AllG G segs → growLoop max fuel segs size target = some r → AllG G r.1 := by
  intro fuel
  induction fuel with
  | zero =>
    intro segs size target r h hg
    unfold growLoop at hg
    split at hg
    · cases hg; exact h
    · cases hg
  | succ fuel ih =>
    intro segs size target r h hg
    unfold growLoop at hg
    split at hg
    · cases hg; exact h
    · simp only [] at hg
      split at hg
      · next buf fl hlast =>
        have hmem : Seg.mem buf fl ∈ segs := List.mem_of_getLast? hlast
        split at hg
        · exact ih _ _ _ r (AllG.append h (memTruncate_new_G hG _)) hg
        · exact ih _ _ _ r (AllG.append h.dropLast (memTruncate_G hG (h _ _ hmem) _)) hg
      · exact ih _ _ _ r (AllG.append h (memTruncate_new_G hG _)) hg

theorem truncate_G (hG : MarkPred0 G) {fn fn' : FileNode} {n : Nat} (h : AllG G fn.segs)
    (ht : truncate max fn n = some fn') : AllG G fn'.segs := by
  unfold truncate at ht
  split at ht
  · cases ht; exact h
  · split at ht
    · simp only [] at ht
      split at ht
      · cases ht
      · split at ht
        · cases ht; exact h.take _
        · split at ht
          · cases ht
          · next buf fl hseg =>
            cases ht
            exact AllG.append (h.take _) (memTruncate_G hG (h _ _ (List.mem_of_getElem? hseg)) _)
          · cases ht
            exact AllG.append (h.take _) (slice_G hG _ _ _)
    · split at ht
      · cases ht
      · next segs sz hg =>
        cases ht
        exact growLoop_G hG _ _ _ _ (segs, sz) h hg

/-- `filenode.Write`: every non-nil `flushing` field afterwards sits on the buffer it sat on before
(possibly cut shorter), or was set by pruneMemSegments during this call. -/
theorem write_G (hinj : Function.Injective hash) (hmax : 1 ≤ max) (hG : MarkPred max G) {st : Store} {fn : FileNode}
    {ptr : Ptr} (hok : StoreOK hash st) (hwf : WF max hash st fn) (hrep : 0 ≤ fn.repacked) (hptr : PtrOK fn ptr)
    (p : Bytes) (h : AllG G fn.segs) {w : WState} {k : Nat} (hw : write hash max st fn ptr p = WriteRes.done w k) :
    AllG G w.fn.segs := by
  unfold write at hw
  by_cases hgt : ptr.off > fn.size
  · rw [if_pos hgt] at hw
    obtain ⟨fn1, ht, htok⟩ := truncate_spec (hash := hash) (st := st) hmax hwf hrep ptr.off
    rw [ht] at hw
    simp only [] at hw
    have hbump := htok.bump (by omega)
    have hp1 : PtrOK fn1 ptr := ⟨by rw [hbump]; have := hptr.1; omega, fun h => by rw [hbump] at h; have := hptr.1; omega⟩
    obtain ⟨q, hq, hqoff, hqrep, hcase⟩ := seek_spec htok.wf hp1
    rw [hq] at hw
    simp only [] at hw
    have hpos : WPos fn1 q := by
      refine ⟨hqrep, ?_⟩
      rcases hcase with ⟨_, h2, h3⟩ | ⟨h1, _⟩
      · exact Or.inl ⟨h2, h3, by rw [hqoff, ← htok.wf.size_eq, htok.size_eq]⟩
      · rw [htok.size_eq] at h1; omega
    exact writeLoop_G hinj hmax hG _ ⟨fn1, q, st⟩ p 0 w k hok htok.wf hpos (truncate_G (max := max) hG.toMarkPred0 h ht) hw
  · rw [if_neg hgt] at hw
    simp only [] at hw
    obtain ⟨q, hq, hqoff, hqrep, hcase⟩ := seek_spec hwf hptr
    rw [hq] at hw
    simp only [] at hw
    have hpos : WPos fn q := by
      refine ⟨hqrep, ?_⟩
      rcases hcase with ⟨h1, h2, h3⟩ | ⟨h1, s, h2, h3, h4⟩
      · exact Or.inl ⟨h2, h3, by rw [hqoff, ← hwf.size_eq]; omega⟩
      · exact Or.inr ⟨s, h2, h3, by rw [hqoff]; exact h4⟩
    exact writeLoop_G hinj hmax hG _ ⟨fn, q, st⟩ p 0 w k hok hwf hpos h hw

end ArvVerif.C13
