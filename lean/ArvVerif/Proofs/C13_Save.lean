/-
C13 helper lemmas, part 7: MarshalManifest / Sync (`Ev.save`). The sync flush of C08 (`doSync`)
keeps the token invariant (it only replaces mem segments by stored ones); in the plain model a flush
is the identity; the snapshot read from the concrete state is the snapshot of the abstract state.
-/
import ArvVerif.Proofs.C13_Plain
namespace ArvVerif.C13
open ArvVerif.C08

variable {max : Nat} {hash : Bytes → Loc}

/-! ### mem segments after commitBlock / flushFiles are mem segments from before -/

def MemSubG (fs' fs : List FileNode) : Prop :=
  ∀ fn' ∈ fs', ∀ b fl, Seg.mem b fl ∈ fn'.segs → ∃ fn ∈ fs, Seg.mem b fl ∈ fn.segs

theorem MemSubG.refl (fs : List FileNode) : MemSubG fs fs := fun fn hfn _ _ h => ⟨fn, hfn, h⟩

theorem MemSubG.trans {a b c : List FileNode} (h1 : MemSubG a b) (h2 : MemSubG b c) : MemSubG a c := by
  intro fn hfn b' fl h
  obtain ⟨fn1, hfn1, h1'⟩ := h1 fn hfn b' fl h
  exact h2 fn1 hfn1 b' fl h1'

theorem setSeg_memSub (files : List FileNode) (r : Ref) (loc : Loc) (a b c : Nat) :
    MemSubG (setSeg files r (Seg.stored loc a b c)) files := by
  unfold setSeg
  cases hf : files[r.1]? with
  | none => exact MemSubG.refl _
  | some fn =>
    simp only []
    intro fn' hfn' b' fl h
    rcases List.mem_or_eq_of_mem_set hfn' with h1 | h1
    · exact ⟨fn', h1, h⟩
    · rw [h1] at h
      rcases List.mem_or_eq_of_mem_set h with h2 | h2
      · exact ⟨fn, List.mem_of_getElem? hf, h2⟩
      · cases h2

theorem commitBlock_memSub (st : Store) (files : List FileNode) (refs : List Ref) :
    MemSubG (commitBlock hash st files refs).2 files := by
  unfold commitBlock
  simp only []
  generalize (0 : Nat) = o
  have key : ∀ (rs : List Ref) (acc : List FileNode × Nat), MemSubG acc.1 files →
      MemSubG (rs.foldl (fun (acc : List FileNode × Nat) (r : Ref) =>
        match refBuf files r with
        | some buf => (setSeg acc.1 r (Seg.stored (hash (refs.flatMap (fun r => (refBuf files r).getD [])))
            (refs.flatMap (fun r => (refBuf files r).getD [])).length acc.2 buf.length), acc.2 + buf.length)
        | none => acc) acc).1 files := by
    intro rs
    induction rs with
    | nil => intro acc h; exact h
    | cons r rest ih =>
      intro acc h
      simp only [List.foldl_cons]
      apply ih
      split
      · exact MemSubG.trans (setSeg_memSub _ _ _ _ _ _) h
      · exact h
  exact key refs (files, o) (MemSubG.refl _)

theorem flushFiles_memSub (st : Store) (files : List FileNode) (short : Bool) :
    MemSubG (flushFiles hash max st files short).2 files := by
  unfold flushFiles
  generalize flushGroups max short files = groups
  have key : ∀ (gs : List (List Ref)) (acc : Store × List FileNode), MemSubG acc.2 files →
      MemSubG (gs.foldl (fun (acc : Store × List FileNode) g => commitBlock hash acc.1 acc.2 g) acc).2 files := by
    intro gs
    induction gs with
    | nil => intro acc h; exact h
    | cons g rest ih =>
      intro acc h
      simp only [List.foldl_cons]
      exact ih _ (MemSubG.trans (commitBlock_memSub _ _ _) h)
  exact key groups (st, files) (MemSubG.refl _)

/-! ### dirnode.flush on the filesystem state -/

theorem fold_setFile_world (L : List (Nat × FileNode)) : ∀ (s : Conc),
    (L.foldl (fun s (fc : Nat × FileNode) => setFile s fc.1 fc.2) s).world = s.world := by
  induction L with
  | nil => intro s; rfl
  | cons x rest ih => intro s; simp only [List.foldl_cons]; rw [ih, setFile_world]

theorem fold_setFile_segs {P : Seg → Prop} (L : List (Nat × FileNode)) : ∀ (s : Conc), AllSegs P s →
    (∀ fc ∈ L, ∀ sg ∈ fc.2.segs, P sg) →
    AllSegs P (L.foldl (fun s (fc : Nat × FileNode) => setFile s fc.1 fc.2) s) := by
  induction L with
  | nil => intro s h _; exact h
  | cons x rest ih =>
    intro s h hL
    simp only [List.foldl_cons]
    apply ih
    · exact (PlainOK.setFile s x.1 x.2 (fun _ => hL x (List.mem_cons_self ..))).2 h
    · exact fun fc hfc => hL fc (List.mem_cons_of_mem _ hfc)

theorem flushDir_marks (hinj : Function.Injective hash) {fs : Conc} (hinv : Inv max hash fs) (toks : List Tok)
    (hm : AllSegs (MarkOK max hash fs.world toks) fs) (short : Bool) (d : Nat) :
    AllSegs (MarkOK max hash (flushDir (concImpl hash max) short fs d).world toks) (flushDir (concImpl hash max) short fs d) := by
  unfold flushDir
  simp only []
  obtain ⟨pairs, hpairs⟩ : ∃ pairs, pairs =
      (sortedFiles fs d).filterMap (fun e => (fs.files[e.2]?).map (fun nf => (e.2, nf.2))) := ⟨_, rfl⟩
  rw [← hpairs]
  have hpair : ∀ fc ∈ pairs, ∃ nf0 : String × FileNode, fs.files[fc.1]? = some nf0 ∧ nf0.2 = fc.2 := by
    intro fc hfc
    rw [hpairs] at hfc
    obtain ⟨e, _, he⟩ := List.mem_filterMap.mp hfc
    cases hfile : fs.files[e.2]? with
    | none => rw [hfile] at he; cases he
    | some nf =>
      rw [hfile] at he; simp only [Option.map_some, Option.some.injEq] at he
      rw [← he]; exact ⟨nf, hfile, rfl⟩
  have hcswf : AllWF max hash fs.world (pairs.map (·.2)) := by
    intro fn hfn sg hsg
    obtain ⟨fc, hfc, hfn'⟩ := List.mem_map.mp hfn
    obtain ⟨nf0, h0, h1⟩ := hpair fc hfc
    rw [← hfn', ← h1] at hsg
    exact (hinv.files nf0 (List.mem_of_getElem? h0)).1.segs sg hsg
  obtain ⟨f1, _, _, _⟩ := flushFiles_spec hinj hinv.ok (pairs.map (·.2)) hcswf short
  have hsub := flushFiles_memSub (hash := hash) (max := max) fs.world (pairs.map (·.2)) short
  have hfl : (concImpl hash max).flush fs.world (pairs.map (·.2)) short = flushFiles hash max fs.world (pairs.map (·.2)) short := rfl
  rw [hfl]
  generalize flushFiles hash max fs.world (pairs.map (·.2)) short = r at f1 hsub ⊢
  obtain ⟨w, cs'⟩ := r
  simp only [] at f1 hsub ⊢
  rw [fold_setFile_world]
  apply fold_setFile_segs
  · intro nf hnf sg hsg
    exact (hm nf hnf sg hsg).mono (more := []) f1 |> fun h => by rw [List.append_nil] at h; exact h
  · intro fc hfc sg hsg
    have hc : fc.2 ∈ cs' := (List.of_mem_zip hfc).2
    cases sg with
    | stored => trivial
    | mem b fl =>
      obtain ⟨fn, hfn, hb⟩ := hsub fc.2 hc b fl hsg
      obtain ⟨pc, hpc, hpc'⟩ := List.mem_map.mp hfn
      obtain ⟨nf0, h0, h1⟩ := hpair pc hpc
      have := hm nf0 (List.mem_of_getElem? h0) (Seg.mem b fl) (by rw [h1, hpc']; exact hb)
      have h2 := this.mono (more := []) f1
      rw [List.append_nil] at h2
      exact h2

theorem doSync_marks (hinj : Function.Injective hash) {fs : Conc} (hinv : Inv max hash fs) (toks : List Tok)
    (hm : AllSegs (MarkOK max hash fs.world toks) fs) :
    AllSegs (MarkOK max hash (doSync (concImpl hash max) fs).1.world toks) (doSync (concImpl hash max) fs).1 := by
  unfold doSync
  simp only []
  generalize subdirs fs.ents fs.dirs.length 0 = ds
  induction ds generalizing fs with
  | nil => exact hm
  | cons d rest ih =>
    simp only [List.foldl_cons]
    exact ih (flushDir_ref hinj hinv true d).2 (flushDir_marks hinj hinv toks hm true d)

/-! ### in the plain model a flush changes nothing -/

theorem zip_map_fst_snd {α β : Type} (l : List (α × β)) : (l.map (·.1)).zip (l.map (·.2)) = l := by
  induction l with
  | nil => rfl
  | cons x rest ih => simp only [List.map_cons, List.zip_cons_cons, ih]

theorem flushDir_plain_id (S : Plain) (short : Bool) (d : Nat) : flushDir specImpl short S d = S := by
  unfold flushDir
  simp only []
  obtain ⟨pairs, hpairs⟩ : ∃ pairs, pairs =
      (sortedFiles S d).filterMap (fun e => (S.files[e.2]?).map (fun nf => (e.2, nf.2))) := ⟨_, rfl⟩
  rw [← hpairs]
  have hpair : ∀ fc ∈ pairs, ∃ n : String, S.files[fc.1]? = some (n, fc.2) := by
    intro fc hfc
    rw [hpairs] at hfc
    obtain ⟨e, _, he⟩ := List.mem_filterMap.mp hfc
    cases hfile : S.files[e.2]? with
    | none => rw [hfile] at he; cases he
    | some nf =>
      rw [hfile] at he; simp only [Option.map_some, Option.some.injEq] at he
      rw [← he]; exact ⟨nf.1, hfile⟩
  show List.foldl _ S ((pairs.map (·.1)).zip (pairs.map (·.2))) = S
  rw [zip_map_fst_snd]
  clear hpairs
  induction pairs with
  | nil => rfl
  | cons x rest ih =>
    simp only [List.foldl_cons]
    obtain ⟨n, hn⟩ := hpair x (List.mem_cons_self ..)
    rw [setFile_self S x.1 hn]
    exact ih (fun fc hfc => hpair fc (List.mem_cons_of_mem _ hfc))

theorem doSync_plain_id (S : Plain) : (doSync specImpl S).1 = S := by
  unfold doSync
  simp only []
  generalize subdirs S.ents S.dirs.length 0 = ds
  induction ds with
  | nil => rfl
  | cons d rest ih => simp only [List.foldl_cons, flushDir_plain_id]; exact ih

/-! ### snapshots -/

theorem snapFrom_abs (fs : Conc) : ∀ (fuel d : Nat) (path : String),
    snapFrom (abs fs.world) fs fuel d path = snapFrom id (absFS fs) fuel d path := by
  intro fuel
  induction fuel with
  | zero => intro d path; rfl
  | succ fuel ih =>
    intro d path
    simp only [snapFrom, absFS_ents]
    congr 1
    funext e
    cases e.2 with
    | dir c => exact ih c _
    | file f =>
      simp only [absFS_files, absFiles_get]
      cases fs.files[f]? <;> rfl

theorem snapshot_abs (fs : Conc) : snapshot (abs fs.world) fs = snapshot id (absFS fs) := by
  unfold snapshot
  exact snapFrom_abs fs _ _ _

/-! ### the save step -/

theorem save_spec (hinj : Function.Injective hash) {s : St} (hinv : Inv13 max hash s) (w mask : Nat) (fail : Bool) :
    Inv13 max hash (evStep hash max s (Ev.save w mask fail)).1 ∧
    absFS (evStep hash max s (Ev.save w mask fail)).1.fs = absFS s.fs ∧
    ((evStep hash max s (Ev.save w mask fail)).2 = Out.snap (snapshot id (absFS s.fs)) ∨
     ((evStep hash max s (Ev.save w mask fail)).2 = Out.failed ∧ fail = true)) := by
  simp only [evStep]
  obtain ⟨h1, h2⟩ := completeAll_spec (max := max) (hash := hash) mask s.groups.length 0 hinv
  generalize completeAll hash max mask s.groups.length s 0 = s1 at h1 h2
  split
  · next hc =>
    refine ⟨h1, h2, Or.inr ⟨rfl, ?_⟩⟩
    cases fail with
    | true => rfl
    | false => simp at hc
  · obtain ⟨_, r2, r3⟩ := doSync_ref hinj h1.base
    have hid : absFS (doSync (concImpl hash max) s1.fs).1 = absFS s1.fs := by
      rw [r2]; exact doSync_plain_id _
    refine ⟨⟨r3, doSync_marks hinj h1.base s1.toks h1.marks⟩, by rw [hid, h2], Or.inl ?_⟩
    simp only []
    rw [snapshot_abs, hid, h2]

end ArvVerif.C13
