/-
C09 helper lemmas, part 14: `filenode.Write` with a Keep that can fail (`writeK`). The loop is C08's
(`restructure` is shared, so `restructure_spec` is reused as it is); only the tail of an iteration
differs (`pruneSegsK` instead of `pruneSegs`), so `overwrite_spec`, `step_spec`, `loop_spec` and
`write_spec` of C08 are re-proved over `Keep`, with `pruneSegsK_spec` in the place of `pruneSegs_spec`.
-/
import ArvVerif.Proofs.C09_Prune
namespace ArvVerif.C09

open ArvVerif.C08 (Seg FileNode Ptr Flush Store StoreOK StoreExt SegWF WF WPos RestrOK StepOK LoopOK SameLens Pos
  specWrite abs absSegs sumLen)

variable {max : Nat} {hash : Bytes → C08.Loc}

/-- the C08 view of a writer state over Keep -/
abbrev viewK (w : WStateK) : C08.WState := ⟨w.fn, w.ptr, w.k.store⟩

theorem overwriteK_spec (hinj : Function.Injective hash) {fn : FileNode} {ptr : Ptr} {p : Bytes} {r : C08.Restr}
    {k : Keep} (hk : KeepOK hash k) (hpos : WPos fn ptr) (hr : RestrOK max hash k.store fn ptr p r) :
    ∃ w', overwriteK hash max ⟨fn, ptr, k⟩ r = some (w', r.cando.length) ∧
      StepOK max hash ⟨fn, ptr, k.store⟩ p (viewK w') r.cando.length ∧ KeepOK hash w'.k ∧ KeepStep hash k w'.k := by
  obtain ⟨pre, buf, fl, post, M, hsegs, hidx, hroom, habs, hM, hoff⟩ := hr.shape
  have hk0 := hr.k_pos
  obtain ⟨nb, hnb⟩ : ∃ nb, nb = buf.take r.off ++ r.cando ++ buf.drop (r.off + r.cando.length) := ⟨_, rfl⟩
  have hnblen : nb.length = buf.length := by
    rw [hnb]; simp only [List.length_append, List.length_take, List.length_drop]; omega
  have hget : r.segs[r.idx]? = some (Seg.mem buf fl) := by rw [hsegs, hidx]; exact C08.get_mid ..
  have hwa : C08.memWriteAt buf r.cando r.off = some (Seg.mem nb Flush.none) := by
    unfold C08.memWriteAt; rw [if_neg (by omega), hnb]
  have hset : r.segs.set r.idx (Seg.mem nb Flush.none) = pre ++ Seg.mem nb Flush.none :: post := by
    rw [hsegs, hidx]; exact C08.set_mid ..
  have hbufwf : SegWF max hash k.store (Seg.mem buf fl) := hr.wf _ (by rw [hsegs]; simp)
  have hprewf : ∀ s ∈ pre, SegWF max hash k.store s := fun s hs => hr.wf s (by rw [hsegs]; simp [hs])
  have hpostwf : ∀ s ∈ post, SegWF max hash k.store s := fun s hs => hr.wf s (by rw [hsegs]; simp [hs])
  have hwf1 : ∀ s ∈ pre ++ Seg.mem nb Flush.none :: post, SegWF max hash k.store s := by
    intro s hs
    rcases List.mem_append.mp hs with h | h
    · exact hprewf s h
    · rcases List.mem_cons.mp h with h | h
      · rw [h]; exact ⟨by rw [hnblen]; exact hbufwf.1, by rw [hnblen]; exact hbufwf.2.1, fun i l h => (by cases h)⟩
      · exact hpostwf s h
  have hsum1 : sumLen (pre ++ Seg.mem nb Flush.none :: post) = sumLen r.segs := by
    rw [hsegs]; simp [hnblen]
  have habs1 : absSegs k.store (pre ++ Seg.mem nb Flush.none :: post) = specWrite (abs k.store fn) ptr.off r.cando := by
    have hX : (absSegs k.store pre ++ buf.take r.off).length = ptr.off := by
      simp only [List.length_append, List.length_take]; omega
    rw [habs, ← hX, C08.specWrite_mid _ _ _ _ hM, hnb]
    simp
  have hpos1 : Pos (pre ++ Seg.mem nb Flush.none :: post) (ptr.off + r.cando.length)
      (if nb.length = r.off + r.cando.length then r.idx + 1 else r.idx)
      (if nb.length = r.off + r.cando.length then 0 else r.off + r.cando.length) := by
    have hpl : (absSegs k.store pre).length = sumLen pre := C08.absSegs_length hprewf
    by_cases hend : nb.length = r.off + r.cando.length
    · rw [if_pos hend, if_pos hend, hidx]
      cases post with
      | nil =>
        left
        refine ⟨by simp, rfl, ?_⟩
        simp only [C08.sumLen_append, C08.sumLen_cons, C08.sumLen_nil, C08.Seg.len_mem]; omega
      | cons s2 post' =>
        right
        refine ⟨s2, by rw [C08.get_mid_succ]; rfl, (hpostwf s2 (List.mem_cons_self ..)).len_pos, ?_⟩
        rw [C08.take_mid_succ]
        simp only [C08.sumLen_append, C08.sumLen_cons, C08.sumLen_nil, C08.Seg.len_mem]; omega
    · rw [if_neg hend, if_neg hend, hidx]
      right
      refine ⟨_, C08.get_mid .., by simp only [C08.Seg.len_mem]; omega, ?_⟩
      rw [C08.take_mid]; omega
  unfold overwriteK
  simp only [hget, hwa, hset, C08.Seg.len_mem]
  by_cases hprune : r.off + r.cando.length ≥ max
  · rw [if_pos hprune]
    obtain ⟨p1, p2, p3, p4, p5, _⟩ := pruneSegsK_spec (max := max) hinj (pre ++ Seg.mem nb Flush.none :: post) 0 k hk hwf1
    have h3 : SameLens (pruneSegsK hash max (pre ++ Seg.mem nb Flush.none :: post) 0 k).1 (pre ++ Seg.mem nb Flush.none :: post) := p5
    have h5 : absSegs (pruneSegsK hash max (pre ++ Seg.mem nb Flush.none :: post) 0 k).2.store
        (pruneSegsK hash max (pre ++ Seg.mem nb Flush.none :: post) 0 k).1 = absSegs k.store (pre ++ Seg.mem nb Flush.none :: post) := by
      unfold absSegs
      rw [List.flatMap_def, List.flatMap_def, p4]
    refine ⟨_, rfl, ⟨hk0, ?_, p2.ext, p1.ok, ⟨?_, p3⟩, ⟨?_, (SameLens.symm h3).pos hpos1⟩, rfl, ?_, ?_, ?_⟩, p1, p2⟩
    · have := congrArg List.length hr.pfx; simp at this; omega
    · show r.size = _; rw [hr.size, h3.sumLen, hsum1]
    · show ptr.repacked + _ = fn.repacked + _; rw [hpos.1]
    · show absSegs _ _ = specWrite (abs k.store fn) ptr.off (p.take r.cando.length)
      rw [h5, habs1, ← hr.pfx]
    · show fn.repacked ≤ fn.repacked + _; split <;> omega
    · intro hrep
      have hb : r.bump = false := by
        cases hbv : r.bump with
        | false => rfl
        | true =>
          have : fn.repacked + (if r.bump = true then (1 : Int) else 0) = fn.repacked := hrep
          simp only [hbv, if_true] at this; omega
      obtain ⟨e1, e2⟩ := hr.nobump hb
      refine ⟨?_, e2⟩
      show SameLens _ fn.segs
      rw [← e1]
      refine h3.trans ?_
      rw [hsegs]; unfold SameLens; simp [hnblen]
  · rw [if_neg hprune]
    refine ⟨_, rfl, ⟨hk0, ?_, StoreExt.refl _, hk.ok, ⟨?_, hwf1⟩, ⟨?_, hpos1⟩, rfl, ?_, ?_, ?_⟩, hk, KeepStep.refl k⟩
    · have := congrArg List.length hr.pfx; simp at this; omega
    · show r.size = _; rw [hr.size, hsum1]
    · show ptr.repacked + _ = fn.repacked + _; rw [hpos.1]
    · show absSegs _ _ = specWrite (abs k.store fn) ptr.off (p.take r.cando.length)
      rw [habs1, ← hr.pfx]
    · show fn.repacked ≤ fn.repacked + _; split <;> omega
    · intro hrep
      have hb : r.bump = false := by
        cases hbv : r.bump with
        | false => rfl
        | true =>
          have : fn.repacked + (if r.bump = true then (1 : Int) else 0) = fn.repacked := hrep
          simp only [hbv, if_true] at this; omega
      obtain ⟨e1, e2⟩ := hr.nobump hb
      refine ⟨?_, e2⟩
      show SameLens _ fn.segs
      rw [← e1, hsegs]; unfold SameLens; simp [hnblen]

theorem stepK_spec (hinj : Function.Injective hash) (hmax : 1 ≤ max) {w : WStateK} {p : Bytes} (hp : p ≠ [])
    (hk : KeepOK hash w.k) (hwf : WF max hash w.k.store w.fn) (hpos : WPos w.fn w.ptr) :
    ∃ w' n, writeStepK hash max w p = some (w', n) ∧ StepOK max hash (viewK w) p (viewK w') n ∧
      KeepOK hash w'.k ∧ KeepStep hash w.k w'.k := by
  obtain ⟨r, hr, hrok⟩ := C08.restructure_spec (p := p) hmax hp hwf hpos
  obtain ⟨w', h1, h2, h3, h4⟩ := overwriteK_spec hinj hk hpos hrok
  refine ⟨w', r.cando.length, ?_, h2, h3, h4⟩
  unfold writeStepK
  rw [hr]
  exact h1

theorem loopK_spec (hinj : Function.Injective hash) (hmax : 1 ≤ max) :
    ∀ (fuel : Nat) (w : WStateK) (p : Bytes) (n : Nat), p.length ≤ fuel →
      KeepOK hash w.k → WF max hash w.k.store w.fn → WPos w.fn w.ptr →
      ∃ w', writeLoopK hash max fuel w p n = WriteResK.done w' (n + p.length) ∧
        LoopOK max hash (viewK w) p (viewK w') ∧ KeepOK hash w'.k ∧ KeepStep hash w.k w'.k := by
  intro fuel
  induction fuel with
  | zero =>
    intro w p n hlen hk hwf hpos
    have : p = [] := List.eq_nil_of_length_eq_zero (by omega)
    subst this
    refine ⟨w, by simp [writeLoopK], ⟨StoreExt.refl _, hk.ok, hwf, hpos, rfl, ?_, Int.le_refl _,
      fun _ => ⟨SameLens.refl _, rfl⟩⟩, hk, KeepStep.refl _⟩
    show abs w.k.store w.fn = specWrite (abs w.k.store w.fn) w.ptr.off []
    rw [C08.specWrite_nil _ _ (by rw [hwf.abs_length, hwf.size_eq]; exact hpos.2.off_le)]
  | succ fuel ih =>
    intro w p n hlen hk hwf hpos
    cases p with
    | nil =>
      refine ⟨w, by simp [writeLoopK], ⟨StoreExt.refl _, hk.ok, hwf, hpos, rfl, ?_, Int.le_refl _,
        fun _ => ⟨SameLens.refl _, rfl⟩⟩, hk, KeepStep.refl _⟩
      show abs w.k.store w.fn = specWrite (abs w.k.store w.fn) w.ptr.off []
      rw [C08.specWrite_nil _ _ (by rw [hwf.abs_length, hwf.size_eq]; exact hpos.2.off_le)]
    | cons b p' =>
      obtain ⟨w1, m, hstep, hs, hk1, hst1⟩ := stepK_spec hinj hmax (p := b :: p') (by simp) hk hwf hpos
      have hm1 := hs.k_pos
      have hm2 := hs.k_le
      have hrem : ((b :: p').drop m).length ≤ fuel := by
        rw [List.length_drop]; simp only [List.length_cons] at hlen hm2 ⊢; omega
      obtain ⟨w2, hloop, hl, hk2, hst2⟩ := ih w1 ((b :: p').drop m) (n + m) hrem hk1 hs.wf hs.pos
      refine ⟨w2, ?_, ⟨hs.ext.trans hl.ext, hl.ok, hl.wf, hl.pos, ?_, ?_, Int.le_trans hs.rep_ge hl.rep_ge, ?_⟩,
        hk2, hst1.trans hst2⟩
      · simp only [writeLoopK, hstep]
        rw [hloop]
        congr 1
        rw [List.length_drop]; omega
      · rw [hl.off, hs.off, List.length_drop]; omega
      · rw [hl.abs_eq, hs.abs_eq, hs.off]
        have hoffle : (viewK w).ptr.off ≤ (abs (viewK w).st (viewK w).fn).length := by
          show w.ptr.off ≤ (abs w.k.store w.fn).length
          rw [hwf.abs_length, hwf.size_eq]; exact hpos.2.off_le
        have htk : ((b :: p').take m).length = m := by rw [List.length_take]; omega
        have := C08.specWrite_specWrite (abs (viewK w).st (viewK w).fn) (viewK w).ptr.off ((b :: p').take m)
          ((b :: p').drop m) hoffle
        rw [htk, List.take_append_drop] at this
        exact this
      · intro hrep
        have h1 : (viewK w1).fn.repacked = (viewK w).fn.repacked := by
          have a := hs.rep_ge; have b' := hl.rep_ge; omega
        have h2 : (viewK w2).fn.repacked = (viewK w1).fn.repacked := by omega
        obtain ⟨a1, a2⟩ := hs.rep_same h1
        obtain ⟨b1, b2⟩ := hl.rep_same h2
        exact ⟨b1.trans a1, by omega⟩

/-- **`filenode.Write` under any answers of Keep** -/
theorem writeK_spec (hinj : Function.Injective hash) (hmax : 1 ≤ max) {k : Keep} (hk : KeepOK hash k) {fn : FileNode}
    {ptr : Ptr} (hwf : WF max hash k.store fn) (hrep : 0 ≤ fn.repacked) (hptr : C08.PtrOK fn ptr) (p : Bytes) :
    ∃ w, writeK hash max k fn ptr p = WriteResK.done w p.length ∧ KeepOK hash w.k ∧ KeepStep hash k w.k ∧
      WF max hash w.k.store w.fn ∧ 0 ≤ w.fn.repacked ∧ C08.PtrOK w.fn w.ptr ∧ w.ptr.off = ptr.off + p.length ∧
      abs w.k.store w.fn = specWrite (abs k.store fn) ptr.off p ∧
      (∀ q, C08.PtrOK fn q → C08.PtrOK w.fn q) := by
  unfold writeK
  by_cases hgt : ptr.off > fn.size
  · rw [if_pos hgt]
    obtain ⟨fn1, ht, htok⟩ := C08.truncate_spec (hash := hash) (st := k.store) hmax hwf hrep ptr.off
    rw [ht]
    simp only []
    have hbump := htok.bump (by omega)
    have hp1 : C08.PtrOK fn1 ptr :=
      ⟨by rw [hbump]; have := hptr.1; omega, fun h => by rw [hbump] at h; have := hptr.1; omega⟩
    obtain ⟨q, hq, hqoff, hqrep, hcase⟩ := C08.seek_spec htok.wf hp1
    rw [hq]
    simp only []
    have hpos : WPos fn1 q := by
      refine ⟨hqrep, ?_⟩
      rcases hcase with ⟨_, h2, h3⟩ | ⟨h1, _⟩
      · exact Or.inl ⟨h2, h3, by rw [hqoff, ← htok.wf.size_eq, htok.size_eq]⟩
      · rw [htok.size_eq] at h1; omega
    obtain ⟨w, hloop, hl, hk', hst⟩ := loopK_spec hinj hmax p.length ⟨fn1, q, k⟩ p 0 (Nat.le_refl _) hk htok.wf hpos
    rw [Nat.zero_add] at hloop
    refine ⟨w, hloop, hk', hst, hl.wf, by have := hl.rep_ge; simp only [viewK] at this; omega,
      hl.pos.ptrOK hl.wf, by have := hl.off; simp only [viewK] at this; rw [this, hqoff], ?_, ?_⟩
    · have := hl.abs_eq
      simp only [viewK] at this
      rw [this, htok.abs_eq, hqoff]
      unfold C08.specTruncate
      have hlen := hwf.abs_length
      rw [List.take_of_length_le (by omega)]
      exact C08.specWrite_pad _ _ _ (by omega)
    · intro q' hq'
      have hge := hl.rep_ge
      simp only [viewK] at hge
      exact ⟨by have := hq'.1; omega, fun h => by have := hq'.1; omega⟩
  · rw [if_neg hgt]
    simp only []
    obtain ⟨q, hq, hqoff, hqrep, hcase⟩ := C08.seek_spec hwf hptr
    rw [hq]
    simp only []
    have hpos : WPos fn q := by
      refine ⟨hqrep, ?_⟩
      rcases hcase with ⟨h1, h2, h3⟩ | ⟨h1, s, h2, h3, h4⟩
      · exact Or.inl ⟨h2, h3, by rw [hqoff, ← hwf.size_eq]; omega⟩
      · exact Or.inr ⟨s, h2, h3, by rw [hqoff]; exact h4⟩
    obtain ⟨w, hloop, hl, hk', hst⟩ := loopK_spec hinj hmax p.length ⟨fn, q, k⟩ p 0 (Nat.le_refl _) hk hwf hpos
    rw [Nat.zero_add] at hloop
    refine ⟨w, hloop, hk', hst, hl.wf, by have := hl.rep_ge; simp only [viewK] at this; omega,
      hl.pos.ptrOK hl.wf, by have := hl.off; simp only [viewK] at this; rw [this, hqoff], ?_, ?_⟩
    · have := hl.abs_eq
      simp only [viewK] at this
      rw [this, hqoff]
    · intro q' hq'
      exact hq'.preserved hl.rep_ge hl.rep_same

end ArvVerif.C09
