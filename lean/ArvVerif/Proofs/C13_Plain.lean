/-
C13 helper lemmas, part 6: the operations that go through C08's `step` unchanged (open, create,
read, seek, truncate, close, stat, readdir, mkdir, rename, remove) do not touch Keep, and every
segment of every file afterwards either was there before or comes out of `truncate` — so a
per-segment predicate that survives `truncate` (the token invariant) is preserved.
-/
import ArvVerif.Proofs.C13_Flush
namespace ArvVerif.C13
open ArvVerif.C08

variable {max : Nat} {hash : Bytes → Loc}

def AllSegs (P : Seg → Prop) (fs : Conc) : Prop := ∀ nf ∈ fs.files, ∀ sg ∈ nf.2.segs, P sg

/-- `fs'` has the same Keep and only segments satisfying `P` if `fs` has -/
def PlainOK (P : Seg → Prop) (fs fs' : Conc) : Prop := fs'.world = fs.world ∧ (AllSegs P fs → AllSegs P fs')

variable {P : Seg → Prop}

theorem PlainOK.refl (fs : Conc) : PlainOK P fs fs := ⟨rfl, id⟩

theorem PlainOK.trans {a b c : Conc} (h1 : PlainOK P a b) (h2 : PlainOK P b c) : PlainOK P a c :=
  ⟨h2.1.trans h1.1, fun h => h2.2 (h1.2 h)⟩

theorem PlainOK.same_files {fs fs' : Conc} (hw : fs'.world = fs.world) (hf : fs'.files = fs.files) : PlainOK P fs fs' :=
  ⟨hw, fun h nf hnf => h nf (by rw [← hf]; exact hnf)⟩

theorem PlainOK.setHandle (fs : Conc) (h : Nat) (v : Handle Ptr) : PlainOK P fs (setHandle fs h v) :=
  PlainOK.same_files rfl rfl

theorem PlainOK.setFile (fs : Conc) (f : Nat) (c : FileNode) (hc : AllSegs P fs → ∀ sg ∈ c.segs, P sg) :
    PlainOK P fs (setFile fs f c) := by
  refine ⟨setFile_world .., ?_⟩
  intro h
  unfold ArvVerif.C08.setFile
  split
  · intro nf hnf sg hsg
    rcases List.mem_or_eq_of_mem_set hnf with h1 | h1
    · exact h nf h1 sg hsg
    · rw [h1] at hsg; exact hc h sg hsg
  · exact h

theorem PlainOK.addNode (fs : Conc) (d : Nat) (name : String) (isDir : Bool) :
    PlainOK P fs (addNode (concImpl hash max) fs d name isDir).1 := by
  unfold ArvVerif.C08.addNode
  cases isDir with
  | true => exact PlainOK.same_files rfl rfl
  | false =>
    refine ⟨rfl, ?_⟩
    intro h nf hnf sg hsg
    simp only [Bool.false_eq_true, if_false] at hnf
    rcases List.mem_append.mp hnf with h1 | h1
    · exact h nf h1 sg hsg
    · rw [List.mem_singleton] at h1
      rw [h1] at hsg
      cases hsg

theorem PlainOK.setNameParent (fs : Conc) (n : Node) (name : String) (d : Nat) :
    PlainOK P fs (setNameParent fs n name d) := by
  unfold ArvVerif.C08.setNameParent
  cases n with
  | dir k => exact PlainOK.same_files rfl rfl
  | file f =>
    simp only []
    cases hf : fs.files[f]? with
    | none => exact PlainOK.refl _
    | some nf =>
      simp only []
      refine ⟨rfl, ?_⟩
      intro h nf' hnf' sg hsg
      rcases List.mem_or_eq_of_mem_set hnf' with h1 | h1
      · exact h nf' h1 sg hsg
      · rw [h1] at hsg
        exact h nf (List.mem_of_getElem? hf) sg hsg

theorem plainOK_renamed (fs : Conc) (e1 e2 : List ((Nat × String) × Node)) (n : Node) (name : String) (d : Nat) :
    PlainOK P fs { (setNameParent ({ fs with ents := e1 } : Conc) n name d) with ents := e2 } := by
  refine PlainOK.trans (b := { fs with ents := e1 }) (PlainOK.same_files rfl rfl) ?_
  refine PlainOK.trans (PlainOK.setNameParent _ n name d) ?_
  exact PlainOK.same_files rfl rfl

/-- `P` survives `filenode.truncate` -/
def TruncClosed (max : Nat) (P : Seg → Prop) : Prop :=
  ∀ c n c', (∀ sg ∈ c.segs, P sg) → truncate max c n = some c' → ∀ sg ∈ c'.segs, P sg

theorem openFile_plain (hT : TruncClosed max P) (fs : Conc) (path : String) (acc : Nat)
    (app cre excl trunc sync dirPerm : Bool) :
    PlainOK P fs (openFile (concImpl hash max) fs path acc app cre excl trunc sync dirPerm).1 := by
  unfold openFile
  split
  · exact PlainOK.refl _
  · simp only []
    split
    · exact PlainOK.refl _
    · split
      · exact PlainOK.refl _
      · split
        · exact PlainOK.refl _
        · split
          · exact PlainOK.refl _
          · split
            · exact PlainOK.refl _
            · split
              · split
                · exact PlainOK.refl _
                · exact PlainOK.addNode ..
              · split
                · exact PlainOK.refl _
                · split
                  · split
                    · exact PlainOK.refl _
                    · split
                      · exact PlainOK.refl _
                      · next f =>
                        split
                        · exact PlainOK.refl _
                        · next nm c hfc =>
                          split
                          · exact PlainOK.refl _
                          · next c' hc' =>
                            apply PlainOK.setFile
                            intro hall
                            have htr : truncate max c 0 = some c' := by
                              have h1 : (concImpl hash max).trunc c 0 = Except.ok c' := hc'
                              simp only [concImpl] at h1
                              split at h1
                              · next fn' hfn' => cases h1; exact hfn'
                              · cases h1
                            exact hT c 0 c' (hall (nm, c) (List.mem_of_getElem? hfc)) htr
                  · exact PlainOK.refl _

theorem handleRead_plain (fs : Conc) (h : Nat) (hd : Handle Ptr) (n : Nat) :
    PlainOK P fs (handleRead (concImpl hash max) fs h hd n).1 := by
  unfold handleRead
  split
  · exact PlainOK.refl _
  · split
    · exact PlainOK.setHandle ..
    · split
      · exact PlainOK.refl _
      · split
        · exact PlainOK.refl _
        · exact PlainOK.setHandle ..

theorem readLoop_plain : ∀ (fuel : Nat) (fs : Conc) (h want : Nat) (acc : Bytes),
    PlainOK P fs (readLoop (concImpl hash max) fuel fs h want acc).1 := by
  intro fuel
  induction fuel with
  | zero => intro fs h want acc; exact PlainOK.refl _
  | succ fuel ih =>
    intro fs h want acc
    unfold readLoop
    split
    · exact PlainOK.refl _
    · split
      · exact PlainOK.refl _
      · next hd _ =>
        have h1 := handleRead_plain (P := P) (max := max) (hash := hash) fs h hd (want - acc.length)
        generalize handleRead (concImpl hash max) fs h hd (want - acc.length) = r at h1 ⊢
        obtain ⟨s', d, e⟩ := r
        simp only []
        split
        · exact h1.trans (ih ..)
        · exact h1

theorem PlainOK.ite {fs : Conc} {c : Prop} [Decidable c] {a b : Conc × Res} (h1 : PlainOK P fs a.1)
    (h2 : PlainOK P fs b.1) : PlainOK P fs (if c then a else b).1 := by
  split <;> assumption

/-- every plain operation -/
theorem step_plain (hT : TruncClosed max P) (fs : Conc) (op : Op) (hop : Op.plain op = true) :
    PlainOK P fs (step (concImpl hash max) fs op).1 := by
  cases op with
  | openF h path acc app cre excl trunc sync dirPerm =>
    rw [step]
    unfold doOpen
    have h1 := openFile_plain (hash := hash) hT fs path acc app cre excl trunc sync dirPerm
    generalize openFile (concImpl hash max) fs path acc app cre excl trunc sync dirPerm = r at h1 ⊢
    obtain ⟨s', e⟩ := r
    cases e with
    | error e => exact h1
    | ok hd => exact h1.trans (PlainOK.setHandle ..)
  | create h path =>
    rw [step]
    unfold doOpen
    have h1 := openFile_plain (hash := hash) hT fs path 2 false true false true false false
    generalize openFile (concImpl hash max) fs path 2 false true false true false false = r at h1 ⊢
    obtain ⟨s', e⟩ := r
    cases e with
    | error e => exact h1
    | ok hd => exact h1.trans (PlainOK.setHandle ..)
  | write h data => cases hop
  | read h n =>
    rw [step]
    split
    · exact PlainOK.refl _
    · next hd _ =>
      have h1 := handleRead_plain (P := P) (max := max) (hash := hash) fs h hd n
      generalize handleRead (concImpl hash max) fs h hd n = r at h1 ⊢
      obtain ⟨s', d, e⟩ := r
      exact h1
  | readn h n =>
    rw [step]
    split
    · exact PlainOK.refl _
    · have h1 := readLoop_plain (P := P) (max := max) (hash := hash) (n + 2) fs h n []
      generalize readLoop (concImpl hash max) (n + 2) fs h n [] = r at h1 ⊢
      obtain ⟨s', d, e⟩ := r
      exact h1
  | seek h off whence =>
    rw [step]
    split
    · exact PlainOK.refl _
    · simp only []
      exact PlainOK.ite (PlainOK.refl _) (PlainOK.setHandle ..)
  | trunc h size =>
    rw [step]
    split
    · exact PlainOK.refl _
    · split
      · exact PlainOK.refl _
      · split
        · exact PlainOK.refl _
        · next nm c hfc =>
          split
          · exact PlainOK.refl _
          · next c' hc' =>
            apply PlainOK.setFile
            intro hall
            have htr : truncate max c size = some c' := by
              have h1 : (concImpl hash max).trunc c size = Except.ok c' := hc'
              simp only [concImpl] at h1
              split at h1
              · next fn' hfn' => cases h1; exact hfn'
              · cases h1
            exact hT c size c' (hall (nm, c) (List.mem_of_getElem? hfc)) htr
  | close h =>
    rw [step]
    split
    · exact PlainOK.refl _
    · exact PlainOK.same_files rfl rfl
  | hstat h =>
    rw [step]
    split <;> exact PlainOK.refl _
  | hreaddir h =>
    rw [step]
    split
    · exact PlainOK.refl _
    · split <;> exact PlainOK.refl _
  | hsync h => cases hop
  | mkdir path =>
    rw [step]
    unfold doMkdir
    simp only []
    split
    · exact PlainOK.refl _
    · split
      · exact PlainOK.refl _
      · split
        · exact PlainOK.refl _
        · exact PlainOK.addNode ..
  | rename old new =>
    rw [step]
    unfold doRename
    simp only []
    repeat' (first | exact PlainOK.refl _ | split)
    all_goals exact plainOK_renamed ..
  | remove path =>
    rw [step]
    unfold doRemove
    simp only []
    repeat' (first | exact PlainOK.refl _ | exact PlainOK.same_files rfl rfl | split)
  | removeAll path =>
    rw [step]
    unfold doRemove
    simp only []
    repeat' (first | exact PlainOK.refl _ | exact PlainOK.same_files rfl rfl | split)
  | stat path =>
    rw [step]
    split <;> exact PlainOK.refl _
  | readdir path =>
    rw [step]
    split
    · exact PlainOK.refl _
    · split <;> exact PlainOK.refl _
  | flush path short => cases hop
  | sync => cases hop

end ArvVerif.C13
