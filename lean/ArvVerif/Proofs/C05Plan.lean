/-
C05 helper lemmas, part 6: the hypotheses of the block-level theorems follow from the discovered
layout — distinct mount identities and device consistency survive cleanupMounts and
setupLookupTables.
-/
import ArvVerif.Proofs.C05Sum
import ArvVerif.Proofs.C05Setup
namespace ArvVerif.C05

/-- the reported mounts are distinct objects -/
def RawDistinctIds (svcs : List RawService) : Prop := (allRawMounts svcs).Pairwise (fun a b => a.id ≠ b.id)

/-- reported mounts of one device agree on storage classes and replication -/
def RawDeviceConsistent (svcs : List RawService) : Prop :=
  ∀ a ∈ allRawMounts svcs, ∀ b ∈ allRawMounts svcs, a.dev ≠ 0 → a.dev = b.dev → a.classes = b.classes ∧ a.repl = b.repl

theorem effMounts_ids_sublist (dflt : Class) (keep : RawMount → Bool) : ∀ (svcs : List RawService),
    ((effMounts dflt (svcs.map fun s => { s with mounts := (s.mounts.filter keep).map fixRepl })).map (·.id)).Sublist
      ((allRawMounts svcs).map (·.id)) := by
  intro svcs
  induction svcs with
  | nil => exact List.Sublist.refl _
  | cons s l ih =>
    unfold effMounts allRawMounts at ih ⊢
    simp only [List.map_cons, List.flatMap_cons, List.map_append]
    apply List.Sublist.append _ ih
    simp only [List.map_map]
    have : ((fun (m : Mount) => m.id) ∘ effMount dflt { s with mounts := (s.mounts.filter keep).map fixRepl } ∘ fixRepl) =
        fun (m : RawMount) => m.id := by
      funext m; simp [effMount]
    rw [this]
    exact (List.filter_sublist).map _

theorem plan_distinctIds (dflt : Class) (svcs : List RawService) (h : RawDistinctIds svcs) :
    DistinctIds (effMounts dflt (cleanupMounts svcs)) := by
  unfold DistinctIds
  have hsub := effMounts_ids_sublist dflt (fun m => !(m.ro && (rwDevs svcs).contains m.dev)) svcs
  have hraw : ((allRawMounts svcs).map (·.id)).Pairwise (· ≠ ·) := by
    rw [List.pairwise_map]; exact h
  have := hraw.sublist hsub
  rw [List.pairwise_map] at this
  exact this

theorem mem_plan_mounts {dflt : Class} {svcs : List RawService} {m : Mount}
    (h : m ∈ effMounts dflt (cleanupMounts svcs)) :
    ∃ m0 ∈ allRawMounts svcs, m.dev = m0.dev ∧
      m.classes = (if m0.classes.isEmpty then [dflt] else m0.classes) ∧ m.repl = (fixRepl m0).repl.toNat := by
  obtain ⟨s, hs, rm, hrm, e⟩ := mem_effMounts.1 h
  obtain ⟨s0, hs0, m0, hm0, _, _, rfl, _⟩ := mem_cleanup_mount hs hrm
  refine ⟨m0, ?_, ?_, ?_, ?_⟩
  · unfold allRawMounts; exact List.mem_flatMap.2 ⟨s0, hs0, hm0⟩
  · rw [e]; simp [effMount]
  · rw [e]; simp [effMount]
  · rw [e]; simp [effMount]

theorem fixRepl_repl_congr {a b : RawMount} (h : a.repl = b.repl) : (fixRepl a).repl = (fixRepl b).repl := by
  unfold fixRepl; rw [h]; split <;> simp_all

theorem plan_deviceConsistent (dflt : Class) (svcs : List RawService) (h : RawDeviceConsistent svcs) :
    DeviceConsistent (effMounts dflt (cleanupMounts svcs)) := by
  intro a ha b hb h0 hd
  obtain ⟨a0, ha0, ea1, ea2, ea3⟩ := mem_plan_mounts ha
  obtain ⟨b0, hb0, eb1, eb2, eb3⟩ := mem_plan_mounts hb
  have := h a0 ha0 b0 hb0 (by rw [← ea1]; exact h0) (by rw [← ea1, ← eb1]; exact hd)
  constructor
  · rw [ea2, eb2, this.1]
  · rw [ea3, eb3, fixRepl_repl_congr this.2]

end ArvVerif.C05
