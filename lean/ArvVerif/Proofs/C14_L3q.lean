/-
C14 layer L3, queue cache: invariants relating the cache to the API record.
-/
import ArvVerif.Model.C14_Queue
namespace ArvVerif.C14

theorem final_iff (s : CState) : s.final = true ↔ s = .complete ∨ s = .cancelled := by
  cases s <;> simp [CState.final]

structure QInv (s : QState) : Prop where
  /-- a finished container in the cache is finished in the API -/
  q1 : ∀ c st, s.cache c = some st → st.final = true → (s.api c).final = true
  /-- a poll never overwrites a finished cache entry with an unfinished reading -/
  q2 : ∀ c st st', s.polling = true → s.snap c = some st → s.dont c = false →
        s.cache c = some st' → st'.final = true → st.final = true
  /-- a container the cache shows as Locked is not Queued (or unknown) in the API -/
  q3 : ∀ c, s.cache c = some .locked → s.api c ≠ .queued ∧ s.api c ≠ .other
  /-- nor is one that the poll in flight has read as Locked, unless a local update intervened -/
  q4 : ∀ c, s.polling = true → s.snap c = some .locked → s.dont c = false →
        s.api c ≠ .queued ∧ s.api c ≠ .other
  /-- what the poll read as finished is finished -/
  q5 : ∀ c st, s.polling = true → s.snap c = some st → st.final = true → (s.api c).final = true

theorem QInv_init : QInv QState.init := by
  constructor <;> simp [QState.init]

macro "qinv_auto" : tactic =>
  `(tactic| (constructor <;> simp only [qupd_eq, QState.localUpdate] <;> intros <;>
      grind [QInv, final_iff, QState.localUpdate]))

theorem QInv_step {s t : QState} {ev : QEv} (h : QInv s) (st : QStep s ev t) : QInv t := by
  cases st with
  | apiCancel c hc => have := final_iff (s.api c); qinv_auto
  | apiRun c hc => qinv_auto
  | apiComplete c hc => qinv_auto
  | apiSubmit c hc hc' => qinv_auto
  | lockOk c hc => qinv_auto
  | unlockOk c hc => qinv_auto
  | cancelOk c hc => have := final_iff (s.api c); qinv_auto
  | forget c => qinv_auto
  | pollBegin hp => qinv_auto
  | pollRead c hp => qinv_auto
  | pollEnd hp => qinv_auto
  | start c hc => exact h

theorem QInv_reachFrom {s t : QState} (hs : QInv s) (h : QReachFrom s t) : QInv t := by
  induction h with
  | refl => exact hs
  | step _ st ih => exact QInv_step ih st

end ArvVerif.C14
