/-
C16 part C: the queue cache never carries an arbitrary instance type for a schedulable container,
and a poll never overwrites, drops or adds an entry that was updated locally while the poll was in
flight (`dontupdate`).
-/
import ArvVerif.Model.C16_Queue
namespace ArvVerif.C16.Q

/-! ### association-list helpers -/

theorem mem_setEnt {c : List (Nat × CEnt)} {u : Nat} {e : CEnt} {p : Nat × CEnt}
    (h : p ∈ setEnt c u e) : p ∈ c ∨ p = (u, e) := by
  unfold setEnt at h
  split at h
  · rcases List.mem_map.mp h with ⟨q, hq, rfl⟩
    by_cases hqu : (q.1 == u) = true
    · right; simp only [hqu, if_true]
    · left; simp only [hqu, Bool.false_eq_true, if_false]; exact hq
  · rcases List.mem_append.mp h with h | h
    · exact Or.inl h
    · simp only [List.mem_singleton] at h; exact Or.inr h

theorem lookup_mem {c : List (Nat × CEnt)} {u : Nat} {e : CEnt} (h : lookup c u = some e) : (u, e) ∈ c := by
  unfold lookup at h
  cases hf : c.find? (fun p => p.1 == u) with
  | none => rw [hf] at h; cases h
  | some p =>
    rw [hf] at h
    simp only [Option.map_some, Option.some.injEq] at h
    have h1 := List.find?_some hf
    have h2 := List.mem_of_find?_eq_some hf
    simp only [beq_iff_eq] at h1
    have : p = (u, e) := by cases p; simp only at h1 h; subst h1; subst h; rfl
    rw [← this]; exact h2

theorem find_map_ne (c : List (Nat × CEnt)) (u v : Nat) (e : CEnt) (h : u ≠ v) :
    (c.map (fun p => if (p.1 == u) = true then (u, e) else p)).find? (fun p => p.1 == v) =
      c.find? (fun p => p.1 == v) := by
  induction c with
  | nil => rfl
  | cons p rest ih =>
    simp only [List.map_cons, List.find?_cons]
    by_cases hpu : (p.1 == u) = true
    · have hpv : (p.1 == v) = false := by
        simp only [beq_iff_eq] at hpu; simp only [beq_eq_false_iff_ne, ne_eq]; omega
      have huv : (u == v) = false := by simp only [beq_eq_false_iff_ne, ne_eq]; exact h
      simp only [hpu, if_true, hpv, huv]; exact ih
    · simp only [hpu, Bool.false_eq_true, if_false]
      by_cases hpv : (p.1 == v) = true
      · simp only [hpv]
      · simp only [hpv]; exact ih

theorem lookup_setEnt_ne (c : List (Nat × CEnt)) (u v : Nat) (e : CEnt) (h : u ≠ v) :
    lookup (setEnt c u e) v = lookup c v := by
  unfold setEnt lookup
  split
  · rw [find_map_ne c u v e h]
  · congr 1
    rw [List.find?_append]
    have : ([(u, e)] : List (Nat × CEnt)).find? (fun p => p.1 == v) = none := by
      simp only [List.find?_cons, List.find?_nil]
      have : (u == v) = false := by simp only [beq_eq_false_iff_ne, ne_eq]; exact h
      simp only [this]
    rw [this, Option.or_none]

theorem lookup_filter (c : List (Nat × CEnt)) (f : Nat × CEnt → Bool) (v : Nat)
    (h : ∀ p ∈ c, p.1 = v → f p = true) : lookup (c.filter f) v = lookup c v := by
  unfold lookup
  congr 1
  induction c with
  | nil => rfl
  | cons p rest ih =>
    have ih' := ih (fun q hq => h q (List.mem_cons_of_mem _ hq))
    by_cases hpv : (p.1 == v) = true
    · have hf := h p List.mem_cons_self (by simpa using hpv)
      simp only [List.filter_cons, hf, if_true, List.find?_cons, hpv]
    · by_cases hf : f p = true
      · simp only [List.filter_cons, hf, if_true, List.find?_cons, hpv]; exact ih'
      · simp only [List.filter_cons, hf, Bool.false_eq_true, if_false, List.find?_cons, hpv]; exact ih'

/-! ### no arbitrary type -/

/-- every entry's type is what the chooser returned for the container as it was when it was added;
the zero-valued type occurs only for a container that was neither Queued nor Locked at that time and
for which the chooser failed -/
def TypeOK (choose : Nat → Option Nat) (e : CEnt) : Prop :=
  choose e.addedNeed = e.ty ∧ (e.ty = none → e.addedSt ≠ .queued ∧ e.addedSt ≠ .locked)

def TypesOK (choose : Nat → Option Nat) (cur : List (Nat × CEnt)) : Prop := ∀ p ∈ cur, TypeOK choose p.2

theorem typesOK_setEnt {choose : Nat → Option Nat} {cur : List (Nat × CEnt)} {u : Nat} {e : CEnt}
    (h : TypesOK choose cur) (he : TypeOK choose e) : TypesOK choose (setEnt cur u e) := by
  intro p hp
  rcases mem_setEnt hp with h1 | h1
  · exact h p h1
  · rw [h1]; exact he

theorem typesOK_addEnt (choose : Nat → Option Nat) (cur : List (Nat × CEnt)) (r : Rec)
    (h : TypesOK choose cur) : TypesOK choose (addEnt choose cur r).1 := by
  unfold addEnt
  cases hc : choose r.need with
  | some t => exact typesOK_setEnt h ⟨hc, fun h' => by cases h'⟩
  | none =>
    dsimp only
    by_cases hs : r.st = .queued ∨ r.st = .locked
    · rw [if_pos hs]; exact h
    · rw [if_neg hs]
      exact typesOK_setEnt h ⟨hc, fun _ => ⟨fun h1 => hs (Or.inl h1), fun h1 => hs (Or.inr h1)⟩⟩

theorem typesOK_applyRecs (choose : Nat → Option Nat) (d : Option (List Nat)) (recs : List Rec)
    (cur : List (Nat × CEnt)) (tasks : List Nat) (h : TypesOK choose cur) :
    TypesOK choose (applyRecs choose d recs cur tasks).1 := by
  induction recs generalizing cur tasks with
  | nil => exact h
  | cons r rest ih =>
    unfold applyRecs
    by_cases hd : inDont d r.uuid = true
    · rw [if_pos hd]; exact ih cur tasks h
    · rw [if_neg hd]
      cases hl : lookup cur r.uuid with
      | none => exact ih _ _ (typesOK_addEnt choose cur r h)
      | some e =>
        dsimp only
        apply ih
        have := h _ (lookup_mem hl)
        exact typesOK_setEnt h ⟨this.1, this.2⟩

theorem typesOK_runOp (choose : Nat → Option Nat) (c : Cache) (op : QOp) (h : TypesOK choose c.current) :
    TypesOK choose (runOp choose c op).current := by
  cases op with
  | begin => exact h
  | resp u st prio =>
    simp only [runOp, localResp]
    cases hl : lookup c.current u with
    | none => exact h
    | some e =>
      have := h _ (lookup_mem hl)
      exact typesOK_setEnt h ⟨this.1, this.2⟩
  | poll next =>
    simp only [runOp, applyPoll, expunge]
    intro p hp
    exact typesOK_applyRecs choose c.dontupdate next c.current [] h p (List.mem_filter.mp hp).1

theorem typesOK_runOps (choose : Nat → Option Nat) (ops : List QOp) (c : Cache)
    (h : TypesOK choose c.current) : TypesOK choose (runOps choose ops c).current := by
  induction ops generalizing c with
  | nil => exact h
  | cons op rest ih => exact ih _ (typesOK_runOp choose c op h)

/-! ### local updates survive a poll -/

theorem lookup_applyRecs_dont (choose : Nat → Option Nat) (d : Option (List Nat)) (recs : List Rec)
    (cur : List (Nat × CEnt)) (tasks : List Nat) (v : Nat) (hv : inDont d v = true) :
    lookup (applyRecs choose d recs cur tasks).1 v = lookup cur v := by
  induction recs generalizing cur tasks with
  | nil => rfl
  | cons r rest ih =>
    unfold applyRecs
    by_cases hd : inDont d r.uuid = true
    · rw [if_pos hd]; exact ih cur tasks
    · rw [if_neg hd]
      have hne : r.uuid ≠ v := by intro h; rw [h] at hd; exact hd hv
      cases hl : lookup cur r.uuid with
      | none =>
        dsimp only
        rw [ih]
        unfold addEnt
        cases choose r.need with
        | some t => exact lookup_setEnt_ne _ _ _ _ hne
        | none =>
          dsimp only
          by_cases hs : r.st = .queued ∨ r.st = .locked
          · rw [if_pos hs]
          · rw [if_neg hs]; exact lookup_setEnt_ne _ _ _ _ hne
      | some e =>
        dsimp only
        rw [ih]; exact lookup_setEnt_ne _ _ _ _ hne

end ArvVerif.C16.Q
