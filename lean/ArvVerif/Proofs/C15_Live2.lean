/-
How each step of the C15 liveness system moves the variant: every fair action, every fault and
`quotaShutdown` strictly decrease it; `lockQ`/`unlockQ` (only at quota) leave it unchanged; `idle`
changes nothing.
-/
import ArvVerif.Proofs.C15_Live
namespace ArvVerif.C15
open ArvVerif.C14 (Uuid IType)

theorem Mu.lt_of_q {a b : Mu} (hf : a.f = b.f) (hq : a.q < b.q) : a.lt b := by
  unfold Mu.lt; omega

theorem Mu.lt_of_r {a b : Mu} (hf : a.f = b.f) (hq : a.q = b.q) (hr : a.r < b.r) : a.lt b := by
  unfold Mu.lt; omega

theorem job_of_setJob (p : IPh) (j j' : Job) (h : p.job = some j) : (p.setJob (some j')).job = some j' := by
  cases p <;> simp_all [IPh.job, IPh.setJob]

theorem bad_setJob (i : Inst) (j : Option Job) : ({ i with ph := i.ph.setJob j } : Inst).bad = i.bad := by
  unfold Inst.bad
  cases i.ph <;> rfl

theorem irank_setJob_some (i : Inst) (j j' : Job) (h : i.ph.job = some j) :
    ({ i with ph := i.ph.setJob (some j') } : Inst).irank = i.irank := by
  unfold Inst.irank
  cases hp : i.ph <;> simp_all [IPh.job, IPh.setJob]

theorem crank_of_job (i : Inst) (j : Job) (h : i.ph.job = some j) : i.crank = jrank i.bad j.ph := by
  unfold Inst.crank; rw [h]

/-- a job moves to a phase of lower rank on the same instance -/
theorem lt_job (s : LState) (ipre ipost : List Inst) (i : Inst) (j : Job) (ph' : JPh)
    (h1 : s.insts = ipre ++ i :: ipost) (h2 : i.ph.job = some j) (h : jrank i.bad ph' < jrank i.bad j.ph) :
    (mu { s with insts := ipre ++ { i with ph := i.ph.setJob (some { j with ph := ph' }) } :: ipost }).lt (mu s) := by
  have e1 := crank_of_job i j h2
  have e2 : ({ i with ph := i.ph.setJob (some { j with ph := ph' }) } : Inst).crank = jrank i.bad ph' := by
    rw [crank_of_job _ _ (job_of_setJob i.ph j _ h2), bad_setJob]
  exact lt_inst s ipre ipost i _ h1 (by omega) (Or.inl (by omega))

theorem step_fair {s t : LState} {k : Kind} (h : Step s (.fair k) t) : (mu t).lt (mu s) := by
  cases h with
  | lock pre post c h1 h2 h3 h4 => exact lt_ctr s pre post c _ h1 (by simp [h2, h4, crank])
  | start pre post c ipre ipost i h1 h2 h3 h4 h5 h6 h7 =>
    refine lt_c _ _ (by rfl) (by rfl) (by rfl) ?_
    show sumBy (fun c => crank s.atQuota c.ph) (pre ++ post) +
        sumBy Inst.crank (ipre ++ { i with ph := .up (some ⟨c.uuid, .starting⟩) } :: ipost) <
      sumBy (fun c => crank s.atQuota c.ph) s.ctrs + sumBy Inst.crank s.insts
    rw [h1, h4, csum_mid, isum_mid, isum_mid, sumBy_append]
    have e1 : i.crank = 0 := by simp [Inst.crank, h5, IPh.job]
    have e2 : ({ i with ph := .up (some ⟨c.uuid, .starting⟩) } : Inst).crank = 5 := by
      simp [Inst.crank, IPh.job, Inst.bad, h6, jrank]
    have e3 : 6 ≤ crank s.atQuota c.ph := by rw [h2]; cases s.atQuota <;> simp [crank]
    omega
  | create t h1 h2 h3 h4 =>
    refine Mu.lt_of_d (by rfl) (by rfl) (by rfl) ?_ ?_
    · show sumBy (fun c => crank s.atQuota c.ph) s.ctrs + sumBy Inst.crank (s.insts ++ [⟨t, .ok, .creating⟩]) =
        sumBy (fun c => crank s.atQuota c.ph) s.ctrs + sumBy Inst.crank s.insts
      simp [Inst.crank, IPh.job]
    · show (if (s.atQuota || s.recovering) = true then 0 else deficit s.types s.ctrs (s.insts ++ [⟨t, .ok, .creating⟩])) <
        (if (s.atQuota || s.recovering) = true then 0 else deficit s.types s.ctrs s.insts)
      simp only [h1, h2, Bool.or_self, Bool.false_eq_true, if_false]
      exact deficit_create _ _ _ _ h3 h4
  | requeue pre post c h1 h2 h3 => exact lt_ctr s pre post c _ h1 (by simp [h2, crank])
  | cancel pre post c h1 h2 h3 h4 => exact lt_ctr s pre post c _ h1 (by simp [h2, crank])
  | staleResolve pre post c unlocked h1 h2 h3 =>
    apply lt_ctr s pre post c _ h1
    cases unlocked <;> simp [h2, crank] <;> split <;> omega
  | recoveryDone h1 h2 =>
    refine Mu.lt_of_r (by rfl) (by rfl) ?_
    show (if false = true then 1 else 0) < (if s.recovering = true then 1 else 0)
    simp [h1]
  | boot ipre ipost i h1 h2 h3 =>
    exact lt_inst s ipre ipost i _ h1 (by simp [Inst.crank, IPh.job, h2])
      (Or.inr ⟨by intro t; simp [Inst.unallocOk, Inst.unallocReal, h2], by simp [Inst.irank, h2]⟩)
  | probeUnknown ipre ipost i j h1 h2 h3 =>
    refine lt_inst s ipre ipost i _ h1 ?_ (Or.inr ⟨?_, ?_⟩)
    · simp [Inst.crank, IPh.job, h2, Inst.bad]
    · intro t; cases j <;> simp [Inst.unallocOk, Inst.unallocReal, h2]
    · cases j <;> simp [Inst.irank, h2]
  | noticeDead ipre ipost i j h1 h2 h3 h4 =>
    refine lt_c _ _ (by rfl) (by rfl) (by rfl) ?_
    show sumBy (fun c => crank s.atQuota c.ph) (s.ctrs ++ [⟨j.uuid, i.ty, if j.ph = .deadL then .exitedL else .lostR⟩]) +
        sumBy Inst.crank (ipre ++ { i with ph := .up none } :: ipost) <
      sumBy (fun c => crank s.atQuota c.ph) s.ctrs + sumBy Inst.crank s.insts
    rw [h1, isum_mid, isum_mid, sumBy_append]
    have hb : i.bad = false := by simp [Inst.bad, h2, h3]
    have e2 : ({ i with ph := .up none } : Inst).crank = 0 := by simp [Inst.crank, IPh.job]
    have e1 : i.crank = jrank false j.ph := by simp [Inst.crank, IPh.job, h2, hb]
    rcases h4 with h4 | h4
    · simp only [h4, if_true, sumBy_cons, sumBy_nil, crank] at *
      simp only [jrank] at e1
      simp at e1
      omega
    · have hne : ¬ (JPh.deadR = JPh.deadL) := by decide
      simp only [h4, hne, if_false, sumBy_cons, sumBy_nil, crank] at *
      simp only [jrank] at e1
      omega
  | jobGone ipre ipost i j gaveUp h1 h2 h3 h4 =>
    refine lt_inst s ipre ipost i _ h1 ?_ (Or.inr ⟨?_, ?_⟩)
    · simp [Inst.crank, IPh.job]
    · intro t; simp [Inst.unallocOk, Inst.unallocReal, h2]
    · simp [Inst.irank, h2]
  | idleTimeout ipre ipost i h1 h2 h3 h4 =>
    refine lt_inst' s ipre ipost i _ h1 ?_ (Or.inr ⟨?_, ?_⟩)
    · simp [Inst.crank, IPh.job]
    · intro _ hr
      rcases h4 with h4 | h4
      · rw [h4] at hr; cases hr
      · exact deficit_inst_idle _ _ _ _ _ _ h4 (by intro t; simp [Inst.unallocOk, Inst.unallocReal])
    · simp [Inst.irank, h2]
  | drainShutdown ipre ipost i h1 h2 h3 =>
    refine lt_inst s ipre ipost i _ h1 ?_ (Or.inr ⟨?_, ?_⟩)
    · simp [Inst.crank, IPh.job]
    · intro t; simp [Inst.unallocOk, h3]
    · rcases h2 with h2 | h2 <;> simp [Inst.irank, h2]
  | brokenTimeout ipre ipost i j h1 h2 h3 =>
    refine lt_inst s ipre ipost i _ h1 ?_ (Or.inr ⟨?_, ?_⟩)
    · rcases h2 with ⟨h2, rfl⟩ | h2 | h2 <;> simp [Inst.crank, IPh.job, h2, Inst.bad, h3]
    · intro t; simp [Inst.unallocOk, h3]
    · rcases h2 with ⟨h2, _⟩ | h2 | h2
      · simp [Inst.irank, h2]
      · simp [Inst.irank, h2]
      · cases j <;> simp [Inst.irank, h2]
  | destroyRetry ipre ipost i j h1 h2 =>
    refine lt_inst s ipre ipost i _ h1 ?_ (Or.inr ⟨?_, ?_⟩)
    · simp [Inst.crank, IPh.job, h2, Inst.bad]
    · intro t; simp [Inst.unallocOk, Inst.unallocReal, h2]
    · simp [Inst.irank, h2]
  | quotaExpire h1 =>
    refine Mu.lt_of_q (by rfl) ?_
    show (if false = true then 1 else 0) < (if s.atQuota = true then 1 else 0)
    simp [h1]
  | createDone ipre ipost i h1 h2 =>
    exact lt_inst s ipre ipost i _ h1 (by simp [Inst.crank, IPh.job, h2])
      (Or.inr ⟨by intro t; simp [Inst.unallocOk, Inst.unallocReal, h2], by simp [Inst.irank, h2]⟩)
  | exec ipre ipost i j h1 h2 h3 h4 =>
    have hj : i.ph.job = some j := by rcases h2 with h2 | h2 <;> simp [IPh.job, h2]
    have hb : i.bad = false := by rcases h2 with h2 | h2 <;> simp [Inst.bad, h2, h3]
    exact lt_job s ipre ipost i j .runL h1 hj (by simp [hb, h4, jrank])
  | apiRun ipre ipost i j h1 h2 h4 =>
    exact lt_job s ipre ipost i j .runR h1 h2 (by rw [h4]; cases i.bad <;> simp [jrank])
  | complete ipre ipost i j h1 h2 h4 =>
    refine lt_c _ _ (by rfl) (by rfl) (by rfl) ?_
    show sumBy (fun c => crank s.atQuota c.ph) (s.ctrs ++ [⟨j.uuid, i.ty, .fin⟩]) +
        sumBy Inst.crank (ipre ++ { i with ph := i.ph.setJob (some { j with ph := .done }) } :: ipost) <
      sumBy (fun c => crank s.atQuota c.ph) s.ctrs + sumBy Inst.crank s.insts
    rw [h1, isum_mid, isum_mid, sumBy_append]
    have e1 := crank_of_job i j h2
    have e2 : ({ i with ph := i.ph.setJob (some { j with ph := .done }) } : Inst).crank = jrank i.bad .done := by
      rw [crank_of_job _ _ (job_of_setJob i.ph j _ h2), bad_setJob]
    rw [h4] at e1
    have e3 : 2 ≤ jrank i.bad .runR := by cases i.bad <;> simp [jrank]
    simp only [sumBy_cons, sumBy_nil, crank, jrank] at *
    omega
  | destroyOk ipre ipost i j h1 h2 =>
    have hb : i.bad = true := by simp [Inst.bad, h2]
    have e2 : ({ i with ph := .gone } : Inst).crank = 0 := by simp [Inst.crank, IPh.job]
    have easy : ∀ (hrel : released i.ty j = []) (hcr : i.crank = 0),
        (mu { s with insts := ipre ++ { i with ph := .gone } :: ipost, ctrs := s.ctrs ++ released i.ty j }).lt (mu s) := by
      intro hrel hcr
      rw [hrel, List.append_nil]
      refine lt_inst s ipre ipost i _ h1 (by omega) (Or.inr ⟨?_, ?_⟩)
      · intro t; simp [Inst.unallocOk, Inst.unallocReal, h2]
      · simp [Inst.irank, h2]
    have hard : ∀ (c : Ctr) (hrel : released i.ty j = [c]) (hcr : crank s.atQuota c.ph < i.crank),
        (mu { s with insts := ipre ++ { i with ph := .gone } :: ipost, ctrs := s.ctrs ++ released i.ty j }).lt (mu s) := by
      intro c hrel hcr
      refine lt_c _ _ (by rfl) (by rfl) (by rfl) ?_
      show sumBy (fun c => crank s.atQuota c.ph) (s.ctrs ++ released i.ty j) +
          sumBy Inst.crank (ipre ++ { i with ph := .gone } :: ipost) <
        sumBy (fun c => crank s.atQuota c.ph) s.ctrs + sumBy Inst.crank s.insts
      rw [hrel, h1, isum_mid, isum_mid, sumBy_append]
      simp only [sumBy_cons, sumBy_nil]
      omega
    cases j with
    | none => exact easy rfl (by simp [Inst.crank, IPh.job, h2])
    | some j =>
      have ecr : i.crank = jrank true j.ph := by simp [Inst.crank, IPh.job, h2, hb]
      have hloc : crank s.atQuota .locked ≤ 7 := by cases s.atQuota <;> simp [crank]
      cases hp : j.ph with
      | done => exact easy (by simp [released, hp]) (by simp [ecr, hp, jrank])
      | starting => exact hard ⟨j.uuid, i.ty, .locked⟩ (by simp [released, hp]) (by rw [ecr, hp]; simp only [jrank]; simp; omega)
      | runL => exact hard ⟨j.uuid, i.ty, .locked⟩ (by simp [released, hp]) (by rw [ecr, hp]; simp only [jrank]; simp; omega)
      | deadL => exact hard ⟨j.uuid, i.ty, .locked⟩ (by simp [released, hp]) (by rw [ecr, hp]; simp only [jrank]; simp; omega)
      | runR => exact hard ⟨j.uuid, i.ty, .lostR⟩ (by simp [released, hp]) (by rw [ecr, hp]; simp [jrank, crank])
      | deadR => exact hard ⟨j.uuid, i.ty, .lostR⟩ (by simp [released, hp]) (by rw [ecr, hp]; simp [jrank, crank])

theorem step_fault {s t : LState} (h : Step s .fault t) : (mu t).lt (mu s) := by
  cases h <;> exact lt_f _ _ (by assumption) rfl

theorem step_quotaShutdown {s t : LState} (h : Step s .quotaShutdown t) : (mu t).lt (mu s) := by
  cases h with
  | quotaShutdown ipre ipost i h1 h2 h3 =>
    refine lt_inst' s ipre ipost i _ h1 ?_ (Or.inr ⟨?_, ?_⟩)
    · simp [Inst.crank, IPh.job]
    · intro hq; rw [h3] at hq; cases hq
    · rcases h2 with h2 | h2 <;> simp [Inst.irank, h2]

theorem step_lockQ {s t : LState} (h : Step s .lockQ t) : s.atQuota = true ∧ t.atQuota = true ∧ mu t = mu s := by
  cases h with
  | lockQ pre post c h1 h2 h3 h4 => exact ⟨h4, h4, eq_ctr_q s pre post c _ h1 h4 (by simp [h2, crank])⟩

theorem step_unlockQ {s t : LState} (h : Step s .unlockQ t) : s.atQuota = true ∧ t.atQuota = true ∧ mu t = mu s := by
  cases h with
  | unlockQ pre post c h1 h2 h3 h4 => exact ⟨h4, h4, eq_ctr_q s pre post c _ h1 h4 (by simp [h2, crank])⟩

theorem step_idle {s t : LState} (h : Step s .idle t) : t = s := by
  cases h; rfl

/-- No step increases the variant. -/
theorem step_le {s t : LState} {a : Act} (h : Step s a t) : (mu t).le (mu s) := by
  cases a with
  | fair k => exact Or.inr (step_fair h)
  | fault => exact Or.inr (step_fault h)
  | quotaShutdown => exact Or.inr (step_quotaShutdown h)
  | lockQ => exact Or.inl (step_lockQ h).2.2
  | unlockQ => exact Or.inl (step_unlockQ h).2.2
  | idle => exact Or.inl (by rw [step_idle h])

/-- A step that leaves the variant unchanged either happens at quota and stays there, or changes
nothing at all. -/
theorem step_stutter {s t : LState} {a : Act} (h : Step s a t) (he : mu t = mu s) :
    (s.atQuota = true ∧ t.atQuota = true) ∨ t = s := by
  cases a with
  | fair k => exact absurd (he ▸ step_fair h) (Mu.lt_irrefl _)
  | fault => exact absurd (he ▸ step_fault h) (Mu.lt_irrefl _)
  | quotaShutdown => exact absurd (he ▸ step_quotaShutdown h) (Mu.lt_irrefl _)
  | lockQ => exact Or.inl ⟨(step_lockQ h).1, (step_lockQ h).2.1⟩
  | unlockQ => exact Or.inl ⟨(step_unlockQ h).1, (step_unlockQ h).2.1⟩
  | idle => exact Or.inr (step_idle h)

end ArvVerif.C15
