/-
C08 treeness, part 1: parent chains in the directory table. `up dirs k n` is the n-th ancestor of
directory `k`; `DirsOK` says every chain reaches the root within `dirs.length` steps. Pigeonhole,
completeness of the fuel-bounded `ancestors`.
-/
import ArvVerif.Model.C08_FS
namespace ArvVerif.C08

/-- n-th ancestor -/
def up (dirs : List (String × Nat)) : Nat → Nat → Nat
  | k, 0 => k
  | k, n + 1 => up dirs (parentOf dirs k) n

/-- The directory table is a tree rooted at 0: the root is its own parent, parents are valid ids,
and every chain reaches the root within `dirs.length` steps. -/
structure DirsOK (dirs : List (String × Nat)) : Prop where
  nonempty : 0 < dirs.length
  root : parentOf dirs 0 = 0
  closed : ∀ k, k < dirs.length → parentOf dirs k < dirs.length
  reach : ∀ k, k < dirs.length → up dirs k dirs.length = 0

theorem up_add (dirs : List (String × Nat)) : ∀ (a b k : Nat), up dirs k (a + b) = up dirs (up dirs k a) b := by
  intro a
  induction a with
  | zero => intro b k; simp [up]
  | succ a ih => intro b k; rw [Nat.succ_add]; simp only [up]; exact ih b _

theorem up_root {dirs : List (String × Nat)} (h : parentOf dirs 0 = 0) : ∀ n, up dirs 0 n = 0 := by
  intro n
  induction n with
  | zero => rfl
  | succ n ih => simp only [up, h]; exact ih

theorem up_lt {dirs : List (String × Nat)} (hc : ∀ k, k < dirs.length → parentOf dirs k < dirs.length) :
    ∀ n k, k < dirs.length → up dirs k n < dirs.length := by
  intro n
  induction n with
  | zero => intro k h; exact h
  | succ n ih => intro k h; simp only [up]; exact ih _ (hc k h)

/-- pigeonhole: a duplicate-free list of numbers below `N` has at most `N` elements -/
theorem pigeon : ∀ (N : Nat) (l : List Nat), l.Nodup → (∀ x ∈ l, x < N) → l.length ≤ N := by
  intro N
  induction N with
  | zero =>
    intro l _ h
    cases l with
    | nil => simp
    | cons a t => exact absurd (h a (List.mem_cons_self ..)) (Nat.not_lt_zero _)
  | succ N ih =>
    intro l hn h
    by_cases hm : N ∈ l
    · have h1 := ih (l.erase N) (hn.erase N) (by
        intro x hx
        have := (List.Nodup.mem_erase_iff hn).mp hx
        have := h x this.2
        have := this
        omega)
      rw [List.length_erase_of_mem hm] at h1
      omega
    · have := ih l hn (by
        intro x hx
        have h1 := h x hx
        have : x ≠ N := fun e => hm (e ▸ hx)
        omega)
      omega

/-- the first `m` elements of the chain from `k` -/
def chainL (dirs : List (String × Nat)) : Nat → Nat → List Nat
  | _, 0 => []
  | k, m + 1 => k :: chainL dirs (parentOf dirs k) m

theorem chainL_length (dirs : List (String × Nat)) : ∀ m k, (chainL dirs k m).length = m := by
  intro m
  induction m with
  | zero => intro k; rfl
  | succ m ih => intro k; simp [chainL, ih]

theorem mem_chainL (dirs : List (String × Nat)) : ∀ m k x, x ∈ chainL dirs k m ↔ ∃ i, i < m ∧ up dirs k i = x := by
  intro m
  induction m with
  | zero => intro k x; simp [chainL]
  | succ m ih =>
    intro k x
    simp only [chainL, List.mem_cons, ih]
    constructor
    · rintro (h | ⟨i, hi, h⟩)
      · exact ⟨0, by omega, h.symm⟩
      · exact ⟨i + 1, by omega, h⟩
    · rintro ⟨i, hi, h⟩
      cases i with
      | zero => exact Or.inl h.symm
      | succ i => exact Or.inr ⟨i, by omega, h⟩

theorem nodup_chainL (dirs : List (String × Nat)) : ∀ m k, (∀ t, t < m → up dirs k t ≠ 0) → up dirs k m = 0 →
    (chainL dirs k m).Nodup := by
  intro m
  induction m with
  | zero => intro k _ _; simp [chainL]
  | succ m ih =>
    intro k hne hz
    simp only [chainL, List.nodup_cons]
    refine ⟨?_, ih _ (fun t ht => hne (t + 1) (by omega)) hz⟩
    intro hmem
    obtain ⟨i, hi, hup⟩ := (mem_chainL dirs m _ k).mp hmem
    -- up k (i+1) = k, so up k (m - i) = up k (m + 1) = 0, contradicting minimality
    have h1 : up dirs k (i + 1) = k := hup
    have h2 : up dirs k ((i + 1) + (m - i)) = up dirs k (m - i) := by rw [up_add, h1]
    have h3 : (i + 1) + (m - i) = m + 1 := by omega
    rw [h3, hz] at h2
    exact hne (m - i) (by omega) h2.symm

/-- the least step at which the chain reaches the root -/
theorem up_least (dirs : List (String × Nat)) (k : Nat) : ∀ n, (∃ j, j ≤ n ∧ up dirs k j = 0) →
    ∃ m, m ≤ n ∧ up dirs k m = 0 ∧ ∀ t, t < m → up dirs k t ≠ 0 := by
  intro n
  induction n with
  | zero =>
    rintro ⟨j, hj, h⟩
    have : j = 0 := by omega
    subst this
    exact ⟨0, Nat.le_refl _, h, fun t ht => absurd ht (Nat.not_lt_zero _)⟩
  | succ n ih =>
    rintro ⟨j, hj, h⟩
    by_cases hex : ∃ j', j' ≤ n ∧ up dirs k j' = 0
    · obtain ⟨m, h1, h2, h3⟩ := ih hex
      exact ⟨m, by omega, h2, h3⟩
    · have hjn : j = n + 1 := by
        apply Classical.byContradiction; intro hne
        exact hex ⟨j, by omega, h⟩
      subst hjn
      exact ⟨n + 1, Nat.le_refl _, h, fun t ht hz => hex ⟨t, by omega, hz⟩⟩

/-- **Pigeonhole on parent chains**: in a table whose parents are valid ids and whose root is its own
parent, a chain that reaches the root at all reaches it within `dirs.length` steps. -/
theorem up_within {dirs : List (String × Nat)} (hroot : parentOf dirs 0 = 0)
    (hc : ∀ k, k < dirs.length → parentOf dirs k < dirs.length) {k : Nat} (hk : k < dirs.length)
    (h : ∃ n, up dirs k n = 0) : up dirs k dirs.length = 0 := by
  obtain ⟨n, hn⟩ := h
  obtain ⟨m, _, hm, hmin⟩ := up_least dirs k n ⟨n, Nat.le_refl _, hn⟩
  have hnd := nodup_chainL dirs m k hmin hm
  have hlt : ∀ x ∈ chainL dirs k m, x < dirs.length := by
    intro x hx
    obtain ⟨i, _, hi⟩ := (mem_chainL dirs m k x).mp hx
    rw [← hi]; exact up_lt hc i k hk
  have hle := pigeon dirs.length _ hnd hlt
  rw [chainL_length] at hle
  have : dirs.length = m + (dirs.length - m) := by omega
  rw [this, up_add, hm]
  exact up_root hroot _

/-- **Completeness of the fuel-bounded `ancestors`** (the `needLock` walk of Rename): when the chain
from `d` reaches the root within `fuel` steps, the list holds exactly the ancestors-or-self of `d`. -/
theorem mem_ancestors {dirs : List (String × Nat)} (hroot : parentOf dirs 0 = 0) :
    ∀ (fuel d k : Nat), up dirs d fuel = 0 → (k ∈ ancestors dirs fuel d ↔ ∃ i, up dirs d i = k) := by
  intro fuel
  induction fuel with
  | zero =>
    intro d k h
    have hd : d = 0 := h
    subst hd
    simp only [ancestors, List.mem_cons, List.not_mem_nil, or_false]
    constructor
    · intro hk; exact ⟨0, hk.symm⟩
    · rintro ⟨i, hi⟩; rw [← hi, up_root hroot]
  | succ fuel ih =>
    intro d k h
    unfold ancestors
    by_cases hp : (parentOf dirs d == d) = true
    · rw [if_pos hp]
      have hpd : parentOf dirs d = d := by simpa using hp
      have hfix : ∀ i, up dirs d i = d := by
        intro i; induction i with
        | zero => rfl
        | succ i ihh => simp only [up, hpd]; exact ihh
      simp only [List.mem_cons, List.not_mem_nil, or_false]
      constructor
      · intro hk; exact ⟨0, hk.symm⟩
      · rintro ⟨i, hi⟩; rw [← hi, hfix]
    · rw [if_neg hp]
      simp only [List.mem_cons]
      have h' : up dirs (parentOf dirs d) fuel = 0 := h
      rw [ih (parentOf dirs d) k h']
      constructor
      · rintro (hk | ⟨i, hi⟩)
        · exact ⟨0, hk.symm⟩
        · exact ⟨i + 1, hi⟩
      · rintro ⟨i, hi⟩
        cases i with
        | zero => exact Or.inl hi.symm
        | succ i => exact Or.inr ⟨i, hi⟩

end ArvVerif.C08
