/-
Helper lemmas for the C01 fault model (Model/C01_Fault.lean). Core Lean only.
-/
import ArvVerif.Model.C01_Fault
import ArvVerif.Proofs.C01
namespace ArvVerif.C01
set_option linter.unusedSectionVars false

section
variable {δ β : Type} [DecidableEq δ] [DecidableEq β]

theorem volCompare_same (hash : β → δ) (size : β → Nat) (v : Vol δ β) (h : δ) (body : β)
    (hc : volCompare hash size v h body = .same) : v.files h = some body ∧ size body ≤ blockSize := by
  unfold volCompare at hc
  cases hf : v.files h with
  | none => simp [hf] at hc
  | some f =>
    simp only [hf] at hc
    by_cases hs : size f > blockSize
    · simp [hs] at hc
    · simp only [hs, if_false] at hc
      by_cases he : f = body
      · subst he; exact ⟨rfl, by omega⟩
      · simp only [he, if_false, collisionOrCorrupt] at hc
        split at hc <;> cases hc

theorem volCompare_collision (hash : β → δ) (size : β → Nat) (v : Vol δ β) (h : δ) (body : β)
    (hc : volCompare hash size v h body = .collision) :
    ∃ f, v.files h = some f ∧ f ≠ body ∧ hash f = h := by
  unfold volCompare at hc
  cases hf : v.files h with
  | none => simp [hf] at hc
  | some f =>
    simp only [hf] at hc
    by_cases hs : size f > blockSize
    · simp [hs] at hc
    · simp only [hs, if_false] at hc
      by_cases he : f = body
      · simp [he] at hc
      · simp only [he, if_false, collisionOrCorrupt] at hc
        by_cases hh : hash f = h
        · exact ⟨f, rfl, he, hh⟩
        · simp [hh] at hc

/-- What one `Put` may do to one mount with faults: nothing, or — on a writable, non-full mount
whose block path takes the write — replace the file under `h` by `body`. Fault flags never change. -/
def FrameF (h : δ) (body : β) (v v' : FVol δ β) : Prop :=
  v' = v ∨ (v.vol.ro = false ∧ v.vol.full = false ∧ v.noWrite h = false ∧
    v' = { v with vol := { v.vol with files := update v.vol.files h body } })

theorem frameF_refl (h : δ) (body : β) : ∀ (vols : List (FVol δ β)), Pointwise (FrameF h body) vols vols
  | [] => .nil
  | _ :: rest => .cons (.inl rfl) (frameF_refl h body rest)

theorem compareAndTouchF_touched (hash : β → δ) (size : β → Nat) (h : δ) (body : β) :
    ∀ (vols : List (FVol δ β)) (r : Nat),
      compareAndTouchF hash size h body vols = .touched r →
      ∃ v ∈ vols, v.vol.ro = false ∧ v.noTouch h = false ∧ v.vol.files h = some body ∧
        size body ≤ blockSize := by
  intro vols
  induction vols with
  | nil => intro r hr; simp [compareAndTouchF] at hr
  | cons v rest ih =>
    intro r hr
    have lift : (∃ v ∈ rest, v.vol.ro = false ∧ v.noTouch h = false ∧ v.vol.files h = some body ∧
          size body ≤ blockSize) →
        ∃ v' ∈ v :: rest, v'.vol.ro = false ∧ v'.noTouch h = false ∧ v'.vol.files h = some body ∧
          size body ≤ blockSize := by
      rintro ⟨w, hw, hp⟩; exact ⟨w, List.mem_cons_of_mem _ hw, hp⟩
    unfold compareAndTouchF at hr
    by_cases hro : v.vol.ro = true
    · simp only [hro, if_true] at hr
      exact lift (ih r hr)
    · have hro' : v.vol.ro = false := by simpa using hro
      simp only [hro', Bool.false_eq_true, if_false] at hr
      cases hc : volCompare hash size v.vol h body with
      | collision => simp [hc] at hr
      | same =>
        simp only [hc] at hr
        by_cases ht : volTouchF v h = true
        · have hs := volCompare_same hash size v.vol h body hc
          have hnt : v.noTouch h = false := by
            unfold volTouchF at ht
            cases hn : v.noTouch h
            · rfl
            · simp [hn] at ht
          exact ⟨v, List.mem_cons_self, hro', hnt, hs.1, hs.2⟩
        · rw [if_neg ht] at hr
          exact lift (ih r hr)
      | notExist => simp only [hc] at hr; exact lift (ih r hr)
      | tooLong => simp only [hc] at hr; exact lift (ih r hr)
      | corrupt => simp only [hc] at hr; exact lift (ih r hr)

theorem compareAndTouchF_collision (hash : β → δ) (size : β → Nat) (h : δ) (body : β) :
    ∀ (vols : List (FVol δ β)),
      compareAndTouchF hash size h body vols = .collision →
      ∃ v ∈ vols, v.vol.ro = false ∧ ∃ f, v.vol.files h = some f ∧ f ≠ body ∧ hash f = h := by
  intro vols
  induction vols with
  | nil => intro hr; simp [compareAndTouchF] at hr
  | cons v rest ih =>
    intro hr
    have lift : (∃ v ∈ rest, v.vol.ro = false ∧ ∃ f, v.vol.files h = some f ∧ f ≠ body ∧ hash f = h) →
        ∃ v' ∈ v :: rest, v'.vol.ro = false ∧ ∃ f, v'.vol.files h = some f ∧ f ≠ body ∧ hash f = h := by
      rintro ⟨w, hw, hp⟩; exact ⟨w, List.mem_cons_of_mem _ hw, hp⟩
    unfold compareAndTouchF at hr
    by_cases hro : v.vol.ro = true
    · simp only [hro, if_true] at hr
      exact lift (ih hr)
    · have hro' : v.vol.ro = false := by simpa using hro
      simp only [hro', Bool.false_eq_true, if_false] at hr
      cases hc : volCompare hash size v.vol h body with
      | collision => exact ⟨v, List.mem_cons_self, hro', volCompare_collision hash size v.vol h body hc⟩
      | same =>
        simp only [hc] at hr
        by_cases ht : volTouchF v h = true
        · rw [if_pos ht] at hr; cases hr
        · rw [if_neg ht] at hr; exact lift (ih hr)
      | notExist => simp only [hc] at hr; exact lift (ih hr)
      | tooLong => simp only [hc] at hr; exact lift (ih hr)
      | corrupt => simp only [hc] at hr; exact lift (ih hr)

/-- the four ways `volWriteF` can end, with what each says about the mount -/
theorem volWriteF_cases (v : FVol δ β) (h : δ) (body : β) :
    (v.vol.ro = true ∧ volWriteF v h body = (.readOnly, v)) ∨
    (v.vol.ro = false ∧ v.vol.full = true ∧ volWriteF v h body = (.full, v)) ∨
    (v.vol.ro = false ∧ v.vol.full = false ∧ v.noWrite h = true ∧ volWriteF v h body = (.ioError, v)) ∨
    (v.vol.ro = false ∧ v.vol.full = false ∧ v.noWrite h = false ∧
      volWriteF v h body = (.ok, { v with vol := { v.vol with files := update v.vol.files h body } })) := by
  unfold volWriteF
  by_cases h1 : v.vol.ro = true
  · exact .inl ⟨h1, by simp [h1]⟩
  · have h1' : v.vol.ro = false := by simpa using h1
    by_cases h2 : v.vol.full = true
    · exact .inr (.inl ⟨h1', h2, by simp [h1', h2]⟩)
    · have h2' : v.vol.full = false := by simpa using h2
      by_cases h3 : v.noWrite h = true
      · exact .inr (.inr (.inl ⟨h1', h2', h3, by simp [h1', h2', h3]⟩))
      · have h3' : v.noWrite h = false := by simpa using h3
        exact .inr (.inr (.inr ⟨h1', h2', h3', by simp [h1', h2', h3']⟩))

theorem volWriteF_ok (v v' : FVol δ β) (h : δ) (body : β) (hw : volWriteF v h body = (.ok, v')) :
    v.vol.ro = false ∧ v.vol.full = false ∧ v.noWrite h = false ∧
      v' = { v with vol := { v.vol with files := update v.vol.files h body } } := by
  rcases volWriteF_cases v h body with ⟨_, hw'⟩ | ⟨_, _, hw'⟩ | ⟨_, _, _, hw'⟩ | ⟨h1, h2, h3, hw'⟩
  · rw [hw'] at hw; cases hw
  · rw [hw'] at hw; cases hw
  · rw [hw'] at hw; cases hw
  · rw [hw'] at hw
    exact ⟨h1, h2, h3, (Prod.mk.inj hw).2.symm⟩

theorem putLoopF_ok (h : δ) (body : β) :
    ∀ (vols : List (FVol δ β)) (r : Nat) (vs : List (FVol δ β)),
      putLoopF h body vols = .ok r vs →
      Pointwise (FrameF h body) vols vs ∧ ∃ v' ∈ vs, v'.vol.ro = false ∧ v'.vol.files h = some body := by
  intro vols
  induction vols with
  | nil => intro r vs hp; simp [putLoopF] at hp
  | cons v rest ih =>
    intro r vs hp
    -- the "keep v, recurse" branches share this step
    have keep : ∀ (r' : Nat) (vs' : List (FVol δ β)), putLoopF h body rest = .ok r' vs' → v :: vs' = vs →
        Pointwise (FrameF h body) (v :: rest) vs ∧ ∃ v' ∈ vs, v'.vol.ro = false ∧ v'.vol.files h = some body := by
      intro r' vs' hres hvs
      subst hvs
      have := ih _ _ hres
      exact ⟨.cons (.inl rfl) this.1, by
        rcases this.2 with ⟨w, hw, hp⟩; exact ⟨w, List.mem_cons_of_mem _ hw, hp⟩⟩
    unfold putLoopF at hp
    rcases volWriteF_cases v h body with ⟨hro, _⟩ | ⟨hro, _, hw⟩ | ⟨hro, _, _, hw⟩ | ⟨hro, hfu, hnw, hw⟩
    · simp only [hro, if_true] at hp
      cases hres : putLoopF h body rest with
      | ok r' vs' => simp only [hres, PutLoopResultF.ok.injEq] at hp; exact keep r' vs' hres hp.2
      | allFull => simp [hres] at hp
      | failed => simp [hres] at hp
    · rw [if_neg (by rw [hro]; simp)] at hp; simp only [hw] at hp
      cases hres : putLoopF h body rest with
      | ok r' vs' => simp only [hres, PutLoopResultF.ok.injEq] at hp; exact keep r' vs' hres hp.2
      | allFull => simp [hres] at hp
      | failed => simp [hres] at hp
    · rw [if_neg (by rw [hro]; simp)] at hp; simp only [hw] at hp
      cases hres : putLoopF h body rest with
      | ok r' vs' => simp only [hres, PutLoopResultF.ok.injEq] at hp; exact keep r' vs' hres hp.2
      | allFull => simp [hres] at hp
      | failed => simp [hres] at hp
    · rw [if_neg (by rw [hro]; simp)] at hp; simp only [hw] at hp
      cases hp
      refine ⟨.cons (.inr ⟨hro, hfu, hnw, rfl⟩) (frameF_refl h body rest), ?_⟩
      exact ⟨_, List.mem_cons_self, hro, by simp [update]⟩

/-- The loop ends in `failed` (GenericError) only if some writable, non-full mount refused the write. -/
theorem putLoopF_failed (h : δ) (body : β) :
    ∀ (vols : List (FVol δ β)), putLoopF h body vols = .failed →
      ∃ v ∈ vols, v.vol.ro = false ∧ v.vol.full = false ∧ v.noWrite h = true := by
  intro vols
  induction vols with
  | nil => intro hp; simp [putLoopF] at hp
  | cons v rest ih =>
    intro hp
    have lift : (∃ w ∈ rest, w.vol.ro = false ∧ w.vol.full = false ∧ w.noWrite h = true) →
        ∃ w ∈ v :: rest, w.vol.ro = false ∧ w.vol.full = false ∧ w.noWrite h = true := by
      rintro ⟨w, hw, hp⟩; exact ⟨w, List.mem_cons_of_mem _ hw, hp⟩
    unfold putLoopF at hp
    rcases volWriteF_cases v h body with ⟨hro, _⟩ | ⟨hro, _, hw⟩ | ⟨hro, hfu, hnw, _⟩ | ⟨hro, _, _, hw⟩
    · simp only [hro, if_true] at hp
      cases hres : putLoopF h body rest with
      | ok r' vs' => simp [hres] at hp
      | allFull => simp [hres] at hp
      | failed => exact lift (ih hres)
    · rw [if_neg (by rw [hro]; simp)] at hp; simp only [hw] at hp
      cases hres : putLoopF h body rest with
      | ok r' vs' => simp [hres] at hp
      | allFull => simp [hres] at hp
      | failed => exact lift (ih hres)
    · exact ⟨v, List.mem_cons_self, hro, hfu, hnw⟩
    · rw [if_neg (by rw [hro]; simp)] at hp; simp only [hw] at hp
      cases hp

theorem nthWritableF_set (h : δ) (body : β) :
    ∀ (vols : List (FVol δ β)) (k : Nat) (v v' : FVol δ β),
      nthWritableF vols k = some v → volWriteF v h body = (.ok, v') →
      Pointwise (FrameF h body) vols (setNthWritableF v' vols k) ∧ v' ∈ setNthWritableF v' vols k := by
  intro vols
  induction vols with
  | nil => intro k v v' hn; simp [nthWritableF] at hn
  | cons w rest ih =>
    intro k v v' hn hw
    unfold nthWritableF at hn
    unfold setNthWritableF
    by_cases hro : w.vol.ro = true
    · simp only [hro, if_true] at hn ⊢
      have := ih k v v' hn hw
      exact ⟨.cons (.inl rfl) this.1, List.mem_cons_of_mem _ this.2⟩
    · simp only [hro] at hn ⊢
      cases k with
      | zero =>
        simp only at hn ⊢
        cases hn
        have := volWriteF_ok w v' h body hw
        exact ⟨.cons (.inr this) (frameF_refl h body rest), List.mem_cons_self⟩
      | succ k =>
        simp only at hn ⊢
        have := ih k v v' hn hw
        exact ⟨.cons (.inl rfl) this.1, List.mem_cons_of_mem _ this.2⟩

theorem nthWritableF_mem :
    ∀ (vols : List (FVol δ β)) (k : Nat) (v : FVol δ β), nthWritableF vols k = some v → v ∈ vols := by
  intro vols
  induction vols with
  | nil => intro k v hn; simp [nthWritableF] at hn
  | cons w rest ih =>
    intro k v hn
    unfold nthWritableF at hn
    by_cases hro : w.vol.ro = true
    · simp only [hro, if_true] at hn
      exact List.mem_cons_of_mem _ (ih k v hn)
    · simp only [hro] at hn
      cases k with
      | zero => simp only at hn; cases hn; exact List.mem_cons_self
      | succ k => simp only at hn; exact List.mem_cons_of_mem _ (ih k v hn)

/-- What `PutBlock` guarantees about its result over mounts with faults, whatever branch was taken. -/
structure PutSpecF (h : δ) (body : β) (vols : List (FVol δ β))
    (res : PutOutcome × List (FVol δ β) × Nat) : Prop where
  frame : Pointwise (FrameF h body) vols res.2.1
  stored : ∀ r, res.1 = .ok r → ∃ v' ∈ res.2.1, v'.vol.ro = false ∧ v'.vol.files h = some body
  unchanged : (∀ r, res.1 ≠ .ok r) → res.2.1 = vols
  /-- GenericError needs a write fault on a writable, non-full mount -/
  generic : res.1 = .generic → ∃ v ∈ vols, v.vol.ro = false ∧ v.vol.full = false ∧ v.noWrite h = true

theorem putViaLoopF_spec (h : δ) (body : β) (vols : List (FVol δ β)) (c : Nat) :
    PutSpecF h body vols (putViaLoopF h body vols c) := by
  unfold putViaLoopF
  by_cases hn : writableCountF vols = 0
  · simp only [hn, if_true]
    exact ⟨frameF_refl h body vols, (by intro r hr; cases hr), fun _ => rfl, (by intro hg; cases hg)⟩
  · simp only [hn, if_false]
    cases hp : putLoopF h body vols with
    | ok r vs =>
      have := putLoopF_ok h body vols r vs hp
      exact ⟨this.1, fun _ _ => this.2, fun hno => absurd rfl (hno r), (by intro hg; cases hg)⟩
    | allFull =>
      exact ⟨frameF_refl h body vols, (by intro r hr; cases hr), fun _ => rfl, (by intro hg; cases hg)⟩
    | failed =>
      exact ⟨frameF_refl h body vols, (by intro r hr; cases hr), fun _ => rfl,
        fun _ => putLoopF_failed h body vols hp⟩

theorem putNewF_spec (h : δ) (body : β) (vols : List (FVol δ β)) (rr : Nat) :
    PutSpecF h body vols (putNewF h body vols rr) := by
  unfold putNewF
  by_cases hn : writableCountF vols = 0
  · simp only [hn, if_true]; exact putViaLoopF_spec h body vols rr
  · simp only [hn, if_false]
    cases hnth : nthWritableF vols ((rr + 1) % writableCountF vols) with
    | none => exact putViaLoopF_spec h body vols (rr + 1)
    | some v =>
      simp only
      rcases hw : volWriteF v h body with ⟨wr, v'⟩
      cases wr with
      | ok =>
        have := nthWritableF_set h body vols _ v v' hnth hw
        have hwo := volWriteF_ok v v' h body hw
        refine ⟨this.1, fun _ _ => ⟨v', this.2, ?_, ?_⟩, fun hno => absurd rfl (hno _), (by intro hg; cases hg)⟩
        · rw [hwo.2.2.2]; exact hwo.1
        · rw [hwo.2.2.2]; simp [update]
      | readOnly => exact putViaLoopF_spec h body vols (rr + 1)
      | full => exact putViaLoopF_spec h body vols (rr + 1)
      | ioError => exact putViaLoopF_spec h body vols (rr + 1)

theorem putBlockF_spec (hash : β → δ) (size : β → Nat) (vols : List (FVol δ β)) (rr : Nat) (h : δ)
    (body : β) : PutSpecF h body vols (putBlockF hash size vols rr h body) := by
  unfold putBlockF
  by_cases hh : hash body = h
  · simp only [hh, ne_eq, not_true_eq_false, if_false]
    cases hc : compareAndTouchF hash size h body vols with
    | touched r =>
      rcases compareAndTouchF_touched hash size h body vols r hc with ⟨v, hv, hro, _, hf, _⟩
      exact ⟨frameF_refl h body vols, fun _ _ => ⟨v, hv, hro, hf⟩, fun _ => rfl, (by intro hg; cases hg)⟩
    | collision =>
      exact ⟨frameF_refl h body vols, (by intro r hr; cases hr), fun _ => rfl, (by intro hg; cases hg)⟩
    | miss => exact putNewF_spec h body vols rr
  · simp only [ne_eq, hh, not_false_eq_true, if_true]
    exact ⟨frameF_refl h body vols, (by intro r hr; cases hr), fun _ => rfl, (by intro hg; cases hg)⟩

theorem putBlockF_ok_hash (hash : β → δ) (size : β → Nat) (vols : List (FVol δ β)) (rr : Nat) (h : δ)
    (body : β) (r : Nat) (hr : (putBlockF hash size vols rr h body).1 = .ok r) : hash body = h := by
  unfold putBlockF at hr
  by_cases hh : hash body = h
  · exact hh
  · simp [hh] at hr

/-- CollisionError comes out of `PutBlock` only from `CompareAndTouch`. -/
theorem putBlockF_collision (hash : β → δ) (size : β → Nat) (vols : List (FVol δ β)) (rr : Nat) (h : δ)
    (body : β) (hr : (putBlockF hash size vols rr h body).1 = .collision) :
    ∃ v ∈ vols, v.vol.ro = false ∧ ∃ f, v.vol.files h = some f ∧ f ≠ body ∧ hash f = h := by
  unfold putBlockF at hr
  by_cases hh : hash body = h
  · simp only [hh, ne_eq, not_true_eq_false, if_false] at hr
    cases hc : compareAndTouchF hash size h body vols with
    | touched r => simp [hc] at hr
    | collision => exact compareAndTouchF_collision hash size h body vols hc
    | miss =>
      simp only [hc] at hr
      -- the write path never reports a collision
      exfalso
      unfold putNewF at hr
      have hvia : ∀ c, (putViaLoopF h body vols c).1 ≠ .collision := by
        intro c
        unfold putViaLoopF
        by_cases hn : writableCountF vols = 0
        · simp [hn]
        · simp only [hn, if_false]
          cases putLoopF h body vols <;> simp
      by_cases hn : writableCountF vols = 0
      · simp only [hn, if_true] at hr; exact hvia _ hr
      · simp only [hn, if_false] at hr
        cases hnth : nthWritableF vols ((rr + 1) % writableCountF vols) with
        | none => simp only [hnth] at hr; exact hvia _ hr
        | some v =>
          simp only [hnth] at hr
          rcases hw : volWriteF v h body with ⟨wr, v'⟩
          cases wr <;> simp only [hw] at hr
          · cases hr
          · exact hvia _ hr
          · exact hvia _ hr
          · exact hvia _ hr
  · simp [hh] at hr

end

end ArvVerif.C01
