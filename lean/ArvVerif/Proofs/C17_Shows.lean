/-
C17 — the specification of the scan: `Shows h cfg d s` = "the output path `d` shows the container
path `s`", defined by the documented way of resolving links, with no reference to traversal order,
budgets or the plan:
  * the output root shows the output directory;
  * if `d` shows a real directory `s`, then `d/c` shows `s/c` for every entry `c` that is neither a
    secret mount nor a mount point;
  * if `d` shows a symbolic link whose target is taken into the output directory's mount (not under
    a secret mount, no deeper mount), then `d` shows that target.
`scan_sound`: under `Direct`, everything a successful scan plans to create (directories, regular
files, `.keep` placeholders) is justified by `Shows`.
-/
import ArvVerif.Proofs.C17_Canon
namespace ArvVerif.C17

/-- the host node at the (canonical) container path `s` -/
def nodeAt (h : Host) (cfg : Cfg) (s : Path) : Option Node := h.get (hostPath cfg s)

inductive Shows (h : Host) (cfg : Cfg) : Path → Path → Prop
  | root : Shows h cfg [] cfg.ctrOut
  | child {d s : Path} {c : Name} : Shows h cfg d s → nodeAt h cfg s = some .dir →
      (∃ n, nodeAt h cfg (s ++ [c]) = some n) →
      (s ++ [c]) ∉ cfg.secrets → skipMount cfg (s ++ [c]) = false → Shows h cfg (d ++ [c]) (s ++ [c])
  | link {d s : Path} {a : Bool} {t : Path} : Shows h cfg d s → nodeAt h cfg s = some (.link a t) →
      InOut cfg (linkTarget s a t) → Shows h cfg d (linkTarget s a t)

/-- a planned regular file / placeholder / directory is justified -/
def FileJust (h : Host) (cfg : Cfg) (f : Path × Option Path) : Prop :=
  match f.2 with
  | some p => ∃ s c, Shows h cfg f.1 s ∧ p = hostPath cfg s ∧ h.get p = some (.file c)
  | none => ∃ d s, f.1 = d ++ [".keep"] ∧ d ≠ [] ∧ Shows h cfg d s ∧ nodeAt h cfg s = some .dir ∧
      h.children (hostPath cfg s) = []

def DirJust (h : Host) (cfg : Cfg) (d : Path) : Prop :=
  d ≠ [] ∧ ∃ s, Shows h cfg d s ∧ nodeAt h cfg s = some .dir

structure Just (h : Host) (cfg : Cfg) (st : Plan) : Prop where
  files : ∀ f ∈ st.files, FileJust h cfg f
  dirs : ∀ d ∈ st.dirs, DirJust h cfg d

theorem Just.addFrags {h : Host} {cfg : Cfg} {st : Plan} (j : Just h cfg st) (fs : List Frag) :
    Just h cfg (st.addFrags fs) := ⟨j.files, j.dirs⟩

theorem Just.addDir {h : Host} {cfg : Cfg} {st : Plan} (j : Just h cfg st) (d : Path)
    (hd : d ≠ [] → DirJust h cfg d) : Just h cfg (st.addDir d) := by
  unfold Plan.addDir; split
  · exact j
  · rename_i hne
    refine ⟨j.files, ?_⟩
    intro x hx
    simp only [List.mem_append, List.mem_singleton] at hx
    rcases hx with hx | rfl
    · exact j.dirs x hx
    · exact hd hne

theorem Just.addKeep {h : Host} {cfg : Cfg} {st : Plan} (j : Just h cfg st) (d : Path)
    (hd : d ≠ [] → FileJust h cfg (d ++ [".keep"], none)) : Just h cfg (st.addKeep d) := by
  unfold Plan.addKeep; split
  · exact j
  · rename_i hne
    refine ⟨?_, j.dirs⟩
    intro x hx
    simp only [List.mem_append, List.mem_singleton] at hx
    rcases hx with hx | rfl
    · exact j.files x hx
    · exact hd hne

theorem Just.addFile {h : Host} {cfg : Cfg} {st : Plan} (j : Just h cfg st) (d p : Path)
    (hd : FileJust h cfg (d, some p)) : Just h cfg (st.addFile d p) := by
  refine ⟨?_, j.dirs⟩
  intro x hx
  simp only [Plan.addFile, List.mem_append, List.mem_singleton] at hx
  rcases hx with hx | rfl
  · exact j.files x hx
  · exact hd

/-- what the caller of each call guarantees -/
def CallJust (h : Host) (cfg : Cfg) : Call → Prop
  | .mount dest src _ _ => InOut cfg src → Shows h cfg dest src ∧ Canon h cfg src
  | .below _ src _ ms => ¬ ProperPrefix src cfg.ctrOut ∧ ∀ e ∈ ms, e ∈ cfg.mounts
  | .host dest src _ _ => Shows h cfg dest src ∧ Canon h cfg src
  | .children dest src _ names =>
    Shows h cfg dest src ∧ Canon h cfg src ∧ nodeAt h cfg src = some .dir ∧
    ∀ c ∈ names, CleanName c ∧ ∃ n, nodeAt h cfg (src ++ [c]) = some n

theorem prefix_append_drop (a b : Path) (hp : a.isPrefixOf b = true) : a ++ b.drop a.length = b := by
  rw [List.isPrefixOf_iff_prefix] at hp
  obtain ⟨t, rfl⟩ := hp
  simp

theorem eq_of_prefix_of_length (a b : Path) (hp : a.isPrefixOf b = true) (hl : b.length = a.length) : b = a :=
  (isPrefixOf_eq_of_length a b hp (by omega)).symm

/-- extending a canonical directory path by one of its entries stays canonical -/
theorem Canon.child {h : Host} {cfg : Cfg} {s : Path} (hc : Canon h cfg s) (c : Name) (hcl : CleanName c)
    (hdir : nodeAt h cfg s = some .dir) : Canon h cfg (s ++ [c]) := by
  refine ⟨isPrefixOf_append_right _ _ _ hc.pre, ?_, ?_⟩
  · intro x hx
    simp only [List.mem_append, List.mem_singleton] at hx
    rcases hx with hx | rfl
    · exact hc.clean x hx
    · exact hcl
  · intro k hk1 hk2 a t
    simp only [List.length_append, List.length_singleton] at hk2
    by_cases hks : k < s.length
    · have : (s ++ [c]).take k = s.take k := by
        rw [List.take_append_of_le_length (by omega)]
      rw [this]; exact hc.nolink k hk1 hks a t
    · have hk : k = s.length := by omega
      have : (s ++ [c]).take k = s := by rw [hk]; simp
      rw [this]
      have : h.get (cfg.hostOut ++ s.drop cfg.ctrOut.length) = some .dir := hdir
      rw [this]; simp

/-- the node a call on a canonical path finds -/
theorem host_node (h : Host) (cfg : Cfg) (wf : CfgWF h cfg) (hout : h.get cfg.hostOut = some .dir)
    (s : Path) (hc : Canon h cfg s) (p : Path) (n : Node)
    (hf : namei h [] (hostPath cfg s) 0 = .found p n) : p = hostPath cfg s ∧ nodeAt h cfg s = some n := by
  obtain ⟨hp, hne, hnil⟩ := namei_canon h cfg wf s hc p n hf
  refine ⟨hp, ?_⟩
  by_cases hl : s.length = cfg.ctrOut.length
  · have hs : s = cfg.ctrOut := eq_of_prefix_of_length _ _ hc.pre hl
    rw [hnil hl, hs]
    unfold nodeAt; rw [hostPath_out]; exact hout
  · unfold nodeAt; rw [← hp]; exact hne hl

theorem scan_sound_walk (h : Host) (cfg : Cfg) (hwf : HostWF h) (wf : CfgWF h cfg)
    (hout : h.get cfg.hostOut = some .dir) (hs : supported cfg = true) (hdirect : Direct h cfg) :
    ∀ (fuel : Nat) (c : Call) (st st' : Plan), walk h cfg fuel c st = .ok st' →
      CallJust h cfg c → Just h cfg st → Just h cfg st' := by
  intro fuel
  induction fuel with
  | zero => intro c st st' hw; rw [walk] at hw; cases hw
  | succ fuel ih =>
    intro c st st' hw hcj hj
    cases c with
    | mount dest src n below =>
      rw [walk] at hw
      simp only at hw
      split at hw
      · cases hw; exact hj
      · rename_i hsec
        cases hsm : srcMount cfg src with
        | none => rw [hsm] at hw; cases hw
        | some b =>
          obtain ⟨root, m⟩ := b
          rw [hsm] at hw hsec
          obtain ⟨hmem, hpre, hlen⟩ := srcMount_mem cfg src (root, m) hsm
          simp only at hw
          have hcont : ∀ s1 : Plan, Just h cfg s1 →
              (if below = true then walk h cfg fuel (.below dest src n cfg.mounts) s1 else .ok s1) = .ok st' →
              Just h cfg st' := by
            intro s1 hj1 hc
            split at hc
            · refine ih _ _ _ hc ⟨?_, fun e he => he⟩ hj1
              intro hpp
              exact supported_above cfg hs (root, m) hmem
                ⟨List.isPrefixOf_iff_prefix.mpr
                  ((List.isPrefixOf_iff_prefix.mp hpre).trans (List.isPrefixOf_iff_prefix.mp hpp.1)),
                 Nat.lt_of_le_of_lt (prefix_length_le _ _ hpre) hpp.2⟩
            · cases hc; exact hj1
          split at hw
          · exact hcont _ hj hw
          · rename_i hex
            split at hw
            · rename_i hk
              split at hw
              · rename_i hr
                have hin : InOut cfg src := by
                  refine ⟨?_, m, ?_, hk, by simpa using hex⟩
                  · rw [hsm]; simpa using hsec
                  · rw [hsm, hr]
                exact ih _ _ _ hw (hcj hin) hj
              · cases hw
            · split at hw
              · cases hw
              · split at hw
                · cases hc : m.coll with
                  | none => rw [hc] at hw; cases hw
                  | some c =>
                    rw [hc] at hw
                    exact hcont _ (hj.addFrags _) hw
                · cases hw
    | below dest src n ms =>
      cases ms with
      | nil => rw [walk] at hw; cases hw; exact hj
      | cons e ms =>
        obtain ⟨mnt, m⟩ := e
        obtain ⟨hpp, hsub⟩ := hcj
        rw [walk] at hw
        have hrest : CallJust h cfg (.below dest src n ms) :=
          ⟨hpp, fun e he => hsub e (List.mem_cons_of_mem _ he)⟩
        split at hw
        · rename_i hc
          obtain ⟨a, ha, hr⟩ := bind_eq_ok _ _ _ hw
          refine ih _ _ _ hr hrest (ih _ _ _ ha ?_ hj)
          -- the mount below is not the output directory, so it is not `InOut`
          intro hin
          exfalso
          obtain ⟨_, m', hsm', _, _⟩ := hin
          have hm : (mnt, m) ∈ cfg.mounts := hsub _ (List.mem_cons_self ..)
          obtain ⟨m'', hself⟩ := srcMount_self cfg (mnt, m) hm (by show 0 < mnt.length; have := hc.2.1; omega)
          have : mnt = cfg.ctrOut := by
            have h1 : srcMount cfg mnt = some (mnt, m'') := hself
            rw [h1] at hsm'
            simp at hsm'
            exact hsm'.1
          exact hpp ⟨by rw [← this]; exact hc.1, by rw [← this]; exact hc.2.1⟩
        · exact ih _ _ _ hw hrest hj
    | host dest src n inc =>
      obtain ⟨hsh, hcan⟩ := hcj
      rw [walk] at hw
      obtain ⟨a, ha, hr⟩ := bind_eq_ok _ _ _ hw
      have hja : Just h cfg a := by
        split at ha
        · exact ih _ _ _ ha ⟨not_properPrefix_of_prefix _ _ hcan.pre, fun e he => he⟩ hj
        · cases ha; exact hj
      have hnm : namei h [] (cfg.hostOut ++ src.drop cfg.ctrOut.length) 0
          = namei h [] (hostPath cfg src) 0 := rfl
      rw [hnm] at hr
      cases hst : namei h [] (hostPath cfg src) 0 with
      | enoent => rw [hst] at hr; cases hr
      | enotdir => rw [hst] at hr; cases hr
      | eloop => rw [hst] at hr; cases hr
      | found p node =>
        rw [hst] at hr
        obtain ⟨hp, hnode⟩ := host_node h cfg wf hout src hcan p node hst
        cases node with
        | special => cases hr
        | file content =>
          simp only at hr
          cases hr
          exact hja.addFile _ _ ⟨src, content, hsh, hp, by rw [hp]; exact hnode⟩
        | link abs t =>
          simp only at hr
          split at hr
          · cases hr
          · refine ih _ _ _ hr ?_ hja
            intro hin
            refine ⟨Shows.link hsh hnode hin, ?_⟩
            -- the link is an entry of the host tree: `Direct` applies
            have hne : hostPath cfg src ≠ [] ∨ True := Or.inr trivial
            have hpne : p ≠ [] := by
              intro hp0
              have : h.get p = some (.link abs t) := by rw [hp]; exact hnode
              rw [hp0] at this
              simp [Host.get] at this
            have hmem : (p, Node.link abs t) ∈ h := mem_of_get h p _ hpne (by rw [hp]; exact hnode)
            have hrel : cfg.ctrOut ++ src.drop cfg.ctrOut.length = src := prefix_append_drop _ _ hcan.pre
            have := hdirect (p, .link abs t) hmem abs t rfl (src.drop cfg.ctrOut.length) (by rw [hp]; rfl)
            rw [hrel] at this
            obtain ⟨_, m', hsm', _, _⟩ := hin
            exact this (srcMount_mem cfg _ _ hsm').2.1
        | dir =>
          simp only at hr
          have hdj : dest ≠ [] → DirJust h cfg dest := fun hne => ⟨hne, src, hsh, hnode⟩
          split at hr
          · rename_i hnil
            cases hr
            refine (hja.addDir dest hdj).addKeep dest ?_
            intro hne
            exact ⟨dest, src, rfl, hne, hsh, hnode, by rw [← hp]; exact hnil⟩
          · refine ih _ _ _ hr ?_ (hja.addDir dest hdj)
            refine ⟨hsh, hcan, hnode, ?_⟩
            intro c hc
            rw [mem_sortNames] at hc
            obtain ⟨nd, hmem⟩ := mem_children h p c hc
            refine ⟨hwf.clean _ hmem c (by simp), nd, ?_⟩
            unfold nodeAt
            rw [hostPath_child cfg src c hcan.pre, ← hp]
            exact get_of_mem h hwf _ _ hmem
    | children dest src n names =>
      cases names with
      | nil => rw [walk] at hw; cases hw; exact hj
      | cons name names =>
        obtain ⟨hsh, hcan, hdir, hall⟩ := hcj
        rw [walk] at hw
        have hrest : CallJust h cfg (.children dest src n names) :=
          ⟨hsh, hcan, hdir, fun c hc => hall c (List.mem_cons_of_mem _ hc)⟩
        split at hw
        · exact ih _ _ _ hw hrest hj
        · rename_i hsec
          split at hw
          · exact ih _ _ _ hw hrest hj
          · rename_i hskip
            obtain ⟨a, ha, hr⟩ := bind_eq_ok _ _ _ hw
            obtain ⟨hcl, hex⟩ := hall name (List.mem_cons_self ..)
            refine ih _ _ _ hr hrest (ih _ _ _ ha ?_ hj)
            exact ⟨Shows.child hsh hdir hex (by simpa using hsec) (by simpa using hskip),
                   hcan.child name hcl hdir⟩

end ArvVerif.C17
