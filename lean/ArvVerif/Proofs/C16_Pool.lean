/-
C16: `CreateMonotone` derived from the model of `Pool.Create` / `throttle` (Model/C16_Pool.lean):
at a frozen clock, a Create that failed keeps failing for the rest of the pass.
-/
import ArvVerif.Model.C16_Pool
namespace ArvVerif.C16.RQ

theorem realPool_create_fails_iff (t : Nat) (p : RPool) :
    (realPool.create t p).1 = false ↔ createBlocked p := by
  unfold realPool createBlocked
  dsimp only
  by_cases h1 : p.now < p.atQuotaUntil
  · simp [h1]
  · by_cases h2 : p.throttled = true
    · simp [h1, h2]
    · by_cases h3 : 0 < p.maxOps ∧ p.maxOps ≤ p.creating
      · simp [h1, h2, h3]
      · simp [h1, h2, h3]

theorem throttled_of_fields {q : RPool} (he : q.thrErr = true) (hu : q.now ≤ q.thrUntil) :
    q.throttled = true := by
  unfold RPool.throttled
  simp only [he, Bool.true_and, Bool.not_eq_true', decide_eq_false_iff_not]
  omega

theorem realPool_create_keeps_blocked (t : Nat) (p : RPool) (h : createBlocked p) :
    createBlocked (realPool.create t p).2 := by
  by_cases h1 : p.now < p.atQuotaUntil
  · have : (realPool.create t p).2 = p := by unfold realPool; simp [h1]
    rw [this]; exact h
  · by_cases h2 : p.throttled = true
    · have : (realPool.create t p).2 = { p with thrErr := p.throttled } := by unfold realPool; simp [h1, h2]
      rw [this]
      right; left
      have hu : p.now ≤ p.thrUntil := by
        unfold RPool.throttled at h2
        simp only [Bool.and_eq_true, Bool.not_eq_true', decide_eq_false_iff_not] at h2
        omega
      exact throttled_of_fields h2 hu
    · by_cases h3 : 0 < p.maxOps ∧ p.maxOps ≤ p.creating
      · have : (realPool.create t p).2 =
            { p with thrErr := true, thrUntil := p.now + createOpsHoldoff } := by
          unfold realPool; simp [h1, h2, h3]
        rw [this]
        right; left
        exact throttled_of_fields rfl (Nat.le_add_right _ _)
      · rcases h with h | h | h
        · exact (h1 h).elim
        · exact (h2 h).elim
        · exact (h3 h).elim

/-- the real pool's Create failures are monotone within a pass (frozen clock, no cloud responses) -/
theorem realPool_createMonotone : CreateMonotone realPool createBlocked where
  enter := fun t s h =>
    realPool_create_keeps_blocked t s ((realPool_create_fails_iff t s).mp h)
  fail := fun t s h => (realPool_create_fails_iff t s).mpr h
  keepQ := fun s h => h
  keepC := fun t s h => realPool_create_keeps_blocked t s h
  keepK := fun _ _ s h => h
  keepS := fun t u s h => by
    unfold realPool
    dsimp only
    by_cases hi : s.idle t = 0
    · rw [if_pos hi]; exact h
    · rw [if_neg hi]; exact h

end ArvVerif.C16.RQ
