/-
C05 helper lemmas, part 2: the protection argument behind `C05_trash_safe_partial`.

With one mount per server and no device mounted twice, the first pass of a class iteration visits
the in-class slots first (sort key 1) and calls trySlot on each of them until `done`; every visited
slot that holds a replica is entered into unsafeToDelete while `replProt < desired`. So after the
in-class prefix either the protected in-class replication already reaches `desired`, or every
in-class replica is protected. unsafeToDelete only grows afterwards, and a replica whose mtime is in
it is never trashed.
-/
import ArvVerif.Proofs.C05
namespace ArvVerif.C05

/-! ### sums over slot lists -/

def ssum (g : Slot → Nat) (l : List Slot) : Nat := (l.map g).sum

@[simp] theorem ssum_nil (g : Slot → Nat) : ssum g [] = 0 := rfl
@[simp] theorem ssum_cons (g : Slot → Nat) (s : Slot) (l : List Slot) : ssum g (s :: l) = g s + ssum g l := by
  simp [ssum]

theorem ssum_append (g : Slot → Nat) (l₁ l₂ : List Slot) : ssum g (l₁ ++ l₂) = ssum g l₁ + ssum g l₂ := by
  induction l₁ with
  | nil => simp
  | cons a l ih => simp [ih, Nat.add_assoc]

theorem ssum_perm (g : Slot → Nat) {l₁ l₂ : List Slot} (h : l₁.Perm l₂) : ssum g l₁ = ssum g l₂ :=
  (h.map g).sum_nat

theorem ssum_le (g₁ g₂ : Slot → Nat) (l : List Slot) (h : ∀ s ∈ l, g₁ s ≤ g₂ s) : ssum g₁ l ≤ ssum g₂ l := by
  induction l with
  | nil => simp
  | cons a l ih =>
    simp only [ssum_cons]
    have h1 := h a (List.mem_cons_self ..)
    have h2 := ih (fun s hs => h s (List.mem_cons_of_mem _ hs))
    omega

theorem ssum_congr (g₁ g₂ : Slot → Nat) (l : List Slot) (h : ∀ s ∈ l, g₁ s = g₂ s) : ssum g₁ l = ssum g₂ l := by
  apply Nat.le_antisymm
  · exact ssum_le _ _ _ (fun s hs => Nat.le_of_eq (h s hs))
  · exact ssum_le _ _ _ (fun s hs => Nat.le_of_eq (h s hs).symm)

theorem ssum_map (g : Slot → Nat) (f : Slot → Slot) (l : List Slot) : ssum g (l.map f) = ssum (fun s => g (f s)) l := by
  induction l with
  | nil => rfl
  | cons a l ih => simp [ih]

theorem ssum_filter_le (g : Slot → Nat) (p : Slot → Bool) (l : List Slot) : ssum g (l.filter p) ≤ ssum g l := by
  induction l with
  | nil => simp
  | cons a l ih =>
    by_cases hp : p a = true
    · simp only [List.filter_cons, hp, if_true, ssum_cons]; omega
    · simp only [List.filter_cons, hp, ssum_cons]; simp; omega

/-- in-class replication held on slots whose mtime is in `u` (the protected part) -/
def protTerm (c : Class) (u : List Int) (s : Slot) : Nat :=
  match s.repl with
  | some t => if inClass c s.mnt && u.contains t then s.mnt.repl else 0
  | none => 0

/-- in-class replication held anywhere -/
def haveTerm (c : Class) (s : Slot) : Nat :=
  if s.repl.isSome && inClass c s.mnt then s.mnt.repl else 0

def AllProt (c : Class) (u : List Int) (l : List Slot) : Prop :=
  ∀ s ∈ l, inClass c s.mnt = true → ∀ t, s.repl = some t → t ∈ u

theorem classRepl_eq_ssum (c : Class) (l : List Slot) : classRepl c l = ssum (haveTerm c) l := by
  induction l with
  | nil => rfl
  | cons a l ih => rw [classRepl_cons, ssum_cons, ih]; rfl

theorem protTerm_some (c : Class) (u : List Int) (s : Slot) (t : Int) (h : s.repl = some t) :
    protTerm c u s = if (inClass c s.mnt && u.contains t) = true then s.mnt.repl else 0 := by
  unfold protTerm; rw [h]

theorem protTerm_none (c : Class) (u : List Int) (s : Slot) (h : s.repl = none) : protTerm c u s = 0 := by
  unfold protTerm; rw [h]

theorem protTerm_mono (c : Class) {u u' : List Int} (h : ∀ t ∈ u, t ∈ u') (s : Slot) :
    protTerm c u s ≤ protTerm c u' s := by
  cases hr : s.repl with
  | none => rw [protTerm_none c u s hr]; exact Nat.zero_le _
  | some t =>
    rw [protTerm_some c u s t hr, protTerm_some c u' s t hr]
    cases hc : inClass c s.mnt
    · simp only [Bool.false_and, Bool.false_eq_true, if_false]; exact Nat.le_refl _
    · cases hu : u.contains t
      · simp only [Bool.and_false, Bool.false_eq_true, if_false]; exact Nat.zero_le _
      · have : u'.contains t = true := List.contains_iff_mem.2 (h t (List.contains_iff_mem.1 hu))
        rw [this]; exact Nat.le_refl _

theorem haveTerm_some (c : Class) (s : Slot) (t : Int) (h : s.repl = some t) :
    haveTerm c s = if inClass c s.mnt = true then s.mnt.repl else 0 := by
  unfold haveTerm; rw [h]; simp

theorem haveTerm_none (c : Class) (s : Slot) (h : s.repl = none) : haveTerm c s = 0 := by
  unfold haveTerm; rw [h]; simp

theorem protTerm_le_have (c : Class) (u : List Int) (s : Slot) : protTerm c u s ≤ haveTerm c s := by
  cases hr : s.repl with
  | none => rw [protTerm_none c u s hr]; exact Nat.zero_le _
  | some t =>
    rw [protTerm_some c u s t hr, haveTerm_some c s t hr]
    cases hc : inClass c s.mnt
    · simp
    · cases hu : u.contains t <;> simp

theorem protTerm_of_allProt (c : Class) (u : List Int) (l : List Slot) (h : AllProt c u l) :
    ∀ s ∈ l, protTerm c u s = haveTerm c s := by
  intro s hs
  cases hr : s.repl with
  | none => rw [protTerm_none c u s hr, haveTerm_none c s hr]
  | some t =>
    rw [protTerm_some c u s t hr, haveTerm_some c s t hr]
    cases hc : inClass c s.mnt
    · simp
    · have : u.contains t = true := List.contains_iff_mem.2 (h s hs hc t hr)
      rw [this]; simp

/-! ### layouts with one mount per server and no shared device -/

/-- two mounts that are different objects, on different servers, not views of one device -/
def Apart (a b : Mount) : Prop := a.id ≠ b.id ∧ a.srv ≠ b.srv ∧ (a.dev = b.dev → a.dev = 0)

theorem Apart.symm {a b : Mount} (h : Apart a b) : Apart b a :=
  ⟨fun e => h.1 e.symm, fun e => h.2.1 e.symm, fun e => by rw [e]; exact h.2.2 e.symm⟩

/-- a pass state has not yet touched any slot of `l` -/
def Fresh (l : List Slot) (st : PassSt) : Prop :=
  ∀ s ∈ l, st.wantSrv.contains s.mnt.srv = false ∧ st.wantMnt.contains s.mnt.id = false ∧
    st.wantDev.contains s.mnt.dev = false ∧ st.protMnt.contains s.mnt.id = false

theorem replProt_protectStep (d : Nat) (s : Slot) (st : PassSt) : st.replProt ≤ (protectStep d s st).replProt := by
  unfold protectStep
  split
  · split
    · simp
    · exact Nat.le_refl _
  · exact Nat.le_refl _

@[simp] theorem wantStep_replProt (d : Nat) (s : Slot) (st : PassSt) : (wantStep d s st).replProt = st.replProt := by
  unfold wantStep; split <;> rfl

@[simp] theorem wantStep_protMnt (d : Nat) (s : Slot) (st : PassSt) : (wantStep d s st).protMnt = st.protMnt := by
  unfold wantStep; split <;> rfl

theorem replProt_trySlot (d : Nat) (s : Slot) (st : PassSt) : st.replProt ≤ (trySlot d s st).replProt := by
  unfold trySlot
  split
  · exact Nat.le_refl _
  · simp only [wantStep_replProt]; exact replProt_protectStep d s st

theorem replProt_pass1Step (d : Nat) (st : PassSt) (s : Slot) : st.replProt ≤ (pass1Step d st s).replProt := by
  unfold pass1Step
  split
  · exact Nat.le_refl _
  · split
    · exact Nat.le_refl _
    · exact replProt_trySlot d s st

theorem replProt_pass1 (d : Nat) (l : List Slot) : ∀ st : PassSt, st.replProt ≤ (pass1 d l st).replProt := by
  induction l with
  | nil => intro st; exact Nat.le_refl _
  | cons s l ih =>
    intro st
    show st.replProt ≤ (pass1 d l (pass1Step d st s)).replProt
    exact Nat.le_trans (replProt_pass1Step d st s) (ih _)

theorem pass1_done (d : Nat) (l : List Slot) : ∀ st : PassSt, st.done = true → pass1 d l st = st := by
  induction l with
  | nil => intro st _; rfl
  | cons s l ih =>
    intro st h
    show pass1 d l (pass1Step d st s) = st
    have : pass1Step d st s = st := by unfold pass1Step; simp [h]
    rw [this]; exact ih st h

/-- what trySlot does to a slot the pass has not touched yet -/
theorem trySlot_fresh (d : Nat) (s : Slot) (st : PassSt)
    (hm : st.wantMnt.contains s.mnt.id = false) (hd : st.wantDev.contains s.mnt.dev = false) :
    trySlot d s st =
      { wantStep d s (protectStep d s st) with
        done := decide (d ≤ (wantStep d s (protectStep d s st)).replProt) &&
                decide (d ≤ (wantStep d s (protectStep d s st)).replWant) } := by
  unfold trySlot
  rw [hm, hd]
  simp only [Bool.or_false, Bool.false_eq_true, if_false]

theorem protectStep_fresh (d : Nat) (s : Slot) (st : PassSt) (hp : st.protMnt.contains s.mnt.id = false) :
    (∀ t, s.repl = some t → d ≤ st.replProt ∨ t ∈ (protectStep d s st).utd) ∧
    (∀ t, s.repl = some t → (protectStep d s st).replProt ≤ st.replProt +
        (if (protectStep d s st).utd.contains t = true then s.mnt.repl else 0)) ∧
    (s.repl = none → (protectStep d s st).replProt = st.replProt) := by
  unfold protectStep
  cases hr : s.repl with
  | none => simp
  | some t =>
    simp only [hp]
    by_cases hlt : st.replProt < d
    · simp [hlt]
    · simp only [hlt, decide_false, Bool.false_and, Bool.false_eq_true, if_false]
      refine ⟨?_, ?_, ?_⟩
      · intro t' _; left; omega
      · intro t' _; split <;> omega
      · intro h; cases h

@[simp] theorem protectStep_wantSrv (d : Nat) (s : Slot) (st : PassSt) : (protectStep d s st).wantSrv = st.wantSrv := by
  unfold protectStep; split <;> (try split) <;> rfl
@[simp] theorem protectStep_wantMnt (d : Nat) (s : Slot) (st : PassSt) : (protectStep d s st).wantMnt = st.wantMnt := by
  unfold protectStep; split <;> (try split) <;> rfl
@[simp] theorem protectStep_wantDev (d : Nat) (s : Slot) (st : PassSt) : (protectStep d s st).wantDev = st.wantDev := by
  unfold protectStep; split <;> (try split) <;> rfl

theorem protectStep_protMnt (d : Nat) (s : Slot) (st : PassSt) (id : Nat) :
    (protectStep d s st).protMnt.contains id = true → st.protMnt.contains id = true ∨ id = s.mnt.id := by
  unfold protectStep
  split
  · split
    · intro h
      simp only [List.contains_cons, Bool.or_eq_true, beq_iff_eq] at h
      rcases h with h | h
      · right; exact h
      · left; exact h
    · intro h; left; exact h
  · intro h; left; exact h

theorem wantStep_lists (d : Nat) (s : Slot) (st : PassSt) :
    (∀ x, (wantStep d s st).wantSrv.contains x = true → st.wantSrv.contains x = true ∨ x = s.mnt.srv) ∧
    (∀ x, (wantStep d s st).wantMnt.contains x = true → st.wantMnt.contains x = true ∨ x = s.mnt.id) ∧
    (∀ x, (wantStep d s st).wantDev.contains x = true → st.wantDev.contains x = true ∨ (x = s.mnt.dev ∧ x ≠ 0)) := by
  unfold wantStep
  split
  · refine ⟨?_, ?_, ?_⟩
    · intro x h
      simp only [List.contains_cons, Bool.or_eq_true, beq_iff_eq] at h
      rcases h with h | h
      · right; exact h
      · left; exact h
    · intro x h
      simp only [List.contains_cons, Bool.or_eq_true, beq_iff_eq] at h
      rcases h with h | h
      · right; exact h
      · left; exact h
    · intro x h
      by_cases h0 : (s.mnt.dev != 0) = true
      · simp only [h0, if_true, List.contains_cons, Bool.or_eq_true, beq_iff_eq] at h
        rcases h with h | h
        · right; exact ⟨h, by simpa [h] using h0⟩
        · left; exact h
      · simp only [h0] at h; left; exact h
  · exact ⟨fun x h => Or.inl h, fun x h => Or.inl h, fun x h => Or.inl h⟩

/-- after trySlot on `s`, the state is still fresh for slots apart from `s` -/
theorem fresh_after (d : Nat) (s : Slot) (rest : List Slot) (st : PassSt)
    (hap : ∀ b ∈ rest, Apart s.mnt b.mnt) (hf : Fresh (s :: rest) st) :
    Fresh rest (trySlot d s st) := by
  have hs := hf s (List.mem_cons_self ..)
  rw [trySlot_fresh d s st hs.2.1 hs.2.2.1]
  intro b hb
  have hbf := hf b (List.mem_cons_of_mem _ hb)
  have hab := hap b hb
  obtain ⟨w1, w2, w3⟩ := wantStep_lists d s (protectStep d s st)
  refine ⟨?_, ?_, ?_, ?_⟩
  · cases h : (wantStep d s (protectStep d s st)).wantSrv.contains b.mnt.srv with
    | false => rfl
    | true =>
      rcases w1 _ h with h' | h'
      · simp only [protectStep_wantSrv] at h'; rw [hbf.1] at h'; cases h'
      · exact absurd h'.symm hab.2.1
  · cases h : (wantStep d s (protectStep d s st)).wantMnt.contains b.mnt.id with
    | false => rfl
    | true =>
      rcases w2 _ h with h' | h'
      · simp only [protectStep_wantMnt] at h'; rw [hbf.2.1] at h'; cases h'
      · exact absurd h'.symm hab.1
  · cases h : (wantStep d s (protectStep d s st)).wantDev.contains b.mnt.dev with
    | false => rfl
    | true =>
      rcases w3 _ h with h' | h'
      · simp only [protectStep_wantDev] at h'; rw [hbf.2.2.1] at h'; cases h'
      · have := hab.2.2 h'.1.symm
        exact absurd (h'.1.trans this) h'.2
  · cases h : (wantStep d s (protectStep d s st)).protMnt.contains b.mnt.id with
    | false => rfl
    | true =>
      simp only [wantStep_protMnt] at h
      rcases protectStep_protMnt d s st _ h with h' | h'
      · rw [hbf.2.2.2] at h'; cases h'
      · exact absurd h'.symm hab.1

/-- The first pass over a list of in-class slots it has not touched: the gain in `replProt` is
covered by protected in-class replicas of that list, and unless the pass was already finished,
either `replProt` reaches `d` or every replica of the list is protected. -/
theorem pass1_inclass (c : Class) (d : Nat) :
    ∀ (A : List Slot) (st : PassSt), (A.map (·.mnt)).Pairwise Apart → Fresh A st →
      (∀ s ∈ A, inClass c s.mnt = true) →
      (pass1 d A st).replProt ≤ st.replProt + ssum (protTerm c (pass1 d A st).utd) A ∧
      (st.done = false → d ≤ (pass1 d A st).replProt ∨ AllProt c (pass1 d A st).utd A) := by
  intro A
  induction A with
  | nil =>
    intro st _ _ _
    refine ⟨by simp [pass1], fun _ => Or.inr ?_⟩
    intro s hs; cases hs
  | cons s rest ih =>
    intro st hpw hf hin
    by_cases hdone : st.done = true
    · rw [pass1_done d _ st hdone]
      exact ⟨Nat.le_add_right _ _, fun h => by rw [hdone] at h; cases h⟩
    · have hdone' : st.done = false := Bool.eq_false_iff.mpr hdone
      have hs := hf s (List.mem_cons_self ..)
      have hstep : pass1Step d st s = trySlot d s st := by
        unfold pass1Step; rw [hdone', hs.1]; simp only [Bool.false_eq_true, if_false]
      have hpw' := List.pairwise_cons.1 (show (s.mnt :: rest.map (·.mnt)).Pairwise Apart from hpw)
      have hap : ∀ b ∈ rest, Apart s.mnt b.mnt := by
        intro b hb
        exact hpw'.1 b.mnt (List.mem_map.2 ⟨b, hb, rfl⟩)
      have hfr : Fresh rest (trySlot d s st) := fresh_after d s rest st hap hf
      have hin' : ∀ b ∈ rest, inClass c b.mnt = true := fun b hb => hin b (List.mem_cons_of_mem _ hb)
      have IH := ih (trySlot d s st) hpw'.2 hfr hin'
      have hunf : pass1 d (s :: rest) st = pass1 d rest (trySlot d s st) := by
        show pass1 d rest (pass1Step d st s) = _
        rw [hstep]
      rw [hunf]
      -- facts about the step on s
      have htry := trySlot_fresh d s st hs.2.1 hs.2.2.1
      have hprot := protectStep_fresh d s st hs.2.2.2
      have hutd1 : (trySlot d s st).utd = (protectStep d s st).utd := by rw [htry]; simp
      have hrp1 : (trySlot d s st).replProt = (protectStep d s st).replProt := by rw [htry]; simp
      have hmono : ∀ t ∈ (trySlot d s st).utd, t ∈ (pass1 d rest (trySlot d s st)).utd :=
        fun t ht => pass1_utd d rest _ t ht
      have hrpmono := replProt_pass1 d rest (trySlot d s st)
      have hcs := hin s (List.mem_cons_self ..)
      constructor
      · -- gain bound
        rw [ssum_cons]
        have hterm : (protectStep d s st).replProt ≤ st.replProt + protTerm c (pass1 d rest (trySlot d s st)).utd s := by
          cases hr : s.repl with
          | none => rw [protTerm_none c _ s hr, hprot.2.2 hr]; exact Nat.le_add_right _ _
          | some t =>
            rw [protTerm_some c _ s t hr, hcs]
            have h2 := hprot.2.1 t hr
            cases hc : (protectStep d s st).utd.contains t
            · rw [hc] at h2; simp only [Bool.false_eq_true, if_false] at h2; omega
            · have : (pass1 d rest (trySlot d s st)).utd.contains t = true := by
                rw [List.contains_iff_mem] at hc ⊢
                exact hmono t (by rw [hutd1]; exact hc)
              rw [this]; rw [hc] at h2
              simp only [Bool.and_self, if_true] at h2 ⊢
              exact h2
        have h1 := IH.1
        rw [hrp1] at h1
        omega
      · intro _
        by_cases hd1 : (trySlot d s st).done = true
        · left
          have : d ≤ (trySlot d s st).replProt := by
            rw [htry] at hd1 ⊢
            simp only [Bool.and_eq_true, decide_eq_true_eq] at hd1
            exact hd1.1
          omega
        · have hd1' : (trySlot d s st).done = false := Bool.eq_false_iff.mpr hd1
          rcases IH.2 hd1' with h | h
          · left; exact h
          · -- rest is protected; s: protected or replProt ≥ d
            cases hr : s.repl with
            | none =>
              right
              intro b hb hcb t hbt
              rcases List.mem_cons.1 hb with rfl | hb'
              · rw [hr] at hbt; cases hbt
              · exact h b hb' hcb t hbt
            | some t0 =>
              rcases hprot.1 t0 hr with hge | hin0
              · left
                have := replProt_trySlot d s st
                omega
              · right
                intro b hb hcb t hbt
                rcases List.mem_cons.1 hb with rfl | hb'
                · rw [hr] at hbt; cases hbt
                  exact hmono t0 (by rw [hutd1]; exact hin0)
                · exact h b hb' hcb t hbt

/-! ### sortedness puts the in-class slots first -/

theorem sorted_split (env : Env) (c : Class) :
    ∀ (S : List Slot), S.Pairwise (fun a b => less env c b a = false) →
      S = S.filter (fun s => inClass c s.mnt) ++ S.filter (fun s => !inClass c s.mnt) := by
  intro S
  induction S with
  | nil => intro _; rfl
  | cons a l ih =>
    intro h
    have h' := List.pairwise_cons.1 h
    by_cases ha : inClass c a.mnt = true
    · simp only [List.filter_cons, ha, if_true, Bool.not_true, Bool.false_eq_true, if_false, List.cons_append]
      congr 1
      exact ih h'.2
    · have hall : ∀ b ∈ l, inClass c b.mnt = false := by
        intro b hb
        have hl := h'.1 b hb
        cases hcb : inClass c b.mnt with
        | false => rfl
        | true =>
          have ha' : inClass c a.mnt = false := Bool.eq_false_iff.mpr ha
          unfold less at hl
          simp [hcb, ha'] at hl
      have ha' : inClass c a.mnt = false := Bool.eq_false_iff.mpr ha
      have e1 : l.filter (fun s => inClass c s.mnt) = [] := by
        rw [List.filter_eq_nil_iff]; intro b hb; simp [hall b hb]
      have e2 : l.filter (fun s => !inClass c s.mnt) = l := by
        rw [List.filter_eq_self]; intro b hb; simp [hall b hb]
      simp [ha', e1, e2]

theorem fresh_init (l : List Slot) (u : List Int) : Fresh l (passInit u) := by
  intro s _; simp [passInit]

/-- The protection guarantee of one class iteration (one mount per server, no shared device). -/
theorem classIter_protects (env : Env) (c : Class) (S : List Slot) (b : BState)
    (hs : S.Pairwise (fun a b => less env c b a = false))
    (hap : (S.map (·.mnt)).Pairwise Apart) :
    env.desired c ≤ ssum (protTerm c (classIter env c S b).utd) S ∨ AllProt c (classIter env c S b).utd S := by
  have hsplit := sorted_split env c S hs
  generalize hA : S.filter (fun s => inClass c s.mnt) = A at hsplit
  generalize hB : S.filter (fun s => !inClass c s.mnt) = B at hsplit
  have hAin : ∀ s ∈ A, inClass c s.mnt = true := by
    intro s hs'; rw [← hA] at hs'; exact (List.mem_filter.1 hs').2
  have hBout : ∀ s ∈ B, inClass c s.mnt = false := by
    intro s hs'; rw [← hB] at hs'; simpa using (List.mem_filter.1 hs').2
  have hapA : (A.map (·.mnt)).Pairwise Apart := by
    rw [← hA]
    exact hap.sublist ((List.filter_sublist).map _)
  have key := pass1_inclass c (env.desired c) A (passInit b.utd) hapA (fresh_init A b.utd) hAin
  -- pass 1 over S is pass 1 over B after pass 1 over A
  have hp1 : pass1 (env.desired c) S (passInit b.utd) =
      pass1 (env.desired c) B (pass1 (env.desired c) A (passInit b.utd)) := by
    rw [hsplit]; unfold pass1; rw [List.foldl_append]
  have hmono : ∀ t ∈ (pass1 (env.desired c) A (passInit b.utd)).utd, t ∈ (classIter env c S b).utd := by
    intro t ht
    apply classIter_utd_of_pass1
    rw [hp1]
    exact pass1_utd _ _ _ t ht
  have hsumA : ssum (protTerm c (pass1 (env.desired c) A (passInit b.utd)).utd) A ≤
      ssum (protTerm c (classIter env c S b).utd) S := by
    calc ssum (protTerm c (pass1 (env.desired c) A (passInit b.utd)).utd) A
        ≤ ssum (protTerm c (classIter env c S b).utd) A :=
          ssum_le _ _ _ (fun s _ => protTerm_mono c hmono s)
      _ ≤ ssum (protTerm c (classIter env c S b).utd) S := by
          generalize protTerm c (classIter env c S b).utd = g
          have e : ssum g S = ssum g A + ssum g B := by
            have := congrArg (ssum g) hsplit
            rwa [ssum_append] at this
          omega
  rcases key.2 rfl with h | h
  · left
    have h1 := key.1
    have h0 : (passInit b.utd).replProt = 0 := rfl
    omega
  · right
    intro s hsS hcs t hst
    rw [hsplit] at hsS
    rcases List.mem_append.1 hsS with hsA | hsB
    · exact hmono t (h s hsA hcs t hst)
    · rw [hBout s hsB] at hcs; cases hcs

end ArvVerif.C05
